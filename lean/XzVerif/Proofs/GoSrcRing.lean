import XzVerif.Gen.GoSrc
import XzVerif.Model.Ring
import XzVerif.Proofs.Ring
/-
  Proofs.GoSrcRing — the REGENERATED translation of the dictionary accessors the per-operation coders use
  (lzma/buffer.go `Cap` / `Available`, lzma/decoderdict.go `dictLen` / `byteAt`, lzma/encoderdict.go `Len` / `Pos` /
  `ByteAt`: signed index arithmetic with the wrap `i += len(data)`, Go's slice bounds check) refines the hand-written
  ring model (Model/Ring.lean); with the ring theorems (Proofs/Ring.lean: the ring represents the last cap+1 bytes of the
  history) `byteAt` from the source is `byteAt` of the history.  Statements are fixed; only proofs may change.
-/
namespace GoSrcP
open GoSrc

/-- the Go buffer `g` is the ring model `m` (same bytes, same indexes) -/
structure BufRel (g : T_buffer) (m : Ring.Buf) : Prop where
  size : g.data.size = m.data.size
  data : ∀ i, i < m.data.size → (g.data.getD i 0#8).toNat = (m.data.get! i).toNat
  front : g.front.toNat = m.front
  rear : g.rear.toNat = m.rear
  small : m.data.size < 2 ^ 62
  fin : m.front < m.data.size
  rin : m.rear < m.data.size

/-- the index computation `i := p - dist; if i < 0 { i += len(data) }; data[i]` never panics -/
theorem index_wrap (data : Array (BitVec 8)) (p dist : BitVec 64) (hsz : data.size < 2 ^ 62)
    (hp : p.toNat < data.size) (hd0 : 0 < dist.toNat) (hd : dist.toNat ≤ data.size - 1) :
    (let i : (BitVec 64) := (p - dist)
     if (BitVec.slt i (0#64)) then
       let i := (i + (BitVec.ofNat 64 data.size))
       let i_2 := (i).toInt.toNat
       if (i).toInt < 0 ∨ data.size ≤ i_2 then Go.Res.panic "index out of range" else
       Go.Res.ok (data.getD i_2 (0#8))
     else
       let i_3 := (i).toInt.toNat
       if (i).toInt < 0 ∨ data.size ≤ i_3 then Go.Res.panic "index out of range" else
       Go.Res.ok (data.getD i_3 (0#8)))
    = Go.Res.ok (data.getD (if dist.toNat ≤ p.toNat then p.toNat - dist.toNat else p.toNat + data.size - dist.toNat) 0#8) := by
  generalize hn : data.size = n at *
  have hnn : (BitVec.ofNat 64 n).toNat = n := by
    rw [BitVec.toNat_ofNat]; omega
  generalize BitVec.ofNat 64 n = nb at *
  by_cases hc : dist.toNat ≤ p.toNat
  · have h1 : BitVec.slt (p - dist) 0#64 = false := by
      simp only [BitVec.slt, BitVec.toInt_eq_toNat_cond, decide_eq_false_iff_not]; bv_omega
    have h2 : (p - dist).toInt = ((p.toNat - dist.toNat : Nat) : Int) := by
      simp only [BitVec.toInt_eq_toNat_cond]; bv_omega
    simp only [h1, h2, if_pos hc, Bool.false_eq_true, if_false, Int.toNat_natCast]
    rw [if_neg (by omega)]
  · have h1 : BitVec.slt (p - dist) 0#64 = true := by
      simp only [BitVec.slt, BitVec.toInt_eq_toNat_cond, decide_eq_true_iff]; bv_omega
    have h2 : (p - dist + nb).toInt = ((p.toNat + n - dist.toNat : Nat) : Int) := by
      simp only [BitVec.toInt_eq_toNat_cond]; bv_omega
    simp only [h1, h2, if_neg hc, if_true, Int.toNat_natCast]
    rw [if_neg (by omega)]

theorem buffer_Available_ring (g : T_buffer) (m : Ring.Buf) (h : BufRel g m) :
    (buffer_Available g).toNat = m.available ∧ (buffer_Cap g).toNat = m.cap := by
  obtain ⟨hs, -, hf, hr, hsm, hfi, hri⟩ := h
  have hnn : (BitVec.ofNat 64 g.data.size).toNat = m.data.size := by
    rw [BitVec.toNat_ofNat]; omega
  unfold buffer_Available buffer_Cap Ring.Buf.available Ring.Buf.cap Ring.Buf.len
  generalize BitVec.ofNat 64 g.data.size = nb at *
  constructor
  · by_cases hc : m.front + 1 ≤ m.rear
    · have h1 : BitVec.slt (g.rear - 1#64 - g.front) 0#64 = false := by
        simp only [BitVec.slt, BitVec.toInt_eq_toNat_cond, decide_eq_false_iff_not]; bv_omega
      simp only [h1, if_pos hc, Bool.false_eq_true, if_false]
      bv_omega
    · have h1 : BitVec.slt (g.rear - 1#64 - g.front) 0#64 = true := by
        simp only [BitVec.slt, BitVec.toInt_eq_toNat_cond, decide_eq_true_iff]; bv_omega
      simp only [h1, if_neg hc, if_true]
      bv_omega
  · bv_omega

theorem guard_eq (dist L : BitVec 64) (hL : L.toNat < 2 ^ 62) :
    (BitVec.slt (0#64) dist && BitVec.sle dist L) = decide (0 < dist.toInt.toNat ∧ dist.toInt.toNat ≤ L.toNat) := by
  rw [Bool.eq_iff_iff]
  simp only [Bool.and_eq_true, decide_eq_true_iff, BitVec.slt, BitVec.sle, BitVec.toInt_eq_toNat_cond]
  have := dist.isLt
  have h0 : (0#64).toNat = 0 := rfl
  simp only [h0]
  split <;> omega

theorem toInt_toNat_pos (dist : BitVec 64) (h : 0 < dist.toInt.toNat) : dist.toInt.toNat = dist.toNat := by
  have := dist.isLt
  simp only [BitVec.toInt_eq_toNat_cond] at h ⊢
  split at h <;> rename_i hc <;> simp only [hc, if_true, if_false] <;> omega

/-- the shape common to `decoderDict.byteAt` and `encoderDict.ByteAt` -/
theorem byteAt_core (g : T_buffer) (m : Ring.Buf) (h : BufRel g m) (p dist L : BitVec 64) (pm : Nat)
    (hp : p.toNat = pm) (hpm : pm < m.data.size) (hL : L.toNat ≤ m.data.size - 1) :
    (if (!((BitVec.slt (0#64) dist) && (BitVec.sle dist L))) then
      Go.Res.ok (0#8)
    else
      let i : (BitVec 64) := (p - dist)
      if (BitVec.slt i (0#64)) then
        let i := (i + (BitVec.ofNat 64 (g.data).size))
        let i_2 := (i).toInt.toNat
        if (i).toInt < 0 ∨ g.data.size ≤ i_2 then Go.Res.panic "index out of range" else
        Go.Res.ok (g.data.getD i_2 (0#8))
      else
        let i_3 := (i).toInt.toNat
        if (i).toInt < 0 ∨ g.data.size ≤ i_3 then Go.Res.panic "index out of range" else
        Go.Res.ok (g.data.getD i_3 (0#8)))
    = Go.Res.ok (BitVec.ofNat 8
        (if 0 < dist.toInt.toNat ∧ dist.toInt.toNat ≤ L.toNat then
          m.data.get! (if dist.toInt.toNat ≤ pm then pm - dist.toInt.toNat else pm + m.len - dist.toInt.toNat)
         else (0 : UInt8)).toNat) := by
  obtain ⟨hs, hdata, -, -, hsm, -, -⟩ := h
  rw [guard_eq dist L (by omega)]
  by_cases hc : 0 < dist.toInt.toNat ∧ dist.toInt.toNat ≤ L.toNat
  · have hd := toInt_toNat_pos dist hc.1
    rw [hd] at hc
    simp only [hc, and_self, decide_true, Bool.not_true, Bool.false_eq_true, if_false, if_true, hd]
    rw [index_wrap g.data p dist (by omega) (by omega) hc.1 (by omega)]
    rw [hp, hs, Ring.Buf.len, ← hdata _ (by split <;> omega), BitVec.ofNat_toNat, BitVec.setWidth_eq]
  · simp only [hc, decide_false, Bool.not_false, if_true, if_false]
    rfl

theorem decoderDict_dictLen_ring (g : T_decoderDict) (m : Ring.DDict) (hb : BufRel g.buf m.buf)
    (hh : g.head.toNat = m.head) (hhl : m.head < 2 ^ 62) :
    (decoderDict_dictLen g).toNat = m.dictLen := by
  have hc := (buffer_Available_ring _ _ hb).2
  have := hb.small
  unfold decoderDict_dictLen Ring.DDict.dictLen
  generalize buffer_Cap g.buf = c at *
  simp only [Ring.Buf.cap] at hc ⊢
  by_cases h : m.head ≥ m.buf.data.size - 1
  · have h1 : BitVec.sle c g.head = true := by
      simp only [BitVec.sle, BitVec.toInt_eq_toNat_cond, decide_eq_true_iff]; bv_omega
    simp only [h1, if_true, hc]; exact (if_pos h).symm
  · have h1 : BitVec.sle c g.head = false := by
      simp only [BitVec.sle, BitVec.toInt_eq_toNat_cond, decide_eq_false_iff_not]; bv_omega
    simp only [h1, Bool.false_eq_true, if_false, hh]; exact (if_neg h).symm

theorem decoderDict_byteAt_ring (g : T_decoderDict) (m : Ring.DDict) (hb : BufRel g.buf m.buf)
    (hh : g.head.toNat = m.head) (hhl : m.head < 2 ^ 62) (dist : BitVec 64) :
    decoderDict_byteAt g dist = Go.Res.ok (BitVec.ofNat 8 (m.byteAt dist.toInt.toNat).toNat) := by
  have hl := decoderDict_dictLen_ring g m hb hh hhl
  have hle : m.dictLen ≤ m.buf.data.size - 1 := by
    unfold Ring.DDict.dictLen Ring.Buf.cap; split <;> omega
  unfold decoderDict_byteAt Ring.DDict.byteAt
  rw [byteAt_core g.buf m.buf hb g.buf.front dist _ m.buf.front hb.front hb.fin (by omega), hl]

theorem encoderDict_Len_ring (g : T_encoderDict) (m : Ring.EDict) (hb : BufRel g.buf m.buf)
    (hh : g.head.toNat = m.head) (hhl : m.head < 2 ^ 62) :
    (encoderDict_Len g).toNat = m.len ∧ m.len ≤ m.buf.data.size - 1 := by
  have hc := (buffer_Available_ring _ _ hb).1
  have hsm := hb.small
  have hav : m.buf.available ≤ m.buf.data.size - 1 := by
    have := hb.fin; have := hb.rin
    unfold Ring.Buf.available Ring.Buf.len; split <;> omega
  unfold encoderDict_Len Ring.EDict.len
  generalize buffer_Available g.buf = c at *
  refine ⟨?_, by omega⟩
  by_cases h : m.head < m.buf.available
  · have h1 : BitVec.slt g.head c = true := by
      simp only [BitVec.slt, BitVec.toInt_eq_toNat_cond, decide_eq_true_iff]; bv_omega
    simp only [h1, if_true, hh]; omega
  · have h1 : BitVec.slt g.head c = false := by
      simp only [BitVec.slt, BitVec.toInt_eq_toNat_cond, decide_eq_false_iff_not]; bv_omega
    simp only [h1, Bool.false_eq_true, if_false, hc]; omega

theorem encoderDict_ByteAt_ring (g : T_encoderDict) (m : Ring.EDict) (hb : BufRel g.buf m.buf)
    (hh : g.head.toNat = m.head) (hhl : m.head < 2 ^ 62) (dist : BitVec 64) :
    encoderDict_ByteAt g dist = Go.Res.ok (BitVec.ofNat 8 (m.byteAt dist.toInt.toNat).toNat)
    ∧ (encoderDict_Pos g).toNat = m.head ∧ (encoderDict_Len g).toNat = m.len := by
  obtain ⟨hl, hle⟩ := encoderDict_Len_ring g m hb hh hhl
  refine ⟨?_, hh, hl⟩
  unfold encoderDict_ByteAt Ring.EDict.byteAt
  rw [byteAt_core g.buf m.buf hb g.buf.rear dist _ m.buf.rear hb.rear hb.rin (by omega), hl]

/-- with the ring theorem: `byteAt` from the source on a decoder dictionary that represents the history `a.W` (window
    `cap`) is the byte `dist` back in the history, 0 outside the window -/
theorem decoderDict_byteAt_history (g : T_decoderDict) (m : Ring.DDict) (a : Ring.Abs) (cap : Nat)
    (hb : BufRel g.buf m.buf) (hh : g.head.toNat = m.head) (hhl : m.head < 2 ^ 62) (rel : m.Rel a cap) (dist : BitVec 64) :
    decoderDict_byteAt g dist = Go.Res.ok (BitVec.ofNat 8
      (if 0 < dist.toInt.toNat ∧ dist.toInt.toNat ≤ min a.W.length cap then a.W[a.W.length - dist.toInt.toNat]! else (0 : UInt8)).toNat) := by
  rw [decoderDict_byteAt_ring g m hb hh hhl dist, Ring.ddict_byteAt m a cap rel]

end GoSrcP
