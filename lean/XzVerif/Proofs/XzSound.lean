import XzVerif.Model.Xz
/-
  Proofs.XzSound — soundness of the checks of the container reader model (Model/Xz.lean, which
  mirrors reader.go / format.go): whenever the model accepts a block / a stream tail, every
  redundant piece of metadata has been verified.  These are the facts behind C04 ("a damaged
  stream never decodes successfully to different content"): acceptance implies that the stored
  check equals the check computed over exactly the delivered bytes, that declared sizes equal
  measured sizes, that paddings are zero, that index and footer agree with the blocks read.
-/
namespace Xz
open Lzma Lzma2

/-- A block is accepted only if padding is zero, the stored check equals the check of the bytes
    delivered for this block, and sizes declared in the block header equal the measured ones. -/
theorem readBlock_sound (strict : Bool) (cap flags : Nat) (hdr : BlockHeader) (r r' : RdState)
    (st : Status) (b : Block) (h : readBlock strict cap flags hdr r = (r', st, some b)) :
    st = .eof ∧
    b.check.toList = (checkValue flags r'.out r.out.size r'.out.size).toList ∧
    b.check = r'.inp.extract (r'.pos - (checkSize flags).getD 0) r'.pos ∧
    (∀ u, hdr.usize = some u → b.usize = u) ∧ (∀ c, hdr.csize = some c → b.csize = c) := by
  unfold readBlock at h
  simp only at h
  generalize Lzma2.decode strict _ r.inp r.pos r.out = dres at h
  obtain ⟨l2, dst⟩ := dres
  simp only at h
  generalize hU : l2.h.out.size - r.out.size = usz at h
  generalize hC : l2.pos - r.pos = csz at h
  repeat' (split at h)
  all_goals first
    | (simp only [Prod.mk.injEq, reduceCtorEq, and_false] at h)
    | skip
  all_goals
    simp only [Option.some.injEq] at h
    obtain ⟨h1, h2, h3⟩ := h
    subst h1 h2 h3
    refine ⟨rfl, ?_, ?_, ?_, ?_⟩
    · simp_all
    · simp
    · intro u hu
      simp_all <;> omega
    · intro c hc
      simp_all <;> omega

theorem readUvarint_go_ok_pos (b : ByteArray) (pos lim : Nat) :
    ∀ (fuel i x s v n : Nat), readUvarint.go b pos lim fuel i x s = .ok v n → i + 1 ≤ n := by
  intro fuel
  induction fuel with
  | zero => intro i x s v n h; simp [readUvarint.go] at h
  | succ f ih =>
    intro i x s v n h
    rw [readUvarint.go] at h
    by_cases h1 : pos + i ≥ lim
    · rw [if_pos h1] at h; simp at h
    · rw [if_neg h1] at h
      by_cases h10 : i ≥ 10
      · rw [if_pos h10] at h; simp at h
      rw [if_neg h10] at h
      simp only at h
      by_cases h2 : get b (pos + i) < 0x80
      · rw [if_pos h2] at h
        split at h
        · simp at h
        · simp only [UvRes.ok.injEq] at h; omega
      · rw [if_neg h2] at h
        have := ih _ _ _ _ _ h
        omega

theorem readUvarint_ok_pos (b : ByteArray) (pos lim v n : Nat)
    (h : readUvarint b pos lim = .ok v n) : 1 ≤ n := by
  unfold readUvarint at h
  have := readUvarint_go_ok_pos _ _ _ _ _ _ _ _ _ h
  omega

theorem recLoop_mono (inp : ByteArray) :
    ∀ (n p : Nat) (acc : Array (Nat × Nat)) (p1 : Nat) (st : Status) (parsed : Array (Nat × Nat)),
      readTail.recLoop inp n p acc = some (p1, st, parsed) → p ≤ p1 := by
  intro n
  induction n with
  | zero =>
    intro p acc p1 st parsed h
    rw [readTail.recLoop.eq_1] at h
    simp only [Option.some.injEq, Prod.mk.injEq] at h
    omega
  | succ n ih =>
    intro p acc p1 st parsed h
    rw [readTail.recLoop.eq_2] at h
    generalize readUvarint inp p inp.size = u1 at h
    cases u1 with
    | eof _ => simp only [Option.some.injEq, Prod.mk.injEq] at h; omega
    | overflow => simp only [Option.some.injEq, Prod.mk.injEq] at h; omega
    | ok a ka =>
      simp only at h
      split at h
      · simp only [Option.some.injEq, Prod.mk.injEq] at h; omega
      · generalize readUvarint inp (p + ka) inp.size = u2 at h
        cases u2 with
        | eof _ => simp only [Option.some.injEq, Prod.mk.injEq] at h; omega
        | overflow => simp only [Option.some.injEq, Prod.mk.injEq] at h; omega
        | ok b kb =>
          simp only at h
          split at h
          · simp only [Option.some.injEq, Prod.mk.injEq] at h; omega
          · have := ih _ _ _ _ _ h
            omega

/-- the tail of `readTail` after the index records have been read: padding, index CRC, footer -/
theorem readTail_sound (flags : Nat) (recs : Array (Nat × Nat)) (r r' : RdState)
    (h : readTail flags recs r = (r', .eof)) :
    r'.inp = r.inp ∧ r'.out = r.out ∧ r'.streams = r.streams ∧
    r.pos + 20 ≤ r'.pos ∧ r'.pos ≤ r.inp.size ∧
    get r.inp (r'.pos - 3) = flags ∧
    get r.inp (r'.pos - 4) = 0 ∧
    sliceEq r.inp (r'.pos - 2) footerMagic = true ∧
    (Hash.crc32 r.inp (r'.pos - 8) (r'.pos - 2)).toNat = le32At r.inp (r'.pos - 12) ∧
    (le32At r.inp (r'.pos - 8) + 1) * 4 = r'.pos - 12 - r.pos ∧
    (Hash.crc32 r.inp r.pos (r'.pos - 16)).toNat = le32At r.inp (r'.pos - 16) ∧
    (checkSize flags).isSome = true ∧
    ∃ k p1 parsed, readUvarint r.inp (r.pos + 1) r.inp.size = .ok recs.size k ∧
      readTail.recLoop r.inp recs.size (r.pos + 1 + k) #[] = some (p1, .eof, parsed) ∧
      parsed.toList = recs.toList ∧
      r'.pos - 16 = p1 + padLen (p1 - r.pos) ∧
      allZero r.inp p1 (r'.pos - 16) = true := by
  unfold readTail at h
  simp only at h
  generalize hu : readUvarint r.inp (r.pos + 1) r.inp.size = u at h
  cases u with
  | eof _ => simp only [Prod.mk.injEq, reduceCtorEq, and_false] at h
  | overflow => simp only [Prod.mk.injEq, reduceCtorEq, and_false] at h
  | ok cnt k =>
    simp only at h
    by_cases hc : cnt ≠ recs.size
    · rw [if_pos hc] at h
      simp only [Prod.mk.injEq, reduceCtorEq, and_false] at h
    · rw [if_neg hc] at h
      have hc' : cnt = recs.size := by omega
      subst hc'
      have hk := readUvarint_ok_pos _ _ _ _ _ hu
      generalize hl : readTail.recLoop r.inp recs.size (r.pos + 1 + k) #[] = lr at h
      split at h
      · simp only [Prod.mk.injEq, reduceCtorEq, and_false] at h
      · simp only [Prod.mk.injEq, reduceCtorEq, and_false] at h
      · rename_i p1 parsed
        have hm := recLoop_mono _ _ _ _ _ _ _ hl
        have hp : p1 - (r.pos + 1) + 1 = p1 - r.pos := by omega
        rw [hp] at h
        generalize hpc : p1 + padLen (p1 - r.pos) = pc at h
        by_cases c1 : pc > r.inp.size
        · rw [if_pos c1] at h; simp only [Prod.mk.injEq, reduceCtorEq, and_false] at h
        rw [if_neg c1] at h
        by_cases c2 : (!allZero r.inp p1 pc) = true
        · rw [if_pos c2] at h; simp only [Prod.mk.injEq, reduceCtorEq, and_false] at h
        rw [if_neg c2] at h
        by_cases c3 : pc + 4 > r.inp.size
        · rw [if_pos c3] at h; simp only [Prod.mk.injEq, reduceCtorEq, and_false] at h
        rw [if_neg c3] at h
        by_cases c4 : (Hash.crc32 r.inp r.pos pc).toNat ≠ le32At r.inp pc
        · rw [if_pos c4] at h; simp only [Prod.mk.injEq, reduceCtorEq, and_false] at h
        rw [if_neg c4] at h
        by_cases c45 : parsed.toList ≠ recs.toList
        · rw [if_pos c45] at h; simp only [Prod.mk.injEq, reduceCtorEq, and_false] at h
        rw [if_neg c45] at h
        by_cases c5 : pc + 4 + 12 > r.inp.size
        · rw [if_pos c5] at h; simp only [Prod.mk.injEq, reduceCtorEq, and_false] at h
        rw [if_neg c5] at h
        by_cases c6 : (!sliceEq r.inp (pc + 4 + 10) footerMagic) = true
        · rw [if_pos c6] at h; simp only [Prod.mk.injEq, reduceCtorEq, and_false] at h
        rw [if_neg c6] at h
        by_cases c7 : (Hash.crc32 r.inp (pc + 4 + 4) (pc + 4 + 10)).toNat ≠ le32At r.inp (pc + 4)
        · rw [if_pos c7] at h; simp only [Prod.mk.injEq, reduceCtorEq, and_false] at h
        rw [if_neg c7] at h
        by_cases c8 : get r.inp (pc + 4 + 8) ≠ 0
        · rw [if_pos c8] at h; simp only [Prod.mk.injEq, reduceCtorEq, and_false] at h
        rw [if_neg c8] at h
        by_cases c9 : (checkSize (get r.inp (pc + 4 + 9))).isNone = true
        · rw [if_pos c9] at h; simp only [Prod.mk.injEq, reduceCtorEq, and_false] at h
        rw [if_neg c9] at h
        by_cases c10 : get r.inp (pc + 4 + 9) ≠ flags
        · rw [if_pos c10] at h; simp only [Prod.mk.injEq, reduceCtorEq, and_false] at h
        rw [if_neg c10] at h
        by_cases c11 : (le32At r.inp (pc + 4 + 4) + 1) * 4 ≠ pc + 4 - r.pos
        · rw [if_pos c11] at h; simp only [Prod.mk.injEq, reduceCtorEq, and_false] at h
        rw [if_neg c11] at h
        simp only [Prod.mk.injEq, and_true] at h
        subst h
        simp only
        have hpp : p1 ≤ pc := by omega
        have e3 : pc + 4 + 12 - 3 = pc + 4 + 9 := by omega
        have e4 : pc + 4 + 12 - 4 = pc + 4 + 8 := by omega
        have e2 : pc + 4 + 12 - 2 = pc + 4 + 10 := by omega
        have e8 : pc + 4 + 12 - 8 = pc + 4 + 4 := by omega
        have e12 : pc + 4 + 12 - 12 = pc + 4 := by omega
        have e16 : pc + 4 + 12 - 16 = pc := by omega
        rw [e3, e4, e2, e8, e12, e16]
        have c10' : get r.inp (pc + 4 + 9) = flags := by simpa using c10
        refine ⟨trivial, trivial, trivial, ?_, by omega, c10', by simpa using c8, by simpa using c6,
          by simpa using c7, ?_, by simpa using c4, ?_, k, p1, parsed, rfl, hl, by simpa using c45, hpc.symm,
          by simpa using c2⟩
        · omega
        · omega
        · rw [← c10']
          cases hcs : checkSize (get r.inp (pc + 4 + 9)) with
          | none => simp [hcs] at c9
          | some _ => rfl
      · rename_i hne1 hne2
        simp only [Prod.mk.injEq] at h
        obtain ⟨_, h2⟩ := h
        subst h2
        first
          | exact (hne2 _ _ rfl).elim
          | exact (hne2 _ rfl).elim
          | exact (hne2 rfl).elim
          | exact (hne1 _ _ rfl).elim

/-- the optional size field of a block header: present iff the flag bit is set, below 2^63 -/
theorem sizeField_sound (c : Prop) [Decidable c] (inp : ByteArray) (p lim : Nat) (v : Option Nat) (p' : Nat)
    (h : (if c then
        match readUvarint inp p lim with
        | .ok x k => if x ≥ 2 ^ 63 then none else some (some x, p + k)
        | _ => none
      else some (none, p)) = some (v, p')) :
    (c ↔ v.isSome = true) ∧ (∀ x, v = some x → x < 2 ^ 63) ∧ p ≤ p' := by
  by_cases hc : c
  · rw [if_pos hc] at h
    generalize readUvarint inp p lim = u at h
    cases u with
    | eof _ => simp only [reduceCtorEq] at h
    | overflow => simp only [reduceCtorEq] at h
    | ok x k =>
      simp only at h
      split at h
      · simp only [reduceCtorEq] at h
      · simp only [Option.some.injEq, Prod.mk.injEq] at h
        obtain ⟨h1, h2⟩ := h
        subst h1 h2
        refine ⟨by simp [hc], ?_, by omega⟩
        intro y hy
        simp only [Option.some.injEq] at hy
        omega
  · rw [if_neg hc] at h
    simp only [Option.some.injEq, Prod.mk.injEq] at h
    obtain ⟨h1, h2⟩ := h
    subst h1 h2
    refine ⟨by simp [hc], ?_, by omega⟩
    intro y hy
    simp only [reduceCtorEq] at hy

theorem readBlockHeader_ok_sound (strict : Bool) (inp : ByteArray) (pos : Nat) (hd : BlockHeader)
    (h : readBlockHeader strict inp pos = .ok hd) :
    pos + hd.len ≤ inp.size ∧ hd.len = (get inp pos + 1) * 4 ∧ get inp pos ≠ 0 ∧
    (Hash.crc32 inp pos (pos + hd.len - 4)).toNat = le32At inp (pos + hd.len - 4) ∧
    get inp (pos + 1) &&& 0x3C = 0 ∧ get inp (pos + 1) &&& 0x03 = 0 ∧ hd.dictCode ≤ 40 ∧
    (get inp (pos + 1) &&& 0x40 ≠ 0 ↔ hd.csize.isSome = true) ∧
    (get inp (pos + 1) &&& 0x80 ≠ 0 ↔ hd.usize.isSome = true) ∧
    (∀ c, hd.csize = some c → c < 2 ^ 63) ∧ (∀ u, hd.usize = some u → u < 2 ^ 63) ∧
    (strict = true → hd.csize ≠ some 0) := by
  unfold readBlockHeader at h
  simp only at h
  by_cases c1 : pos ≥ inp.size
  · rw [if_pos c1] at h; simp only [reduceCtorEq] at h
  rw [if_neg c1] at h
  by_cases c2 : get inp pos = 0
  · rw [if_pos c2] at h; simp only [reduceCtorEq] at h
  rw [if_neg c2] at h
  by_cases c3 : pos + (get inp pos + 1) * 4 > inp.size
  · rw [if_pos c3] at h; simp only [reduceCtorEq] at h
  rw [if_neg c3] at h
  generalize hn : (get inp pos + 1) * 4 = len at h c3
  by_cases c4 : (Hash.crc32 inp pos (pos + (len - 4))).toNat ≠ le32At inp (pos + (len - 4))
  · rw [if_pos c4] at h; simp only [reduceCtorEq] at h
  rw [if_neg c4] at h
  by_cases c5 : get inp (pos + 1) &&& 0x3C ≠ 0
  · rw [if_pos c5] at h; simp only [reduceCtorEq] at h
  rw [if_neg c5] at h
  generalize hr1 : (if get inp (pos + 1) &&& 0x40 ≠ 0 then
        match readUvarint inp (pos + 2) (pos + (len - 4)) with
        | .ok x k => if x ≥ 2 ^ 63 then none else some (some x, pos + 2 + k)
        | _ => none
      else some (none, pos + 2) : Option (Option Nat × Nat)) = r1 at h
  cases r1 with
  | none => simp only [reduceCtorEq] at h
  | some v1 =>
  obtain ⟨cs, p1⟩ := v1
  simp only at h
  have f1 := sizeField_sound _ _ _ _ _ _ hr1
  generalize hr2 : (if get inp (pos + 1) &&& 0x80 ≠ 0 then
        match readUvarint inp p1 (pos + (len - 4)) with
        | .ok x k => if x ≥ 2 ^ 63 then none else some (some x, p1 + k)
        | _ => none
      else some (none, p1) : Option (Option Nat × Nat)) = r2 at h
  cases r2 with
  | none => simp only [reduceCtorEq] at h
  | some v2 =>
  obtain ⟨us, p2⟩ := v2
  simp only at h
  have f2 := sizeField_sound _ _ _ _ _ _ hr2
  by_cases c6 : get inp (pos + 1) &&& 0x03 ≠ 0
  · rw [if_pos c6] at h; simp only [reduceCtorEq] at h
  rw [if_neg c6] at h
  generalize readUvarint inp p2 (pos + (len - 4)) = u3 at h
  cases u3 with
  | eof _ => simp only [reduceCtorEq] at h
  | overflow => simp only [reduceCtorEq] at h
  | ok id k =>
  simp only at h
  by_cases c7 : id ≠ 0x21
  · rw [if_pos c7] at h; simp only [reduceCtorEq] at h
  rw [if_neg c7] at h
  by_cases c8 : p2 + k + 2 > pos + (len - 4)
  · rw [if_pos c8] at h; simp only [reduceCtorEq] at h
  rw [if_neg c8] at h
  by_cases c9 : get inp (p2 + k) ≠ 1
  · rw [if_pos c9] at h; simp only [reduceCtorEq] at h
  rw [if_neg c9] at h
  by_cases c10 : get inp (p2 + k + 1) > 40
  · rw [if_pos c10] at h; simp only [reduceCtorEq] at h
  rw [if_neg c10] at h
  by_cases c11 : (!allZero inp (p2 + k + 2) (pos + (len - 4))) = true
  · rw [if_pos c11] at h; simp only [reduceCtorEq] at h
  rw [if_neg c11] at h
  by_cases c12 : strict = true ∧ cs = some 0
  · rw [if_pos c12] at h; simp only [reduceCtorEq] at h
  rw [if_neg c12] at h
  simp only [HdrRes.ok.injEq] at h
  subst h
  simp only
  have hl : pos + len - 4 = pos + (len - 4) := by omega
  rw [hl]
  refine ⟨by omega, trivial, c2, by simpa using c4, by simpa using c5, by simpa using c6, by omega,
    f1.1, f2.1, f1.2.1, f2.2.1, ?_⟩
  intro hs hcs
  exact c12 ⟨hs, hcs⟩

theorem readBlock_inp (strict : Bool) (cap flags : Nat) (hdr : BlockHeader) (r : RdState) :
    (readBlock strict cap flags hdr r).1.inp = r.inp ∧
    (readBlock strict cap flags hdr r).1.streams = r.streams := by
  unfold readBlock
  simp only
  generalize Lzma2.decode strict _ r.inp r.pos r.out = dres
  obtain ⟨l2, dst⟩ := dres
  simp only
  repeat' split
  all_goals exact ⟨rfl, rfl⟩

theorem ite_pair_cases {α β : Type} {c : Prop} [Decidable c] {a : α} {s : β} {x y : α × β}
    (h : (if c then (a, s) else x) = y) : y.1 = a ∨ x = y := by
  by_cases hc : c
  · rw [if_pos hc] at h; subst h; exact Or.inl rfl
  · rw [if_neg hc] at h; exact Or.inr h

theorem readTail_inp_aux (flags : Nat) (recs : Array (Nat × Nat)) (r r' : RdState) (st : Status)
    (h : readTail flags recs r = (r', st)) :
    r'.inp = r.inp ∧ r'.streams = r.streams ∧ r'.out = r.out := by
  unfold readTail at h
  simp only at h
  generalize readUvarint r.inp (r.pos + 1) r.inp.size = u at h
  cases u with
  | eof _ => simp only [Prod.mk.injEq] at h; obtain ⟨h1, _⟩ := h; subst h1; exact ⟨rfl, rfl, rfl⟩
  | overflow => simp only [Prod.mk.injEq] at h; obtain ⟨h1, _⟩ := h; subst h1; exact ⟨rfl, rfl, rfl⟩
  | ok cnt k =>
    simp only at h
    generalize readTail.recLoop r.inp cnt (r.pos + 1 + k) #[] = lr at h
    by_cases hc : cnt ≠ recs.size
    · rw [if_pos hc] at h
      have h1 := congrArg Prod.fst h
      simp only at h1
      subst h1
      exact ⟨rfl, rfl, rfl⟩
    rw [if_neg hc] at h
    split at h
    case h_3 =>
      iterate 12
        rcases ite_pair_cases h with h1 | h
        · simp only at h1; subst h1; exact ⟨rfl, rfl, rfl⟩
      have h1 := congrArg Prod.fst h
      simp only at h1
      subst h1
      exact ⟨rfl, rfl, rfl⟩
    all_goals
      have h1 := congrArg Prod.fst h
      simp only at h1
      subst h1
      exact ⟨rfl, rfl, rfl⟩

theorem readTail_inp (flags : Nat) (recs : Array (Nat × Nat)) (r : RdState) :
    (readTail flags recs r).1.inp = r.inp ∧ (readTail flags recs r).1.streams = r.streams :=
  have h := readTail_inp_aux flags recs r (readTail flags recs r).1 (readTail flags recs r).2 rfl
  ⟨h.1, h.2.1⟩

theorem readBlocks_inp (strict : Bool) (cap flags : Nat) :
    ∀ (fuel : Nat) (r : RdState) (bs : Array Block) (recs : Array (Nat × Nat)),
      (readBlocks strict cap flags fuel r bs recs).1.inp = r.inp ∧
      (readBlocks strict cap flags fuel r bs recs).1.streams = r.streams := by
  intro fuel
  induction fuel with
  | zero => intro r bs recs; exact ⟨rfl, rfl⟩
  | succ f ih =>
    intro r bs recs
    rw [readBlocks]
    generalize readBlockHeader strict r.inp r.pos = hr
    cases hr with
    | fail st => exact ⟨rfl, rfl⟩
    | index =>
      simp only
      exact readTail_inp flags recs r
    | ok hdr =>
      simp only
      have hb := readBlock_inp strict cap flags hdr { r with pos := r.pos + hdr.len }
      generalize readBlock strict cap flags hdr { r with pos := r.pos + hdr.len } = br at hb
      obtain ⟨r1, st, blk⟩ := br
      simp only at hb ⊢
      split
      · rw [(ih _ _ _).1, (ih _ _ _).2]; exact hb
      · exact hb

theorem readStreamHeader_fail_ne_eof (inp : ByteArray) (pos : Nat) :
    readStreamHeader inp pos ≠ .fail .eof := by
  unfold readStreamHeader
  repeat' split
  all_goals simp only [ne_eq, reduceCtorEq, not_false_eq_true, SHdr.fail.injEq]

theorem readStreamHeader_cleanEnd (inp : ByteArray) (pos : Nat)
    (h : readStreamHeader inp pos = .cleanEnd) : pos ≥ inp.size := by
  unfold readStreamHeader at h
  by_cases hp : pos ≥ inp.size
  · exact hp
  · rw [if_neg hp] at h
    repeat' (split at h)
    all_goals simp only [reduceCtorEq] at h

theorem readStreams_inp (strict : Bool) (cap : Nat) (single : Bool) :
    ∀ (fuel : Nat) (first : Bool) (r : RdState),
      (readStreams strict cap single fuel first r).1.inp = r.inp := by
  intro fuel
  induction fuel with
  | zero => intro first r; rfl
  | succ f ih =>
    intro first r
    rw [readStreams]
    generalize readStreamHeader r.inp r.pos = sh
    cases sh with
    | cleanEnd => simp only; split <;> rfl
    | padding =>
      simp only
      split
      · rfl
      · rw [ih]
        split <;> rfl
    | fail st => rfl
    | ok flags =>
      simp only
      have hb := (readBlocks_inp strict cap flags (r.inp.size - r.pos + 2) { r with pos := r.pos + 12 } #[] #[]).1
      generalize readBlocks strict cap flags (r.inp.size - r.pos + 2) { r with pos := r.pos + 12 } #[] #[] = br at hb
      obtain ⟨r1, st, bs⟩ := br
      simp only at hb ⊢
      split
      · exact hb
      · split
        · split <;> exact hb
        · rw [ih]; exact hb

theorem readStreams_clean_consumes_all (strict : Bool) (cap : Nat) (single : Bool) :
    ∀ (fuel : Nat) (first : Bool) (r r' : RdState),
      readStreams strict cap single fuel first r = (r', .eof) → r'.pos ≥ r'.inp.size := by
  intro fuel
  induction fuel with
  | zero =>
    intro first r r' h
    rw [readStreams] at h
    simp only [Prod.mk.injEq, reduceCtorEq, and_false] at h
  | succ f ih =>
    intro first r r' h
    rw [readStreams] at h
    generalize hsh : readStreamHeader r.inp r.pos = sh at h
    cases sh with
    | cleanEnd =>
      simp only at h
      split at h
      · simp only [Prod.mk.injEq, reduceCtorEq, and_false] at h
      · simp only [Prod.mk.injEq, and_true] at h
        subst h
        exact readStreamHeader_cleanEnd _ _ hsh
    | padding =>
      simp only at h
      split at h
      · simp only [Prod.mk.injEq, reduceCtorEq, and_false] at h
      · exact ih _ _ _ h
    | fail st =>
      simp only [Prod.mk.injEq] at h
      obtain ⟨_, h2⟩ := h
      subst h2
      exact absurd hsh (readStreamHeader_fail_ne_eof _ _)
    | ok flags =>
      simp only at h
      generalize readBlocks strict cap flags (r.inp.size - r.pos + 2) { r with pos := r.pos + 12 } #[] #[] = br at h
      obtain ⟨r1, st, bs⟩ := br
      simp only at h
      split at h
      · simp only [Prod.mk.injEq] at h
        obtain ⟨_, h2⟩ := h
        subst h2
        contradiction
      · split at h
        · split at h
          · simp only [Prod.mk.injEq, reduceCtorEq, and_false] at h
          · simp only [Prod.mk.injEq, and_true] at h
            subst h
            simp only at *
            omega
        · exact ih _ _ _ h

theorem readStreams_clean_streams (strict : Bool) (cap : Nat) (single : Bool) :
    ∀ (fuel : Nat) (first : Bool) (r r' : RdState),
      readStreams strict cap single fuel first r = (r', .eof) →
      (first = false → r.streams.size ≥ 1) → r'.streams.size ≥ 1 := by
  intro fuel
  induction fuel with
  | zero =>
    intro first r r' h
    rw [readStreams] at h
    simp only [Prod.mk.injEq, reduceCtorEq, and_false] at h
  | succ f ih =>
    intro first r r' h hinv
    rw [readStreams] at h
    generalize hsh : readStreamHeader r.inp r.pos = sh at h
    cases sh with
    | cleanEnd =>
      simp only at h
      split at h
      · simp only [Prod.mk.injEq, reduceCtorEq, and_false] at h
      · rename_i hf
        simp only [Prod.mk.injEq, and_true] at h
        subst h
        exact hinv (by simpa using hf)
    | padding =>
      simp only at h
      split at h
      · simp only [Prod.mk.injEq, reduceCtorEq, and_false] at h
      · rename_i hf
        have h0 := hinv (by simpa using hf)
        refine ih _ _ _ h ?_
        intro _
        split
        · simp only [Array.size_push, Array.size_pop]; omega
        · exact h0
    | fail st =>
      simp only [Prod.mk.injEq] at h
      obtain ⟨_, h2⟩ := h
      subst h2
      exact absurd hsh (readStreamHeader_fail_ne_eof _ _)
    | ok flags =>
      simp only at h
      generalize readBlocks strict cap flags (r.inp.size - r.pos + 2) { r with pos := r.pos + 12 } #[] #[] = br at h
      obtain ⟨r1, st, bs⟩ := br
      simp only at h
      split at h
      · simp only [Prod.mk.injEq] at h
        obtain ⟨_, h2⟩ := h
        subst h2
        contradiction
      · split at h
        · split at h
          · simp only [Prod.mk.injEq, reduceCtorEq, and_false] at h
          · simp only [Prod.mk.injEq, and_true] at h
            subst h
            simp only [Array.size_push]
            omega
        · refine ih _ _ _ h ?_
          intro _
          simp only [Array.size_push]
          omega

theorem clean_needs_stream (strict : Bool) (cap : Nat) (single : Bool) (inp : ByteArray)
    (h : (read strict cap single inp).status = .eof) :
    (read strict cap single inp).streams.size ≥ 1 := by
  unfold read at h ⊢
  simp only at h ⊢
  generalize hrs : readStreams strict cap single (inp.size / 4 + 3) true { inp := inp, pos := 0, out := .empty } = rs at h ⊢
  obtain ⟨r', st⟩ := rs
  simp only at h ⊢
  subst h
  exact readStreams_clean_streams _ _ _ _ _ _ _ hrs (by simp)

theorem readStreamHeader_leading_zeros (inp : ByteArray) (h4 : 4 ≤ inp.size) (hz : allZero inp 0 4 = true) :
    readStreamHeader inp 0 = .padding := by
  unfold readStreamHeader
  rw [if_neg (by omega), if_neg (by omega)]
  simp only [Nat.zero_add]
  rw [if_pos hz]

theorem leading_padding_rejected (strict : Bool) (cap : Nat) (single : Bool) (inp : ByteArray)
    (h4 : 4 ≤ inp.size) (hz : allZero inp 0 4 = true) :
    (read strict cap single inp).status ≠ .eof := by
  unfold read
  have hf : inp.size / 4 + 3 = (inp.size / 4 + 2) + 1 := by omega
  rw [hf, readStreams]
  simp only
  rw [readStreamHeader_leading_zeros inp h4 hz]
  simp

theorem empty_rejected (strict : Bool) (cap : Nat) (single : Bool) :
    (read strict cap single ByteArray.empty).status ≠ .eof := by
  unfold read
  have hf : ByteArray.empty.size / 4 + 3 = (ByteArray.empty.size / 4 + 2) + 1 := by omega
  rw [hf, readStreams]
  have : readStreamHeader ByteArray.empty 0 = .cleanEnd := by
    unfold readStreamHeader
    rw [if_pos (by simp)]
  simp only
  rw [this]
  simp


/-- `read` reports a clean end only after the whole input has been consumed -/
theorem read_clean_consumes_all (strict : Bool) (cap : Nat) (single : Bool) (inp : ByteArray)
    (h : (read strict cap single inp).status = .eof) :
    (read strict cap single inp).pos ≥ inp.size := by
  unfold read at h ⊢
  simp only at h ⊢
  have hi := readStreams_inp strict cap single (inp.size / 4 + 3) true { inp := inp, pos := 0, out := .empty }
  generalize hrs : readStreams strict cap single (inp.size / 4 + 3) true { inp := inp, pos := 0, out := .empty } = rs at h hi ⊢
  obtain ⟨r', st⟩ := rs
  simp only at h hi ⊢
  subst h
  have := readStreams_clean_consumes_all _ _ _ _ _ _ _ hrs
  rw [hi] at this
  exact this

/-- independent parser of `n` index records starting at `p`: the list of
    (unpadded size, uncompressed size) pairs and the position behind them -/
def parseIndexRecs (inp : ByteArray) : Nat → Nat → Option (List (Nat × Nat) × Nat)
  | 0, p => some ([], p)
  | n + 1, p =>
    match readUvarint inp p inp.size with
    | .ok a ka =>
      match readUvarint inp (p + ka) inp.size with
      | .ok b kb =>
        match parseIndexRecs inp n (p + ka + kb) with
        | some (l, q) => some ((a, b) :: l, q)
        | none => none
      | _ => none
    | _ => none

theorem recLoop_records (inp : ByteArray) :
    ∀ (n p : Nat) (acc : Array (Nat × Nat)) (p1 : Nat) (parsed : Array (Nat × Nat)),
      readTail.recLoop inp n p acc = some (p1, .eof, parsed) →
      ∃ l, parseIndexRecs inp n p = some (l, p1) ∧ parsed.toList = acc.toList ++ l := by
  intro n
  induction n with
  | zero =>
    intro p acc p1 parsed h
    rw [readTail.recLoop.eq_1] at h
    simp only [Option.some.injEq, Prod.mk.injEq, true_and] at h
    obtain ⟨h1, h2⟩ := h
    subst h1; subst h2
    exact ⟨[], by simp [parseIndexRecs], by simp⟩
  | succ n ih =>
    intro p acc p1 parsed h
    rw [readTail.recLoop.eq_2] at h
    rw [parseIndexRecs]
    generalize readUvarint inp p inp.size = u1 at h ⊢
    cases u1 with
    | eof _ => simp only [Option.some.injEq, Prod.mk.injEq, reduceCtorEq, and_false, false_and] at h
    | overflow => simp only [Option.some.injEq, Prod.mk.injEq, reduceCtorEq, and_false, false_and] at h
    | ok a ka =>
      simp only at h ⊢
      split at h
      · simp only [Option.some.injEq, Prod.mk.injEq, reduceCtorEq, and_false, false_and] at h
      · generalize readUvarint inp (p + ka) inp.size = u2 at h ⊢
        cases u2 with
        | eof _ => simp only [Option.some.injEq, Prod.mk.injEq, reduceCtorEq, and_false, false_and] at h
        | overflow => simp only [Option.some.injEq, Prod.mk.injEq, reduceCtorEq, and_false, false_and] at h
        | ok b kb =>
          simp only at h ⊢
          split at h
          · simp only [Option.some.injEq, Prod.mk.injEq, reduceCtorEq, and_false, false_and] at h
          · obtain ⟨l, e1, e2⟩ := ih _ _ _ _ h
            rw [e1]
            exact ⟨(a, b) :: l, rfl, by rw [e2]; simp⟩

/-- the index accepted by `readTail` lists exactly the (unpadded size, uncompressed size) pairs
    `recs` collected from the blocks read, followed by zero padding up to the index CRC -/
theorem readTail_index_sound (flags : Nat) (recs : Array (Nat × Nat)) (r r' : RdState)
    (h : readTail flags recs r = (r', .eof)) :
    ∃ k p1, readUvarint r.inp (r.pos + 1) r.inp.size = .ok recs.size k ∧
      parseIndexRecs r.inp recs.size (r.pos + 1 + k) = some (recs.toList, p1) ∧
      r'.pos - 16 = p1 + padLen (p1 - r.pos) ∧
      allZero r.inp p1 (r'.pos - 16) = true := by
  obtain ⟨_, _, _, _, _, _, _, _, _, _, _, _, k, p1, parsed, h1, h2, hp, h3, h4⟩ := readTail_sound flags recs r r' h
  refine ⟨k, p1, h1, ?_, h3, h4⟩
  obtain ⟨l, e1, e2⟩ := recLoop_records r.inp _ _ _ _ _ h2
  rw [e1, ← hp, e2]
  simp

end Xz

#print axioms Xz.readBlock_sound
#print axioms Xz.readTail_sound
#print axioms Xz.readTail_index_sound
#print axioms Xz.readBlockHeader_ok_sound
#print axioms Xz.readBlock_inp
#print axioms Xz.readTail_inp
#print axioms Xz.readBlocks_inp
#print axioms Xz.readStreams_inp
#print axioms Xz.readStreams_clean_consumes_all
#print axioms Xz.read_clean_consumes_all
#print axioms Xz.readStreams_clean_streams
#print axioms Xz.clean_needs_stream
#print axioms Xz.leading_padding_rejected
#print axioms Xz.empty_rejected
