import XzVerif.Model.Xz
/-
  Proofs.XzSound — soundness of the checks of the container reader model (Model/Xz.lean, which
  mirrors reader.go / format.go): whenever the model accepts a block / a stream tail, every
  redundant piece of metadata has been verified.  These are the facts behind C04 ("a damaged
  stream never decodes successfully to different content"): acceptance implies that the stored
  check equals the check computed over exactly the delivered bytes, that declared sizes equal
  measured sizes, that paddings are zero, that index and footer agree with the blocks read.
-/
namespace Xz
open Lzma Lzma2

/-- A block is accepted only if padding is zero, the stored check equals the check of the bytes
    delivered for this block, and sizes declared in the block header equal the measured ones. -/
theorem readBlock_sound (strict : Bool) (cap flags : Nat) (hdr : BlockHeader) (r r' : RdState)
    (st : Status) (b : Block) (h : readBlock strict cap flags hdr r = (r', st, some b)) :
    st = .eof ∧
    b.check.toList = (checkValue flags r'.out r.out.size r'.out.size).toList ∧
    b.check = r'.inp.extract (r'.pos - (checkSize flags).getD 0) r'.pos ∧
    (∀ u, hdr.usize = some u → b.usize = u) ∧ (∀ c, hdr.csize = some c → b.csize = c) := by
  unfold readBlock at h
  simp only at h
  generalize Lzma2.decode strict _ r.inp r.pos r.out = dres at h
  obtain ⟨l2, dst⟩ := dres
  simp only at h
  generalize hU : l2.h.out.size - r.out.size = usz at h
  generalize hC : l2.pos - r.pos = csz at h
  repeat' (split at h)
  all_goals first
    | (simp only [Prod.mk.injEq, reduceCtorEq, and_false, false_and] at h)
    | skip
  all_goals
    simp only [Prod.mk.injEq, Option.some.injEq] at h
    obtain ⟨h1, h2, h3⟩ := h
    subst h1 h2 h3
    refine ⟨rfl, ?_, ?_, ?_, ?_⟩
    · simp_all
    · simp
    · intro u hu
      simp_all <;> omega
    · intro c hc
      simp_all <;> omega

end Xz
