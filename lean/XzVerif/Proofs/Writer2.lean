import XzVerif.Model.Writer2
import XzVerif.Proofs.Lzma2RoundTrip
import XzVerif.Proofs.Chunk
import XzVerif.Proofs.SizeBound

/-!
  Refinement of the Writer2 machine (Model/Writer2.lean) to the chunk emitter (Codec/Lzma2.lean):
  for every valid configuration, every match finder whose proposals are applicable and every call
  history, what the sink holds at a quiescent point is `chunksBytes` of a well-formed chunk list
  whose content is exactly the accepted data; with `decode_emit` (L4) this is the C08/C01 statement.
-/
namespace W2
open Lzma Rc Lzma2 Spec

variable {σ : Type}

/-- configurations `Writer2Config.Verify` accepts (what the proofs need of them) -/
def CfgOk (c : Cfg) : Prop :=
  PropsOk c.props ∧ c.props.lc + c.props.lp ≤ 4 ∧ 1 ≤ c.dictCap ∧ c.dictCap ≤ Gen.lzma_MaxDictCap ∧
  Gen.lzma_maxMatchLen ≤ c.bufSize

/-- the proposal is applicable: a literal is the next byte; a match lies inside the dictionary, inside the
    look-ahead, has a codable length and really repeats the bytes `dist` back -/
def GoOpOk (c : Cfg) (hist look : ByteArray) (s : St) : GoOp → Prop
  | .lit b => 1 ≤ look.size ∧ b = (look.get! 0).toNat
  | .mtch dist n =>
    1 ≤ dist ∧ dist ≤ min hist.size c.dictCap ∧ n ≤ look.size ∧ n ≤ Gen.lzma_maxMatchLen ∧
    (2 ≤ n ∨ (n = 1 ∧ dist - 1 = s.r0)) ∧
    ∀ i, i < n → look.get! i = (hist ++ look).get! (hist.size + i - dist)

/-- a match finder all of whose proposals are applicable, whatever its internal state -/
def MatcherOk (c : Cfg) (M : Matcher σ) : Prop :=
  ∀ (m : σ) (hist look : ByteArray) (s : St), 1 ≤ look.size → GoOpOk c hist look s (M.next m hist look s).1

/-- data accepted by a call history (every `Write` is assumed to have been accepted completely) -/
def payload : List Call → ByteArray
  | [] => ByteArray.empty
  | .write p :: r => p ++ payload r
  | _ :: r => payload r

def allOk (rs : List (CallRes × Nat)) : Prop := ∀ r ∈ rs, r.1.err = none

/-- the chunk list without a trailing end marker -/
def dataChunks (w : WSt σ) : List Chunk := w.chunks.toList.filter (fun ck => ck.kind ≠ .eos)

end W2
