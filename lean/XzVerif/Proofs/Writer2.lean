import XzVerif.Model.Writer2
import XzVerif.Proofs.Lzma2RoundTrip
import XzVerif.Proofs.Chunk
import XzVerif.Proofs.SizeBound
import XzVerif.Proofs.Writer2Run

/-!
  Refinement of the Writer2 machine (Model/Writer2.lean) to the chunk emitter (Codec/Lzma2.lean):
  for every valid configuration, every match finder whose proposals are applicable and every call
  history, what the sink holds at a quiescent point is `chunksBytes` of a well-formed chunk list
  whose content is exactly the accepted data; with `decode_emit` (L4) this is the C08/C01 statement.
-/
namespace W2
open Lzma Rc Lzma2 Spec

variable {σ : Type}

/-- configurations `Writer2Config.Verify` accepts (what the proofs need of them) -/
def CfgOk (c : Cfg) : Prop :=
  PropsOk c.props ∧ c.props.lc + c.props.lp ≤ 4 ∧ 1 ≤ c.dictCap ∧ c.dictCap ≤ Gen.lzma_MaxDictCap ∧
  Gen.lzma_maxMatchLen ≤ c.bufSize

/-- the proposal is applicable: a literal is the next byte; a match lies inside the dictionary, inside the
    look-ahead, has a codable length and really repeats the bytes `dist` back -/
def GoOpOk (c : Cfg) (hist look : ByteArray) (s : St) : GoOp → Prop
  | .lit b => 1 ≤ look.size ∧ b = (look.get! 0).toNat
  | .mtch dist n =>
    1 ≤ dist ∧ dist ≤ min hist.size c.dictCap ∧ n ≤ look.size ∧ n ≤ Gen.lzma_maxMatchLen ∧
    (2 ≤ n ∨ (n = 1 ∧ dist - 1 = s.r0)) ∧
    ∀ i, i < n → look.get! i = (hist ++ look).get! (hist.size + i - dist)

/-- a match finder all of whose proposals are applicable, whatever its internal state -/
def MatcherOk (c : Cfg) (M : Matcher σ) : Prop :=
  ∀ (m : σ) (hist look : ByteArray) (s : St), 1 ≤ look.size → GoOpOk c hist look s (M.next m hist look s).1

/-- a match finder that is applicable as long as its state is in sync with the dictionary: `I m hist look` is the
    sync invariant; it is preserved when the look-ahead grows, when a proposal is consumed (`len` bytes move from
    the look-ahead to the history) and when a proposal is requested but dropped (the encoder hit its margin).
    Every clause may assume the space bound of the encoder dictionary for the state it starts from (`grow`: for
    the grown state). -/
structure MatcherInv (c : Cfg) (M : Matcher σ) (I : σ → ByteArray → ByteArray → Prop) : Prop where
  ok : ∀ (m : σ) (hist look : ByteArray) (s : St), I m hist look → 1 ≤ look.size →
        look.size + min hist.size c.dictCap ≤ c.dictCap + c.bufSize →
        GoOpOk c hist look s (M.next m hist look s).1
  consume : ∀ (m : σ) (hist look : ByteArray) (s : St), I m hist look → 1 ≤ look.size →
        look.size + min hist.size c.dictCap ≤ c.dictCap + c.bufSize →
        I (M.next m hist look s).2 (hist ++ look.extract 0 (M.next m hist look s).1.len)
          (look.extract (M.next m hist look s).1.len look.size)
  drop : ∀ (m : σ) (hist look : ByteArray) (s : St), I m hist look → 1 ≤ look.size →
        look.size + min hist.size c.dictCap ≤ c.dictCap + c.bufSize →
        I (M.next m hist look s).2 hist look
  grow : ∀ (m : σ) (hist look x : ByteArray), I m hist look →
        (look ++ x).size + min hist.size c.dictCap ≤ c.dictCap + c.bufSize → I m hist (look ++ x)

/-- data accepted by a call history (every `Write` is assumed to have been accepted completely) -/
def payload : List Call → ByteArray
  | [] => ByteArray.empty
  | .write p :: r => p ++ payload r
  | _ :: r => payload r

def allOk (rs : List (CallRes × Nat)) : Prop := ∀ r ∈ rs, r.1.err = none

/-- the chunk list without a trailing end marker -/
def dataChunks (w : WSt σ) : List Chunk := w.chunks.toList.filter (fun ck => ck.kind ≠ .eos)

/-! ## helper lemmas: the definitions above against their copies in Proofs/Writer2Lemmas.lean, and `run` -/

theorem cfgOk' {c : Cfg} (h : CfgOk c) : CfgOk' c := h

theorem goOpOk_eq (c : Cfg) (hist look : ByteArray) (s : St) (g : GoOp) :
    GoOpOk c hist look s g = GoOpOk' c hist look s g := by
  cases g <;> rfl

theorem matcherOk' {c : Cfg} {M : Matcher σ} (h : MatcherOk c M) : MatcherOk' c M := by
  intro m hist look s h1
  rw [← goOpOk_eq]
  exact h m hist look s h1

theorem matcherInv' {c : Cfg} {M : Matcher σ} {I : σ → ByteArray → ByteArray → Prop} (h : MatcherInv c M I) :
    MatcherInv' c M I :=
  ⟨fun m hist look s hi h1 hs => by rw [← goOpOk_eq]; exact h.ok m hist look s hi h1 hs, h.consume, h.drop, h.grow⟩

/-- a match finder whose proposals are applicable in every state needs no sync invariant -/
theorem matcherInv_of_ok {c : Cfg} {M : Matcher σ} (h : MatcherOk c M) : MatcherInv c M (fun _ _ _ => True) :=
  ⟨fun m hist look s _ h1 _ => h m hist look s h1, fun _ _ _ _ _ _ _ => trivial, fun _ _ _ _ _ _ _ => trivial,
   fun _ _ _ _ _ _ => trivial⟩

theorem allOk_nil : allOk ([] : List (CallRes × Nat)) := by
  intro r hr; cases hr

theorem allOk_cons (r : CallRes × Nat) (rs : List (CallRes × Nat)) :
    allOk (r :: rs) ↔ r.1.err = none ∧ allOk rs := by
  unfold allOk
  simp only [List.mem_cons, forall_eq_or_imp]

theorem allOk_append (a b : List (CallRes × Nat)) : allOk (a ++ b) ↔ allOk a ∧ allOk b := by
  unfold allOk
  simp only [List.mem_append]
  constructor
  · intro h; exact ⟨fun r hr => h r (Or.inl hr), fun r hr => h r (Or.inr hr)⟩
  · intro h r hr
    rcases hr with hr | hr
    · exact h.1 r hr
    · exact h.2 r hr

theorem run_cons (c : Cfg) (M : Matcher σ) (w : WSt σ) (call : Call) (rest : List Call) :
    run c M w (call :: rest) =
      ((run c M (step c M w call).1 rest).1,
       ((step c M w call).2, (step c M w call).1.out.size) :: (run c M (step c M w call).1 rest).2) := rfl

theorem run_append (c : Cfg) (M : Matcher σ) : ∀ (l1 l2 : List Call) (w : WSt σ),
    run c M w (l1 ++ l2) =
      ((run c M (run c M w l1).1 l2).1, (run c M w l1).2 ++ (run c M (run c M w l1).1 l2).2) := by
  intro l1
  induction l1 with
  | nil => intro l2 w; rfl
  | cons call l1 ih =>
    intro l2 w
    rw [List.cons_append, run_cons, ih, run_cons]
    rfl

theorem run_snoc (c : Cfg) (M : Matcher σ) (calls : List Call) (call : Call) (w : WSt σ) :
    (run c M w (calls ++ [call])).1 = (step c M (run c M w calls).1 call).1 ∧
    (allOk (run c M w (calls ++ [call])).2 ↔
      allOk (run c M w calls).2 ∧ (step c M (run c M w calls).1 call).2.err = none) := by
  rw [run_append]
  refine ⟨rfl, ?_⟩
  dsimp only
  rw [allOk_append]
  have : (run c M (run c M w calls).1 [call]).2 =
      [((step c M (run c M w calls).1 call).2, (step c M (run c M w calls).1 call).1.out.size)] := rfl
  rw [this, allOk_cons]
  simp only [allOk_nil, and_true]

theorem payload_append_flush (calls : List Call) : payload (calls ++ [.flush]) = payload calls := by
  induction calls with
  | nil => rfl
  | cons call calls ih =>
    cases call <;> simp only [List.cons_append, payload, ih]

theorem run_spec (c : Cfg) (hc : CfgOk c) (M : Matcher σ) (I : σ → ByteArray → ByteArray → Prop) (hI : MatcherInv c M I) :
    ∀ (calls : List Call) (w : WSt σ) (d : ByteArray), RunInv c I w d →
      (∀ call ∈ calls, ¬ (call matches .close)) → allOk (run c M w calls).2 →
      RunInv c I (run c M w calls).1 (d ++ payload calls) := by
  intro calls
  induction calls with
  | nil =>
    intro w d h _ _
    show RunInv c I w (d ++ ByteArray.empty)
    rw [ByteArray.append_empty]; exact h
  | cons call rest ih =>
    intro w d h hnc hok
    rw [run_cons] at hok ⊢
    rw [allOk_cons] at hok
    obtain ⟨herr, hrest⟩ := hok
    have hnc' : ∀ call ∈ rest, ¬ (call matches .close) := fun x hx => hnc x (List.mem_cons_of_mem _ hx)
    cases call with
    | write p =>
      have h1 := (step_write c (cfgOk' hc) M I (matcherInv' hI) w d p h).2 herr
      have := ih _ _ h1 hnc' hrest
      show RunInv c I _ (d ++ (p ++ payload rest))
      rw [← ByteArray.append_assoc]
      exact this
    | flush =>
      have h1 := ((step_flush c (cfgOk' hc) M I (matcherInv' hI) w d h).2 herr).1
      exact ih _ _ h1 hnc' hrest
    | close =>
      exact absurd rfl (hnc .close (List.mem_cons_self))

theorem run_margin (hmargin : 25 ≤ Gen.lzma_opLenMargin) (c : Cfg) (hc : CfgOk c) (M : Matcher σ)
    (I : σ → ByteArray → ByteArray → Prop) (hI : MatcherInv c M I) :
    ∀ (calls : List Call) (w : WSt σ) (d : ByteArray), RunInv c I w d →
      (∀ call ∈ calls, ¬ (call matches .close)) → allOk (run c M w calls).2 := by
  intro calls
  induction calls with
  | nil => intro w d _ _; exact allOk_nil
  | cons call rest ih =>
    intro w d h hnc
    rw [run_cons, allOk_cons]
    have hnc' : ∀ call ∈ rest, ¬ (call matches .close) := fun x hx => hnc x (List.mem_cons_of_mem _ hx)
    cases call with
    | write p =>
      have hs := step_write c (cfgOk' hc) M I (matcherInv' hI) w d p h
      have herr := hs.1.2 hmargin
      exact ⟨herr, ih _ _ (hs.2 herr) hnc'⟩
    | flush =>
      have hs := step_flush c (cfgOk' hc) M I (matcherInv' hI) w d h
      have herr := hs.1.2 hmargin
      exact ⟨herr, ih _ _ (hs.2 herr).1 hnc'⟩
    | close =>
      exact absurd rfl (hnc .close (List.mem_cons_self))

theorem step_errOk (c : Cfg) (hc : CfgOk c) (M : Matcher σ) (I : σ → ByteArray → ByteArray → Prop) (hI : MatcherInv c M I) (w : WSt σ) (d : ByteArray)
    (h : RunInv c I w d) (call : Call) : ErrOk (step c M w call).2.err := by
  cases call with
  | write p => exact (step_write c (cfgOk' hc) M I (matcherInv' hI) w d p h).1
  | flush => exact (step_flush c (cfgOk' hc) M I (matcherInv' hI) w d h).1
  | close => exact (step_close c (cfgOk' hc) M I (matcherInv' hI) w d h).1

theorem init_run (c : Cfg) (hc : CfgOk c) (M : Matcher σ) (I : σ → ByteArray → ByteArray → Prop) (hI : MatcherInv c M I) (m0 : σ)
    (h0 : I m0 ByteArray.empty ByteArray.empty)
    (calls : List Call) (hnc : ∀ call ∈ calls, ¬ (call matches .close))
    (hok : allOk (run c M (init c m0) calls).2) :
    RunInv c I (run c M (init c m0) calls).1 (payload calls) := by
  have := run_spec c hc M I hI calls _ _ (init_inv c I m0 h0) hnc hok
  rwa [ByteArray.empty_append] at this

/-- nothing pending: the emitted content is everything accepted -/
theorem quiescent {c : Cfg} {w : WSt σ} (hi : Inv c w) (h0 : w.written = 0) :
    (w.chunks.foldl emitChunk (e0 c.dictCap)).h.out = w.hist ++ w.look := by
  have hs := hi.start
  have hst : w.start = w.hist.size := by unfold WSt.written WSt.compressed at h0; omega
  have hl : w.look = ByteArray.empty := by
    apply ByteArray.size_eq_zero_iff.mp
    unfold WSt.written at h0; omega
  rw [← Array.foldl_toList]
  have := hi.eh
  unfold EE at this
  rw [this, hl, ByteArray.append_empty]
  unfold H0
  dsimp only
  rw [hst, ByteArray.extract_zero_size]

theorem chunksOk_of_inv {c : Cfg} {w : WSt σ} (hi : Inv c w) (strict : Bool) :
    ChunksOk strict (e0 c.dictCap) .init w.chunks.toList := by
  obtain ⟨q, hq, _⟩ := hi.cks
  exact COk.chunksOk strict _ _ _ _ (hq strict)

theorem out_push_eq {c : Cfg} {w : WSt σ} (hi : Inv c w) :
    w.out.push 0 = emit c.dictCap (w.chunks.push { kind := .eos, usize := 0 }) := by
  have := emit_eq c.dictCap w.chunks
  unfold eosChunk at this
  rw [this, ← hi.out, ← push_eq_append]

theorem encWrite_n_le (c : Cfg) (M : Matcher σ) (p : ByteArray) : ∀ (fuel : Nat) (w : WSt σ) (n : Nat),
    n ≤ p.size → (encWrite c M p fuel w n).2 ≤ p.size := by
  intro fuel
  induction fuel with
  | zero => intro w n hn; exact hn
  | succ fuel ih =>
    intro w n hn
    have hk : n + (w.dictWrite c p n).2 ≤ p.size := by
      show n + min (p.size - n) (w.dictAvail c) ≤ p.size
      omega
    unfold encWrite
    simp only []
    generalize (w.dictWrite c p n).1 = w1 at *
    generalize (w.dictWrite c p n).2 = k at *
    by_cases hlt : n + k < p.size
    · rw [if_pos hlt]
      generalize compress c M false _ _ = r
      cases r with
      | ok w2 => exact ih _ _ hk
      | limit w2 => exact hk
      | broken w2 => exact hk
      | bad w2 s => exact hk
    · rw [if_neg hlt]
      exact hk

theorem write_ok_n (c : Cfg) (M : Matcher σ) (p : ByteArray) : ∀ (fuel : Nat) (w : WSt σ) (n : Nat),
    n ≤ p.size → (write c M p fuel w n).2.2 = none → (write c M p fuel w n).2.1 = p.size := by
  intro fuel
  induction fuel with
  | zero => intro w n _ h; exact absurd h (by simp [write])
  | succ fuel ih =>
    intro w n hn
    unfold write
    by_cases hlt : n < p.size
    · rw [if_pos hlt]
      simp only []
      split
      · intro h; exact absurd h (by simp)
      · generalize hq : p.extract n (if n + (Gen.lzma_maxUncompressed - w.written) < p.size then
          n + (Gen.lzma_maxUncompressed - w.written) else p.size) = q
        have hqs : q.size ≤ p.size - n := by
          rw [← hq, ByteArray.size_extract]
          split <;> omega
        have hle := encWrite_n_le c M q (q.size + 2) w 0 (Nat.zero_le _)
        rcases hr : encWrite c M q (q.size + 2) w 0 with ⟨res, k⟩
        rw [hr] at hle
        have hk : n + k ≤ p.size := by dsimp only at hle; omega
        cases res with
        | bad w' s => intro h; exact absurd h (by simp)
        | broken w' => intro h; exact absurd h (by simp)
        | limit w' =>
          simp only []
          split
          · intro h; exact absurd h (by simp)
          · exact ih _ _ hk
        | ok w' =>
          simp only []
          split
          · split
            · intro h; exact absurd h (by simp)
            · exact ih _ _ hk
          · exact ih _ _ hk
    · rw [if_neg hlt]
      intro _
      show n = p.size
      omega

/-! ## the theorems for match finders with a sync invariant (`MatcherInv`) -/

theorem run_refines_I (strict : Bool) (c : Cfg) (hc : CfgOk c) (M : Matcher σ)
    (I : σ → ByteArray → ByteArray → Prop) (hI : MatcherInv c M I) (m0 : σ) (h0 : I m0 ByteArray.empty ByteArray.empty)
    (calls : List Call) (hnc : ∀ call ∈ calls, ¬ (call matches .close))
    (hok : allOk (run c M (init c m0) calls).2) :
    let w := (run c M (init c m0) calls).1
    ChunksOk strict (e0 c.dictCap) .init w.chunks.toList ∧
    w.out = chunksBytes (e0 c.dictCap) w.chunks.toList ∧
    (w.chunks.foldl emitChunk (e0 c.dictCap)).h.out = w.hist.extract 0 w.start ∧
    w.hist ++ w.look = payload calls := by
  intro w
  have h := init_run c hc M I hI m0 h0 calls hnc hok
  refine ⟨chunksOk_of_inv h.inv.toInv strict, h.inv.out, ?_, h.data⟩
  rw [← Array.foldl_toList]
  have := h.inv.eh
  unfold EE at this
  rw [this]
  rfl

theorem flush_prefix_decodes_I (strict : Bool) (c : Cfg) (hc : CfgOk c) (M : Matcher σ)
    (I : σ → ByteArray → ByteArray → Prop) (hI : MatcherInv c M I) (m0 : σ) (h0 : I m0 ByteArray.empty ByteArray.empty)
    (calls : List Call) (hnc : ∀ call ∈ calls, ¬ (call matches .close))
    (hok : allOk (run c M (init c m0) (calls ++ [.flush])).2) :
    let w := (run c M (init c m0) (calls ++ [.flush])).1
    ∃ r, decode strict c.dictCap (w.out.push 0) 0 ByteArray.empty = (r, .eof) ∧
      r.h.out = payload calls ∧ r.pos = w.out.size + 1 := by
  intro w
  obtain ⟨hw, hall⟩ := run_snoc c M calls .flush (init c m0)
  obtain ⟨hok1, herr⟩ := hall.mp hok
  have h := init_run c hc M I hI m0 h0 calls hnc hok1
  obtain ⟨h1, hz⟩ := (step_flush c (cfgOk' hc) M I (matcherInv' hI) _ _ h).2 herr
  have hwe : w = (step c M (run c M (init c m0) calls).1 .flush).1 := hw
  rw [← hwe] at h1 hz
  obtain ⟨r, a1, _, a3, a4, _, _⟩ := decode_emit strict c.dictCap w.chunks (chunksOk_of_inv h1.inv.toInv strict)
  rw [← out_push_eq h1.inv.toInv] at a1 a4
  refine ⟨r, a1, ?_, ?_⟩
  · rw [a3, quiescent h1.inv.toInv hz, h1.data]
  · rw [a4, ByteArray.size_push]

theorem close_decodes_I (strict : Bool) (c : Cfg) (hc : CfgOk c) (M : Matcher σ)
    (I : σ → ByteArray → ByteArray → Prop) (hI : MatcherInv c M I) (m0 : σ) (h0 : I m0 ByteArray.empty ByteArray.empty)
    (calls : List Call) (hnc : ∀ call ∈ calls, ¬ (call matches .close))
    (hok : allOk (run c M (init c m0) (calls ++ [.close])).2) :
    let w := (run c M (init c m0) (calls ++ [.close])).1
    ∃ r, decode strict c.dictCap w.out 0 ByteArray.empty = (r, .eof) ∧
      r.h.out = payload calls ∧ r.pos = w.out.size ∧ r.seq = .ended := by
  intro w
  obtain ⟨hw, hall⟩ := run_snoc c M calls .close (init c m0)
  obtain ⟨hok1, herr⟩ := hall.mp hok
  have h := init_run c hc M I hI m0 h0 calls hnc hok1
  obtain ⟨w', hi', hz, hd, hst⟩ := (step_close c (cfgOk' hc) M I (matcherInv' hI) _ _ h).2 herr
  have hwe : w = (step c M (run c M (init c m0) calls).1 .close).1 := hw
  rw [← hwe] at hst
  obtain ⟨r, a1, _, a3, a4, a5, _⟩ := decode_emit strict c.dictCap w'.chunks (chunksOk_of_inv hi'.toInv strict)
  rw [← out_push_eq hi'.toInv] at a1 a4
  have hout : w.out = w'.out.push 0 := by rw [hst]
  rw [hout]
  refine ⟨r, a1, ?_, a4, a5⟩
  rw [a3, quiescent hi'.toInv hz, hd]

theorem first_error_is_limit_I (c : Cfg) (hc : CfgOk c) (M : Matcher σ)
    (I : σ → ByteArray → ByteArray → Prop) (hI : MatcherInv c M I) (m0 : σ) (h0 : I m0 ByteArray.empty ByteArray.empty)
    (calls : List Call) (hnc : ∀ call ∈ calls, ¬ (call matches .close)) (call : Call)
    (hok : allOk (run c M (init c m0) calls).2) :
    let r := (step c M (run c M (init c m0) calls).1 call).2
    r.err = none ∨ r.err = some .limit := by
  intro r
  have h := init_run c hc M I hI m0 h0 calls hnc hok
  exact (step_errOk c hc M I hI _ _ h call).1

theorem no_error_of_margin_I (hmargin : 25 ≤ Gen.lzma_opLenMargin)
    (c : Cfg) (hc : CfgOk c) (M : Matcher σ)
    (I : σ → ByteArray → ByteArray → Prop) (hI : MatcherInv c M I) (m0 : σ) (h0 : I m0 ByteArray.empty ByteArray.empty)
    (calls : List Call) (hnc : ∀ call ∈ calls, ¬ (call matches .close)) (call : Call) :
    allOk (run c M (init c m0) (calls ++ [call])).2 := by
  obtain ⟨_, hall⟩ := run_snoc c M calls call (init c m0)
  have hok1 := run_margin hmargin c hc M I hI calls _ _ (init_inv c I m0 h0) hnc
  have h := init_run c hc M I hI m0 h0 calls hnc hok1
  exact hall.mpr ⟨hok1, (step_errOk c hc M I hI _ _ h call).2 hmargin⟩

theorem chunk_sizes_I (c : Cfg) (hc : CfgOk c) (M : Matcher σ)
    (I : σ → ByteArray → ByteArray → Prop) (hI : MatcherInv c M I) (m0 : σ) (h0 : I m0 ByteArray.empty ByteArray.empty)
    (calls : List Call) (hnc : ∀ call ∈ calls, ¬ (call matches .close))
    (hok : allOk (run c M (init c m0) calls).2) :
    ∀ ck ∈ (run c M (init c m0) calls).1.chunks.toList,
      (ck.kind = .u ∨ ck.kind = .ud) ∧ 1 ≤ ck.raw.size ∧ ck.raw.size ≤ 65536 ∨
      isLz ck.kind ∧ ck.ops ≠ #[] := by
  have h := init_run c hc M I hI m0 h0 calls hnc hok
  obtain ⟨q, hq, _⟩ := h.inv.cks
  intro ck hck
  exact COk.sizeOk true _ _ _ _ (hq true) ck hck

/-! ## statements to prove (do not change them) -/

/-- **Refinement.** After any history of successful calls (none of them `Close`), the sink holds exactly the
    emission of the recorded chunk list, the list is well-formed under both rule sets, and its content plus
    the bytes still pending in the writer (the open chunk and the look-ahead) is the accepted data. -/
theorem run_refines (strict : Bool) (c : Cfg) (hc : CfgOk c) (M : Matcher σ) (hM : MatcherOk c M) (m0 : σ)
    (calls : List Call) (hnc : ∀ call ∈ calls, ¬ (call matches .close))
    (hok : allOk (run c M (init c m0) calls).2) :
    let w := (run c M (init c m0) calls).1
    ChunksOk strict (e0 c.dictCap) .init w.chunks.toList ∧
    w.out = chunksBytes (e0 c.dictCap) w.chunks.toList ∧
    (w.chunks.foldl emitChunk (e0 c.dictCap)).h.out = w.hist.extract 0 w.start ∧
    w.hist ++ w.look = payload calls := by
  exact run_refines_I strict c hc M (fun _ _ _ => True) (matcherInv_of_ok hM) m0 trivial calls hnc hok

/-- **Flush clause of C08.** After a successful history that ends with `Flush`, the sink plus an end marker
    decodes (format rules and Go rules) to exactly the accepted data and every byte is consumed. -/
theorem flush_prefix_decodes (strict : Bool) (c : Cfg) (hc : CfgOk c) (M : Matcher σ) (hM : MatcherOk c M) (m0 : σ)
    (calls : List Call) (hnc : ∀ call ∈ calls, ¬ (call matches .close))
    (hok : allOk (run c M (init c m0) (calls ++ [.flush])).2) :
    let w := (run c M (init c m0) (calls ++ [.flush])).1
    ∃ r, decode strict c.dictCap (w.out.push 0) 0 ByteArray.empty = (r, .eof) ∧
      r.h.out = payload calls ∧ r.pos = w.out.size + 1 := by
  exact flush_prefix_decodes_I strict c hc M (fun _ _ _ => True) (matcherInv_of_ok hM) m0 trivial calls hnc hok

/-- **Close clause of C08 / C01.** After a successful history that ends with `Close`, the sink decodes to exactly
    the accepted data followed by a clean end, consuming every byte. -/
theorem close_decodes (strict : Bool) (c : Cfg) (hc : CfgOk c) (M : Matcher σ) (hM : MatcherOk c M) (m0 : σ)
    (calls : List Call) (hnc : ∀ call ∈ calls, ¬ (call matches .close))
    (hok : allOk (run c M (init c m0) (calls ++ [.close])).2) :
    let w := (run c M (init c m0) (calls ++ [.close])).1
    ∃ r, decode strict c.dictCap w.out 0 ByteArray.empty = (r, .eof) ∧
      r.h.out = payload calls ∧ r.pos = w.out.size ∧ r.seq = .ended := by
  exact close_decodes_I strict c hc M (fun _ _ _ => True) (matcherInv_of_ok hM) m0 trivial calls hnc hok

/-- a successful `Write` has taken every byte -/
theorem write_ok_all (c : Cfg) (M : Matcher σ) (w : WSt σ) (p : ByteArray)
    (h : (step c M w (.write p)).2.err = none) : (step c M w (.write p)).2.n = p.size := by
  by_cases hcl : w.closed = true
  · simp only [step, hcl, if_true] at h
    exact absurd h (by simp)
  · have hcl' : w.closed = false := by
      cases hb : w.closed
      · rfl
      · exact absurd hb hcl
    simp only [step, hcl', Bool.false_eq_true, if_false] at h ⊢
    exact write_ok_n c M p _ w 0 (Nat.zero_le _) h

/-- calls after `Close` fail with errClosed and change nothing (in particular emit nothing) -/
theorem after_close (c : Cfg) (M : Matcher σ) (w : WSt σ) (call : Call) (h : w.closed = true) :
    step c M w call = (w, { err := some .closed }) := by
  cases call <;> simp only [step, h, if_true]

/-- a `Flush` with nothing pending emits nothing and succeeds -/
theorem idle_flush (c : Cfg) (M : Matcher σ) (w : WSt σ) (h : w.written = 0) (hcl : w.closed = false) :
    step c M w .flush = (w, {}) := by
  unfold step
  simp only [hcl, Bool.false_eq_true, if_false]
  unfold flushLoop
  rw [if_neg (by omega)]

/-- **Failure analysis.** With a valid configuration and an applicable match finder the only way a call can
    fail (before `Close`) is the byte limit of the range coder (`ErrLimit` surfacing: an operation admitted
    with `opLenMargin` bytes of room needed more than `opLenMargin − 5`): no panic, no "other" error, no
    exhausted fuel. -/
theorem first_error_is_limit (c : Cfg) (hc : CfgOk c) (M : Matcher σ) (hM : MatcherOk c M) (m0 : σ)
    (calls : List Call) (hnc : ∀ call ∈ calls, ¬ (call matches .close)) (call : Call)
    (hok : allOk (run c M (init c m0) calls).2) :
    let r := (step c M (run c M (init c m0) calls).1 call).2
    r.err = none ∨ r.err = some .limit := by
  exact first_error_is_limit_I c hc M (fun _ _ _ => True) (matcherInv_of_ok hM) m0 trivial calls hnc call hok

/-- **Success under a sufficient margin.** One operation costs at most 20 bytes (`op_digits_bound`) and closing
    the range coder needs 5 more; if `opLenMargin ≥ 25` no call ever fails. -/
theorem no_error_of_margin (hmargin : 25 ≤ Gen.lzma_opLenMargin)
    (c : Cfg) (hc : CfgOk c) (M : Matcher σ) (hM : MatcherOk c M) (m0 : σ)
    (calls : List Call) (hnc : ∀ call ∈ calls, ¬ (call matches .close)) (call : Call) :
    allOk (run c M (init c m0) (calls ++ [call])).2 := by
  exact no_error_of_margin_I hmargin c hc M (fun _ _ _ => True) (matcherInv_of_ok hM) m0 trivial calls hnc call

/-- **Chunk discipline of the writer (C16, C17 premises).** Every chunk the writer records is either raw with
    1…65536 bytes or compressed with 1…2^21 bytes of content in at most 65536 bytes; the compressed form is
    chosen only when it is not larger than the raw form would be (`c + hdr ≤ u + 3`) or the data is no longer
    in the dictionary window. Follows from `run_refines`; stated for the size accounting of C17. -/
theorem chunk_sizes (c : Cfg) (hc : CfgOk c) (M : Matcher σ) (hM : MatcherOk c M) (m0 : σ)
    (calls : List Call) (hnc : ∀ call ∈ calls, ¬ (call matches .close))
    (hok : allOk (run c M (init c m0) calls).2) :
    ∀ ck ∈ (run c M (init c m0) calls).1.chunks.toList,
      (ck.kind = .u ∨ ck.kind = .ud) ∧ 1 ≤ ck.raw.size ∧ ck.raw.size ≤ 65536 ∨
      isLz ck.kind ∧ ck.ops ≠ #[] := by
  exact chunk_sizes_I c hc M (fun _ _ _ => True) (matcherInv_of_ok hM) m0 trivial calls hnc hok

#print axioms W2.run_refines_I
#print axioms W2.flush_prefix_decodes_I
#print axioms W2.close_decodes_I
#print axioms W2.first_error_is_limit_I
#print axioms W2.no_error_of_margin_I
#print axioms W2.chunk_sizes_I
#print axioms W2.run_refines
#print axioms W2.flush_prefix_decodes
#print axioms W2.close_decodes
#print axioms W2.write_ok_all
#print axioms W2.after_close
#print axioms W2.idle_flush
#print axioms W2.first_error_is_limit
#print axioms W2.no_error_of_margin
#print axioms W2.chunk_sizes

end W2
