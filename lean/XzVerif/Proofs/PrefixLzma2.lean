import XzVerif.Proofs.Lzma2RoundTrip
import XzVerif.Proofs.Stability

/-! LZMA2 chunk reader on truncated input: the chunk the cut falls into is reported as a failure, and the history
    delivered so far is a prefix of the content. -/

set_option linter.unusedSimpArgs false
set_option linter.unusedVariables false

namespace Lzma2
open Lzma Rc Spec

/-! ### byte array splitting -/

theorem initStatus_ne_eof (seg : List Nat) : initStatus seg ≠ .eof := by
  unfold initStatus
  cases seg with
  | nil => simp
  | cons b0 t => simp only; split_ifs <;> simp

theorem append_split {a b c d : ByteArray} (h : a ++ b = c ++ d) (hs : c.size ≤ a.size) :
    ∃ m, a = c ++ m ∧ d = m ++ b := by
  have h1 : a.extract 0 c.size = c := by
    have e1 : (a ++ b).extract 0 c.size = a.extract 0 c.size := by
      rw [ByteArray.extract_append]
      have : b.extract (0 - a.size) (c.size - a.size) = ByteArray.empty := by
        rw [ByteArray.extract_eq_empty_iff]; omega
      rw [this, ByteArray.append_empty]
    rw [← e1, h, ByteArray.extract_append_eq_left rfl]
  have h2 : a = c ++ a.extract c.size a.size := by
    have := ByteArray.extract_eq_extract_append_extract (a := a) (i := 0) (k := a.size) c.size (Nat.zero_le _) hs
    rw [ByteArray.extract_zero_size, h1] at this
    exact this
  refine ⟨a.extract c.size a.size, h2, ?_⟩
  rw [h2, ByteArray.append_assoc] at h
  exact ((ByteArray.append_right_inj c).mp h).symm

theorem get_trunc {inp pre T rest B : ByteArray} (hinp : inp = pre ++ T) (hB : B = T ++ rest) {i : Nat}
    (hi : i < T.size) : get inp (pre.size + i) = get B i := by
  rw [hinp, hB]
  unfold get
  rw [get!_append_right, get!_append_left hi]

/-! ### evaluation of `readChunk` on inputs that end too early -/

theorem readChunk_at_end (strict : Bool) (r : RState) (h : r.pos ≥ r.inp.size) :
    readChunk strict r = .done r .unexpectedEOF := by
  unfold readChunk
  simp only []
  rw [if_pos h]

def hlenK (kind : ChunkKind) : Nat :=
  match kind with
  | .eos => 1 | .ud => 3 | .u => 3 | .l => 5 | .lr => 5 | .lrn => 6 | .lrnd => 6

theorem readChunk_short_hdr (strict : Bool) (r : RState) (kind : ChunkKind) (h1 : r.pos < r.inp.size)
    (h2 : ctrl (get r.inp r.pos) = some kind) (h3 : r.pos + hlenK kind > r.inp.size) :
    readChunk strict r = .done r .unexpectedEOF := by
  unfold readChunk
  simp only []
  rw [if_neg (by omega), h2]
  simp only []
  cases kind <;> simp only [hlenK] at h3 <;> rw [if_pos h3]

theorem readChunk_raw_trunc (strict : Bool) (r : RState) (kind : ChunkKind) (seq' : SeqState)
    (hk : kind = .ud ∨ kind = .u)
    (h1 : r.pos + 3 ≤ r.inp.size) (h2 : ctrl (get r.inp r.pos) = some kind) (h3 : seqStep r.seq kind = some seq')
    (usize : Nat) (hu : usize = get r.inp (r.pos + 1) * 256 + get r.inp (r.pos + 2) + 1)
    (h4 : r.inp.size < r.pos + 3 + usize) :
    ∃ r', readChunk strict r = .done r' .unexpectedEOF ∧
      r'.h.out = r.h.out ++ r.inp.extract (r.pos + 3) r.inp.size := by
  unfold readChunk
  simp only []
  rw [if_neg (by omega), h2]
  simp only []
  have hmin : min usize (r.inp.size - (r.pos + 3)) = r.inp.size - (r.pos + 3) := by omega
  have hb : r.pos + 3 + (r.inp.size - (r.pos + 3)) = r.inp.size := by omega
  rcases hk with rfl | rfl
  · simp only [reduceCtorEq, or_self, if_false, h3, if_true, or_false, or_true, true_or]
    rw [if_neg (by omega)]
    rw [← hu, hmin, if_pos (by omega), hb]
    exact ⟨_, rfl, rfl⟩
  · simp only [reduceCtorEq, or_self, if_false, h3, if_true, or_false, or_true, true_or, false_or]
    rw [if_neg (by omega)]
    rw [← hu, hmin, if_pos (by omega), hb]
    exact ⟨_, rfl, rfl⟩

theorem readChunk_lz_trunc (strict : Bool) (r : RState) (kind : ChunkKind) (seq' : SeqState) (p : Props)
    (hp : Option Props)
    (hk : kind = .l ∨ kind = .lr ∨ kind = .lrn ∨ kind = .lrnd)
    (h1 : r.pos + hlenOf kind ≤ r.inp.size)
    (h2 : ctrl (get r.inp r.pos) = some kind)
    (h3 : seqStep r.seq kind = some seq')
    (hprops : if kind = .lrn ∨ kind = .lrnd then propsOfByte (get r.inp (r.pos + 5)) = some p ∧ hp = some p
              else hp = none ∧ r.props = some p)
    (hstrict : strict = true → p.lc + p.lp ≤ 4)
    (usize csize : Nat)
    (hu : usize = ((get r.inp r.pos % 32) * 65536 + get r.inp (r.pos + 1) * 256 + get r.inp (r.pos + 2)) + 1)
    (hc : csize = get r.inp (r.pos + 3) * 256 + get r.inp (r.pos + 4) + 1)
    (h4 : r.inp.size < r.pos + hlenOf kind + csize)
    (hh : Hist) (hhh : hh = if kind = .lrnd then r.h.reset else r.h) :
    (Dec.init (bytesToList r.inp (r.pos + hlenOf kind) r.inp.size) = none →
      ∃ r' st, readChunk strict r = .done r' st ∧ st ≠ .eof ∧ r'.h = hh) ∧
    (∀ rd, Dec.init (bytesToList r.inp (r.pos + hlenOf kind) r.inp.size) = some rd →
      ∀ res, res = decSegment p (some usize) hh.out.size strict (usize + 2)
          { s := if kind ≠ .l then {} else r.s, tbl := if kind ≠ .l then initTable p.lc p.lp else r.tbl,
            rd := rd, h := hh } →
        res.status = .unexpectedEOF → ∃ r', readChunk strict r = .done r' .unexpectedEOF ∧ r'.h = res.d.h) := by
  have hstr : ¬ (strict = true ∧ p.lc + p.lp > 4) := by
    intro ⟨a, b⟩; have := hstrict a; omega
  unfold readChunk
  simp only []
  rw [if_neg (by unfold hlenOf at h1; split at h1 <;> omega), h2]
  simp only []
  rcases hk with rfl | rfl | rfl | rfl
  · simp only [hlenOf, reduceCtorEq, or_self, if_false, if_true, or_false, or_true, true_or, false_or] at *
    rw [if_neg (by omega)]
    simp only [h3, hprops.2]
    rw [if_neg hstr, ← hc, ← hu]
    have hmin : min csize (r.inp.size - (r.pos + 5)) = r.inp.size - (r.pos + 5) := by omega
    have hb : r.pos + 5 + (r.inp.size - (r.pos + 5)) = r.inp.size := by omega
    rw [hmin, hb]
    subst hhh
    constructor
    · intro hinit
      rw [hinit]
      simp only []
      refine ⟨_, _, rfl, ?_, rfl⟩
      exact initStatus_ne_eof _
    · intro rd hinit res hres hst
      rw [hinit]
      simp only []
      rw [← hres]
      simp only [hst]
      exact ⟨_, rfl, rfl⟩
  · simp only [hlenOf, reduceCtorEq, or_self, if_false, if_true, or_false, or_true, true_or, false_or] at *
    rw [if_neg (by omega)]
    simp only [h3, hprops.2]
    rw [if_neg hstr, ← hc, ← hu]
    have hmin : min csize (r.inp.size - (r.pos + 5)) = r.inp.size - (r.pos + 5) := by omega
    have hb : r.pos + 5 + (r.inp.size - (r.pos + 5)) = r.inp.size := by omega
    rw [hmin, hb]
    subst hhh
    constructor
    · intro hinit
      rw [hinit]
      simp only []
      refine ⟨_, _, rfl, ?_, rfl⟩
      exact initStatus_ne_eof _
    · intro rd hinit res hres hst
      rw [hinit]
      simp only []
      rw [← hres]
      simp only [hst]
      exact ⟨_, rfl, rfl⟩
  · simp only [hlenOf, reduceCtorEq, or_self, if_false, if_true, or_false, or_true, true_or, false_or] at *
    rw [if_neg (by omega)]
    simp only [h3, hprops.1]
    rw [if_neg hstr, ← hc, ← hu]
    have hmin : min csize (r.inp.size - (r.pos + 6)) = r.inp.size - (r.pos + 6) := by omega
    have hb : r.pos + 6 + (r.inp.size - (r.pos + 6)) = r.inp.size := by omega
    rw [hmin, hb]
    subst hhh
    constructor
    · intro hinit
      rw [hinit]
      simp only []
      refine ⟨_, _, rfl, ?_, rfl⟩
      exact initStatus_ne_eof _
    · intro rd hinit res hres hst
      rw [hinit]
      simp only []
      rw [← hres]
      simp only [hst]
      exact ⟨_, rfl, rfl⟩
  · simp only [hlenOf, reduceCtorEq, or_self, if_false, if_true, or_false, or_true, true_or, false_or] at *
    rw [if_neg (by omega)]
    simp only [h3, hprops.1]
    rw [if_neg hstr, ← hc, ← hu]
    have hmin : min csize (r.inp.size - (r.pos + 6)) = r.inp.size - (r.pos + 6) := by omega
    have hb : r.pos + 6 + (r.inp.size - (r.pos + 6)) = r.inp.size := by omega
    rw [hmin, hb]
    subst hhh
    constructor
    · intro hinit
      rw [hinit]
      simp only []
      refine ⟨_, _, rfl, ?_, rfl⟩
      exact initStatus_ne_eof _
    · intro rd hinit res hres hst
      rw [hinit]
      simp only []
      rw [← hres]
      simp only [hst]
      exact ⟨_, rfl, rfl⟩

/-! ### what the emitter's chunk header says, read back through `get` -/

theorem lzTbl_ok (e : EState) (c : Chunk) (h : e.tbl.ok) : (lzTbl e c.kind (lzProps e c)).ok := by
  unfold lzTbl; split
  · exact initTable_ok _ _
  · exact h

theorem lz_roundtrip (strict : Bool) (e : EState) (c : Chunk) (htbl : e.tbl.ok) (hok : LzOk strict e c) :
    ∃ rd, Dec.init (blist (lzBody e c)) = some rd ∧
      (decSegment (lzProps e c) (some (lzUsize e c)) (lzH e c.kind).out.size strict (lzUsize e c + 2)
          { s := lzS e c.kind, tbl := lzTbl e c.kind (lzProps e c), rd := rd, h := lzH e c.kind }).d.h = (lzEnc e c).h ∧
      (decSegment (lzProps e c) (some (lzUsize e c)) (lzH e c.kind).out.size strict (lzUsize e c + 2)
          { s := lzS e c.kind, tbl := lzTbl e c.kind (lzProps e c), rd := rd, h := lzH e c.kind }).d.rd.inp = [] ∧
      1 ≤ lzUsize e c ∧ 5 ≤ (lzBody e c).size := by
  obtain ⟨hne, hpr, hops, hU, hB, hstr⟩ := hok
  have htbl' := lzTbl_ok e c htbl
  have hnel : c.ops.toList ≠ [] := by
    intro h; apply hne; exact Array.toList_eq_nil_iff.mp h
  have hlen1 : 1 ≤ c.ops.toList.length := by
    rcases hl : c.ops.toList with _ | ⟨a, l⟩
    · exact absurd hl hnel
    · simp
  obtain ⟨rd, h1, h2⟩ := segment_roundtrip (lzProps e c) strict (lzS e c.kind) (lzTbl e c.kind (lzProps e c)) htbl'
    (lzH e c.kind) c.ops.toList hops hnel
  have hencs := encodeOps_bytes (lzProps e c) (lzS e c.kind) (lzTbl e c.kind (lzProps e c)) htbl' (lzH e c.kind)
    c.ops.toList
  have hU1 : 1 ≤ lzUsize e c := by
    have h1 := finalH_size c.ops.toList _ _ hops
    have h2 : (lzEnc e c).h = _ := hencs.2.2.2
    unfold lzUsize; rw [h2]; omega
  have h1' : Dec.init (blist (lzBody e c)) = some rd := by
    rw [← bytesToList_eq]; exact h1
  have hB5 : 5 ≤ (lzBody e c).size := by
    have := init_some_len _ _ h1'
    rw [blist_length] at this
    exact this
  exact ⟨rd, h1', h2.2.2.1, h2.2.2.2.2.2.2.1, hU1, hB5⟩

theorem lz_hdr_read (strict : Bool) (e : EState) (q : SeqState) (c : Chunk) (r : RState) (hk : isLz c.kind)
    (hm : Matches r e q) (hok : LzOk strict e c) (hU1 : 1 ≤ lzUsize e c) (hB1 : 1 ≤ (lzBody e c).size) :
    (lzHdr e c).size = hlenOf c.kind ∧
    (get r.inp r.pos = (blist (lzHdr e c))[0]?.getD 0 → ctrl (get r.inp r.pos) = some c.kind) ∧
    ((∀ i, i < hlenOf c.kind → get r.inp (r.pos + i) = (blist (lzHdr e c))[i]?.getD 0) →
      (if c.kind = .lrn ∨ c.kind = .lrnd then
          propsOfByte (get r.inp (r.pos + 5)) = some (lzProps e c) ∧ c.props = some (lzProps e c)
        else c.props = none ∧ r.props = some (lzProps e c)) ∧
      lzUsize e c = (get r.inp r.pos % 32) * 65536 + get r.inp (r.pos + 1) * 256 + get r.inp (r.pos + 2) + 1 ∧
      (lzBody e c).size = get r.inp (r.pos + 3) * 256 + get r.inp (r.pos + 4) + 1) := by
  obtain ⟨hne, hpr, hops, hU, hB, hstr⟩ := hok
  have hpk : ∀ p, c.props = some p → PropsOk p := by
    intro p hp
    by_cases hkk : c.kind = .lrn ∨ c.kind = .lrnd
    · rw [if_pos hkk] at hpr; obtain ⟨p', h1, h2⟩ := hpr; rw [h1] at hp; cases hp; exact h2
    · rw [if_neg hkk] at hpr; rw [hpr.1] at hp; cases hp
  have hbl := lzHdr_blist e c hk hU hB (by omega) hpk
  have hhsz : (lzHdr e c).size = hlenOf c.kind := by
    rw [← blist_length, hbl]; unfold hlenOf
    by_cases hkk : c.kind = .lrn ∨ c.kind = .lrnd
    · rw [if_pos hkk] at hpr ⊢; obtain ⟨p', h1, h2⟩ := hpr; rw [h1]; rfl
    · rw [if_neg hkk] at hpr ⊢; rw [hpr.1]; rfl
  have hl5 : 5 ≤ hlenOf c.kind := by unfold hlenOf; split <;> omega
  obtain ⟨hc1, hc2, hc3⟩ := ctrl_lz c.kind hk ((lzUsize e c - 1) / 65536) (by omega)
  refine ⟨hhsz, ?_, ?_⟩
  · intro g0
    rw [hbl] at g0
    rw [g0]; exact hc1
  intro hg
  have g0 : get r.inp r.pos = ctrlOf c.kind + (lzUsize e c - 1) / 65536 := by
    have := hg 0 (by omega); rw [hbl] at this; exact this
  have g1 : get r.inp (r.pos + 1) = (lzUsize e c - 1) % 65536 / 256 := by
    have := hg 1 (by omega); rw [hbl] at this; exact this
  have g2 : get r.inp (r.pos + 2) = (lzUsize e c - 1) % 65536 % 256 := by
    have := hg 2 (by omega); rw [hbl] at this; exact this
  have g3 : get r.inp (r.pos + 3) = ((lzBody e c).size - 1) / 256 := by
    have := hg 3 (by omega); rw [hbl] at this; exact this
  have g4 : get r.inp (r.pos + 4) = ((lzBody e c).size - 1) % 256 := by
    have := hg 4 (by omega); rw [hbl] at this; exact this
  refine ⟨?_, ?_, ?_⟩
  · by_cases hkk : c.kind = .lrn ∨ c.kind = .lrnd
    · rw [if_pos hkk] at hpr ⊢
      obtain ⟨p', h1, h2⟩ := hpr
      have hlp : lzProps e c = p' := by unfold lzProps; rw [h1]
      have g5 : get r.inp (r.pos + 5) = byteOfProps p' := by
        have := hg 5 (by unfold hlenOf; rw [if_pos hkk]; omega); rw [hbl, h1] at this; exact this
      rw [g5, hlp]
      exact ⟨propsOfByte_byteOfProps p' h2, h1⟩
    · rw [if_neg hkk] at hpr ⊢
      obtain ⟨h1, h2⟩ := hpr
      refine ⟨h1, ?_⟩
      rw [hm.props]
      rcases hep : e.props with _ | p'
      · rw [hep] at h2; simp at h2
      · unfold lzProps; rw [h1, hep]; rfl
  · rw [g0, g1, g2, hc2]; omega
  · rw [g3, g4]; omega

/-! ### a chunk cut short -/

theorem emitChunk_raw_out (e : EState) (c : Chunk) (hk : c.kind = .ud ∨ c.kind = .u) :
    (emitChunk e c).h.out = e.h.out ++ c.raw := by
  obtain ⟨kind, usize, csize, props, ops, raw, consumed, marker⟩ := c
  dsimp only at hk
  rcases hk with rfl | rfl
  · simp only [emitChunk, if_true]; rfl
  · simp only [emitChunk, reduceCtorEq, if_false]

theorem size_trunc {inp pre T : ByteArray} (hinp : inp = pre ++ T) : inp.size = pre.size + T.size := by
  rw [hinp, ByteArray.size_append]

theorem readChunk_trunc_raw (strict : Bool) (e : EState) (q q' : SeqState) (c : Chunk) (r : RState)
    (pre T rest : ByteArray) (hk : c.kind = .ud ∨ c.kind = .u)
    (hm : Matches r e q) (hraw : RawOk c) (hq : seqStep q c.kind = some q')
    (hsplit : chunkBytes e c = T ++ rest) (hrest : 0 < rest.size)
    (hinp : r.inp = pre ++ T) (hpos : r.pos = pre.size) :
    ∃ r' st, readChunk strict r = .done r' st ∧ st ≠ .eof ∧ Pfx r'.h.out (emitChunk e c).h.out := by
  have hout := emitChunk_raw_out e c hk
  obtain ⟨kind, usize, csize, props, ops, raw, consumed, marker⟩ := c
  obtain ⟨hr1, hr2⟩ := hraw
  dsimp only at hk hr1 hr2 hq hout
  have hcb : chunkBytes e ⟨kind, usize, csize, props, ops, raw, consumed, marker⟩ =
      ByteArray.empty.push (ctrlOf kind).toUInt8 ++ be16 (raw.size - 1) ++ raw := by
    rcases hk with rfl | rfl <;> rfl
  have hck : ctrlOf kind < 256 := by rcases hk with rfl | rfl <;> decide
  have hctrl : ctrl (ctrlOf kind) = some kind := by rcases hk with rfl | rfl <;> rfl
  rw [hcb] at hsplit
  rw [hout]
  generalize hhdr : ByteArray.empty.push (ctrlOf kind).toUInt8 ++ be16 (raw.size - 1) = hdr at hsplit
  have hbl : blist hdr = [ctrlOf kind, (raw.size - 1) / 256, (raw.size - 1) % 256] := by
    rw [← hhdr]; exact blist_rawHdr kind _ hck (by omega)
  have hhsz : hdr.size = 3 := by rw [← blist_length, hbl]; rfl
  have hsz := size_trunc hinp
  have hBsz : (hdr ++ raw).size = T.size + rest.size := by rw [hsplit, ByteArray.size_append]
  rw [ByteArray.size_append, hhsz] at hBsz
  have hpfx0 : Pfx r.h.out (e.h.out ++ raw) := by rw [hm.h]; exact Pfx.append _ _
  have hg : ∀ i, i < 3 → i < T.size → get r.inp (r.pos + i) = (blist hdr)[i]?.getD 0 := by
    intro i hi hiT
    rw [hpos, get_trunc hinp hsplit hiT, get_append_left (by omega), get_eq_blist]
  by_cases h0 : T.size = 0
  · exact ⟨r, _, readChunk_at_end strict r (by omega), by simp, hpfx0⟩
  have g0 : get r.inp r.pos = ctrlOf kind := by
    have := hg 0 (by omega) (by omega); rw [hbl] at this; exact this
  by_cases h3 : T.size < 3
  · refine ⟨r, _, readChunk_short_hdr strict r kind (by omega) (by rw [g0]; exact hctrl) ?_, by simp, hpfx0⟩
    rcases hk with rfl | rfl <;> simp only [hlenK] <;> omega
  have g1 : get r.inp (r.pos + 1) = (raw.size - 1) / 256 := by
    have := hg 1 (by omega) (by omega); rw [hbl] at this; exact this
  have g2 : get r.inp (r.pos + 2) = (raw.size - 1) % 256 := by
    have := hg 2 (by omega) (by omega); rw [hbl] at this; exact this
  have hu : raw.size = get r.inp (r.pos + 1) * 256 + get r.inp (r.pos + 2) + 1 := by
    rw [g1, g2]; omega
  have hs : seqStep r.seq kind = some q' := by rw [hm.seq]; exact hq
  obtain ⟨T2, hT, hraw2⟩ := append_split hsplit.symm (by omega)
  obtain ⟨r', hr', hout'⟩ := readChunk_raw_trunc strict r kind q' hk (by omega) (by rw [g0]; exact hctrl) hs raw.size hu
    (by omega)
  refine ⟨r', _, hr', by simp, ?_⟩
  have hex : r.inp.extract (r.pos + 3) r.inp.size = T2 := by
    have h1 : r.inp = (pre ++ hdr) ++ T2 := by rw [hinp, hT, ByteArray.append_assoc]
    rw [h1]
    exact ByteArray.extract_append_eq_right (by rw [ByteArray.size_append, hhsz, hpos])
      (by rw [ByteArray.size_append])
  rw [hout', hex, hm.h, hraw2, ← ByteArray.append_assoc]
  exact Pfx.append _ _

theorem lzH_out (e : EState) (k : ChunkKind) : (lzH e k).out = e.h.out := by
  unfold lzH; split <;> rfl

theorem hlenK_lz (k : ChunkKind) (hk : isLz k) : hlenK k = hlenOf k := by
  rcases hk with rfl | rfl | rfl | rfl <;> rfl

theorem readChunk_trunc_lz (strict : Bool) (e : EState) (q q' : SeqState) (c : Chunk) (r : RState)
    (pre T rest : ByteArray) (hk : isLz c.kind)
    (hm : Matches r e q) (hok : LzOk strict e c) (hq : seqStep q c.kind = some q')
    (hsplit : chunkBytes e c = T ++ rest) (hrest : 0 < rest.size)
    (hinp : r.inp = pre ++ T) (hpos : r.pos = pre.size) :
    ∃ r' st, readChunk strict r = .done r' st ∧ st ≠ .eof ∧ Pfx r'.h.out (emitChunk e c).h.out := by
  rw [emitChunk_lz e c hk]
  show ∃ r' st, readChunk strict r = .done r' st ∧ st ≠ .eof ∧ Pfx r'.h.out (lzEnc e c).h.out
  rw [chunkBytes_lz e c hk] at hsplit
  obtain ⟨rdF, hinitF, hFh, hFinp, hU1, hB5⟩ := lz_roundtrip strict e c hm.tblOk hok
  obtain ⟨hhsz, hctrl, hrest3⟩ := lz_hdr_read strict e q c r hk hm hok hU1 (by omega)
  have hstr := hok.2.2.2.2.2
  have hsz := size_trunc hinp
  have hBsz : (lzHdr e c ++ lzBody e c).size = T.size + rest.size := by rw [hsplit, ByteArray.size_append]
  rw [ByteArray.size_append, hhsz] at hBsz
  have hl5 : 5 ≤ hlenOf c.kind := by unfold hlenOf; split <;> omega
  have hmono : Pfx e.h.out (lzEnc e c).h.out := by
    have := decSegment_mono (lzProps e c) (some (lzUsize e c)) (lzH e c.kind).out.size strict (lzUsize e c + 2)
      { s := lzS e c.kind, tbl := lzTbl e c.kind (lzProps e c), rd := rdF, h := lzH e c.kind }
    rw [hFh] at this
    dsimp only at this
    rw [lzH_out] at this
    exact this
  have hpfx0 : Pfx r.h.out (lzEnc e c).h.out := by rw [hm.h]; exact hmono
  have hg : ∀ i, i < hlenOf c.kind → i < T.size → get r.inp (r.pos + i) = (blist (lzHdr e c))[i]?.getD 0 := by
    intro i hi hiT
    rw [hpos, get_trunc hinp hsplit hiT, get_append_left (by omega), get_eq_blist]
  by_cases h0 : T.size = 0
  · exact ⟨r, _, readChunk_at_end strict r (by omega), by simp, hpfx0⟩
  have g0 := hctrl (hg 0 (by omega) (by omega))
  by_cases h3 : T.size < hlenOf c.kind
  · exact ⟨r, _, readChunk_short_hdr strict r c.kind (by omega) g0 (by rw [hlenK_lz _ hk]; omega), by simp, hpfx0⟩
  obtain ⟨T2, hT, hbody2⟩ := append_split hsplit.symm (by omega)
  obtain ⟨hprops, hu, hc⟩ := hrest3 (fun i hi => hg i hi (by omega))
  have hT2sz : T.size = hlenOf c.kind + T2.size := by rw [hT, ByteArray.size_append, hhsz]
  have hseg : bytesToList r.inp (r.pos + hlenOf c.kind) r.inp.size = blist T2 := by
    have h1 : r.inp = (pre ++ lzHdr e c) ++ T2 ++ ByteArray.empty := by
      rw [hinp, hT, ByteArray.append_empty, ByteArray.append_assoc]
    have h2 : r.pos + hlenOf c.kind = (pre ++ lzHdr e c).size := by rw [ByteArray.size_append, hhsz, hpos]
    have h4 : r.inp.size = (pre ++ lzHdr e c).size + T2.size := by rw [← h2, hsz, hpos, hT2sz]; omega
    rw [h4, h2, h1]
    exact bytesToList_mid _ _ _
  have hS : (if c.kind ≠ .l then ({} : St) else r.s) = lzS e c.kind := by unfold lzS; rw [hm.s]
  have hTb : (if c.kind ≠ .l then initTable (lzProps e c).lc (lzProps e c).lp else r.tbl) =
      lzTbl e c.kind (lzProps e c) := by unfold lzTbl; rw [hm.tbl]
  have hH : lzH e c.kind = if c.kind = .lrnd then r.h.reset else r.h := by unfold lzH; rw [hm.h]
  obtain ⟨ha, hb⟩ := readChunk_lz_trunc strict r c.kind q' (lzProps e c) c.props hk (by omega) g0
    (by rw [hm.seq]; exact hq) hprops hstr (lzUsize e c) (lzBody e c).size hu hc (by omega) (lzH e c.kind) hH
  rw [hseg, hS, hTb] at hb
  rw [hseg] at ha
  cases hinit : Dec.init (blist T2) with
  | none =>
    obtain ⟨r', st, h1, h2, h3⟩ := ha hinit
    refine ⟨r', st, h1, h2, ?_⟩
    rw [h3, lzH_out]; exact hmono
  | some rd =>
    have hx := Dec.init_ext (blist T2) (blist rest) rd hinit
    rw [← blist_append, ← hbody2, hinitF] at hx
    have hrdF : rdF = rd.ext (blist rest) := Option.some.inj hx
    have hlock := decSegment_lock (lzProps e c) (some (lzUsize e c)) (lzH e c.kind).out.size strict (blist rest)
      (lzUsize e c + 2) { s := lzS e c.kind, tbl := lzTbl e c.kind (lzProps e c), rd := rd, h := lzH e c.kind }
    have hdext : DecSt.ext { s := lzS e c.kind, tbl := lzTbl e c.kind (lzProps e c), rd := rd, h := lzH e c.kind }
        (blist rest) =
        { s := lzS e c.kind, tbl := lzTbl e c.kind (lzProps e c), rd := rdF, h := lzH e c.kind } := by
      rw [hrdF]; rfl
    rw [hdext] at hlock
    rcases hlock with hl | ⟨hst, hpf⟩
    · exfalso
      rw [hl] at hFinp
      have : (blist rest).length = 0 := by
        have h9 := congrArg List.length hFinp
        simp only [SegRes.ext, DecSt.ext, Dec.ext, List.length_append, List.length_nil] at h9
        omega
      rw [blist_length] at this
      omega
    · obtain ⟨r', h1, h2⟩ := hb rd hinit _ rfl hst
      refine ⟨r', _, h1, by simp, ?_⟩
      rw [h2, ← hFh]
      exact hpf

theorem readChunk_trunc (strict : Bool) (e : EState) (q : SeqState) (c : Chunk) (r : RState)
    (pre T rest : ByteArray) (hm : Matches r e q) (hok : ChunkOk strict e q c)
    (hsplit : chunkBytes e c = T ++ rest) (hrest : 0 < rest.size)
    (hinp : r.inp = pre ++ T) (hpos : r.pos = pre.size) :
    ∃ r' st, readChunk strict r = .done r' st ∧ st ≠ .eof ∧ Pfx r'.h.out (emitChunk e c).h.out := by
  obtain ⟨hq, hrest'⟩ := hok
  obtain ⟨q', hq'⟩ := Option.isSome_iff_exists.mp hq
  cases hck : c.kind <;> rw [hck] at hrest' <;> dsimp only at hrest'
  · exact readChunk_trunc_raw strict e q q' c r pre T rest (Or.inl hck) hm hrest' hq' hsplit hrest hinp hpos
  · exact readChunk_trunc_raw strict e q q' c r pre T rest (Or.inr hck) hm hrest' hq' hsplit hrest hinp hpos
  · exact readChunk_trunc_lz strict e q q' c r pre T rest (Or.inl hck) hm hrest' hq' hsplit hrest hinp hpos
  · exact readChunk_trunc_lz strict e q q' c r pre T rest (Or.inr (Or.inl hck)) hm hrest' hq' hsplit hrest hinp hpos
  · exact readChunk_trunc_lz strict e q q' c r pre T rest (Or.inr (Or.inr (Or.inl hck))) hm hrest' hq' hsplit hrest
      hinp hpos
  · exact readChunk_trunc_lz strict e q q' c r pre T rest (Or.inr (Or.inr (Or.inr hck))) hm hrest' hq' hsplit hrest
      hinp hpos

/-- one emitted chunk keeps the probability table legal and only extends the history -/
theorem chunk_step_facts (strict : Bool) (e : EState) (q : SeqState) (c : Chunk) (htbl : e.tbl.ok)
    (hok : ChunkOk strict e q c) : (emitChunk e c).tbl.ok ∧ Pfx e.h.out (emitChunk e c).h.out := by
  constructor
  · let r : RState := { inp := ByteArray.empty ++ chunkBytes e c ++ ByteArray.empty, pos := 0, seq := q, h := e.h,
                        props := e.props, s := e.s, tbl := e.tbl }
    have hm : Matches r e q := ⟨rfl, rfl, rfl, rfl, rfl, htbl⟩
    obtain ⟨r', q', _, _, _, hm', _⟩ := readChunk_emitChunk strict e q c r ByteArray.empty ByteArray.empty hm hok rfl rfl
    exact hm'.tblOk
  · let r : RState := { inp := ByteArray.empty ++ ByteArray.empty, pos := 0, seq := q, h := e.h,
                        props := e.props, s := e.s, tbl := e.tbl }
    have hm : Matches r e q := ⟨rfl, rfl, rfl, rfl, rfl, htbl⟩
    have hpos := chunkBytes_size_pos e c
    obtain ⟨r', st, h1, _, h3⟩ := readChunk_trunc strict e q c r ByteArray.empty ByteArray.empty (chunkBytes e c) hm hok
      (by rw [ByteArray.empty_append]) (by omega) rfl rfl
    rw [readChunk_at_end strict r (by show 0 ≥ (ByteArray.empty ++ ByteArray.empty).size; simp)] at h1
    simp only [ChunkRes.done.injEq] at h1
    rw [← h1.1] at h3
    exact h3

theorem chunks_pfx (strict : Bool) : ∀ (cs : List Chunk) (e : EState) (q : SeqState), e.tbl.ok →
    ChunksOk strict e q cs → Pfx e.h.out (cs.foldl emitChunk e).h.out := by
  intro cs
  induction cs with
  | nil => intro e q _ _; exact Pfx.refl _
  | cons c cs ih =>
    intro e q htbl hok
    cases hok with
    | cons _ _ q1 _ _ hc hs hrest =>
    obtain ⟨h1, h2⟩ := chunk_step_facts strict e q c htbl hc
    exact h2.trans (ih _ _ h1 hrest)

/-- **The chunk loop on a truncated chunk sequence**: it does not end cleanly, and the history delivered is a
    prefix of the content. -/
theorem readAll_trunc (strict : Bool) : ∀ (cs : List Chunk) (e : EState) (q : SeqState) (r : RState)
    (pre T rest : ByteArray) (fuel : Nat),
    Matches r e q → q ≠ .ended → ChunksOk strict e q cs →
    chunksBytes e cs ++ ByteArray.empty.push 0 = T ++ rest → 0 < rest.size →
    r.inp = pre ++ T → r.pos = pre.size →
    (readAll strict fuel r).2 ≠ .eof ∧ Pfx (readAll strict fuel r).1.h.out (cs.foldl emitChunk e).h.out := by
  intro cs
  induction cs with
  | nil =>
    intro e q r pre T rest fuel hm hq _ hsplit hrest hinp hpos
    have hT : T.size = 0 := by
      have := congrArg ByteArray.size hsplit
      simp only [chunksBytes, ByteArray.size_append, ByteArray.size_push, ByteArray.size_empty] at this
      omega
    cases fuel with
    | zero => exact ⟨by simp [readAll], by simp only [readAll, List.foldl_nil]; rw [hm.h]; exact Pfx.refl _⟩
    | succ f =>
      have hsz := size_trunc hinp
      simp only [readAll, readChunk_at_end strict r (by omega), List.foldl_nil]
      exact ⟨by simp, by rw [hm.h]; exact Pfx.refl _⟩
  | cons c cs ih =>
    intro e q r pre T rest fuel hm hq hok hsplit hrest hinp hpos
    have hfull := chunks_pfx strict (c :: cs) e q hm.tblOk hok
    cases hok with
    | cons _ _ q1 _ _ hc hs hrest' =>
    cases fuel with
    | zero => exact ⟨by simp [readAll], by simp only [readAll]; rw [hm.h]; exact hfull⟩
    | succ f =>
      simp only [chunksBytes, ByteArray.append_assoc] at hsplit
      simp only [List.foldl_cons]
      by_cases hfit : (chunkBytes e c).size ≤ T.size
      · obtain ⟨T', hT, hrem⟩ := append_split hsplit.symm hfit
        have hinp1 : r.inp = pre ++ chunkBytes e c ++ T' := by rw [hinp, hT, ByteArray.append_assoc]
        obtain ⟨r1, q', hq', hne, h1, h2, h3, h4, h5⟩ := readChunk_emitChunk strict e q c r pre T' hm hc hinp1 hpos
        have hqq : q' = q1 := by rw [hs] at hq'; exact (Option.some.inj hq').symm
        subst hqq
        simp only [readAll, h1]
        exact ih (emitChunk e c) q' r1 (pre ++ chunkBytes e c) T' rest f h2 hne hrest' hrem hrest
          (by rw [h3, hinp1]) (by rw [h4, hpos, ByteArray.size_append])
      · obtain ⟨m, hcb, hrem⟩ := append_split hsplit (by omega)
        have hm0 : 0 < m.size := by
          have := congrArg ByteArray.size hcb
          rw [ByteArray.size_append] at this
          omega
        obtain ⟨r', st, h1, h2, h3⟩ := readChunk_trunc strict e q c r pre T m hm hc hcb hm0 hinp hpos
        simp only [readAll, h1]
        obtain ⟨t1, t2⟩ := chunk_step_facts strict e q c hm.tblOk hc
        exact ⟨h2, h3.trans (chunks_pfx strict cs _ _ t1 hrest')⟩

theorem extract_split (S : ByteArray) (k : Nat) (hk : k ≤ S.size) :
    S = S.extract 0 k ++ S.extract k S.size := by
  have := ByteArray.extract_eq_extract_append_extract (a := S) (i := 0) (k := S.size) k (Nat.zero_le _) hk
  rw [ByteArray.extract_zero_size] at this
  exact this

theorem size_extract_le (S : ByteArray) (k : Nat) (hk : k ≤ S.size) : (S.extract 0 k).size = k := by
  rw [ByteArray.size_extract]; omega

/-- both LZMA2 prefix statements at once -/
theorem decode_trunc (strict : Bool) (cap : Nat) (cs : Array Chunk)
    (hok : ChunksOk strict (e0 cap) .init cs.toList) (k : Nat)
    (hk : k < (emit cap (cs.push { kind := .eos, usize := 0 })).size) :
    (decode strict cap ((emit cap (cs.push { kind := .eos, usize := 0 })).extract 0 k) 0 ByteArray.empty).2 ≠ .eof ∧
    Pfx (decode strict cap ((emit cap (cs.push { kind := .eos, usize := 0 })).extract 0 k) 0 ByteArray.empty).1.h.out
      (cs.foldl emitChunk (e0 cap)).h.out := by
  have hemit := emit_eq cap cs
  unfold eosChunk at hemit
  unfold decode
  generalize hinp : emit cap (cs.push { kind := .eos, usize := 0 }) = S at *
  have hsp := extract_split S k (by omega)
  have hrs : 0 < (S.extract k S.size).size := by rw [ByteArray.size_extract]; omega
  let r0 : RState := { inp := (S.extract 0 k), pos := 0, h := { out := ByteArray.empty, dictStart := ByteArray.empty.size, cap := cap } }
  have hm : Matches r0 (e0 cap) .init := ⟨rfl, rfl, rfl, rfl, rfl, empty_tbl_ok⟩
  have := readAll_trunc strict cs.toList (e0 cap) .init r0 ByteArray.empty (S.extract 0 k) (S.extract k S.size)
    ((S.extract 0 k).size - 0 + 2) hm (by simp [SeqState.init]) hok (by rw [← hemit]; exact hsp) hrs
    (by show S.extract 0 k = _; rw [ByteArray.empty_append]) rfl
  rw [Array.foldl_toList] at this
  exact this

#print axioms Lzma2.decode_trunc

end Lzma2
