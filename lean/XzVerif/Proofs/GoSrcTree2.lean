import XzVerif.Gen.GoSrc
import XzVerif.Model.BinTree
/-
  Proofs.GoSrcTree2 — the REGENERATED translation of lzma/bintree.go's read-only walkers `max`, `min` (descend along the
  right / left children of the node slice until `null`) and `distance` (ring distance of a node from the front + the word
  length − 1) refines the hand-written BinaryTree model (Model/BinTree.lean).  Statements are fixed; only proofs may change.
-/
namespace GoSrcP
open GoSrc

/-- the Go tree `g` is the model tree `t`: same nodes, child / parent links inside the slice or `null` -/
structure BTRel (g : T_binTree) (t : BT.Tree) : Prop where
  size : g.node.size = t.node.size
  small : t.node.size < 2 ^ 31
  x : ∀ i, i < t.node.size → (g.node.getD i default).x.toNat = (t.nd i).x
  p : ∀ i, i < t.node.size → (g.node.getD i default).p.toNat = (t.nd i).p
  l : ∀ i, i < t.node.size → (g.node.getD i default).l.toNat = (t.nd i).l
  r : ∀ i, i < t.node.size → (g.node.getD i default).r.toNat = (t.nd i).r
  wl : ∀ i, i < t.node.size → (t.nd i).l = BT.null ∨ (t.nd i).l < t.node.size
  wr : ∀ i, i < t.node.size → (t.nd i).r = BT.null ∨ (t.nd i).r < t.node.size
  front : g.front.toNat = t.front

theorem binTree_distance_spec (g : T_binTree) (t : BT.Tree) (rel : BTRel g t) (v : BitVec 32) (hv : v.toNat < t.node.size)
    (hf : t.front < 2 ^ 31) :
    (binTree_distance g v).toNat = t.distance v.toNat := by
  obtain ⟨hsize, hsmall, -, -, -, -, -, -, hfront⟩ := rel
  have hfl := g.front.isLt
  have hvl := v.isLt
  unfold binTree_distance BT.Tree.distance
  simp only [hsize]
  generalize t.node.size = n at *
  generalize t.front = f at *
  subst hfront
  have h1 : (BitVec.setWidth 64 g.front).toNat = g.front.toNat := by
    simp only [BitVec.toNat_setWidth]; omega
  have h2 : (BitVec.setWidth 64 v).toNat = v.toNat := by
    simp only [BitVec.toNat_setWidth]; omega
  have h3 : (BitVec.ofNat 64 n).toNat = n := by
    simp only [BitVec.toNat_ofNat]; omega
  generalize BitVec.setWidth 64 g.front = F at *
  generalize BitVec.setWidth 64 v = V at *
  generalize BitVec.ofNat 64 n = N at *
  have hN : N.toNat < 2 ^ 31 := by omega
  have hF : F.toNat < 2 ^ 31 := by omega
  have hV : V.toNat < N.toNat := by omega
  have hD : (F - V).toNat = (2 ^ 64 - V.toNat + F.toNat) % 2 ^ 64 := BitVec.toNat_sub F V
  rw [← h1, ← h2]
  by_cases hc : F.toNat > V.toNat
  · have : BitVec.sle (F - V) (0#64) = false := by
      simp only [BitVec.sle, BitVec.toInt_eq_toNat_cond, decide_eq_false_iff_not, hD, BitVec.toNat_ofNat]
      omega
    simp only [this, hc, if_true, Bool.false_eq_true, if_false]
    simp only [BitVec.toNat_sub, BitVec.toNat_add, BitVec.toNat_ofNat]
    omega
  · have : BitVec.sle (F - V) (0#64) = true := by
      simp only [BitVec.sle, BitVec.toInt_eq_toNat_cond, decide_eq_true_eq, hD, BitVec.toNat_ofNat]
      omega
    simp only [this, hc, if_true, if_false]
    simp only [BitVec.toNat_sub, BitVec.toNat_add, BitVec.toNat_ofNat]
    omega

theorem binTree_max_loop (g : T_binTree) (t : BT.Tree) (rel : BTRel g t) :
    ∀ (k fuel : Nat) (v : BitVec 32), v.toNat < t.node.size → k + 1 ≤ fuel →
      (t.nd (BT.Tree.max.go t k v.toNat)).r = BT.null →
      binTree_max_loop1 fuel g v = Go.Res.ok (Sum.inl (BitVec.ofNat 32 (BT.Tree.max.go t k v.toNat))) := by
  intro k
  induction k with
  | zero =>
    intro fuel v hv hfuel hterm
    obtain ⟨fuel, rfl⟩ : ∃ f, fuel = f + 1 := ⟨fuel - 1, by omega⟩
    unfold binTree_max_loop1
    simp only [BT.Tree.max.go] at hterm ⊢
    have hsz := rel.size
    have hr := rel.r v.toNat hv
    rw [if_neg (by omega)]
    have hq : (g.node.getD v.toNat default).r = 4294967295#32 := by
      apply BitVec.eq_of_toNat_eq
      rw [hr, hterm]; rfl
    simp only [hq, beq_self_eq_true, if_true, BitVec.ofNat_toNat, BitVec.setWidth_eq]
  | succ k ih =>
    intro fuel v hv hfuel hterm
    obtain ⟨fuel, rfl⟩ : ∃ f, fuel = f + 1 := ⟨fuel - 1, by omega⟩
    unfold binTree_max_loop1
    have hsz := rel.size
    have hr := rel.r v.toNat hv
    rw [if_neg (by omega)]
    simp only [BT.Tree.max.go] at hterm ⊢
    by_cases hn : (t.nd v.toNat).r = BT.null
    · rw [if_pos hn] at hterm ⊢
      have hq : (g.node.getD v.toNat default).r = 4294967295#32 := by
        apply BitVec.eq_of_toNat_eq
        rw [hr, hn]; rfl
      simp only [hq, beq_self_eq_true, if_true, BitVec.ofNat_toNat, BitVec.setWidth_eq]
    · rw [if_neg hn] at hterm ⊢
      have hq : ((g.node.getD v.toNat default).r == 4294967295#32) = false := by
        rw [beq_eq_false_iff_ne]
        intro h
        apply hn
        rw [← hr, h]; rfl
      simp only [hq, Bool.false_eq_true, if_false]
      have hw : (t.nd v.toNat).r < t.node.size := by
        rcases rel.wr v.toNat hv with h | h
        · exact absurd h hn
        · exact h
      have := ih fuel (g.node.getD v.toNat default).r (by rw [hr]; exact hw) (by omega) (by rw [hr]; exact hterm)
      rw [this, hr]

theorem binTree_min_loop (g : T_binTree) (t : BT.Tree) (rel : BTRel g t) :
    ∀ (k fuel : Nat) (v : BitVec 32), v.toNat < t.node.size → k + 1 ≤ fuel →
      (t.nd (BT.Tree.min.go t k v.toNat)).l = BT.null →
      binTree_min_loop1 fuel g v = Go.Res.ok (Sum.inl (BitVec.ofNat 32 (BT.Tree.min.go t k v.toNat))) := by
  intro k
  induction k with
  | zero =>
    intro fuel v hv hfuel hterm
    obtain ⟨fuel, rfl⟩ : ∃ f, fuel = f + 1 := ⟨fuel - 1, by omega⟩
    unfold binTree_min_loop1
    simp only [BT.Tree.min.go] at hterm ⊢
    have hsz := rel.size
    have hr := rel.l v.toNat hv
    rw [if_neg (by omega)]
    have hq : (g.node.getD v.toNat default).l = 4294967295#32 := by
      apply BitVec.eq_of_toNat_eq
      rw [hr, hterm]; rfl
    simp only [hq, beq_self_eq_true, if_true, BitVec.ofNat_toNat, BitVec.setWidth_eq]
  | succ k ih =>
    intro fuel v hv hfuel hterm
    obtain ⟨fuel, rfl⟩ : ∃ f, fuel = f + 1 := ⟨fuel - 1, by omega⟩
    unfold binTree_min_loop1
    have hsz := rel.size
    have hr := rel.l v.toNat hv
    rw [if_neg (by omega)]
    simp only [BT.Tree.min.go] at hterm ⊢
    by_cases hn : (t.nd v.toNat).l = BT.null
    · rw [if_pos hn] at hterm ⊢
      have hq : (g.node.getD v.toNat default).l = 4294967295#32 := by
        apply BitVec.eq_of_toNat_eq
        rw [hr, hn]; rfl
      simp only [hq, beq_self_eq_true, if_true, BitVec.ofNat_toNat, BitVec.setWidth_eq]
    · rw [if_neg hn] at hterm ⊢
      have hq : ((g.node.getD v.toNat default).l == 4294967295#32) = false := by
        rw [beq_eq_false_iff_ne]
        intro h
        apply hn
        rw [← hr, h]; rfl
      simp only [hq, Bool.false_eq_true, if_false]
      have hw : (t.nd v.toNat).l < t.node.size := by
        rcases rel.wl v.toNat hv with h | h
        · exact absurd h hn
        · exact h
      have := ih fuel (g.node.getD v.toNat default).l (by rw [hr]; exact hw) (by omega) (by rw [hr]; exact hterm)
      rw [this, hr]

/-- `max(v)`: when the model's bounded descent ends at a node without right child (no cycle), the Go loop returns the
    same node; no index panic; the loop bound of the translation suffices -/
theorem binTree_max_spec (fuel : Nat) (g : T_binTree) (t : BT.Tree) (rel : BTRel g t) (v : BitVec 32)
    (hv : v.toNat = BT.null ∨ v.toNat < t.node.size) (hfuel : t.node.size + 2 ≤ fuel)
    (hterm : v.toNat ≠ BT.null → (t.nd (t.max v.toNat)).r = BT.null) :
    binTree_max fuel g v = Go.Res.ok (BitVec.ofNat 32 (t.max v.toNat)) := by
  unfold binTree_max BT.Tree.max
  by_cases hn : v.toNat = BT.null
  · have hq : v = 4294967295#32 := by
      apply BitVec.eq_of_toNat_eq
      rw [hn]; rfl
    subst hq
    simp only [beq_self_eq_true, if_true, hn]
    rfl
  · have hq : (v == 4294967295#32) = false := by
      rw [beq_eq_false_iff_ne]
      intro h
      apply hn
      rw [h]; rfl
    have hv' : v.toNat < t.node.size := by
      rcases hv with h | h
      · exact absurd h hn
      · exact h
    have ht := hterm hn
    unfold BT.Tree.max at ht
    rw [if_neg hn] at ht
    simp only [hq, Bool.false_eq_true, if_false, hn]
    rw [binTree_max_loop g t rel (t.node.size + 1) fuel v hv' (by omega) ht]
    rfl

theorem binTree_min_spec (fuel : Nat) (g : T_binTree) (t : BT.Tree) (rel : BTRel g t) (v : BitVec 32)
    (hv : v.toNat = BT.null ∨ v.toNat < t.node.size) (hfuel : t.node.size + 2 ≤ fuel)
    (hterm : v.toNat ≠ BT.null → (t.nd (t.min v.toNat)).l = BT.null) :
    binTree_min fuel g v = Go.Res.ok (BitVec.ofNat 32 (t.min v.toNat)) := by
  unfold binTree_min BT.Tree.min
  by_cases hn : v.toNat = BT.null
  · have hq : v = 4294967295#32 := by
      apply BitVec.eq_of_toNat_eq
      rw [hn]; rfl
    subst hq
    simp only [beq_self_eq_true, if_true, hn]
    rfl
  · have hq : (v == 4294967295#32) = false := by
      rw [beq_eq_false_iff_ne]
      intro h
      apply hn
      rw [h]; rfl
    have hv' : v.toNat < t.node.size := by
      rcases hv with h | h
      · exact absurd h hn
      · exact h
    have ht := hterm hn
    unfold BT.Tree.min at ht
    rw [if_neg hn] at ht
    simp only [hq, Bool.false_eq_true, if_false, hn]
    rw [binTree_min_loop g t rel (t.node.size + 1) fuel v hv' (by omega) ht]
    rfl

end GoSrcP
