import XzVerif.Proofs.BinTree
import XzVerif.Proofs.RunProposal

/-!
  What the BinaryTree match finder proposes inside a run of one byte value (ring level): `binTree.NextOp` first
  tries the distances 3, 2, 1; every one of them inside the dictionary matches over the whole look-ahead, so
  * with 273 bytes of look-ahead and at least 3 bytes of history distance 3 is accepted at once;
  * otherwise the proposal still has the length of the whole look-ahead and a distance of at most 3 (later
    candidates can only replace it by a smaller distance of the same length);
  * when the match source hits the physical end of the ring array, the proposal reaches at least that end.
-/

set_option linter.unusedSimpArgs false
set_option linter.unusedVariables false

namespace RunCost
open Ring W2 Sel

/-! ### `matchLen` inside a run, any distance -/

theorem matchLen_run {d : EDict} {a : Abs} {dc bs : Nat} (h : d.Rel a dc bs) (b : UInt8) (l dist : Nat)
    (hd1 : 1 ≤ dist) (hd2 : dist ≤ min a.r dc)
    (hW : ∀ j, a.r - dist ≤ j → j < a.W.length → a.W[j]! = b) :
    (dist ≤ d.buf.rear → min (d.buf.peek l).size (dc + bs + 1 + dist - d.buf.rear) ≤ d.buf.matchLen dist (d.buf.peek l)) ∧
    (d.buf.rear < dist → d.buf.matchLen dist (d.buf.peek l) = (d.buf.peek l).size) := by
  have hl := h.buf.len_eq
  have hrle := h.buf.rle
  have hfit := h.buf.fit
  have hroom := h.room
  have hrear := h.buf.rear
  have hrlt := h.buf.rear_lt
  have hL : 0 < dc + bs + 1 := by omega
  have hps := peek_size h l
  have hpg : ∀ k, k < (d.buf.peek l).size → (d.buf.peek l).get! k = b := by
    intro k hk
    rw [peek_get h l k hk]
    exact hW _ (by omega) (by rw [hps] at hk; omega)
  have hle : d.buf.matchLen dist (d.buf.peek l) ≤ (d.buf.peek l).size := matchLen_le (by omega) dist _
  generalize d.buf.peek l = p at *
  constructor
  · intro h1
    have e : d.buf.matchLen dist p = prefixLen p 0 d.buf.data (d.buf.rear - dist) d.buf.len p.size 0 := by
      unfold Buf.matchLen
      rw [if_pos h1]
    rw [e]
    apply prefixLen_full _ _ _ _ _ _ _ _ (by omega)
    intro k _ hk2
    refine ⟨by omega, by omega, ?_⟩
    rw [Nat.zero_add, hpg k (by omega)]
    have hk := h.buf.kept (a.r - dist + k) (by omega) (by omega)
    have e0 : (a.r - dist) % (dc + bs + 1) = d.buf.rear - dist := by
      rw [mod_sub_eq0 (dc + bs + 1) a.r dist hL (by omega), ← hrear]
    rw [mod_add_eq (dc + bs + 1) (a.r - dist) k (d.buf.rear - dist + k) 0 (by omega) (by omega)] at hk
    rw [hk]
    exact (hW _ (by omega) (by omega)).symm
  · intro h1
    have e : d.buf.matchLen dist p =
        (let n := prefixLen p 0 d.buf.data (d.buf.len - (dist - d.buf.rear)) d.buf.len p.size 0
         if n < dist - d.buf.rear then n else n + prefixLen p n d.buf.data 0 d.buf.len p.size 0) := by
      unfold Buf.matchLen
      rw [if_neg (by omega)]
    have e0 : (a.r - dist) % (dc + bs + 1) = d.buf.rear + (dc + bs + 1) - dist := by
      rw [mod_sub_eq1 (dc + bs + 1) a.r dist hL (by omega) (by omega) (by omega), ← hrear]
    have n1lo : min p.size (dist - d.buf.rear) ≤
        prefixLen p 0 d.buf.data (d.buf.len - (dist - d.buf.rear)) d.buf.len p.size 0 := by
      apply prefixLen_full _ _ _ _ _ _ _ _ (by omega)
      intro k _ hk2
      refine ⟨by omega, by omega, ?_⟩
      rw [Nat.zero_add, hpg k (by omega), hl]
      have hk := h.buf.kept (a.r - dist + k) (by omega) (by omega)
      rw [mod_add_eq (dc + bs + 1) (a.r - dist) k (dc + bs + 1 - (dist - d.buf.rear) + k) 0 (by omega) (by omega)] at hk
      rw [hk]
      exact (hW _ (by omega) (by omega)).symm
    obtain ⟨_, n1a, n1hi, _⟩ :=
      prefixLen_spec p 0 d.buf.data (d.buf.len - (dist - d.buf.rear)) d.buf.len p.size 0 (by omega) (by omega)
    generalize prefixLen p 0 d.buf.data (d.buf.len - (dist - d.buf.rear)) d.buf.len p.size 0 = n1 at *
    rw [e]
    simp only
    by_cases hlt : n1 < dist - d.buf.rear
    · rw [if_pos hlt]; omega
    · rw [if_neg hlt]
      have hn1 : n1 = dist - d.buf.rear := by omega
      have n2 : p.size - n1 ≤ prefixLen p n1 d.buf.data 0 d.buf.len p.size 0 := by
        apply prefixLen_full _ _ _ _ _ (p.size - n1) _ _ (by omega)
        intro k _ hk2
        refine ⟨by omega, by omega, ?_⟩
        rw [hpg (n1 + k) (by omega)]
        have hk := h.buf.kept (a.r - d.buf.rear + k) (by omega) (by omega)
        have e1 : (a.r - d.buf.rear) % (dc + bs + 1) = 0 := by
          rw [mod_sub_eq0 (dc + bs + 1) a.r d.buf.rear hL (by omega)]; omega
        rw [mod_add_eq (dc + bs + 1) (a.r - d.buf.rear) k k 0 (by omega) (by omega)] at hk
        rw [Nat.zero_add, hk]
        exact (hW _ (by omega) (by omega)).symm
      obtain ⟨_, n2a, _, _⟩ := prefixLen_spec p n1 d.buf.data 0 d.buf.len p.size 0 (by omega) (by omega)
      unfold Buf.matchLen at hle
      rw [if_neg (by omega)] at hle
      simp only at hle
      omega

/-- inside a run, without ring-end truncation, every distance in the dictionary matches the whole look-ahead -/
theorem matchLen_run_full {d : EDict} {a : Abs} {dc bs : Nat} (h : d.Rel a dc bs) (b : UInt8) (l dist : Nat)
    (hd1 : 1 ≤ dist) (hd2 : dist ≤ min a.r dc)
    (hW : ∀ j, a.r - dist ≤ j → j < a.W.length → a.W[j]! = b)
    (hphys : d.buf.rear = 0 ∨ d.buf.rear + (d.buf.peek l).size ≤ dc + bs + 2) :
    d.buf.matchLen dist (d.buf.peek l) = (d.buf.peek l).size := by
  obtain ⟨h1, h2⟩ := matchLen_run h b l dist hd1 hd2 hW
  have hle : d.buf.matchLen dist (d.buf.peek l) ≤ (d.buf.peek l).size :=
    matchLen_le (by have := h.buf.rear_lt; have := h.buf.len_eq; omega) dist _
  by_cases hc : dist ≤ d.buf.rear
  · have := h1 hc; omega
  · exact h2 (by omega)

/-! ### `btMatch` -/

/-- a predicate on the best match that every update keeps is kept by `btMatch` -/
theorem btMatch_pres {d : EDict} (hr : d.buf.rear ≤ d.buf.len) (data : ByteArray) (p : BTParams)
    (Q : Nat × Nat → Prop)
    (hQ : ∀ (m : Nat × Nat) (dist n : Nat), Q m → n ≤ data.size → ¬ n = 0 →
      ¬ (n < m.2 ∨ (n = m.2 ∧ dist ≥ m.1)) → Q (dist, n)) :
    ∀ (dists : List Nat) (m : Nat × Nat) (checked : Nat) (res : (Nat × Nat) × Nat × Bool),
      Q m → btMatch d data p dists m checked = some res → Q res.1 := by
  intro dists
  induction dists with
  | nil =>
    intro m checked res hm hres
    rw [btMatch] at hres
    split_ifs at hres <;> cases hres <;> exact hm
  | cons dist rest ih =>
    intro m checked res hm hres
    have hn := matchLen_le hr dist data
    rw [btMatch] at hres
    by_cases c0 : checked ≥ p.check
    · rw [if_pos c0] at hres; cases hres; exact hm
    rw [if_neg c0] at hres
    simp only at hres
    by_cases c1 : dist > d.dictLen
    · rw [if_pos c1] at hres; exact ih m _ res hm hres
    rw [if_neg c1] at hres
    split at hres
    · cases hres
    · split_ifs at hres
      · cases hres; exact hm
      · exact ih m _ res hm hres
    · split_ifs at hres with c2 c3 c4 c5 c6
      · cases hres; exact hm
      · exact ih m _ res hm hres
      · exact ih m _ res hm hres
      · exact ih m _ res hm hres
      · cases hres; exact hQ m dist _ hm hn c2 c5
      · exact ih _ _ res (hQ m dist _ hm hn c2 c5) hres

/-- a candidate outside the dictionary is skipped -/
theorem btMatch_skip (d : EDict) (data : ByteArray) (p : BTParams) (dist : Nat) (rest : List Nat) (m : Nat × Nat)
    (checked : Nat) (hck : ¬ checked ≥ p.check) (hd : dist > d.dictLen) :
    btMatch d data p (dist :: rest) m checked = btMatch d data p rest m (checked + 1) := by
  rw [btMatch, if_neg hck]
  simp only
  rw [if_pos hd]

/-- the first candidate inside the dictionary when nothing was found so far -/
theorem btMatch_first (d : EDict) (data : ByteArray) (p : BTParams) (dist : Nat) (rest : List Nat) (m : Nat × Nat)
    (checked : Nat) (hck : ¬ checked ≥ p.check) (hd : ¬ dist > d.dictLen) (hm : m.2 = 0)
    (hn : 2 ≤ d.buf.matchLen dist data) :
    btMatch d data p (dist :: rest) m checked =
      if d.buf.matchLen dist data ≥ p.nAccept then some ((dist, d.buf.matchLen dist data), checked + 1, true)
      else btMatch d data p rest (dist, d.buf.matchLen dist data) (checked + 1) := by
  rw [btMatch, if_neg hck]
  simp only
  rw [if_neg hd, if_neg (by omega)]
  simp only
  rw [if_neg (by omega), if_neg (by omega), if_neg (by omega)]

/-! ### `nextOpBT` with a predicate on the best match -/

theorem nextOpBT_pred {d : EDict} (hr : d.buf.rear ≤ d.buf.len) (special : Bool) (ca cb : List Nat) (rep0 : Nat)
    (Q : Nat × Nat → Prop)
    (hQ : ∀ (m : Nat × Nat) (dist n : Nat), Q m → n ≤ (d.buf.peek 273).size → ¬ n = 0 →
      ¬ (n < m.2 ∨ (n = m.2 ∧ dist ≥ m.1)) → Q (dist, n))
    (h1 : ∀ res, btMatch d (d.buf.peek 273) { rep0 := rep0, nAccept := 273, check := 32, stopShorter := false }
      [3, 2, 1] (0, 0) 0 = some res → Q res.1)
    (g : GoOp) (hg : nextOpBT d special ca cb rep0 = .op g) :
    ∃ m, Q m ∧ g = (if m.2 = 0 then .lit ((d.buf.peek 273).get! 0).toNat else .mtch m.1 m.2) := by
  unfold nextOpBT at hg
  simp only at hg
  by_cases hsz : (d.buf.peek 273).size = 0
  · rw [if_pos hsz] at hg; cases hg
  rw [if_neg hsz] at hg
  have fin : ∀ (m : Nat × Nat), Q m →
      (if m.2 = 0 then Res.op (.lit ((d.buf.peek 273).get! 0).toNat) else Res.op (.mtch m.1 m.2)) = .op g →
      ∃ m, Q m ∧ g = (if m.2 = 0 then .lit ((d.buf.peek 273).get! 0).toNat else .mtch m.1 m.2) := by
    intro m hm he
    refine ⟨m, hm, ?_⟩
    split at he <;> rename_i hc
    · rw [if_pos hc]; exact (Res.op.inj he).symm
    · rw [if_neg hc]; exact (Res.op.inj he).symm
  split at hg
  · cases hg
  · rename_i m1 ck1 acc1 hb1
    have i1 : Q m1 := h1 _ hb1
    cases acc1
    · simp only [Bool.false_eq_true, if_false] at hg
      cases special
      · simp only [Bool.false_eq_true, if_false] at hg
        split at hg
        · cases hg
        · rename_i m2 ck2 acc2 hb2
          have i2 : Q m2 := btMatch_pres hr _ _ Q hQ ca m1 0 _ i1 hb2
          cases acc2
          · simp only [Bool.false_eq_true, if_false] at hg
            split at hg
            · cases hg
            · rename_i m3 ck3 acc3 hb3
              have i3 : Q m3 := btMatch_pres hr _ _ Q hQ cb m2 0 _ i2 hb3
              exact fin m3 i3 hg
          · simp only [if_true] at hg
            exact fin m2 i2 hg
      · simp only [if_true] at hg
        split at hg
        · cases hg
        · rename_i m2 ck2 acc2 hb2
          have i2 : Q m2 := btMatch_pres hr _ _ Q hQ ca m1 0 _ i1 hb2
          exact fin m2 i2 hg
    · simp only [if_true] at hg
      exact fin m1 i1 hg

/-! ### the three situations inside a run -/

/-- steady state: 273 bytes of look-ahead, at least 3 bytes in the dictionary: distance 3 is accepted at once -/
theorem nextOpBT_steady {d : EDict} {a : Abs} {dc bs : Nat} (h : d.Rel a dc bs) (b : UInt8) (special : Bool)
    (ca cb : List Nat) (rep0 : Nat) (hr3 : 3 ≤ a.r) (hdc : 3 ≤ dc) (hlook : 273 ≤ a.W.length - a.r)
    (hW : ∀ j, j < a.W.length → a.W[j]! = b)
    (hphys : d.buf.rear = 0 ∨ d.buf.rear + 273 ≤ dc + bs + 2) :
    nextOpBT d special ca cb rep0 = .op (.mtch 3 273) := by
  have hps := peek_size h 273
  have hsz : (d.buf.peek 273).size = 273 := by omega
  have hfull := matchLen_run_full h b 273 3 (by omega) (by omega) (fun j _ hj => hW j hj) (by rw [hsz]; exact hphys)
  rw [hsz] at hfull
  have hD : ¬ 3 > d.dictLen := by rw [h.dictLen_eq]; omega
  have h1 := btMatch_first d (d.buf.peek 273) { rep0 := rep0, nAccept := 273, check := 32, stopShorter := false }
    3 [2, 1] (0, 0) 0 (by show ¬ 0 ≥ 32; omega) hD rfl (by omega)
  rw [hfull] at h1
  simp only [ge_iff_le, Nat.le_refl, if_true] at h1
  unfold nextOpBT
  simp only
  rw [if_neg (by omega), h1]
  simp

/-- no ring-end truncation, at least two bytes of look-ahead: the whole look-ahead at a distance of at most 3 -/
theorem nextOpBT_run {d : EDict} {a : Abs} {dc bs : Nat} (h : d.Rel a dc bs) (b : UInt8) (special : Bool)
    (ca cb : List Nat) (rep0 : Nat) (hr1 : 1 ≤ a.r) (hdc : 1 ≤ dc) (hlook : 2 ≤ a.W.length - a.r)
    (hW : ∀ j, j < a.W.length → a.W[j]! = b)
    (hphys : d.buf.rear = 0 ∨ d.buf.rear + min 273 (a.W.length - a.r) ≤ dc + bs + 2) :
    ∃ dist, dist ≤ 3 ∧ nextOpBT d special ca cb rep0 = .op (.mtch dist (min 273 (a.W.length - a.r))) := by
  have hps := peek_size h 273
  have hrl : d.buf.rear ≤ d.buf.len := by have := h.buf.rear_lt; have := h.buf.len_eq; omega
  have hfull : ∀ dist, 1 ≤ dist → dist ≤ min a.r dc →
      d.buf.matchLen dist (d.buf.peek 273) = (d.buf.peek 273).size :=
    fun dist h1 h2 => matchLen_run_full h b 273 dist h1 h2 (fun j _ hj => hW j hj) (by rw [hps]; exact hphys)
  have hDl := h.dictLen_eq
  generalize hN : min 273 (a.W.length - a.r) = N at *
  have hN2 : 2 ≤ N := by omega
  have hN273 : N ≤ 273 := by omega
  let Q : Nat × Nat → Prop := fun m => m.2 = N ∧ m.1 ≤ 3
  have hQ : ∀ (m : Nat × Nat) (dist n : Nat), Q m → n ≤ (d.buf.peek 273).size → ¬ n = 0 →
      ¬ (n < m.2 ∨ (n = m.2 ∧ dist ≥ m.1)) → Q (dist, n) := by
    intro m dist n hm hn _ hc
    obtain ⟨hm1, hm2⟩ := hm
    show n = N ∧ dist ≤ 3
    omega
  have hp : (⟨rep0, 273, 32, false⟩ : BTParams).nAccept = 273 := rfl
  have hphase : ∀ res, btMatch d (d.buf.peek 273) { rep0 := rep0, nAccept := 273, check := 32, stopShorter := false }
      [3, 2, 1] (0, 0) 0 = some res → Q res.1 := by
    intro res hres
    by_cases hD3 : 3 ≤ min a.r dc
    · rw [btMatch_first d _ _ 3 [2, 1] (0, 0) 0 (by show ¬ 0 ≥ 32; omega) (by rw [hDl]; omega) rfl
        (by rw [hfull 3 (by omega) hD3, hps]; exact hN2)] at hres
      rw [hfull 3 (by omega) hD3, hps] at hres
      split_ifs at hres
      · cases hres; exact ⟨rfl, Nat.le_refl 3⟩
      · exact btMatch_pres hrl _ _ Q hQ [2, 1] (3, N) 1 res ⟨rfl, Nat.le_refl 3⟩ hres
    · rw [btMatch_skip d _ _ 3 [2, 1] (0, 0) 0 (by show ¬ 0 ≥ 32; omega) (by rw [hDl]; omega)] at hres
      by_cases hD2 : 2 ≤ min a.r dc
      · rw [btMatch_first d _ _ 2 [1] (0, 0) 1 (by show ¬ 1 ≥ 32; omega) (by rw [hDl]; omega) rfl
          (by rw [hfull 2 (by omega) hD2, hps]; exact hN2)] at hres
        rw [hfull 2 (by omega) hD2, hps] at hres
        split_ifs at hres
        · cases hres; exact ⟨rfl, (by decide : (2 : Nat) ≤ 3)⟩
        · exact btMatch_pres hrl _ _ Q hQ [1] (2, N) 2 res ⟨rfl, (by decide : (2 : Nat) ≤ 3)⟩ hres
      · rw [btMatch_skip d _ _ 2 [1] (0, 0) 1 (by show ¬ 1 ≥ 32; omega) (by rw [hDl]; omega)] at hres
        rw [btMatch_first d _ _ 1 [] (0, 0) 2 (by show ¬ 2 ≥ 32; omega) (by rw [hDl]; omega) rfl
          (by rw [hfull 1 (by omega) (by omega), hps]; exact hN2)] at hres
        rw [hfull 1 (by omega) (by omega), hps] at hres
        split_ifs at hres
        · cases hres; exact ⟨rfl, (by decide : (1 : Nat) ≤ 3)⟩
        · exact btMatch_pres hrl _ _ Q hQ [] (1, N) 3 res ⟨rfl, (by decide : (1 : Nat) ≤ 3)⟩ hres
  have hnp := nextOpBT_no_panic d a dc bs h (by omega) special ca cb rep0
  cases hres : nextOpBT d special ca cb rep0 with
  | panic => exact absurd hres hnp
  | op g =>
    obtain ⟨m, ⟨hm1, hm2⟩, hg⟩ := nextOpBT_pred hrl special ca cb rep0 Q hQ hphase g hres
    rw [if_neg (by omega), hm1] at hg
    exact ⟨m.1, hm2, by rw [hg]⟩

/-- the match source hits the physical end of the ring: some match reaching at least the end of the array -/
theorem nextOpBT_wrap {d : EDict} {a : Abs} {dc bs : Nat} (h : d.Rel a dc bs) (b : UInt8) (special : Bool)
    (ca cb : List Nat) (rep0 : Nat) (hdc : 3 ≤ dc) (hbs : 273 ≤ bs) (hlook : 1 ≤ a.W.length - a.r)
    (hW : ∀ j, j < a.W.length → a.W[j]! = b)
    (hphys : 1 ≤ d.buf.rear ∧ dc + bs + 2 < d.buf.rear + min 273 (a.W.length - a.r)) :
    ∃ dist n, nextOpBT d special ca cb rep0 = .op (.mtch dist n) ∧ dc + bs + 2 - d.buf.rear ≤ n := by
  have hps := peek_size h 273
  have hrl : d.buf.rear ≤ d.buf.len := by have := h.buf.rear_lt; have := h.buf.len_eq; omega
  have hrlt := h.buf.rear_lt
  have hr3 : 3 ≤ d.buf.rear := by omega
  have har : d.buf.rear ≤ a.r := by rw [h.buf.rear]; exact Nat.mod_le _ _
  have hm3 := (matchLen_run h b 273 3 (by omega) (by omega) (fun j _ hj => hW j hj)).1 hr3
  rw [hps] at hm3
  have hm3' : dc + bs + 2 - d.buf.rear ≤ d.buf.matchLen 3 (d.buf.peek 273) := by omega
  have hm2 : 2 ≤ d.buf.matchLen 3 (d.buf.peek 273) := by omega
  have hDl := h.dictLen_eq
  let Q : Nat × Nat → Prop := fun m => dc + bs + 2 - d.buf.rear ≤ m.2
  have hQ : ∀ (m : Nat × Nat) (dist n : Nat), Q m → n ≤ (d.buf.peek 273).size → ¬ n = 0 →
      ¬ (n < m.2 ∨ (n = m.2 ∧ dist ≥ m.1)) → Q (dist, n) := by
    intro m dist n hm hn _ hc
    show dc + bs + 2 - d.buf.rear ≤ n
    have : dc + bs + 2 - d.buf.rear ≤ m.2 := hm
    omega
  have hphase : ∀ res, btMatch d (d.buf.peek 273) { rep0 := rep0, nAccept := 273, check := 32, stopShorter := false }
      [3, 2, 1] (0, 0) 0 = some res → Q res.1 := by
    intro res hres
    rw [btMatch_first d _ _ 3 [2, 1] (0, 0) 0 (by show ¬ 0 ≥ 32; omega) (by rw [hDl]; omega) rfl hm2] at hres
    split_ifs at hres
    · cases hres
      exact hm3'
    · exact btMatch_pres hrl _ _ Q hQ [2, 1] _ 1 res hm3' hres
  have hnp := nextOpBT_no_panic d a dc bs h (by omega) special ca cb rep0
  cases hres : nextOpBT d special ca cb rep0 with
  | panic => exact absurd hres hnp
  | op g =>
    obtain ⟨m, hm, hg⟩ := nextOpBT_pred hrl special ca cb rep0 Q hQ hphase g hres
    have hm' : dc + bs + 2 - d.buf.rear ≤ m.2 := hm
    rw [if_neg (by omega)] at hg
    exact ⟨m.1, m.2, by rw [hg], hm'⟩

/-! ### the complete match finder -/

theorem allB_W (b : UInt8) (hist look : ByteArray) (hh : ∀ i, i < hist.size → hist.get! i = b)
    (hl : ∀ i, i < look.size → look.get! i = b) :
    ∀ j, j < (hist ++ look).data.toList.length → (hist ++ look).data.toList[j]! = b := by
  intro j hj
  rw [length_toList, ByteArray.size_append] at hj
  rw [HT.toList_append, getElem!_append, length_toList]
  split_ifs with hlt
  · rw [get!_toList]; exact hh _ hlt
  · rw [get!_toList]; exact hl _ (by omega)

theorem bt4_next_eq (s : BT.St) (hist look : ByteArray) (st : Lzma.St) (g : GoOp)
    (h : ∀ special ca cb, Sel.nextOpBT (s.sync hist look).d special ca cb st.r0 = .op g) :
    (BT.BT4.next s hist look st).1 = g := by
  simp only [BT.BT4]
  rw [h]

theorem bt4_steady (c : Cfg) (hc : CfgOk c) (hd3 : 3 ≤ c.dictCap) (b : UInt8) (m : BT.St) (hist look : ByteArray)
    (s : Lzma.St) (hI : BT.Synced c m hist look) (hh : ∀ i, i < hist.size → hist.get! i = b)
    (hl : ∀ i, i < look.size → look.get! i = b) (h3 : 3 ≤ hist.size) (h273 : 273 ≤ look.size)
    (hsp : look.size + min hist.size c.dictCap ≤ c.dictCap + c.bufSize)
    (hphys : hist.size % (c.dictCap + c.bufSize + 1) = 0 ∨
      hist.size % (c.dictCap + c.bufSize + 1) + 273 ≤ c.dictCap + c.bufSize + 2) :
    (BT.BT4.next m hist look s).1 = .mtch 3 273 := by
  obtain ⟨r1, _, _⟩ := BT.sync_rel c m hist look hI hsp
  have hlen : (hist ++ look).data.toList.length - hist.size = look.size := by
    rw [length_toList, ByteArray.size_append]; omega
  have hrear := r1.buf.rear
  apply bt4_next_eq
  intro special ca cb
  exact nextOpBT_steady r1 b special ca cb s.r0 h3 hd3 (by show 273 ≤ _ - hist.size; rw [hlen]; exact h273)
    (allB_W b hist look hh hl) (by rw [hrear]; exact hphys)

theorem bt4_run (c : Cfg) (hc : CfgOk c) (b : UInt8) (m : BT.St) (hist look : ByteArray)
    (s : Lzma.St) (hI : BT.Synced c m hist look) (hh : ∀ i, i < hist.size → hist.get! i = b)
    (hl : ∀ i, i < look.size → look.get! i = b) (h1 : 1 ≤ hist.size) (h2 : 2 ≤ look.size)
    (hsp : look.size + min hist.size c.dictCap ≤ c.dictCap + c.bufSize)
    (hphys : hist.size % (c.dictCap + c.bufSize + 1) = 0 ∨
      hist.size % (c.dictCap + c.bufSize + 1) + min 273 look.size ≤ c.dictCap + c.bufSize + 2) :
    ∃ dist, dist ≤ 3 ∧ (BT.BT4.next m hist look s).1 = .mtch dist (min 273 look.size) := by
  obtain ⟨r1, _, _⟩ := BT.sync_rel c m hist look hI hsp
  have hlen : (hist ++ look).data.toList.length - hist.size = look.size := by
    rw [length_toList, ByteArray.size_append]; omega
  have hrear := r1.buf.rear
  have key := fun special ca cb => nextOpBT_run r1 b special ca cb s.r0 h1 hc.2.2.1
    (by show 2 ≤ _ - hist.size; rw [hlen]; exact h2) (allB_W b hist look hh hl)
    (by rw [hrear]; show _ ∨ _ + min 273 (_ - hist.size) ≤ _; rw [hlen]; exact hphys)
  simp only [BT.BT4]
  obtain ⟨dist, hd, hres⟩ := key ((m.sync hist look).tree.cands ((m.sync hist look).d.buf.peek 273)).1
    ((m.sync hist look).tree.cands ((m.sync hist look).d.buf.peek 273)).2.1
    ((m.sync hist look).tree.cands ((m.sync hist look).d.buf.peek 273)).2.2
  refine ⟨dist, hd, ?_⟩
  rw [hres]
  show GoOp.mtch dist (min 273 ((hist ++ look).data.toList.length - hist.size)) = _
  rw [hlen]

theorem bt4_wrap (c : Cfg) (hc : CfgOk c) (hd3 : 3 ≤ c.dictCap) (b : UInt8) (m : BT.St) (hist look : ByteArray)
    (s : Lzma.St) (hI : BT.Synced c m hist look) (hh : ∀ i, i < hist.size → hist.get! i = b)
    (hl : ∀ i, i < look.size → look.get! i = b) (h1 : 1 ≤ look.size)
    (hsp : look.size + min hist.size c.dictCap ≤ c.dictCap + c.bufSize)
    (hphys : 1 ≤ hist.size % (c.dictCap + c.bufSize + 1) ∧
      c.dictCap + c.bufSize + 2 < hist.size % (c.dictCap + c.bufSize + 1) + min 273 look.size) :
    ∃ dist n, (BT.BT4.next m hist look s).1 = .mtch dist n ∧
      c.dictCap + c.bufSize + 2 - hist.size % (c.dictCap + c.bufSize + 1) ≤ n := by
  obtain ⟨r1, _, _⟩ := BT.sync_rel c m hist look hI hsp
  have hlen : (hist ++ look).data.toList.length - hist.size = look.size := by
    rw [length_toList, ByteArray.size_append]; omega
  have hrear := r1.buf.rear
  have key := fun special ca cb => nextOpBT_wrap r1 b special ca cb s.r0 hd3 hc.2.2.2.2
    (by show 1 ≤ _ - hist.size; rw [hlen]; exact h1) (allB_W b hist look hh hl)
    (by rw [hrear]; show _ ∧ _ < _ + min 273 (_ - hist.size); rw [hlen]; exact hphys)
  simp only [BT.BT4]
  obtain ⟨dist, n, hres, hn⟩ := key ((m.sync hist look).tree.cands ((m.sync hist look).d.buf.peek 273)).1
    ((m.sync hist look).tree.cands ((m.sync hist look).d.buf.peek 273)).2.1
    ((m.sync hist look).tree.cands ((m.sync hist look).d.buf.peek 273)).2.2
  refine ⟨dist, n, ?_, by rw [hrear] at hn; exact hn⟩
  rw [hres]

end RunCost
