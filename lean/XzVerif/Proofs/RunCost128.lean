import XzVerif.Proofs.RunGen2
import XzVerif.Proofs.RunCostBT

/-!
  C17 clause 1 with the constant the property allows: a run of `n` equal bytes is compressed by the LZMA2 writer
  model to at most `n / 500 + 128` bytes (HashTable4: `+ 112`, BinaryTree: `+ 128`), dictionary ≥ 64 KiB.

  Against `run_compresses_partial_213` / `_bt_229` the potential is changed (Proofs/RunPot2.lean): the 32
  position-state contexts of the steady-state operation are not pre-paid (795 bits) any more but charged one bit per
  use, i.e. 2.27 bits per steady-state operation (273 bytes) instead of 0.31 — which the `n / 500` budget (4.4 bits
  per 273 bytes) pays, together with the ring wraps and the per-chunk overhead.  The additive constant is then
  37.4 (twelve contexts used by every operation: 299 bits) + 15.75 per irregular start-up / final operation
  (4 for HashTable4, 5 for BinaryTree) + 12 (chunk header 6, range-coder flush 5, end marker 1).
-/

namespace RunCost
open W2 Lzma Rc

/-- **HashTable4: `n / 500 + 112`**, hence the `n / 500 + 128` of the property -/
theorem run_compresses_112 (c : Cfg) (hc : CfgOk c) (hd : 65536 ≤ c.dictCap) (b : UInt8) (n : Nat) :
    (lzma2OfRun c b n).size ≤ n / 500 + 112 := by
  have h := run_size_h c hc hd b HT.HT4 (HT.Synced c) (HT.ht4_matcherInv c) (HT.St.new c.dictCap c.bufSize)
    (HT.synced_new c) 0 1 (ht4_runSpec c hc b) n
  rw [if_pos (Nat.le_refl 1)] at h
  exact h

theorem run_compresses_128 (c : Cfg) (hc : CfgOk c) (hd : 65536 ≤ c.dictCap) (b : UInt8) (n : Nat) :
    (lzma2OfRun c b n).size ≤ n / 500 + 128 := by
  have := run_compresses_112 c hc hd b n
  omega

/-- **BinaryTree: `n / 500 + 128`** -/
theorem run_compresses_128_bt (c : Cfg) (hc : CfgOk c) (hd : 65536 ≤ c.dictCap) (b : UInt8) (n : Nat) :
    (lzma2OfRunBT c b n).size ≤ n / 500 + 128 := by
  have h := run_size_h c hc hd b BT.BT4 (BT.Synced c) (BT.bt4_matcherInv c) (BT.St.new c.dictCap c.bufSize)
    (BT.synced_new c) 2 3 (bt4_runSpec c hc (by omega) b) n
  rw [if_neg (by omega)] at h
  exact h

end RunCost

#print axioms RunCost.run_compresses_112
#print axioms RunCost.run_compresses_128
#print axioms RunCost.run_compresses_128_bt
