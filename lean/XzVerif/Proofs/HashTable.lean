import XzVerif.Model.HashTable
import XzVerif.Proofs.Select
import XzVerif.Proofs.Writer2
import XzVerif.Proofs.HashTableLemmas

/-!
  The complete HashTable4 match finder model (`HT.HT4`: hash chains + rolling hash + ring-level selection, lazily
  synchronised with the encoder model's history / look-ahead) is applicable and stays in sync: it satisfies
  `W2.MatcherInv`, so every Writer2 theorem holds for it without any hypothesis about the match finder.
-/
namespace HT
open Ring W2 Sel

/-- the match finder state `s` is in sync with an earlier stage `(h0, l0)` of the dictionary that the current
    stage `(hist, look)` extends: its ring represents `h0 ++ l0` read up to `h0.size`, and nothing was lost;
    the hash table is well formed (`Tab.WF`, Proofs/HashTableLemmas.lean: every slot is at most `n − 3`, which is
    what makes the candidate distances ascend) -/
def Synced (c : W2.Cfg) (s : St) (hist look : ByteArray) : Prop :=
  ∃ h0 l0 : ByteArray,
    s.d.Rel ⟨(h0 ++ l0).data.toList, h0.size⟩ c.dictCap c.bufSize ∧
    s.wlen = (h0 ++ l0).size ∧ s.rlen = h0.size ∧ s.tab.n = h0.size ∧ s.tab.WF ∧
    h0.size ≤ hist.size ∧ (h0 ++ l0).size ≤ (hist ++ look).size ∧
    (hist ++ look).extract 0 (h0 ++ l0).size = h0 ++ l0 ∧
    l0.size + min h0.size c.dictCap ≤ c.dictCap + c.bufSize

/-! ## helper lemmas -/

/-- `sync_rel` together with the well-formedness of the hash table -/
theorem sync_rel_wf (c : W2.Cfg) (s : St) (hist look : ByteArray) (h : Synced c s hist look)
    (hroom : look.size + min hist.size c.dictCap ≤ c.dictCap + c.bufSize) :
    (s.sync hist look).d.Rel ⟨(hist ++ look).data.toList, hist.size⟩ c.dictCap c.bufSize ∧
    (s.sync hist look).wlen = (hist ++ look).size ∧ (s.sync hist look).rlen = hist.size ∧
    (s.sync hist look).tab.n = hist.size ∧ (s.sync hist look).tab.WF := by
  obtain ⟨h0, l0, hrel, hw, hrl, hn, hwf, hle1, hle2, hext, hroom0⟩ := h
  have hlen : s.d.buf.len = c.dictCap + c.bufSize + 1 := hrel.buf.len_eq
  have hsz : s.d.buf.data.size = c.dictCap + c.bufSize + 1 := hrel.buf.size
  have hpos : 0 < c.dictCap + c.bufSize + 1 := by omega
  have hWl : (hist ++ look).data.toList.length = hist.size + look.size := by
    rw [length_toList, ByteArray.size_append]
  have hwl : s.wlen ≤ hist.size + look.size := by
    rw [hw, ← ByteArray.size_append]; exact hle2
  generalize hF : (fun (j : Nat) => ((hist ++ look).data.toList[j]! : UInt8)) = F
  have hF1 : ∀ j, j < hist.size → F j = hist.get! j := by
    intro j hj
    rw [← hF]; simp only
    rw [toList_append, getElem!_append, length_toList, if_pos hj, get!_toList]
  have hF2 : ∀ i, F (hist.size + i) = look.get! i := by
    intro i
    rw [← hF]; simp only
    rw [toList_append, getElem!_append, length_toList, if_neg (by omega), get!_toList]
    congr 1; omega
  have hpre : ∀ j, j < s.wlen → (h0 ++ l0).data.toList[j]! = F j := by
    intro j hj
    rw [← hext, toList_extract0, getElem!_take _ _ _ (by omega), ← hF]
  have k0 : ∀ j, j < s.wlen → s.wlen - j ≤ c.dictCap + c.bufSize + 1 →
      s.d.buf.data.get! (j % (c.dictCap + c.bufSize + 1)) = F j := by
    intro j hj hjk
    rw [← hpre j hj]
    have hl : (h0 ++ l0).data.toList.length = s.wlen := by rw [length_toList, hw]
    exact hrel.buf.kept j (by simp only; omega) (by simp only; omega)
  -- the bytes of `hist` not yet in the ring
  have k1 : ∃ data1, data1 = (if s.wlen < hist.size then
        ringStore s.d.buf.data (s.wlen % (c.dictCap + c.bufSize + 1)) hist s.wlen hist.size else s.d.buf.data) ∧
      data1.size = c.dictCap + c.bufSize + 1 ∧
      ∀ j, j < max s.wlen hist.size → max s.wlen hist.size - j ≤ c.dictCap + c.bufSize + 1 →
        data1.get! (j % (c.dictCap + c.bufSize + 1)) = F j := by
    refine ⟨_, rfl, ?_⟩
    split_ifs with hc
    · obtain ⟨e1, e2⟩ := ringStore_kept s.d.buf.data _ hsz hpos F s.wlen hist s.wlen hist.size k0
        (fun k hk => (hF1 _ (by omega)).symm)
      rw [show max s.wlen hist.size = s.wlen + (hist.size - s.wlen) by omega]
      exact ⟨e1, e2⟩
    · rw [show max s.wlen hist.size = s.wlen by omega]
      exact ⟨hsz, k0⟩
  obtain ⟨data1, hd1, s1, k1⟩ := k1
  generalize hw1 : max s.wlen hist.size = w1 at *
  have hw1a : hist.size ≤ w1 := by omega
  have hw1b : w1 ≤ hist.size + look.size := by omega
  obtain ⟨s2, k2⟩ := ringStore_kept data1 _ s1 hpos F w1 look (w1 - hist.size) look.size k1
    (fun k hk => by rw [← hF2]; congr 1; omega)
  rw [show w1 + (look.size - (w1 - hist.size)) = hist.size + look.size by omega] at k2
  have htab := Tab.write_n s.tab hwf hist s.rlen hist.size
  simp only [St.sync, hlen, ← hd1, hw1, ByteArray.size_append]
  refine ⟨⟨⟨s2, ?_, ?_, ?_, rfl, ?_⟩, rfl, hrel.capacity, ?_⟩, trivial, trivial, ?_, htab.2⟩
  · simp only [hWl]; omega
  · simp only [hWl]; omega
  · simp only [hWl]
  · simp only [hWl]
    intro j hj hjk
    rw [k2 j hj hjk, ← hF]
  · simp only [hWl]; omega
  · rw [htab.1]; omega

theorem synced_of_sync (c : W2.Cfg) (s : St) (hist look hist' look' : ByteArray) (h : Synced c s hist look)
    (hroom : look.size + min hist.size c.dictCap ≤ c.dictCap + c.bufSize)
    (he : hist' ++ look' = hist ++ look) (hs : hist.size ≤ hist'.size) :
    Synced c (s.sync hist look) hist' look' := by
  obtain ⟨r1, r2, r3, r4, r5⟩ := sync_rel_wf c s hist look h hroom
  refine ⟨hist, look, r1, r2, r3, r4, r5, hs, by rw [he], ?_, hroom⟩
  rw [he, extract_self]

/-! ## statements to prove (do not change them) -/

/-- the fresh state is in sync with the empty dictionary -/
theorem synced_new (c : W2.Cfg) : Synced c (St.new c.dictCap c.bufSize) ByteArray.empty ByteArray.empty := by
  refine ⟨ByteArray.empty, ByteArray.empty, ⟨?_, rfl, rfl, ?_⟩, rfl, rfl, rfl, Tab.new_wf _, Nat.le_refl _,
    Nat.le_refl _, ?_, ?_⟩
  · exact new_rel (c.dictCap + c.bufSize)
  · show 0 + min 0 c.dictCap ≤ _
    omega
  · rfl
  · show 0 + min 0 c.dictCap ≤ _
    omega

/-- the candidate distances the hash table model delivers are strictly ascending (the chain is walked from the
    most recent position backwards and every delta is positive), provided every slot of the table points to a
    complete word (`Tab.WF`) -/
theorem cands_ascending (t : Tab) (hwf : t.WF) (look : ByteArray) : (t.cands look).Pairwise (· < ·) :=
  cands_ascending' t hwf look

/-! Without `hwf` the statement is false (evaluated): a slot pointing beyond `n` makes every `n − pos` collapse
    to 0. -/
#guard (Tab.cands { t := #[100], data := #[1, 1, 1, 1, 1, 1, 1, 1], front := 0, mask := 0, n := 4 }
    ⟨#[1, 2, 3, 4]⟩) = List.replicate 16 0

/-- after `sync` the ring represents exactly `(hist ++ look, hist.size)` -/
theorem sync_rel (c : W2.Cfg) (s : St) (hist look : ByteArray) (h : Synced c s hist look)
    (hroom : look.size + min hist.size c.dictCap ≤ c.dictCap + c.bufSize) :
    (s.sync hist look).d.Rel ⟨(hist ++ look).data.toList, hist.size⟩ c.dictCap c.bufSize ∧
    (s.sync hist look).wlen = (hist ++ look).size ∧ (s.sync hist look).rlen = hist.size ∧
    (s.sync hist look).tab.n = hist.size := by
  obtain ⟨r1, r2, r3, r4, _⟩ := sync_rel_wf c s hist look h hroom
  exact ⟨r1, r2, r3, r4⟩

/-- **HashTable4 is an applicable, self-synchronising match finder.** -/
theorem ht4_matcherInv (c : W2.Cfg) : W2.MatcherInv c HT4 (Synced c) := by
  refine ⟨?_, ?_, ?_, ?_⟩
  · intro s hist look st hI h1 hroom
    obtain ⟨r1, r2, r3, r4, r5⟩ := sync_rel_wf c s hist look hI hroom
    have hbuf : hist.size < (hist ++ look).data.toList.length := by
      rw [length_toList, ByteArray.size_append]; omega
    have hasc := (cands_ascending' (s.sync hist look).tab r5 look).filter (fun x => decide (x > 8))
    have hnp := nextOpHT_no_panic (s.sync hist look).d _ _ _ r1 hbuf ((s.sync hist look).tab.cands look) hasc st.r0
    have hg : ∀ g, nextOpHT (s.sync hist look).d ((s.sync hist look).tab.cands look) st.r0 = .op g →
        GoOpOk c hist look st g := by
      intro g hg
      have hok := nextOpHT_sound _ _ _ _ r1 _ _ g hg
      apply opOkAbs_goOpOk ⟨(hist ++ look).data.toList, hist.size⟩ c hist look st g
      · simp only; rw [toList_append, ← length_toList, List.take_left]
      · simp only; rw [toList_append, ← length_toList, List.drop_left]
      · exact Nat.le_of_lt hbuf
      · exact hok
    simp only [HT4]
    split
    · rename_i g hgo; exact hg g hgo
    · rename_i hp; exact absurd hp hnp
  · intro s hist look st hI h1 hroom
    rw [next_snd]
    apply synced_of_sync c s hist look _ _ hI hroom
    · rw [ByteArray.append_assoc, split_look]
    · rw [ByteArray.size_append]; omega
  · intro s hist look st hI h1 hroom
    rw [next_snd]
    exact synced_of_sync c s hist look _ _ hI hroom rfl (Nat.le_refl _)
  · intro s hist look x hI hroom
    obtain ⟨h0, l0, hrel, hw, hrl, hn, hwf, hle1, hle2, hext, hroom0⟩ := hI
    refine ⟨h0, l0, hrel, hw, hrl, hn, hwf, hle1, ?_, ?_, hroom0⟩
    · simp only [ByteArray.size_append] at hle2 ⊢; omega
    · refine Eq.trans ?_ hext
      apply ba_ext
      rw [toList_extract0, toList_extract0, ← ByteArray.append_assoc, toList_append (hist ++ look) x,
        List.take_append_of_le_length (by rw [length_toList]; exact hle2)]

end HT

#print axioms HT.synced_new
#print axioms HT.cands_ascending
#print axioms HT.sync_rel
#print axioms HT.ht4_matcherInv
