import XzVerif.Model.LazyDec2
import XzVerif.Proofs.LazyDec
import XzVerif.Proofs.Chunk

/-! helper lemmas for Proofs/LazyDec2.lean -/
namespace LazyDec2
open Lzma Rc Ring LazyDec Spec Lzma2

/-! ### the regenerated header tables against the format's functions -/

theorem headerChunkType_table :
    Gen.headerChunkType = (List.range 256).map (fun c => (Spec.ctrl c).map Model.ctypeOf) := by decide +kernel

theorem hct_eq (c : Nat) (hc : c < 256) : Gen.headerChunkType.getD c none = (Spec.ctrl c).map Model.ctypeOf := by
  rw [headerChunkType_table, List.getD_eq_getElem?_getD, List.getElem?_map, List.getElem?_range hc]
  rfl

theorem get_lt (b : ByteArray) (i : Nat) : Lzma2.get b i < 256 := by
  unfold Lzma2.get
  exact (b.get! i).toNat_lt

def hlenOf : ChunkKind → Nat
  | .eos => 1 | .ud => 3 | .u => 3 | .l => 5 | .lr => 5 | .lrn => 6 | .lrnd => 6

theorem hdrLen_eq (k : ChunkKind) : hdrLen (Model.ctypeOf k) = hlenOf k := by cases k <;> rfl

theorem ctype_lrn (k : ChunkKind) :
    (Model.ctypeOf k = Gen.lzma_cLRN ∨ Model.ctypeOf k = Gen.lzma_cLRND) ↔ (k = .lrn ∨ k = .lrnd) := by
  cases k <;> decide

theorem ctype_ud (k : ChunkKind) :
    (Model.ctypeOf k = Gen.lzma_cUD ∨ Model.ctypeOf k = Gen.lzma_cLRND) ↔ (k = .ud ∨ k = .lrnd) := by
  cases k <;> decide

theorem ctype_u (k : ChunkKind) :
    (Model.ctypeOf k = Gen.lzma_cU ∨ Model.ctypeOf k = Gen.lzma_cUD) ↔ (k = .ud ∨ k = .u) := by
  cases k <;> decide

theorem ctype_l (k : ChunkKind) : (Model.ctypeOf k ≠ Gen.lzma_cL) ↔ (k ≠ .l) := by
  cases k <;> decide

def needProps : SeqState → Bool
  | .run _ np => np
  | .ended => true

def stepOk (s : Nat) (k : ChunkKind) : Bool :=
  match Proofs.Chunk.R s with
  | none => true
  | some a =>
    match Model.chunkNext s (Model.ctypeOf k), seqStep a k with
    | none, none => true
    | some s', some a' =>
      decide (Proofs.Chunk.R s' = some a') && decide (s' ∈ Proofs.Chunk.known) &&
        (decide (s' = Gen.lzma_stateStop) == decide (k = .eos))
    | _, _ => false

theorem stepOk_all : ∀ s ∈ Proofs.Chunk.known, ∀ k ∈ ChunkKind.all, stepOk s k = true := by decide

/-- the automaton step: the regenerated graph against the format's two flags -/
theorem chunk_step (s : Nat) (hs : s ∈ Proofs.Chunk.known) (a : SeqState) (ha : Proofs.Chunk.R s = some a)
    (k : ChunkKind) :
    (Model.chunkNext s (Model.ctypeOf k) = none ∧ seqStep a k = none) ∨
    (∃ s' a', Model.chunkNext s (Model.ctypeOf k) = some s' ∧ seqStep a k = some a' ∧
      Proofs.Chunk.R s' = some a' ∧ s' ∈ Proofs.Chunk.known ∧ (s' = Gen.lzma_stateStop ↔ k = .eos)) := by
  have h := stepOk_all s hs k (Proofs.Chunk.mem_all k)
  unfold stepOk at h
  rw [ha] at h
  simp only at h
  cases h1 : Model.chunkNext s (Model.ctypeOf k) with
  | none =>
    cases h2 : seqStep a k with
    | none => exact Or.inl ⟨rfl, rfl⟩
    | some a' => rw [h1, h2] at h; cases h
  | some s' =>
    cases h2 : seqStep a k with
    | none => rw [h1, h2] at h; cases h
    | some a' =>
      rw [h1, h2] at h
      simp only [Bool.and_eq_true, decide_eq_true_eq, beq_iff_eq, decide_eq_decide] at h
      exact Or.inr ⟨s', a', rfl, rfl, h.1.1, h.1.2, h.2⟩

/-! ### the batch run -/

/-- the batch run did not stop for lack of fuel -/
def KB (B : RState × Status) : Prop := B.2 ≠ .err "fuel exhausted"

/-- the batch run `B` passes through the chunk boundary `rb` -/
def GTr (B : RState × Status) (rb : RState) : Prop := KB B → ∃ f, readAll false f rb = B

theorem gtr_succ {B : RState × Status} {rb : RState} (h : GTr B rb) (hK : KB B) :
    ∃ f, readAll false (f + 1) rb = B := by
  obtain ⟨f, hf⟩ := h hK
  cases f with
  | zero => exfalso; apply hK; rw [← hf]; rfl
  | succ f => exact ⟨f, hf⟩

theorem gtr_next {B : RState × Status} {rb rb' : RState} (h : GTr B rb) (hn : readChunk false rb = .next rb') :
    GTr B rb' := by
  intro hK
  obtain ⟨f, hf⟩ := gtr_succ h hK
  rw [readAll, hn] at hf
  exact ⟨f, hf⟩

theorem gtr_done {B : RState × Status} {rb rb' : RState} {st : Status} (h : GTr B rb) (hK : KB B)
    (hn : readChunk false rb = .done rb' st) : B = (rb', st) := by
  obtain ⟨f, hf⟩ := gtr_succ h hK
  rw [readAll, hn] at hf
  exact hf.symm

/-- the registers of the lazy reader against the batch state at a chunk boundary -/
structure Link (inp : ByteArray) (r : R2) (rb : RState) : Prop where
  inp : rb.inp = inp
  seq : Proofs.Chunk.R r.cstate = some rb.seq
  known : r.cstate ∈ Proofs.Chunk.known
  dec : r.hasDec = true → rb.props = some r.l.p ∧ rb.s = r.l.s ∧ rb.tbl = r.l.tbl
  np : needProps rb.seq = false → r.hasDec = true

def afterLz (rb : RState) (seq' : SeqState) (kind : ChunkKind) (usize csize : Nat) (hp : Option Props) (p : Props)
    (body n : Nat) (R : SegRes) : RState :=
  { rb with pos := body + (n - R.d.rd.inp.length), seq := seq', h := R.d.h, props := some p, s := R.d.s,
            tbl := R.d.tbl,
            chunks := rb.chunks.push { kind := kind, usize := usize, csize := csize, props := hp, ops := R.d.ops,
                                       consumed := n - R.d.rd.inp.length, marker := R.sawMarker } }

def lzOut (rb : RState) (seq' : SeqState) (kind : ChunkKind) (usize csize : Nat) (hp : Option Props) (p : Props)
    (body n : Nat) (R : SegRes) : ChunkRes :=
  match R.status with
  | .eof => .next (afterLz rb seq' kind usize csize hp p body n R)
  | .unexpectedEOF => .done (afterLz rb seq' kind usize csize hp p body n R) .unexpectedEOF
  | st => .done (afterLz rb seq' kind usize csize hp p body n R) st

def afterUnc (rb : RState) (seq' : SeqState) (kind : ChunkKind) (h0 : Hist) (body usize : Nat) : RState :=
  { rb with pos := body + min usize (rb.inp.size - body), seq := seq',
            h := { h0 with out := h0.out ++ rb.inp.extract body (body + min usize (rb.inp.size - body)) },
            chunks := rb.chunks.push { kind := kind, usize := usize,
                                       raw := rb.inp.extract body (body + min usize (rb.inp.size - body)) } }

def uncOut (rb : RState) (seq' : SeqState) (kind : ChunkKind) (h0 : Hist) (body usize : Nat) : ChunkRes :=
  if min usize (rb.inp.size - body) < usize then .done (afterUnc rb seq' kind h0 body usize) .unexpectedEOF
  else .next (afterUnc rb seq' kind h0 body usize)

/-! ### invariants of the lazy reader -/

/-- at a chunk boundary: the ring is drained, `D` is everything decoded so far -/
def Bnd (cap : Nat) (inp : ByteArray) (off : Nat) (B : RState × Status) (r : R2) (D : ByteArray) : Prop :=
  r.srcErr = false ∧ r.inp = inp ∧ ∃ h : Hist,
    r.l.dict.RelB ⟨h.out.data.toList.drop off, D.size⟩ cap (h.dictStart - off) ∧ off ≤ h.dictStart ∧
    h.dictStart ≤ h.out.size ∧ h.cap = cap ∧ D.data.toList = h.out.data.toList.drop off ∧
    (KB B → ∃ rb, GTr B rb ∧ Link inp r rb ∧ rb.pos = r.pos ∧ rb.h = h)

/-- inside an LZMA chunk -/
def CLz (cap : Nat) (inp : ByteArray) (off : Nat) (B : RState × Status) (r : R2) (D : ByteArray) : Prop :=
  r.srcErr = false ∧ r.cur = .lz ∧ r.inp = inp ∧ r.hasDec = true ∧
  ∃ (p : Props) (usize startB : Nat) (R : SegRes),
    GI p (some usize) cap startB off R r.l D ∧
    (KB B → ∃ rb seq' kind csize hp body n, GTr B rb ∧ rb.inp = inp ∧
      readChunk false rb = lzOut rb seq' kind usize csize hp p body n R ∧ r.segEnd = body + n ∧
      r.l.rd.inp.length ≤ n ∧
      Proofs.Chunk.R r.cstate = some seq' ∧ r.cstate ∈ Proofs.Chunk.known ∧ needProps seq' = false)

/-- inside an uncompressed chunk -/
def CUnc (cap : Nat) (inp : ByteArray) (off : Nat) (B : RState × Status) (r : R2) (D : ByteArray) : Prop :=
  r.srcErr = false ∧ r.cur = .unc ∧ r.inp = inp ∧ r.uErr = none ∧
  ∃ (h0 : Hist) (body usize : Nat),
    r.l.dict.RelB ⟨(h0.out ++ inp.extract body r.pos).data.toList.drop off, D.size⟩ cap (h0.dictStart - off) ∧
    off ≤ h0.dictStart ∧ h0.dictStart ≤ h0.out.size ∧ h0.cap = cap ∧
    D.data.toList = ((h0.out ++ inp.extract body r.pos).data.toList.drop off).take D.size ∧
    body ≤ r.pos ∧ r.pos ≤ inp.size ∧ (r.pos - body) + r.uN = usize ∧
    (r.uEof = true → r.uN = 0 ∨ r.pos = inp.size) ∧
    (KB B → ∃ rb seq' kind, GTr B rb ∧ readChunk false rb = uncOut rb seq' kind h0 body usize ∧
      Link inp r { rb with seq := seq' })

theorem bstep_grow (d d' : DecSt) (o : RawOp) (hl : OpLenOk o) (h : bstep d o = .cont d') :
    d.h.out.size + 1 ≤ d'.h.out.size ∧ d'.rd = d.rd := by
  have hc : ∀ dist len, 1 ≤ len → d.copy dist len = .cont d' → d.h.out.size + 1 ≤ d'.h.out.size ∧ d'.rd = d.rd := by
    intro dist len h1 hc
    unfold DecSt.copy at hc
    split_ifs at hc
    cases hc
    have := congrArg List.length (copyMatch_toList dist len d.h).1
    rw [copyMatchList_length, length_toList, length_toList] at this
    exact ⟨by simp only; omega, rfl⟩
  cases o with
  | lit b =>
    cases h
    exact ⟨by simp only [Hist.push, ByteArray.size_push]; omega, rfl⟩
  | mtch len dd => exact hc _ _ (by have := hl.1; omega) h
  | rep g len => exact hc _ _ (by have := hl.1; omega) h
  | shortRep => exact hc _ _ (by omega) h

theorem bstep_fail (d d' : DecSt) (o : RawOp) (st : Status) (h : bstep d o = .fail d' st) :
    st = .err "distance out of range" ∧ d' = d := by
  have hc : ∀ dist len, d.copy dist len = .fail d' st → st = .err "distance out of range" ∧ d' = d := by
    intro dist len hc
    unfold DecSt.copy at hc
    split_ifs at hc
    cases hc
    exact ⟨rfl, rfl⟩
  cases o with
  | lit b => cases h
  | mtch len dd => exact hc _ _ h
  | rep g len => exact hc _ _ h
  | shortRep => exact hc _ _ h

/-- what one batch step can do -/
theorem decStep_cases (p : Props) (d : DecSt) :
    (∃ d', decStep p d = .fail d' .unexpectedEOF ∧ d'.h = d.h ∧ d'.rd.inp.length ≤ d.rd.inp.length) ∨
    (∃ d', decStep p d = .fail d' (.err "distance out of range") ∧ d'.h = d.h ∧ d'.rd.inp.length ≤ d.rd.inp.length) ∨
    (∃ d', decStep p d = .marker d' ∧ d'.h = d.h ∧ d'.rd.inp.length ≤ d.rd.inp.length) ∨
    (∃ d', decStep p d = .cont d' ∧ d.h.out.size + 1 ≤ d'.h.out.size ∧ d'.rd.inp.length ≤ d.rd.inp.length) := by
  cases hres : decTree pm (opDec (mkCtx p d.s d.h)) d.tbl d.rd with
  | none =>
    obtain ⟨s, tbl, rd, hh, ops⟩ := d
    simp only at hres
    left
    refine ⟨{ s := s, tbl := #[], rd := { range := 0, code := 0, inp := [] }, h := hh, ops := ops },
      by simp only [decStep, hres], rfl, ?_⟩
    simp
  | some x =>
    obtain ⟨o, tbl', rd'⟩ := x
    have hlen := opDec_len _ _ _ _ _ _ hres
    have hrd := decTree_inp_le _ _ _ _ _ _ hres
    have hd := decStep_some d o tbl' rd' hres
    by_cases hm : isMarker o = true
    · rw [if_pos hm] at hd
      exact Or.inr (Or.inr (Or.inl ⟨_, hd, rfl, hrd⟩))
    · rw [if_neg hm] at hd
      cases hb : bstep (dAfter d o tbl' rd') o with
      | cont d' =>
        obtain ⟨g1, g2⟩ := bstep_grow _ _ _ hlen hb
        rw [hb] at hd
        exact Or.inr (Or.inr (Or.inr ⟨d', hd, g1, by rw [g2]; exact hrd⟩))
      | marker d' =>
        exfalso
        cases o <;> simp [bstep, DecSt.copy] at hb <;> split_ifs at hb
      | fail d' st =>
        obtain ⟨g1, g2⟩ := bstep_fail _ _ _ _ hb
        rw [hb, g1, g2] at hd
        exact Or.inr (Or.inl ⟨_, hd, rfl, hrd⟩)

/-- the statuses with which the batch reader rejects a chunk header after it has been read completely -/
def HdrSt (st : Status) : Prop := st = .err "unexpected chunk type" ∨ st = .err "invalid properties code"

theorem finish_notHdr (p : Props) (d : DecSt) : ¬ HdrSt (decSegment.finish p false d).status := by
  unfold decSegment.finish HdrSt
  split_ifs with hc
  · simp
  · simp at *
  · rcases decStep_cases p d with ⟨d', e, _, _⟩ | ⟨d', e, _, _⟩ | ⟨d', e, _, _⟩ | ⟨d', e, _, _⟩ <;> rw [e] <;> simp

theorem decSegment_notHdr (p : Props) (size : Option Nat) (start : Nat) : ∀ (fb : Nat) (d : DecSt),
    ¬ HdrSt (decSegment p size start false fb d).status := by
  intro fb
  induction fb with
  | zero => intro d; simp [decSegment, HdrSt]
  | succ fb ih =>
    intro d
    rw [decSegment]
    by_cases h0 : size = some (d.h.out.size - start)
    · rw [if_pos h0]; exact finish_notHdr p d
    rw [if_neg h0]
    rcases decStep_cases p d with ⟨d', e, _, _⟩ | ⟨d', e, _, _⟩ | ⟨d', e, _, _⟩ | ⟨d', e, _, _⟩
    · rw [e]; simp [HdrSt]
    · rw [e]; simp [HdrSt]
    · rw [e]
      simp only [Bool.false_eq_true, if_false]
      split_ifs
      · simp [HdrSt]
      · cases size with
        | none => simp [HdrSt]
        | some sz => simp only; split_ifs <;> simp [HdrSt]
    · rw [e]
      cases size with
      | none => exact ih d'
      | some sz =>
        simp only
        split_ifs
        · simp [HdrSt]
        · exact finish_notHdr p d'
        · exact ih d'

theorem gi_notHdr {p : Props} {size : Option Nat} {cap startB off : Nat} {R : SegRes} {l : LSt} {D : ByteArray}
    (hg : GI p size cap startB off R l D) (hK : K R) : ¬ HdrSt R.status := by
  obtain ⟨d, _, _, g3, g4⟩ := hg
  cases he : l.eos with
  | false =>
    obtain ⟨fb, hfb⟩ := (g3 he).1 hK
    rw [← hfb]; exact decSegment_notHdr _ _ _ _ _
  | true =>
    rw [(g4 he hK).1]
    rintro (h | h) <;> cases h

/-- the delivered bytes are a prefix of the batch output -/
def FinPre (off : Nat) (B : RState × Status) (D : ByteArray) : Prop :=
  KB B → D.data.toList = (B.1.h.out.data.toList.drop off).take D.size

/-- what a final (non-nil) status of the lazy reader means for the batch run -/
def FinSt (off : Nat) (B : RState × Status) (D : ByteArray) (r' : R2) : RStat → Prop
  | .ok => True
  | .eof => KB B → B.2 = .eof ∧ D.data.toList = B.1.h.out.data.toList.drop off ∧ B.1.pos = r'.srcPos
  | .err e => NotBad (.err e) ∧ (KB B → B.2.cls = (statusOf e).cls) ∧
      (KB B → HdrSt B.2 → D.data.toList = B.1.h.out.data.toList.drop off)

/-! ### `readChunk` in a form that follows `startChunk` -/

def propsOr (hp : Option Props) (q : Props) : Props :=
  match hp with
  | some p => p
  | none => q

def propsOpt (hp : Option Props) (o : Option Props) : Option Props :=
  match hp with
  | some p => some p
  | none => o

def hpropsOf (inp : ByteArray) (pos : Nat) (kind : ChunkKind) : Option (Option Props) :=
  if kind = .lrn ∨ kind = .lrnd then
    match propsOfByte (get inp (pos + 5)) with
    | none => none
    | some p => some (some p)
  else some none

/-- the part of `readChunk false` after the header has been accepted (not the end-of-stream chunk) -/
def chunkBody (r : RState) (kind : ChunkKind) (hp : Option Props) (seq' : SeqState) : ChunkRes :=
  let inp := r.inp
  let c := get inp r.pos
  let h := if kind = .ud ∨ kind = .lrnd then r.h.reset else r.h
  let body := r.pos + hlenOf kind
  if kind = .ud ∨ kind = .u then
    uncOut r seq' kind h body (get inp (r.pos + 1) * 256 + get inp (r.pos + 2) + 1)
  else
    let usize := ((c % 32) * 65536 + get inp (r.pos + 1) * 256 + get inp (r.pos + 2)) + 1
    let csize := get inp (r.pos + 3) * 256 + get inp (r.pos + 4) + 1
    match propsOpt hp r.props with
    | none => .done r (.err "no properties")
    | some p =>
      let fresh := kind ≠ .l
      let s : St := if fresh then {} else r.s
      let tbl : Tbl := if fresh then initTable p.lc p.lp else r.tbl
      let n := min csize (inp.size - body)
      match Dec.init (bytesToList inp body (body + n)) with
      | none =>
        .done { r with pos := body, seq := seq', h := h, props := some p }
          (initStatus (bytesToList inp body (body + n)))
      | some rd =>
        lzOut r seq' kind usize csize hp p body n
          (decSegment p (some usize) h.out.size false (usize + 2) { s := s, tbl := tbl, rd := rd, h := h })

theorem readChunk_eq (r : RState) : readChunk false r =
    if r.pos ≥ r.inp.size then .done r .unexpectedEOF else
    match Spec.ctrl (get r.inp r.pos) with
    | none => .done r (.err "unsupported chunk header byte")
    | some kind =>
      if r.pos + hlenOf kind > r.inp.size then .done r .unexpectedEOF else
      match hpropsOf r.inp r.pos kind with
      | none => .done r (.err "invalid properties code")
      | some hp =>
        match seqStep r.seq kind with
        | none => .done r (.err "unexpected chunk type")
        | some seq' =>
          if kind = .eos then
            .done { r with pos := r.pos + 1, seq := seq', chunks := r.chunks.push { kind := .eos, usize := 0 } } .eof
          else chunkBody r kind hp seq' := by
  by_cases c1 : r.pos ≥ r.inp.size
  · rw [if_pos c1, readChunk]
    exact if_pos c1
  · rw [if_neg c1, readChunk]
    refine (if_neg c1).trans ?_
    cases hk : Spec.ctrl (get r.inp r.pos) with
    | none =>
      simp (config := { maxSteps := 2000000 }) only [hk]
    | some kind =>
      simp (config := { maxSteps := 2000000 }) only [hk]
      cases kind <;> rfl

/-! ### `startChunk` in the same form -/

/-- the part of `startChunk` after the header has been accepted -/
def startBody (r0 : R2) (kind : ChunkKind) (hp : Option Props) (cs' : Nat) : R2 × RStat :=
  let inp := r0.inp
  let body := r0.pos + hlenOf kind
  let r : R2 := { r0 with cur := .none, pos := body, cstate := cs' }
  if cs' = Gen.lzma_stateStop then (r, .eof) else
  let dict := if kind = .ud ∨ kind = .lrnd then { r.l.dict with head := 0 } else r.l.dict
  let r : R2 := { r with l := { r.l with dict := dict } }
  let usz16 := get inp (r0.pos + 1) * 256 + get inp (r0.pos + 2)
  if kind = .ud ∨ kind = .u then
    ({ r with cur := .unc, uN := usz16 + 1, uEof := false, uErr := none }, .ok)
  else
    let usize := (get inp r0.pos % 32) * 65536 + usz16 + 1
    let csize := get inp (r0.pos + 3) * 256 + get inp (r0.pos + 4) + 1
    let n := min csize (inp.size - body)
    let seg := bytesToList inp body (body + n)
    let p : Props := propsOr hp r.l.p
    let fresh := !r.hasDec || decide (kind ≠ .l)
    match Dec.init seg with
    | none => (r, .err (initErr seg (r0.srcErr && decide (n < csize))))
    | some rd =>
      let l : LSt :=
        { r.l with p := p, s := if fresh then {} else r.l.s, tbl := if fresh then initTable p.lc p.lp else r.l.tbl,
                   rd := rd, start := r.l.dict.head, size := some usize, eos := false,
                   srcEnd := r0.srcErr && decide (n < csize) }
      ({ r with l := l, hasDec := true, segEnd := body + n, cur := .lz }, .ok)

theorem startChunk_eq (r : R2) : startChunk r =
    if r.pos ≥ r.inp.size then ({ r with cur := .none }, r.endE) else
    match Spec.ctrl (get r.inp r.pos) with
    | none => ({ r with cur := .none, pos := r.pos + 1 }, .err (.other "unsupported chunk header byte"))
    | some kind =>
      if r.pos + hlenOf kind > r.inp.size then ({ r with cur := .none, pos := r.inp.size }, r.endE) else
      match hpropsOf r.inp r.pos kind with
      | none => ({ r with cur := .none, pos := r.pos + hlenOf kind }, .err (.other "invalid properties code"))
      | some hp =>
        match Model.chunkNext r.cstate (Model.ctypeOf kind) with
        | none => ({ r with cur := .none, pos := r.pos + hlenOf kind }, .err (.other "unexpected chunk type"))
        | some cs' => startBody r kind hp cs' := by
  by_cases c1 : r.pos ≥ r.inp.size
  · rw [if_pos c1, startChunk]
    exact if_pos c1
  · rw [if_neg c1, startChunk]
    refine (if_neg c1).trans ?_
    have hh := hct_eq (get r.inp r.pos) (get_lt _ _)
    cases hk : Spec.ctrl (get r.inp r.pos) with
    | none =>
      rw [hk] at hh
      simp (config := { maxSteps := 2000000 }) only [hh, Option.map_none]
    | some kind =>
      rw [hk] at hh
      simp (config := { maxSteps := 2000000 }) only [hh, Option.map_some]
      cases kind <;> rfl

theorem seq_np (a a' : SeqState) (k : ChunkKind) (h : seqStep a k = some a') :
    (k = .ud → needProps a' = true) ∧ (k = .u → needProps a' = needProps a) ∧
    ((k = .l ∨ k = .lr) → needProps a = false ∧ needProps a' = false) ∧
    ((k = .lrn ∨ k = .lrnd) → needProps a' = false) := by
  cases a with
  | ended => cases k <;> cases h
  | run nd np =>
    cases nd <;> cases np <;> cases k <;> simp [seqStep] at h <;> subst h <;> simp [needProps]

theorem extract_self_empty (b : ByteArray) (i : Nat) : (b.extract i i).data.toList = [] := by
  apply List.eq_nil_of_length_eq_zero
  rw [length_toList, ByteArray.size_extract]; omega

theorem whole_take (W : List UInt8) (D : ByteArray) (h : D.data.toList = W) : D.data.toList = W.take D.size := by
  rw [← length_toList, h, List.take_length]

variable {cap : Nat} {inp : ByteArray} {off : Nat} {B : RState × Status}

theorem endE_ne_eof (r : R2) : r.endE ≠ .eof := by
  unfold R2.endE; split_ifs <;> (intro h; cases h)

theorem endE_ne_ok (r : R2) : r.endE ≠ .ok := by
  unfold R2.endE; split_ifs <;> (intro h; cases h)

theorem endE_plain {r : R2} (h : r.srcErr = false) : r.endE = .err .unexpectedEOF := by
  unfold R2.endE; rw [h]; rfl

theorem startChunk_eof_pos (r : R2) (h : (startChunk r).2 = .eof) : r.pos ≤ (startChunk r).1.srcPos := by
  rw [startChunk_eq] at h ⊢
  by_cases c1 : r.pos ≥ r.inp.size
  · rw [if_pos c1] at h; exact absurd h (endE_ne_eof _)
  rw [if_neg c1] at h ⊢
  cases hk : Spec.ctrl (Lzma2.get r.inp r.pos) with
  | none => rw [hk] at h; cases h
  | some kind =>
    rw [hk] at h
    simp only at h ⊢
    by_cases c2 : r.pos + hlenOf kind > r.inp.size
    · rw [if_pos c2] at h; exact absurd h (endE_ne_eof _)
    rw [if_neg c2] at h ⊢
    cases hhp : hpropsOf r.inp r.pos kind with
    | none => rw [hhp] at h; cases h
    | some hp =>
      rw [hhp] at h
      simp only at h ⊢
      cases hcn : Model.chunkNext r.cstate (Model.ctypeOf kind) with
      | none => rw [hcn] at h; cases h
      | some cs' =>
        rw [hcn] at h
        simp only at h ⊢
        unfold startBody at h ⊢
        simp only at h ⊢
        by_cases cstop : cs' = Gen.lzma_stateStop
        · rw [if_pos cstop]
          simp only [R2.srcPos]
          rw [if_neg (by simp)]
          omega
        · rw [if_neg cstop] at h
          exfalso
          by_cases cunc : kind = .ud ∨ kind = .u
          · rw [if_pos cunc] at h; cases h
          · rw [if_neg cunc] at h
            split at h
            · cases h
            · cases h

/-- a header that both readers reject: what it means for the batch run -/
theorem fin_done {r r' : R2} {D : ByteArray} {h : Hist} {e : Err}
    (hD : D.data.toList = h.out.data.toList.drop off)
    (hKB : KB B → ∃ rb, GTr B rb ∧ Link inp r rb ∧ rb.pos = r.pos ∧ rb.h = h)
    (hnb : NotBad (.err e))
    (hrc : ∀ rb, Link inp r rb → rb.pos = r.pos → rb.h = h →
      ∃ rb' st, readChunk false rb = .done rb' st ∧ rb'.h.out = h.out ∧ st.cls = (statusOf e).cls) :
    FinSt off B D r' (.err e) ∧ FinPre off B D := by
  refine ⟨⟨hnb, fun hK => ?_, fun hK _ => ?_⟩, fun hK => ?_⟩
  · obtain ⟨rb, hg, hl, hp, hh⟩ := hKB hK
    obtain ⟨rb', st, e1, e2, e3⟩ := hrc rb hl hp hh
    rw [gtr_done hg hK e1]; exact e3
  · obtain ⟨rb, hg, hl, hp, hh⟩ := hKB hK
    obtain ⟨rb', st, e1, e2, e3⟩ := hrc rb hl hp hh
    rw [gtr_done hg hK e1]
    simp only [e2]
    exact hD
  · obtain ⟨rb, hg, hl, hp, hh⟩ := hKB hK
    obtain ⟨rb', st, e1, e2, e3⟩ := hrc rb hl hp hh
    rw [gtr_done hg hK e1]
    simp only [e2]
    exact whole_take _ _ hD

theorem reset_rel {d : DDict} {h : Hist} {n : Nat} (c : Prop) [Decidable c]
    (hrel : d.RelB ⟨h.out.data.toList.drop off, n⟩ cap (h.dictStart - off)) (hol : off ≤ h.dictStart)
    (hdl : h.dictStart ≤ h.out.size) (hcapH : h.cap = cap) :
    (if c then { d with head := 0 } else d).RelB ⟨(if c then h.reset else h).out.data.toList.drop off, n⟩ cap
      ((if c then h.reset else h).dictStart - off) ∧
    off ≤ (if c then h.reset else h).dictStart ∧
    (if c then h.reset else h).dictStart ≤ (if c then h.reset else h).out.size ∧
    (if c then h.reset else h).cap = cap ∧ (if c then h.reset else h).out = h.out ∧
    (if c then { d with head := 0 } else d).head + (if c then h.reset else h).dictStart = h.out.size := by
  have hh := hrel.head
  simp only [List.length_drop, length_toList] at hh
  split_ifs
  · refine ⟨?_, ?_, Nat.le_refl _, hcapH, rfl, ?_⟩
    · have := relB_reset d _ cap _ hrel
      simp only [List.length_drop, length_toList] at this
      exact this
    · show off ≤ h.out.size; omega
    · show 0 + h.out.size = h.out.size; omega
  · exact ⟨hrel, hol, hdl, hcapH, rfl, by omega⟩


/-- properties and state handling of an LZMA chunk agree on both sides -/
theorem lz_props {r : R2} {rb : RState} {kind : ChunkKind} {hp : Option Props} {seq' : SeqState}
    (hl : Link inp r rb) (hs : seqStep rb.seq kind = some seq') (hhp : hpropsOf r.inp r.pos kind = some hp)
    (h1 : kind ≠ .eos) (h2 : ¬ (kind = .ud ∨ kind = .u)) :
    propsOpt hp rb.props = some (propsOr hp r.l.p) ∧
    needProps seq' = false ∧
    (kind = .l → r.hasDec = true ∧ rb.s = r.l.s ∧ rb.tbl = r.l.tbl) := by
  obtain ⟨_, _, n3, n4⟩ := seq_np _ _ _ hs
  unfold hpropsOf at hhp
  by_cases hk : kind = .lrn ∨ kind = .lrnd
  · rw [if_pos hk] at hhp
    refine ⟨?_, n4 hk, fun hkl => by rcases hk with hk | hk <;> rw [hk] at hkl <;> cases hkl⟩
    split at hhp
    · cases hhp
    · cases hhp; rfl
  · rw [if_neg hk] at hhp
    cases hhp
    have hk2 : kind = .l ∨ kind = .lr := by
      cases kind <;> simp at h1 h2 hk ⊢
    obtain ⟨m1, m2⟩ := n3 hk2
    obtain ⟨d1, d2, d3⟩ := hl.dec (hl.np m1)
    exact ⟨d1, m2, fun _ => ⟨hl.np m1, d2, d3⟩⟩


theorem init_len (seg : List Nat) (rd : Dec) (h : Dec.init seg = some rd) : rd.inp.length + 5 = seg.length := by
  unfold Dec.init at h
  split at h
  · simp only at h
    split_ifs at h
    cases h
    simp
  · cases h

theorem bytesToList_len (b : ByteArray) (lo hi : Nat) : (bytesToList b lo hi).length = hi - lo := by
  simp [bytesToList]


def StartPost (cap : Nat) (inp : ByteArray) (off : Nat) (B : RState × Status) (r : R2) (D : ByteArray)
    (x : R2 × RStat) : Prop :=
  (x.2 = .ok → (CLz cap inp off B x.1 D ∨ CUnc cap inp off B x.1 D) ∧ x.1.err = r.err ∧
    r.pos + 1 ≤ x.1.srcPos ∧ r.pos < inp.size) ∧
  (x.2 ≠ .ok → FinSt off B D x.1 x.2 ∧ FinPre off B D)

theorem nb_ueof : NotBad (.err .unexpectedEOF) := by
  refine ⟨?_, ?_, ?_⟩ <;> intro h <;> cases h

theorem nb_other (w : String) : NotBad (.err (.other w)) := by
  refine ⟨?_, ?_, ?_⟩ <;> intro h <;> cases h

theorem initStatus_cases (seg : List Nat) :
    initStatus seg = .unexpectedEOF ∨ initStatus seg = .err "range decoder init" := by
  unfold initStatus
  cases seg with
  | nil => exact Or.inl rfl
  | cons b0 t => simp only; split_ifs <;> simp

/-- `newRangeDecoder` fails on a source that ends with io.EOF: the batch reader's status -/
theorem initErr_status (seg : List Nat) : statusOf (initErr seg false) = initStatus seg := by
  unfold initErr initStatus
  cases seg with
  | nil => rfl
  | cons b0 t =>
    simp only [Bool.false_eq_true, if_false]
    split_ifs <;> rfl

theorem initErr_notBad (seg : List Nat) (b : Bool) : NotBad (.err (initErr seg b)) := by
  unfold initErr
  cases seg with
  | nil => simp only; split_ifs <;> (refine ⟨?_, ?_, ?_⟩ <;> intro h <;> cases h)
  | cons b0 t => simp only; split_ifs <;> (refine ⟨?_, ?_, ?_⟩ <;> intro h <;> cases h)

set_option maxRecDepth 8000 in
theorem startChunk_spec {r : R2} {D : ByteArray} (hb : Bnd cap inp off B r D) :
    StartPost cap inp off B r D (startChunk r) := by
  obtain ⟨hsrc, hinp, h, hrel, hol, hdl, hcapH, hD, hKB⟩ := hb
  rw [startChunk_eq]
  by_cases c1 : r.pos ≥ r.inp.size
  · rw [if_pos c1, endE_plain hsrc]
    refine ⟨(fun hh => by cases hh), fun _ => ?_⟩
    refine fin_done hD hKB nb_ueof (fun rb hl hp hh => ⟨rb, .unexpectedEOF, ?_, by rw [hh], rfl⟩)
    rw [readChunk_eq, if_pos (by rw [hl.inp, hp, ← hinp]; exact c1)]
  rw [if_neg c1]
  cases hk : Spec.ctrl (get r.inp r.pos) with
  | none =>
    refine ⟨(fun hh => by cases hh), fun _ => ?_⟩
    refine fin_done hD hKB (nb_other _) (fun rb hl hp hh => ⟨rb, _, ?_, by rw [hh], rfl⟩)
    rw [readChunk_eq, if_neg (by rw [hl.inp, hp, ← hinp]; exact c1)]
    rw [hl.inp, hp, ← hinp, hk]
    rfl
  | some kind =>
    simp only
    by_cases c2 : r.pos + hlenOf kind > r.inp.size
    · rw [if_pos c2, endE_plain hsrc]
      refine ⟨(fun hh => by cases hh), fun _ => ?_⟩
      refine fin_done hD hKB nb_ueof (fun rb hl hp hh => ⟨rb, .unexpectedEOF, ?_, by rw [hh], rfl⟩)
      rw [readChunk_eq, if_neg (by rw [hl.inp, hp, ← hinp]; exact c1)]
      rw [hl.inp, hp, ← hinp, hk]
      simp only
      rw [if_pos c2]
    rw [if_neg c2]
    cases hhp : hpropsOf r.inp r.pos kind with
    | none =>
      refine ⟨(fun hh => by cases hh), fun _ => ?_⟩
      refine fin_done hD hKB (nb_other _) (fun rb hl hp hh => ⟨rb, _, ?_, by rw [hh], rfl⟩)
      rw [readChunk_eq, if_neg (by rw [hl.inp, hp, ← hinp]; exact c1)]
      rw [hl.inp, hp, ← hinp, hk]
      simp only
      rw [if_neg c2, hhp]
      rfl
    | some hp =>
      simp only
      cases hcn : Model.chunkNext r.cstate (Model.ctypeOf kind) with
      | none =>
        refine ⟨(fun hh => by cases hh), fun _ => ?_⟩
        refine fin_done hD hKB (nb_other _) (fun rb hl hp hh => ⟨rb, _, ?_, by rw [hh], rfl⟩)
        rw [readChunk_eq, if_neg (by rw [hl.inp, hp, ← hinp]; exact c1)]
        rw [hl.inp, hp, ← hinp, hk]
        simp only
        rw [if_neg c2, hhp]
        simp only
        rcases chunk_step r.cstate hl.known rb.seq hl.seq kind with ⟨_, e2⟩ | ⟨s', a', e1, _⟩
        · rw [e2]
          rfl
        · rw [hcn] at e1; cases e1
      | some cs' =>
        simp only
        -- what the batch reader does with this header
        have hrcB : ∀ rb, Link inp r rb → rb.pos = r.pos → rb.h = h →
            ∃ seq', seqStep rb.seq kind = some seq' ∧ Proofs.Chunk.R cs' = some seq' ∧ cs' ∈ Proofs.Chunk.known ∧
              (cs' = Gen.lzma_stateStop ↔ kind = .eos) ∧
              readChunk false rb = (if kind = .eos then
                .done { rb with pos := rb.pos + 1, seq := seq', chunks := rb.chunks.push { kind := .eos, usize := 0 } } .eof
                else chunkBody rb kind hp seq') := by
          intro rb hl hp' hh
          rcases chunk_step r.cstate hl.known rb.seq hl.seq kind with ⟨e1, _⟩ | ⟨s', a', e1, e2, e3, e4, e5⟩
          · rw [hcn] at e1; cases e1
          · rw [hcn] at e1; cases e1
            refine ⟨a', e2, e3, e4, e5, ?_⟩
            rw [readChunk_eq, if_neg (by rw [hl.inp, hp', ← hinp]; exact c1)]
            rw [hl.inp, hp', ← hinp, hk]
            simp only
            rw [if_neg c2, hhp]
            simp only
            rw [e2]
        unfold startBody
        simp only
        by_cases cstop : cs' = Gen.lzma_stateStop
        · rw [if_pos cstop]
          refine ⟨(fun hh => by cases hh), fun _ => ⟨fun hK => ?_, fun hK => ?_⟩⟩
          · obtain ⟨rb, hg, hl, hp', hh⟩ := hKB hK
            obtain ⟨seq', _, _, _, e5, e6⟩ := hrcB rb hl hp' hh
            have hke := e5.mp cstop
            rw [if_pos hke] at e6
            rw [gtr_done hg hK e6]
            refine ⟨rfl, by simp only [hh]; exact hD, ?_⟩
            simp only [R2.srcPos, hp', hke, hlenOf]
            rfl
          · obtain ⟨rb, hg, hl, hp', hh⟩ := hKB hK
            obtain ⟨seq', _, _, _, e5, e6⟩ := hrcB rb hl hp' hh
            have hke := e5.mp cstop
            rw [if_pos hke] at e6
            rw [gtr_done hg hK e6]
            simp only [hh]
            exact whole_take _ _ hD
        rw [if_neg cstop]
        obtain ⟨q1, q2, q3, q4, q5, q6⟩ := reset_rel (kind = .ud ∨ kind = .lrnd) hrel hol hdl hcapH
        by_cases cunc : kind = .ud ∨ kind = .u
        · rw [if_pos cunc]
          refine ⟨fun _ => ⟨Or.inr ?_, rfl, ?_, by rw [← hinp]; omega⟩, (fun hh => absurd rfl hh)⟩
          · -- the uncompressed chunk starts
            have hex : ((if kind = .ud ∨ kind = .lrnd then h.reset else h).out ++
                inp.extract (r.pos + hlenOf kind) (r.pos + hlenOf kind)).data.toList = h.out.data.toList := by
              rw [ByteArray.data_append, Array.toList_append, extract_self_empty, List.append_nil, q5]
            refine ⟨hsrc, rfl, hinp, rfl, (if kind = .ud ∨ kind = .lrnd then h.reset else h), r.pos + hlenOf kind,
              Lzma2.get r.inp (r.pos + 1) * 256 + Lzma2.get r.inp (r.pos + 2) + 1, ?_, q2, q3, q4, ?_,
              Nat.le_refl _, (by show r.pos + hlenOf kind ≤ inp.size; rw [← hinp]; omega), ?_, (fun hh => by cases hh), ?_⟩
            · simp only [hex]
              rw [q5] at q1
              exact q1
            · simp only [hex]
              exact whole_take _ _ hD
            · simp only; omega
            · intro hK
              obtain ⟨rb, hg, hl, hp', hh⟩ := hKB hK
              obtain ⟨seq', e2, e3, e4, e5, e6⟩ := hrcB rb hl hp' hh
              have hne : kind ≠ .eos := fun hke => cstop (e5.mpr hke)
              rw [if_neg hne] at e6
              refine ⟨rb, seq', kind, hg, ?_, ?_⟩
              · rw [e6]
                unfold chunkBody
                simp only
                rw [if_pos cunc, hh, hp', hl.inp, ← hinp]
              · obtain ⟨n1, n2, _, _⟩ := seq_np _ _ _ e2
                refine ⟨hl.inp, e3, e4, hl.dec, ?_⟩
                intro hnp
                simp only at hnp
                rcases cunc with hc | hc
                · rw [n1 hc] at hnp; cases hnp
                · rw [n2 hc] at hnp; exact hl.np hnp
          · simp only [R2.srcPos]
            have : 1 ≤ hlenOf kind := by cases kind <;> simp [hlenOf]
            rw [if_neg (by simp)]
            omega
        rw [if_neg cunc]
        -- the LZMA chunk: names for the header fields
        generalize hus : Lzma2.get r.inp r.pos % 32 * 65536 +
          (Lzma2.get r.inp (r.pos + 1) * 256 + Lzma2.get r.inp (r.pos + 2)) + 1 = usize
        generalize hcs : Lzma2.get r.inp (r.pos + 3) * 256 + Lzma2.get r.inp (r.pos + 4) + 1 = csize
        generalize hnn : min csize (r.inp.size - (r.pos + hlenOf kind)) = n
        have hbatch : ∀ rb, Link inp r rb → rb.pos = r.pos → rb.h = h →
            ∃ seq', Proofs.Chunk.R cs' = some seq' ∧ cs' ∈ Proofs.Chunk.known ∧ needProps seq' = false ∧
            (kind = .l → r.hasDec = true ∧ rb.s = r.l.s ∧ rb.tbl = r.l.tbl) ∧
            readChunk false rb =
              match Dec.init (bytesToList r.inp (r.pos + hlenOf kind) (r.pos + hlenOf kind + n)) with
              | none =>
                .done { rb with pos := r.pos + hlenOf kind, seq := seq',
                                h := (if kind = .ud ∨ kind = .lrnd then h.reset else h),
                                props := some (propsOr hp r.l.p) }
                  (initStatus (bytesToList r.inp (r.pos + hlenOf kind) (r.pos + hlenOf kind + n)))
              | some rd =>
                lzOut rb seq' kind usize csize hp (propsOr hp r.l.p)
                  (r.pos + hlenOf kind) n
                  (decSegment (propsOr hp r.l.p) (some usize)
                    (if kind = .ud ∨ kind = .lrnd then h.reset else h).out.size false (usize + 2)
                    { s := if kind ≠ .l then {} else rb.s,
                      tbl := if kind ≠ .l then
                          initTable (propsOr hp r.l.p).lc
                            (propsOr hp r.l.p).lp
                        else rb.tbl,
                      rd := rd, h := (if kind = .ud ∨ kind = .lrnd then h.reset else h) }) := by
          intro rb hl hp' hh
          obtain ⟨seq', e2, e3, e4, e5, e6⟩ := hrcB rb hl hp' hh
          have hne : kind ≠ .eos := fun hke => cstop (e5.mpr hke)
          obtain ⟨p1, p2, p3⟩ := lz_props hl e2 hhp hne cunc
          refine ⟨seq', e3, e4, p2, p3, ?_⟩
          rw [if_neg hne] at e6
          rw [e6]
          unfold chunkBody
          simp only
          rw [if_neg cunc, p1]
          simp only
          rw [hh, hp', hl.inp, ← hinp]
          have hus' : Lzma2.get r.inp r.pos % 32 * 65536 + Lzma2.get r.inp (r.pos + 1) * 256 +
              Lzma2.get r.inp (r.pos + 2) + 1 = usize := by
            rw [Nat.add_assoc (Lzma2.get r.inp r.pos % 32 * 65536)]; exact hus
          rw [hus', hcs, hnn]
        cases hdi : Dec.init (bytesToList r.inp (r.pos + hlenOf kind) (r.pos + hlenOf kind + n)) with
        | none =>
          simp only [hsrc, Bool.false_and]
          refine ⟨(fun hh => by cases hh), fun _ => ?_⟩
          refine fin_done hD hKB (initErr_notBad _ _) (fun rb hl hp' hh => ?_)
          obtain ⟨seq', _, _, _, _, e⟩ := hbatch rb hl hp' hh
          rw [hdi] at e
          simp only at e
          exact ⟨_, _, e, by simp only [q5], by rw [initErr_status]⟩
        | some rd =>
          simp only
          have hlen5 := init_len _ _ hdi
          rw [bytesToList_len] at hlen5
          refine ⟨fun _ => ⟨Or.inl ?_, rfl, ?_, by rw [← hinp]; omega⟩, (fun hh => absurd rfl hh)⟩
          · obtain ⟨d0, hd0⟩ : ∃ d0 : DecSt, d0 =
                ⟨if (!r.hasDec || decide (kind ≠ .l)) = true then {} else r.l.s,
                 if (!r.hasDec || decide (kind ≠ .l)) = true then
                   initTable (propsOr hp r.l.p).lc (propsOr hp r.l.p).lp else r.l.tbl,
                 rd, (if kind = .ud ∨ kind = .lrnd then h.reset else h), #[]⟩ := ⟨_, rfl⟩
            refine ⟨hsrc, rfl, hinp, rfl, propsOr hp r.l.p, usize,
              (if kind = .ud ∨ kind = .lrnd then h.reset else h).out.size,
              decSegment (propsOr hp r.l.p) (some usize)
                (if kind = .ud ∨ kind = .lrnd then h.reset else h).out.size false (usize + 2) d0, ?_, ?_⟩
            · refine ⟨d0, ?_, ?_, ?_, (fun hf => by cases hf)⟩
              · rw [hd0]
                refine ⟨rfl, rfl, rfl, rfl, ?_, rfl, q2, q3, q1, q4,
                  (by show (r.srcErr && _) = false; rw [hsrc]; rfl)⟩
                show (if kind = .ud ∨ kind = .lrnd then { r.l.dict with head := 0 } else r.l.dict).head +
                  (if kind = .ud ∨ kind = .lrnd then h.reset else h).dictStart =
                  (if kind = .ud ∨ kind = .lrnd then h.reset else h).out.size
                rw [q6, q5]
              · rw [hd0]
                simp only [q5]
                exact whole_take _ _ hD
              · intro _
                refine ⟨fun _ => ⟨_, rfl⟩, fun sz hsz => Or.inl ?_⟩
                cases hsz
                rw [hd0]
                simp only
                omega
            · intro hK
              obtain ⟨rb, hg, hl, hp', hh⟩ := hKB hK
              obtain ⟨seq', e3, e4, e5, e6, e7⟩ := hbatch rb hl hp' hh
              rw [hdi] at e7
              simp only at e7
              refine ⟨rb, seq', kind, csize, hp, r.pos + hlenOf kind, n, hg, hl.inp, ?_, rfl, (by show rd.inp.length ≤ n; omega), e3, e4, e5⟩
              rw [e7, hd0]
              by_cases hkl : kind = .l
              · obtain ⟨f1, f2, f3⟩ := e6 hkl
                simp only [hkl, f1, f2, f3, ne_eq, not_true_eq_false, if_false, Bool.not_true, decide_false,
                  Bool.or_self, Bool.false_eq_true]
              · simp only [hkl, ne_eq, not_false_eq_true, if_true, decide_true, Bool.or_true]
          · simp only [R2.srcPos, if_true]
            have : 1 ≤ hlenOf kind := by cases kind <;> simp [hlenOf]
            omega

/-! ### uncompressed chunks -/

theorem toList_extract (a : ByteArray) (lo hi : Nat) :
    (a.extract lo hi).data.toList = (a.data.toList.take hi).drop lo := by
  rw [ByteArray.data_extract, Array.toList_extract]
  simp [List.extract, List.drop_take]

theorem extract_append (a : ByteArray) (x y z : Nat) (h1 : x ≤ y) (h2 : y ≤ z) :
    (a.extract x y).data.toList ++ (a.extract y z).data.toList = (a.extract x z).data.toList := by
  simp only [toList_extract]
  rw [show a.data.toList.take y = (a.data.toList.take z).take y by rw [List.take_take]; congr 1; omega]
  generalize a.data.toList.take z = L
  by_cases hy : y ≤ L.length
  · conv_rhs => rw [← List.take_append_drop y L]
    rw [List.drop_append_of_le_length (by rw [List.length_take]; omega)]
  · rw [List.take_of_length_le (by omega), List.drop_of_length_le (by omega : L.length ≤ y), List.append_nil]

theorem ufill_eq (r : R2) (hs : r.srcErr = false) : ufill r =
    if r.uEof then (r, if r.uN ≠ 0 then .err .unexpectedEOF else .eof)
    else
      let want := r.l.dict.buf.available
      let k := min want (min r.uN (r.inp.size - r.pos))
      let r' : R2 := { r with l := { r.l with dict := (r.l.dict.write (r.inp.extract r.pos (r.pos + k))).1 },
                              pos := r.pos + k, uN := r.uN - k }
      if k = want then (r', .ok)
      else if k > 0 then ({ r' with uEof := true }, .ok)
      else if r.uN - k ≠ 0 then ({ r' with uEof := true }, .err .unexpectedEOF)
      else ({ r' with uEof := true }, .eof) := by
  unfold ufill
  cases hE : r.uEof with
  | true =>
    simp only [Bool.not_true, Bool.false_eq_true, if_false, if_true]
    split_ifs <;> simp_all
  | false =>
    simp only [Bool.not_false, if_true, Bool.false_eq_true, if_false, hs, false_and]
    split_ifs <;> simp_all

def UfillPost (cap : Nat) (inp : ByteArray) (off : Nat) (B : RState × Status) (r : R2) (D : ByteArray)
    (x : R2 × RStat) : Prop :=
  x.1.cur = r.cur ∧ x.1.err = r.err ∧ r.pos ≤ x.1.pos ∧
  (x.2 = .ok → CUnc cap inp off B x.1 D ∧ (1 ≤ r.l.dict.buf.available → 1 ≤ x.1.l.dict.buf.buffered)) ∧
  (x.2 = .eof → CUnc cap inp off B x.1 D ∧ x.1.uN = 0 ∧ x.1.l.dict.buf.buffered = r.l.dict.buf.buffered) ∧
  (∀ e, x.2 = .err e → FinSt off B D x.1 (.err e) ∧ FinPre off B D)

/-- the input ended inside an uncompressed chunk: what the batch reader reports -/
theorem unc_short {r : R2} {D : ByteArray} {h0 : Hist} {body usize : Nat}
    (hD : D.data.toList = ((h0.out ++ inp.extract body r.pos).data.toList.drop off).take D.size)
    (hb : body ≤ r.pos) (hps : r.pos = inp.size) (hus : (r.pos - body) + r.uN = usize) (hun : r.uN ≠ 0)
    (hKB : KB B → ∃ rb seq' kind, GTr B rb ∧ readChunk false rb = uncOut rb seq' kind h0 body usize ∧
      Link inp r { rb with seq := seq' }) (r' : R2) :
    FinSt off B D r' (.err .unexpectedEOF) ∧ FinPre off B D := by
  have key : KB B → B.2 = .unexpectedEOF ∧ B.1.h.out = h0.out ++ inp.extract body r.pos := by
    intro hK
    obtain ⟨rb, seq', kind, hg, hrc, hl⟩ := hKB hK
    have hi : rb.inp = inp := hl.inp
    have hmin : min usize (inp.size - body) = r.pos - body := by omega
    unfold uncOut at hrc
    rw [hi, if_pos (by rw [hmin]; omega)] at hrc
    rw [gtr_done hg hK hrc]
    refine ⟨rfl, ?_⟩
    simp only [afterUnc, hi, hmin]
    rw [show body + (r.pos - body) = r.pos by omega]
  refine ⟨⟨nb_ueof, fun hK => by rw [(key hK).1]; rfl, fun hK hh => by rw [(key hK).1] at hh; rcases hh with h | h <;> cases h⟩, fun hK => ?_⟩
  rw [(key hK).2]; exact hD

theorem ufill_spec {r : R2} {D : ByteArray} (hc : CUnc cap inp off B r D) :
    UfillPost cap inp off B r D (ufill r) := by
  obtain ⟨hsrc, hcur, hinp, hue, h0, body, usize, hrel, hol, hdl, hcapH, hD, hb, hps, hus, huE, hKB⟩ := hc
  rw [ufill_eq _ hsrc]
  by_cases hE : r.uEof = true
  · rw [if_pos hE]
    by_cases hun : r.uN ≠ 0
    · rw [if_pos hun]
      refine ⟨rfl, rfl, Nat.le_refl _, (fun h => by cases h), (fun h => by cases h), fun e he => ?_⟩
      cases he
      have hps' : r.pos = inp.size := by rcases huE hE with h | h; exact absurd h hun; exact h
      exact unc_short hD hb hps' hus hun hKB r
    · rw [if_neg hun]
      refine ⟨rfl, rfl, Nat.le_refl _, (fun h => by cases h), fun _ => ⟨?_, by simpa using hun, rfl⟩, (fun e he => by cases he)⟩
      exact ⟨hsrc, hcur, hinp, hue, h0, body, usize, hrel, hol, hdl, hcapH, hD, hb, hps, hus, huE, hKB⟩
  rw [if_neg hE]
  simp only
  -- the piece copied into the ring
  generalize hk : min r.l.dict.buf.available (min r.uN (r.inp.size - r.pos)) = k
  have hk1 : k ≤ r.l.dict.buf.available := by omega
  have hk2 : k ≤ r.uN := by omega
  have hps0 : r.pos ≤ r.inp.size := by rw [hinp]; exact hps
  have hk3 : r.pos + k ≤ inp.size := by rw [← hinp]; omega
  have hav := available_eq _ _ _ hrel.buf
  have hbuf := buffered_eq _ _ _ hrel.buf
  have hrle := hrel.buf.rle
  simp only at hav hbuf hrle
  have hpsz : (r.inp.extract r.pos (r.pos + k)).size = k := by
    rw [ByteArray.size_extract, hinp]; omega
  obtain ⟨w1, w2⟩ := relB_write r.l.dict _ cap _ hrel (r.inp.extract r.pos (r.pos + k))
  simp only [hpsz] at w1 w2
  have htk : (r.inp.extract r.pos (r.pos + k)).data.toList.take k = (r.inp.extract r.pos (r.pos + k)).data.toList :=
    List.take_of_length_le (by rw [length_toList, hpsz])
  rw [show min k (cap - (((h0.out ++ inp.extract body r.pos).data.toList.drop off).length - D.size)) = k by omega,
    htk] at w2
  -- the new content
  have hnew : ((h0.out ++ inp.extract body (r.pos + k)).data.toList.drop off) =
      (h0.out ++ inp.extract body r.pos).data.toList.drop off ++ (r.inp.extract r.pos (r.pos + k)).data.toList := by
    rw [hinp, ByteArray.data_append, Array.toList_append, ByteArray.data_append, Array.toList_append,
      ← extract_append inp body r.pos (r.pos + k) hb (by omega), ← List.append_assoc,
      List.drop_append_of_le_length]
    rw [List.length_append, length_toList]; omega
  have hlenW : ((h0.out ++ inp.extract body r.pos).data.toList.drop off).length ≥ D.size := hrle
  have hD' : D.data.toList = ((h0.out ++ inp.extract body (r.pos + k)).data.toList.drop off).take D.size := by
    rw [hnew, List.take_append_of_le_length hlenW]; exact hD
  have hcu : ∀ (ue : Bool) (r1 : R2), (ue = true → r.uN - k = 0 ∨ r.pos + k = inp.size) →
      r1 = { r with l := { r.l with dict := (r.l.dict.write (r.inp.extract r.pos (r.pos + k))).1 },
                    pos := r.pos + k, uN := r.uN - k, uEof := ue } →
      CUnc cap inp off B r1 D := by
    intro ue r1 hue' hr1
    subst hr1
    refine ⟨hsrc, hcur, hinp, hue, h0, body, usize, ?_, hol, hdl, hcapH, hD', by simp only; omega, hk3,
      by simp only; omega, hue', ?_⟩
    · simp only
      rw [hnew]; exact w2
    · intro hK
      obtain ⟨rb, seq', kind, hg, hrc, hl⟩ := hKB hK
      exact ⟨rb, seq', kind, hg, hrc, ⟨hl.inp, hl.seq, hl.known, hl.dec, hl.np⟩⟩
  have hbuf' : 1 ≤ k → 1 ≤ (r.l.dict.write (r.inp.extract r.pos (r.pos + k))).1.buf.buffered := by
    intro h1
    rw [buffered_eq _ _ _ w2.buf]
    simp only [List.length_append, length_toList, hpsz]
    omega
  by_cases c1 : k = r.l.dict.buf.available
  · rw [if_pos c1]
    refine ⟨rfl, rfl, by simp only; omega, fun _ => ⟨?_, fun h1 => hbuf' (by omega)⟩, (fun h => by cases h),
      (fun e he => by cases he)⟩
    have hE' : r.uEof = false := by simpa using hE
    exact hcu false _ (fun h => by cases h) (by rw [hE'])
  rw [if_neg c1]
  by_cases c2 : k > 0
  · rw [if_pos c2]
    refine ⟨rfl, rfl, by simp only; omega, fun _ => ⟨hcu true _ (fun _ => ?_) rfl, fun _ => hbuf' (by omega)⟩,
      (fun h => by cases h), (fun e he => by cases he)⟩
    rw [← hinp]; omega
  rw [if_neg c2]
  have hk0 : k = 0 := by omega
  by_cases c3 : r.uN - k ≠ 0
  · rw [if_pos c3]
    refine ⟨rfl, rfl, by simp only; omega, (fun h => by cases h), (fun h => by cases h), fun e he => ?_⟩
    cases he
    have hps' : r.pos = inp.size := by rw [← hinp]; omega
    exact unc_short hD hb hps' hus (by omega) hKB _
  · rw [if_neg c3]
    refine ⟨rfl, rfl, by simp only; omega, (fun h => by cases h), fun _ => ⟨hcu true _ (fun _ => Or.inl (by omega)) rfl, ?_, ?_⟩,
      (fun e he => by cases he)⟩
    · simp only; omega
    · simp only
      rw [buffered_eq _ _ _ w2.buf, hbuf]
      simp only [List.length_append, length_toList, hpsz]
      omega

/-- what `Reader2.Read` needs from one call of the chunk reader -/
def ChunkPost (cap : Nat) (inp : ByteArray) (off : Nat) (B : RState × Status) (r : R2) (len : Nat) (D0 : ByteArray)
    (x : R2 × ByteArray × RStat) : Prop :=
  x.2.1.size ≤ len ∧ x.1.err = r.err ∧
  (x.2.2 = .ok → x.2.1.size = len ∧ (CLz cap inp off B x.1 (D0 ++ x.2.1) ∨ CUnc cap inp off B x.1 (D0 ++ x.2.1)) ∧
    r.srcPos ≤ x.1.srcPos) ∧
  (x.2.2 = .eof →
    Bnd cap inp off B (if x.1.cur = .lz then { x.1 with pos := x.1.segEnd - x.1.l.rd.inp.length } else x.1)
      (D0 ++ x.2.1) ∧
    r.srcPos ≤ (if x.1.cur = .lz then x.1.segEnd - x.1.l.rd.inp.length else x.1.pos)) ∧
  (∀ e, x.2.2 = .err e → FinSt off B (D0 ++ x.2.1) x.1 (.err e) ∧ FinPre off B (D0 ++ x.2.1))

/-- the uncompressed chunk is complete and the ring drained: the next chunk boundary -/
theorem unc_end {r : R2} {D : ByteArray} (hc : CUnc cap inp off B r D) (hu : r.uN = 0)
    (hb0 : r.l.dict.buf.buffered = 0) (r' : R2) (h1 : r'.inp = r.inp) (h2 : r'.pos = r.pos) (h3 : r'.l = r.l)
    (h4 : r'.cstate = r.cstate) (h5 : r'.hasDec = r.hasDec) (h6 : r'.srcErr = r.srcErr) : Bnd cap inp off B r' D := by
  obtain ⟨hsrc, hcur, hinp, hue, h0, body, usize, hrel, hol, hdl, hcapH, hD, hb, hps, hus, huE, hKB⟩ := hc
  have hbuf := buffered_eq _ _ _ hrel.buf
  have hrle := hrel.buf.rle
  simp only at hbuf hrle
  refine ⟨by rw [h6]; exact hsrc, by rw [h1]; exact hinp, { h0 with out := h0.out ++ inp.extract body r.pos }, by rw [h3]; exact hrel, hol, ?_,
    hcapH, ?_, ?_⟩
  · simp only [ByteArray.size_append]; omega
  · rw [hD, List.take_of_length_le]
    omega
  · intro hK
    obtain ⟨rb, seq', kind, hg, hrc, hl⟩ := hKB hK
    have hi : rb.inp = inp := hl.inp
    have hmin : min usize (inp.size - body) = usize := by omega
    unfold uncOut at hrc
    rw [hi, if_neg (by rw [hmin]; omega)] at hrc
    refine ⟨afterUnc rb seq' kind h0 body usize, gtr_next hg hrc, ?_, ?_, ?_⟩
    · exact ⟨hl.inp, by rw [h4]; exact hl.seq, by rw [h4]; exact hl.known,
        by rw [h5, h3]; exact hl.dec, by rw [h5]; exact hl.np⟩
    · simp only [afterUnc, hi, hmin, h2]; omega
    · simp only [afterUnc, hi, hmin]
      rw [show body + usize = r.pos by omega]

def UreadPost (cap : Nat) (inp : ByteArray) (off : Nat) (B : RState × Status) (r : R2) (len : Nat) (D0 : ByteArray)
    (x : R2 × ByteArray × RStat) : Prop :=
  x.2.1.size ≤ len ∧ x.1.err = r.err ∧ x.1.cur = .unc ∧ r.pos ≤ x.1.pos ∧
  (x.2.2 = .ok → x.2.1.size = len ∧ CUnc cap inp off B x.1 (D0 ++ x.2.1)) ∧
  (x.2.2 = .eof → Bnd cap inp off B x.1 (D0 ++ x.2.1)) ∧
  (∀ e, x.2.2 = .err e → FinSt off B (D0 ++ x.2.1) x.1 (.err e) ∧ FinPre off B (D0 ++ x.2.1))

theorem uread_spec (len : Nat) (D0 : ByteArray) : ∀ (fuel : Nat) (r : R2) (acc : ByteArray),
    CUnc cap inp off B r (D0 ++ acc) → acc.size < len →
    (len - acc.size) + (if r.l.dict.buf.buffered = 0 then 2 else 1) ≤ fuel →
    UreadPost cap inp off B r len D0 (uread len fuel r acc) := by
  intro fuel
  induction fuel with
  | zero => intro r acc _ hlt hn; exfalso; split_ifs at hn <;> omega
  | succ fuel ih =>
    intro r acc hc hlt hn
    have hc0 := hc
    obtain ⟨hsrc, hcur, hinp, hue, h0, body, usize, hrel, hol, hdl, hcapH, hD, hb, hps, hus, huE, hKB⟩ := hc
    rw [uread]
    split
    · rename_i e he; rw [hue] at he; cases he
    have hbuf := buffered_eq _ _ _ hrel.buf
    have hrle := hrel.buf.rle
    simp only at hbuf hrle
    obtain ⟨r1, r2⟩ := relB_read r.l.dict _ cap _ hrel (len - acc.size)
    simp only at r1 r2
    rcases hrd : r.l.dict.read (len - acc.size) with ⟨d', chunk⟩
    rw [hrd] at r1 r2
    simp only at r1 r2 ⊢
    generalize hW : (h0.out ++ inp.extract body r.pos).data.toList.drop off = W at *
    have hcs : chunk.size = min (len - acc.size) (W.length - (D0 ++ acc).size) := by
      rw [← length_toList, r1, List.length_take, List.length_drop]
    have hsize' : (D0 ++ (acc ++ chunk)).size = (D0 ++ acc).size + chunk.size := by
      simp only [ByteArray.size_append]; omega
    have hD' : (D0 ++ (acc ++ chunk)).data.toList = W.take (D0 ++ (acc ++ chunk)).size := by
      rw [hsize', ← ByteArray.append_assoc, ByteArray.data_append, Array.toList_append, hD, r1]
      conv_rhs => rw [List.take_add]
      congr 1
      rw [List.take_eq_take_iff, List.length_drop, hcs]
      omega
    have hc1 : ∀ r1' : R2, r1' = { r with l := { r.l with dict := d' } } →
        CUnc cap inp off B r1' (D0 ++ (acc ++ chunk)) := by
      intro r1' hr1
      subst hr1
      refine ⟨hsrc, hcur, hinp, hue, h0, body, usize, ?_, hol, hdl, hcapH, ?_, hb, hps, hus, huE, ?_⟩
      · simp only [hW]
        rw [hsize', hcs]; exact r2
      · simp only [hW]; exact hD'
      · intro hK
        obtain ⟨rb, seq', kind, hg, hrc, hl⟩ := hKB hK
        exact ⟨rb, seq', kind, hg, hrc, ⟨hl.inp, hl.seq, hl.known, hl.dec, hl.np⟩⟩
    have hsz2 : (acc ++ chunk).size = acc.size + chunk.size := ByteArray.size_append
    have hszA : (D0 ++ acc).size = D0.size + acc.size := ByteArray.size_append
    by_cases c2 : (acc ++ chunk).size ≥ len
    · rw [if_pos c2]
      exact ⟨by simp only; omega, rfl, hcur, Nat.le_refl _, fun _ => ⟨by simp only; omega, hc1 _ rfl⟩,
        (fun h => by cases h), (fun e he => by cases he)⟩
    rw [if_neg c2]
    have hcu1 := hc1 _ rfl
    have hup := ufill_spec hcu1
    -- the ring is drained now
    have hdr : d'.buf.buffered = 0 := by
      rw [buffered_eq _ _ _ r2.buf]
      simp only
      omega
    have hav1 : 1 ≤ d'.buf.available := by
      rw [available_eq _ _ _ r2.buf]
      have := r2.pos
      simp only
      omega
    rcases hu : ufill ({ r with l := { r.l with dict := d' } } : R2) with ⟨r', st⟩
    rw [hu] at hup
    obtain ⟨u0, u1, u2, u3, u4, u5⟩ := hup
    simp only at u0 u1 u2 u3 u4 u5
    cases st with
    | ok =>
      show UreadPost cap inp off B r len D0 (uread len fuel r' (acc ++ chunk))
      obtain ⟨v1, v2⟩ := u3 rfl
      have := ih r' (acc ++ chunk) v1 (by omega) (by rw [if_neg (by have := v2 hav1; omega)]; split_ifs at hn <;> omega)
      obtain ⟨w1, w2, w3, w4, w5, w6, w7⟩ := this
      exact ⟨w1, by rw [w2, u1], w3, by omega, w5, w6, w7⟩
    | eof =>
      show UreadPost cap inp off B r len D0 ({ r' with uErr := some .eof }, acc ++ chunk, .eof)
      obtain ⟨v1, v2, v3⟩ := u4 rfl
      refine ⟨by simp only; omega, u1, by simp only; exact v1.2.1, u2, (fun h => by cases h), fun _ => ?_,
        (fun e he => by cases he)⟩
      exact unc_end v1 v2 (by rw [v3]; exact hdr) _ rfl rfl rfl rfl rfl rfl
    | err e =>
      show UreadPost cap inp off B r len D0 ({ r' with uErr := some (.err e) }, acc ++ chunk, .err e)
      obtain ⟨v1, v2⟩ := u5 e rfl
      exact ⟨by simp only; omega, u1, by simp only; rw [u0]; exact hcur, u2, (fun h => by cases h), (fun h => by cases h),
        fun e' he' => by cases he'; exact ⟨⟨v1.1, v1.2⟩, v2⟩⟩

/-! ### LZMA chunks -/

theorem kR_of_KB {rb : RState} {seq' : SeqState} {kind : ChunkKind} {usize csize : Nat} {hp : Option Props}
    {p : Props} {body n : Nat} {R : SegRes} (hK : KB B) (hg : GTr B rb)
    (hrc : readChunk false rb = lzOut rb seq' kind usize csize hp p body n R) : K R := by
  intro hR
  apply hK
  unfold lzOut at hrc
  rw [hR] at hrc
  simp only at hrc
  rw [gtr_done hg hK hrc]

theorem lzOut_status {rb : RState} {seq' : SeqState} {kind : ChunkKind} {usize csize : Nat} {hp : Option Props}
    {p : Props} {body n : Nat} {R : SegRes} (hne : R.status ≠ .eof) :
    lzOut rb seq' kind usize csize hp p body n R = .done (afterLz rb seq' kind usize csize hp p body n R) R.status := by
  unfold lzOut
  cases hs : R.status with
  | eof => exact absurd hs hne
  | unexpectedEOF => rfl
  | err w => rfl

theorem lzRead_spec (hcap : 274 ≤ cap) {r : R2} {D0 : ByteArray} (hc : CLz cap inp off B r D0) (len : Nat)
    (hlen : 0 < len) : ChunkPost cap inp off B r len D0 (chunkRead r len) := by
  obtain ⟨hsrc, hcur, hinp, hdec, p, usize, startB, R, hg, hKB⟩ := hc
  have hr := read_spec R hcap hg len hlen
  unfold chunkRead
  rw [hcur]
  simp only
  rcases hrd : LazyDec.read r.l len with ⟨l', out, st⟩
  rw [hrd] at hr
  obtain ⟨q1, q2, q3, q4⟩ := hr
  simp only at q1 q2 q3 q4 ⊢
  refine ⟨q1, rfl, ?_, ?_, ?_⟩
  · intro hst
    simp only at hst
    subst hst
    obtain ⟨a1, a2⟩ := q4
    refine ⟨q2 rfl, Or.inl ⟨hsrc, rfl, hinp, hdec, p, usize, startB, R, a2, fun hK => ?_⟩, ?_⟩
    · obtain ⟨rb, seq', kind, csize, hp, body, n, k1, k2, k3, k4, k5, k6, k7, k8⟩ := hKB hK
      exact ⟨rb, seq', kind, csize, hp, body, n, k1, k2, k3, k4, Nat.le_trans a1 k5, k6, k7, k8⟩
    · simp only [R2.srcPos, hcur, if_true]
      omega
  · intro hst
    simp only at hst
    subst hst
    obtain ⟨a1, a2, d, ⟨s1, s2, s3, s4⟩, a4⟩ := q4
    simp only [if_true]
    refine ⟨⟨hsrc, hinp, d.h, s1.rel, s1.offle, s1.dsle, s1.cap, ?_, fun hK => ?_⟩, ?_⟩
    · rw [s2, List.take_of_length_le]
      rw [List.length_drop, length_toList]; omega
    · obtain ⟨rb, seq', kind, csize, hp, body, n, k1, k2, k3, k4, k5, k6, k7, k8⟩ := hKB hK
      have hKR := kR_of_KB hK k1 k3
      obtain ⟨e1, e2⟩ := s4 a2 hKR
      have hn : readChunk false rb = .next (afterLz rb seq' kind usize csize hp p body n R) := by
        rw [k3, lzOut, e1]
      refine ⟨afterLz rb seq' kind usize csize hp p body n R, gtr_next k1 hn, ?_, ?_, ?_⟩
      · refine ⟨k2, k6, k7, fun _ => ⟨?_, ?_, ?_⟩, fun _ => hdec⟩
        · show some p = some l'.p
          rw [s1.p]
        · show R.d.s = l'.s
          rw [e2, s1.s]
        · show R.d.tbl = l'.tbl
          rw [e2, s1.tbl]
      · show body + (n - R.d.rd.inp.length) = r.segEnd - l'.rd.inp.length
        rw [e2, ← s1.rd, k4]
        omega
      · show R.d.h = d.h
        rw [e2]
    · simp only [R2.srcPos, hcur, if_true]
      omega
  · intro e hst
    simp only at hst
    subst hst
    refine ⟨⟨goodErr_notBad q4, fun hK => ?_, fun hK hh => ?_⟩, fun hK => ?_⟩
    · obtain ⟨rb, seq', kind, csize, hp, body, n, k1, k2, k3, k4, k5, k6, k7, k8⟩ := hKB hK
      have hKR := kR_of_KB hK k1 k3
      have hcls := goodErr_cls hKR q4
      have hne : R.status ≠ .eof := by
        intro he
        rw [he] at hcls
        cases e <;> simp [Status.cls, statusOf] at hcls
      rw [lzOut_status hne] at k3
      rw [gtr_done k1 hK k3]
      exact hcls
    · exfalso
      obtain ⟨rb, seq', kind, csize, hp, body, n, k1, k2, k3, k4, k5, k6, k7, k8⟩ := hKB hK
      have hKR := kR_of_KB hK k1 k3
      have hcls := goodErr_cls hKR q4
      have hne : R.status ≠ .eof := by
        intro he
        rw [he] at hcls
        cases e <;> simp [Status.cls, statusOf] at hcls
      rw [lzOut_status hne] at k3
      rw [gtr_done k1 hK k3] at hh
      exact gi_notHdr hg hKR hh
    · obtain ⟨rb, seq', kind, csize, hp, body, n, k1, k2, k3, k4, k5, k6, k7, k8⟩ := hKB hK
      have hKR := kR_of_KB hK k1 k3
      have hcls := goodErr_cls hKR q4
      have hne : R.status ≠ .eof := by
        intro he
        rw [he] at hcls
        cases e <;> simp [Status.cls, statusOf] at hcls
      rw [lzOut_status hne] at k3
      rw [gtr_done k1 hK k3]
      exact q3 hKR

/-! ### `Reader2.Read` -/

def C2 (cap : Nat) (inp : ByteArray) (off : Nat) (B : RState × Status) (r : R2) (D : ByteArray) : Prop :=
  CLz cap inp off B r D ∨ CUnc cap inp off B r D

theorem C2.inp_eq {r : R2} {D : ByteArray} (h : C2 cap inp off B r D) : r.inp = inp := by
  rcases h with h | h
  · exact h.2.2.1
  · exact h.2.2.1

theorem chunkRead_spec (hcap : 274 ≤ cap) {r : R2} {D0 : ByteArray} (hc : C2 cap inp off B r D0) (len : Nat)
    (hlen : 0 < len) : ChunkPost cap inp off B r len D0 (chunkRead r len) := by
  rcases hc with hc | hc
  · exact lzRead_spec hcap hc len hlen
  · have hcur := hc.2.1
    have he : D0 ++ ByteArray.empty = D0 := ByteArray.append_empty
    have := uread_spec len D0 (len + 3) r ByteArray.empty (by rw [he]; exact hc) hlen
      (by have : ByteArray.empty.size = 0 := rfl
          split_ifs <;> omega)
    unfold chunkRead
    rw [hcur]
    simp only
    obtain ⟨a1, a2, a3, a4, a5, a6, a7⟩ := this
    refine ⟨a1, a2, fun h => ⟨(a5 h).1, Or.inr (a5 h).2, by simp only [R2.srcPos, hcur, a3]; exact a4⟩, fun h => ?_, a7⟩
    rw [if_neg (by rw [a3]; simp), if_neg (by rw [a3]; simp)]
    refine ⟨a6 h, ?_⟩
    simp only [R2.srcPos, hcur]
    exact a4

def R2Post (cap : Nat) (inp : ByteArray) (off : Nat) (B : RState × Status) (p0 len : Nat) (D0 : ByteArray)
    (x : R2 × ByteArray × RStat) : Prop :=
  x.2.1.size ≤ len ∧ ((x.2.2 = .ok ∨ x.2.2 = .eof) → p0 ≤ x.1.srcPos) ∧
  (x.2.2 = .ok → x.2.1.size = len ∧ C2 cap inp off B x.1 (D0 ++ x.2.1) ∧ x.1.err = none) ∧
  (x.2.2 ≠ .ok → FinSt off B (D0 ++ x.2.1) x.1 x.2.2 ∧ FinPre off B (D0 ++ x.2.1) ∧ x.1.err = some x.2.2)

theorem finSt_err_irrel {D : ByteArray} {r r' : R2} {st : RStat} (h : FinSt off B D r st)
    (hs : r'.srcPos = r.srcPos) : FinSt off B D r' st := by
  cases st with
  | ok => trivial
  | eof => intro hK; rw [hs]; exact h hK
  | err e => exact h

theorem readLoop2_spec (hcap : 274 ≤ cap) (p0 len : Nat) (D0 : ByteArray) :
    ∀ (fuel : Nat) (r : R2) (acc : ByteArray),
    C2 cap inp off B r (D0 ++ acc) → r.err = none → acc.size ≤ len →
    (if acc.size < len then (inp.size - r.srcPos) + 2 else 1) ≤ fuel → p0 ≤ r.srcPos →
    R2Post cap inp off B p0 len D0 (readLoop len fuel r acc) := by
  intro fuel
  induction fuel with
  | zero => intro r acc _ _ _ hn; exfalso; split_ifs at hn <;> omega
  | succ fuel ih =>
    intro r acc hc he hle hn hp0
    rw [readLoop]
    by_cases hlt : acc.size < len
    swap
    · rw [if_neg hlt]
      exact ⟨hle, fun _ => hp0, fun _ => ⟨by simp only; omega, hc, he⟩, (fun h => absurd rfl h)⟩
    rw [if_pos hlt]
    rw [if_pos hlt] at hn
    have hcp := chunkRead_spec hcap hc (len - acc.size) (by omega)
    rcases hcr : chunkRead r (len - acc.size) with ⟨r1, chunk, st⟩
    rw [hcr] at hcp
    obtain ⟨p1, p2, p3, p4, p5⟩ := hcp
    simp only at p1 p2 p3 p4 p5 ⊢
    have hsz : (acc ++ chunk).size = acc.size + chunk.size := ByteArray.size_append
    have hasm : D0 ++ acc ++ chunk = D0 ++ (acc ++ chunk) := ByteArray.append_assoc
    cases st with
    | ok =>
      simp only
      obtain ⟨o1, o2, o3⟩ := p3 rfl
      rw [if_neg (by omega)]
      rw [hasm] at o2
      exact ih r1 (acc ++ chunk) o2 (by rw [p2]; exact he) (by omega) (by rw [if_neg (by omega)]; omega) (by omega)
    | eof =>
      simp only
      obtain ⟨e1, e2⟩ := p4 rfl
      rw [hasm] at e1
      have hsp := startChunk_spec e1
      generalize hr2 : (if r1.cur = Cur.lz then { r1 with pos := r1.segEnd - r1.l.rd.inp.length } else r1) = r2
        at hsp e1 ⊢
      have hr2p : r.srcPos ≤ r2.pos := by
        rw [← hr2]
        split_ifs at e2 ⊢ <;> exact e2
      have hr2e : r2.err = none := by
        rw [← hr2]
        split_ifs
        · show r1.err = none; rw [p2]; exact he
        · rw [p2]; exact he
      rcases hsc : startChunk r2 with ⟨r3, st'⟩
      rw [hsc] at hsp
      obtain ⟨s1, s2⟩ := hsp
      simp only at s1 s2
      cases st' with
      | ok =>
        simp only
        obtain ⟨t1, t2, t3, t4⟩ := s1 rfl
        exact ih r3 (acc ++ chunk) t1 (by rw [t2]; exact hr2e) (by omega) (by split_ifs <;> omega) (by omega)
      | eof =>
        simp only
        obtain ⟨t1, t2⟩ := s2 (by intro h; cases h)
        have hpe := startChunk_eof_pos r2 (by rw [hsc])
        rw [hsc] at hpe
        exact ⟨by simp only; omega, (fun _ => by show p0 ≤ r3.srcPos; simp only at hpe; omega), (fun h => by cases h),
          fun _ => ⟨finSt_err_irrel t1 rfl, t2, rfl⟩⟩
      | err e =>
        simp only
        obtain ⟨t1, t2⟩ := s2 (by intro h; cases h)
        exact ⟨by simp only; omega, (fun h => by rcases h with h | h <;> cases h), (fun h => by cases h),
          fun _ => ⟨finSt_err_irrel t1 rfl, t2, rfl⟩⟩
    | err e =>
      simp only
      obtain ⟨e1, e2⟩ := p5 e rfl
      rw [hasm] at e1 e2
      exact ⟨by simp only; omega, (fun h => by rcases h with h | h <;> cases h), (fun h => by cases h),
        fun _ => ⟨finSt_err_irrel e1 rfl, e2, rfl⟩⟩

/-! ### the batch output only grows -/

def crState : ChunkRes → RState
  | .next r => r
  | .done r _ => r

theorem lzOut_state (rb : RState) (seq' : SeqState) (kind : ChunkKind) (usize csize : Nat) (hp : Option Props)
    (p : Props) (body n : Nat) (R : SegRes) :
    crState (lzOut rb seq' kind usize csize hp p body n R) = afterLz rb seq' kind usize csize hp p body n R := by
  unfold lzOut
  cases R.status <;> rfl

theorem uncOut_state (rb : RState) (seq' : SeqState) (kind : ChunkKind) (h0 : Hist) (body usize : Nat) :
    crState (uncOut rb seq' kind h0 body usize) = afterUnc rb seq' kind h0 body usize := by
  unfold uncOut
  split_ifs <;> rfl

theorem chunkBody_prefix (r : RState) (kind : ChunkKind) (hp : Option Props) (seq' : SeqState) :
    r.h.out.data.toList <+: (crState (chunkBody r kind hp seq')).h.out.data.toList := by
  have hres : (if kind = .ud ∨ kind = .lrnd then r.h.reset else r.h).out = r.h.out := by
    split_ifs <;> rfl
  unfold chunkBody
  simp only
  by_cases cu : kind = .ud ∨ kind = .u
  · rw [if_pos cu, uncOut_state]
    simp only [afterUnc, hres, ByteArray.data_append, Array.toList_append]
    exact List.prefix_append _ _
  rw [if_neg cu]
  cases propsOpt hp r.props with
  | none => exact List.prefix_refl _
  | some p =>
    simp only
    cases Dec.init (bytesToList r.inp (r.pos + hlenOf kind) (r.pos + hlenOf kind +
        min (Lzma2.get r.inp (r.pos + 3) * 256 + Lzma2.get r.inp (r.pos + 4) + 1)
          (r.inp.size - (r.pos + hlenOf kind)))) with
    | none => simp only [crState, hres]; exact List.prefix_refl _
    | some rd =>
      simp only
      rw [lzOut_state]
      simp only [afterLz]
      have := decSegment_prefix p
        (some (Lzma2.get r.inp r.pos % 32 * 65536 + Lzma2.get r.inp (r.pos + 1) * 256 +
          Lzma2.get r.inp (r.pos + 2) + 1))
        (if kind = .ud ∨ kind = .lrnd then r.h.reset else r.h).out.size false
        (Lzma2.get r.inp r.pos % 32 * 65536 + Lzma2.get r.inp (r.pos + 1) * 256 +
          Lzma2.get r.inp (r.pos + 2) + 1 + 2)
        { s := if kind ≠ .l then {} else r.s,
          tbl := if kind ≠ .l then initTable p.lc p.lp else r.tbl, rd := rd,
          h := if kind = .ud ∨ kind = .lrnd then r.h.reset else r.h }
      have h1 : r.h.out.data.toList <+: (if kind = .ud ∨ kind = .lrnd then r.h.reset else r.h).out.data.toList := by
        rw [hres]; exact List.prefix_refl _
      exact h1.trans this

theorem readChunk_prefix (r : RState) : r.h.out.data.toList <+: (crState (readChunk false r)).h.out.data.toList := by
  rw [readChunk_eq]
  by_cases c1 : r.pos ≥ r.inp.size
  · rw [if_pos c1]; exact List.prefix_refl _
  rw [if_neg c1]
  cases Spec.ctrl (Lzma2.get r.inp r.pos) with
  | none => exact List.prefix_refl _
  | some kind =>
    simp only
    by_cases c2 : r.pos + hlenOf kind > r.inp.size
    · rw [if_pos c2]; exact List.prefix_refl _
    rw [if_neg c2]
    cases hpropsOf r.inp r.pos kind with
    | none => exact List.prefix_refl _
    | some hp =>
      simp only
      cases seqStep r.seq kind with
      | none => exact List.prefix_refl _
      | some seq' =>
        simp only
        by_cases ce : kind = .eos
        · rw [if_pos ce]; exact List.prefix_refl _
        · rw [if_neg ce]; exact chunkBody_prefix r kind hp seq'

theorem readAll_prefix : ∀ (f : Nat) (r : RState), r.h.out.data.toList <+: (readAll false f r).1.h.out.data.toList := by
  intro f
  induction f with
  | zero => intro r; exact List.prefix_refl _
  | succ f ih =>
    intro r
    rw [readAll]
    have := readChunk_prefix r
    cases hrc : readChunk false r with
    | done r' st => rw [hrc] at this; exact this
    | next r' => rw [hrc] at this; exact this.trans (ih r')

theorem gtr_prefix {rb : RState} (hg : GTr B rb) (hK : KB B) :
    (crState (readChunk false rb)).h.out.data.toList <+: B.1.h.out.data.toList := by
  obtain ⟨f, hf⟩ := gtr_succ hg hK
  rw [readAll] at hf
  cases hrc : readChunk false rb with
  | done r' st => rw [hrc] at hf; rw [← hf]; exact List.prefix_refl _
  | next r' => rw [hrc] at hf; rw [← hf]; exact readAll_prefix _ _

theorem GI.off_le {p : Props} {size : Option Nat} {startB : Nat} {R : SegRes} {l : LSt} {D : ByteArray}
    (hg : GI p size cap startB off R l D) (hK : K R) : off ≤ R.d.h.out.size := by
  obtain ⟨d, hs, hD, h1, h2⟩ := hg
  have hol := hs.offle
  have hdl := hs.dsle
  cases he : l.eos with
  | false =>
    obtain ⟨fb, hfb⟩ := (h1 he).1 hK
    have := (decSegment_prefix p size startB false fb d).length_le
    rw [hfb, length_toList, length_toList] at this
    omega
  | true =>
    rw [(h2 he hK).2]; omega

theorem take_eq_of_prefix {W W' : List UInt8} {D : ByteArray} (hp : W <+: W') (ho : off ≤ W.length)
    (hD : D.data.toList = (W.drop off).take D.size) : D.data.toList = (W'.drop off).take D.size := by
  have hl : D.size ≤ (W.drop off).length := by
    have := congrArg List.length hD
    rw [length_toList, List.length_take] at this
    omega
  rw [take_of_prefix (drop_prefix hp off ho) _ hl]; exact hD

theorem C2.pre {r : R2} {D : ByteArray} (hc : C2 cap inp off B r D) : FinPre off B D := by
  intro hK
  rcases hc with hc | hc
  · obtain ⟨hsrc, hcur, hinp, hdec, p, usize, startB, R, hg, hKB⟩ := hc
    obtain ⟨rb, seq', kind, csize, hp, body, n, k1, k2, k3, k4, k5, k6, k7, k8⟩ := hKB hK
    have hKR := kR_of_KB hK k1 k3
    have hpre := gtr_prefix k1 hK
    rw [k3, lzOut_state] at hpre
    exact take_eq_of_prefix hpre (by rw [length_toList]; exact GI.off_le hg hKR) (GI.pre hg hKR)
  · obtain ⟨hsrc, hcur, hinp, hue, h0, body, usize, hrel, hol, hdl, hcapH, hD, hb, hps, hus, huE, hKB⟩ := hc
    obtain ⟨rb, seq', kind, hg, hrc, hl⟩ := hKB hK
    have hpre := gtr_prefix hg hK
    rw [hrc, uncOut_state] at hpre
    have hi : rb.inp = inp := hl.inp
    have h1 : (h0.out ++ inp.extract body r.pos).data.toList <+:
        (afterUnc rb seq' kind h0 body usize).h.out.data.toList := by
      simp only [afterUnc, hi, ByteArray.data_append, Array.toList_append]
      rw [← extract_append inp body r.pos (body + min usize (inp.size - body)) hb (by omega), ← List.append_assoc]
      exact List.prefix_append _ _
    refine take_eq_of_prefix (h1.trans hpre) ?_ hD
    rw [length_toList, ByteArray.size_append]; omega

theorem read2_spec (hcap : 274 ≤ cap) {r : R2} {D : ByteArray} (hc : C2 cap inp off B r D) (he : r.err = none)
    (len : Nat) : R2Post cap inp off B r.srcPos len D (read r len) := by
  unfold read
  rw [he]
  simp only
  have hi := hc.inp_eq
  have hE : D ++ ByteArray.empty = D := ByteArray.append_empty
  refine readLoop2_spec hcap r.srcPos len D _ r ByteArray.empty (by rw [hE]; exact hc) he (Nat.zero_le _) ?_
    (Nat.le_refl _)
  have : ByteArray.empty.size = 0 := rfl
  rw [hi]
  split_ifs <;> omega

/-- the reader before its first `startChunk` -/
def r2Init (cap : Nat) (inp : ByteArray) (pos0 : Nat) : R2 :=
  { inp := inp, pos := pos0,
    l := { p := ⟨0, 0, 0⟩, tbl := #[], rd := { range := 0, code := 0, inp := [] }, dict := DDict.new cap,
           size := none } }

theorem newReader2At_eq (cfgCap : Nat) (inp : ByteArray) (pos0 : Nat) :
    newReader2At cfgCap inp pos0 =
      match startChunk (r2Init (if cfgCap = 0 then 8 * 1024 * 1024 else cfgCap) inp pos0) with
      | (r', .ok) => r'
      | (r', st) => { r' with err := some st } := rfl

/-- the state `NewReader2` returns, against the batch run from the same position -/
theorem init_spec (cfgCap : Nat) (inp : ByteArray) (pos0 : Nat) (out0 : ByteArray) :
    let cap := if cfgCap = 0 then 8 * 1024 * 1024 else cfgCap
    let B := Lzma2.decode false cap inp pos0 out0
    let r := newReader2At cfgCap inp pos0
    (r.err = none ∧ C2 cap inp out0.size B r ByteArray.empty ∧ pos0 ≤ r.srcPos) ∨
    (∃ st, r.err = some st ∧ st ≠ .ok ∧ FinSt out0.size B ByteArray.empty r st ∧ FinPre out0.size B ByteArray.empty ∧
      (st = .eof → pos0 ≤ r.srcPos)) := by
  intro cap B r
  have hpos : 1 ≤ cap := by
    show 1 ≤ (if cfgCap = 0 then 8 * 1024 * 1024 else cfgCap)
    split_ifs <;> omega
  have hb : Bnd cap inp out0.size B (r2Init cap inp pos0) ByteArray.empty := by
    refine ⟨rfl, rfl, { out := out0, dictStart := out0.size, cap := cap }, ?_, Nat.le_refl _, Nat.le_refl _, rfl, ?_, ?_⟩
    · simp only [Nat.sub_self]
      have hd : out0.data.toList.drop out0.size = [] := by
        apply List.drop_of_length_le; rw [length_toList]
      rw [hd]
      exact ⟨new_rel cap, rfl, hpos⟩
    · show ByteArray.empty.data.toList = out0.data.toList.drop out0.size
      rw [List.drop_of_length_le (by rw [length_toList])]
      rfl
    · intro hK
      refine ⟨{ inp := inp, pos := pos0, h := { out := out0, dictStart := out0.size, cap := cap } },
        fun _ => ⟨_, rfl⟩, ⟨rfl, rfl, ?_, (fun h => by cases h), (fun h => by cases h)⟩, rfl, rfl⟩
      show Gen.lzma_stateStart ∈ Proofs.Chunk.known
      decide
  have hsp := startChunk_spec hb
  have hr : r = newReader2At cfgCap inp pos0 := rfl
  clear_value r
  rw [newReader2At_eq] at hr
  rcases hsc : startChunk (r2Init cap inp pos0) with ⟨r', st⟩
  rw [hsc] at hsp
  have hsc' : startChunk (r2Init (if cfgCap = 0 then 8 * 1024 * 1024 else cfgCap) inp pos0) = (r', st) := hsc
  rw [hsc'] at hr
  obtain ⟨s1, s2⟩ := hsp
  cases st with
  | ok =>
    simp only at hr
    subst hr
    obtain ⟨t1, t2, t3, _⟩ := s1 rfl
    exact Or.inl ⟨t2, t1, by have : (r2Init cap inp pos0).pos = pos0 := rfl; simp only at t3; omega⟩
  | eof =>
    simp only at hr
    subst hr
    obtain ⟨t1, t2⟩ := s2 (by intro h; cases h)
    have hpe := startChunk_eof_pos (r2Init cap inp pos0) (by rw [hsc])
    rw [hsc] at hpe
    exact Or.inr ⟨_, rfl, (by intro h; cases h), finSt_err_irrel t1 rfl, t2, fun _ => hpe⟩
  | err e =>
    simp only at hr
    subst hr
    obtain ⟨t1, t2⟩ := s2 (by intro h; cases h)
    exact Or.inr ⟨_, rfl, (by intro h; cases h), finSt_err_irrel t1 rfl, t2, (fun h => by cases h)⟩

/-! ### schedules -/

def SeqPost2 (off : Nat) (B : RState × Status) (D : ByteArray) (lens : List Nat) (rs : List (ByteArray × RStat)) : Prop :=
  (∀ x ∈ rs, NotBad x.2) ∧
  (rs.length ≤ lens.length ∧ ∀ i (hi : i < rs.length), (rs[i]).1.size ≤ lens[i]! ∧ ((rs[i]).2 = .ok → (rs[i]).1.size = lens[i]!)) ∧
  FinPre off B (D ++ delivered rs) ∧
  (lastStat rs = .eof → KB B → B.2 = .eof ∧ (D ++ delivered rs).data.toList = B.1.h.out.data.toList.drop off) ∧
  (∀ e, lastStat rs = .err e → KB B → B.2.cls = (statusOf e).cls) ∧
  (lastStat rs = .ok → (delivered rs).size = lens.sum)

theorem nb_ok : NotBad .ok := by refine ⟨?_, ?_, ?_⟩ <;> intro h <;> cases h
theorem nb_eof : NotBad .eof := by refine ⟨?_, ?_, ?_⟩ <;> intro h <;> cases h

theorem seq_final {D out : ByteArray} {r' : R2} {st : RStat} {len : Nat} {rest : List Nat}
    (h1 : FinSt off B (D ++ out) r' st) (h2 : FinPre off B (D ++ out)) (h3 : st ≠ .ok) (h4 : out.size ≤ len) :
    SeqPost2 off B D (len :: rest) [(out, st)] := by
  have hd1 : delivered [(out, st)] = out := by rw [delivered_cons, delivered_nil, ByteArray.append_empty]
  refine ⟨?_, ⟨by simp, ?_⟩, by rw [hd1]; exact h2, ?_, ?_, ?_⟩
  · intro x hx
    rcases List.mem_cons.mp hx with rfl | hx
    · cases st with
      | ok => exact nb_ok
      | eof => exact nb_eof
      | err e => exact h1.1
    · cases hx
  · intro i hi
    have : i = 0 := by simpa using hi
    subst this
    simp only [List.getElem_cons_zero, List.getElem!_cons_zero]
    exact ⟨h4, fun h => absurd h h3⟩
  · intro hl hK
    have : st = .eof := hl
    subst this
    rw [hd1]
    exact ⟨(h1 hK).1, (h1 hK).2.1⟩
  · intro e hl hK
    have : st = .err e := hl
    subst this
    exact h1.2.1 hK
  · intro hl
    exact absurd hl h3

theorem readSeq2_spec (hcap : 274 ≤ cap) : ∀ (lens : List Nat) (r : R2) (D : ByteArray),
    C2 cap inp off B r D → r.err = none → SeqPost2 off B D lens (readSeq r lens) := by
  intro lens
  induction lens with
  | nil =>
    intro r D hc he
    simp only [readSeq]
    refine ⟨(fun x hx => by cases hx), ⟨Nat.le_refl _, (fun i hi => by cases hi)⟩, ?_, ?_, ?_, fun _ => rfl⟩
    · rw [delivered_nil, ByteArray.append_empty]; exact hc.pre
    · intro h; cases h
    · intro e h; cases h
  | cons len rest ih =>
    intro r D hc he
    have hr := read2_spec hcap hc he len
    rw [readSeq]
    rcases hrd : read r len with ⟨r', out, st⟩
    rw [hrd] at hr
    obtain ⟨q1, _, q2, q3⟩ := hr
    simp only at q1 q2 q3 ⊢
    cases st with
    | ok =>
      simp only
      obtain ⟨o1, o2, o3⟩ := q2 rfl
      obtain ⟨i1, ⟨i2, i3⟩, i4, i5, i6, i7⟩ := ih r' (D ++ out) o2 o3
      have hdl : D ++ delivered ((out, RStat.ok) :: readSeq r' rest) = D ++ out ++ delivered (readSeq r' rest) := by
        rw [delivered_cons, ByteArray.append_assoc]
      refine ⟨?_, ⟨?_, ?_⟩, ?_, ?_, ?_, ?_⟩
      · intro x hx
        rcases List.mem_cons.mp hx with rfl | hx
        · exact nb_ok
        · exact i1 x hx
      · simp only [List.length_cons]; omega
      · intro i hi
        cases i with
        | zero => simp only [List.getElem_cons_zero, List.getElem!_cons_zero]; exact ⟨q1, fun _ => o1⟩
        | succ i =>
          simp only [List.getElem_cons_succ, List.getElem!_cons_succ]
          exact i3 i (by simpa using hi)
      · rw [hdl]; exact i4
      · rw [hdl, lastStat_cons_ok]; exact i5
      · rw [lastStat_cons_ok]; exact i6
      · rw [lastStat_cons_ok, delivered_cons, ByteArray.size_append, List.sum_cons]
        intro h
        rw [i7 h, o1]
    | eof =>
      simp only
      obtain ⟨t1, t2, _⟩ := q3 (by intro h; cases h)
      exact seq_final t1 t2 (by intro h; cases h) q1
    | err e =>
      simp only
      obtain ⟨t1, t2, _⟩ := q3 (by intro h; cases h)
      exact seq_final t1 t2 (by intro h; cases h) q1

/-- a reader whose `NewReader2` already failed returns the stored status -/
theorem readSeq_err (r : R2) (st : RStat) (he : r.err = some st) (hs : st ≠ .ok) (len : Nat) (rest : List Nat) :
    readSeq r (len :: rest) = [(ByteArray.empty, st)] := by
  cases st with
  | ok => exact absurd rfl hs
  | eof => rw [readSeq]; unfold read; rw [he]
  | err e => rw [readSeq]; unfold read; rw [he]

/-- everything about a schedule on the reader `NewReader2` returns -/
theorem schedule2_spec (cfgCap : Nat) (hcap : 4096 ≤ effCap cfgCap) (inp : ByteArray) (pos0 : Nat) (out0 : ByteArray)
    (lens : List Nat) :
    SeqPost2 out0.size (Lzma2.decode false (effCap cfgCap) inp pos0 out0) ByteArray.empty lens
      (readSeq (newReader2At cfgCap inp pos0) lens) := by
  have hc : 274 ≤ (if cfgCap = 0 then 8 * 1024 * 1024 else cfgCap) := by
    unfold effCap at hcap; omega
  rcases init_spec cfgCap inp pos0 out0 with ⟨h1, h2, _⟩ | ⟨st, h1, h2, h3, h4, _⟩
  · exact readSeq2_spec hc lens _ _ h2 h1
  · cases lens with
    | nil =>
      simp only [readSeq]
      refine ⟨(fun x hx => by cases hx), ⟨Nat.le_refl _, (fun i hi => by cases hi)⟩, ?_, ?_, ?_, fun _ => rfl⟩
      · rw [delivered_nil, ByteArray.append_empty]; exact h4
      · intro h; cases h
      · intro e h; cases h
    | cons len rest =>
      rw [readSeq_err _ st h1 h2]
      have he : ByteArray.empty ++ ByteArray.empty = ByteArray.empty := ByteArray.append_empty
      exact seq_final (by rw [he]; exact h3) (by rw [he]; exact h4) h2 (Nat.zero_le _)

end LazyDec2
