import XzVerif.Proofs.GoSrcOp
/-
  Proofs.GoSrcOpEnc — see Proofs/GoSrcOp.lean (relations `StRel`, `ArrRel`, `ctxOf`, `goOpOf`).  Statements are fixed.
-/
namespace GoSrcP
open GoSrc Rc Lzma

set_option linter.unusedSimpArgs false

private theorem aAlign_eq : aAlign = 1840 := rfl

/-- `omega` after the layout constants were replaced by their numbers (`omega` must not see two different
    closed terms: comparing them as atoms unfolds `Nat.add` on the literals) -/
local macro "lay_omega" : tactic =>
  `(tactic| (simp only [aIsMatch, aIsRep, aIsRepG0, aIsRepG1, aIsRepG2, aIsRepG0Long, aLen, aRepLen, aDist,
      aAlign_eq, aLit] at *; omega))

/-! ### frames: which part of the flat table a path can touch -/

private def pathIn (lo hi : Nat) (π : Path) : Prop := ∀ a b, (Ask.adaptive a, b) ∈ π → lo ≤ a ∧ a < hi

private theorem pathIn_nil (lo hi : Nat) : pathIn lo hi [] := fun _ _ h => by cases h

private theorem pathIn_cons (lo hi a : Nat) (b : Bool) (π : Path) (h1 : lo ≤ a) (h2 : a < hi) (h : pathIn lo hi π) :
    pathIn lo hi ((.adaptive a, b) :: π) := by
  intro a' b' hm
  simp only [List.mem_cons, Prod.mk.injEq, Ask.adaptive.injEq] at hm
  rcases hm with ⟨rfl, _⟩ | hm
  · exact ⟨h1, h2⟩
  · exact h a' b' hm

private theorem pathIn_cons_direct (lo hi : Nat) (b : Bool) (π : Path) (h : pathIn lo hi π) :
    pathIn lo hi ((.direct, b) :: π) := by
  intro a' b' hm
  simp only [List.mem_cons, Prod.mk.injEq, reduceCtorEq, false_and, false_or] at hm
  exact h a' b' hm

private theorem pathIn_append (lo hi : Nat) (π₁ π₂ : Path) (h1 : pathIn lo hi π₁) (h2 : pathIn lo hi π₂) :
    pathIn lo hi (π₁ ++ π₂) := by
  intro a b hm
  rcases List.mem_append.1 hm with hm | hm
  · exact h1 a b hm
  · exact h2 a b hm

private theorem pathIn_mono {lo hi lo' hi' : Nat} {π : Path} (h : pathIn lo hi π) (h1 : lo' ≤ lo) (h2 : hi ≤ hi') :
    pathIn lo' hi' π := fun a b hm => by have := h a b hm; omega

private theorem encPathL_frame (L lo hi : Nat) : ∀ (π : Path) (t : Tbl) (e : Enc) (t' : Tbl) (e' : Enc),
    pathIn lo hi π → encPathL L t e π = some (t', e') → Agree t t' lo hi := by
  intro π
  induction π with
  | nil =>
    intro t e t' e' _ h
    simp only [encPathL, Option.some.injEq, Prod.mk.injEq] at h
    rw [← h.1]; exact Agree.refl _ _ _
  | cons qb π ih =>
    intro t e t' e' hin h
    obtain ⟨q, b⟩ := qb
    have hin' : pathIn lo hi π := fun a b' hm => hin a b' (List.mem_cons_of_mem _ hm)
    cases q with
    | adaptive a =>
      simp only [encPathL] at h
      split at h
      · cases h
      · have := hin a b (List.mem_cons_self)
        exact (Agree.upd t a _ lo hi this.1 this.2).trans (ih _ _ _ _ hin' h)
    | direct =>
      simp only [encPathL] at h
      split at h
      · cases h
      · exact ih _ _ _ _ hin' h

private theorem encPathL_append (L : Nat) : ∀ (π₁ π₂ : Path) (t : Tbl) (e : Enc),
    encPathL L t e (π₁ ++ π₂) =
      match encPathL L t e π₁ with
      | none => none
      | some (t', e') => encPathL L t' e' π₂ := by
  intro π₁
  induction π₁ with
  | nil => intro π₂ t e; simp only [List.nil_append, encPathL]
  | cons qb π ih =>
    intro π₂ t e
    obtain ⟨q, b⟩ := qb
    cases q with
    | adaptive a =>
      simp only [List.cons_append, encPathL]
      split
      · rfl
      · exact ih _ _ _
    | direct =>
      simp only [List.cons_append, encPathL]
      split
      · rfl
      · exact ih _ _ _

private theorem node_bound (m n N c : Nat) (h : (m + 1) * 2 ^ (n + 1) ≤ 2 * N) (hc : c ≤ 1) :
    m < N ∧ (2 * m + c + 1) * 2 ^ n ≤ 2 * N := by
  have hp : 0 < 2 ^ n := Nat.pow_pos (by decide)
  have h1 : (m + 1) * 2 ^ (n + 1) = 2 * ((m + 1) * 2 ^ n) := by
    rw [Nat.pow_succ, ← Nat.mul_assoc, Nat.mul_comm]
  have h2 : m + 1 ≤ (m + 1) * 2 ^ n := Nat.le_mul_of_pos_right _ hp
  have h3 : (2 * m + c + 1) * 2 ^ n ≤ (2 * (m + 1)) * 2 ^ n := Nat.mul_le_mul_right _ (by omega)
  have h4 : (2 * (m + 1)) * 2 ^ n = 2 * ((m + 1) * 2 ^ n) := by rw [Nat.mul_assoc]
  omega

private theorem treeEncGo_in (base v N : Nat) : ∀ (n m : Nat), (m + 1) * 2 ^ n ≤ 2 * N →
    pathIn base (base + N) (treeEncGo base n m v) := by
  intro n
  induction n with
  | zero => intro m _ a b hm; simp only [treeEncGo, List.not_mem_nil] at hm
  | succ n ih =>
    intro m h a b hm
    simp only [treeEncGo, List.mem_cons, Prod.mk.injEq, Ask.adaptive.injEq] at hm
    rcases hm with ⟨rfl, _⟩ | hm
    · have := (node_bound m n N 0 h (by omega)).1; omega
    · refine ih _ ?_ a b hm
      split
      · exact (node_bound m n N 1 h (by omega)).2
      · exact (node_bound m n N 0 h (by omega)).2

private theorem rtreeEncGo_in (base N : Nat) : ∀ (n m v : Nat), (m + 1) * 2 ^ n ≤ 2 * N →
    pathIn base (base + N) (rtreeEncGo base n m v) := by
  intro n
  induction n with
  | zero => intro m v _ a b hm; simp only [rtreeEncGo, List.not_mem_nil] at hm
  | succ n ih =>
    intro m v h a b hm
    simp only [rtreeEncGo, List.mem_cons, Prod.mk.injEq, Ask.adaptive.injEq] at hm
    rcases hm with ⟨rfl, _⟩ | hm
    · have := (node_bound m n N 0 h (by omega)).1; omega
    · refine ih _ _ ?_ a b hm
      unfold bitOf
      split
      · exact (node_bound m n N 1 h (by omega)).2
      · exact (node_bound m n N 0 h (by omega)).2

private theorem treeEnc_in (base bits v : Nat) : pathIn base (base + 2 ^ bits) (treeEnc base bits v) :=
  treeEncGo_in base v _ bits 1 (by omega)

private theorem rtreeEnc_in (base bits v : Nat) : pathIn base (base + 2 ^ bits) (rtreeEnc base bits v) :=
  rtreeEncGo_in base _ bits 1 v (by omega)

private theorem directEnc_in (lo hi : Nat) : ∀ (n v : Nat), pathIn lo hi (directEnc n v) := by
  intro n
  induction n with
  | zero => intro v; exact pathIn_nil _ _
  | succ n ih => intro v; exact pathIn_cons_direct _ _ _ _ (ih v)

private theorem lenEnc_in (L ps l : Nat) (hps : ps < 16) : pathIn L (L + 514) (lenEnc L ps l) := by
  unfold lenEnc
  split
  · refine pathIn_cons _ _ _ _ _ (by omega) (by omega) ?_
    exact pathIn_mono (treeEnc_in _ 3 _) (by omega) (by omega)
  · split
    · refine pathIn_cons _ _ _ _ _ (by omega) (by omega) (pathIn_cons _ _ _ _ _ (by omega) (by omega) ?_)
      exact pathIn_mono (treeEnc_in _ 3 _) (by omega) (by omega)
    · refine pathIn_cons _ _ _ _ _ (by omega) (by omega) (pathIn_cons _ _ _ _ _ (by omega) (by omega) ?_)
      exact pathIn_mono (treeEnc_in _ 8 _) (by omega) (by omega)

private theorem posSlot_lt (d : Nat) (hd : d < 2 ^ 32) : posSlot d < 64 := by
  unfold posSlot
  split
  · omega
  · rename_i h
    have hne : d ≠ 0 := by omega
    have hk1 : Nat.log2 d < 32 := (Nat.log2_lt hne).2 hd
    have : d / 2 ^ (log2 d - 1) % 2 < 2 := Nat.mod_lt _ (by decide)
    simp only
    unfold log2 at *
    omega

private theorem model_layout' : ∀ s, 4 ≤ s → s < 14 → posModelOff s + 2 ^ (s / 2 - 1) ≤ 124 := by
  decide

private theorem distEnc_in (d l : Nat) (hd : d < 2 ^ 32) : pathIn aDist (aDist + 396) (distEnc d l) := by
  have hls : Lzma.lenState l < 4 := by unfold Lzma.lenState; split <;> omega
  have hA : aAlign = aDist + 380 := rfl
  have hp0 : pathIn aDist (aDist + 396) (treeEnc (aDist + Lzma.lenState l * 64) 6 (posSlot d)) :=
    pathIn_mono (treeEnc_in _ 6 _) (by omega) (by omega)
  have hslot := posSlot_lt d hd
  unfold distEnc
  simp only
  split
  · exact hp0
  · split
    · rename_i h4 h14
      refine pathIn_append _ _ _ _ hp0 ?_
      have := model_layout' (posSlot d) (by omega) h14
      exact pathIn_mono (rtreeEnc_in _ _ _) (by omega) (by omega)
    · refine pathIn_append _ _ _ _ (pathIn_append _ _ _ _ hp0 (directEnc_in _ _ _ _)) ?_
      exact pathIn_mono (rtreeEnc_in _ 4 _) (by omega) (by omega)

private theorem litPlainEnc_in (base s : Nat) : ∀ (n sym : Nat), (sym + 1) * 2 ^ n ≤ 2 * 256 →
    pathIn base (base + 768) (litPlainEnc base n sym s) := by
  intro n
  induction n with
  | zero => intro sym _; exact pathIn_nil _ _
  | succ n ih =>
    intro sym h
    simp only [litPlainEnc]
    refine pathIn_cons _ _ _ _ _ (by omega) ?_ (ih _ ?_)
    · have := (node_bound sym n 256 0 h (by omega)).1; omega
    · unfold bitOf
      split
      · exact (node_bound sym n 256 1 h (by omega)).2
      · exact (node_bound sym n 256 0 h (by omega)).2

private theorem litMatchedEnc_in (base mb s : Nat) : ∀ (n sym : Nat), (sym + 1) * 2 ^ n ≤ 2 * 256 →
    pathIn base (base + 768) (litMatchedEnc base n sym mb s) := by
  intro n
  induction n with
  | zero => intro sym _; exact pathIn_nil _ _
  | succ n ih =>
    intro sym h
    simp only [litMatchedEnc]
    have hmb : mb / 2 ^ n % 2 < 2 := Nat.mod_lt _ (by decide)
    have hsym := (node_bound sym n 256 0 h (by omega)).1
    have hnext : (2 * sym + bitOf (decide (s / 2 ^ n % 2 = 1)) + 1) * 2 ^ n ≤ 2 * 256 := by
      unfold bitOf
      split
      · exact (node_bound sym n 256 1 h (by omega)).2
      · exact (node_bound sym n 256 0 h (by omega)).2
    refine pathIn_cons _ _ _ _ _ (by omega) ?_ ?_
    · have : (1 + mb / 2 ^ n % 2) * 256 ≤ 512 := by omega
      omega
    · split
      · exact ih _ hnext
      · exact litPlainEnc_in base s n _ hnext

private theorem litPath_in (st ls mb s n : Nat) (hls : 0x300 * (ls + 1) ≤ n) :
    pathIn aLit (aLit + n) (litPath st ls mb s) := by
  unfold litPath
  split
  · exact pathIn_mono (litMatchedEnc_in _ mb s 8 1 (by decide)) (by omega) (by omega)
  · exact pathIn_mono (litPlainEnc_in _ s 8 1 (by decide)) (by omega) (by omega)

/-! ### the relations are kept by changes outside their block -/

private theorem ArrRel.frame {a : Array (BitVec 16)} {tbl tbl' : Tbl} {base n lo hi : Nat} (ar : ArrRel a tbl base n)
    (ag : Agree tbl tbl' lo hi) (hd : base + n ≤ lo ∨ hi ≤ base) : ArrRel a tbl' base n :=
  ⟨ar.size, by rw [ag.size]; exact ar.inb, fun i hi' => by rw [ar.val i hi', ag.get _ (by omega)]⟩

private theorem ArrRel.set {a : Array (BitVec 16)} {tbl : Tbl} {base n : Nat} (ar : ArrRel a tbl base n)
    (i : Nat) (hi : i < n) (p : BitVec 16) (v : Nat) (hp : p.toNat = v) :
    ArrRel (a.setIfInBounds i p) (tbl.upd (base + i) v) base n := by
  have hs := ar.size
  have hinb := ar.inb
  refine ⟨by rw [Array.size_setIfInBounds]; exact ar.size, by rw [Tbl.size_upd]; exact ar.inb, ?_⟩
  intro j hj
  rw [getD_setIfInBounds, Tbl.get_upd]
  by_cases h : i = j
  · subst h; rw [if_pos ⟨rfl, by omega⟩, if_pos ⟨rfl, by omega⟩]; exact hp
  · rw [if_neg (fun hh => h hh.1), if_neg (fun hh => h (by omega))]; exact ar.val j hj

private theorem LenRel.frame {lc : T_lengthCodec} {tbl tbl' : Tbl} {L lo hi : Nat} (lr : LenRel lc tbl L)
    (ag : Agree tbl tbl' lo hi) (hd : L + 514 ≤ lo ∨ hi ≤ L) : LenRel lc tbl' L := by
  refine ⟨by rw [ag.size]; exact lr.inb, lr.csize, ?_, ?_, lr.lsize, lr.msize, ?_, ?_, lr.hbits,
    lr.high.frame _ _ ag (by omega)⟩
  · rw [ag.get _ (by omega)]; exact lr.c0
  · rw [ag.get _ (by omega)]; exact lr.c1
  · intro ps hps
    exact ⟨(lr.low ps hps).1, (lr.low ps hps).2.frame _ _ ag (by omega)⟩
  · intro ps hps
    exact ⟨(lr.mid ps hps).1, (lr.mid ps hps).2.frame _ _ ag (by omega)⟩

private theorem model_layout : ∀ i, i < 10 → posModelOff (4 + i) + 2 ^ posModelBits i ≤ 124 := by
  decide

private theorem DistRel.frame {dc : T_distCodec} {tbl tbl' : Tbl} {lo hi : Nat} (dr : DistRel dc tbl)
    (ag : Agree tbl tbl' lo hi) (hd : aDist + 396 ≤ lo ∨ hi ≤ aDist) : DistRel dc tbl' := by
  refine ⟨by rw [ag.size]; exact dr.inb, dr.ssize, ?_, dr.msize, ?_, dr.abits, ?_⟩
  · intro ls hls
    exact ⟨(dr.slot ls hls).1, (dr.slot ls hls).2.frame _ _ ag (by lay_omega)⟩
  · intro i hi'
    have := model_layout i hi'
    exact ⟨(dr.model i hi').1, (dr.model i hi').2.frame _ _ ag (by lay_omega)⟩
  · exact dr.align.frame _ _ ag (by lay_omega)

private theorem LitRel.frame {c : T_literalCodec} {tbl tbl' : Tbl} {n lo hi : Nat} (lr : LitRel c tbl n)
    (ag : Agree tbl tbl' lo hi) (hd : aLit + n ≤ lo ∨ hi ≤ aLit) : LitRel c tbl' n :=
  ⟨lr.size, by rw [ag.size]; exact lr.inb, fun i hi' => by rw [lr.val i hi', ag.get _ (by lay_omega)]⟩

private theorem Agree.ok_of {t t' : Tbl} {lo hi : Nat} (_ : Agree t t' lo hi) (h : t'.ok) : t'.ok := h

/-! ### `StRel` after an update of one component -/

section
variable {gs : T_state} {s : St} {tbl tbl' : Tbl} {p : Props}

private theorem StRel.upd_isMatch (sr : StRel gs s tbl p) (a' : Array (BitVec 16))
    (ag : Agree tbl tbl' aIsMatch (aIsMatch + 192)) (tok : tbl'.ok) (ar : ArrRel a' tbl' aIsMatch 192) :
    StRel { gs with isMatch := a' } s tbl' p := by
  exact { sr with
    isMatch := ar
    isRep := sr.isRep.frame ag (by lay_omega)
    isRepG0 := sr.isRepG0.frame ag (by lay_omega)
    isRepG1 := sr.isRepG1.frame ag (by lay_omega)
    isRepG2 := sr.isRepG2.frame ag (by lay_omega)
    isRepG0Long := sr.isRepG0Long.frame ag (by lay_omega)
    len := sr.len.frame ag (by lay_omega)
    repLen := sr.repLen.frame ag (by lay_omega)
    dist := sr.dist.frame ag (by lay_omega)
    lit := sr.lit.frame ag (by lay_omega)
    tok := tok }

private theorem StRel.upd_isRep (sr : StRel gs s tbl p) (a' : Array (BitVec 16))
    (ag : Agree tbl tbl' aIsRep (aIsRep + 12)) (tok : tbl'.ok) (ar : ArrRel a' tbl' aIsRep 12) :
    StRel { gs with isRep := a' } s tbl' p := by
  exact { sr with
    isMatch := sr.isMatch.frame ag (by lay_omega)
    isRep := ar
    isRepG0 := sr.isRepG0.frame ag (by lay_omega)
    isRepG1 := sr.isRepG1.frame ag (by lay_omega)
    isRepG2 := sr.isRepG2.frame ag (by lay_omega)
    isRepG0Long := sr.isRepG0Long.frame ag (by lay_omega)
    len := sr.len.frame ag (by lay_omega)
    repLen := sr.repLen.frame ag (by lay_omega)
    dist := sr.dist.frame ag (by lay_omega)
    lit := sr.lit.frame ag (by lay_omega)
    tok := tok }

private theorem StRel.upd_isRepG0 (sr : StRel gs s tbl p) (a' : Array (BitVec 16))
    (ag : Agree tbl tbl' aIsRepG0 (aIsRepG0 + 12)) (tok : tbl'.ok) (ar : ArrRel a' tbl' aIsRepG0 12) :
    StRel { gs with isRepG0 := a' } s tbl' p := by
  exact { sr with
    isMatch := sr.isMatch.frame ag (by lay_omega)
    isRep := sr.isRep.frame ag (by lay_omega)
    isRepG0 := ar
    isRepG1 := sr.isRepG1.frame ag (by lay_omega)
    isRepG2 := sr.isRepG2.frame ag (by lay_omega)
    isRepG0Long := sr.isRepG0Long.frame ag (by lay_omega)
    len := sr.len.frame ag (by lay_omega)
    repLen := sr.repLen.frame ag (by lay_omega)
    dist := sr.dist.frame ag (by lay_omega)
    lit := sr.lit.frame ag (by lay_omega)
    tok := tok }

private theorem StRel.upd_isRepG1 (sr : StRel gs s tbl p) (a' : Array (BitVec 16))
    (ag : Agree tbl tbl' aIsRepG1 (aIsRepG1 + 12)) (tok : tbl'.ok) (ar : ArrRel a' tbl' aIsRepG1 12) :
    StRel { gs with isRepG1 := a' } s tbl' p := by
  exact { sr with
    isMatch := sr.isMatch.frame ag (by lay_omega)
    isRep := sr.isRep.frame ag (by lay_omega)
    isRepG0 := sr.isRepG0.frame ag (by lay_omega)
    isRepG1 := ar
    isRepG2 := sr.isRepG2.frame ag (by lay_omega)
    isRepG0Long := sr.isRepG0Long.frame ag (by lay_omega)
    len := sr.len.frame ag (by lay_omega)
    repLen := sr.repLen.frame ag (by lay_omega)
    dist := sr.dist.frame ag (by lay_omega)
    lit := sr.lit.frame ag (by lay_omega)
    tok := tok }

private theorem StRel.upd_isRepG2 (sr : StRel gs s tbl p) (a' : Array (BitVec 16))
    (ag : Agree tbl tbl' aIsRepG2 (aIsRepG2 + 12)) (tok : tbl'.ok) (ar : ArrRel a' tbl' aIsRepG2 12) :
    StRel { gs with isRepG2 := a' } s tbl' p := by
  exact { sr with
    isMatch := sr.isMatch.frame ag (by lay_omega)
    isRep := sr.isRep.frame ag (by lay_omega)
    isRepG0 := sr.isRepG0.frame ag (by lay_omega)
    isRepG1 := sr.isRepG1.frame ag (by lay_omega)
    isRepG2 := ar
    isRepG0Long := sr.isRepG0Long.frame ag (by lay_omega)
    len := sr.len.frame ag (by lay_omega)
    repLen := sr.repLen.frame ag (by lay_omega)
    dist := sr.dist.frame ag (by lay_omega)
    lit := sr.lit.frame ag (by lay_omega)
    tok := tok }

private theorem StRel.upd_isRepG0Long (sr : StRel gs s tbl p) (a' : Array (BitVec 16))
    (ag : Agree tbl tbl' aIsRepG0Long (aIsRepG0Long + 192)) (tok : tbl'.ok) (ar : ArrRel a' tbl' aIsRepG0Long 192) :
    StRel { gs with isRepG0Long := a' } s tbl' p := by
  exact { sr with
    isMatch := sr.isMatch.frame ag (by lay_omega)
    isRep := sr.isRep.frame ag (by lay_omega)
    isRepG0 := sr.isRepG0.frame ag (by lay_omega)
    isRepG1 := sr.isRepG1.frame ag (by lay_omega)
    isRepG2 := sr.isRepG2.frame ag (by lay_omega)
    isRepG0Long := ar
    len := sr.len.frame ag (by lay_omega)
    repLen := sr.repLen.frame ag (by lay_omega)
    dist := sr.dist.frame ag (by lay_omega)
    lit := sr.lit.frame ag (by lay_omega)
    tok := tok }

private theorem StRel.upd_len (sr : StRel gs s tbl p) (c' : T_lengthCodec)
    (ag : Agree tbl tbl' aLen (aLen + 514)) (tok : tbl'.ok) (lr : LenRel c' tbl' aLen) :
    StRel { gs with lenCodec := c' } s tbl' p := by
  exact { sr with
    isMatch := sr.isMatch.frame ag (by lay_omega)
    isRep := sr.isRep.frame ag (by lay_omega)
    isRepG0 := sr.isRepG0.frame ag (by lay_omega)
    isRepG1 := sr.isRepG1.frame ag (by lay_omega)
    isRepG2 := sr.isRepG2.frame ag (by lay_omega)
    isRepG0Long := sr.isRepG0Long.frame ag (by lay_omega)
    len := lr
    repLen := sr.repLen.frame ag (by lay_omega)
    dist := sr.dist.frame ag (by lay_omega)
    lit := sr.lit.frame ag (by lay_omega)
    tok := tok }

private theorem StRel.upd_repLen (sr : StRel gs s tbl p) (c' : T_lengthCodec)
    (ag : Agree tbl tbl' aRepLen (aRepLen + 514)) (tok : tbl'.ok) (lr : LenRel c' tbl' aRepLen) :
    StRel { gs with repLenCodec := c' } s tbl' p := by
  exact { sr with
    isMatch := sr.isMatch.frame ag (by lay_omega)
    isRep := sr.isRep.frame ag (by lay_omega)
    isRepG0 := sr.isRepG0.frame ag (by lay_omega)
    isRepG1 := sr.isRepG1.frame ag (by lay_omega)
    isRepG2 := sr.isRepG2.frame ag (by lay_omega)
    isRepG0Long := sr.isRepG0Long.frame ag (by lay_omega)
    len := sr.len.frame ag (by lay_omega)
    repLen := lr
    dist := sr.dist.frame ag (by lay_omega)
    lit := sr.lit.frame ag (by lay_omega)
    tok := tok }

private theorem StRel.upd_dist (sr : StRel gs s tbl p) (c' : T_distCodec)
    (ag : Agree tbl tbl' aDist (aDist + 396)) (tok : tbl'.ok) (dr : DistRel c' tbl') :
    StRel { gs with distCodec := c' } s tbl' p := by
  exact { sr with
    isMatch := sr.isMatch.frame ag (by lay_omega)
    isRep := sr.isRep.frame ag (by lay_omega)
    isRepG0 := sr.isRepG0.frame ag (by lay_omega)
    isRepG1 := sr.isRepG1.frame ag (by lay_omega)
    isRepG2 := sr.isRepG2.frame ag (by lay_omega)
    isRepG0Long := sr.isRepG0Long.frame ag (by lay_omega)
    len := sr.len.frame ag (by lay_omega)
    repLen := sr.repLen.frame ag (by lay_omega)
    dist := dr
    lit := sr.lit.frame ag (by lay_omega)
    tok := tok }

private theorem StRel.upd_lit (sr : StRel gs s tbl p) (c' : T_literalCodec)
    (ag : Agree tbl tbl' aLit (aLit + 0x300 * 2 ^ (p.lc + p.lp))) (tok : tbl'.ok)
    (lr : LitRel c' tbl' (0x300 * 2 ^ (p.lc + p.lp))) :
    StRel { gs with litCodec := c' } s tbl' p := by
  exact { sr with
    isMatch := sr.isMatch.frame ag (by lay_omega)
    isRep := sr.isRep.frame ag (by lay_omega)
    isRepG0 := sr.isRepG0.frame ag (by lay_omega)
    isRepG1 := sr.isRepG1.frame ag (by lay_omega)
    isRepG2 := sr.isRepG2.frame ag (by lay_omega)
    isRepG0Long := sr.isRepG0Long.frame ag (by lay_omega)
    len := sr.len.frame ag (by lay_omega)
    repLen := sr.repLen.frame ag (by lay_omega)
    dist := sr.dist.frame ag (by lay_omega)
    lit := lr
    tok := tok }

/-- new state number and rep registers -/
private theorem StRel.set_regs (sr : StRel gs s tbl p) (rep' : Array (BitVec 32)) (st' : BitVec 32) (s' : St)
    (hsize : rep'.size = 4)
    (h0 : (rep'.getD 0 0#32).toNat = s'.r0) (h1 : (rep'.getD 1 0#32).toNat = s'.r1)
    (h2 : (rep'.getD 2 0#32).toNat = s'.r2) (h3 : (rep'.getD 3 0#32).toNat = s'.r3)
    (hst : st'.toNat = s'.st) (hlt : s'.st < 12) :
    StRel { gs with rep := rep', state := st' } s' tbl p :=
  { sr with st := hst, stlt := hlt, rsize := hsize, r0 := h0, r1 := h1, r2 := h2, r3 := h3 }

end

/-! ### composing the Go side along a path -/

/-- the Go result `res` follows the path `π`: ErrLimit where the checked encoder stops, `post` at the end otherwise -/
private def EncSpec (Lim : Nat) (tbl : Tbl) (e : Enc) (π : Path) (res : Go.Res (Go.Err × T_encoder))
    (post : T_encoder → Tbl → Enc → Prop) : Prop :=
  (encPathL Lim tbl e π = none → ∃ g', res = Go.Res.ok (Go.Err.named "ErrLimit", g')) ∧
  (∀ tbl' e', encPathL Lim tbl e π = some (tbl', e') → ∃ g', res = Go.Res.ok (Go.Err.nil, g') ∧ post g' tbl' e')

private theorem EncSpec.nil {Lim : Nat} {tbl : Tbl} {e : Enc} {res : Go.Res (Go.Err × T_encoder)}
    {post : T_encoder → Tbl → Enc → Prop} (h : ∃ g', res = Go.Res.ok (Go.Err.nil, g') ∧ post g' tbl e) :
    EncSpec Lim tbl e [] res post := by
  refine ⟨fun h' => by simp only [encPathL, reduceCtorEq] at h', fun tbl' e' h' => ?_⟩
  simp only [encPathL, Option.some.injEq, Prod.mk.injEq] at h'
  obtain ⟨rfl, rfl⟩ := h'
  exact h

private theorem EncSpec.cons {Lim : Nat} {tbl : Tbl} {e : Enc} {a : Nat} {b : Bool} {π : Path}
    {res : Go.Res (Go.Err × T_encoder)} {post : T_encoder → Tbl → Enc → Prop}
    (h : if (e.step ⟨some (tbl.get a), b⟩).out.length > e.out.length ∧ noRoom e Lim then
           ∃ g', res = Go.Res.ok (Go.Err.named "ErrLimit", g')
         else EncSpec Lim (tbl.upd a (pm.next (tbl.get a) b)) (e.step ⟨some (tbl.get a), b⟩) π res post) :
    EncSpec Lim tbl e ((.adaptive a, b) :: π) res post := by
  unfold EncSpec
  simp only [encPathL]
  split
  · rename_i hc
    rw [if_pos hc] at h
    exact ⟨fun _ => h, fun _ _ h' => by cases h'⟩
  · rename_i hc
    rw [if_neg hc] at h
    exact h

private theorem EncSpec.append {Lim : Nat} {tbl : Tbl} {e : Enc} {π₁ π₂ : Path}
    {res : Go.Res (Go.Err × T_encoder)} {post : T_encoder → Tbl → Enc → Prop}
    (h1 : encPathL Lim tbl e π₁ = none → ∃ g', res = Go.Res.ok (Go.Err.named "ErrLimit", g'))
    (h2 : ∀ tbl1 e1, encPathL Lim tbl e π₁ = some (tbl1, e1) → EncSpec Lim tbl1 e1 π₂ res post) :
    EncSpec Lim tbl e (π₁ ++ π₂) res post := by
  unfold EncSpec
  rw [encPathL_append]
  rcases hp : encPathL Lim tbl e π₁ with _ | ⟨tbl1, e1⟩
  · exact ⟨fun _ => h1 hp, fun _ _ h' => by cases h'⟩
  · exact h2 tbl1 e1 hp

/-- one bit coded with entry `i` of one of the six plain probability arrays; `upd` stores the array back -/
private def probStep (fuel : Nat) (e : T_encoder) (arr : Array (BitVec 16)) (i : Nat) (b : BitVec 32)
    (upd : T_encoder → Array (BitVec 16) → T_encoder) (K : Go.Err → T_encoder → Go.Res (Go.Err × T_encoder)) :
    Go.Res (Go.Err × T_encoder) :=
  if arr.size ≤ i then Go.Res.panic "index out of range" else
  Go.Res.bind (prob_Encode fuel (arr.getD i (0#16)) e.re b) (fun (r, m1, m2) =>
    let e := upd e (arr.setIfInBounds i m1)
    let e := { e with re := m2 }
    if (r != Go.Err.nil) then Go.Res.ok (r, e) else K r e)

private theorem probStep_spec (fuel : Nat) (ge : T_encoder) (arr : Array (BitVec 16)) (i : Nat) (bv : BitVec 32)
    (upd : T_encoder → Array (BitVec 16) → T_encoder) (K : Go.Err → T_encoder → Go.Res (Go.Err × T_encoder))
    (Lim : Nat) (tbl : Tbl) (en : Enc) (base n : Nat) (b : Bool) (π : Path) (post : T_encoder → Tbl → Enc → Prop)
    (rel : EncRel ge.re en Lim) (rest : en.Rest) (htbl : tbl.ok) (ar : ArrRel arr tbl base n) (hi : i < n)
    (hb : bv.getLsbD 0 = b) (hcl : en.cacheLen < 2 ^ 62) (hL : Lim < 2 ^ 63) (hfuel : en.cacheLen ≤ fuel)
    (hK : ∀ (arr' : Array (BitVec 16)) (g' : T_rangeEncoder) (tbl' : Tbl) (en' : Enc),
        ArrRel arr' tbl' base n → tbl'.ok → Agree tbl tbl' base (base + n) → EncRel g' en' Lim → en'.Rest →
        en'.cacheLen ≤ en.cacheLen + 1 →
        EncSpec Lim tbl' en' π (K Go.Err.nil { upd ge arr' with re := g' }) post) :
    EncSpec Lim tbl en ((.adaptive (base + i), b) :: π) (probStep fuel ge arr i bv upd K) post := by
  have hs := choice_step fuel (arr.getD i 0#16) ge.re en Lim bv tbl (base + i) rel rest htbl (ar.val i hi) hcl hL hfuel
  rw [hb] at hs
  have hsz : ¬ arr.size ≤ i := by rw [ar.size]; omega
  apply EncSpec.cons
  unfold probStep
  rw [if_neg hsz]
  split
  · rename_i hc
    rw [if_pos hc] at hs
    obtain ⟨g1, p1, hg⟩ := hs
    simp only [hg, Go.Res.bind_ok, errLimit_bne, if_true]
    exact ⟨_, rfl⟩
  · rename_i hc
    rw [if_neg hc] at hs
    obtain ⟨g1, p1, hg, rel1, rest1, hcl1, htbl1, hp1⟩ := hs
    simp only [hg, Go.Res.bind_ok, nil_bne, Bool.false_eq_true, if_false]
    exact hK _ g1 _ _ (ar.set i hi p1 _ hp1) htbl1 (Agree.upd _ _ _ _ _ (by omega) (by omega)) rel1 rest1 hcl1

/-! ### `encoder.writeMatch` in pieces -/

private def setRep (e : T_encoder) (i : Nat) (v : BitVec 32) : T_encoder :=
  { e with state := { e.state with rep := e.state.rep.setIfInBounds i v } }

private def getRep (e : T_encoder) (i : Nat) : BitVec 32 := e.state.rep.getD i (0#32)

private def wmRepLen (fuel : Nat) (e : T_encoder) (n posState : BitVec 32) : Go.Res (Go.Err × T_encoder) :=
  Go.Res.bind (lengthCodec_Encode fuel e.state.repLenCodec e.re n posState) (fun (r, m1, m2) =>
    let e := { e with state := { e.state with repLenCodec := m1 } }
    let e := { e with re := m2 }
    Go.Res.ok (r, e))

/-- the four ways the registers move for rep0 … rep3, then `updateStateRep` and the length -/
private def wmRep (fuel : Nat) (e : T_encoder) (k : Nat) (dist n posState : BitVec 32) : Go.Res (Go.Err × T_encoder) :=
  match k with
  | 0 => wmRepLen fuel { e with state := state_updateStateRep e.state } n posState
  | 1 =>
    let e := setRep e 1 (getRep e 0)
    let e := setRep e 0 dist
    wmRepLen fuel { e with state := state_updateStateRep e.state } n posState
  | 2 =>
    let e := setRep e 2 (getRep e 1)
    let e := setRep e 1 (getRep e 0)
    let e := setRep e 0 dist
    wmRepLen fuel { e with state := state_updateStateRep e.state } n posState
  | _ =>
    let e := setRep e 3 (getRep e 2)
    let e := setRep e 2 (getRep e 1)
    let e := setRep e 1 (getRep e 0)
    let e := setRep e 0 dist
    wmRepLen fuel { e with state := state_updateStateRep e.state } n posState

private def wmG2 (fuel : Nat) (e : T_encoder) (dist state n posState : BitVec 32) (g : BitVec 64) :
    Go.Res (Go.Err × T_encoder) :=
  probStep fuel e e.state.isRepG2 state.toNat (iverson (g != (2#64)))
    (fun e a => { e with state := { e.state with isRepG2 := a } })
    (fun _ e => if (iverson (g != (2#64)) == (1#32)) then wmRep fuel e 3 dist n posState
              else wmRep fuel e 2 dist n posState)

private def wmG1 (fuel : Nat) (e : T_encoder) (dist state n posState : BitVec 32) (g : BitVec 64) :
    Go.Res (Go.Err × T_encoder) :=
  probStep fuel e e.state.isRepG1 state.toNat (iverson (g != (1#64)))
    (fun e a => { e with state := { e.state with isRepG1 := a } })
    (fun _ e => if (iverson (g != (1#64)) == (1#32)) then wmG2 fuel e dist state n posState g
              else wmRep fuel e 1 dist n posState)

private def wmG0Long (fuel : Nat) (e : T_encoder) (m : T_match) (dist state2 n posState : BitVec 32) :
    Go.Res (Go.Err × T_encoder) :=
  probStep fuel e e.state.isRepG0Long state2.toNat (iverson (m.n != (1#64)))
    (fun e a => { e with state := { e.state with isRepG0Long := a } })
    (fun _ e => if (iverson (m.n != (1#64)) == (0#32)) then
                Go.Res.ok (Go.Err.nil, { e with state := state_updateStateShortRep e.state })
              else wmRep fuel e 0 dist n posState)

private def wmG0 (fuel : Nat) (e : T_encoder) (m : T_match) (dist state state2 n posState : BitVec 32) (g : BitVec 64) :
    Go.Res (Go.Err × T_encoder) :=
  probStep fuel e e.state.isRepG0 state.toNat (iverson (g != (0#64)))
    (fun e a => { e with state := { e.state with isRepG0 := a } })
    (fun _ e => if (iverson (g != (0#64)) == (0#32)) then wmG0Long fuel e m dist state2 n posState
              else wmG1 fuel e dist state n posState g)

private def wmDist (fuel : Nat) (e : T_encoder) (dist n : BitVec 32) : Go.Res (Go.Err × T_encoder) :=
  Go.Res.bind (distCodec_Encode fuel e.state.distCodec e.re dist n) (fun (r_24, m_25, m_26) =>
    let e := { e with state := { e.state with distCodec := m_25 } }
    let e := { e with re := m_26 }
    Go.Res.ok (r_24, e))

private def wmPlainTail (fuel : Nat) (e : T_encoder) (dist n posState : BitVec 32) : Go.Res (Go.Err × T_encoder) :=
  Go.Res.bind (lengthCodec_Encode fuel e.state.lenCodec e.re n posState) (fun (r_21, m_22, m_23) =>
    let e := { e with state := { e.state with lenCodec := m_22 } }
    let e := { e with re := m_23 }
    if (r_21 != Go.Err.nil) then Go.Res.ok (r_21, e)
    else wmDist fuel e dist n)

private def wmPlain (fuel : Nat) (e : T_encoder) (dist n posState : BitVec 32) : Go.Res (Go.Err × T_encoder) :=
  let t_16 := getRep e 2
  let t_17 := getRep e 1
  let t_18 := getRep e 0
  let e := setRep e 3 t_16
  let e := setRep e 2 t_17
  let e := setRep e 1 t_18
  let e := setRep e 0 dist
  wmPlainTail fuel { e with state := state_updateStateMatch e.state } dist n posState

private def wmAfterLoop (fuel : Nat) (e : T_encoder) (m : T_match) (dist state state2 posState : BitVec 32)
    (g : BitVec 64) : Go.Res (Go.Err × T_encoder) :=
  probStep fuel e e.state.isRep state.toNat (iverson (BitVec.slt g (4#64)))
    (fun e a => { e with state := { e.state with isRep := a } })
    (fun _ e => if (iverson (BitVec.slt g (4#64)) == (0#32)) then
                wmPlain fuel e dist (BitVec.setWidth 32 (m.n - (2#64))) posState
              else wmG0 fuel e m dist state state2 (BitVec.setWidth 32 (m.n - (2#64))) posState g)

private theorem writeMatch_eq (fuel : Nat) (e : T_encoder) (m : T_match) :
    encoder_writeMatch fuel e m =
      if (!((BitVec.sle (1#64) m.distance) && (BitVec.sle m.distance (4294967296#64)))) then
        Go.Res.panic "panic"
      else
        if ((!((BitVec.sle (2#64) m.n) && (BitVec.sle m.n (273#64)))) &&
            (!(((BitVec.setWidth 32 (m.distance - (1#64))) == (e.state.rep.getD 0 (0#32))) && (m.n == (1#64))))) then
          Go.Res.panic "panic"
        else
          probStep fuel e e.state.isMatch (state_states e.state (encoderDict_Pos e.dict)).2.1.toNat (1#32)
            (fun e a => { e with state := { e.state with isMatch := a } })
            (fun r e' =>
              Go.Res.bind (encoder_writeMatch_loop1 fuel e' m r (BitVec.setWidth 32 (m.distance - (1#64)))
                  (state_states e.state (encoderDict_Pos e.dict)).1 (state_states e.state (encoderDict_Pos e.dict)).2.1
                  (state_states e.state (encoderDict_Pos e.dict)).2.2 (0#64)) (fun lr =>
                match lr with
                | Sum.inl lr => Go.Res.ok lr
                | Sum.inr (e, m, _, dist, state, state2, posState, g) =>
                  wmAfterLoop fuel e m dist state state2 posState g)) := by
  rfl

/-! ### the pieces refine the pieces of `opEnc` -/

/-- what the theorems promise about the encoder after the operation -/
private def Post (Lim : Nat) (p : Props) (s' : St) (dict : T_encoderDict) : T_encoder → Tbl → Enc → Prop :=
  fun g' tbl' e' => StRel g'.state s' tbl' p ∧ EncRel g'.re e' Lim ∧ e'.Rest ∧ g'.dict = dict

private theorem wmRepLen_spec (fuel : Nat) (ge : T_encoder) (n posState : BitVec 32) (s' : St) (tbl : Tbl) (p : Props)
    (en : Enc) (Lim nn ps : Nat)
    (sr : StRel ge.state s' tbl p) (rel : EncRel ge.re en Lim) (rest : en.Rest)
    (hnn : n.toNat = nn) (hn : nn ≤ 271) (hps : posState.toNat = ps) (hps16 : ps < 16)
    (hcl : en.cacheLen + 200 < 2 ^ 62) (hL : Lim < 2 ^ 63) (hfuel : en.cacheLen + 200 ≤ fuel) :
    EncSpec Lim tbl en (lenEnc aRepLen ps nn) (wmRepLen fuel ge n posState) (Post Lim p s' ge.dict) := by
  subst hnn hps
  have h := lengthCodec_Encode_refines fuel ge.state.repLenCodec ge.re en Lim n posState tbl aRepLen rel rest sr.tok
    sr.repLen hn hps16 hcl hL hfuel
  unfold EncSpec wmRepLen
  rcases hp : encPathL Lim tbl en (lenEnc aRepLen posState.toNat n.toNat) with _ | ⟨tbl1, e1⟩
  · rw [hp] at h
    obtain ⟨lc', g', hg⟩ := h
    refine ⟨fun _ => ?_, fun _ _ h' => by cases h'⟩
    simp only [hg, Go.Res.bind_ok]
    exact ⟨_, rfl⟩
  · rw [hp] at h
    obtain ⟨lc', g', hg, rel1, rest1, htbl1, _, lr1⟩ := h
    refine ⟨fun h' => (by cases h'), fun tbl' e' h' => ?_⟩
    cases h'
    have ag := encPathL_frame Lim _ _ _ _ _ _ _ (lenEnc_in aRepLen posState.toNat n.toNat hps16) hp
    simp only [hg, Go.Res.bind_ok]
    exact ⟨_, rfl, sr.upd_repLen lc' ag htbl1 lr1, rel1, rest1, rfl⟩

private theorem rep_get (r : Array (BitVec 32)) (hs : r.size = 4) (i j : Nat) (hi : i < 4) (v : BitVec 32) :
    (r.setIfInBounds i v).getD j (0#32) = if i = j then v else r.getD j (0#32) := by
  rw [getD_setIfInBounds]
  by_cases h : i = j
  · rw [if_pos ⟨h, by omega⟩, if_pos h]
  · rw [if_neg (fun hh => h hh.1), if_neg h]

private theorem updRep_lt (x : Nat) : updRep x < 12 := by unfold updRep; split <;> omega
private theorem updMatch_lt (x : Nat) : updMatch x < 12 := by unfold updMatch; split <;> omega
private theorem updShortRep_lt (x : Nat) : updShortRep x < 12 := by unfold updShortRep; split <;> omega
private theorem updLit_lt (x : Nat) (h : x < 12) : updLit x < 12 := by unfold updLit; split <;> [omega; (split <;> omega)]

private theorem StRel.updRep' {gs : T_state} {s : St} {tbl : Tbl} {p : Props} (sr : StRel gs s tbl p)
    (rep' : Array (BitVec 32)) (s' : St) (hsize : rep'.size = 4)
    (h0 : (rep'.getD 0 0#32).toNat = s'.r0) (h1 : (rep'.getD 1 0#32).toNat = s'.r1)
    (h2 : (rep'.getD 2 0#32).toNat = s'.r2) (h3 : (rep'.getD 3 0#32).toNat = s'.r3)
    (hst : s'.st = updRep s.st) :
    StRel (state_updateStateRep { gs with rep := rep' }) s' tbl p := by
  rw [updateStateRep_spec]
  have hlt := updRep_lt s.st
  refine sr.set_regs rep' _ s' hsize h0 h1 h2 h3 ?_ (by rw [hst]; exact hlt)
  show (BitVec.ofNat 32 (updRep gs.state.toNat)).toNat = s'.st
  rw [sr.st, hst, BitVec.toNat_ofNat]
  omega

private theorem wmRep_spec (fuel : Nat) (ge : T_encoder) (k : Nat) (dist n posState : BitVec 32) (s : St) (tbl : Tbl)
    (p : Props) (en : Enc) (Lim nn ps len : Nat)
    (sr : StRel ge.state s tbl p) (rel : EncRel ge.re en Lim) (rest : en.Rest)
    (hk : k < 4) (hdist : dist.toNat = s.rep k)
    (hnn : n.toNat = nn) (hn : nn ≤ 271) (hps : posState.toNat = ps) (hps16 : ps < 16)
    (hcl : en.cacheLen + 200 < 2 ^ 62) (hL : Lim < 2 ^ 63) (hfuel : en.cacheLen + 200 ≤ fuel) :
    EncSpec Lim tbl en (lenEnc aRepLen ps nn) (wmRep fuel ge k dist n posState)
      (Post Lim p (s.apply (.rep k len)) ge.dict) := by
  have hs := sr.rsize
  have e0 := sr.r0
  have e1 := sr.r1
  have e2 := sr.r2
  have e3 := sr.r3
  have hk' : k = 0 ∨ k = 1 ∨ k = 2 ∨ k = 3 := by omega
  rcases hk' with rfl | rfl | rfl | rfl
  · have sr' : StRel (state_updateStateRep { ge.state with rep := ge.state.rep }) (s.apply (.rep 0 len)) tbl p :=
      sr.updRep' _ _ hs e0 e1 e2 e3 rfl
    exact wmRepLen_spec fuel _ n posState _ tbl p en Lim nn ps sr' rel rest hnn hn hps hps16 hcl hL hfuel
  all_goals
    simp only [wmRep, setRep, getRep]
    refine wmRepLen_spec fuel _ n posState _ tbl p en Lim nn ps ?_ rel rest hnn hn hps hps16 hcl hL hfuel
    refine sr.updRep' _ _ (by simp only [Array.size_setIfInBounds]; exact hs) ?_ ?_ ?_ ?_ rfl
    all_goals simp (config := { decide := true }) only [rep_get, hs, Array.size_setIfInBounds, St.apply, St.rep,
        if_true, if_false] at hdist ⊢
    all_goals first | exact hdist | exact e0 | exact e1 | exact e2 | exact e3

private theorem iverson_lsb (c : Bool) : (iverson c).getLsbD 0 = c := by cases c <;> decide
private theorem iverson_eq1 (c : Bool) : (iverson c == (1#32)) = c := by cases c <;> decide
private theorem iverson_eq0 (c : Bool) : (iverson c == (0#32)) = !c := by cases c <;> decide

private theorem wmG2_spec (fuel : Nat) (ge : T_encoder) (dist state n posState : BitVec 32) (g : BitVec 64) (s : St)
    (tbl : Tbl) (p : Props) (en : Enc) (Lim nn ps len k : Nat)
    (sr : StRel ge.state s tbl p) (rel : EncRel ge.re en Lim) (rest : en.Rest)
    (hst : state.toNat = s.st) (hk : k = 2 ∨ k = 3) (hg : g = BitVec.ofNat 64 k) (hdist : dist.toNat = s.rep k)
    (hnn : n.toNat = nn) (hn : nn ≤ 271) (hps : posState.toNat = ps) (hps16 : ps < 16)
    (hcl : en.cacheLen + 201 < 2 ^ 62) (hL : Lim < 2 ^ 63) (hfuel : en.cacheLen + 201 ≤ fuel) :
    EncSpec Lim tbl en ((.adaptive (aIsRepG2 + s.st), decide (k = 3)) :: lenEnc aRepLen ps nn)
      (wmG2 fuel ge dist state n posState g) (Post Lim p (s.apply (.rep k len)) ge.dict) := by
  have hb : (g != (2#64)) = decide (k = 3) := by rcases hk with rfl | rfl <;> subst hg <;> decide
  unfold wmG2
  rw [← hst]
  refine probStep_spec fuel ge _ _ _ _ _ Lim tbl en aIsRepG2 12 _ _ _ rel rest sr.tok sr.isRepG2
    (by rw [hst]; exact sr.stlt) (by rw [iverson_lsb, hb]) (by omega) hL (by omega) ?_
  intro arr' g' tbl' en' ar tok ag rel' rest' hcl'
  have sr' := sr.upd_isRepG2 arr' ag tok ar
  rw [iverson_eq1, hb]
  rcases hk with rfl | rfl
  · rw [if_neg (show ¬ (decide (2 = 3) = true) by decide)]
    exact wmRep_spec fuel _ 2 dist n posState s tbl' p en' Lim nn ps len sr' rel' rest' (by omega) hdist hnn hn hps hps16
      (by omega) hL (by omega)
  · rw [if_pos (show decide (3 = 3) = true by decide)]
    exact wmRep_spec fuel _ 3 dist n posState s tbl' p en' Lim nn ps len sr' rel' rest' (by omega) hdist hnn hn hps hps16
      (by omega) hL (by omega)

private theorem wmG1_spec (fuel : Nat) (ge : T_encoder) (dist state n posState : BitVec 32) (g : BitVec 64) (s : St)
    (tbl : Tbl) (p : Props) (en : Enc) (Lim nn ps len k : Nat)
    (sr : StRel ge.state s tbl p) (rel : EncRel ge.re en Lim) (rest : en.Rest)
    (hst : state.toNat = s.st) (hk : k = 1 ∨ k = 2 ∨ k = 3) (hg : g = BitVec.ofNat 64 k) (hdist : dist.toNat = s.rep k)
    (hnn : n.toNat = nn) (hn : nn ≤ 271) (hps : posState.toNat = ps) (hps16 : ps < 16)
    (hcl : en.cacheLen + 202 < 2 ^ 62) (hL : Lim < 2 ^ 63) (hfuel : en.cacheLen + 202 ≤ fuel) :
    EncSpec Lim tbl en ((.adaptive (aIsRepG1 + s.st), decide (k ≠ 1)) ::
        (if k = 1 then lenEnc aRepLen ps nn
         else (.adaptive (aIsRepG2 + s.st), decide (k = 3)) :: lenEnc aRepLen ps nn))
      (wmG1 fuel ge dist state n posState g) (Post Lim p (s.apply (.rep k len)) ge.dict) := by
  have hb : (g != (1#64)) = decide (k ≠ 1) := by rcases hk with rfl | rfl | rfl <;> subst hg <;> decide
  unfold wmG1
  rw [← hst]
  refine probStep_spec fuel ge _ _ _ _ _ Lim tbl en aIsRepG1 12 _ _ _ rel rest sr.tok sr.isRepG1
    (by rw [hst]; exact sr.stlt) (by rw [iverson_lsb, hb]) (by omega) hL (by omega) ?_
  intro arr' g' tbl' en' ar tok ag rel' rest' hcl'
  have sr' := sr.upd_isRepG1 arr' ag tok ar
  rw [iverson_eq1, hb, hst]
  rcases hk with rfl | hk
  · rw [if_pos (rfl : 1 = 1), if_neg (show ¬ (decide (1 ≠ 1) = true) by decide)]
    exact wmRep_spec fuel _ 1 dist n posState s tbl' p en' Lim nn ps len sr' rel' rest' (by omega) hdist hnn hn hps hps16
      (by omega) hL (by omega)
  · have hk1 : k ≠ 1 := by omega
    rw [if_neg hk1, if_pos (show decide (k ≠ 1) = true from decide_eq_true hk1)]
    exact wmG2_spec fuel _ dist state n posState g s tbl' p en' Lim nn ps len k sr' rel' rest' hst hk hg hdist hnn hn
      hps hps16 (by omega) hL (by omega)

private theorem ofNat64_bne (a b : Nat) (ha : a < 2 ^ 64) (hb : b < 2 ^ 64) :
    (BitVec.ofNat 64 a != BitVec.ofNat 64 b) = decide (a ≠ b) := by
  by_cases h : a = b
  · subst h; simp
  · have : BitVec.ofNat 64 a ≠ BitVec.ofNat 64 b := fun hh => by
      have := congrArg BitVec.toNat hh
      simp only [BitVec.toNat_ofNat] at this
      omega
    rw [bne_iff_ne.2 this, decide_eq_true h]

private theorem StRel.updShortRep' {gs : T_state} {s : St} {tbl : Tbl} {p : Props} (sr : StRel gs s tbl p) :
    StRel (state_updateStateShortRep gs) (s.apply .shortRep) tbl p := by
  rw [updateStateShortRep_spec]
  have hlt := updShortRep_lt s.st
  refine sr.set_regs gs.rep _ _ sr.rsize sr.r0 sr.r1 sr.r2 sr.r3 ?_ hlt
  show (BitVec.ofNat 32 (updShortRep gs.state.toNat)).toNat = updShortRep s.st
  rw [sr.st, BitVec.toNat_ofNat]
  omega

/-- the operation found for register index `k` (4 = none) -/
private def opOf (k nlen d : Nat) : RawOp :=
  if k = 0 then (if nlen = 1 then .shortRep else .rep 0 nlen) else if k < 4 then .rep k nlen else .mtch nlen d

private def pG0L (st ps nlen : Nat) : Path :=
  (.adaptive (aIsRepG0Long + st * 16 + ps), decide (nlen ≠ 1)) :: (if nlen = 1 then [] else lenEnc aRepLen ps (nlen - 2))

private def pG1 (st ps k nlen : Nat) : Path :=
  (.adaptive (aIsRepG1 + st), decide (k ≠ 1)) ::
    (if k = 1 then lenEnc aRepLen ps (nlen - 2)
     else (.adaptive (aIsRepG2 + st), decide (k = 3)) :: lenEnc aRepLen ps (nlen - 2))

private def pG0 (st ps k nlen : Nat) : Path :=
  (.adaptive (aIsRepG0 + st), decide (k ≠ 0)) :: (if k = 0 then pG0L st ps nlen else pG1 st ps k nlen)

private def pTail (st ps k nlen d : Nat) : Path :=
  (.adaptive (aIsRep + st), decide (k < 4)) ::
    (if k < 4 then pG0 st ps k nlen else lenEnc aLen ps (nlen - 2) ++ distEnc d (nlen - 2))

private theorem wmG0Long_spec (fuel : Nat) (ge : T_encoder) (m : T_match) (dist state2 n posState : BitVec 32) (s : St)
    (tbl : Tbl) (p : Props) (en : Enc) (Lim ps nlen : Nat)
    (sr : StRel ge.state s tbl p) (rel : EncRel ge.re en Lim) (rest : en.Rest)
    (hst2 : state2.toNat = s.st * 16 + ps) (hdist : dist.toNat = s.rep 0)
    (hmn : m.n = BitVec.ofNat 64 nlen) (hlen : nlen ≤ 273)
    (hnn : nlen ≠ 1 → n.toNat = nlen - 2) (hps : posState.toNat = ps) (hps16 : ps < 16)
    (hcl : en.cacheLen + 201 < 2 ^ 62) (hL : Lim < 2 ^ 63) (hfuel : en.cacheLen + 201 ≤ fuel) :
    EncSpec Lim tbl en (pG0L s.st ps nlen) (wmG0Long fuel ge m dist state2 n posState)
      (Post Lim p (s.apply (opOf 0 nlen dist.toNat)) ge.dict) := by
  have hb : (m.n != (1#64)) = decide (nlen ≠ 1) := by
    rw [hmn]; exact ofNat64_bne nlen 1 (by omega) (by decide)
  have hlt := sr.stlt
  unfold wmG0Long pG0L
  rw [Nat.add_assoc, ← hst2]
  refine probStep_spec fuel ge _ _ _ _ _ Lim tbl en aIsRepG0Long 192 _ _ _ rel rest sr.tok sr.isRepG0Long
    (by rw [hst2]; omega) (by rw [iverson_lsb, hb]) (by omega) hL (by omega) ?_
  intro arr' g' tbl' en' ar tok ag rel' rest' hcl'
  have sr' := sr.upd_isRepG0Long arr' ag tok ar
  rw [iverson_eq0, hb]
  by_cases h1 : nlen = 1
  · subst h1
    rw [if_pos (rfl : 1 = 1), if_pos (show (!decide (1 ≠ 1)) = true by decide)]
    exact EncSpec.nil ⟨_, rfl, sr'.updShortRep', rel', rest', rfl⟩
  · have hop : opOf 0 nlen dist.toNat = .rep 0 nlen := by unfold opOf; rw [if_pos rfl, if_neg h1]
    rw [if_neg h1, if_neg (show ¬ ((!decide (nlen ≠ 1)) = true) by simpa using h1), hop]
    exact wmRep_spec fuel _ 0 dist n posState s tbl' p en' Lim _ ps nlen sr' rel' rest' (by omega) hdist (hnn h1)
      (by omega) hps hps16 (by omega) hL (by omega)

private theorem wmG0_spec (fuel : Nat) (ge : T_encoder) (m : T_match) (dist state state2 n posState : BitVec 32)
    (g : BitVec 64) (s : St) (tbl : Tbl) (p : Props) (en : Enc) (Lim ps nlen k : Nat)
    (sr : StRel ge.state s tbl p) (rel : EncRel ge.re en Lim) (rest : en.Rest)
    (hst : state.toNat = s.st) (hst2 : state2.toNat = s.st * 16 + ps)
    (hk : k < 4) (hg : g = BitVec.ofNat 64 k) (hdist : dist.toNat = s.rep k)
    (hmn : m.n = BitVec.ofNat 64 nlen) (hlen : nlen ≤ 273) (hshort : nlen = 1 → k = 0) (hlen1 : 1 ≤ nlen)
    (hnn : nlen ≠ 1 → n.toNat = nlen - 2) (hps : posState.toNat = ps) (hps16 : ps < 16)
    (hcl : en.cacheLen + 203 < 2 ^ 62) (hL : Lim < 2 ^ 63) (hfuel : en.cacheLen + 203 ≤ fuel) :
    EncSpec Lim tbl en (pG0 s.st ps k nlen) (wmG0 fuel ge m dist state state2 n posState g)
      (Post Lim p (s.apply (opOf k nlen dist.toNat)) ge.dict) := by
  have hb : (g != (0#64)) = decide (k ≠ 0) := by
    rw [hg]; exact ofNat64_bne k 0 (by omega) (by decide)
  unfold wmG0 pG0
  rw [← hst]
  refine probStep_spec fuel ge _ _ _ _ _ Lim tbl en aIsRepG0 12 _ _ _ rel rest sr.tok sr.isRepG0
    (by rw [hst]; exact sr.stlt) (by rw [iverson_lsb, hb]) (by omega) hL (by omega) ?_
  intro arr' g' tbl' en' ar tok ag rel' rest' hcl'
  have sr' := sr.upd_isRepG0 arr' ag tok ar
  rw [iverson_eq0, hb, hst]
  by_cases h0 : k = 0
  · subst h0
    rw [if_pos (rfl : 0 = 0), if_pos (show (!decide (0 ≠ 0)) = true by decide)]
    exact wmG0Long_spec fuel _ m dist state2 n posState s tbl' p en' Lim ps nlen sr' rel' rest' hst2 hdist hmn hlen hnn
      hps hps16 (by omega) hL (by omega)
  · have hop : opOf k nlen dist.toNat = .rep k nlen := by unfold opOf; rw [if_neg h0, if_pos hk]
    have h1 : nlen ≠ 1 := fun h => h0 (hshort h)
    rw [if_neg h0, if_neg (show ¬ ((!decide (k ≠ 0)) = true) by simpa using h0), hop]
    unfold pG1
    exact wmG1_spec fuel _ dist state n posState g s tbl' p en' Lim _ ps nlen k sr' rel' rest' hst (by omega) hg hdist
      (hnn h1) (by omega) hps hps16 (by omega) hL (by omega)

private theorem wmDist_spec (fuel : Nat) (ge : T_encoder) (dist n : BitVec 32) (s' : St) (tbl : Tbl) (p : Props)
    (en : Enc) (Lim d nn : Nat)
    (sr : StRel ge.state s' tbl p) (rel : EncRel ge.re en Lim) (rest : en.Rest)
    (hd : dist.toNat = d) (hnn : n.toNat = nn)
    (hcl : en.cacheLen + 300 < 2 ^ 62) (hL : Lim < 2 ^ 63) (hfuel : en.cacheLen + 300 ≤ fuel) :
    EncSpec Lim tbl en (distEnc d nn) (wmDist fuel ge dist n) (Post Lim p s' ge.dict) := by
  subst hd hnn
  have h := distCodec_Encode_refines fuel ge.state.distCodec ge.re en Lim dist n tbl rel rest sr.tok sr.dist hcl hL hfuel
  unfold EncSpec wmDist
  rcases hp : encPathL Lim tbl en (distEnc dist.toNat n.toNat) with _ | ⟨tbl1, e1⟩
  · rw [hp] at h
    obtain ⟨dc', g', hg⟩ := h
    refine ⟨fun _ => ?_, fun _ _ h' => by cases h'⟩
    simp only [hg, Go.Res.bind_ok]
    exact ⟨_, rfl⟩
  · rw [hp] at h
    obtain ⟨dc', g', hg, rel1, rest1, htbl1, _, dr1⟩ := h
    refine ⟨fun h' => (by cases h'), fun tbl' e' h' => ?_⟩
    cases h'
    have ag := encPathL_frame Lim _ _ _ _ _ _ _ (distEnc_in dist.toNat n.toNat dist.isLt) hp
    simp only [hg, Go.Res.bind_ok]
    exact ⟨_, rfl, sr.upd_dist dc' ag htbl1 dr1, rel1, rest1, rfl⟩

private theorem wmPlainTail_spec (fuel : Nat) (ge : T_encoder) (dist n posState : BitVec 32) (s' : St) (tbl : Tbl)
    (p : Props) (en : Enc) (Lim d nn ps : Nat)
    (sr : StRel ge.state s' tbl p) (rel : EncRel ge.re en Lim) (rest : en.Rest)
    (hd : dist.toNat = d) (hnn : n.toNat = nn) (hn : nn ≤ 271) (hps : posState.toNat = ps) (hps16 : ps < 16)
    (hcl : en.cacheLen + 320 < 2 ^ 62) (hL : Lim < 2 ^ 63) (hfuel : en.cacheLen + 320 ≤ fuel) :
    EncSpec Lim tbl en (lenEnc aLen ps nn ++ distEnc d nn) (wmPlainTail fuel ge dist n posState)
      (Post Lim p s' ge.dict) := by
  subst hnn hps
  have h := lengthCodec_Encode_refines fuel ge.state.lenCodec ge.re en Lim n posState tbl aLen rel rest sr.tok
    sr.len hn hps16 (by omega) hL (by omega)
  apply EncSpec.append
  · intro hp
    rw [hp] at h
    obtain ⟨lc', g', hg⟩ := h
    unfold wmPlainTail
    simp only [hg, Go.Res.bind_ok, errLimit_bne, if_true]
    exact ⟨_, rfl⟩
  · intro tbl1 e1 hp
    rw [hp] at h
    obtain ⟨lc', g', hg, rel1, rest1, htbl1, hcl1, lr1⟩ := h
    have ag := encPathL_frame Lim _ _ _ _ _ _ _ (lenEnc_in aLen posState.toNat n.toNat hps16) hp
    unfold wmPlainTail
    simp only [hg, Go.Res.bind_ok, nil_bne, Bool.false_eq_true, if_false]
    exact wmDist_spec fuel _ dist n s' tbl1 p e1 Lim d n.toNat (sr.upd_len lc' ag htbl1 lr1) rel1 rest1 hd rfl
      (by omega) hL (by omega)

private theorem StRel.updMatch' {gs : T_state} {s : St} {tbl : Tbl} {p : Props} (sr : StRel gs s tbl p)
    (rep' : Array (BitVec 32)) (s' : St) (hsize : rep'.size = 4)
    (h0 : (rep'.getD 0 0#32).toNat = s'.r0) (h1 : (rep'.getD 1 0#32).toNat = s'.r1)
    (h2 : (rep'.getD 2 0#32).toNat = s'.r2) (h3 : (rep'.getD 3 0#32).toNat = s'.r3)
    (hst : s'.st = updMatch s.st) :
    StRel (state_updateStateMatch { gs with rep := rep' }) s' tbl p := by
  rw [updateStateMatch_spec]
  have hlt := updMatch_lt s.st
  refine sr.set_regs rep' _ s' hsize h0 h1 h2 h3 ?_ (by rw [hst]; exact hlt)
  show (BitVec.ofNat 32 (updMatch gs.state.toNat)).toNat = s'.st
  rw [sr.st, hst, BitVec.toNat_ofNat]
  omega

private theorem wmPlain_spec (fuel : Nat) (ge : T_encoder) (dist n posState : BitVec 32) (s : St) (tbl : Tbl)
    (p : Props) (en : Enc) (Lim d nn ps nlen : Nat)
    (sr : StRel ge.state s tbl p) (rel : EncRel ge.re en Lim) (rest : en.Rest)
    (hd : dist.toNat = d) (hnn : n.toNat = nn) (hn : nn ≤ 271) (hps : posState.toNat = ps) (hps16 : ps < 16)
    (hcl : en.cacheLen + 320 < 2 ^ 62) (hL : Lim < 2 ^ 63) (hfuel : en.cacheLen + 320 ≤ fuel) :
    EncSpec Lim tbl en (lenEnc aLen ps nn ++ distEnc d nn) (wmPlain fuel ge dist n posState)
      (Post Lim p (s.apply (.mtch nlen d)) ge.dict) := by
  have hs := sr.rsize
  have e0 := sr.r0
  have e1 := sr.r1
  have e2 := sr.r2
  simp only [wmPlain, setRep, getRep]
  refine wmPlainTail_spec fuel _ dist n posState _ tbl p en Lim d nn ps ?_ rel rest hd hnn hn hps hps16 hcl hL hfuel
  refine sr.updMatch' _ _ (by simp only [Array.size_setIfInBounds]; exact hs) ?_ ?_ ?_ ?_ rfl
  all_goals simp (config := { decide := true }) only [rep_get, hs, Array.size_setIfInBounds, St.apply,
      if_true, if_false]
  all_goals first | exact hd | exact e0 | exact e1 | exact e2

private theorem ofNat64_slt4 (k : Nat) (hk : k ≤ 4) : BitVec.slt (BitVec.ofNat 64 k) (4#64) = decide (k < 4) := by
  have hk' : k = 0 ∨ k = 1 ∨ k = 2 ∨ k = 3 ∨ k = 4 := by omega
  rcases hk' with rfl | rfl | rfl | rfl | rfl <;> decide

private theorem wmAfterLoop_spec (fuel : Nat) (ge : T_encoder) (m : T_match) (dist state state2 posState : BitVec 32)
    (g : BitVec 64) (s : St) (tbl : Tbl) (p : Props) (en : Enc) (Lim ps nlen k d : Nat)
    (sr : StRel ge.state s tbl p) (rel : EncRel ge.re en Lim) (rest : en.Rest)
    (hst : state.toNat = s.st) (hst2 : state2.toNat = s.st * 16 + ps)
    (hk : k ≤ 4) (hg : g = BitVec.ofNat 64 k) (hdd : dist.toNat = d) (hdist : k < 4 → s.rep k = d)
    (hmn : m.n = BitVec.ofNat 64 nlen) (hlen : nlen ≤ 273) (hshort : nlen = 1 → k = 0) (hlen1 : 1 ≤ nlen)
    (hps : posState.toNat = ps) (hps16 : ps < 16)
    (hcl : en.cacheLen + 330 < 2 ^ 62) (hL : Lim < 2 ^ 63) (hfuel : en.cacheLen + 330 ≤ fuel) :
    EncSpec Lim tbl en (pTail s.st ps k nlen d) (wmAfterLoop fuel ge m dist state state2 posState g)
      (Post Lim p (s.apply (opOf k nlen d)) ge.dict) := by
  subst hdd
  have hb : BitVec.slt g (4#64) = decide (k < 4) := by rw [hg]; exact ofNat64_slt4 k hk
  have hnn : nlen ≠ 1 → (BitVec.setWidth 32 (m.n - (2#64))).toNat = nlen - 2 := by
    intro h1
    rw [hmn]
    simp only [BitVec.toNat_setWidth, BitVec.toNat_sub, BitVec.toNat_ofNat]
    omega
  unfold wmAfterLoop pTail
  rw [← hst]
  refine probStep_spec fuel ge _ _ _ _ _ Lim tbl en aIsRep 12 _ _ _ rel rest sr.tok sr.isRep
    (by rw [hst]; exact sr.stlt) (by rw [iverson_lsb, hb]) (by omega) hL (by omega) ?_
  intro arr' g' tbl' en' ar tok ag rel' rest' hcl'
  have sr' := sr.upd_isRep arr' ag tok ar
  rw [iverson_eq0, hb, hst]
  by_cases h4 : k < 4
  · rw [if_pos h4, if_neg (show ¬ ((!decide (k < 4)) = true) by simpa using h4)]
    exact wmG0_spec fuel _ m dist state state2 _ posState g s tbl' p en' Lim ps nlen k sr' rel' rest' hst hst2 h4 hg
      (hdist h4).symm hmn hlen hshort hlen1 hnn hps hps16 (by omega) hL (by omega)
  · have hop : opOf k nlen dist.toNat = .mtch nlen dist.toNat := by
      unfold opOf; rw [if_neg (by omega), if_neg h4]
    have h1 : nlen ≠ 1 := fun h => by have := hshort h; omega
    rw [if_neg h4, if_pos (show (!decide (k < 4)) = true by simpa using h4), hop]
    exact wmPlain_spec fuel _ dist _ posState s tbl' p en' Lim dist.toNat (nlen - 2) ps nlen sr' rel' rest' rfl (hnn h1)
      (by omega) hps hps16 (by omega) hL (by omega)

/-! ### the search through the rep registers -/

private theorem ofNat64_toInt_small : ∀ j, j < 4 → (BitVec.ofNat 64 j).toInt.toNat = j ∧ ¬ (BitVec.ofNat 64 j).toInt < 0 := by
  decide

private theorem wmLoop_spec (e : T_encoder) (m : T_match) (err : Go.Err) (dist state state2 posState : BitVec 32)
    (hsz : e.state.rep.size = 4) : ∀ (r j fuel : Nat), j + r = 4 → r + 1 ≤ fuel →
    ∃ k, j ≤ k ∧ k ≤ 4 ∧
      encoder_writeMatch_loop1 fuel e m err dist state state2 posState (BitVec.ofNat 64 j)
        = Go.Res.ok (Sum.inr (e, m, err, dist, state, state2, posState, BitVec.ofNat 64 k)) ∧
      (∀ i, j ≤ i → i < k → e.state.rep.getD i (0#32) ≠ dist) ∧ (k < 4 → e.state.rep.getD k (0#32) = dist) := by
  intro r
  induction r with
  | zero =>
    intro j fuel hj hf
    obtain ⟨f, rfl⟩ : ∃ f, fuel = f + 1 := ⟨fuel - 1, by omega⟩
    obtain rfl : j = 4 := by omega
    refine ⟨4, Nat.le_refl _, Nat.le_refl _, ?_, fun i h1 h2 => by omega, fun h => by omega⟩
    rw [encoder_writeMatch_loop1, if_neg (by decide)]
  | succ r ih =>
    intro j fuel hj hf
    obtain ⟨f, rfl⟩ : ∃ f, fuel = f + 1 := ⟨fuel - 1, by omega⟩
    have hj4 : j < 4 := by omega
    have hslt : BitVec.slt (BitVec.ofNat 64 j) (4#64) = true := by
      rw [ofNat64_slt4 j (by omega)]; exact decide_eq_true hj4
    obtain ⟨ht1, ht2⟩ := ofNat64_toInt_small j hj4
    by_cases heq : e.state.rep.getD j (0#32) = dist
    · refine ⟨j, Nat.le_refl _, by omega, ?_, fun i h1 h2 => by omega, fun _ => heq⟩
      rw [encoder_writeMatch_loop1, if_pos hslt]
      simp only [ht1, ht2, false_or, hsz, if_neg (show ¬ 4 ≤ j by omega)]
      rw [if_pos (by rw [heq]; exact beq_self_eq_true _)]
    · obtain ⟨k, hk1, hk2, hk3, hk4, hk5⟩ := ih (j + 1) f (by omega) (by omega)
      refine ⟨k, by omega, hk2, ?_, ?_, hk5⟩
      · rw [encoder_writeMatch_loop1, if_pos hslt]
        simp only [ht1, ht2, false_or, hsz, if_neg (show ¬ 4 ≤ j by omega)]
        rw [if_neg (by rw [beq_iff_eq]; exact heq), ofNat64_succ]
        exact hk3
      · intro i h1 h2
        by_cases hij : i = j
        · subst hij; exact heq
        · exact hk4 i (by omega) h2

/-- index of the first rep register that holds `d` (4 = none) -/
private def kOf (s : St) (d : Nat) : Nat :=
  if d = s.r0 then 0 else if d = s.r1 then 1 else if d = s.r2 then 2 else if d = s.r3 then 3 else 4

private theorem kOf_spec (s : St) (d : Nat) :
    kOf s d ≤ 4 ∧ (∀ i, i < kOf s d → s.rep i ≠ d) ∧ (kOf s d < 4 → s.rep (kOf s d) = d) := by
  unfold kOf
  by_cases h0 : d = s.r0
  · rw [if_pos h0]
    exact ⟨by omega, fun i hi => by omega, fun _ => h0.symm⟩
  · rw [if_neg h0]
    by_cases h1 : d = s.r1
    · rw [if_pos h1]
      refine ⟨by omega, fun i hi => ?_, fun _ => h1.symm⟩
      obtain rfl : i = 0 := by omega
      exact fun h => h0 h.symm
    · rw [if_neg h1]
      by_cases h2 : d = s.r2
      · rw [if_pos h2]
        refine ⟨by omega, fun i hi => ?_, fun _ => h2.symm⟩
        have : i = 0 ∨ i = 1 := by omega
        rcases this with rfl | rfl
        · exact fun h => h0 h.symm
        · exact fun h => h1 h.symm
      · rw [if_neg h2]
        by_cases h3 : d = s.r3
        · rw [if_pos h3]
          refine ⟨by omega, fun i hi => ?_, fun _ => h3.symm⟩
          have : i = 0 ∨ i = 1 ∨ i = 2 := by omega
          rcases this with rfl | rfl | rfl
          · exact fun h => h0 h.symm
          · exact fun h => h1 h.symm
          · exact fun h => h2 h.symm
        · rw [if_neg h3]
          refine ⟨by omega, fun i hi => ?_, fun h => by omega⟩
          have : i = 0 ∨ i = 1 ∨ i = 2 ∨ i = 3 := by omega
          rcases this with rfl | rfl | rfl | rfl
          · exact fun h => h0 h.symm
          · exact fun h => h1 h.symm
          · exact fun h => h2 h.symm
          · exact fun h => h3 h.symm

private theorem StRel.rep_i {gs : T_state} {s : St} {tbl : Tbl} {p : Props} (sr : StRel gs s tbl p) (i : Nat) (hi : i < 4) :
    (gs.rep.getD i (0#32)).toNat = s.rep i := by
  have : i = 0 ∨ i = 1 ∨ i = 2 ∨ i = 3 := by omega
  rcases this with rfl | rfl | rfl | rfl
  · exact sr.r0
  · exact sr.r1
  · exact sr.r2
  · exact sr.r3

private theorem wmLoop_k (fuel : Nat) (e : T_encoder) (m : T_match) (err : Go.Err) (dist state state2 posState : BitVec 32)
    (s : St) (tbl : Tbl) (p : Props) (sr : StRel e.state s tbl p) (hfuel : 5 ≤ fuel) :
    encoder_writeMatch_loop1 fuel e m err dist state state2 posState (0#64)
      = Go.Res.ok (Sum.inr (e, m, err, dist, state, state2, posState, BitVec.ofNat 64 (kOf s dist.toNat))) := by
  obtain ⟨k, _, hk2, hk3, hk4, hk5⟩ := wmLoop_spec e m err dist state state2 posState sr.rsize 4 0 fuel (by omega) hfuel
  obtain ⟨h1, h2, h3⟩ := kOf_spec s dist.toNat
  have hkk : k = kOf s dist.toNat := by
    rcases Nat.lt_trichotomy k (kOf s dist.toNat) with hlt | heq | hgt
    · exfalso
      have := hk5 (by omega)
      exact h2 k hlt (by rw [← sr.rep_i k (by omega), this])
    · exact heq
    · exfalso
      have := h3 (by omega)
      refine hk4 _ (by omega) hgt (BitVec.eq_of_toNat_eq ?_)
      rw [sr.rep_i _ (by omega), this]
  rw [hk3, hkk]

private theorem classify_eq (s : St) (dist n : Nat) :
    W2.classify s (.mtch dist n) = opOf (kOf s (dist - 1)) n (dist - 1) := by
  unfold W2.classify kOf opOf
  simp only
  by_cases h0 : dist - 1 = s.r0
  · simp only [h0, if_true]
  · simp only [h0, if_false]
    by_cases h1 : dist - 1 = s.r1
    · simp only [h1, if_true]; rfl
    · simp only [h1, if_false]
      by_cases h2 : dist - 1 = s.r2
      · simp only [h2, if_true]; rfl
      · simp only [h2, if_false]
        by_cases h3 : dist - 1 = s.r3
        · simp only [h3, if_true]; rfl
        · simp only [h3, if_false]; rfl

private theorem opEnc_opOf (c : Ctx) (k n d : Nat) (hk : k ≤ 4) :
    opEnc c (opOf k n d) = (.adaptive (aIsMatch + c.st * 16 + c.ps), true) :: pTail c.st c.ps k n d := by
  have hk' : k = 0 ∨ k = 1 ∨ k = 2 ∨ k = 3 ∨ k = 4 := by omega
  rcases hk' with rfl | rfl | rfl | rfl | rfl
  · by_cases h1 : n = 1
    · subst h1; rfl
    · simp [opOf, opEnc, pTail, pG0, pG0L, h1]
  · simp [opOf, opEnc, pTail, pG0, pG1]
  · simp [opOf, opEnc, pTail, pG0, pG1]
  · simp [opOf, opEnc, pTail, pG0, pG1]
  · simp [opOf, opEnc, pTail]

/-! ### `encoder.writeLiteral` -/

private def wlLit (fuel : Nat) (e : T_encoder) (b : BitVec 8) (state : BitVec 32) (match_ : BitVec 8)
    (litState : BitVec 32) : Go.Res (Go.Err × T_encoder) :=
  Go.Res.bind (literalCodec_Encode fuel e.state.litCodec e.re b state match_ litState) (fun (r_13, m_14, m_15) =>
    let e := { e with state := { e.state with litCodec := m_14 } }
    let e := { e with re := m_15 }
    if (r_13 != Go.Err.nil) then Go.Res.ok (r_13, e)
    else Go.Res.ok (Go.Err.nil, { e with state := state_updateStateLiteral e.state }))

private theorem writeLiteral_eq (fuel : Nat) (e : T_encoder) (l : T_lit) :
    encoder_writeLiteral fuel e l =
      probStep fuel e e.state.isMatch (state_states e.state (encoderDict_Pos e.dict)).2.1.toNat (0#32)
        (fun e a => { e with state := { e.state with isMatch := a } })
        (fun _ e' =>
          Go.Res.bind (encoderDict_ByteAt e'.dict (1#64)) (fun r_9 =>
          Go.Res.bind (encoderDict_ByteAt e'.dict ((BitVec.setWidth 64 (e'.state.rep.getD 0 (0#32))) + (1#64))) (fun r_12 =>
          wlLit fuel e' l.b (state_states e.state (encoderDict_Pos e.dict)).1 r_12
            (state_litState e'.state r_9 (encoderDict_Pos e'.dict))))) := by
  rfl

private theorem StRel.updLit' {gs : T_state} {s : St} {tbl : Tbl} {p : Props} (sr : StRel gs s tbl p) (b : Nat) :
    StRel (state_updateStateLiteral gs) (s.apply (.lit b)) tbl p := by
  rw [updateStateLiteral_spec]
  have hlt := updLit_lt s.st sr.stlt
  refine sr.set_regs gs.rep _ _ sr.rsize sr.r0 sr.r1 sr.r2 sr.r3 ?_ hlt
  show (BitVec.ofNat 32 (updLit gs.state.toNat)).toNat = updLit s.st
  rw [sr.st, BitVec.toNat_ofNat]
  omega

private theorem wlLit_spec (fuel : Nat) (ge : T_encoder) (b : BitVec 8) (state : BitVec 32) (match_ : BitVec 8)
    (litState : BitVec 32) (s : St) (tbl : Tbl) (p : Props) (en : Enc) (Lim ls mb : Nat)
    (sr : StRel ge.state s tbl p) (rel : EncRel ge.re en Lim) (rest : en.Rest)
    (hst : state.toNat = s.st) (hls : litState.toNat = ls) (hmb : match_.toNat = mb)
    (hlsb : 0x300 * (ls + 1) ≤ 0x300 * 2 ^ (p.lc + p.lp))
    (hcl : en.cacheLen + 100 < 2 ^ 62) (hL : Lim < 2 ^ 63) (hfuel : en.cacheLen + 100 ≤ fuel) :
    EncSpec Lim tbl en (litPath s.st ls mb b.toNat) (wlLit fuel ge b state match_ litState)
      (Post Lim p (s.apply (.lit b.toNat)) ge.dict) := by
  subst hls hmb
  rw [← hst]
  have hpw : 2 ^ (p.lc + p.lp) ≤ 2 ^ 12 := Nat.pow_le_pow_right (by omega) (by have := sr.lcle; have := sr.lple; omega)
  have h := literalCodec_Encode_refines fuel ge.state.litCodec ge.re en Lim b state match_ litState tbl
    (0x300 * 2 ^ (p.lc + p.lp)) rel rest sr.tok sr.lit hlsb (by omega) hcl hL hfuel
  unfold EncSpec wlLit
  rcases hp : encPathL Lim tbl en (litPath state.toNat litState.toNat match_.toNat b.toNat) with _ | ⟨tbl1, e1⟩
  · rw [hp] at h
    obtain ⟨c', g', hg⟩ := h
    refine ⟨fun _ => ?_, fun _ _ h' => by cases h'⟩
    simp only [hg, Go.Res.bind_ok, errLimit_bne, if_true]
    exact ⟨_, rfl⟩
  · rw [hp] at h
    obtain ⟨c', g', hg, rel1, rest1, htbl1, _, lr1⟩ := h
    refine ⟨fun h' => (by cases h'), fun tbl' e' h' => ?_⟩
    cases h'
    have ag := encPathL_frame Lim _ _ _ _ _ _ _
      (litPath_in state.toNat litState.toNat match_.toNat b.toNat _ hlsb) hp
    simp only [hg, Go.Res.bind_ok, nil_bne, Bool.false_eq_true, if_false]
    exact ⟨_, rfl, (sr.upd_lit c' ag htbl1 lr1).updLit' _, rel1, rest1, rfl⟩

private theorem litState_lt (lc lp pos prev : Nat) (hlc : lc ≤ 8) (hprev : prev < 256) :
    Lzma.litState lc lp pos prev < 2 ^ (lc + lp) := by
  unfold Lzma.litState
  have hA : pos % 2 ^ lp < 2 ^ lp := Nat.mod_lt _ (Nat.pow_pos (by decide))
  have hB : prev / 2 ^ (8 - lc) < 2 ^ lc := by
    rw [Nat.div_lt_iff_lt_mul (Nat.pow_pos (by decide)), ← Nat.pow_add]
    have : lc + (8 - lc) = 8 := by omega
    rw [this]; exact hprev
  have h1 : (pos % 2 ^ lp + 1) * 2 ^ lc ≤ 2 ^ lp * 2 ^ lc := Nat.mul_le_mul_right _ hA
  rw [Nat.add_mul, Nat.one_mul] at h1
  rw [Nat.pow_add, Nat.mul_comm (2 ^ lc) (2 ^ lp)]
  omega

set_option linter.unusedVariables false in
/-- `encoder.writeLiteral` = the path `opEnc ctx (.lit b)` through the checked encoder + `updateStateLiteral` -/
theorem writeLiteral_refines (fuel : Nat) (g : T_encoder) (l : T_lit) (s : St) (tbl : Tbl) (p : Props) (e : Enc) (Lim : Nat)
    (pos : Nat) (bat : Nat → Nat)
    (sr : StRel g.state s tbl p) (rel : EncRel g.re e Lim) (rest : e.Rest)
    (hpos : (encoderDict_Pos g.dict).toNat = pos) (hposlt : pos < 2 ^ 62)
    (hbat : ∀ dist : BitVec 64, encoderDict_ByteAt g.dict dist = Go.Res.ok (BitVec.ofNat 8 (bat dist.toInt.toNat)))
    (hbat256 : ∀ k, bat k < 256)
    (hcl : e.cacheLen + 400 < 2 ^ 62) (hL : Lim < 2 ^ 63) (hfuel : e.cacheLen + 400 ≤ fuel) :
    match encPathL Lim tbl e (opEnc (ctxOf p s pos bat) (.lit l.b.toNat)) with
    | none => ∃ g', encoder_writeLiteral fuel g l = Go.Res.ok (Go.Err.named "ErrLimit", g')
    | some (tbl', e') =>
      ∃ g', encoder_writeLiteral fuel g l = Go.Res.ok (Go.Err.nil, g')
        ∧ StRel g'.state (s.apply (.lit l.b.toNat)) tbl' p ∧ EncRel g'.re e' Lim ∧ e'.Rest ∧ g'.dict = g.dict := by
  have key : EncSpec Lim tbl e (opEnc (ctxOf p s pos bat) (.lit l.b.toNat)) (encoder_writeLiteral fuel g l)
      (Post Lim p (s.apply (.lit l.b.toNat)) g.dict) := by
    obtain ⟨hst, hst2, _⟩ := states_spec g.state (encoderDict_Pos g.dict) p.pb sr.pb sr.mask (by rw [sr.st]; exact sr.stlt)
    rw [hpos, sr.st] at hst2
    rw [sr.st] at hst
    have hp16 : 2 ^ p.pb ≤ 2 ^ 4 := Nat.pow_le_pow_right (by omega) sr.pb
    have hps16 : pos % 2 ^ p.pb < 16 := Nat.lt_of_lt_of_le (Nat.mod_lt _ (Nat.pow_pos (by omega))) hp16
    have hstlt := sr.stlt
    rw [writeLiteral_eq]
    show EncSpec Lim tbl e ((.adaptive (aIsMatch + s.st * 16 + pos % 2 ^ p.pb), false) ::
      litPath s.st (Lzma.litState p.lc p.lp pos (bat 1)) (bat (s.r0 + 1)) l.b.toNat) _ _
    rw [Nat.add_assoc, ← hst2]
    refine probStep_spec fuel g _ _ _ _ _ Lim tbl e aIsMatch 192 _ _ _ rel rest sr.tok sr.isMatch
      (by rw [hst2]; omega) (by decide) (by omega) hL (by omega) ?_
    intro arr' g' tbl' en' ar tok ag rel' rest' hcl'
    have sr' := sr.upd_isMatch arr' ag tok ar
    have hr0 : ((BitVec.setWidth 64 (g.state.rep.getD 0 (0#32))) + (1#64)).toInt.toNat = s.r0 + 1 := by
      have h0 := sr.r0
      have hlt := (g.state.rep.getD 0 (0#32)).isLt
      have hN : ((BitVec.setWidth 64 (g.state.rep.getD 0 (0#32))) + (1#64)).toNat = s.r0 + 1 := by
        simp only [BitVec.toNat_add, BitVec.toNat_setWidth, BitVec.toNat_ofNat]
        omega
      rw [BitVec.toInt_eq_toNat_cond, hN, if_pos (by omega)]
      rfl
    simp only [hbat, Go.Res.bind_ok, toInt1, hr0]
    have hb1 : (BitVec.ofNat 8 (bat 1)).toNat = bat 1 := by
      rw [BitVec.toNat_ofNat]; exact Nat.mod_eq_of_lt (hbat256 1)
    have hb2 : (BitVec.ofNat 8 (bat (s.r0 + 1))).toNat = bat (s.r0 + 1) := by
      rw [BitVec.toNat_ofNat]; exact Nat.mod_eq_of_lt (hbat256 _)
    have hlsv := litState_spec g.state (BitVec.ofNat 8 (bat 1)) (encoderDict_Pos g.dict)
      (by rw [sr.lc]; exact sr.lcle) (by rw [sr.lp]; exact sr.lple)
    rw [sr.lc, sr.lp, hpos, hb1] at hlsv
    have hlt := litState_lt p.lc p.lp pos (bat 1) sr.lcle (hbat256 1)
    exact wlLit_spec fuel _ l.b _ _ _ s tbl' p en' Lim _ _ sr' rel' rest' hst hlsv hb2 (by omega) (by omega) hL (by omega)
  rcases hp : encPathL Lim tbl e (opEnc (ctxOf p s pos bat) (.lit l.b.toNat)) with _ | ⟨tbl', e'⟩
  · exact key.1 hp
  · obtain ⟨g', h1, h2, h3, h4, h5⟩ := key.2 _ _ hp
    exact ⟨g', h1, h2, h3, h4, h5⟩

set_option linter.unusedVariables false in
/-- `encoder.writeMatch` on a match the encoder accepts (1 ≤ distance ≤ 2^32; 2 ≤ n ≤ 273, or n = 1 at rep0's distance)
    = the path `opEnc ctx (W2.classify s (.mtch distance n))` (first rep register that holds the distance wins; short rep;
    plain match shifts the registers) through the checked encoder + `St.apply`; never one of its two panics -/
theorem writeMatch_refines (fuel : Nat) (g : T_encoder) (m : T_match) (s : St) (tbl : Tbl) (p : Props) (e : Enc) (Lim : Nat)
    (pos : Nat) (bat : Nat → Nat) (dist n : Nat)
    (sr : StRel g.state s tbl p) (rel : EncRel g.re e Lim) (rest : e.Rest)
    (hd : m.distance = BitVec.ofNat 64 dist) (hn : m.n = BitVec.ofNat 64 n)
    (hd1 : 1 ≤ dist) (hd2 : dist ≤ 2 ^ 32) (hnr : (2 ≤ n ∧ n ≤ 273) ∨ (dist - 1 = s.r0 ∧ n = 1))
    (hpos : (encoderDict_Pos g.dict).toNat = pos) (hposlt : pos < 2 ^ 62)
    (hbat : ∀ dist : BitVec 64, encoderDict_ByteAt g.dict dist = Go.Res.ok (BitVec.ofNat 8 (bat dist.toInt.toNat)))
    (hbat256 : ∀ k, bat k < 256)
    (hcl : e.cacheLen + 400 < 2 ^ 62) (hL : Lim < 2 ^ 63) (hfuel : e.cacheLen + 400 ≤ fuel) :
    let op := W2.classify s (.mtch dist n)
    match encPathL Lim tbl e (opEnc (ctxOf p s pos bat) op) with
    | none => ∃ g', encoder_writeMatch fuel g m = Go.Res.ok (Go.Err.named "ErrLimit", g')
    | some (tbl', e') =>
      ∃ g', encoder_writeMatch fuel g m = Go.Res.ok (Go.Err.nil, g')
        ∧ StRel g'.state (s.apply op) tbl' p ∧ EncRel g'.re e' Lim ∧ e'.Rest ∧ g'.dict = g.dict := by
  intro op
  have key : EncSpec Lim tbl e (opEnc (ctxOf p s pos bat) op) (encoder_writeMatch fuel g m)
      (Post Lim p (s.apply op) g.dict) := by
    have hc1 : (!((BitVec.sle (1#64) m.distance) && (BitVec.sle m.distance (4294967296#64)))) = false := by
      rw [hd]
      have h1 : BitVec.sle (1#64) (BitVec.ofNat 64 dist) = true := by
        simp only [BitVec.sle, BitVec.toInt_eq_toNat_cond, decide_eq_true_eq]; bv_omega
      have h2 : BitVec.sle (BitVec.ofNat 64 dist) (4294967296#64) = true := by
        simp only [BitVec.sle, BitVec.toInt_eq_toNat_cond, decide_eq_true_eq]; bv_omega
      rw [h1, h2]; rfl
    have hdv : (BitVec.setWidth 32 (m.distance - (1#64))).toNat = dist - 1 := by
      rw [hd]
      simp only [BitVec.toNat_setWidth, BitVec.toNat_sub, BitVec.toNat_ofNat]
      omega
    have hc2 : ((!((BitVec.sle (2#64) m.n) && (BitVec.sle m.n (273#64)))) &&
        (!(((BitVec.setWidth 32 (m.distance - (1#64))) == (g.state.rep.getD 0 (0#32))) && (m.n == (1#64))))) = false := by
      rcases hnr with ⟨hn1, hn2⟩ | ⟨hr0, hn1⟩
      · have h1 : BitVec.sle (2#64) m.n = true := by
          rw [hn]; simp only [BitVec.sle, BitVec.toInt_eq_toNat_cond, decide_eq_true_eq]; bv_omega
        have h2 : BitVec.sle m.n (273#64) = true := by
          rw [hn]; simp only [BitVec.sle, BitVec.toInt_eq_toNat_cond, decide_eq_true_eq]; bv_omega
        rw [h1, h2]; rfl
      · have h1 : (BitVec.setWidth 32 (m.distance - (1#64))) = g.state.rep.getD 0 (0#32) :=
          BitVec.eq_of_toNat_eq (by rw [hdv, sr.r0, hr0])
        have h2 : (m.n == (1#64)) = true := by rw [hn, hn1]; rfl
        rw [h1, h2, beq_self_eq_true]
        simp only [Bool.and_self, Bool.not_true, Bool.and_false]
    obtain ⟨hst, hst2, hps⟩ := states_spec g.state (encoderDict_Pos g.dict) p.pb sr.pb sr.mask (by rw [sr.st]; exact sr.stlt)
    rw [hpos, sr.st] at hst2
    rw [hpos] at hps
    rw [sr.st] at hst
    have hp16 : 2 ^ p.pb ≤ 2 ^ 4 := Nat.pow_le_pow_right (by omega) sr.pb
    have hps16 : pos % 2 ^ p.pb < 16 := Nat.lt_of_lt_of_le (Nat.mod_lt _ (Nat.pow_pos (by omega))) hp16
    have hstlt := sr.stlt
    obtain ⟨hk4, _, hk5⟩ := kOf_spec s (dist - 1)
    have hop : op = opOf (kOf s (dist - 1)) n (dist - 1) := classify_eq s dist n
    rw [hop, opEnc_opOf _ _ _ _ hk4, writeMatch_eq, hc1, if_neg (by decide), hc2, if_neg (by decide)]
    show EncSpec Lim tbl e ((.adaptive (aIsMatch + s.st * 16 + pos % 2 ^ p.pb), true) ::
      pTail s.st (pos % 2 ^ p.pb) (kOf s (dist - 1)) n (dist - 1)) _ _
    rw [Nat.add_assoc, ← hst2]
    refine probStep_spec fuel g _ _ _ _ _ Lim tbl e aIsMatch 192 _ _ _ rel rest sr.tok sr.isMatch
      (by rw [hst2]; omega) (by decide) (by omega) hL (by omega) ?_
    intro arr' g' tbl' en' ar tok ag rel' rest' hcl'
    have sr' := sr.upd_isMatch arr' ag tok ar
    rw [wmLoop_k fuel _ m _ _ _ _ _ s tbl' p sr' (by omega), hdv, Go.Res.bind_ok]
    refine wmAfterLoop_spec fuel _ m _ _ _ _ _ s tbl' p en' Lim (pos % 2 ^ p.pb) n _ (dist - 1) sr' rel' rest' hst hst2
      hk4 rfl hdv hk5 hn ?_ ?_ ?_ hps hps16 (by omega) hL (by omega)
    · rcases hnr with ⟨_, h⟩ | ⟨_, h⟩ <;> omega
    · intro h1
      rcases hnr with ⟨h, _⟩ | ⟨h, _⟩
      · omega
      · unfold kOf; rw [if_pos h]
    · rcases hnr with ⟨h, _⟩ | ⟨_, h⟩ <;> omega
  rcases hp : encPathL Lim tbl e (opEnc (ctxOf p s pos bat) op) with _ | ⟨tbl', e'⟩
  · exact key.1 hp
  · obtain ⟨g', h1, h2, h3, h4, h5⟩ := key.2 _ _ hp
    exact ⟨g', h1, h2, h3, h4, h5⟩

end GoSrcP
