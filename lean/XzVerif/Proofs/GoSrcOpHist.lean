import XzVerif.Proofs.GoSrcOpDec
import XzVerif.Proofs.GoSrcRing
/-
  Proofs.GoSrcOpHist — composition: `decoder.readOp` from the source, on a decoder dictionary whose ring (from the source:
  `byteAt`) represents the history, decodes exactly what the batch decoder `decStep` of Codec/LzmaDec.lean decodes at that
  history: the context is `mkCtx p s h`.
-/
namespace GoSrcP
open GoSrc Rc Lzma

/-- the history `h` (no dictionary reset pending: `dictStart = 0`) as the abstract window of the ring theorems -/
def histAbs (h : Hist) : Ring.Abs := { W := h.out.data.toList, r := 0 }

/-- the history byte `k` back, read in the list view of the output -/
def histBat (h : Hist) (k : Nat) : Nat :=
  (if 0 < k ∧ k ≤ min h.out.data.toList.length h.cap then
    h.out.data.toList[h.out.data.toList.length - k]! else (0 : UInt8)).toNat

theorem histBat_eq (h : Hist) (hds : h.dictStart = 0) (k : Nat) : histBat h k = h.byteAt k := by
  have hsz : h.out.size = h.out.data.size := rfl
  unfold histBat Hist.byteAt Hist.dictLen Hist.pos
  rw [hds, Nat.sub_zero, hsz, Array.length_toList]
  split
  · have hget : h.out.get! (h.out.data.size - k) = h.out.data[h.out.data.size - k]! := rfl
    rw [hget, Array.getElem!_toList]
  · rfl

theorem histBat_lt (h : Hist) (k : Nat) : histBat h k < 256 := by
  unfold histBat
  exact UInt8.toNat_lt _

theorem readOp_on_history (fuel : Nat) (g : T_decoder) (m : Ring.DDict) (h : Hist) (s : St) (tbl : Tbl) (p : Props) (d : Rc.Dec)
    (sr : StRel g.State s tbl p) (rel : DecRel g.rd d) (inv : DecInv d)
    (hb : BufRel g.Dict.buf m.buf) (hh : g.Dict.head.toNat = m.head) (hds : h.dictStart = 0)
    (ring : m.Rel { W := h.out.data.toList, r := (histAbs h).r } h.cap) (hsmall : h.out.size < 2 ^ 62) (hfuel : 200 ≤ fuel) :
    match decTree pm (opDec (mkCtx p s h)) tbl d with
    | none => ∃ op g', decoder_readOp fuel g = Go.Res.ok (op, Go.Err.named "io.EOF", g')
    | some (op, tbl', d') =>
      if op = RawOp.mtch (match op with | .mtch len _ => len | _ => 0) eosDist then
        ∃ g', decoder_readOp fuel g = Go.Res.ok (S_operation.none, Go.Err.named "errEOS", g')
          ∧ g'.eosMarker = true ∧ StRel g'.State (s.apply op) tbl' p ∧ DecRel g'.rd d' ∧ DecInv d' ∧ g'.Dict = g.Dict
      else
        ∃ g', decoder_readOp fuel g = Go.Res.ok (goOpOf (s.apply op) op, Go.Err.nil, g')
          ∧ g'.eosMarker = g.eosMarker ∧ StRel g'.State (s.apply op) tbl' p ∧ DecRel g'.rd d' ∧ DecInv d'
          ∧ g'.Dict = g.Dict := by
  have hsz : h.out.size = h.out.data.size := rfl
  have hhead : m.head = h.out.data.size := by
    have := ring.head
    simpa only [Array.length_toList] using this
  have hpos : h.pos = h.out.data.size := by
    unfold Hist.pos; rw [hds, Nat.sub_zero, hsz]
  have hctx : ctxOf p s h.pos (histBat h) = mkCtx p s h := by
    unfold ctxOf mkCtx
    rw [histBat_eq h hds, histBat_eq h hds]
  have key := readOp_refines fuel g s tbl p d h.pos (histBat h) sr rel inv
    (by rw [hh, hhead, hpos]) (by rw [hpos, ← hsz]; exact hsmall)
    (fun dist => decoderDict_byteAt_history g.Dict m _ h.cap hb hh (by rw [hhead, ← hsz]; exact hsmall) ring dist)
    (histBat_lt h) hfuel
  rw [hctx] at key
  exact key

end GoSrcP
