import XzVerif.Proofs.Ring

/-!
  The decoder dictionary when its head counter has been reset (`Reset()` only clears `head`): the ring still holds
  and delivers the bytes written before, but `dictLen` / `byteAt` / `writeMatch` see only the `|W| − base` bytes
  written since the reset.  `DDict.Rel` is the case `base = 0`.
-/
namespace Ring

structure DDict.RelB (d : DDict) (a : Abs) (cap base : Nat) : Prop where
  buf : d.buf.Rel a cap
  head : d.head + base = a.W.length
  pos : 1 ≤ cap

theorem DDict.Rel.relB {d : DDict} {a : Abs} {cap : Nat} (h : d.Rel a cap) : d.RelB a cap 0 :=
  ⟨h.buf, h.head, h.pos⟩

theorem DDict.RelB.dictLen_eq {d : DDict} {a : Abs} {cap base : Nat} (h : d.RelB a cap base) :
    d.dictLen = min (a.W.length - base) cap := by
  have h1 := h.buf.size
  have h2 := h.head
  unfold DDict.dictLen Buf.cap
  split_ifs <;> omega

theorem relB_byteAt (d : DDict) (a : Abs) (cap base : Nat) (h : d.RelB a cap base) (dist : Nat) :
    d.byteAt dist = if 0 < dist ∧ dist ≤ min (a.W.length - base) cap then a.W[a.W.length - dist]! else 0 := by
  rw [DDict.byteAt, h.dictLen_eq]
  by_cases hc : 0 < dist ∧ dist ≤ min (a.W.length - base) cap
  · rw [if_pos hc, if_pos hc, h.buf.back_index dist (by omega) (by omega)]
    exact h.buf.kept _ (by omega) (by omega)
  · rw [if_neg hc, if_neg hc]

theorem relB_writeMatch (d : DDict) (a : Abs) (cap base : Nat) (h : d.RelB a cap base) (dist len : Nat) :
    (¬ (0 < dist ∧ dist ≤ min (a.W.length - base) cap) → d.writeMatch dist len = .distRange) ∧
    ((0 < dist ∧ dist ≤ min (a.W.length - base) cap) → (0 < len ∧ len ≤ 273) → len ≤ cap - (a.W.length - a.r) →
        ∃ d', d.writeMatch dist len = .ok d' ∧ d'.RelB ⟨copyMatchList a.W dist len, a.r⟩ cap base) := by
  have hav := available_eq d.buf a cap h.buf
  have hdl := h.dictLen_eq
  have h1 := h.buf.rle
  have hh := h.head
  refine ⟨?_, ?_⟩
  · intro hc
    rw [DDict.writeMatch, hdl, if_pos hc]
  · intro hc hc2 hc3
    rw [DDict.writeMatch, hdl, if_neg (fun hh => hh hc), if_neg (fun hh => hh hc2), hav,
      if_neg (by omega)]
    simp only
    rw [h.buf.back_index dist (by omega) (by omega)]
    obtain ⟨b', hb1, hb2⟩ := copyLoop_rel cap dist (by omega) (by omega) (len + 1) d.buf a.W a.r
      ((a.W.length - dist) % (cap + 1)) len h.buf (by omega) hc3 (by omega) (Or.inr rfl)
    rw [hb1]
    refine ⟨_, rfl, ⟨hb2, ?_, h.pos⟩⟩
    simp only [copyMatchList_length]
    omega

theorem relB_write (d : DDict) (a : Abs) (cap base : Nat) (h : d.RelB a cap base) (p : ByteArray) :
    let n := min p.size (cap - (a.W.length - a.r))
    (d.write p).2.1 = n ∧ (d.write p).1.RelB ⟨a.W ++ p.data.toList.take n, a.r⟩ cap base := by
  intro n
  obtain ⟨w1, _, w3⟩ := write_rel d.buf a cap h.buf p
  refine ⟨w1, ⟨w3, ?_, h.pos⟩⟩
  show d.head + (d.buf.write p).2.1 + base = _
  have hh := h.head
  rw [w1, List.length_append, List.length_take, length_toList]
  omega

theorem relB_writeByte (d : DDict) (a : Abs) (cap base : Nat) (h : d.RelB a cap base) (c : UInt8)
    (hlt : a.W.length - a.r < cap) : ∃ d', d.writeByte c = some d' ∧ d'.RelB ⟨a.W ++ [c], a.r⟩ cap base := by
  obtain ⟨b', hb1, hb2⟩ := (writeByte_rel d.buf a cap h.buf c).1 hlt
  refine ⟨{ buf := b', head := d.head + 1 }, by simp only [DDict.writeByte, hb1], ⟨hb2, ?_, h.pos⟩⟩
  have hh := h.head
  simp only [List.length_append, List.length_singleton]
  omega

theorem relB_read (d : DDict) (a : Abs) (cap base : Nat) (h : d.RelB a cap base) (l : Nat) :
    (d.read l).2.data.toList = (a.W.drop a.r).take l ∧
    (d.read l).1.RelB ⟨a.W, a.r + min l (a.W.length - a.r)⟩ cap base := by
  obtain ⟨r1, r2⟩ := read_rel d.buf a cap h.buf l
  exact ⟨r1, ⟨r2, h.head, h.pos⟩⟩

/-- `Reset()`: the head counter restarts, the ring is untouched -/
theorem relB_reset (d : DDict) (a : Abs) (cap base : Nat) (h : d.RelB a cap base) :
    DDict.RelB { d with head := 0 } a cap a.W.length :=
  ⟨h.buf, by simp, h.pos⟩

end Ring
