import XzVerif.Gen.GoSrc
import XzVerif.Gen.Consts
import XzVerif.Proofs.GoSrcEnc
/-
  Proofs.GoSrcOp2 — the REGENERATED translation of lzma/encoder.go `writeOp` (the margin test in front of every operation,
  the dispatch on the operation's dynamic type) and lzma/properties.go `PropertiesForCode` / `Properties.Code`.
-/
namespace GoSrcP
open GoSrc

/-- `writeOp` refuses an operation exactly when `Available() = N − (cacheLen + 4)` is below the margin — the test
    `maxCompressed < digits + 4 + opLenMargin` of Model/Writer2.lean's `encodeOp` with `Lim` = the chunk's byte budget —
    and changes nothing then; otherwise it is `writeLiteral` / `writeMatch` -/
theorem writeOp_spec (fuel : Nat) (g : T_encoder) (op : S_operation) (e : Rc.Enc) (Lim m : Nat)
    (rel : EncRel g.re e Lim) (hm : g.margin.toNat = m) (hm' : m < 2 ^ 32)
    (hcl : e.cacheLen < 2 ^ 62) (hL : Lim < 2 ^ 63) :
    encoder_writeOp fuel g op =
      if Lim < e.out.length + e.cacheLen + 4 + m then Go.Res.ok (Go.Err.named "ErrLimit", g)
      else match op with
        | .lit x => encoder_writeLiteral fuel g x
        | .match_ x => encoder_writeMatch fuel g x
        | .none => Go.Res.panic "unexpected operation" := by
  obtain ⟨_, _, _, hcl', _, hbud⟩ := rel
  have hN : g.re.lbw.N.toNat < 2 ^ 63 := by omega
  have hslt : BitVec.slt (rangeEncoder_Available g.re) g.margin
      = decide (Lim < e.out.length + e.cacheLen + 4 + m) := by
    unfold rangeEncoder_Available
    have h1 : g.re.cacheLen.toNat < 2 ^ 62 := by omega
    have h2 : g.margin.toNat < 2 ^ 32 := by omega
    have key : ∀ (x y : BitVec 64), x.slt y = decide (x.toInt < y.toInt) := fun x y => rfl
    rw [key]
    have e1 : (g.re.lbw.N - (g.re.cacheLen + 4#64)).toInt
        = (g.re.lbw.N.toNat : Int) - ((g.re.cacheLen.toNat : Int) + 4) := by
      rw [BitVec.toInt_eq_toNat_cond]
      simp only [BitVec.toNat_sub, BitVec.toNat_add, BitVec.toNat_ofNat]
      split <;> omega
    have e2 : g.margin.toInt = (m : Int) := by
      rw [BitVec.toInt_eq_toNat_cond]; split <;> omega
    rw [e1, e2]
    apply decide_eq_decide.mpr
    omega
  unfold encoder_writeOp
  rw [hslt]
  by_cases hc : Lim < e.out.length + e.cacheLen + 4 + m
  · simp only [hc, decide_true, if_true]
  · simp only [hc, decide_false, Bool.false_eq_true, if_false]
    cases op with
    | none => rfl
    | lit x =>
      show Go.Res.bind (encoder_writeLiteral fuel g x) _ = encoder_writeLiteral fuel g x
      generalize encoder_writeLiteral fuel g x = r
      cases r <;> rfl
    | match_ x =>
      show Go.Res.bind (encoder_writeMatch fuel g x) _ = encoder_writeMatch fuel g x
      generalize encoder_writeMatch fuel g x = r
      cases r <;> rfl

theorem PropertiesForCode_spec (c : BitVec 8) :
    if c.toNat ≤ 224 then
      PropertiesForCode c = ({ LC := BitVec.ofNat 64 (c.toNat % 9), LP := BitVec.ofNat 64 (c.toNat / 9 % 5),
                               PB := BitVec.ofNat 64 (c.toNat / 45 % 5) }, Go.Err.nil)
    else (PropertiesForCode c).2 = Go.Err.new "lzma: invalid properties code" := by
  revert c; decide +kernel

theorem Properties_Code_spec (p : T_Properties) (hlc : p.LC.toNat ≤ 8) (hlp : p.LP.toNat ≤ 4) (hpb : p.PB.toNat ≤ 4) :
    (Properties_Code p).toNat = (p.PB.toNat * 5 + p.LP.toNat) * 9 + p.LC.toNat := by
  unfold Properties_Code
  simp only [BitVec.toNat_setWidth, BitVec.toNat_add, BitVec.toNat_mul, BitVec.toNat_ofNat]
  omega

/-- the two are inverse on the 225 codes -/
theorem Properties_Code_roundtrip (c : BitVec 8) (h : c.toNat ≤ 224) : Properties_Code (PropertiesForCode c).1 = c := by
  revert c; decide +kernel

end GoSrcP
