import XzVerif.Gen.GoSrc
import XzVerif.Codec.Lzma
/-
  Proofs.GoSrcMisc — the REGENERATED translation of /repo's Go source (Gen/GoSrc.lean, machine integers as BitVec)
  refines the Nat-level codec (Codec/Lzma.lean): probability update, bound, length state, the 12-state machine,
  position / literal state arithmetic, and `nlz32` (number of leading zeros by smearing + de Bruijn multiplication).
  Statements are fixed; only proofs may change.
-/
namespace GoSrcP
open GoSrc

theorem prob_dec_spec (p : BitVec 16) : (prob_dec p).toNat = Lzma.probNext p.toNat true := by
  have := p.isLt
  simp only [prob_dec, Lzma.probNext, BitVec.ushiftRight_eq, BitVec.toNat_sub, BitVec.toNat_ushiftRight,
    Nat.shiftRight_eq_div_pow, if_true]
  omega

theorem prob_inc_spec (p : BitVec 16) (h : p.toNat ≤ 2048) : (prob_inc p).toNat = Lzma.probNext p.toNat false := by
  simp only [prob_inc, Lzma.probNext, BitVec.ushiftRight_eq, BitVec.toNat_add, BitVec.toNat_sub, BitVec.toNat_ushiftRight,
    Nat.shiftRight_eq_div_pow, BitVec.toNat_ofNat]
  simp
  omega

theorem prob_bound_spec (p : BitVec 16) (r : BitVec 32) (h : p.toNat ≤ 2048) :
    (prob_bound p r).toNat = (r.toNat / 2048) * p.toNat := by
  have := r.isLt
  simp only [prob_bound, BitVec.ushiftRight_eq, BitVec.toNat_mul, BitVec.toNat_ushiftRight,
    Nat.shiftRight_eq_div_pow, BitVec.toNat_setWidth]
  have h1 : p.toNat % 2 ^ 32 = p.toNat := by omega
  rw [h1]
  apply Nat.mod_eq_of_lt
  have h2 : r.toNat / 2 ^ 11 < 2 ^ 21 := by omega
  calc r.toNat / 2 ^ 11 * p.toNat ≤ (2 ^ 21 - 1) * 2048 := Nat.mul_le_mul (by omega) h
    _ < 2 ^ 32 := by decide

theorem lenState_spec (l : BitVec 32) : (lenState l).toNat = Lzma.lenState l.toNat := by
  simp only [lenState, Lzma.lenState, BitVec.ule, BitVec.toNat_ofNat, decide_eq_true_eq]
  split <;> simp_all <;> omega

theorem updateStateLiteral_spec (s : T_state) :
    state_updateStateLiteral s = { s with state := BitVec.ofNat 32 (Lzma.updLit s.state.toNat) } := by
  -- (no destructuring of `s`: the generated structure grows when the translator's subset grows)
  have := s.state.isLt
  simp only [state_updateStateLiteral, Lzma.updLit, BitVec.ult, BitVec.toNat_ofNat, decide_eq_true_eq]
  split
  · simp_all
  · split
    · simp_all; bv_omega
    · simp_all; bv_omega

theorem updateStateMatch_spec (s : T_state) :
    state_updateStateMatch s = { s with state := BitVec.ofNat 32 (Lzma.updMatch s.state.toNat) } := by
  simp only [state_updateStateMatch, Lzma.updMatch, BitVec.ult, BitVec.toNat_ofNat, decide_eq_true_eq]
  split <;> simp_all

theorem updateStateRep_spec (s : T_state) :
    state_updateStateRep s = { s with state := BitVec.ofNat 32 (Lzma.updRep s.state.toNat) } := by
  simp only [state_updateStateRep, Lzma.updRep, BitVec.ult, BitVec.toNat_ofNat, decide_eq_true_eq]
  split <;> simp_all

theorem updateStateShortRep_spec (s : T_state) :
    state_updateStateShortRep s = { s with state := BitVec.ofNat 32 (Lzma.updShortRep s.state.toNat) } := by
  simp only [state_updateStateShortRep, Lzma.updShortRep, BitVec.ult, BitVec.toNat_ofNat, decide_eq_true_eq]
  split <;> simp_all

theorem mod_pow_mod_pow (a m n : Nat) (h : m ≤ n) : a % 2 ^ n % 2 ^ m = a % 2 ^ m :=
  Nat.mod_mod_of_dvd a (Nat.pow_dvd_pow 2 h)

/-- `state.states`: (state1, state2, posState) = (st, st·16 + pos mod 2^pb, pos mod 2^pb) — the addresses
    `aIsMatch + st·16 + ps` of Codec.Lzma.opDec / opEnc — for the int64 dictionary head truncated to uint32 -/
theorem states_spec (s : T_state) (head : BitVec 64) (pb : Nat) (hpb : pb ≤ 4)
    (hm : s.posBitMask = BitVec.ofNat 32 (2 ^ pb - 1)) (hs : s.state.toNat < 12) :
    (state_states s head).1.toNat = s.state.toNat ∧
    (state_states s head).2.1.toNat = s.state.toNat * 16 + head.toNat % 2 ^ pb ∧
    (state_states s head).2.2.toNat = head.toNat % 2 ^ pb := by
  have hp16 : 2 ^ pb ≤ 2 ^ 4 := Nat.pow_le_pow_right (by omega) hpb
  have hp0 : 0 < 2 ^ pb := Nat.pow_pos (by omega)
  have hps : ((BitVec.setWidth 32 head) &&& s.posBitMask).toNat = head.toNat % 2 ^ pb := by
    rw [hm, BitVec.toNat_and, BitVec.toNat_setWidth, BitVec.toNat_ofNat]
    rw [Nat.mod_eq_of_lt (a := 2 ^ pb - 1) (by omega), Nat.and_two_pow_sub_one_eq_mod]
    exact mod_pow_mod_pow _ _ _ (by omega)
  have hlt : head.toNat % 2 ^ pb < 2 ^ 4 := Nat.lt_of_lt_of_le (Nat.mod_lt _ hp0) hp16
  refine ⟨rfl, ?_, hps⟩
  simp only [state_states, BitVec.shiftLeft_eq, BitVec.toNat_or, BitVec.toNat_shiftLeft, hps]
  rw [Nat.mod_eq_of_lt (by rw [Nat.shiftLeft_eq]; omega), ← Nat.shiftLeft_add_eq_or_of_lt hlt,
    Nat.shiftLeft_eq]

/-- `state.litState` = Codec.Lzma.litState for lc ≤ 8, lp ≤ 4 (what Properties.Verify admits) -/
theorem litState_spec (s : T_state) (prev : BitVec 8) (head : BitVec 64)
    (hlc : s.Properties.LC.toNat ≤ 8) (hlp : s.Properties.LP.toNat ≤ 4) :
    (state_litState s prev head).toNat
      = Lzma.litState s.Properties.LC.toNat s.Properties.LP.toNat head.toNat prev.toNat := by
  generalize hc : s.Properties.LC = lcb at *
  generalize hl : s.Properties.LP = lpb at *
  have h8 : ((8#64) - lcb).toNat = 8 - lcb.toNat := by
    rw [BitVec.toNat_sub]; simp; omega
  simp only [state_litState, hc, hl, Lzma.litState, h8, BitVec.shiftLeft_eq, BitVec.ushiftRight_eq]
  generalize lcb.toNat = lc at *
  generalize lpb.toNat = lp at *
  have hlp16 : 2 ^ lp ≤ 2 ^ 4 := Nat.pow_le_pow_right (by omega) hlp
  have hlp0 : 0 < 2 ^ lp := Nat.pow_pos (by omega)
  have hlc256 : 2 ^ lc ≤ 2 ^ 8 := Nat.pow_le_pow_right (by omega) hlc
  have hlc0 : 0 < 2 ^ lc := Nat.pow_pos (by omega)
  have hmask : ((1#32 <<< lp) - 1#32).toNat = 2 ^ lp - 1 := by
    rw [BitVec.toNat_sub, BitVec.toNat_shiftLeft, Nat.shiftLeft_eq]
    simp only [BitVec.toNat_ofNat]
    omega
  have hA : ((BitVec.setWidth 32 head) &&& ((1#32 <<< lp) - 1#32)).toNat = head.toNat % 2 ^ lp := by
    rw [BitVec.toNat_and, hmask, Nat.and_two_pow_sub_one_eq_mod, BitVec.toNat_setWidth]
    exact mod_pow_mod_pow _ _ _ (by omega)
  have hAlt : head.toNat % 2 ^ lp < 2 ^ 4 := Nat.lt_of_lt_of_le (Nat.mod_lt _ hlp0) hlp16
  have hB : (BitVec.setWidth 32 prev >>> (8 - lc)).toNat = prev.toNat / 2 ^ (8 - lc) := by
    have := prev.isLt
    rw [BitVec.toNat_ushiftRight, Nat.shiftRight_eq_div_pow, BitVec.toNat_setWidth,
      Nat.mod_eq_of_lt (by omega)]
  have hBlt : prev.toNat / 2 ^ (8 - lc) < 2 ^ lc := by
    have := prev.isLt
    rw [Nat.div_lt_iff_lt_mul (Nat.pow_pos (by omega)), ← Nat.pow_add]
    have : lc + (8 - lc) = 8 := by omega
    rw [this]; exact prev.isLt
  rw [BitVec.toNat_or, BitVec.toNat_shiftLeft, hA, hB]
  have hprod : head.toNat % 2 ^ lp * 2 ^ lc < 2 ^ 32 :=
    calc head.toNat % 2 ^ lp * 2 ^ lc ≤ 2 ^ 4 * 2 ^ 8 := Nat.mul_le_mul (by omega) hlc256
      _ < 2 ^ 32 := by decide
  rw [Nat.mod_eq_of_lt (by rw [Nat.shiftLeft_eq]; exact hprod), ← Nat.shiftLeft_add_eq_or_of_lt hBlt,
    Nat.shiftLeft_eq]

/-- bits `k+1-m … k` of `y` are set and no bit above `k` is -/
def Smear (m k : Nat) (y : BitVec 32) : Prop :=
  ∀ i, (k + 1 ≤ i + m → i ≤ k → y.getLsbD i = true) ∧ (k < i → y.getLsbD i = false)

theorem smear_step (m k : Nat) (y : BitVec 32) (h : Smear m k y) (hm : 0 < m) :
    Smear (2 * m) k (y ||| BitVec.ushiftRight y m) := by
  intro i
  simp only [BitVec.ushiftRight_eq, BitVec.getLsbD_or, BitVec.getLsbD_ushiftRight]
  constructor
  · intro h1 h2
    by_cases h3 : k + 1 ≤ i + m
    · rw [(h i).1 h3 h2]; rfl
    · rw [(h (m + i)).1 (by omega) (by omega)]; simp
  · intro h1
    rw [(h i).2 h1, (h (m + i)).2 (by omega)]; rfl

theorem smear_final (k : Nat) (hk : k < 32) (y : BitVec 32) (h : Smear 32 k y) :
    y = BitVec.ofNat 32 (2 ^ (k + 1) - 1) := by
  apply BitVec.eq_of_getLsbD_eq
  intro i hi
  rw [BitVec.getLsbD_ofNat, Nat.testBit_two_pow_sub_one]
  by_cases h1 : i ≤ k
  · rw [(h i).1 (by omega) h1]; simp; omega
  · rw [(h i).2 (by omega)]; simp; omega

theorem smear_init (x : BitVec 32) (hx : x.toNat ≠ 0) : Smear 1 (Nat.log2 x.toNat) x := by
  intro i
  have h1 := Nat.log2_self_le hx
  have h2 := Nat.lt_log2_self (n := x.toNat)
  constructor
  · intro a b
    have : i = Nat.log2 x.toNat := by omega
    subst this
    rw [BitVec.getLsbD, Nat.testBit_eq_decide_div_mod_eq]
    have : x.toNat / 2 ^ Nat.log2 x.toNat = 1 := by
      apply Nat.div_eq_of_lt_le <;> rw [Nat.pow_succ] at * <;> omega
    rw [this]; rfl
  · intro a
    rw [BitVec.getLsbD]
    apply Nat.testBit_lt_two_pow
    exact Nat.lt_of_lt_of_le h2 (Nat.pow_le_pow_right (by omega) a)

theorem nlz32_pow : ∀ k, k < 32 →
    (let x := BitVec.ofNat 32 (2 ^ (k + 1) - 1)
     let x := (x + 1#32)
     if (x == (0#32)) then
       Go.Res.ok (0#64)
     else
       let x := (x * (81224991#32))
       let i_1 := ((BitVec.ushiftRight x 27)).toNat
       if 32 ≤ i_1 then Go.Res.panic "index out of range" else
       Go.Res.ok ((32#64) - (BitVec.signExtend 64 (GoSrc.G_ntz32Table.getD i_1 (0#8)))))
    = Go.Res.ok (BitVec.ofNat 64 (31 - k)) := by
  decide +kernel

/-- `nlz32` never panics (table index in range) and counts leading zeros -/
theorem nlz32_spec (x : BitVec 32) :
    nlz32 x = Go.Res.ok (BitVec.ofNat 64 (if x.toNat = 0 then 32 else 31 - Nat.log2 x.toNat)) := by
  by_cases hx : x.toNat = 0
  · have : x = 0#32 := BitVec.eq_of_toNat_eq hx
    subst this
    decide +kernel
  · rw [if_neg hx]
    have hk : Nat.log2 x.toNat < 32 := (Nat.log2_lt hx).2 x.isLt
    have h1 := smear_step _ _ _ (smear_init x hx) (by omega)
    have h2 := smear_step _ _ _ h1 (by omega)
    have h4 := smear_step _ _ _ h2 (by omega)
    have h8 := smear_step _ _ _ h4 (by omega)
    have h16 := smear_step _ _ _ h8 (by omega)
    have hf := smear_final _ hk _ h16
    have := nlz32_pow _ hk
    unfold nlz32
    simp only [] at hf this ⊢
    rw [hf]
    exact this

/-- the use in distCodec.Encode: `bits = 30 - nlz32(dist)` is `log2 dist - 1` (Codec.Lzma.posSlot) for dist ≥ 4 -/
theorem nlz32_posSlot_bits (x : BitVec 32) (h : 4 ≤ x.toNat) :
    ∃ n : BitVec 64, nlz32 x = Go.Res.ok n ∧ (BitVec.setWidth 32 ((30#64) - n)).toNat = Lzma.log2 x.toNat - 1 := by
  refine ⟨_, nlz32_spec x, ?_⟩
  have hx : x.toNat ≠ 0 := by omega
  have hk : Nat.log2 x.toNat < 32 := (Nat.log2_lt hx).2 x.isLt
  have hk2 : ¬ Nat.log2 x.toNat < 2 := by
    rw [Nat.log2_lt hx]; omega
  rw [if_neg hx, Lzma.log2]
  generalize Nat.log2 x.toNat = k at *
  simp only [BitVec.toNat_setWidth, BitVec.toNat_sub, BitVec.toNat_ofNat]
  omega

end GoSrcP
