import XzVerif.Codec.LzmaDec
import XzVerif.Proofs.Rc
import XzVerif.Proofs.LzmaCodec
import Mathlib.Tactic.Ring
import Mathlib.Tactic.Linarith

/-! L3: the operation loop.  The executable LZMA encoder (`encStep`/`encClose`) followed by the
    executable decoder loop (`decSegment`) is the identity on lists of applicable operations. -/

namespace Lzma
open Rc

def opLen : RawOp → Nat
  | .lit _ => 1 | .mtch len _ => len | .rep _ len => len | .shortRep => 1

/-- the operation is representable and applicable to the current history (not the end marker) -/
def OpOk (h : Hist) (s : St) (op : RawOp) : Prop :=
  op.wf ∧ match op with
    | .lit _ => True
    | .mtch _ dd => dd ≠ eosDist ∧ dd + 1 ≤ h.dictLen
    | .rep _ _ => (s.apply op).r0 + 1 ≤ h.dictLen
    | .shortRep => s.r0 + 1 ≤ h.dictLen

inductive OpsOk : St → Hist → List RawOp → Prop
  | nil (s h) : OpsOk s h []
  | cons (s h op ops) : OpOk h s op → OpsOk (s.apply op) (h.applyOp (s.apply op) op) ops → OpsOk s h (op :: ops)

def encodeOps (p : Props) (s : St) (tbl : Tbl) (h : Hist) (ops : List RawOp) : EncSt :=
  ops.foldl (encStep p) { s := s, tbl := tbl, e := Enc.init, bytes := ByteArray.empty, h := h }

/-! ### the probability table after a path; `encPath` is `encodeAll ∘ toDecns` -/

def tblAfter : Tbl → Path → Tbl
  | t, [] => t
  | t, (.adaptive c, b) :: π => tblAfter (t.upd c (pm.next (t.get c) b)) π
  | t, (.direct, _) :: π => tblAfter t π

theorem tblAfter_append (π1 π2 : Path) : ∀ t : Tbl, tblAfter t (π1 ++ π2) = tblAfter (tblAfter t π1) π2 := by
  induction π1 with
  | nil => intro t; rfl
  | cons qb π ih =>
    intro t
    obtain ⟨q, b⟩ := qb
    cases q <;> simp only [List.cons_append, tblAfter, ih]

theorem toDecns_append (π1 π2 : Path) : ∀ t : Tbl,
    toDecns pm t (π1 ++ π2) = toDecns pm t π1 ++ toDecns pm (tblAfter t π1) π2 := by
  induction π1 with
  | nil => intro t; rfl
  | cons qb π ih =>
    intro t
    obtain ⟨q, b⟩ := qb
    cases q <;> simp only [List.cons_append, tblAfter, toDecns, ih]

theorem tblAfter_ok (π : Path) : ∀ t : Tbl, t.ok → (tblAfter t π).ok := by
  induction π with
  | nil => intro t h; exact h
  | cons qb π ih =>
    intro t h
    obtain ⟨q, b⟩ := qb
    cases q with
    | adaptive c => exact ih _ (t.upd_ok h c _ (pm.ok _ _ (h c)))
    | direct => exact ih _ h

theorem encPath_eq (π : Path) : ∀ (t : Tbl) (e : Enc),
    encPath t e π = (tblAfter t π, e.encodeAll (toDecns pm t π)) := by
  induction π with
  | nil => intro t e; rfl
  | cons qb π ih =>
    intro t e
    obtain ⟨q, b⟩ := qb
    cases q with
    | adaptive c => simp only [encPath, ih, tblAfter, toDecns]; rfl
    | direct => simp only [encPath, ih, tblAfter, toDecns]; rfl

theorem encodeAll_append (e : Enc) (a b : List Decn) :
    e.encodeAll (a ++ b) = (e.encodeAll a).encodeAll b := by
  simp [Enc.encodeAll, List.foldl_append]

/-! ### `out` is write-only: the coder commutes with prefixing `out` -/

def preOut (l : List Nat) (e : Enc) : Enc := { e with out := l ++ e.out }

theorem emit_pre (l : List Nat) (n : Nat) : ∀ (out : List Nat) (a b : Nat),
    emit (l ++ out) a b n = l ++ emit out a b n := by
  induction n with
  | zero => intro out a b; rfl
  | succ n ih =>
    intro out a b
    simp only [emit]
    rw [List.append_assoc, ih]

theorem shiftLow_pre (l : List Nat) (e : Enc) : (preOut l e).shiftLow = preOut l e.shiftLow := by
  unfold Enc.shiftLow preOut
  dsimp only
  split
  · simp only [emit_pre]
  · rfl

theorem apply_pre (l : List Nat) (e : Enc) (dn : Decn) : (preOut l e).apply dn = preOut l (e.apply dn) := by
  unfold Enc.apply preOut
  rcases dn.p with _ | p
  · rfl
  · dsimp only
    split <;> rfl

theorem norm_pre (l : List Nat) (e : Enc) : (preOut l e).norm = preOut l e.norm := by
  unfold Enc.norm
  have h : (preOut l e).range = e.range := rfl
  rw [h]
  split
  · exact shiftLow_pre l { e with range := e.range * 256 }
  · rfl

theorem step_pre (l : List Nat) (e : Enc) (dn : Decn) : (preOut l e).step dn = preOut l (e.step dn) := by
  unfold Enc.step
  rw [apply_pre, norm_pre]

theorem encodeAll_pre (l : List Nat) (ds : List Decn) : ∀ e : Enc,
    (preOut l e).encodeAll ds = preOut l (e.encodeAll ds) := by
  induction ds with
  | nil => intro e; rfl
  | cons dn ds ih =>
    intro e
    show ((preOut l e).step dn).encodeAll ds = preOut l ((e.step dn).encodeAll ds)
    rw [step_pre, ih]

theorem close_pre (l : List Nat) (e : Enc) : (preOut l e).close = l ++ e.close := by
  unfold Enc.close
  simp only [shiftLow_pre]
  rfl

/-! ### byte arrays as lists of naturals -/

def blist (b : ByteArray) : List Nat := b.data.toList.map UInt8.toNat

theorem blist_empty : blist ByteArray.empty = [] := rfl

theorem blist_push (b : ByteArray) (x : Nat) (hx : x < 256) :
    blist (b.push x.toUInt8) = blist b ++ [x] := by
  unfold blist
  simp only [ByteArray.data_push, Array.toList_push, List.map_append, List.map_cons, List.map_nil]
  congr 2
  rw [Nat.toUInt8_eq, UInt8.toNat_ofNat']
  omega

theorem blist_foldl (l : List Nat) : ∀ (acc : ByteArray), (∀ x ∈ l, x < 256) →
    blist (l.foldl (fun a x => a.push x.toUInt8) acc) = blist acc ++ l := by
  induction l with
  | nil => intro acc _; simp
  | cons x l ih =>
    intro acc h
    simp only [List.foldl_cons]
    rw [ih _ (fun y hy => h y (by simp [hy])), blist_push _ _ (h x (by simp))]
    simp

theorem bytesToList_eq (b : ByteArray) : bytesToList b 0 b.size = blist b := by
  unfold bytesToList blist
  have hsz : b.size = b.data.size := rfl
  apply List.ext_getElem
  · simp only [List.length_map, List.length_range, Array.length_toList, Nat.sub_zero]; exact hsz
  · intro i h1 h2
    have : i < b.data.size := by simpa using h2
    simp only [List.getElem_map, List.getElem_range, Nat.zero_add, Array.getElem_toList]
    congr 1
    unfold ByteArray.get!
    exact getElem!_pos b.data i this

/-! ### the executable encoder represents the pure encoder -/

def opsPath (p : Props) : St → Hist → List RawOp → Path
  | _, _, [] => []
  | s, h, op :: ops => opEnc (mkCtx p s h) op ++ opsPath p (s.apply op) (h.applyOp (s.apply op) op) ops

def finalS : St → List RawOp → St
  | s, [] => s
  | s, op :: ops => finalS (s.apply op) ops

def finalH : St → Hist → List RawOp → Hist
  | _, h, [] => h
  | s, h, op :: ops => finalH (s.apply op) (h.applyOp (s.apply op) op) ops

theorem dig_of_out_nil (e : Enc) (h : e.out = []) : e.Dig := by
  intro x hx; rw [h] at hx; simp at hx

theorem encStep_eq (p : Props) (x : EncSt) (op : RawOp) :
    encStep p x op =
      { s := x.s.apply op
        tbl := tblAfter x.tbl (opEnc (mkCtx p x.s x.h) op)
        e := { x.e.encodeAll (toDecns pm x.tbl (opEnc (mkCtx p x.s x.h) op)) with out := [] }
        bytes := (x.e.encodeAll (toDecns pm x.tbl (opEnc (mkCtx p x.s x.h) op))).out.foldl
          (fun a x => a.push x.toUInt8) x.bytes
        h := x.h.applyOp (x.s.apply op) op } := by
  cases x
  simp only [encStep, encPath_eq, flushOut]

theorem encStep_pre (p : Props) (x : EncSt) (op : RawOp) (hout : x.e.out = []) :
    preOut (blist (encStep p x op).bytes) (encStep p x op).e =
      (preOut (blist x.bytes) x.e).encodeAll (toDecns pm x.tbl (opEnc (mkCtx p x.s x.h) op)) := by
  rw [encStep_eq, encodeAll_pre]
  dsimp only
  rw [blist_foldl _ _ (encodeAll_dig _ _ (dig_of_out_nil _ hout))]
  simp [preOut]

theorem encodeOps_rep (p : Props) : ∀ (ops : List RawOp) (x : EncSt), x.e.out = [] →
    (ops.foldl (encStep p) x).e.out = [] ∧
    preOut (blist (ops.foldl (encStep p) x).bytes) (ops.foldl (encStep p) x).e =
      (preOut (blist x.bytes) x.e).encodeAll (toDecns pm x.tbl (opsPath p x.s x.h ops)) ∧
    (ops.foldl (encStep p) x).s = finalS x.s ops ∧
    (ops.foldl (encStep p) x).tbl = tblAfter x.tbl (opsPath p x.s x.h ops) ∧
    (ops.foldl (encStep p) x).h = finalH x.s x.h ops := by
  intro ops
  induction ops with
  | nil => intro x h; exact ⟨h, rfl, rfl, rfl, rfl⟩
  | cons op ops ih =>
    intro x hout
    have h1 : (encStep p x op).e.out = [] := by rw [encStep_eq]
    obtain ⟨a1, a2, a3, a4, a5⟩ := ih (encStep p x op) h1
    have hs : (encStep p x op).s = x.s.apply op := by rw [encStep_eq]
    have ht : (encStep p x op).tbl = tblAfter x.tbl (opEnc (mkCtx p x.s x.h) op) := by rw [encStep_eq]
    have hh : (encStep p x op).h = x.h.applyOp (x.s.apply op) op := by rw [encStep_eq]
    rw [hs, ht, hh] at a2 a4
    rw [hs] at a3
    rw [hs, hh] at a5
    simp only [List.foldl_cons, opsPath, finalS, finalH]
    refine ⟨a1, ?_, a3, ?_, a5⟩
    · rw [a2, encStep_pre p x op hout, toDecns_append, encodeAll_append]
    · rw [a4, tblAfter_append]

theorem inv_of_preOut (l : List Nat) (e : Enc) (h : (preOut l e).Inv) : e.Inv :=
  ⟨h.cl, h.cache, h.low, h.ff⟩

theorem encClose_blist (y : EncSt) (hinv : y.e.Inv) (hout : y.e.out = []) :
    blist (encClose y) = (preOut (blist y.bytes) y.e).close := by
  unfold encClose flushOut
  dsimp only
  rw [blist_foldl _ _ (close_spec y.e hinv (dig_of_out_nil _ hout)).2.2, close_pre]

/-- the bytes produced by the executable encoder are the pure range encoder's output -/
theorem encodeOps_bytes (p : Props) (s : St) (tbl : Tbl) (htbl : tbl.ok) (h : Hist) (ops : List RawOp) :
    blist (encClose (encodeOps p s tbl h ops)) = encode (toDecns pm tbl (opsPath p s h ops)) ∧
    (encodeOps p s tbl h ops).s = finalS s ops ∧
    (encodeOps p s tbl h ops).tbl = tblAfter tbl (opsPath p s h ops) ∧
    (encodeOps p s tbl h ops).h = finalH s h ops := by
  unfold encodeOps
  obtain ⟨a1, a2, a3, a4, a5⟩ := encodeOps_rep p ops
    { s := s, tbl := tbl, e := Enc.init, bytes := ByteArray.empty, h := h } rfl
  dsimp only at a2 a3 a4 a5
  have h0 : preOut (blist ByteArray.empty) Enc.init = Enc.init := rfl
  rw [h0] at a2
  refine ⟨?_, a3, a4, a5⟩
  have hrest := (encodeAll_nest _ init_rest _ (toDecns_ok pm (opsPath p s h ops) tbl htbl)).1
  rw [← a2] at hrest
  rw [encClose_blist _ (inv_of_preOut _ _ hrest.toInv) a1, a2]
  rfl

/-! ### range decoder start: `Dec.init` on the encoder's output is in sync with `Enc.init` -/

theorem init_sync (ds : List Decn) (hp : ∀ dn ∈ ds, dn.ok) :
    ∃ d0 pre inp, Dec.init (encode ds) = some d0 ∧
      Sync Enc.init d0 (Enc.init.encodeAll ds).close pre inp (Enc.init.encodeAll ds).digits := by
  have hdig0 : Enc.init.Dig := by simp [Enc.Dig, Enc.init]
  obtain ⟨hf, hfd, hfT, hfR⟩ := encodeAll_nest _ init_rest ds hp
  have hdigf := encodeAll_dig _ ds hdig0
  obtain ⟨hnum, hlenW, hall⟩ := close_spec _ hf.toInv hdigf
  have hd0 : Enc.init.digits = 1 := by simp [Enc.digits, Enc.init]
  have hlen5 : 5 ≤ (encode ds).length := by unfold encode; omega
  obtain ⟨b0, b1, b2, b3, b4, r, hW⟩ : ∃ b0 b1 b2 b3 b4 r, encode ds = b0 :: b1 :: b2 :: b3 :: b4 :: r := by
    rcases h : encode ds with _ | ⟨b0, _ | ⟨b1, _ | ⟨b2, _ | ⟨b3, _ | ⟨b4, r⟩⟩⟩⟩⟩ <;>
      simp [h] at hlen5
    exact ⟨_, _, _, _, _, _, rfl⟩
  have hWs : encode ds = [b0, b1, b2, b3, b4] ++ r := by simp [hW]
  have hrlen : r.length + Enc.init.digits = (Enc.init.encodeAll ds).digits := by
    have : (encode ds).length = r.length + 5 := by simp [hW]
    unfold encode at this
    omega
  have hb : ∀ x ∈ [b0, b1, b2, b3, b4], x < 256 := by
    intro x hx
    apply hall x
    show x ∈ encode ds
    rw [hWs]; exact List.mem_append_left _ hx
  have hpre : num [b0, b1, b2, b3, b4] = (((b0 * 256 + b1) * 256 + b2) * 256 + b3) * 256 + b4 := by
    simp [num]
  have hrl : num r < 256 ^ r.length := num_lt r (fun x hx => hall x (by
    show x ∈ encode ds
    rw [hWs]; exact List.mem_append_right _ hx))
  have hval : num [b0, b1, b2, b3, b4] * 256 ^ r.length + num r < (2 ^ 32 - 1) * 256 ^ r.length := by
    have h1 : num (encode ds) = num [b0, b1, b2, b3, b4] * 256 ^ r.length + num r := by
      rw [hWs, num_append]
    have h2 : num (encode ds) = (Enc.init.encodeAll ds).T := hnum
    have h3 : (Enc.init.encodeAll ds).digits - Enc.init.digits = r.length := by omega
    rw [init_T, h3] at hfR
    have : (Enc.init).range = 2 ^ 32 - 1 := rfl
    rw [this] at hfR
    have hpos : 0 < (Enc.init.encodeAll ds).range := by have := hf.rlo; omega
    simp only [Nat.zero_add] at hfR
    omega
  have hlt : num [b0, b1, b2, b3, b4] < 2 ^ 32 - 1 := by
    by_contra hge
    have : (2 ^ 32 - 1) * 256 ^ r.length ≤ num [b0, b1, b2, b3, b4] * 256 ^ r.length :=
      Nat.mul_le_mul_right _ (by omega)
    omega
  have hb0 : b0 = 0 := by
    rw [hpre] at hlt
    have := hb b1 (by simp); have := hb b2 (by simp); have := hb b3 (by simp); have := hb b4 (by simp)
    omega
  subst hb0
  refine ⟨{ range := 2 ^ 32 - 1, code := ((b1 * 256 + b2) * 256 + b3) * 256 + b4, inp := r },
    [0, b1, b2, b3, b4], r, ?_, ?_⟩
  · rw [hW]
    simp only [Dec.init, ne_eq, not_true_eq_false, ↓reduceIte]
    rw [hpre] at hlt
    simp only [Nat.zero_mul, Nat.zero_add] at hlt
    rw [if_neg (by omega)]
  · exact ⟨by unfold encode at hWs; exact hWs, hrlen, rfl, by rw [hpre, init_T]; simp, rfl⟩

/-! ### `tree_sync` with the resulting table identified -/

theorem tree_sync' {α : Type} (t : DecTree α) :
    ∀ (π rest : Path) (a : α), t.follow π = some (a, rest) →
    ∀ (tbl : Tbl), tbl.ok → ∀ (e : Enc), e.Rest → e.Dig → ∀ (d : Dec) (pre inp : List Nat),
    Sync e d (e.encodeAll (toDecns pm tbl π)).close pre inp (e.encodeAll (toDecns pm tbl π)).digits →
    ∃ π0 e' d1 pre1 inp1, π = π0 ++ rest ∧
      decTree pm t tbl d = some (a, tblAfter tbl π0, d1) ∧ e'.Rest ∧ e'.Dig ∧
      e.encodeAll (toDecns pm tbl π) = e'.encodeAll (toDecns pm (tblAfter tbl π0) rest) ∧
      Sync e' d1 (e'.encodeAll (toDecns pm (tblAfter tbl π0) rest)).close pre1 inp1
        (e'.encodeAll (toDecns pm (tblAfter tbl π0) rest)).digits := by
  induction t with
  | ret a0 =>
    intro π rest a hf tbl htbl e he hdig d pre inp hs
    simp only [DecTree.follow, Option.some.injEq, Prod.mk.injEq] at hf
    obtain ⟨rfl, rfl⟩ := hf
    exact ⟨[], e, d, pre, inp, rfl, rfl, he, hdig, rfl, hs⟩
  | ask q k ih =>
    intro π rest a hf tbl htbl e he hdig d pre inp hs
    rcases π with _ | ⟨⟨q', b⟩, π'⟩
    · simp [DecTree.follow] at hf
    · simp only [DecTree.follow] at hf
      split at hf
      · rename_i hq
        subst hq
        cases q with
        | adaptive c =>
          have hdn : (⟨some (tbl.get c), b⟩ : Decn).ok := by
            intro p hp; simp at hp; subst hp; exact htbl c
          have htbl1 := tbl.upd_ok htbl c _ (pm.ok _ b (htbl c))
          have hp' := toDecns_ok pm π' _ htbl1
          simp only [toDecns] at hs ⊢
          have heq : ∀ l, e.encodeAll (⟨some (tbl.get c), b⟩ :: l) = (e.step ⟨some (tbl.get c), b⟩).encodeAll l :=
            fun _ => rfl
          rw [heq] at hs ⊢
          obtain ⟨d1, pre1, inp1, hstep, hs1⟩ := step_sync e he hdig _ hdn _ hp' d pre inp hs
          obtain ⟨π0, e', d2, pre2, inp2, hπ, hdec, h2, h3, h4, h5⟩ :=
            ih b π' rest a hf _ htbl1 _ (step_rest e he _ hdn) (step_dig e _ hdig) d1 pre1 inp1 hs1
          refine ⟨(.adaptive c, b) :: π0, e', d2, pre2, inp2, by rw [hπ]; rfl, ?_, h2, h3, h4, h5⟩
          simp only [decTree]
          simp only at hstep
          rw [hstep]
          exact hdec
        | direct =>
          have hdn : (⟨none, b⟩ : Decn).ok := by intro p hp; simp at hp
          have hp' := toDecns_ok pm π' _ htbl
          simp only [toDecns] at hs ⊢
          have heq : ∀ l, e.encodeAll (⟨none, b⟩ :: l) = (e.step ⟨none, b⟩).encodeAll l :=
            fun _ => rfl
          rw [heq] at hs ⊢
          obtain ⟨d1, pre1, inp1, hstep, hs1⟩ := step_sync e he hdig _ hdn _ hp' d pre inp hs
          obtain ⟨π0, e', d2, pre2, inp2, hπ, hdec, h2, h3, h4, h5⟩ :=
            ih b π' rest a hf _ htbl _ (step_rest e he _ hdn) (step_dig e _ hdig) d1 pre1 inp1 hs1
          refine ⟨(.direct, b) :: π0, e', d2, pre2, inp2, by rw [hπ]; rfl, ?_, h2, h3, h4, h5⟩
          simp only [decTree]
          simp only at hstep
          rw [hstep]
          exact hdec
      · simp at hf

/-! ### history sizes -/

theorem copyMatch_size (dist : Nat) : ∀ (n : Nat) (h : Hist),
    (h.copyMatch dist n).out.size = h.out.size + n := by
  intro n
  induction n with
  | zero => intro h; rfl
  | succ n ih =>
    intro h
    simp only [Hist.copyMatch]
    rw [ih]
    simp only [ByteArray.size_push]
    omega

theorem opLen_pos (op : RawOp) (h : op.wf) : 1 ≤ opLen op := by
  cases op <;> simp only [opLen, RawOp.wf] at * <;> omega

theorem applyOp_size (h : Hist) (s : St) (op : RawOp) (hok : OpOk h s op) :
    (h.applyOp (s.apply op) op).out.size = h.out.size + opLen op := by
  cases op with
  | lit b => simp only [Hist.applyOp, Hist.push, ByteArray.size_push, opLen]
  | mtch len dd =>
    simp only [Hist.applyOp, opLen]
    rw [if_neg hok.2.1, copyMatch_size]
  | rep g len => simp only [Hist.applyOp, opLen, copyMatch_size]
  | shortRep => simp only [Hist.applyOp, opLen, copyMatch_size]

theorem finalH_size (ops : List RawOp) : ∀ (s : St) (h : Hist), OpsOk s h ops →
    h.out.size + ops.length ≤ (finalH s h ops).out.size := by
  induction ops with
  | nil => intro s h _; simp [finalH]
  | cons op ops ih =>
    intro s h hok
    cases hok with
    | cons _ _ _ _ h1 h2 =>
      have := ih _ _ h2
      rw [applyOp_size h s op h1] at this
      have := opLen_pos op h1.1
      simp only [finalH, List.length_cons]
      omega

/-! ### one operation of the decoder loop -/

theorem decStep_op (p : Props) (s : St) (tbl : Tbl) (rd : Dec) (h : Hist) (acc : Array RawOp) (op : RawOp)
    (hok : OpOk h s op) (rest : Path) (htbl : tbl.ok) (E : Enc) (hE : E.Rest) (hD : E.Dig)
    (pre inp : List Nat)
    (hs : Sync E rd (E.encodeAll (toDecns pm tbl (opEnc (mkCtx p s h) op ++ rest))).close pre inp
      (E.encodeAll (toDecns pm tbl (opEnc (mkCtx p s h) op ++ rest))).digits) :
    ∃ E' rd' pre' inp',
      decStep p ⟨s, tbl, rd, h, acc⟩ =
        .cont ⟨s.apply op, tblAfter tbl (opEnc (mkCtx p s h) op), rd', h.applyOp (s.apply op) op, acc.push op⟩ ∧
      E'.Rest ∧ E'.Dig ∧
      Sync E' rd' (E'.encodeAll (toDecns pm (tblAfter tbl (opEnc (mkCtx p s h) op)) rest)).close pre' inp'
        (E'.encodeAll (toDecns pm (tblAfter tbl (opEnc (mkCtx p s h) op)) rest)).digits := by
  obtain ⟨π0, E', rd', pre', inp', hπ, hdec, h2, h3, _, h5⟩ :=
    tree_sync' (opDec (mkCtx p s h)) _ rest op (opDec_opEnc _ op hok.1 rest) tbl htbl E hE hD rd pre inp hs
  have hπ0 : opEnc (mkCtx p s h) op = π0 := List.append_cancel_right hπ
  rw [← hπ0] at hdec h5
  refine ⟨E', rd', pre', inp', ?_, h2, h3, h5⟩
  obtain ⟨hwf, happ⟩ := hok
  cases op with
  | lit b =>
    simp only [decStep, hdec]
    rfl
  | mtch len dd =>
    simp only [decStep, hdec]
    rw [if_neg happ.1]
    simp only [DecSt.copy, Hist.applyOp]
    rw [if_pos ⟨by omega, happ.2⟩, if_neg happ.1]
  | rep g len =>
    simp only [decStep, hdec]
    simp only [DecSt.copy, Hist.applyOp]
    rw [if_pos ⟨by omega, happ⟩]
  | shortRep =>
    simp only [decStep, hdec]
    simp only [DecSt.copy, Hist.applyOp]
    have : (s.apply RawOp.shortRep).r0 = s.r0 := rfl
    rw [if_pos ⟨by omega, by rw [this]; exact happ⟩]

theorem decSegment_cont (p : Props) (sz start : Nat) (snm : Bool) (fuel : Nat) (d d' : DecSt)
    (hne : sz ≠ d.h.out.size - start) (hstep : decStep p d = .cont d') :
    decSegment p (some sz) start snm (fuel + 1) d =
      if d'.h.out.size - start ≥ sz then
        (if d'.h.out.size - start > sz then ⟨d', .err "wrong uncompressed size", false⟩
         else decSegment.finish p snm d')
      else decSegment p (some sz) start snm fuel d' := by
  rw [decSegment]
  rw [if_neg (by simpa using hne)]
  rw [hstep]

/-! ### the decoder loop over a list of operations -/

theorem decSegment_ops (p : Props) (snm : Bool) (start : Nat) : ∀ (ops : List RawOp) (s : St) (tbl : Tbl)
    (h : Hist) (E : Enc) (rd : Dec) (pre inp : List Nat) (acc : Array RawOp) (fuel : Nat),
    ops ≠ [] → tbl.ok → E.Rest → E.Dig → OpsOk s h ops → start ≤ h.out.size → ops.length ≤ fuel →
    Sync E rd (E.encodeAll (toDecns pm tbl (opsPath p s h ops))).close pre inp
      (E.encodeAll (toDecns pm tbl (opsPath p s h ops))).digits →
    (decSegment p (some ((finalH s h ops).out.size - start)) start snm fuel ⟨s, tbl, rd, h, acc⟩).status = .eof ∧
    (decSegment p (some ((finalH s h ops).out.size - start)) start snm fuel ⟨s, tbl, rd, h, acc⟩).sawMarker = false ∧
    (decSegment p (some ((finalH s h ops).out.size - start)) start snm fuel ⟨s, tbl, rd, h, acc⟩).d.h = finalH s h ops ∧
    (decSegment p (some ((finalH s h ops).out.size - start)) start snm fuel ⟨s, tbl, rd, h, acc⟩).d.s = finalS s ops ∧
    (decSegment p (some ((finalH s h ops).out.size - start)) start snm fuel ⟨s, tbl, rd, h, acc⟩).d.tbl =
      tblAfter tbl (opsPath p s h ops) ∧
    (decSegment p (some ((finalH s h ops).out.size - start)) start snm fuel ⟨s, tbl, rd, h, acc⟩).d.ops =
      acc ++ ops.toArray ∧
    (decSegment p (some ((finalH s h ops).out.size - start)) start snm fuel ⟨s, tbl, rd, h, acc⟩).d.rd.inp = [] ∧
    (decSegment p (some ((finalH s h ops).out.size - start)) start snm fuel ⟨s, tbl, rd, h, acc⟩).d.rd.code = 0 := by
  intro ops
  induction ops with
  | nil => intro s tbl h E rd pre inp acc fuel hne; exact absurd rfl hne
  | cons op ops ih =>
    intro s tbl h E rd pre inp acc fuel _ htbl hE hD hok hstart hfuel hs
    cases hok with
    | cons _ _ _ _ hop hrest =>
    obtain ⟨fuel', rfl⟩ : ∃ f, fuel = f + 1 := ⟨fuel - 1, by simp only [List.length_cons] at hfuel; omega⟩
    simp only [opsPath] at hs
    obtain ⟨E', rd', pre', inp', hstep, hE', hD', hs'⟩ :=
      decStep_op p s tbl rd h acc op hop _ htbl E hE hD pre inp hs
    have hsz1 := applyOp_size h s op hop
    have hpos := opLen_pos op hop.1
    have hsz2 := finalH_size ops _ _ hrest
    have hfin : finalH s h (op :: ops) = finalH (s.apply op) (h.applyOp (s.apply op) op) ops := rfl
    have hfS : finalS s (op :: ops) = finalS (s.apply op) ops := rfl
    have hpath : tblAfter tbl (opsPath p s h (op :: ops)) =
        tblAfter (tblAfter tbl (opEnc (mkCtx p s h) op)) (opsPath p (s.apply op) (h.applyOp (s.apply op) op) ops) := by
      simp only [opsPath, tblAfter_append]
    rw [hfin, hfS, hpath]
    rw [decSegment_cont p _ start snm fuel' _ _ (by dsimp only; omega) hstep]
    dsimp only
    by_cases hnil : ops = []
    · subst hnil
      simp only [finalH, opsPath, toDecns, tblAfter, finalS] at hs' ⊢
      have hEE : E'.encodeAll [] = E' := rfl
      rw [hEE] at hs'
      obtain ⟨hc, hi⟩ := end_sync E' hE' hD' rd' pre' inp' hs'
      simp only [ge_iff_le, gt_iff_lt, Nat.le_refl, Nat.lt_irrefl, ↓reduceIte]
      simp only [decSegment.finish]
      rw [if_pos hc]
      refine ⟨rfl, rfl, rfl, rfl, rfl, ?_, hi, hc⟩
      simp
    · have hlen : 1 ≤ ops.length := by
        rcases ops with _ | ⟨o, os⟩
        · exact absurd rfl hnil
        · simp
      rw [if_neg (by omega)]
      have := ih (s.apply op) (tblAfter tbl (opEnc (mkCtx p s h) op)) (h.applyOp (s.apply op) op) E' rd'
        pre' inp' (acc.push op) fuel' hnil (tblAfter_ok _ _ htbl) hE' hD' hrest (by omega)
        (by simp only [List.length_cons] at hfuel; omega) hs'
      obtain ⟨a1, a2, a3, a4, a5, a6, a7, a8⟩ := this
      refine ⟨a1, a2, a3, a4, a5, ?_, a7, a8⟩
      rw [a6]
      simp

/-- Segment round trip: the decoder loop, run on the bytes the encoder produces for any list of applicable operations, returns
    exactly those operations, the same history, state and probability table, consumes every byte and ends cleanly. -/
theorem segment_roundtrip (p : Props) (strictNoMarker : Bool) (s : St) (tbl : Tbl) (htbl : tbl.ok) (h : Hist)
    (ops : List RawOp) (hops : OpsOk s h ops) (hne : ops ≠ []) :
    let x := encodeOps p s tbl h ops
    let body := encClose x
    let n := x.h.out.size - h.out.size
    ∃ rd, Dec.init (bytesToList body 0 body.size) = some rd ∧
      let res := decSegment p (some n) h.out.size strictNoMarker (n + 2) { s := s, tbl := tbl, rd := rd, h := h }
      res.status = .eof ∧ res.sawMarker = false ∧ res.d.h = x.h ∧ res.d.s = x.s ∧ res.d.tbl = x.tbl ∧
      res.d.ops = ops.toArray ∧ res.d.rd.inp = [] ∧ res.d.rd.code = 0 := by
  intro x body n
  obtain ⟨hbytes, hxs, hxt, hxh⟩ := encodeOps_bytes p s tbl htbl h ops
  obtain ⟨rd, pre, inp, hinit, hsync⟩ :=
    init_sync (toDecns pm tbl (opsPath p s h ops)) (toDecns_ok pm _ tbl htbl)
  refine ⟨rd, ?_, ?_⟩
  · rw [bytesToList_eq]
    show Dec.init (blist (encClose (encodeOps p s tbl h ops))) = some rd
    rw [hbytes]
    exact hinit
  · have hsz := finalH_size ops s h hops
    have hn : n = (finalH s h ops).out.size - h.out.size := by
      show (encodeOps p s tbl h ops).h.out.size - h.out.size = _
      rw [hxh]
    have hdig0 : Enc.init.Dig := by simp [Enc.Dig, Enc.init]
    have := decSegment_ops p strictNoMarker h.out.size ops s tbl h Enc.init rd pre inp #[] (n + 2)
      hne htbl init_rest hdig0 hops (Nat.le_refl _) (by omega) hsync
    rw [← hn] at this
    obtain ⟨a1, a2, a3, a4, a5, a6, a7, a8⟩ := this
    refine ⟨a1, a2, ?_, ?_, ?_, ?_, a7, a8⟩
    · rw [a3]; exact hxh.symm
    · rw [a4]; exact hxs.symm
    · rw [a5]; exact hxt.symm
    · rw [a6]; simp

#print axioms Lzma.segment_roundtrip

end Lzma
