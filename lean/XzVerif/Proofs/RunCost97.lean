import XzVerif.Proofs.RunGen3
import XzVerif.Proofs.RunCost128

/-!
  C17 clause 1 with the irregular operations charged by kind (Proofs/RunKStep.lean): a literal costs 63 bits
  (9 decisions), `rep0` 98 bits (14 decisions), any other operation at a distance ≤ 4 at most 126 bits, an
  arbitrary one 203 bits (7 bits per adaptive decision).  HashTable4: `n / 500 + 97`
  = (299 initial potential + 63 literal + 98 + 98 two `rep0` before state 11 + 126 short operation ending the
  chunk) / 8 + 12; BinaryTree: `n / 500 + 117` (its start-up is literal, one operation at distance < 3 charged 126,
  match at distance 3 charged 126, `rep0` 98: 413 bits).
-/

namespace RunCost
open W2 Lzma Rc

theorem dbtB_ht : dbtB 0 1 {} 0 = 259 := by decide

/-- **HashTable4: `n / 500 + 97`** -/
theorem run_compresses_97 (c : Cfg) (hc : CfgOk c) (hd : 65536 ≤ c.dictCap) (b : UInt8) (n : Nat) :
    (lzma2OfRun c b n).size ≤ n / 500 + 97 :=
  (run_size_k c hc hd b HT.HT4 (HT.Synced c) (HT.ht4_matcherInv c) (HT.St.new c.dictCap c.bufSize)
    (HT.synced_new c) 0 1 (ht4_runSpec c hc b) n).1 (by rw [dbtB_ht])

/-- **BinaryTree: `n / 500 + 117`** -/
theorem run_compresses_117_bt (c : Cfg) (hc : CfgOk c) (hd : 65536 ≤ c.dictCap) (b : UInt8) (n : Nat) :
    (lzma2OfRunBT c b n).size ≤ n / 500 + 117 :=
  (run_size_k c hc hd b BT.BT4 (BT.Synced c) (BT.bt4_matcherInv c) (BT.St.new c.dictCap c.bufSize)
    (BT.synced_new c) 2 3 (bt4_runSpec c hc (by omega) b) n).2

end RunCost

#print axioms RunCost.run_compresses_97
#print axioms RunCost.run_compresses_117_bt
