import XzVerif.Gen.GoSrc
import XzVerif.Gen.Consts
/-
  Proofs.GoSrcHdr — the REGENERATED translation of lzma/header.go (`uint32LE`, `uint64LE`, `header.unmarshalBinary`: the
  13-byte classic .lzma header — properties byte, little-endian dictionary size, little-endian uncompressed size with
  2^64−1 = "unknown" and values ≥ 2^63 rejected —, `validDictCap`) against an explicit description of the fields.
  Statements are fixed; only proofs may change.
-/
namespace GoSrcP
open GoSrc

/-- little-endian value of `n` bytes of `data` from offset `o` -/
def leVal (data : Array (BitVec 8)) (o : Nat) : Nat → Nat
  | 0 => 0
  | n + 1 => (data.getD o 0#8).toNat + 256 * leVal data (o + 1) n


/-! ### helpers -/

theorem hdr_or_eq_add (k x y : Nat) (hx : 2 ^ k ∣ x) (hy : y < 2 ^ k) : x ||| y = x + y := by
  obtain ⟨c, rfl⟩ := hx
  rw [Nat.mul_comm, ← Nat.shiftLeft_eq, Nat.shiftLeft_add_eq_or_of_lt hy]

theorem hdr_extract_getD (data : Array (BitVec 8)) (lo hi i : Nat) (h : hi ≤ data.size) (hi' : lo + i < hi) :
    (data.extract lo hi).getD i 0#8 = data.getD (lo + i) 0#8 := by
  simp only [Array.getD_eq_getD_getElem?, Array.getElem?_extract]
  rw [if_pos (by omega)]

theorem hdr_u32_lemma (b0 b1 b2 b3 : BitVec 8) :
    ((((BitVec.shiftLeft (BitVec.setWidth 32 b3) 24) ||| (BitVec.shiftLeft (BitVec.setWidth 32 b2) 16))
      ||| (BitVec.shiftLeft (BitVec.setWidth 32 b1) 8)) ||| (BitVec.setWidth 32 b0)).toNat
      = b0.toNat + 256 * (b1.toNat + 256 * (b2.toNat + 256 * (b3.toNat + 256 * 0))) := by
  have h0 := b0.isLt; have h1 := b1.isLt; have h2 := b2.isLt; have h3 := b3.isLt
  simp only [BitVec.shiftLeft_eq, BitVec.toNat_or, BitVec.toNat_shiftLeft, BitVec.toNat_setWidth, Nat.shiftLeft_eq]
  rw [Nat.mod_eq_of_lt (by omega : b0.toNat < 2 ^ 32), Nat.mod_eq_of_lt (by omega : b1.toNat < 2 ^ 32),
    Nat.mod_eq_of_lt (by omega : b2.toNat < 2 ^ 32), Nat.mod_eq_of_lt (by omega : b3.toNat < 2 ^ 32),
    Nat.mod_eq_of_lt (by omega : b1.toNat * 2 ^ 8 < 2 ^ 32), Nat.mod_eq_of_lt (by omega : b2.toNat * 2 ^ 16 < 2 ^ 32),
    Nat.mod_eq_of_lt (by omega : b3.toNat * 2 ^ 24 < 2 ^ 32)]
  rw [hdr_or_eq_add 24 _ (b2.toNat * 2 ^ 16) (by omega) (by omega),
    hdr_or_eq_add 16 _ (b1.toNat * 2 ^ 8) (by omega) (by omega),
    hdr_or_eq_add 8 _ b0.toNat (by omega) (by omega)]
  omega

theorem hdr_u64_lemma (b0 b1 b2 b3 b4 b5 b6 b7 : BitVec 8) :
    ((((((((BitVec.shiftLeft (BitVec.setWidth 64 b7) 56) ||| (BitVec.shiftLeft (BitVec.setWidth 64 b6) 48))
      ||| (BitVec.shiftLeft (BitVec.setWidth 64 b5) 40)) ||| (BitVec.shiftLeft (BitVec.setWidth 64 b4) 32))
      ||| (BitVec.shiftLeft (BitVec.setWidth 64 b3) 24)) ||| (BitVec.shiftLeft (BitVec.setWidth 64 b2) 16))
      ||| (BitVec.shiftLeft (BitVec.setWidth 64 b1) 8)) ||| (BitVec.setWidth 64 b0)).toNat
      = b0.toNat + 256 * (b1.toNat + 256 * (b2.toNat + 256 * (b3.toNat + 256 * (b4.toNat + 256 * (b5.toNat
          + 256 * (b6.toNat + 256 * (b7.toNat + 256 * 0))))))) := by
  have h0 := b0.isLt; have h1 := b1.isLt; have h2 := b2.isLt; have h3 := b3.isLt
  have h4 := b4.isLt; have h5 := b5.isLt; have h6 := b6.isLt; have h7 := b7.isLt
  simp only [BitVec.shiftLeft_eq, BitVec.toNat_or, BitVec.toNat_shiftLeft, BitVec.toNat_setWidth, Nat.shiftLeft_eq]
  rw [Nat.mod_eq_of_lt (by omega : b0.toNat < 2 ^ 64), Nat.mod_eq_of_lt (by omega : b1.toNat < 2 ^ 64),
    Nat.mod_eq_of_lt (by omega : b2.toNat < 2 ^ 64), Nat.mod_eq_of_lt (by omega : b3.toNat < 2 ^ 64),
    Nat.mod_eq_of_lt (by omega : b4.toNat < 2 ^ 64), Nat.mod_eq_of_lt (by omega : b5.toNat < 2 ^ 64),
    Nat.mod_eq_of_lt (by omega : b6.toNat < 2 ^ 64), Nat.mod_eq_of_lt (by omega : b7.toNat < 2 ^ 64),
    Nat.mod_eq_of_lt (by omega : b1.toNat * 2 ^ 8 < 2 ^ 64), Nat.mod_eq_of_lt (by omega : b2.toNat * 2 ^ 16 < 2 ^ 64),
    Nat.mod_eq_of_lt (by omega : b3.toNat * 2 ^ 24 < 2 ^ 64), Nat.mod_eq_of_lt (by omega : b4.toNat * 2 ^ 32 < 2 ^ 64),
    Nat.mod_eq_of_lt (by omega : b5.toNat * 2 ^ 40 < 2 ^ 64), Nat.mod_eq_of_lt (by omega : b6.toNat * 2 ^ 48 < 2 ^ 64),
    Nat.mod_eq_of_lt (by omega : b7.toNat * 2 ^ 56 < 2 ^ 64)]
  rw [hdr_or_eq_add 56 _ (b6.toNat * 2 ^ 48) (by omega) (by omega),
    hdr_or_eq_add 48 _ (b5.toNat * 2 ^ 40) (by omega) (by omega),
    hdr_or_eq_add 40 _ (b4.toNat * 2 ^ 32) (by omega) (by omega),
    hdr_or_eq_add 32 _ (b3.toNat * 2 ^ 24) (by omega) (by omega),
    hdr_or_eq_add 24 _ (b2.toNat * 2 ^ 16) (by omega) (by omega),
    hdr_or_eq_add 16 _ (b1.toNat * 2 ^ 8) (by omega) (by omega),
    hdr_or_eq_add 8 _ b0.toNat (by omega) (by omega)]
  omega

theorem hdr_uint32LE_extract (data : Array (BitVec 8)) (lo : Nat) (h : lo + 4 ≤ data.size) :
    ∃ r, uint32LE (data.extract lo data.size) = Go.Res.ok r ∧ r.toNat = leVal data lo 4 := by
  have hs : 4 ≤ (data.extract lo data.size).size := by rw [Array.size_extract]; omega
  unfold uint32LE
  have e0 : (0#64).toInt = 0 := rfl
  have e1 : (1#64).toInt = 1 := rfl
  have e2 : (2#64).toInt = 2 := rfl
  have e3 : (3#64).toInt = 3 := rfl
  simp only [e0, e1, e2, e3]
  rw [if_neg (by simp; omega), if_neg (by simp; omega), if_neg (by simp; omega), if_neg (by simp; omega)]
  refine ⟨_, rfl, ?_⟩
  rw [hdr_u32_lemma]
  have g : ∀ i, i < 4 → (data.extract lo data.size).getD i 0#8 = data.getD (lo + i) 0#8 :=
    fun i hi => hdr_extract_getD _ _ _ _ (Nat.le_refl _) (by omega)
  simp only [leVal, Int.toNat_zero, Int.toNat_one]
  rw [show Int.toNat 2 = 2 from rfl, show Int.toNat 3 = 3 from rfl, g 0 (by omega), g 1 (by omega), g 2 (by omega),
    g 3 (by omega)]
  simp only [Nat.add_zero, Nat.add_assoc]

theorem hdr_uint64LE_extract (data : Array (BitVec 8)) (lo : Nat) (h : lo + 8 ≤ data.size) :
    ∃ r, uint64LE (data.extract lo data.size) = Go.Res.ok r ∧ r.toNat = leVal data lo 8 := by
  have hs : 8 ≤ (data.extract lo data.size).size := by rw [Array.size_extract]; omega
  unfold uint64LE
  have e0 : (0#64).toInt = 0 := rfl
  have e1 : (1#64).toInt = 1 := rfl
  have e2 : (2#64).toInt = 2 := rfl
  have e3 : (3#64).toInt = 3 := rfl
  have e4 : (4#64).toInt = 4 := rfl
  have e5 : (5#64).toInt = 5 := rfl
  have e6 : (6#64).toInt = 6 := rfl
  have e7 : (7#64).toInt = 7 := rfl
  simp only [e0, e1, e2, e3, e4, e5, e6, e7]
  rw [if_neg (by simp; omega), if_neg (by simp; omega), if_neg (by simp; omega), if_neg (by simp; omega),
    if_neg (by simp; omega), if_neg (by simp; omega), if_neg (by simp; omega), if_neg (by simp; omega)]
  refine ⟨_, rfl, ?_⟩
  rw [hdr_u64_lemma]
  have g : ∀ i, i < 8 → (data.extract lo data.size).getD i 0#8 = data.getD (lo + i) 0#8 :=
    fun i hi => hdr_extract_getD _ _ _ _ (Nat.le_refl _) (by omega)
  simp only [leVal, Int.toNat_zero, Int.toNat_one]
  rw [show Int.toNat 2 = 2 from rfl, show Int.toNat 3 = 3 from rfl, show Int.toNat 4 = 4 from rfl,
    show Int.toNat 5 = 5 from rfl, show Int.toNat 6 = 6 from rfl, show Int.toNat 7 = 7 from rfl,
    g 0 (by omega), g 1 (by omega), g 2 (by omega), g 3 (by omega), g 4 (by omega), g 5 (by omega), g 6 (by omega),
    g 7 (by omega)]
  simp only [Nat.add_zero, Nat.add_assoc]

theorem header_unmarshal_wrong_length (h : T_header) (data : Array (BitVec 8)) (hl : data.size ≠ 13) (hs : data.size < 2 ^ 62) :
    header_unmarshalBinary h data = Go.Res.ok (Go.Err.new "lzma.unmarshalBinary: data has wrong length", h) := by
  unfold header_unmarshalBinary
  have hne : (BitVec.ofNat 64 data.size != 13#64) = true := by
    rw [bne_iff_ne]; intro hc
    have h1 := congrArg BitVec.toNat hc
    have e : (13#64).toNat = 13 := rfl
    rw [BitVec.toNat_ofNat, e] at h1
    omega
  rw [if_pos hne]

theorem header_unmarshal_spec (h : T_header) (data : Array (BitVec 8)) (hl : data.size = 13) :
    let c := (data.getD 0 0#8).toNat
    let dc := leVal data 1 4
    let sz := leVal data 5 8
    if 224 < c then
      ∃ h', header_unmarshalBinary h data = Go.Res.ok (Go.Err.new "lzma: invalid properties code", h')
    else if sz ≠ 2 ^ 64 - 1 ∧ 2 ^ 63 ≤ sz then
      ∃ h', header_unmarshalBinary h data = Go.Res.ok (Go.Err.new "LZMA header: uncompressed size out of int64 range", h')
    else
      ∃ h', header_unmarshalBinary h data = Go.Res.ok (Go.Err.nil, h') ∧
        h'.properties = (PropertiesForCode (data.getD 0 0#8)).1 ∧
        h'.dictCap.toNat = dc ∧
        h'.size = (if sz = 2 ^ 64 - 1 then BitVec.ofInt 64 (-1) else BitVec.ofNat 64 sz) := by
  intro c dc sz
  clear_value (hcdef : c = _) (hdcdef : dc = _) (hszdef : sz = _)
  have hsz : (BitVec.ofNat 64 data.size != 13#64) = false := by rw [hl]; rfl
  obtain ⟨r32, h32, v32⟩ := hdr_uint32LE_extract data 1 (by omega)
  obtain ⟨r64, h64, v64⟩ := hdr_uint64LE_extract data 5 (by omega)
  rw [← hdcdef] at v32; rw [← hszdef] at v64
  have e0 : (0#64).toInt = 0 := rfl
  generalize hR : header_unmarshalBinary h data = R
  unfold header_unmarshalBinary at hR
  simp only [hsz, Bool.false_eq_true, if_false, e0, Int.toNat_zero] at hR
  rw [if_neg (by omega)] at hR
  by_cases hc : 224 < c
  · rw [if_pos hc]
    have hp : PropertiesForCode (data.getD 0 0#8) =
        ((default : T_Properties), Go.Err.new "lzma: invalid properties code") := by
      unfold PropertiesForCode
      rw [if_pos (by rw [BitVec.ult, decide_eq_true_iff]; rw [hcdef] at hc; exact hc)]
    simp only [hp] at hR
    rw [if_pos (by decide)] at hR
    exact ⟨_, hR.symm⟩
  · rw [if_neg hc]
    have hp2 : (PropertiesForCode (data.getD 0 0#8)).2 = Go.Err.nil := by
      unfold PropertiesForCode
      rw [if_neg (by rw [BitVec.ult, decide_eq_true_iff]; rw [hcdef] at hc; exact hc)]
    rcases hpe : PropertiesForCode (data.getD 0 0#8) with ⟨p, e⟩
    rw [hpe] at hp2 hR
    simp only at hp2
    subst hp2
    simp only [] at hR
    rw [if_neg (by decide), if_neg (by omega), h32, Go.Res.bind_ok] at hR
    have hr32 := r32.isLt
    have hd : (BitVec.setWidth 64 r32).toNat = r32.toNat := by
      rw [BitVec.toNat_setWidth]; omega
    have hs1 : (BitVec.setWidth 64 r32).slt 0#64 = false := by
      rw [Bool.eq_false_iff]; intro hh
      simp only [BitVec.slt, BitVec.toInt_eq_toNat_cond, decide_eq_true_iff, hd] at hh
      simp at hh; omega
    rw [hs1] at hR
    simp only [Bool.false_eq_true, if_false] at hR
    rw [if_neg (by omega), h64, Go.Res.bind_ok] at hR
    have hr64 := r64.isLt
    have hbeq : (r64 == 18446744073709551615#64) = decide (sz = 2 ^ 64 - 1) := by
      rw [Bool.eq_iff_iff, beq_iff_eq, decide_eq_true_iff, ← BitVec.toNat_inj, v64]; rfl
    have hslt : r64.slt 0#64 = decide (2 ^ 63 ≤ sz) := by
      rw [Bool.eq_iff_iff]
      simp only [BitVec.slt, BitVec.toInt_eq_toNat_cond, decide_eq_true_iff, v64]
      simp; omega
    rw [hbeq, hslt] at hR
    by_cases h1 : sz = 2 ^ 64 - 1
    · rw [if_neg (by omega), if_pos h1]
      rw [if_pos (by simpa using h1)] at hR
      exact ⟨_, hR.symm, rfl, by simp only [hd, v32], rfl⟩
    · rw [if_neg (by simpa using h1)] at hR
      by_cases h2 : 2 ^ 63 ≤ sz
      · rw [if_pos ⟨h1, h2⟩]
        rw [if_pos (by simpa using h2)] at hR
        exact ⟨_, hR.symm⟩
      · rw [if_neg (by omega), if_neg h1]
        rw [if_neg (by simpa using h2)] at hR
        refine ⟨_, hR.symm, rfl, by simp only [hd, v32], ?_⟩
        simp only [← v64, BitVec.ofNat_toNat, BitVec.setWidth_eq]

open Classical in
theorem hdr_validDictCap_loop (d : BitVec 64) : ∀ (fuel n : Nat), 10 ≤ n → n ≤ 32 → 32 - n < fuel →
    validDictCap_loop1 fuel d (BitVec.ofNat 64 n) =
      if ∃ k, n ≤ k ∧ k < 32 ∧ (d.toNat = 2 ^ k ∨ d.toNat = 2 ^ k + 2 ^ (k - 1))
      then Go.Res.ok (Sum.inl true) else Go.Res.ok (Sum.inr (d, 32#64)) := by
  intro fuel
  induction fuel with
  | zero => intro n _ _ h; omega
  | succ f ih =>
    intro n h10 h32 hf
    have hn : (BitVec.ofNat 64 n).toNat = n := by rw [BitVec.toNat_ofNat]; omega
    unfold validDictCap_loop1
    by_cases hlt : n < 32
    · have hult : (BitVec.ofNat 64 n).ult 32#64 = true := by
        rw [BitVec.ult, decide_eq_true_iff, hn]; exact hlt
      rw [if_pos hult]
      have hpn : 2 ^ n < 2 ^ 63 := Nat.pow_lt_pow_right (by omega) (by omega)
      have hpn1 : 2 ^ (n - 1) < 2 ^ 63 := Nat.pow_lt_pow_right (by omega) (by omega)
      have hn1 : (BitVec.ofNat 64 n - 1#64).toNat = n - 1 := by
        have e1 : (1#64).toNat = 1 := rfl
        rw [BitVec.toNat_sub, hn, e1]; omega
      have hp1 : (BitVec.shiftLeft 1#64 (BitVec.ofNat 64 n).toNat).toNat = 2 ^ n := by
        have e1 : (1#64).toNat = 1 := rfl
        rw [hn, BitVec.shiftLeft_eq, BitVec.toNat_shiftLeft, e1, Nat.shiftLeft_eq, Nat.one_mul, Nat.mod_eq_of_lt (by omega)]
      have hp2 : (BitVec.shiftLeft 1#64 (BitVec.ofNat 64 n - 1#64).toNat).toNat = 2 ^ (n - 1) := by
        have e1 : (1#64).toNat = 1 := rfl
        rw [hn1, BitVec.shiftLeft_eq, BitVec.toNat_shiftLeft, e1, Nat.shiftLeft_eq, Nat.one_mul, Nat.mod_eq_of_lt (by omega)]
      have hb1 : (d == BitVec.shiftLeft 1#64 (BitVec.ofNat 64 n).toNat) = decide (d.toNat = 2 ^ n) := by
        rw [Bool.eq_iff_iff, beq_iff_eq, decide_eq_true_iff, ← BitVec.toNat_inj, hp1]
      have hb2 : (d == BitVec.shiftLeft 1#64 (BitVec.ofNat 64 n).toNat
          + BitVec.shiftLeft 1#64 (BitVec.ofNat 64 n - 1#64).toNat) = decide (d.toNat = 2 ^ n + 2 ^ (n - 1)) := by
        rw [Bool.eq_iff_iff, beq_iff_eq, decide_eq_true_iff, ← BitVec.toNat_inj, BitVec.toNat_add, hp1, hp2,
          Nat.mod_eq_of_lt (by omega)]
      rw [hb1, hb2]
      by_cases c1 : d.toNat = 2 ^ n
      · rw [if_pos (by simpa using c1), if_pos ⟨n, Nat.le_refl _, hlt, Or.inl c1⟩]
      · rw [if_neg (by simpa using c1)]
        by_cases c2 : d.toNat = 2 ^ n + 2 ^ (n - 1)
        · rw [if_pos (by simpa using c2), if_pos ⟨n, Nat.le_refl _, hlt, Or.inr c2⟩]
        · rw [if_neg (by simpa using c2)]
          have hnext : BitVec.ofNat 64 n + 1#64 = BitVec.ofNat 64 (n + 1) := by
            rw [← BitVec.toNat_inj, BitVec.toNat_add, hn, BitVec.toNat_ofNat]; rfl
          rw [hnext, ih (n + 1) (by omega) (by omega) (by omega)]
          have hiff : (∃ k, n + 1 ≤ k ∧ k < 32 ∧ (d.toNat = 2 ^ k ∨ d.toNat = 2 ^ k + 2 ^ (k - 1))) ↔
              (∃ k, n ≤ k ∧ k < 32 ∧ (d.toNat = 2 ^ k ∨ d.toNat = 2 ^ k + 2 ^ (k - 1))) := by
            constructor
            · rintro ⟨k, h1, h2, h3⟩; exact ⟨k, by omega, h2, h3⟩
            · rintro ⟨k, h1, h2, h3⟩
              by_cases hk : k = n
              · subst hk; rcases h3 with h3 | h3
                · exact absurd h3 c1
                · exact absurd h3 c2
              · exact ⟨k, by omega, h2, h3⟩
          simp only [hiff]
    · have hult : ¬ ((BitVec.ofNat 64 n).ult 32#64 = true) := by
        rw [BitVec.ult, decide_eq_true_iff, hn]; exact hlt
      rw [if_neg hult, if_neg (by rintro ⟨k, h1, h2, _⟩; omega)]
      have : n = 32 := by omega
      subst this; rfl

/-- `validDictCap`: 2^32 − 1, or 2^n, or 2^n + 2^(n−1) for 10 ≤ n < 32 -/
theorem validDictCap_spec (d : BitVec 64) (fuel : Nat) (hf : 40 ≤ fuel) :
    validDictCap fuel d = Go.Res.ok (decide (d.toNat = 2 ^ 32 - 1) ||
      (List.range 32).any (fun n => decide (10 ≤ n) && (decide (d.toNat = 2 ^ n) || decide (d.toNat = 2 ^ n + 2 ^ (n - 1))))) := by
  unfold validDictCap
  have hb : (d == 4294967295#64) = decide (d.toNat = 2 ^ 32 - 1) := by
    rw [Bool.eq_iff_iff, beq_iff_eq, decide_eq_true_iff, ← BitVec.toNat_inj]; rfl
  rw [hb]
  by_cases c0 : d.toNat = 2 ^ 32 - 1
  · rw [if_pos (by simpa using c0), decide_eq_true c0, Bool.true_or]
  · rw [if_neg (by simpa using c0), decide_eq_false c0, Bool.false_or]
    show Go.Res.bind (validDictCap_loop1 fuel d (BitVec.ofNat 64 10)) _ = _
    rw [hdr_validDictCap_loop d fuel 10 (by omega) (by omega) (by omega)]
    by_cases hex : ∃ k, 10 ≤ k ∧ k < 32 ∧ (d.toNat = 2 ^ k ∨ d.toNat = 2 ^ k + 2 ^ (k - 1))
    · rw [if_pos hex, Go.Res.bind_ok]
      obtain ⟨k, h1, h2, h3⟩ := hex
      have : (List.range 32).any (fun n => decide (10 ≤ n) &&
          (decide (d.toNat = 2 ^ n) || decide (d.toNat = 2 ^ n + 2 ^ (n - 1)))) = true := by
        rw [List.any_eq_true]
        refine ⟨k, List.mem_range.mpr h2, ?_⟩
        simpa using ⟨h1, h3⟩
      rw [this]
    · rw [if_neg hex, Go.Res.bind_ok]
      have : (List.range 32).any (fun n => decide (10 ≤ n) &&
          (decide (d.toNat = 2 ^ n) || decide (d.toNat = 2 ^ n + 2 ^ (n - 1)))) = false := by
        rw [Bool.eq_false_iff, Ne, List.any_eq_true]
        rintro ⟨k, hk, hp⟩
        simp at hp
        exact hex ⟨k, hp.1, List.mem_range.mp hk, hp.2⟩
      rw [this]

end GoSrcP
