import XzVerif.Model.XzW

/-! Block bookkeeping of the xz writer model with the bytes themselves (`XzW.split`). -/

namespace XzW

/-- all bytes of a list of pieces (same as `XzW.written` of Proofs/XzW.lean) -/
def cat : List ByteArray → ByteArray
  | [] => ByteArray.empty
  | p :: ps => p ++ cat ps

theorem cat_append (a b : List ByteArray) : cat (a ++ b) = cat a ++ cat b := by
  induction a with
  | nil => simp only [List.nil_append, cat, ByteArray.empty_append]
  | cons x a ih => simp only [List.cons_append, cat, ih, ByteArray.append_assoc]

theorem cat_single (x : ByteArray) : cat [x] = x := by
  simp only [cat, ByteArray.append_empty]

theorem cat_flatten_snoc (bl : List (List ByteArray)) (b : List ByteArray) :
    cat (bl ++ [b]).flatten = cat bl.flatten ++ cat b := by
  rw [List.flatten_append, cat_append]
  simp only [List.flatten_cons, List.flatten_nil, List.append_nil]

/-- invariant of the state `(closed blocks, pieces of the open block, bytes in the open block)` -/
structure SInv (bs : Nat) (st : List (List ByteArray) × List ByteArray × Nat) (D : ByteArray) : Prop where
  n : st.2.2 = (cat st.2.1).size
  le : st.2.2 ≤ bs
  full : ∀ b ∈ st.1, (cat b).size = bs
  data : cat st.1.flatten ++ cat st.2.1 = D

theorem writeLoop_spec (bs : Nat) (hbs : 1 ≤ bs) (p : ByteArray) : ∀ (fuel : Nat) (blocks : List (List ByteArray))
    (cur : List ByteArray) (n off : Nat) (D : ByteArray), SInv bs (blocks, cur, n) D → off ≤ p.size →
    (p.size - off) + 1 + (if n = bs then 1 else 0) ≤ fuel →
    SInv bs (writeLoop bs fuel (blocks, cur, n) p off) (D ++ p.extract off p.size) := by
  intro fuel
  induction fuel with
  | zero => intro blocks cur n off D _ _ h; omega
  | succ fuel ih =>
    intro blocks cur n off D hinv hoff hf
    obtain ⟨h1, h2, h3, h4⟩ := hinv
    dsimp only at h1 h2 h3 h4
    rw [writeLoop]
    by_cases hgt : p.size - off > bs - n
    · rw [if_pos hgt]
      have hxs : (p.extract off (off + (bs - n))).size = bs - n := by
        rw [ByteArray.size_extract]; omega
      have hsplit : p.extract off (off + (bs - n)) ++ p.extract (off + (bs - n)) p.size = p.extract off p.size := by
        rw [ByteArray.extract_append_extract]
        congr 1 <;> omega
      have := ih (blocks ++ [cur ++ [p.extract off (off + (bs - n))]]) [] 0 (off + (bs - n))
        (D ++ p.extract off (off + (bs - n))) ?_ (by omega) ?_
      · rw [ByteArray.append_assoc, hsplit] at this
        exact this
      · refine ⟨rfl, Nat.zero_le _, ?_, ?_⟩
        · intro b hb
          rw [List.mem_append, List.mem_singleton] at hb
          rcases hb with hb | rfl
          · exact h3 b hb
          · rw [cat_append, cat_single, ByteArray.size_append, hxs, ← h1]; omega
        · show cat (blocks ++ [cur ++ [p.extract off (off + (bs - n))]]).flatten ++ cat [] = _
          rw [cat_flatten_snoc, cat_append, cat_single]
          simp only [cat, ByteArray.append_empty]
          rw [← ByteArray.append_assoc, h4]
      · have : ¬ (0 = bs) := by omega
        rw [if_neg this]
        by_cases hn : n = bs
        · rw [if_pos hn] at hf; omega
        · rw [if_neg hn] at hf; omega
    · rw [if_neg hgt]
      refine ⟨?_, ?_, h3, ?_⟩
      · show n + (p.size - off) = (cat (cur ++ [p.extract off p.size])).size
        rw [cat_append, cat_single, ByteArray.size_append, ByteArray.size_extract, ← h1]; omega
      · show n + (p.size - off) ≤ bs
        omega
      · show cat blocks.flatten ++ cat (cur ++ [p.extract off p.size]) = _
        rw [cat_append, cat_single, ← ByteArray.append_assoc, h4]

theorem foldl_spec (bs : Nat) (hbs : 1 ≤ bs) : ∀ (writes : List ByteArray)
    (st : List (List ByteArray) × List ByteArray × Nat) (D : ByteArray), SInv bs st D →
    SInv bs (writes.foldl (fun st p => writeLoop bs (p.size + 2) st p 0) st) (D ++ cat writes) := by
  intro writes
  induction writes with
  | nil => intro st D h; simp only [List.foldl_nil, cat, ByteArray.append_empty]; exact h
  | cons p ps ih =>
    intro st D h
    obtain ⟨blocks, cur, n⟩ := st
    simp only [List.foldl_cons, cat]
    have := writeLoop_spec bs hbs p (p.size + 2) blocks cur n 0 D h (Nat.zero_le _) (by split <;> omega)
    rw [ByteArray.extract_zero_size] at this
    have := ih _ _ this
    rw [ByteArray.append_assoc] at this
    exact this

theorem split_cat (bs : Nat) (hbs : 1 ≤ bs) (writes : List ByteArray) :
    cat ((split bs writes).flatten) = cat writes ∧
    (∀ b ∈ (split bs writes).dropLast, (cat b).size = bs) ∧
    (∀ b, (split bs writes).getLast? = some b → (cat b).size ≤ bs) ∧
    split bs writes ≠ [] := by
  have h := foldl_spec bs hbs writes ([], [], 0) ByteArray.empty
    ⟨rfl, Nat.zero_le _, (by intro b hb; cases hb), (by simp [cat])⟩
  unfold split
  generalize writes.foldl (fun st p => writeLoop bs (p.size + 2) st p 0) ([], [], 0) = st at h
  obtain ⟨blocks, cur, n⟩ := st
  obtain ⟨h1, h2, h3, h4⟩ := h
  dsimp only at h1 h2 h3 h4 ⊢
  refine ⟨?_, ?_, ?_, by simp⟩
  · rw [cat_flatten_snoc, h4, ByteArray.empty_append]
  · rw [List.dropLast_concat]; exact h3
  · intro b hb
    rw [List.getLast?_concat] at hb
    cases hb
    omega

end XzW
