import XzVerif.Proofs.RunPot
import XzVerif.Proofs.RunProposal
import XzVerif.Proofs.Writer2Size

/-!
  The operations of the LZMA2 writer model inside a run of one byte value: numeric constants of the cost analysis,
  what an operation does to the coder (`encodeOp_ok`), the steady-state operation `rep0 273` in state 11 asks
  expected symbols only (`reg_path`), and the bookkeeping of irregular operations (`dbt`).
-/

set_option linter.unusedSimpArgs false
set_option linter.unusedVariables false

namespace RunCost
open Lzma Rc W2

/-! ### numeric constants -/

/-- cost bound of one arbitrary operation: at most 23 adaptive and 26 direct decisions -/
def G : Nat := 2 ^ 203

theorem g_const : 128 ^ 23 * 3 ^ 26 ≤ 2 ^ 203 := by decide +kernel

theorem g_bound (x y : Nat) (hx : x ≤ 23) (hy : y ≤ 26) : 128 ^ x * 3 ^ y ≤ G := by
  unfold G
  exact Nat.le_trans (Nat.mul_le_mul (Nat.pow_le_pow_right (by omega) hx) (Nat.pow_le_pow_right (by omega) hy))
    g_const

theorem G_pos : 0 < G := Nat.pow_pos (by omega)

theorem ke45 : KE ^ 45 ≤ 2 * LE ^ 45 := by decide +kernel

theorem LE_pos : 0 < LE := by decide
theorem KE_pos : 0 < KE := by decide
theorem LE_le_KE : LE ≤ KE := by decide

theorem ke_small (r : Nat) (hr : r ≤ 45) : KE ^ r ≤ 2 * LE ^ r := by
  have hpos : 0 < LE ^ (45 - r) := Nat.pow_pos LE_pos
  apply Nat.le_of_mul_le_mul_right _ hpos
  calc KE ^ r * LE ^ (45 - r) ≤ KE ^ r * KE ^ (45 - r) :=
        Nat.mul_le_mul_left _ (Nat.pow_le_pow_left LE_le_KE _)
    _ = KE ^ 45 := by rw [← Nat.pow_add]; congr 1; omega
    _ ≤ 2 * LE ^ 45 := ke45
    _ = 2 * LE ^ r * LE ^ (45 - r) := by
        rw [Nat.mul_assoc, ← Nat.pow_add]; congr 2; omega

/-- `(KE / LE)^X ≤ 2^(X/45 + 1)`: 45 expected decisions cost less than one bit -/
theorem ke_pow (X : Nat) : KE ^ X ≤ 2 ^ (X / 45 + 1) * LE ^ X := by
  have hX : X = 45 * (X / 45) + X % 45 := (Nat.div_add_mod X 45).symm
  generalize X / 45 = a at *
  generalize hr : X % 45 = r at *
  have hr45 : r ≤ 45 := by have := Nat.mod_lt X (by omega : 0 < 45); omega
  subst hX
  have h1 : KE ^ (45 * a) ≤ 2 ^ a * LE ^ (45 * a) := by
    rw [Nat.pow_mul, Nat.pow_mul, ← Nat.mul_pow]
    exact Nat.pow_le_pow_left ke45 a
  have h2 := ke_small r hr45
  calc KE ^ (45 * a + r) = KE ^ (45 * a) * KE ^ r := Nat.pow_add ..
    _ ≤ (2 ^ a * LE ^ (45 * a)) * (2 * LE ^ r) := Nat.mul_le_mul h1 h2
    _ = 2 ^ (a + 1) * LE ^ (45 * a + r) := by rw [Nat.pow_add LE, Nat.pow_succ]; ring

/-- from a multiplicative bound to a number of bytes -/
theorem log_bound (X D B : Nat) (h : LE ^ X * 256 ^ D ≤ 2 ^ B * KE ^ X) : 8 * D ≤ B + X / 45 + 1 := by
  have h1 := ke_pow X
  have hpos : 0 < LE ^ X := Nat.pow_pos LE_pos
  have h2 : 256 ^ D * LE ^ X ≤ 2 ^ (B + (X / 45 + 1)) * LE ^ X := by
    calc 256 ^ D * LE ^ X = LE ^ X * 256 ^ D := Nat.mul_comm ..
      _ ≤ 2 ^ B * KE ^ X := h
      _ ≤ 2 ^ B * (2 ^ (X / 45 + 1) * LE ^ X) := Nat.mul_le_mul_left _ h1
      _ = 2 ^ (B + (X / 45 + 1)) * LE ^ X := by rw [Nat.pow_add]; ring
  have h3 : 256 ^ D ≤ 2 ^ (B + (X / 45 + 1)) := Nat.le_of_mul_le_mul_right h2 hpos
  have h4 : (256 : Nat) ^ D = 2 ^ (8 * D) := by
    rw [show (256 : Nat) = 2 ^ 8 from rfl, ← Nat.pow_mul]
  rw [h4] at h3
  have := (Nat.pow_le_pow_iff_right (by omega : 1 < 2)).mp h3
  omega

/-! ### irregular operations still to come -/

/-- length of the ring array of the encoder dictionary -/
def Lc (c : Cfg) : Nat := c.dictCap + c.bufSize + 1

/-- number of irregular operations the coder state still owes before the steady state (state 11, rep0 = 0) is
    reached: the very first operation is a literal followed by two reps (states 0 → 8 → 11); with `rep0 ≠ 0` a
    match at distance 1 and one more rep (7/10 → 11) -/
def dbt (s : Lzma.St) (hs : Nat) : Nat :=
  if hs = 0 then 3 else if s.r0 ≠ 0 then 2 else if s.st = 11 then 0 else if 7 ≤ s.st then 1 else 2

theorem dbt_le2 (s : Lzma.St) (hs : Nat) (h : 1 ≤ hs) : dbt s hs ≤ 2 := by
  unfold dbt
  rw [if_neg (by omega)]
  split_ifs <;> omega

theorem dbt_le3 (s : Lzma.St) (hs : Nat) : dbt s hs ≤ 3 := by
  unfold dbt
  split_ifs <;> omega

/-- the proposal `(1, N)` with `rep0 = 0` is `rep0 N` -/
theorem classify_rep0 (s : Lzma.St) (N : Nat) (hN : 2 ≤ N) (hr : s.r0 = 0) :
    classify s (.mtch 1 N) = .rep 0 N := by
  unfold classify
  simp only [Nat.sub_self]
  rw [if_pos hr.symm, if_neg (by omega)]

/-- the proposal `(1, N)` with `rep0 ≠ 0` makes `rep0 = 0` and leaves the literal states -/
theorem classify_fix (s : Lzma.St) (N : Nat) (hr : s.r0 ≠ 0) :
    (s.apply (classify s (.mtch 1 N))).r0 = 0 ∧ 7 ≤ (s.apply (classify s (.mtch 1 N))).st := by
  unfold classify
  simp only [Nat.sub_self]
  rw [if_neg (fun h => hr h.symm)]
  have hu : ∀ x, 7 ≤ updRep x := by intro x; unfold updRep; split <;> omega
  have hm : ∀ x, 7 ≤ updMatch x := by intro x; unfold updMatch; split <;> omega
  by_cases h1 : 0 = s.r1
  · rw [if_pos h1]; exact ⟨h1.symm, hu _⟩
  · rw [if_neg h1]
    by_cases h2 : 0 = s.r2
    · rw [if_pos h2]; exact ⟨h2.symm, hu _⟩
    · rw [if_neg h2]
      by_cases h3 : 0 = s.r3
      · rw [if_pos h3]; exact ⟨h3.symm, hu _⟩
      · rw [if_neg h3]; exact ⟨rfl, hm _⟩

/-! ### the steady-state operation asks expected symbols only -/

def expOkB (n : Nat) : Ask × Bool → Bool
  | (.adaptive a, b) => decide (a ∈ AL) && (b == sig a) && decide (a < n)
  | (.direct, _) => false

theorem expPath_of_all (n : Nat) (π : Path) (h : π.all (expOkB n) = true) : ExpPath n π := by
  intro x hx
  have := List.all_eq_true.mp h x hx
  obtain ⟨q, b⟩ := x
  cases q with
  | adaptive a =>
    simp only [expOkB, Bool.and_eq_true, decide_eq_true_eq, beq_iff_eq] at this
    exact ⟨a, by rw [this.1.2], this.1.1, this.2⟩
  | direct => simp [expOkB] at this

theorem reg_all : ∀ ps, ps < 16 →
    (opEnc ⟨11, ps, 0, 0⟩ (.rep 0 273)).all (expOkB 1856) = true ∧ (opEnc ⟨11, ps, 0, 0⟩ (.rep 0 273)).length = 14 := by
  decide +kernel

theorem reg_path (cx : Ctx) (hst : cx.st = 11) (hps : cx.ps < 16) :
    ExpPath 1856 (opEnc cx (.rep 0 273)) ∧ (opEnc cx (.rep 0 273)).length = 14 := by
  obtain ⟨st, ps, lb, mb⟩ := cx
  simp only at hst hps
  subst hst
  have h : opEnc ⟨11, ps, lb, mb⟩ (.rep 0 273) = opEnc ⟨11, ps, 0, 0⟩ (.rep 0 273) := rfl
  rw [h]
  exact ⟨expPath_of_all _ _ (reg_all ps hps).1, (reg_all ps hps).2⟩

theorem expPath_mono {n m : Nat} {π : Path} (h : ExpPath n π) (hnm : n ≤ m) : ExpPath m π := by
  intro x hx
  obtain ⟨a, h1, h2, h3⟩ := h x hx
  exact ⟨a, h1, h2, by omega⟩

/-! ### what `encodeOp` does to the coder -/

theorem encodeOp_ok {σ : Type} (c : Cfg) (w w' : WSt σ) (g : GoOp) (h : encodeOp c w g = .ok w') :
    w'.s = w.s.apply (classify w.s g) ∧
    w'.tbl = tblAfter w.tbl (opEnc (w.ctx c) (classify w.s g)) ∧
    w'.e.range = (w.e.encodeAll (toDecns pm w.tbl (opEnc (w.ctx c) (classify w.s g)))).range ∧
    w'.digits = w.body.size + (w.e.encodeAll (toDecns pm w.tbl (opEnc (w.ctx c) (classify w.s g)))).digits := by
  unfold encodeOp at h
  split at h
  · cases h
  · simp only at h
    cases hchk : encPathChk w.body.size w.tbl w.e (opEnc (w.ctx c) (classify w.s g)) with
    | none => rw [hchk] at h; cases h
    | some r =>
      obtain ⟨tbl', e'⟩ := r
      rw [hchk] at h
      have hr := encPathChk_eq _ _ _ _ _ hchk
      rw [encPath_eq] at hr
      simp only [Prod.mk.injEq] at hr
      obtain ⟨rfl, rfl⟩ := hr
      simp only [flushOut] at h
      have hw := (OpRes.ok.inj h).symm
      subst hw
      refine ⟨rfl, rfl, rfl, ?_⟩
      unfold WSt.digits Enc.digits
      dsimp only
      rw [foldl_push_size]
      simp only [List.length_nil]
      omega

end RunCost
