import XzVerif.Proofs.XzWFLemmas
import XzVerif.Proofs.Writer2Pre

/-!
  Helper lemmas for Proofs/XzWF.lean, part 2: a run of the xz writer on a sink that never failed writes exactly the
  stream of the batch model Model/XzW.lean.

  * static part: the bytes `XzW.run` produces, block by block (`blockW`, `recW`, `SP`), from the closed form of
    `Xz.emitStream` (Proofs/XzRoundTrip.lean) and the facts about the Writer2 run of one block;
  * dynamic part: the simulation invariant `Sim` (open block) / `Done` (between blocks) along `write`, `closeBlock`,
    `newBlock`, `finish`, with `XzW.writeLoop` distributing the bytes over the blocks.
-/

set_option linter.unusedSimpArgs false
set_option linter.unusedVariables false

namespace XzWF
open W2 W2F Lzma Lzma2

variable {σ : Type}

/-! ### static part -/

/-- the bytes of one block: header, LZMA2 stream, padding, check -/
def blockW (c : XzW.Cfg) (M : Matcher σ) (m0 : σ) (ps : List ByteArray) : ByteArray :=
  blockHeader c ++ ((XzW.runBlock c M m0 ps).out ++ Xz.zeros (Xz.padLen (XzW.runBlock c M m0 ps).out.size) ++
    Xz.checkValue c.flags (XzW.cat ps) 0 (XzW.cat ps).size)

/-- the index record of one block -/
def recW (c : XzW.Cfg) (M : Matcher σ) (m0 : σ) (ps : List ByteArray) : Nat × Nat :=
  ((blockHeader c).size + (XzW.runBlock c M m0 ps).out.size + (Xz.checkSize c.flags).getD 0, (XzW.cat ps).size)

/-- the sink after the blocks `blocks` -/
def SP (c : XzW.Cfg) (M : Matcher σ) (m0 : σ) (blocks : List (List ByteArray)) : ByteArray :=
  Xz.streamHeader c.flags ++ XzW.cat (blocks.map (blockW c M m0))

theorem SP_snoc (c : XzW.Cfg) (M : Matcher σ) (m0 : σ) (blocks : List (List ByteArray)) (ps : List ByteArray) :
    SP c M m0 (blocks ++ [ps]) = SP c M m0 blocks ++ blockW c M m0 ps := by
  unfold SP
  rw [List.map_append, XzW.cat_append, ByteArray.append_assoc]
  simp only [List.map_cons, List.map_nil, XzW.cat_single]

/-- the Writer2 run of one block: chunk list, content, sink bytes -/
theorem rb_facts (c : W2.Cfg) (hc : W2.CfgOk c) (M : Matcher σ) (I : σ → ByteArray → ByteArray → Prop)
    (hI : MatcherInv c M I) (m0 : σ) (h0 : I m0 ByteArray.empty ByteArray.empty) (ps : List ByteArray) :
    let w := (W2.run c M (W2.init c m0) (ps.map .write ++ [.close])).1
    ∃ cs : List Chunk, w.chunks.toList = cs ++ [eosChunk] ∧ ChunksOk true (e0 c.dictCap) .init cs ∧
      (cs.foldl emitChunk (e0 c.dictCap)).h.out = XzW.cat ps ∧
      w.out = chunksBytes (e0 c.dictCap) cs ++ ByteArray.empty.push 0 := by
  intro w
  have hnc := XzW.not_close_of_write ps
  have hok := no_error_of_margin_I (by decide) c hc M I hI m0 h0 (ps.map .write) hnc .close
  obtain ⟨hw, hall⟩ := W2.run_snoc c M (ps.map .write) .close (W2.init c m0)
  obtain ⟨hok1, herr⟩ := hall.mp hok
  have h := init_run c hc M I hI m0 h0 (ps.map .write) hnc hok1
  obtain ⟨w', hi', hz, hd, hst⟩ := (W2.step_close c (cfgOk' hc) M I (matcherInv' hI) _ _ h).2 herr
  have hwe : w = (W2.step c M (W2.run c M (W2.init c m0) (ps.map .write)).1 .close).1 := hw
  rw [← hwe] at hst
  refine ⟨w'.chunks.toList, ?_, chunksOk_of_inv hi'.toInv true, ?_, ?_⟩
  · rw [hst]
    simp only [Array.toList_push]
    rfl
  · rw [Array.foldl_toList, quiescent hi'.toInv hz, hd, XzW.payload_writes]
  · rw [hst]
    show w'.out.push 0 = _
    rw [hi'.out, push_eq_append]

theorem blockHeader_eq (c : XzW.Cfg) (w : WSt σ) :
    Xz.blockHeaderBytes (Xz.specBlock (XzW.blockSpec c w)).hdr = blockHeader c := by
  unfold blockHeader
  congr 1
  simp [Xz.specBlock, XzW.blockSpec]

theorem blockHeader_size (c : XzW.Cfg) (hc : W2.CfgOk c.w2) : (blockHeader c).size = 12 := by
  obtain ⟨_, _, hd1, hdmax, _⟩ := hc
  have hdm : c.w2.dictCap ≤ 2 ^ 32 - 1 := hdmax
  obtain ⟨e1, _, _⟩ := Proofs.DictCap.encode_least c.w2.dictCap hd1 hdm
  have hok : Xz.HdrOk ({ len := 12, csize := none, usize := none, dictCode := Model.encodeDictCap c.w2.dictCap } : Xz.BlockHeader) :=
    ⟨e1, (fun _ h => by cases h), (fun _ h => by cases h),
      ⟨0, by simp [Xz.hdrMinLen, Xz.hdrFields, Xz.optUv]⟩, by show 12 ≤ 1024; omega⟩
  exact (Xz.hdrBody_size _ hok).1

/-- the emitter's view of a block (any capacity ≥ the machine's) against the block's Writer2 run -/
theorem specE_facts (c : XzW.Cfg) (hc : W2.CfgOk c.w2) (M : Matcher σ) (I : σ → ByteArray → ByteArray → Prop)
    (hI : MatcherInv c.w2 M I) (m0 : σ) (h0 : I m0 ByteArray.empty ByteArray.empty) (ps : List ByteArray) :
    (Xz.specE (XzW.blockSpec c (XzW.runBlock c M m0 ps))).out = (XzW.runBlock c M m0 ps).out ∧
    (Xz.specE (XzW.blockSpec c (XzW.runBlock c M m0 ps))).h.out = XzW.cat ps := by
  obtain ⟨cs, h1, h2, h3, h4⟩ := rb_facts c.w2 hc M I hI m0 h0 ps
  obtain ⟨_, _, hd1, hdmax, _⟩ := hc
  have hdm : c.w2.dictCap ≤ 2 ^ 32 - 1 := hdmax
  obtain ⟨e1, e2, _⟩ := Proofs.DictCap.encode_least c.w2.dictCap hd1 hdm
  rw [← XzW.dictSize_eq] at e2
  generalize hcode : Model.encodeDictCap c.w2.dictCap = code at e1 e2
  obtain ⟨l1, l2, l3, l4, _⟩ := chunks_cap_e0 true c.w2.dictCap (Xz.dictSize code) hd1 e2 .init cs h2
  have hchunks : (XzW.blockSpec c (XzW.runBlock c M m0 ps)).chunks.toList = cs ++ [eosChunk] := h1
  have hcodeq : (XzW.blockSpec c (XzW.runBlock c M m0 ps)).dictCode = code := hcode
  have hE : Xz.specE (XzW.blockSpec c (XzW.runBlock c M m0 ps)) =
      emitChunk (cs.foldl emitChunk (e0 (Xz.dictSize code))) eosChunk := by
    unfold Xz.specE
    rw [← Array.foldl_toList, hchunks, hcodeq, List.foldl_append]
    rfl
  constructor
  · rw [hE]
    show (cs.foldl emitChunk (e0 (Xz.dictSize code))).out.push 0 = _
    rw [l3, foldl_emitChunk_out, push_eq_append]
    show ByteArray.empty ++ _ ++ _ = _
    rw [ByteArray.empty_append]
    exact h4.symm
  · rw [hE]
    show (cs.foldl emitChunk (e0 (Xz.dictSize code))).h.out = _
    rw [l4, h3]

theorem blockBytes_eq (c : XzW.Cfg) (hc : W2.CfgOk c.w2) (M : Matcher σ) (I : σ → ByteArray → ByteArray → Prop)
    (hI : MatcherInv c.w2 M I) (m0 : σ) (h0 : I m0 ByteArray.empty ByteArray.empty) (ps : List ByteArray) :
    Xz.blockBytes c.flags (Xz.specBlock (XzW.blockSpec c (XzW.runBlock c M m0 ps))) = blockW c M m0 ps ∧
    Xz.blockRec c.flags (Xz.specBlock (XzW.blockSpec c (XzW.runBlock c M m0 ps))) = recW c M m0 ps := by
  obtain ⟨a1, a2⟩ := specE_facts c hc M I hI m0 h0 ps
  unfold Xz.blockBytes Xz.blockRec blockW recW
  rw [Xz.blockE_specBlock, a1, a2, blockHeader_eq, XzW.specBlock_len, blockHeader_size c hc]
  exact ⟨rfl, rfl⟩

theorem blocksBytes_map (flags : Nat) (g : List ByteArray → Xz.Block) (f : List ByteArray → ByteArray)
    (h : ∀ ps, Xz.blockBytes flags (g ps) = f ps) : ∀ L : List (List ByteArray),
    Xz.blocksBytes flags (L.map g) = XzW.cat (L.map f) := by
  intro L
  induction L with
  | nil => rfl
  | cons x L ih => simp only [List.map_cons, Xz.blocksBytes, XzW.cat, h, ih]

theorem zeros_zero : Xz.zeros 0 = ByteArray.empty := rfl

/-- the stream of the batch model, block by block -/
theorem xzw_run_eq (c : XzW.Cfg) (hc : W2.CfgOk c.w2) (M : Matcher σ) (I : σ → ByteArray → ByteArray → Prop)
    (hI : MatcherInv c.w2 M I) (m0 : σ) (h0 : I m0 ByteArray.empty ByteArray.empty) (writes : List ByteArray) :
    XzW.run c M m0 writes =
      SP c M m0 (XzW.split c.blockSize writes) ++
        Xz.indexBytes ((XzW.split c.blockSize writes).map (recW c M m0)) ++
        Xz.footerBytes c.flags (Xz.indexBytes ((XzW.split c.blockSize writes).map (recW c M m0))).size := by
  unfold XzW.run
  simp only []
  rw [Xz.buildStream_eq, Xz.emitStream_eq]
  unfold Xz.streamCore Xz.streamRecs
  simp only [List.map_toArray, List.toList_toArray, List.map_map]
  have hb := fun ps => (blockBytes_eq c hc M I hI m0 h0 ps).1
  have hr := fun ps => (blockBytes_eq c hc M I hI m0 h0 ps).2
  have h1 : Xz.blocksBytes c.flags ((XzW.split c.blockSize writes).map
      (Xz.specBlock ∘ fun pieces => XzW.blockSpec c (XzW.runBlock c M m0 pieces))) =
      XzW.cat ((XzW.split c.blockSize writes).map (blockW c M m0)) :=
    blocksBytes_map c.flags _ _ hb _
  have h2 : (XzW.split c.blockSize writes).map
      (Xz.blockRec c.flags ∘ Xz.specBlock ∘ fun pieces => XzW.blockSpec c (XzW.runBlock c M m0 pieces)) =
      (XzW.split c.blockSize writes).map (recW c M m0) :=
    List.map_congr_left (fun ps _ => hr ps)
  rw [h1, h2, zeros_zero, ByteArray.append_empty]
  rfl

/-! ### dynamic part: one block -/

theorem clean_run (c : W2.Cfg) (hc : W2.CfgOk c) (M : Matcher σ) (I : σ → ByteArray → ByteArray → Prop)
    (hI : MatcherInv c M I) (m0 : σ) (h0 : I m0 ByteArray.empty ByteArray.empty) (ps : List ByteArray) :
    RunInv c I (W2.run c M (W2.init c m0) (ps.map .write)).1 (XzW.cat ps) := by
  have hnc := XzW.not_close_of_write ps
  have hok := run_margin (by decide) c hc M I hI (ps.map .write) _ _ (init_inv c I m0 h0) hnc
  have := init_run c hc M I hI m0 h0 (ps.map .write) hnc hok
  rwa [XzW.payload_writes] at this

theorem block_write (c : W2.Cfg) (hc : W2.CfgOk c) (M : Matcher σ) (I : σ → ByteArray → ByteArray → Prop)
    (hI : MatcherInv c M I) (m0 : σ) (h0 : I m0 ByteArray.empty ByteArray.empty) (F : Plan) (f : FSt σ)
    (P : ByteArray) (cur : List ByteArray) (q : ByteArray)
    (hw : f.w = pre P (W2.run c M (W2.init c m0) (cur.map .write)).1) (he : f.err = none) :
    (W2F.step c M F f (.write q)).2.panic = false ∧
    (((W2F.step c M F f (.write q)).2.err = none ∧ (W2F.step c M F f (.write q)).2.n = q.size ∧
        (W2F.step c M F f (.write q)).1.w = pre P (W2.run c M (W2.init c m0) ((cur ++ [q]).map .write)).1 ∧
        (W2F.step c M F f (.write q)).1.err = none ∧ (W2F.step c M F f (.write q)).1.hit = f.hit) ∨
     ((W2F.step c M F f (.write q)).2.err ≠ none ∧ (W2F.step c M F f (.write q)).1.hit = true)) := by
  have hr : RunInvG c I f.w (XzW.cat cur) := ⟨_, by rw [hw]; rfl, clean_run c hc M I hI m0 h0 cur⟩
  obtain ⟨h1, h2⟩ := step_write_F c (cfgOk' hc) M I (matcherInv' hI) F f _ q hr he
  refine ⟨h1, ?_⟩
  rcases h2 with ⟨a1, a2, a3, a4, a5⟩ | ⟨a1, _, a3⟩
  · left
    rw [hw, W2F.step_pre] at a5
    have e1 := congrArg Prod.fst a5
    have e2 := congrArg Prod.snd a5
    dsimp only at e1 e2
    have herr : (W2.step c M (W2.run c M (W2.init c m0) (cur.map .write)).1 (.write q)).2.err = none := by rw [e2]
    have hn := W2.write_ok_all c M _ q herr
    rw [e2] at hn
    refine ⟨a1, hn, ?_, a4, a3⟩
    rw [← e1, List.map_append, List.map_cons, List.map_nil,
      (W2.run_snoc c M (cur.map .write) (.write q) (W2.init c m0)).1]
  · exact Or.inr ⟨by rw [a1]; simp, a3⟩

theorem block_close (c : W2.Cfg) (hc : W2.CfgOk c) (M : Matcher σ) (I : σ → ByteArray → ByteArray → Prop)
    (hI : MatcherInv c M I) (m0 : σ) (h0 : I m0 ByteArray.empty ByteArray.empty) (F : Plan) (f : FSt σ)
    (P : ByteArray) (cur : List ByteArray)
    (hw : f.w = pre P (W2.run c M (W2.init c m0) (cur.map .write)).1) (he : f.err = none) :
    (W2F.step c M F f .close).2.panic = false ∧
    (((W2F.step c M F f .close).2.err = none ∧
        (W2F.step c M F f .close).1.w = pre P (W2.run c M (W2.init c m0) (cur.map .write ++ [.close])).1 ∧
        (W2F.step c M F f .close).1.hit = f.hit) ∨
     ((W2F.step c M F f .close).2.err ≠ none ∧ (W2F.step c M F f .close).1.hit = true)) := by
  have hr : RunInvG c I f.w (XzW.cat cur) := ⟨_, by rw [hw]; rfl, clean_run c hc M I hI m0 h0 cur⟩
  obtain ⟨h1, h2⟩ := step_close_F c (cfgOk' hc) M I (matcherInv' hI) F f _ hr he
  refine ⟨h1, ?_⟩
  rcases h2 with ⟨a1, a2, a3, a4, a5, _⟩ | ⟨b1, _, a3⟩ | ⟨b1, a3, _⟩
  · left
    rw [hw, W2F.step_pre] at a5
    have e1 := congrArg Prod.fst a5
    dsimp only at e1
    refine ⟨a1, ?_, a3⟩
    rw [← e1, (W2.run_snoc c M (cur.map .write) .close (W2.init c m0)).1]
  · exact Or.inr ⟨by rw [b1]; simp, a3⟩
  · exact Or.inr ⟨by rw [b1]; simp, a3⟩

/-! ### dynamic part: the container -/

/-- the open block has received the pieces `cur`; `blocks` are finished -/
structure Sim (c : XzW.Cfg) (M : Matcher σ) (m0 : σ) (s : St σ) (blocks : List (List ByteArray))
    (cur : List ByteArray) : Prop where
  w : s.f.w = pre (SP c M m0 blocks ++ blockHeader c) (W2.run c.w2 M (W2.init c.w2 m0) (cur.map .write)).1
  err : s.f.err = none
  hit : s.f.hit = false
  bstart : s.blockStart = (SP c M m0 blocks ++ blockHeader c).size
  n : s.n = (XzW.cat cur).size
  data : s.data = XzW.cat cur
  bw : s.bwClosed = false
  hdr : s.hdrLen = (blockHeader c).size
  index : s.index = blocks.map (recW c M m0)

/-- between blocks: the sink holds the finished blocks -/
structure Done (c : XzW.Cfg) (M : Matcher σ) (m0 : σ) (s : St σ) (blocks : List (List ByteArray)) : Prop where
  out : s.f.w.out = SP c M m0 blocks
  hit : s.f.hit = false
  index : s.index = blocks.map (recW c M m0)

theorem closeBlock_sim (c : XzW.Cfg) (hc : W2.CfgOk c.w2) (M : Matcher σ) (I : σ → ByteArray → ByteArray → Prop)
    (hI : MatcherInv c.w2 M I) (F : Plan) (m0 : σ) (h0 : I m0 ByteArray.empty ByteArray.empty) (s : St σ)
    (blocks : List (List ByteArray)) (cur : List ByteArray) (hs : Sim c M m0 s blocks cur) :
    (closeBlock c M F s).2.panic = false ∧
    (((closeBlock c M F s).2.err = none ∧ Done c M m0 (closeBlock c M F s).1 (blocks ++ [cur]) ∧
        (closeBlock c M F s).1.closed = s.closed) ∨
     ((closeBlock c M F s).2.err ≠ none ∧ (closeBlock c M F s).1.f.hit = true)) := by
  obtain ⟨s1, s2, s3, s4, s5, s6, s7, s8, s9⟩ := hs
  unfold closeBlock
  rw [if_neg (by rw [s7]; simp)]
  simp only []
  obtain ⟨h1, h2⟩ := block_close c.w2 hc M I hI m0 h0 F s.f _ cur s1 s2
  rcases hst : W2F.step c.w2 M F s.f .close with ⟨f', r⟩
  rw [hst] at h1 h2
  dsimp only at h1 h2 ⊢
  rw [if_neg (by rw [h1]; simp)]
  rcases h2 with ⟨a1, a2, a3⟩ | ⟨a1, a3⟩
  · rw [a1]
    dsimp only
    have hrb : (W2.run c.w2 M (W2.init c.w2 m0) (cur.map .write ++ [.close])).1 = XzW.runBlock c M m0 cur := rfl
    rw [hrb] at a2
    have hout : f'.w.out = SP c M m0 blocks ++ blockHeader c ++ (XzW.runBlock c M m0 cur).out := by rw [a2]; rfl
    have hcn : f'.w.out.size - s.blockStart = (XzW.runBlock c M m0 cur).out.size := by
      rw [hout, s4, ByteArray.size_append]; omega
    rw [hcn, s6]
    unfold sw
    dsimp only
    obtain ⟨b1, b2, b3, b4, b5⟩ := sinkWrite_spec F f'
      (Xz.zeros (Xz.padLen (XzW.runBlock c M m0 cur).out.size) ++
        Xz.checkValue c.flags (XzW.cat cur) 0 (XzW.cat cur).size)
    rcases hsw : sinkWrite F f'
      (Xz.zeros (Xz.padLen (XzW.runBlock c M m0 cur).out.size) ++
        Xz.checkValue c.flags (XzW.cat cur) 0 (XzW.cat cur).size) with ⟨f'', b⟩
    rw [hsw] at b4 b5
    cases b with
    | false => exact ⟨rfl, Or.inr ⟨by simp, b5 rfl⟩⟩
    | true =>
      obtain ⟨d1, d2⟩ := b4 rfl
      dsimp only
      rw [if_neg (by rw [s8]; exact blockHeader_size_pos c)]
      refine ⟨rfl, Or.inl ⟨rfl, ⟨?_, ?_, ?_⟩, rfl⟩⟩
      · show f''.w.out = _
        rw [d2, hout, SP_snoc]
        unfold blockW
        simp only [ByteArray.append_assoc]
      · show f''.hit = false
        rw [d1, a3]; exact s3
      · show s.index ++ [(s.hdrLen + (XzW.runBlock c M m0 cur).out.size + (Xz.checkSize c.flags).getD 0, s.n)] = _
        rw [s9, s8, s5, List.map_append]
        rfl
  · cases he : r.err with
    | none => exact absurd he a1
    | some e => exact ⟨rfl, Or.inr ⟨by simp, a3⟩⟩

theorem newBlock_sim (c : XzW.Cfg) (M : Matcher σ) (F : Plan) (m0 : σ) (s : St σ)
    (blocks : List (List ByteArray)) (hs : Done c M m0 s blocks) :
    ((newBlock c F m0 s).2 = true ∧ Sim c M m0 (newBlock c F m0 s).1 blocks [] ∧
      (newBlock c F m0 s).1.closed = s.closed) ∨
    ((newBlock c F m0 s).2 = false ∧ (newBlock c F m0 s).1.f.hit = true) := by
  obtain ⟨s1, s2, s3⟩ := hs
  unfold newBlock
  dsimp only
  obtain ⟨b1, b2, b3, b4, b5⟩ := sinkWrite_spec F
    ({ s.f with w := { W2.init c.w2 m0 with out := s.f.w.out }, err := none } : FSt σ) (blockHeader c)
  rcases hsw : sinkWrite F
    ({ s.f with w := { W2.init c.w2 m0 with out := s.f.w.out }, err := none } : FSt σ) (blockHeader c) with ⟨f', b⟩
  rw [hsw] at b1 b2 b4 b5
  dsimp only at b1 b2 b4 b5 ⊢
  cases b with
  | false => exact Or.inr ⟨rfl, b5 rfl⟩
  | true =>
    obtain ⟨d1, d2⟩ := b4 rfl
    have hout : f'.w.out = SP c M m0 blocks ++ blockHeader c := by rw [d2, s1]
    have hw : f'.w = pre (SP c M m0 blocks ++ blockHeader c) (W2.init c.w2 m0) := by
      rw [er_eq b1, hout]
      show _ = setOut (W2.init c.w2 m0) (SP c M m0 blocks ++ blockHeader c ++ ByteArray.empty)
      rw [ByteArray.append_empty]
      rfl
    exact Or.inl ⟨rfl, ⟨hw, b2, by rw [d1]; exact s2, by rw [hout], rfl, rfl, rfl, rfl, s3⟩, rfl⟩

theorem foldl_append_cat : ∀ (l : List ByteArray) (acc : ByteArray), l.foldl (· ++ ·) acc = acc ++ W2F.cat l := by
  intro l
  induction l with
  | nil => intro acc; simp only [List.foldl_nil, W2F.cat, ByteArray.append_empty]
  | cons x l ih => intro acc; simp only [List.foldl_cons, W2F.cat, ih, ByteArray.append_assoc]

theorem w2f_cat_append (a b : List ByteArray) : W2F.cat (a ++ b) = W2F.cat a ++ W2F.cat b := by
  induction a with
  | nil => simp only [List.nil_append, W2F.cat, ByteArray.empty_append]
  | cons x a ih => simp only [List.cons_append, W2F.cat, ih, ByteArray.append_assoc]

theorem cat_recs (recs : List (Nat × Nat)) :
    W2F.cat (recs.map (fun r => uvar r.1 ++ uvar r.2)) = Xz.recsBytes recs := by
  induction recs with
  | nil => rfl
  | cons r rs ih => simp only [List.map_cons, W2F.cat, Xz.recsBytes, ih]; rfl

theorem finish_sim (c : XzW.Cfg) (M : Matcher σ) (F : Plan) (m0 : σ) (s : St σ)
    (blocks : List (List ByteArray)) (hs : Done c M m0 s blocks) :
    ((finish c F s).2.err = none ∧
      (finish c F s).1.f.w.out = SP c M m0 blocks ++ Xz.indexBytes (blocks.map (recW c M m0)) ++
        Xz.footerBytes c.flags (Xz.indexBytes (blocks.map (recW c M m0))).size) ∨
    ((finish c F s).2.err ≠ none ∧ (finish c F s).1.f.hit = true) := by
  obtain ⟨s1, s2, s3⟩ := hs
  unfold finish
  simp only []
  have hbody : ([ByteArray.empty.push 0, uvar s.index.length] ++ s.index.map (fun r => uvar r.1 ++ uvar r.2)).foldl
      (· ++ ·) ByteArray.empty = Xz.indexBody s.index := by
    rw [foldl_append_cat, ByteArray.empty_append, w2f_cat_append, cat_recs]
    simp only [W2F.cat, ByteArray.append_empty, Xz.indexBody, uvar, ByteArray.append_assoc]
  rw [hbody]
  generalize hall : ([ByteArray.empty.push 0, uvar s.index.length] ++ s.index.map (fun r => uvar r.1 ++ uvar r.2) ++ _) =
    all
  have hcat : W2F.cat all = Xz.indexBytes s.index ++ Xz.footerBytes c.flags (Xz.indexBytes s.index).size := by
    rw [← hall, w2f_cat_append, w2f_cat_append, cat_recs]
    have hsz : (Xz.indexBytes s.index).size = (Xz.indexBody s.index ++ Xz.zeros (Xz.padLen (Xz.indexBody s.index).size)).size + 4 := by
      unfold Xz.indexBytes Xz.indexPadded
      rw [ByteArray.size_append, Xz.le32_size]
    rw [hsz]
    simp only [W2F.cat, ByteArray.append_empty, Xz.indexBytes, Xz.indexPadded, Xz.indexBody, Xz.footerBytes,
      Xz.footerF, Xz.footerMagicBytes, uvar, ByteArray.append_assoc]
  obtain ⟨b1, b2, b3, b4, b5⟩ := sinkWrites_spec F all s.f
  rcases hsw : sinkWrites F s.f all with ⟨f', b⟩
  rw [hsw] at b4 b5
  cases b with
  | false => exact Or.inr ⟨by simp, b5 rfl⟩
  | true =>
    obtain ⟨d1, d2⟩ := b4 rfl
    refine Or.inl ⟨rfl, ?_⟩
    show f'.w.out = _
    rw [d2, hcat, s1, s3, ByteArray.append_assoc]

/-- result of `write`: success in step with `XzW.writeLoop`, or an error with the flag set -/
def WPost (c : XzW.Cfg) (M : Matcher σ) (m0 : σ) (cl : Bool) (WL : List (List ByteArray) × List ByteArray × Nat)
    (r : St σ × CallRes) : Prop :=
  (r.2.err = none ∧ r.1.closed = cl ∧ Sim c M m0 r.1 WL.1 WL.2.1 ∧ r.1.n = WL.2.2 ∧ r.1.n ≤ c.blockSize) ∨
  (r.2.err ≠ none ∧ r.1.f.hit = true)

theorem write_sim (c : XzW.Cfg) (hc : W2.CfgOk c.w2) (hbs : 1 ≤ c.blockSize) (M : Matcher σ)
    (I : σ → ByteArray → ByteArray → Prop) (hI : MatcherInv c.w2 M I) (F : Plan) (m0 : σ)
    (h0 : I m0 ByteArray.empty ByteArray.empty) (p : ByteArray) :
    ∀ (fuel : Nat) (s : St σ) (n : Nat) (blocks : List (List ByteArray)) (cur : List ByteArray),
      Sim c M m0 s blocks cur → n ≤ p.size → (p.size - n) + 1 + (if s.n = c.blockSize then 1 else 0) ≤ fuel →
      s.n ≤ c.blockSize →
      WPost c M m0 s.closed (XzW.writeLoop c.blockSize fuel (blocks, cur, s.n) p n) (write c M F m0 p fuel s n) := by
  intro fuel
  induction fuel with
  | zero => intro s n blocks cur _ _ h _; omega
  | succ fuel ih =>
    intro s n blocks cur hs hn hf hle
    have hs' := hs
    obtain ⟨s1, s2, s3, s4, s5, s6, s7, s8, s9⟩ := hs
    unfold write
    rw [if_neg (by rw [s7]; simp)]
    simp only []
    rw [XzW.writeLoop]
    by_cases hgt : p.size - n > c.blockSize - s.n
    · simp only [hgt, decide_true, if_true]
      generalize hq : p.extract n (n + (c.blockSize - s.n)) = q
      have hqs : q.size = c.blockSize - s.n := by rw [← hq, ByteArray.size_extract]; omega
      obtain ⟨h1, h2⟩ := block_write c.w2 hc M I hI m0 h0 F s.f _ cur q s1 s2
      rcases hst : W2F.step c.w2 M F s.f (.write q) with ⟨f', r⟩
      rw [hst] at h1 h2
      dsimp only at h1 h2 ⊢
      rw [if_neg (by rw [h1]; simp)]
      rcases h2 with ⟨a1, a2, a3, a4, a5⟩ | ⟨a1, a3⟩
      · rw [a1]
        dsimp only
        have hsim1 : Sim c M m0 ({ s with f := f', n := s.n + r.n, data := s.data ++ q } : St σ) blocks (cur ++ [q]) := by
          refine ⟨a3, a4, by rw [a5]; exact s3, s4, ?_, ?_, s7, s8, s9⟩
          · show s.n + r.n = _
            rw [XzW.cat_append, XzW.cat_single, ByteArray.size_append, s5, a2]
          · show s.data ++ q = _
            rw [XzW.cat_append, XzW.cat_single, s6]
        obtain ⟨c1, c2⟩ := closeBlock_sim c hc M I hI F m0 h0 _ blocks (cur ++ [q]) hsim1
        rcases hcl : closeBlock c M F ({ s with f := f', n := s.n + r.n, data := s.data ++ q } : St σ) with ⟨s', rc⟩
        rw [hcl] at c1 c2
        dsimp only at c1 c2 ⊢
        rw [if_neg (by rw [c1]; simp)]
        rcases c2 with ⟨d1, d2, d3⟩ | ⟨d1, d3⟩
        · rw [d1]
          dsimp only
          rcases newBlock_sim c M F m0 s' _ d2 with ⟨e1, e2, e3⟩ | ⟨e1, e3⟩
          · rcases hn' : newBlock c F m0 s' with ⟨s'', ok⟩
            rw [hn'] at e1 e2 e3
            dsimp only at e1 e2 e3
            subst e1
            dsimp only
            have hn0 : s''.n = 0 := e2.n
            have := ih s'' (n + r.n) (blocks ++ [cur ++ [q]]) [] e2 (by rw [a2, hqs]; omega)
              (by
                rw [hn0, if_neg (by omega), a2, hqs]
                by_cases hsn : s.n = c.blockSize
                · rw [if_pos hsn] at hf; omega
                · rw [if_neg hsn] at hf; omega)
              (by omega)
            rw [hn0, e3, d3, a2, hqs] at this
            rw [a2, hqs]
            exact this
          · rcases hn' : newBlock c F m0 s' with ⟨s'', ok⟩
            rw [hn'] at e1 e3
            dsimp only at e1 e3
            subst e1
            exact Or.inr ⟨by simp, e3⟩
        · cases he : rc.err with
          | none => exact absurd he d1
          | some e => exact Or.inr ⟨by simp, d3⟩
      · cases he : r.err with
        | none => exact absurd he a1
        | some e => exact Or.inr ⟨by simp, a3⟩
    · simp only [hgt, decide_false, if_false, Bool.false_eq_true]
      generalize hq : p.extract n p.size = q
      have hqs : q.size = p.size - n := by rw [← hq, ByteArray.size_extract]; omega
      obtain ⟨h1, h2⟩ := block_write c.w2 hc M I hI m0 h0 F s.f _ cur q s1 s2
      rcases hst : W2F.step c.w2 M F s.f (.write q) with ⟨f', r⟩
      rw [hst] at h1 h2
      dsimp only at h1 h2 ⊢
      rw [if_neg (by rw [h1]; simp)]
      rcases h2 with ⟨a1, a2, a3, a4, a5⟩ | ⟨a1, a3⟩
      · rw [a1]
        dsimp only
        refine Or.inl ⟨rfl, rfl, ⟨a3, a4, by rw [a5]; exact s3, s4, ?_, ?_, s7, s8, s9⟩, ?_, ?_⟩
        · show s.n + r.n = _
          rw [XzW.cat_append, XzW.cat_single, ByteArray.size_append, s5, a2]
        · show s.data ++ q = _
          rw [XzW.cat_append, XzW.cat_single, s6]
        · show s.n + r.n = s.n + (p.size - n)
          rw [a2, hqs]
        · show s.n + r.n ≤ c.blockSize
          rw [a2, hqs]; omega
      · cases he : r.err with
        | none => exact absurd he a1
        | some e => exact Or.inr ⟨by simp, a3⟩

/-! ### dynamic part: the whole history -/

theorem run_sim (c : XzW.Cfg) (hc : W2.CfgOk c.w2) (hbs : 1 ≤ c.blockSize) (M : Matcher σ)
    (I : σ → ByteArray → ByteArray → Prop) (hI : MatcherInv c.w2 M I) (F : Plan) (m0 : σ)
    (h0 : I m0 ByteArray.empty ByteArray.empty) :
    ∀ (writes : List ByteArray) (s : St σ) (blocks : List (List ByteArray)) (cur : List ByteArray),
      Sim c M m0 s blocks cur → s.closed = false → s.n ≤ c.blockSize →
      (run c M F m0 s (writes.map .write ++ [.close])).1.f.hit = false →
      (run c M F m0 s (writes.map .write ++ [.close])).1.f.w.out =
        SP c M m0 ((writes.foldl (fun st p => XzW.writeLoop c.blockSize (p.size + 2) st p 0) (blocks, cur, s.n)).1 ++
          [(writes.foldl (fun st p => XzW.writeLoop c.blockSize (p.size + 2) st p 0) (blocks, cur, s.n)).2.1]) ++
        Xz.indexBytes (((writes.foldl (fun st p => XzW.writeLoop c.blockSize (p.size + 2) st p 0) (blocks, cur, s.n)).1 ++
          [(writes.foldl (fun st p => XzW.writeLoop c.blockSize (p.size + 2) st p 0) (blocks, cur, s.n)).2.1]).map
            (recW c M m0)) ++
        Xz.footerBytes c.flags (Xz.indexBytes
          (((writes.foldl (fun st p => XzW.writeLoop c.blockSize (p.size + 2) st p 0) (blocks, cur, s.n)).1 ++
          [(writes.foldl (fun st p => XzW.writeLoop c.blockSize (p.size + 2) st p 0) (blocks, cur, s.n)).2.1]).map
            (recW c M m0))).size ∧
      ∀ r ∈ (run c M F m0 s (writes.map .write ++ [.close])).2, r.1.err = none := by
  intro writes
  induction writes with
  | nil =>
    intro s blocks cur hs hcl hle hh
    simp only [List.map_nil, List.nil_append, List.foldl_nil] at hh ⊢
    rw [run_cons] at hh ⊢
    have hrun : ∀ s' : St σ, run c M F m0 s' [] = (s', []) := fun _ => rfl
    rw [hrun] at hh ⊢
    dsimp only at hh ⊢
    have hsim : Sim c M m0 ({ s with closed := true } : St σ) blocks cur :=
      ⟨hs.w, hs.err, hs.hit, hs.bstart, hs.n, hs.data, hs.bw, hs.hdr, hs.index⟩
    obtain ⟨c1, c2⟩ := closeBlock_sim c hc M I hI F m0 h0 _ blocks cur hsim
    simp only [step, hcl, Bool.false_eq_true, if_false] at hh ⊢
    rcases hcb : closeBlock c M F ({ s with closed := true } : St σ) with ⟨s', rc⟩
    rw [hcb] at c1 c2 hh
    dsimp only at c1 c2 hh ⊢
    rw [if_neg (by rw [c1]; simp)] at hh ⊢
    rcases c2 with ⟨d1, d2, d3⟩ | ⟨d1, d3⟩
    · rw [d1] at hh ⊢
      dsimp only at hh ⊢
      rcases finish_sim c M F m0 s' _ d2 with ⟨e1, e2⟩ | ⟨e1, e3⟩
      · refine ⟨e2, ?_⟩
        intro r hr
        rcases List.mem_cons.mp hr with rfl | hr
        · exact e1
        · cases hr
      · rw [e3] at hh; cases hh
    · cases he : rc.err with
      | none => exact absurd he d1
      | some e => rw [he] at hh; dsimp only at hh; rw [d3] at hh; cases hh
  | cons p writes ih =>
    intro s blocks cur hs hcl hle hh
    simp only [List.map_cons, List.cons_append, List.foldl_cons] at hh ⊢
    rw [run_cons] at hh ⊢
    have hstep : step c M F m0 s (.write p) = write c M F m0 p (p.size + 2) s 0 := by
      simp only [step, hcl, Bool.false_eq_true, if_false]
    rw [hstep] at hh ⊢
    have hw := write_sim c hc hbs M I hI F m0 h0 p (p.size + 2) s 0 blocks cur hs (Nat.zero_le _)
      (by split <;> omega) hle
    rcases hw with ⟨a1, a2, a3, a4, a5⟩ | ⟨a1, a3⟩
    · have := ih _ _ _ a3 (by rw [a2]; exact hcl) a5 hh
      rw [a4] at this
      obtain ⟨i1, i2⟩ := this
      refine ⟨i1, ?_⟩
      intro r hr
      rcases List.mem_cons.mp hr with rfl | hr
      · exact a1
      · exact i2 r hr
    · rw [run_mono c M F m0 _ _ a3] at hh; cases hh

theorem new_sim (c : XzW.Cfg) (M : Matcher σ) (F : Plan) (m0 : σ) (s0 : St σ) (h : new c F m0 = .ok s0) :
    Sim c M m0 s0 [] [] ∧ s0.closed = false := by
  unfold new at h
  simp only [] at h
  obtain ⟨a1, a2, a3, a4, a5⟩ := sinkWrite_spec F (W2F.init c.w2 m0) (Xz.streamHeader c.flags)
  rcases hsw : sinkWrite F (W2F.init c.w2 m0) (Xz.streamHeader c.flags) with ⟨f1, b⟩
  rw [hsw] at h a4
  cases b with
  | false => cases h
  | true =>
    dsimp only at h
    obtain ⟨d1, d2⟩ := a4 rfl
    have hd : Done c M m0 ({ f := f1, blockStart := f1.w.out.size } : St σ) [] := by
      refine ⟨?_, d1, rfl⟩
      show f1.w.out = _
      rw [d2]
      show ByteArray.empty ++ _ = Xz.streamHeader c.flags ++ ByteArray.empty
      rw [ByteArray.empty_append, ByteArray.append_empty]
    rcases newBlock_sim c M F m0 _ _ hd with ⟨e1, e2, e3⟩ | ⟨e1, _⟩
    · rcases hn : newBlock c F m0 ({ f := f1, blockStart := f1.w.out.size } : St σ) with ⟨s', ok⟩
      rw [hn] at h e1 e2 e3
      dsimp only at e1 e2 e3
      subst e1
      have := Except.ok.inj h
      subst this
      exact ⟨e2, e3⟩
    · rcases hn : newBlock c F m0 ({ f := f1, blockStart := f1.w.out.size } : St σ) with ⟨s', ok⟩
      rw [hn] at h e1
      dsimp only at e1
      subst e1
      cases h

end XzWF
