import XzVerif.Model.Xz
import XzVerif.Proofs.Lzma2RoundTrip
import XzVerif.Proofs.XzSound

/-!
  Proofs.XzRoundTrip — the .xz container round trip and the concatenation law for the model.

  The container reader of `Model/Xz.lean` (`readStreamHeader`, `readBlockHeader`, `readBlock`, `readTail`,
  `readBlocks`, `readStreams`, `read`) run on the bytes produced by the container emitter (`emitStream`, `emit`,
  `buildStream`) for well-formed streams recovers the content, consumes every byte and ends with `.eof`.

  Layers (bottom-up):
  * hash functions depend only on the bytes of their range (`crc32_congr`, `crc64_congr`, `sha256_congr`),
    sizes of the check values;
  * uvarint round trip (`readUvarint_putUvarint`);
  * block header round trip (`readBlockHeader_emit`);
  * the LZMA2 emitter is invariant under prefixing the history (`Lzma2.chunks_shift`), so a block is decoded
    correctly behind earlier output (`decode_emit_shift`, `readBlock_emit`);
  * the emitter in closed form (`emitStream_eq`);
  * index and footer (`readTail_emit`), stream header (`readStreamHeader_emit`), blocks of a stream
    (`readBlocks_emit`), one stream (`readStreams_stream`, `readStream_emitStream`), stream padding;
  * headlines: `read_emitStream` (A), `read_buildStream`, `read_emit` (B), `read_single`.
-/

set_option linter.unusedSimpArgs false
set_option linter.unusedVariables false
set_option linter.unnecessarySeqFocus false

/-! ## part: Hash -/

namespace Xz
open Lzma Lzma2 Rc

/-! ### loops over ranges depend only on the values of the body on the range -/

theorem forIn_range'_shift {β : Type} (f g : Nat → β → Id (ForInStep β)) :
    ∀ (n lo lo' : Nat) (init : β), (∀ i, i < n → f (lo + i) = g (lo' + i)) →
      forIn (m := Id) (List.range' lo n) init f = forIn (m := Id) (List.range' lo' n) init g := by
  intro n
  induction n with
  | zero => intro lo lo' init _; rfl
  | succ n ih =>
    intro lo lo' init h
    rw [List.range'_succ, List.range'_succ, List.forIn_cons, List.forIn_cons]
    have h0 := h 0 (by omega)
    rw [Nat.add_zero, Nat.add_zero] at h0
    rw [h0]
    congr 1
    funext r
    cases r with
    | done b => rfl
    | yield b =>
      apply ih
      intro i hi
      have := h (i + 1) (by omega)
      rw [show lo + 1 + i = lo + (i + 1) by omega, show lo' + 1 + i = lo' + (i + 1) by omega]
      exact this

theorem forIn_range_shift {β : Type} (f g : Nat → β → Id (ForInStep β)) (n lo lo' : Nat) (init : β)
    (h : ∀ i, i < n → f (lo + i) = g (lo' + i)) :
    forIn (m := Id) [lo:lo + n] init f = forIn (m := Id) [lo':lo' + n] init g := by
  rw [Std.Legacy.Range.forIn_eq_forIn_range', Std.Legacy.Range.forIn_eq_forIn_range']
  simp only [Std.Legacy.Range.size, Nat.add_sub_cancel_left, Nat.add_sub_cancel, Nat.div_one]
  exact forIn_range'_shift f g n lo lo' init h

theorem crc32_congr (a b : ByteArray) (lo lo' n : Nat)
    (h : ∀ i, i < n → a.get! (lo + i) = b.get! (lo' + i)) :
    Hash.crc32 a lo (lo + n) = Hash.crc32 b lo' (lo' + n) := by
  unfold Hash.crc32 Hash.crc32Update
  simp only [Id.run, bind, pure]
  congr 1
  apply forIn_range_shift
  intro i hi
  funext c
  rw [h i hi]

theorem crc64_congr (a b : ByteArray) (lo lo' n : Nat)
    (h : ∀ i, i < n → a.get! (lo + i) = b.get! (lo' + i)) :
    Hash.crc64 a lo (lo + n) = Hash.crc64 b lo' (lo' + n) := by
  unfold Hash.crc64
  simp only [Id.run, bind, pure]
  congr 1
  apply forIn_range_shift
  intro i hi
  funext c
  rw [h i hi]

theorem sha256_congr (a b : ByteArray) (lo lo' n : Nat)
    (h : a.extract lo (lo + n) = b.extract lo' (lo' + n)) :
    Hash.sha256 a lo (lo + n) = Hash.sha256 b lo' (lo' + n) := by
  unfold Hash.sha256
  simp only [Nat.add_sub_cancel_left, h]

/-! ### sizes of the check values -/

theorem shaBlock_size (h : Array UInt32) (blk : ByteArray) (off : Nat) : (Hash.shaBlock h blk off).size = 8 := by
  unfold Hash.shaBlock
  simp only [Id.run, bind, pure]
  rfl

theorem foldl_push4_size (l : List UInt32) : ∀ (init : ByteArray),
    (List.foldl (fun b a => (((b.push (a >>> 24).toUInt8).push (a >>> 16).toUInt8).push (a >>> 8).toUInt8).push a.toUInt8)
      init l).size = init.size + 4 * l.length := by
  induction l with
  | nil => intro init; rfl
  | cons a l ih => intro init; simp only [List.foldl_cons, ih, ByteArray.size_push, List.length_cons]; omega

theorem foldl_shaBlock_size (msg : ByteArray) (l : List Nat) : ∀ (h : Array UInt32), h.size = 8 →
    (List.foldl (fun b a => Hash.shaBlock b msg (64 * a)) h l).size = 8 := by
  induction l with
  | nil => intro h hh; exact hh
  | cons a l ih => intro h hh; simp only [List.foldl_cons]; exact ih _ (shaBlock_size _ _ _)

theorem sha256_size (b : ByteArray) (lo hi : Nat) : (Hash.sha256 b lo hi).size = 32 := by
  unfold Hash.sha256
  simp
  rw [← Array.foldl_toList, foldl_push4_size, Array.length_toList, foldl_shaBlock_size _ _ _ (by rfl)]
  rfl

end Xz

/-! ## part: Uv -/

namespace Xz
open Lzma Lzma2 Rc

/-! ### byte-array access through a decomposition `inp = a ++ b ++ c` -/

theorem get_of_eq {inp a b c : ByteArray} (h : inp = a ++ b ++ c) {i : Nat} (hi : i < b.size) :
    get inp (a.size + i) = get b i := by
  rw [h]; exact get_mid a b c i hi

theorem get!_of_eq {inp a b c : ByteArray} (h : inp = a ++ b ++ c) {i : Nat} (hi : i < b.size) :
    inp.get! (a.size + i) = b.get! i := by
  rw [h, get!_append_left (by rw [ByteArray.size_append]; omega), get!_append_right]

theorem extract_of_eq {inp a b c : ByteArray} (h : inp = a ++ b ++ c) :
    inp.extract a.size (a.size + b.size) = b := by
  rw [h]; exact extract_mid a b c

theorem size_of_eq {inp a b c : ByteArray} (h : inp = a ++ b ++ c) :
    inp.size = a.size + b.size + c.size := by
  rw [h, ByteArray.size_append, ByteArray.size_append]

theorem crc32_of_eq {inp a b c : ByteArray} (h : inp = a ++ b ++ c) :
    Hash.crc32 inp a.size (a.size + b.size) = Hash.crc32 b 0 b.size := by
  have := crc32_congr inp b a.size 0 b.size (fun i hi => by rw [get!_of_eq h hi, Nat.zero_add])
  rw [Nat.zero_add] at this
  exact this

theorem crc64_of_eq {inp a b c : ByteArray} (h : inp = a ++ b ++ c) :
    Hash.crc64 inp a.size (a.size + b.size) = Hash.crc64 b 0 b.size := by
  have := crc64_congr inp b a.size 0 b.size (fun i hi => by rw [get!_of_eq h hi, Nat.zero_add])
  rw [Nat.zero_add] at this
  exact this

theorem sha256_of_eq {inp a b c : ByteArray} (h : inp = a ++ b ++ c) :
    Hash.sha256 inp a.size (a.size + b.size) = Hash.sha256 b 0 b.size := by
  have := sha256_congr inp b a.size 0 b.size (by
    rw [extract_of_eq h, Nat.zero_add, ByteArray.extract_zero_size])
  rw [Nat.zero_add] at this
  exact this

theorem get_push_last (a : ByteArray) (x : Nat) (hx : x < 256) : get (a.push x.toUInt8) a.size = x := by
  rw [get_eq_blist, blist_push _ _ hx]
  rw [List.getElem?_append_right (Nat.le_of_eq (blist_length a)), blist_length, Nat.sub_self]
  rfl

theorem get_single (x : Nat) (hx : x < 256) : get (ByteArray.empty.push x.toUInt8) 0 = x :=
  get_push_last ByteArray.empty x hx

/-! ### uvarint -/

theorem putUvarint_go_append : ∀ (fuel x : Nat) (o : ByteArray),
    putUvarint.go fuel x o = o ++ putUvarint.go fuel x ByteArray.empty := by
  intro fuel
  induction fuel with
  | zero => intro x o; simp only [putUvarint.go, ByteArray.append_empty]
  | succ f ih =>
    intro x o
    simp only [putUvarint.go]
    by_cases h : x ≥ 0x80
    · rw [if_pos h, if_pos h, ih, ih (x / 128) (ByteArray.empty.push _), ← ByteArray.append_assoc,
        ← push_eq_append]
    · rw [if_neg h, if_neg h, ← push_eq_append]

theorem putUvarint_go_size : ∀ (fuel x k : Nat), 1 ≤ k → k ≤ fuel → x < 128 ^ k →
    1 ≤ (putUvarint.go fuel x ByteArray.empty).size ∧ (putUvarint.go fuel x ByteArray.empty).size ≤ k := by
  intro fuel
  induction fuel with
  | zero => intro x k h1 h2; omega
  | succ f ih =>
    intro x k hk1 hk2 hx
    rw [putUvarint.go]
    by_cases h : x ≥ 0x80
    · rw [if_pos h, putUvarint_go_append, ByteArray.size_append]
      obtain ⟨k', rfl⟩ : ∃ k', k = k' + 1 := ⟨k - 1, by omega⟩
      have hk' : 1 ≤ k' := by
        rcases k' with _ | k'
        · simp at hx; omega
        · omega
      have := ih (x / 128) k' hk' (by omega) (by rw [Nat.pow_succ] at hx; omega)
      simp only [ByteArray.size_push, ByteArray.size_empty]
      omega
    · rw [if_neg h]
      simp only [ByteArray.size_push, ByteArray.size_empty]
      omega

theorem putUvarint_size (x : Nat) (hx : x < 2 ^ 63) : 1 ≤ (putUvarint x).size ∧ (putUvarint x).size ≤ 9 :=
  putUvarint_go_size 10 x 9 (by omega) (by omega) (by
    have : (128:Nat) ^ 9 = 2 ^ 63 := by norm_num
    omega)


theorem get_append_right' (a b : ByteArray) (i : Nat) : Lzma2.get (a ++ b) (a.size + i) = Lzma2.get b i := by
  unfold Lzma2.get; rw [get!_append_right]

theorem readUvarint_go_put (b : ByteArray) (pos lim : Nat) : ∀ (fuel rf x i acc s : Nat),
    1 ≤ fuel → fuel ≤ rf → x < 128 ^ (fuel - 1) → i + fuel = 10 →
    (∀ j, j < (putUvarint.go fuel x ByteArray.empty).size →
      get b (pos + i + j) = get (putUvarint.go fuel x ByteArray.empty) j) →
    pos + i + (putUvarint.go fuel x ByteArray.empty).size ≤ lim →
    readUvarint.go b pos lim rf i acc s =
      .ok (acc + x * 2 ^ s) (i + (putUvarint.go fuel x ByteArray.empty).size) := by
  intro fuel
  induction fuel with
  | zero => intro rf x i acc s h; omega
  | succ f ih =>
    intro rf x i acc s _ hrf hx hi hg hlim
    obtain ⟨rf', rfl⟩ : ∃ rf', rf = rf' + 1 := ⟨rf - 1, by omega⟩
    rw [putUvarint.go] at hg hlim ⊢
    rw [readUvarint.go]
    simp only [Nat.add_sub_cancel] at hx
    by_cases h : x ≥ 0x80
    · rw [if_pos h] at hg hlim ⊢
      rw [putUvarint_go_append] at hg hlim ⊢
      generalize hR : putUvarint.go f (x / 128) ByteArray.empty = R at hg hlim ⊢
      have hPs : (ByteArray.empty.push (x % 128 + 128).toUInt8).size = 1 := rfl
      rw [ByteArray.size_append, hPs] at hg hlim ⊢
      have hf : 2 ≤ f := by
        rcases f with _ | _ | f
        · simp at hx; omega
        · simp at hx; omega
        · omega
      have g0 : get b (pos + i) = x % 128 + 128 := by
        have := hg 0 (by omega)
        rw [Nat.add_zero, get_append_left (by rw [hPs]; omega), get_single _ (by omega)] at this
        exact this
      rw [if_neg (by omega), if_neg (by omega)]
      simp only [g0]
      rw [if_neg (by omega)]
      have hih := ih rf' (x / 128) (i + 1) (acc + (x % 128 + 128) % 128 * 2 ^ s) (s + 7) (by omega) (by omega)
        (by
          obtain ⟨f', rfl⟩ : ∃ f', f = f' + 1 := ⟨f - 1, by omega⟩
          simp only [Nat.add_sub_cancel]
          rw [Nat.pow_succ] at hx; omega)
        (by omega)
        (by
          rw [hR]
          intro j hj
          have := hg (1 + j) (by omega)
          have e : Lzma2.get (ByteArray.empty.push (x % 128 + 128).toUInt8 ++ R) (1 + j) = Lzma2.get R j := by
            have := get_append_right' (ByteArray.empty.push (x % 128 + 128).toUInt8) R j
            rw [hPs] at this; exact this
          rw [e] at this
          rw [← this]; congr 1; omega)
        (by rw [hR]; omega)
      rw [hih, hR]
      congr 1
      · have e1 : (x % 128 + 128) % 128 = x % 128 := by omega
        rw [e1, Nat.pow_add]
        generalize 2 ^ s = P
        have := Nat.div_add_mod x 128
        calc acc + x % 128 * P + x / 128 * (P * 2 ^ 7) = acc + (128 * (x / 128) + x % 128) * P := by ring
          _ = acc + x * P := by rw [this]
      · omega
    · rw [if_neg h] at hg hlim ⊢
      have hPs : (ByteArray.empty.push x.toUInt8).size = 1 := rfl
      rw [hPs] at hg hlim ⊢
      have g0 : get b (pos + i) = x := by
        have := hg 0 (by omega)
        rw [Nat.add_zero, get_single _ (by omega)] at this
        exact this
      rw [if_neg (by omega), if_neg (by omega)]
      simp only [g0]
      rw [if_pos (by omega)]
      rw [if_neg]
      intro ⟨h1, h2⟩
      have : f = 0 := by omega
      subst this
      simp at hx
      omega

/-- **Uvarint round trip**, stated with the reader's bytes given pointwise -/
theorem readUvarint_put_get (b : ByteArray) (pos lim x : Nat) (hx : x < 2 ^ 63)
    (hg : ∀ j, j < (putUvarint x).size → get b (pos + j) = get (putUvarint x) j)
    (hlim : pos + (putUvarint x).size ≤ lim) :
    readUvarint b pos lim = .ok x (putUvarint x).size := by
  unfold readUvarint
  have := readUvarint_go_put b pos lim 10 11 x 0 0 0 (by omega) (by omega)
    (by have : (128:Nat) ^ 9 = 2 ^ 63 := by norm_num
        simp only [Nat.add_one_sub_one]; omega) (by omega)
    (by intro j hj; rw [Nat.add_zero]; exact hg j hj) (by rw [Nat.add_zero]; exact hlim)
  rw [this]
  simp only [Nat.zero_add, Nat.pow_zero, Nat.mul_one]
  rfl

/-- **Uvarint round trip** (1): extension-stable form -/
theorem readUvarint_putUvarint (pre post : ByteArray) (x lim : Nat) (hx : x < 2 ^ 63)
    (hlim : pre.size + (putUvarint x).size ≤ lim) :
    readUvarint (pre ++ putUvarint x ++ post) pre.size lim = .ok x (putUvarint x).size :=
  readUvarint_put_get _ _ _ _ hx (fun j hj => get_mid pre _ post j hj) hlim

theorem readUvarint_of_eq {inp a c : ByteArray} {x : Nat} (h : inp = a ++ putUvarint x ++ c) (hx : x < 2 ^ 63)
    (lim : Nat) (hlim : a.size + (putUvarint x).size ≤ lim) :
    readUvarint inp a.size lim = .ok x (putUvarint x).size := by
  rw [h]; exact readUvarint_putUvarint a c x lim hx hlim

end Xz

/-! ## part: Hdr -/

namespace Xz
open Lzma Lzma2 Rc

/-! ### zero padding, little-endian words, magic strings -/

theorem foldl_push0 (l : List Nat) : ∀ b : ByteArray,
    l.foldl (fun a _ => a.push 0) b = b ++ l.foldl (fun a _ => a.push 0) ByteArray.empty := by
  induction l with
  | nil => intro b; simp only [List.foldl_nil, ByteArray.append_empty]
  | cons x l ih =>
    intro b
    simp only [List.foldl_cons]
    rw [ih, ih (ByteArray.empty.push 0), ← ByteArray.append_assoc, ← push_eq_append]

theorem foldl_push0_zeros (n : Nat) (b : ByteArray) :
    (List.range n).foldl (fun a _ => a.push 0) b = b ++ zeros n := by
  rw [foldl_push0]; rfl

theorem foldl_push0_size (l : List Nat) : ∀ b : ByteArray,
    (l.foldl (fun a _ => a.push 0) b).size = b.size + l.length := by
  induction l with
  | nil => intro b; rfl
  | cons x l ih => intro b; simp only [List.foldl_cons, ih, ByteArray.size_push, List.length_cons]; omega

theorem zeros_size (n : Nat) : (zeros n).size = n := by
  unfold zeros; rw [foldl_push0_size, List.length_range]; exact Nat.zero_add n

theorem foldl_push0_get (l : List Nat) : ∀ (b : ByteArray) (i : Nat), (∀ j, get b j = 0) →
    get (l.foldl (fun a _ => a.push 0) b) i = 0 := by
  induction l with
  | nil => intro b i h; exact h i
  | cons x l ih =>
    intro b i h
    simp only [List.foldl_cons]
    apply ih
    intro j
    by_cases hj : j < b.size
    · rw [push_eq_append, get_append_left hj]; exact h j
    · by_cases hj' : j = b.size
      · subst hj'; exact get_push_last b 0 (by omega)
      · unfold Lzma2.get
        rw [get!_eq']
        have : ¬ j < (b.push 0).data.size := by
          show ¬ j < (b.push 0).size
          rw [ByteArray.size_push]; omega
        rw [Array.getElem?_eq_none (by omega)]
        rfl

theorem get_empty (j : Nat) : Lzma2.get ByteArray.empty j = 0 := by
  unfold Lzma2.get; rw [get!_eq']; rfl

theorem get_zeros (n i : Nat) : get (zeros n) i = 0 :=
  foldl_push0_get _ _ _ get_empty

theorem allZero_of (b : ByteArray) (lo hi : Nat) (h : ∀ k, k < hi - lo → get b (lo + k) = 0) :
    allZero b lo hi = true := by
  unfold allZero
  rw [List.all_eq_true]
  intro k hk
  rw [List.mem_range] at hk
  rw [h k hk]
  rfl

theorem allZero_of_eq {inp a c : ByteArray} {n : Nat} (h : inp = a ++ zeros n ++ c) :
    allZero inp a.size (a.size + n) = true := by
  apply allZero_of
  intro k hk
  rw [get_of_eq h (by rw [zeros_size]; omega), get_zeros]

theorem sliceEq_of (b : ByteArray) (i : Nat) (l : List Nat) (h : ∀ k, k < l.length → get b (i + k) = l.getD k 0) :
    sliceEq b i l = true := by
  unfold sliceEq
  rw [List.all_eq_true]
  intro k hk
  rw [List.mem_range] at hk
  rw [h k hk]
  exact beq_self_eq_true _

theorem le32_size (x : UInt32) : (Hash.le32 x).size = 4 := by
  simp [Hash.le32, ByteArray.size_push]

theorem le64_size (x : UInt64) : (Hash.le64 x).size = 8 := by
  unfold Hash.le64
  simp [Std.Legacy.Range.size, List.range'_succ, ByteArray.size_push]

theorem blist_le32 (x : UInt32) :
    blist (Hash.le32 x) = [x.toNat % 256, x.toNat / 256 % 256, x.toNat / 65536 % 256, x.toNat / 16777216 % 256] := by
  unfold Hash.le32
  simp only [blist, ByteArray.data_push, Array.toList_push, List.map_append, List.map_cons, List.map_nil]
  simp [UInt32.toNat_shiftRight, Nat.shiftRight_eq_div_pow]

theorem le32At_of_eq {inp a c : ByteArray} {x : UInt32} (h : inp = a ++ Hash.le32 x ++ c) :
    le32At inp a.size = x.toNat := by
  unfold le32At
  have g : ∀ i, i < 4 → get inp (a.size + i) = (blist (Hash.le32 x))[i]?.getD 0 := by
    intro i hi
    rw [get_of_eq h (by rw [le32_size]; exact hi), get_eq_blist]
  have g0 := g 0 (by omega)
  have g1 := g 1 (by omega)
  have g2 := g 2 (by omega)
  have g3 := g 3 (by omega)
  rw [blist_le32] at g0 g1 g2 g3
  rw [Nat.add_zero] at g0
  rw [g0, g1, g2, g3]
  simp only [List.getElem?_cons_zero, List.getElem?_cons_succ, Option.getD_some]
  have := x.toNat_lt
  omega


/-! ### block header -/

def optUv (f : Option Nat) : ByteArray := match f with | some x => putUvarint x | none => ByteArray.empty

def hdrFlags (h : BlockHeader) : Nat :=
  (if h.csize.isSome then 0x40 else 0) + (if h.usize.isSome then 0x80 else 0)

/-- number of bytes of the header fields: size byte, flags, optional sizes, filter id, props size, dict code -/
def hdrFields (h : BlockHeader) : Nat := 2 + (optUv h.csize).size + (optUv h.usize).size + 3

/-- minimal header length for the fields (4-aligned, CRC included) -/
def hdrMinLen (h : BlockHeader) : Nat := (hdrFields h + 3) / 4 * 4 + 4

/-- a block header the emitter can write and every reader accepts -/
structure HdrOk (h : BlockHeader) : Prop where
  dict : h.dictCode ≤ 40
  cs : ∀ c, h.csize = some c → c < 2 ^ 63
  us : ∀ u, h.usize = some u → u < 2 ^ 63
  len : ∃ k, h.len = hdrMinLen h + 4 * k
  lenMax : h.len ≤ 1024

def hdrPre (h : BlockHeader) : ByteArray :=
  (((ByteArray.empty.push ((h.len / 4) - 1).toUInt8 |>.push (hdrFlags h).toUInt8) ++ optUv h.csize ++ optUv h.usize).push
    0x21 |>.push 1 |>.push h.dictCode.toUInt8)

def hdrBody (h : BlockHeader) : ByteArray := hdrPre h ++ zeros (h.len - 4 - (hdrPre h).size)

theorem blockHeaderBytes_eq (h : BlockHeader) :
    blockHeaderBytes h = hdrBody h ++ Hash.le32 (Hash.crc32 (hdrBody h) 0 (hdrBody h).size) := by
  obtain ⟨len, cs, us, dc⟩ := h
  cases cs <;> cases us <;>
  · unfold blockHeaderBytes hdrBody hdrPre hdrFlags optUv
    simp only [ByteArray.append_empty, foldl_push0_zeros]

theorem push3_eq_append (b : ByteArray) (x y z : UInt8) :
    ((b.push x).push y).push z = b ++ ((ByteArray.empty.push x).push y).push z := by
  rw [push_eq_append, push_eq_append (b.push x), push_eq_append b, push_eq_append (ByteArray.empty.push x),
    push_eq_append (ByteArray.empty.push x ++ _)]
  simp only [ByteArray.append_assoc]

def hdrA (h : BlockHeader) : ByteArray := ByteArray.empty.push ((h.len / 4) - 1).toUInt8 |>.push (hdrFlags h).toUInt8
def hdrT (h : BlockHeader) : ByteArray := ByteArray.empty.push 0x21 |>.push 1 |>.push h.dictCode.toUInt8

theorem hdrPre_eq (h : BlockHeader) : hdrPre h = hdrA h ++ optUv h.csize ++ optUv h.usize ++ hdrT h := by
  unfold hdrPre hdrA hdrT
  rw [push3_eq_append]

theorem hdrA_size (h : BlockHeader) : (hdrA h).size = 2 := rfl
theorem hdrT_size (h : BlockHeader) : (hdrT h).size = 3 := rfl

theorem hdrPre_size (h : BlockHeader) : (hdrPre h).size = hdrFields h := by
  rw [hdrPre_eq]
  simp only [ByteArray.size_append, hdrA_size, hdrT_size, hdrFields]


theorem hdrFlags_facts (h : BlockHeader) :
    hdrFlags h < 256 ∧ hdrFlags h &&& 0x3C = 0 ∧ hdrFlags h &&& 0x03 = 0 ∧
    (hdrFlags h &&& 0x40 ≠ 0 ↔ h.csize.isSome = true) ∧ (hdrFlags h &&& 0x80 ≠ 0 ↔ h.usize.isSome = true) := by
  unfold hdrFlags
  cases h.csize <;> cases h.usize <;> simp

theorem sizeField_emit (cnd : Prop) [Decidable cnd] (f : Option Nat) (hc : cnd ↔ f.isSome = true)
    (hf : ∀ x, f = some x → x < 2 ^ 63) (inp a c : ByteArray) (h : inp = a ++ optUv f ++ c) (lim : Nat)
    (hlim : a.size + (optUv f).size ≤ lim) :
    (if cnd then
        match readUvarint inp a.size lim with
        | .ok x k => if x ≥ 2 ^ 63 then none else some (some x, a.size + k)
        | _ => none
      else some (none, a.size) : Option (Option Nat × Nat)) = some (f, a.size + (optUv f).size) := by
  cases f with
  | none =>
    have : ¬ cnd := by rw [hc]; simp
    rw [if_neg this]
    rfl
  | some x =>
    have : cnd := by rw [hc]; rfl
    rw [if_pos this]
    have hx := hf x rfl
    unfold optUv at h hlim ⊢
    simp only at h hlim ⊢
    rw [readUvarint_of_eq h hx lim hlim]
    simp only
    rw [if_neg (by omega)]

theorem putUvarint_33 : putUvarint 0x21 = ByteArray.empty.push 0x21 := by
  unfold putUvarint
  rw [putUvarint.go, if_neg (by omega)]
  rfl

/-- **Block header round trip** (2) -/
theorem readBlockHeader_emit (strict : Bool) (h : BlockHeader) (hok : HdrOk h)
    (hs : strict = true → h.csize ≠ some 0) (inp pre post : ByteArray)
    (hinp : inp = pre ++ blockHeaderBytes h ++ post) :
    readBlockHeader strict inp pre.size = .ok h := by
  obtain ⟨hdict, hcs, hus, ⟨k, hlen⟩, hmax⟩ := hok
  obtain ⟨hF0, hF1, hF2, hF3, hF4⟩ := hdrFlags_facts h
  have hcs9 : (optUv h.csize).size ≤ 9 := by
    unfold optUv; cases hc : h.csize with
    | none => simp
    | some c => exact (putUvarint_size c (hcs c hc)).2
  have hus9 : (optUv h.usize).size ≤ 9 := by
    unfold optUv; cases hc : h.usize with
    | none => simp
    | some c => exact (putUvarint_size c (hus c hc)).2
  have hps := hdrPre_size h
  have hmin : hdrMinLen h = (hdrFields h + 3) / 4 * 4 + 4 := rfl
  have hfl : hdrFields h = 2 + (optUv h.csize).size + (optUv h.usize).size + 3 := rfl
  have hbs : (hdrBody h).size = h.len - 4 := by
    unfold hdrBody
    rw [ByteArray.size_append, zeros_size, hps]; omega
  rw [blockHeaderBytes_eq] at hinp
  generalize hcrc : Hash.crc32 (hdrBody h) 0 (hdrBody h).size = crc at hinp
  have hsz : inp.size = pre.size + h.len + post.size := by
    rw [hinp]; simp only [ByteArray.size_append, hbs, le32_size]; omega
  -- decompositions
  have dBody : inp = pre ++ hdrBody h ++ (Hash.le32 crc ++ post) := by
    rw [hinp]; simp only [ByteArray.append_assoc]
  have dCrc : inp = (pre ++ hdrBody h) ++ Hash.le32 crc ++ post := by
    rw [hinp]; simp only [ByteArray.append_assoc]
  have hbody : hdrBody h = hdrA h ++ optUv h.csize ++ optUv h.usize ++ hdrT h ++ zeros (h.len - 4 - hdrFields h) := by
    unfold hdrBody; rw [hps, hdrPre_eq]
  generalize hZ : zeros (h.len - 4 - hdrFields h) = Z at hbody
  generalize hR : Hash.le32 crc ++ post = R at dBody
  have dA : inp = pre ++ hdrA h ++ (optUv h.csize ++ optUv h.usize ++ hdrT h ++ Z ++ R) := by
    rw [dBody, hbody]; simp only [ByteArray.append_assoc]
  have dC : inp = (pre ++ hdrA h) ++ optUv h.csize ++ (optUv h.usize ++ hdrT h ++ Z ++ R) := by
    rw [dBody, hbody]; simp only [ByteArray.append_assoc]
  have dU : inp = (pre ++ hdrA h ++ optUv h.csize) ++ optUv h.usize ++ (hdrT h ++ Z ++ R) := by
    rw [dBody, hbody]; simp only [ByteArray.append_assoc]
  have dT : inp = (pre ++ hdrA h ++ optUv h.csize ++ optUv h.usize) ++ hdrT h ++ (Z ++ R) := by
    rw [dBody, hbody]; simp only [ByteArray.append_assoc]
  have dZ : inp = (pre ++ hdrA h ++ optUv h.csize ++ optUv h.usize ++ hdrT h) ++ zeros (h.len - 4 - hdrFields h) ++ R := by
    rw [dBody, hbody, hZ]; simp only [ByteArray.append_assoc]
  -- bytes
  have hlen4 : h.len % 4 = 0 := by omega
  have hlen12 : 12 ≤ h.len := by omega
  have g0 : get inp pre.size = h.len / 4 - 1 := by
    have := get_of_eq dA (i := 0) (by rw [hdrA_size]; omega)
    rw [Nat.add_zero] at this
    rw [this]
    unfold hdrA
    rw [push_eq_append, get_append_left (by show 0 < 1; omega)]
    exact get_single _ (by omega)
  have g1 : get inp (pre.size + 1) = hdrFlags h := by
    rw [get_of_eq dA (i := 1) (by rw [hdrA_size]; omega)]
    unfold hdrA
    exact get_push_last _ _ hF0
  have hlenq : (h.len / 4 - 1 + 1) * 4 = h.len := by omega
  unfold readBlockHeader
  simp only []
  rw [if_neg (by omega), g0, if_neg (by omega), hlenq, if_neg (by omega)]
  have e1 : pre.size + (h.len - 4) = pre.size + (hdrBody h).size := by rw [hbs]
  have e2 : pre.size + (h.len - 4) = (pre ++ hdrBody h).size := by rw [ByteArray.size_append, hbs]
  have c1 : (Hash.crc32 inp pre.size (pre.size + (h.len - 4))).toNat = le32At inp (pre.size + (h.len - 4)) := by
    rw [e1, crc32_of_eq dBody, hcrc, ← e1, e2, le32At_of_eq dCrc]
  rw [if_neg (by rw [c1]; simp), g1, if_neg (by rw [hF1]; simp)]
  -- compressed size field
  have p0 : pre.size + 2 = (pre ++ hdrA h).size := by rw [ByteArray.size_append, hdrA_size]
  rw [p0]
  generalize hr1 : (if hdrFlags h &&& 0x40 ≠ 0 then
        match readUvarint inp (pre ++ hdrA h).size (pre.size + (h.len - 4)) with
        | .ok x k => if x ≥ 2 ^ 63 then none else some (some x, (pre ++ hdrA h).size + k)
        | _ => none
      else some (none, (pre ++ hdrA h).size) : Option (Option Nat × Nat)) = r1
  have f1 : r1 = some (h.csize, (pre ++ hdrA h).size + (optUv h.csize).size) := by
    rw [← hr1]
    exact sizeField_emit _ h.csize hF3 hcs inp _ _ dC _ (by rw [← p0]; omega)
  rw [f1]
  simp only []
  have p1 : (pre ++ hdrA h).size + (optUv h.csize).size = (pre ++ hdrA h ++ optUv h.csize).size := by
    rw [ByteArray.size_append (a := pre ++ hdrA h)]
  rw [p1]
  generalize hr2 : (if hdrFlags h &&& 0x80 ≠ 0 then
        match readUvarint inp (pre ++ hdrA h ++ optUv h.csize).size (pre.size + (h.len - 4)) with
        | .ok x k => if x ≥ 2 ^ 63 then none else some (some x, (pre ++ hdrA h ++ optUv h.csize).size + k)
        | _ => none
      else some (none, (pre ++ hdrA h ++ optUv h.csize).size) : Option (Option Nat × Nat)) = r2
  have f2 : r2 = some (h.usize, (pre ++ hdrA h ++ optUv h.csize).size + (optUv h.usize).size) := by
    rw [← hr2]
    exact sizeField_emit _ h.usize hF4 hus inp _ _ dU _ (by rw [← p1, ← p0]; omega)
  rw [f2]
  simp only []
  rw [if_neg (by rw [hF2]; simp)]
  have p2 : (pre ++ hdrA h ++ optUv h.csize).size + (optUv h.usize).size =
      (pre ++ hdrA h ++ optUv h.csize ++ optUv h.usize).size := by
    rw [ByteArray.size_append (a := pre ++ hdrA h ++ optUv h.csize)]
  have p2v : (pre ++ hdrA h ++ optUv h.csize ++ optUv h.usize).size =
      pre.size + 2 + (optUv h.csize).size + (optUv h.usize).size := by
    simp only [ByteArray.size_append, hdrA_size]
  rw [p2]
  generalize hP : pre ++ hdrA h ++ optUv h.csize ++ optUv h.usize = P at dT dZ p2v
  have gT : ∀ j, j < 3 → get inp (P.size + j) = get (hdrT h) j := by
    intro j hj; exact get_of_eq dT (by rw [hdrT_size]; exact hj)
  have t0 : get (hdrT h) 0 = 0x21 := by
    unfold hdrT
    rw [push_eq_append, push_eq_append (ByteArray.empty.push 33), ByteArray.append_assoc,
      get_append_left (by decide)]
    exact get_single 0x21 (by omega)
  have t1 : get (hdrT h) 1 = 1 := by
    unfold hdrT
    rw [push_eq_append, get_append_left (by decide)]
    exact get_push_last (ByteArray.empty.push 33) 1 (by omega)
  have t2 : get (hdrT h) 2 = h.dictCode := by
    unfold hdrT
    exact get_push_last ((ByteArray.empty.push 33).push 1) h.dictCode (by omega)
  have hid : readUvarint inp P.size (pre.size + (h.len - 4)) = .ok 0x21 1 := by
    have := readUvarint_put_get inp P.size (pre.size + (h.len - 4)) 0x21 (by omega)
      (by rw [putUvarint_33]
          intro j hj
          have hj0 : j = 0 := by
            have : (ByteArray.empty.push (33:UInt8)).size = 1 := rfl
            omega
          subst hj0
          rw [gT 0 (by omega), t0]
          exact (get_single 0x21 (by omega)).symm)
      (by rw [putUvarint_33]
          have : (ByteArray.empty.push (33:UInt8)).size = 1 := rfl
          omega)
    rw [this, putUvarint_33]
    rfl
  rw [hid]
  simp only []
  rw [if_neg (by omega), if_neg (by omega), gT 1 (by omega), t1, if_neg (by omega)]
  have e3 : P.size + 1 + 1 = P.size + 2 := by omega
  rw [e3, gT 2 (by omega), t2, if_neg (by omega)]
  have hz : allZero inp (P.size + 1 + 2) (pre.size + (h.len - 4)) = true := by
    have p3 : P.size + 1 + 2 = (P ++ hdrT h).size := by rw [ByteArray.size_append, hdrT_size]
    have := allZero_of_eq dZ
    rw [← p3] at this
    have e : P.size + 1 + 2 + (h.len - 4 - hdrFields h) = pre.size + (h.len - 4) := by omega
    rw [e] at this
    exact this
  rw [hz]
  simp only [Bool.not_true, Bool.false_eq_true, if_false]
  rw [if_neg (by intro ⟨a, b⟩; exact hs a b)]

end Xz

/-! ## part: Shift -/

/-! The LZMA2 chunk emitter is invariant under prefixing the history: running `emitChunk` on a history whose
    output has an extra prefix `pfx` (with the dictionary start moved accordingly) emits the same bytes and
    ends in the prefixed history. -/


namespace Lzma
open Rc

def Hist.shift (pfx : ByteArray) (h : Hist) : Hist :=
  { out := pfx ++ h.out, dictStart := pfx.size + h.dictStart, cap := h.cap }

theorem shift_out (pfx : ByteArray) (h : Hist) : (h.shift pfx).out = pfx ++ h.out := rfl

theorem shift_out_size (pfx : ByteArray) (h : Hist) : (h.shift pfx).out.size = pfx.size + h.out.size := by
  rw [shift_out, ByteArray.size_append]

theorem shift_pos (pfx : ByteArray) (h : Hist) : (h.shift pfx).pos = h.pos := by
  simp only [Hist.shift, Hist.pos, ByteArray.size_append]
  omega

theorem shift_dictLen (pfx : ByteArray) (h : Hist) : (h.shift pfx).dictLen = h.dictLen := by
  unfold Hist.dictLen
  rw [shift_pos]
  rfl

theorem dictLen_le_size (h : Hist) : h.dictLen ≤ h.out.size := by
  unfold Hist.dictLen Hist.pos
  omega

theorem shift_byteAt (pfx : ByteArray) (h : Hist) (dist : Nat) : (h.shift pfx).byteAt dist = h.byteAt dist := by
  unfold Hist.byteAt
  rw [shift_dictLen]
  by_cases hc : 0 < dist ∧ dist ≤ h.dictLen
  · rw [if_pos hc, if_pos hc]
    have h1 := dictLen_le_size h
    have h2 : (h.shift pfx).out.size - dist = pfx.size + (h.out.size - dist) := by
      rw [shift_out_size]; omega
    rw [h2, shift_out, Lzma2.get!_append_right]
  · rw [if_neg hc, if_neg hc]

theorem push_append (a b : ByteArray) (x : UInt8) : (a ++ b).push x = a ++ b.push x := by
  rw [Lzma2.push_eq_append, Lzma2.push_eq_append b, ByteArray.append_assoc]

theorem shift_push (pfx : ByteArray) (h : Hist) (b : Nat) : (h.shift pfx).push b = (h.push b).shift pfx := by
  simp only [Hist.shift, Hist.push, push_append]

theorem shift_reset (pfx : ByteArray) (h : Hist) : (h.shift pfx).reset = h.reset.shift pfx := by
  simp only [Hist.shift, Hist.reset, ByteArray.size_append]

theorem shift_copyMatch (pfx : ByteArray) (dist : Nat) : ∀ (n : Nat) (h : Hist), dist ≤ h.out.size →
    (h.shift pfx).copyMatch dist n = (h.copyMatch dist n).shift pfx := by
  intro n
  induction n with
  | zero => intro h _; rfl
  | succ n ih =>
    intro h hd
    have hstep : ({ h.shift pfx with out := (h.shift pfx).out.push ((h.shift pfx).out.get! ((h.shift pfx).out.size - dist)) } : Hist) =
        ({ h with out := h.out.push (h.out.get! (h.out.size - dist)) } : Hist).shift pfx := by
      have h2 : (h.shift pfx).out.size - dist = pfx.size + (h.out.size - dist) := by
        rw [shift_out_size]; omega
      rw [h2]
      simp only [Hist.shift, Lzma2.get!_append_right, push_append]
    show ({ h.shift pfx with out := (h.shift pfx).out.push ((h.shift pfx).out.get! ((h.shift pfx).out.size - dist)) } : Hist).copyMatch dist n = _
    rw [hstep, ih _ (by simp only [ByteArray.size_push]; omega)]
    rfl

theorem mkCtx_shift (p : Props) (s : St) (pfx : ByteArray) (h : Hist) : mkCtx p s (h.shift pfx) = mkCtx p s h := by
  unfold mkCtx
  rw [shift_pos, shift_byteAt, shift_byteAt]

theorem applyOp_shift (pfx : ByteArray) (h : Hist) (s : St) (op : RawOp) (hok : OpOk h s op) :
    (h.shift pfx).applyOp (s.apply op) op = (h.applyOp (s.apply op) op).shift pfx := by
  have hl := dictLen_le_size h
  cases op with
  | lit b => exact shift_push pfx h b
  | mtch len dd =>
    have h1 : dd + 1 ≤ h.dictLen := hok.2.2
    simp only [Hist.applyOp]
    rw [if_neg hok.2.1, if_neg hok.2.1]
    exact shift_copyMatch pfx _ _ h (by omega)
  | rep g len =>
    have h1 : (s.apply (.rep g len)).r0 + 1 ≤ h.dictLen := hok.2
    simp only [Hist.applyOp]
    exact shift_copyMatch pfx _ _ h (by omega)
  | shortRep =>
    have h1 : s.r0 + 1 ≤ h.dictLen := hok.2
    have h2 : (s.apply .shortRep).r0 = s.r0 := rfl
    simp only [Hist.applyOp]
    exact shift_copyMatch pfx _ _ h (by rw [h2]; omega)

theorem OpOk_shift (pfx : ByteArray) (h : Hist) (s : St) (op : RawOp) (hok : OpOk h s op) :
    OpOk (h.shift pfx) s op := by
  unfold OpOk at hok ⊢
  rw [shift_dictLen]
  exact hok

theorem OpsOk_shift (pfx : ByteArray) : ∀ (ops : List RawOp) (s : St) (h : Hist), OpsOk s h ops →
    OpsOk s (h.shift pfx) ops := by
  intro ops
  induction ops with
  | nil => intro s h _; exact .nil _ _
  | cons op ops ih =>
    intro s h hok
    cases hok with
    | cons _ _ _ _ h1 h2 =>
      refine .cons _ _ _ _ (OpOk_shift pfx h s op h1) ?_
      rw [applyOp_shift pfx h s op h1]
      exact ih _ _ h2

def EncSt.shift (pfx : ByteArray) (x : EncSt) : EncSt := { x with h := x.h.shift pfx }

theorem encStep_shift (p : Props) (pfx : ByteArray) (x : EncSt) (op : RawOp) (hok : OpOk x.h x.s op) :
    encStep p (x.shift pfx) op = (encStep p x op).shift pfx := by
  rw [encStep_eq, encStep_eq]
  simp only [EncSt.shift, mkCtx_shift, applyOp_shift pfx x.h x.s op hok]

theorem foldl_encStep_shift (p : Props) (pfx : ByteArray) : ∀ (ops : List RawOp) (x : EncSt), OpsOk x.s x.h ops →
    ops.foldl (encStep p) (x.shift pfx) = (ops.foldl (encStep p) x).shift pfx := by
  intro ops
  induction ops with
  | nil => intro x _; rfl
  | cons op ops ih =>
    intro x hok
    cases hok with
    | cons _ _ _ _ h1 h2 =>
      have hs : (encStep p x op).s = x.s.apply op := by rw [encStep_eq]
      have hh : (encStep p x op).h = x.h.applyOp (x.s.apply op) op := by rw [encStep_eq]
      simp only [List.foldl_cons]
      rw [encStep_shift p pfx x op h1, ih _ (by rw [hs, hh]; exact h2)]

theorem encodeOps_shift (p : Props) (s : St) (tbl : Tbl) (pfx : ByteArray) (h : Hist) (ops : List RawOp)
    (hok : OpsOk s h ops) :
    encodeOps p s tbl (h.shift pfx) ops = (encodeOps p s tbl h ops).shift pfx := by
  unfold encodeOps
  exact foldl_encStep_shift p pfx ops { s := s, tbl := tbl, e := Enc.init, bytes := ByteArray.empty, h := h } hok

theorem encClose_shift (pfx : ByteArray) (x : EncSt) : encClose (x.shift pfx) = encClose x := rfl

end Lzma

namespace Lzma2
open Lzma Rc Spec

def shiftE (pfx : ByteArray) (e : EState) : EState := { e with h := e.h.shift pfx }

theorem lzProps_shift (pfx : ByteArray) (e : EState) (c : Chunk) : lzProps (shiftE pfx e) c = lzProps e c := rfl
theorem lzS_shift (pfx : ByteArray) (e : EState) (k : ChunkKind) : lzS (shiftE pfx e) k = lzS e k := rfl
theorem lzTbl_shift (pfx : ByteArray) (e : EState) (k : ChunkKind) (p : Props) :
    lzTbl (shiftE pfx e) k p = lzTbl e k p := rfl

theorem lzH_shift (pfx : ByteArray) (e : EState) (k : ChunkKind) : lzH (shiftE pfx e) k = (lzH e k).shift pfx := by
  unfold lzH
  by_cases hk : k = .lrnd
  · rw [if_pos hk, if_pos hk]; exact shift_reset pfx e.h
  · rw [if_neg hk, if_neg hk]; rfl

theorem lzEnc_shift (pfx : ByteArray) (e : EState) (c : Chunk)
    (hok : OpsOk (lzS e c.kind) (lzH e c.kind) c.ops.toList) :
    lzEnc (shiftE pfx e) c = (lzEnc e c).shift pfx := by
  unfold lzEnc
  rw [lzProps_shift, lzS_shift, lzTbl_shift, lzH_shift]
  exact encodeOps_shift _ _ _ pfx _ _ hok

theorem lzUsize_shift (pfx : ByteArray) (e : EState) (c : Chunk)
    (hok : OpsOk (lzS e c.kind) (lzH e c.kind) c.ops.toList) :
    lzUsize (shiftE pfx e) c = lzUsize e c := by
  unfold lzUsize
  rw [lzEnc_shift pfx e c hok, lzH_shift]
  show ((lzEnc e c).h.shift pfx).out.size - _ = _
  rw [shift_out_size, shift_out_size]
  omega

theorem lzBody_shift (pfx : ByteArray) (e : EState) (c : Chunk)
    (hok : OpsOk (lzS e c.kind) (lzH e c.kind) c.ops.toList) :
    lzBody (shiftE pfx e) c = lzBody e c := by
  unfold lzBody
  rw [lzEnc_shift pfx e c hok, encClose_shift]

theorem lzHdr_shift (pfx : ByteArray) (e : EState) (c : Chunk)
    (hok : OpsOk (lzS e c.kind) (lzH e c.kind) c.ops.toList) :
    lzHdr (shiftE pfx e) c = lzHdr e c := by
  unfold lzHdr
  rw [lzUsize_shift pfx e c hok, lzBody_shift pfx e c hok]

theorem LzOk_shift (strict : Bool) (pfx : ByteArray) (e : EState) (c : Chunk) (hok : LzOk strict e c) :
    LzOk strict (shiftE pfx e) c := by
  obtain ⟨h1, h2, h3, h4, h5, h6⟩ := hok
  refine ⟨h1, h2, ?_, ?_, ?_, h6⟩
  · rw [lzS_shift, lzH_shift]; exact OpsOk_shift pfx _ _ _ h3
  · rw [lzUsize_shift pfx e c h3]; exact h4
  · rw [lzBody_shift pfx e c h3]; exact h5

theorem emitChunk_shift_lz (strict : Bool) (pfx : ByteArray) (e : EState) (c : Chunk) (hk : isLz c.kind)
    (hok : LzOk strict e c) :
    emitChunk (shiftE pfx e) c = shiftE pfx (emitChunk e c) ∧
    chunkBytes (shiftE pfx e) c = chunkBytes e c ∧
    LzOk strict (shiftE pfx e) c := by
  have h3 := hok.2.2.1
  refine ⟨?_, ?_, LzOk_shift strict pfx e c hok⟩
  · rw [emitChunk_lz _ _ hk, emitChunk_lz _ _ hk, lzHdr_shift pfx e c h3, lzBody_shift pfx e c h3,
      lzEnc_shift pfx e c h3, lzProps_shift]
    rfl
  · rw [chunkBytes_lz _ _ hk, chunkBytes_lz _ _ hk, lzHdr_shift pfx e c h3, lzBody_shift pfx e c h3]

theorem emitChunk_shift_raw (pfx : ByteArray) (e : EState) (c : Chunk) (hk : c.kind = .ud ∨ c.kind = .u) :
    emitChunk (shiftE pfx e) c = shiftE pfx (emitChunk e c) ∧
    chunkBytes (shiftE pfx e) c = chunkBytes e c := by
  obtain ⟨kind, usize, csize, props, ops, raw, consumed, marker⟩ := c
  dsimp only at hk
  rcases hk with rfl | rfl
  · refine ⟨?_, rfl⟩
    simp only [emitChunk, shiftE, if_true, shift_reset]
    simp only [Hist.shift, ByteArray.append_assoc]
  · refine ⟨?_, rfl⟩
    simp only [emitChunk, shiftE, reduceCtorEq, if_false]
    simp only [Hist.shift, ByteArray.append_assoc]

/-- per chunk -/
theorem emitChunk_shift (strict : Bool) (pfx : ByteArray) (e : EState) (q : SeqState) (c : Chunk)
    (hok : ChunkOk strict e q c) :
    emitChunk (shiftE pfx e) c = shiftE pfx (emitChunk e c) ∧
    chunkBytes (shiftE pfx e) c = chunkBytes e c ∧
    ChunkOk strict (shiftE pfx e) q c := by
  obtain ⟨hq, hrest⟩ := hok
  cases hck : c.kind <;> rw [hck] at hrest <;> dsimp only at hrest
  · obtain ⟨a, b⟩ := emitChunk_shift_raw pfx e c (Or.inl hck)
    refine ⟨a, b, hq, ?_⟩
    rw [hck]; exact hrest
  · obtain ⟨a, b⟩ := emitChunk_shift_raw pfx e c (Or.inr hck)
    refine ⟨a, b, hq, ?_⟩
    rw [hck]; exact hrest
  · obtain ⟨a, b, d⟩ := emitChunk_shift_lz strict pfx e c (Or.inl hck) hrest
    refine ⟨a, b, hq, ?_⟩
    rw [hck]; exact d
  · obtain ⟨a, b, d⟩ := emitChunk_shift_lz strict pfx e c (Or.inr (Or.inl hck)) hrest
    refine ⟨a, b, hq, ?_⟩
    rw [hck]; exact d
  · obtain ⟨a, b, d⟩ := emitChunk_shift_lz strict pfx e c (Or.inr (Or.inr (Or.inl hck))) hrest
    refine ⟨a, b, hq, ?_⟩
    rw [hck]; exact d
  · obtain ⟨a, b, d⟩ := emitChunk_shift_lz strict pfx e c (Or.inr (Or.inr (Or.inr hck))) hrest
    refine ⟨a, b, hq, ?_⟩
    rw [hck]; exact d

/-- chunk lists -/
theorem chunks_shift (strict : Bool) (pfx : ByteArray) : ∀ (cs : List Chunk) (e : EState) (q : SeqState),
    ChunksOk strict e q cs →
    ChunksOk strict (shiftE pfx e) q cs ∧
    chunksBytes (shiftE pfx e) cs = chunksBytes e cs ∧
    cs.foldl emitChunk (shiftE pfx e) = shiftE pfx (cs.foldl emitChunk e) := by
  intro cs
  induction cs with
  | nil => intro e q _; exact ⟨.nil _ _, rfl, rfl⟩
  | cons c cs ih =>
    intro e q hok
    cases hok with
    | cons _ _ q' _ _ hc hs hrest =>
      obtain ⟨a, b, d⟩ := emitChunk_shift strict pfx e q c hc
      obtain ⟨i1, i2, i3⟩ := ih (emitChunk e c) q' hrest
      refine ⟨.cons _ _ q' _ _ d hs (by rw [a]; exact i1), ?_, ?_⟩
      · simp only [chunksBytes]
        rw [a, b, i2]
      · simp only [List.foldl_cons]
        rw [a, i3]


end Lzma2

/-! ## part: Block -/

namespace Xz
open Lzma Lzma2 Rc Spec

/-! ### LZMA2 data of a block, decoded behind earlier output -/

/-- the emitter's state after the chunks `cs` of a block with dictionary code `dc` (end marker not included) -/
def lzE (dc : Nat) (cs : List Chunk) : EState := cs.foldl emitChunk (e0 (dictSize dc))

/-- LZMA2 bytes of a block: the chunks and the end marker -/
def lzBytes (dc : Nat) (cs : List Chunk) : ByteArray := chunksBytes (e0 (dictSize dc)) cs ++ ByteArray.empty.push 0

/-- uncompressed content of a block -/
def lzContent (dc : Nat) (cs : List Chunk) : ByteArray := (lzE dc cs).h.out

theorem decode_emit_shift (strict : Bool) (cap : Nat) (cs : List Chunk)
    (hok : ChunksOk strict (e0 cap) .init cs) (inp pre post out : ByteArray)
    (hinp : inp = pre ++ (chunksBytes (e0 cap) cs ++ ByteArray.empty.push 0) ++ post) :
    ∃ r', Lzma2.decode strict cap inp pre.size out = (r', .eof) ∧
      r'.h.out = out ++ (cs.foldl emitChunk (e0 cap)).h.out ∧
      r'.pos = pre.size + (chunksBytes (e0 cap) cs).size + 1 ∧ r'.inp = inp := by
  obtain ⟨hok', hbytes, hfin⟩ := chunks_shift strict out cs (e0 cap) .init hok
  unfold Lzma2.decode
  have hm : Matches { inp := inp, pos := pre.size, h := { out := out, dictStart := out.size, cap := cap } }
      (shiftE out (e0 cap)) .init := by
    refine ⟨?_, rfl, rfl, rfl, rfl, empty_tbl_ok⟩
    show _ = Hist.shift out _
    unfold Hist.shift e0
    simp only [ByteArray.append_empty, Nat.add_zero]
  have hsz : inp.size = pre.size + ((chunksBytes (e0 cap) cs).size + 1) + post.size := by
    rw [hinp]; simp only [ByteArray.size_append]; rfl
  have hlen := chunksBytes_size cs (e0 cap)
  obtain ⟨r', g1, g2, g3, g4, g5, g6⟩ := readAll_emit strict cs (shiftE out (e0 cap)) .init _ pre post
    (inp.size - pre.size + 2) hm (by simp [SeqState.init]) hok'
    (by show inp = _; rw [hbytes, hinp]; simp only [ByteArray.append_assoc]) rfl (by omega)
  refine ⟨r', g1, ?_, ?_, g3⟩
  · rw [g2, hfin]; rfl
  · rw [g4, hbytes]


/-! ### check values -/

theorem checkSize_cases (flags : Nat) (h : (checkSize flags).isSome = true) :
    flags = 0 ∨ flags = 1 ∨ flags = 4 ∨ flags = 10 := by
  unfold checkSize at h
  by_cases h0 : flags = 0
  · exact Or.inl h0
  by_cases h1 : flags = 1
  · exact Or.inr (Or.inl h1)
  by_cases h4 : flags = 4
  · exact Or.inr (Or.inr (Or.inl h4))
  by_cases h10 : flags = 10
  · exact Or.inr (Or.inr (Or.inr h10))
  rw [if_neg h0, if_neg h1, if_neg h4, if_neg h10] at h
  simp at h

theorem checkValue_size (flags : Nat) (h : (checkSize flags).isSome = true) (b : ByteArray) (lo hi : Nat) :
    (checkValue flags b lo hi).size = (checkSize flags).getD 0 := by
  rcases checkSize_cases flags h with rfl | rfl | rfl | rfl
  · rfl
  · exact le32_size _
  · exact le64_size _
  · exact sha256_size _ _ _

theorem checkValue_of_eq (flags : Nat) {inp a b c : ByteArray} (h : inp = a ++ b ++ c) :
    checkValue flags inp a.size (a.size + b.size) = checkValue flags b 0 b.size := by
  unfold checkValue
  rw [crc32_of_eq h, crc64_of_eq h, sha256_of_eq h]

theorem checkValue_append (flags : Nat) (out c : ByteArray) :
    checkValue flags (out ++ c) out.size (out ++ c).size = checkValue flags c 0 c.size := by
  have h : out ++ c = out ++ c ++ ByteArray.empty := by rw [ByteArray.append_empty]
  have := checkValue_of_eq flags h
  rw [ByteArray.size_append]
  exact this

theorem padLen_lt (n : Nat) : padLen n < 4 ∧ (n + padLen n) % 4 = 0 := by
  unfold padLen; omega

/-- the bytes of a block after its header -/
def blockBody (flags dc : Nat) (cs : List Chunk) : ByteArray :=
  lzBytes dc cs ++ zeros (padLen (lzBytes dc cs).size) ++
    checkValue flags (lzContent dc cs) 0 (lzContent dc cs).size

theorem blockBody_size (flags dc : Nat) (cs : List Chunk) (hfl : (checkSize flags).isSome = true) :
    (blockBody flags dc cs).size =
      (lzBytes dc cs).size + padLen (lzBytes dc cs).size + (checkSize flags).getD 0 := by
  unfold blockBody
  rw [ByteArray.size_append, ByteArray.size_append, zeros_size, checkValue_size flags hfl]

/-- **One block** (3): `readBlock` on the emitted LZMA2 data, padding and check -/
theorem readBlock_emit (strict : Bool) (cfgCap flags : Nat) (hdr : BlockHeader) (cs : List Chunk)
    (hok : ChunksOk strict (e0 (dictSize hdr.dictCode)) .init cs)
    (hcap : strict = false → cfgCap ≤ dictSize hdr.dictCode)
    (hfl : (checkSize flags).isSome = true)
    (hcsz : ∀ c, hdr.csize = some c → c = (lzBytes hdr.dictCode cs).size)
    (husz : ∀ u, hdr.usize = some u → u = (lzContent hdr.dictCode cs).size)
    (r : RdState) (pre post : ByteArray)
    (hinp : r.inp = pre ++ blockBody flags hdr.dictCode cs ++ post) (hpos : r.pos = pre.size) :
    ∃ blk, readBlock strict cfgCap flags hdr r =
        ({ r with pos := pre.size + (blockBody flags hdr.dictCode cs).size,
                  out := r.out ++ lzContent hdr.dictCode cs }, .eof, some blk) ∧
      blk.csize = (lzBytes hdr.dictCode cs).size ∧ blk.usize = (lzContent hdr.dictCode cs).size := by
  generalize hdc : hdr.dictCode = dc at *
  have hcapEq : (if strict = true then dictSize dc else max cfgCap (dictSize dc)) = dictSize dc := by
    cases strict with
    | true => rfl
    | false =>
      have := hcap rfl
      simp only [Bool.false_eq_true, if_false]
      omega
  generalize hL : lzBytes dc cs = L at *
  generalize hC : lzContent dc cs = C at *
  generalize hK : checkValue flags C 0 C.size = K at *
  have hKs : K.size = (checkSize flags).getD 0 := by rw [← hK]; exact checkValue_size flags hfl _ _ _
  have hbb : blockBody flags dc cs = L ++ zeros (padLen L.size) ++ K := by
    unfold blockBody; rw [hL, hC, hK]
  have hbs := blockBody_size flags dc cs hfl
  rw [hL] at hbs
  rw [hbb] at hinp
  have dL : r.inp = pre ++ L ++ (zeros (padLen L.size) ++ K ++ post) := by
    rw [hinp]; simp only [ByteArray.append_assoc]
  have dZ : r.inp = (pre ++ L) ++ zeros (padLen L.size) ++ (K ++ post) := by
    rw [hinp]; simp only [ByteArray.append_assoc]
  have dK : r.inp = (pre ++ L ++ zeros (padLen L.size)) ++ K ++ post := by
    rw [hinp]; simp only [ByteArray.append_assoc]
  have hsz : r.inp.size = pre.size + (L.size + padLen L.size + K.size) + post.size := by
    rw [hinp]; simp only [ByteArray.size_append, zeros_size]
  obtain ⟨r', hdec, hout, hpos', hinp'⟩ := decode_emit_shift strict (dictSize dc) cs hok r.inp pre
    (zeros (padLen L.size) ++ K ++ post) r.out (by rw [dL, ← hL]; rfl)
  have hLs : (chunksBytes (e0 (dictSize dc)) cs).size + 1 = L.size := by
    rw [← hL]; unfold lzBytes; rw [ByteArray.size_append]; rfl
  have hout' : r'.h.out = r.out ++ C := by rw [hout, ← hC]; rfl
  have hpos'' : r'.pos = pre.size + L.size := by rw [hpos']; omega
  have husz' : r'.h.out.size - r.out.size = C.size := by
    rw [hout', ByteArray.size_append]; omega
  have hcsz' : r'.pos - r.pos = L.size := by rw [hpos'', hpos]; omega
  unfold readBlock
  simp only []
  rw [hdc, hcapEq, hpos, hdec]
  simp only []
  rw [husz', hpos'', Nat.add_sub_cancel_left]
  have hfin : (if pre.size + L.size + padLen L.size + (checkSize flags).getD 0 > r.inp.size then
          (({ inp := r.inp, pos := pre.size + L.size, out := r'.h.out, streams := r.streams } : RdState),
            Status.unexpectedEOF, (none : Option Block))
        else
          if (!allZero r.inp (pre.size + L.size) (pre.size + L.size + padLen L.size)) = true then
            ({ inp := r.inp, pos := pre.size + L.size, out := r'.h.out, streams := r.streams },
              Status.err "non-zero block padding", none)
          else
            if (r.inp.extract (pre.size + L.size + padLen L.size)
                    (pre.size + L.size + padLen L.size + (checkSize flags).getD 0)).toList ≠
                (checkValue flags r'.h.out r.out.size r'.h.out.size).toList then
              ({ inp := r.inp, pos := pre.size + L.size, out := r'.h.out, streams := r.streams },
                Status.err "checksum error for block", none)
            else
              ({ inp := r.inp, pos := pre.size + L.size + padLen L.size + (checkSize flags).getD 0,
                  out := r'.h.out, streams := r.streams },
                Status.eof,
                some { hdr := hdr, chunks := r'.chunks, usize := C.size, csize := L.size,
                       check := r.inp.extract (pre.size + L.size + padLen L.size)
                          (pre.size + L.size + padLen L.size + (checkSize flags).getD 0) })) =
      ({ inp := r.inp, pos := pre.size + (blockBody flags dc cs).size, out := r.out ++ C, streams := r.streams },
        Status.eof, some { hdr := hdr, chunks := r'.chunks, usize := C.size, csize := L.size, check := K }) := by
    rw [if_neg (by rw [← hKs, hsz]; omega)]
    have e1 : pre.size + L.size = (pre ++ L).size := by rw [ByteArray.size_append]
    have hz : allZero r.inp (pre.size + L.size) (pre.size + L.size + padLen L.size) = true := by
      rw [e1]; exact allZero_of_eq dZ
    rw [hz]
    simp only [Bool.not_true, Bool.false_eq_true, if_false]
    have e2 : pre.size + L.size + padLen L.size = (pre ++ L ++ zeros (padLen L.size)).size := by
      simp only [ByteArray.size_append, zeros_size]
    have hst : r.inp.extract (pre.size + L.size + padLen L.size)
        (pre.size + L.size + padLen L.size + (checkSize flags).getD 0) = K := by
      rw [← hKs, e2]; exact extract_of_eq dK
    rw [hst, hout', checkValue_append, hK]
    simp only [ne_eq, not_true_eq_false, if_false]
    rw [hbs]
    simp only [Nat.add_assoc]
  refine ⟨{ hdr := hdr, chunks := r'.chunks, usize := C.size, csize := L.size, check := K }, ?_, rfl, rfl⟩
  rw [← hfin]
  rcases hu : hdr.usize with _ | u <;> rcases hc : hdr.csize with _ | c
  all_goals
    first | (have := husz _ hu; subst this) | skip
    first | (have := hcsz _ hc; subst this) | skip
    simp only [gt_iff_lt, Nat.lt_irrefl, decide_false, Bool.false_eq_true, if_false, ne_eq, not_true_eq_false,
      Bool.or_self]

end Xz

/-! ## part: Emit -/

namespace Xz
open Lzma Lzma2 Rc Spec

/-! ### the emitter in closed form -/

def blockE (b : Block) : EState := b.chunks.foldl emitChunk (e0 (dictSize b.hdr.dictCode))

def blockStep (flags : Nat) (acc : ByteArray × Array (Nat × Nat)) (b : Block) : ByteArray × Array (Nat × Nat) :=
  (acc.1 ++ blockHeaderBytes b.hdr ++ (blockE b).out ++ zeros (padLen (blockE b).out.size) ++
      checkValue flags (blockE b).h.out 0 (blockE b).h.out.size,
   acc.2.push (b.hdr.len + (blockE b).out.size + (checkSize flags).getD 0, (blockE b).h.out.size))

def recStep (o : ByteArray) (x : Nat × Nat) : ByteArray := o ++ putUvarint x.1 ++ putUvarint x.2

def footerMagicBytes : ByteArray := footerMagic.foldl (fun a x => a.push x.toUInt8) ByteArray.empty

def tailFin (flags padAfter istart : Nat) (o2 : ByteArray) : ByteArray :=
  let o3 := o2 ++ zeros (padLen (o2.size - istart))
  let o4 := o3 ++ Hash.le32 (Hash.crc32 o3 istart o3.size)
  let isize := o4.size - istart
  let f := (Hash.le32 (isize / 4 - 1).toUInt32).push 0 |>.push flags.toUInt8
  o4 ++ Hash.le32 (Hash.crc32 f 0 6) ++ f ++ footerMagicBytes ++ zeros padAfter

def emitTail (flags padAfter : Nat) (o : ByteArray) (recs : Array (Nat × Nat)) : ByteArray :=
  tailFin flags padAfter o.size (recs.foldl recStep ((o.push 0) ++ putUvarint recs.size))

theorem emitStream_eq1 (s : Stream) :
    emitStream s = emitTail s.flags s.padAfter (s.blocks.foldl (blockStep s.flags) (streamHeader s.flags, #[])).1
      (s.blocks.foldl (blockStep s.flags) (streamHeader s.flags, #[])).2 := by
  have h1 : (forIn (m := Id) s.blocks (streamHeader s.flags, (#[] : Array (Nat × Nat)))
      (fun b acc => pure (ForInStep.yield (blockStep s.flags acc b)))) =
      pure (s.blocks.foldl (blockStep s.flags) (streamHeader s.flags, #[])) :=
    Array.forIn_pure_yield_eq_foldl _ _
  have h2 : ∀ (recs : Array (Nat × Nat)) (o : ByteArray), (forIn (m := Id) recs o
      (fun x o => pure (ForInStep.yield (recStep o x)))) = pure (recs.foldl recStep o) :=
    fun recs o => Array.forIn_pure_yield_eq_foldl _ _
  show (do
      let r ← forIn (m := Id) s.blocks (streamHeader s.flags, (#[] : Array (Nat × Nat)))
        (fun b acc => pure (ForInStep.yield (blockStep s.flags acc b)))
      let o2 ← forIn (m := Id) r.2 ((r.1.push 0) ++ putUvarint r.2.size) (fun x o => pure (ForInStep.yield (recStep o x)))
      pure (tailFin s.flags s.padAfter r.1.size o2) : Id ByteArray).run = _
  rw [h1]
  simp only [h2, bind_pure_comp, pure_bind, Id.run_pure, map_pure]
  rfl

def blockBytes (flags : Nat) (b : Block) : ByteArray :=
  blockHeaderBytes b.hdr ++ ((blockE b).out ++ zeros (padLen (blockE b).out.size) ++
    checkValue flags (blockE b).h.out 0 (blockE b).h.out.size)

def blockRec (flags : Nat) (b : Block) : Nat × Nat :=
  (b.hdr.len + (blockE b).out.size + (checkSize flags).getD 0, (blockE b).h.out.size)

def blocksBytes (flags : Nat) : List Block → ByteArray
  | [] => ByteArray.empty
  | b :: bs => blockBytes flags b ++ blocksBytes flags bs

def recsBytes : List (Nat × Nat) → ByteArray
  | [] => ByteArray.empty
  | r :: rs => putUvarint r.1 ++ putUvarint r.2 ++ recsBytes rs

theorem foldl_blockStep (flags : Nat) : ∀ (bs : List Block) (acc : ByteArray × Array (Nat × Nat)),
    bs.foldl (blockStep flags) acc = (acc.1 ++ blocksBytes flags bs, acc.2 ++ (bs.map (blockRec flags)).toArray) := by
  intro bs
  induction bs with
  | nil => intro acc; simp [blocksBytes]
  | cons b bs ih =>
    intro acc
    rw [List.foldl_cons, ih]
    simp only [blockStep, blocksBytes, blockBytes, blockRec, ByteArray.append_assoc, List.map_cons]
    congr 1
    apply Array.ext'
    simp

theorem foldl_recStep : ∀ (rs : List (Nat × Nat)) (o : ByteArray), rs.foldl recStep o = o ++ recsBytes rs := by
  intro rs
  induction rs with
  | nil => intro o; simp [recsBytes]
  | cons r rs ih =>
    intro o
    rw [List.foldl_cons, ih]
    simp only [recStep, recsBytes, ByteArray.append_assoc]

/-- indicator, record count, records -/
def indexBody (recs : List (Nat × Nat)) : ByteArray :=
  ByteArray.empty.push 0 ++ putUvarint recs.length ++ recsBytes recs

def indexPadded (recs : List (Nat × Nat)) : ByteArray :=
  indexBody recs ++ zeros (padLen (indexBody recs).size)

/-- the index with its CRC -/
def indexBytes (recs : List (Nat × Nat)) : ByteArray :=
  indexPadded recs ++ Hash.le32 (Hash.crc32 (indexPadded recs) 0 (indexPadded recs).size)

def footerF (flags isize : Nat) : ByteArray :=
  (Hash.le32 (isize / 4 - 1).toUInt32).push 0 |>.push flags.toUInt8

def footerBytes (flags isize : Nat) : ByteArray :=
  Hash.le32 (Hash.crc32 (footerF flags isize) 0 6) ++ footerF flags isize ++ footerMagicBytes

theorem tailFin_eq (flags padAfter : Nat) (o : ByteArray) (recs : List (Nat × Nat)) :
    tailFin flags padAfter o.size (o ++ indexBody recs) =
      o ++ indexBytes recs ++ footerBytes flags (indexBytes recs).size ++ zeros padAfter := by
  unfold tailFin
  simp only []
  have e1 : (o ++ indexBody recs).size - o.size = (indexBody recs).size := by
    rw [ByteArray.size_append]; omega
  rw [e1]
  have e2 : o ++ indexBody recs ++ zeros (padLen (indexBody recs).size) = o ++ indexPadded recs := by
    unfold indexPadded; rw [ByteArray.append_assoc]
  rw [e2]
  have e3 : Hash.crc32 (o ++ indexPadded recs) o.size (o ++ indexPadded recs).size =
      Hash.crc32 (indexPadded recs) 0 (indexPadded recs).size := by
    have h : o ++ indexPadded recs = o ++ indexPadded recs ++ ByteArray.empty := by rw [ByteArray.append_empty]
    have := crc32_of_eq h
    rw [ByteArray.size_append]
    exact this
  rw [e3]
  have e4 : o ++ indexPadded recs ++ Hash.le32 (Hash.crc32 (indexPadded recs) 0 (indexPadded recs).size) =
      o ++ indexBytes recs := by
    unfold indexBytes; rw [ByteArray.append_assoc]
  rw [e4]
  have e5 : (o ++ indexBytes recs).size - o.size = (indexBytes recs).size := by
    rw [ByteArray.size_append]; omega
  rw [e5]
  unfold footerBytes footerF
  simp only [ByteArray.append_assoc]

/-- the stream's index records -/
def streamRecs (s : Stream) : List (Nat × Nat) := s.blocks.toList.map (blockRec s.flags)

/-- everything of the stream except the stream padding -/
def streamCore (s : Stream) : ByteArray :=
  streamHeader s.flags ++ blocksBytes s.flags s.blocks.toList ++ indexBytes (streamRecs s) ++
    footerBytes s.flags (indexBytes (streamRecs s)).size

theorem emitStream_eq (s : Stream) : emitStream s = streamCore s ++ zeros s.padAfter := by
  rw [emitStream_eq1, ← Array.foldl_toList, foldl_blockStep]
  simp only []
  unfold emitTail
  rw [← Array.foldl_toList, foldl_recStep]
  have e : (#[] ++ (List.map (blockRec s.flags) s.blocks.toList).toArray : Array (Nat × Nat)) =
      (streamRecs s).toArray := by
    unfold streamRecs; simp
  rw [e]
  simp only [List.size_toArray]
  have e2 : (streamHeader s.flags ++ blocksBytes s.flags s.blocks.toList).push 0 ++ putUvarint (streamRecs s).length ++
      recsBytes (streamRecs s) = (streamHeader s.flags ++ blocksBytes s.flags s.blocks.toList) ++ indexBody (streamRecs s) := by
    unfold indexBody
    rw [push_eq_append]
    simp only [ByteArray.append_assoc]
  rw [e2, tailFin_eq]
  rfl

end Xz

/-! ## part: Tail -/

namespace Xz
open Lzma Lzma2 Rc Spec

/-! ### index records -/

theorem recLoop_emit (inp : ByteArray) :
    ∀ (l : List (Nat × Nat)) (acc : Array (Nat × Nat)) (a c : ByteArray), inp = a ++ recsBytes l ++ c →
      (∀ x ∈ l, x.1 < 2 ^ 63 ∧ x.2 < 2 ^ 63) →
      ∃ parsed, readTail.recLoop inp l.length a.size acc = some (a.size + (recsBytes l).size, .eof, parsed) ∧
        parsed.toList = acc.toList ++ l := by
  intro l
  induction l with
  | nil =>
    intro acc a c _ _
    rw [List.length_nil, readTail.recLoop.eq_1]
    exact ⟨acc, rfl, by simp⟩
  | cons x l ih =>
    intro acc a c hinp hb
    rw [List.length_cons, readTail.recLoop.eq_2]
    obtain ⟨hx1, hx2⟩ := hb x (List.mem_cons_self)
    have d1 : inp = a ++ putUvarint x.1 ++ (putUvarint x.2 ++ recsBytes l ++ c) := by
      rw [hinp]; simp only [recsBytes, ByteArray.append_assoc]
    have d2 : inp = (a ++ putUvarint x.1) ++ putUvarint x.2 ++ (recsBytes l ++ c) := by
      rw [hinp]; simp only [recsBytes, ByteArray.append_assoc]
    have d3 : inp = (a ++ putUvarint x.1 ++ putUvarint x.2) ++ recsBytes l ++ c := by
      rw [hinp]; simp only [recsBytes, ByteArray.append_assoc]
    have s1 := size_of_eq d1
    have s2 := size_of_eq d2
    rw [readUvarint_of_eq d1 hx1 inp.size (by omega)]
    simp only []
    rw [if_neg (by omega)]
    have e1 : a.size + (putUvarint x.1).size = (a ++ putUvarint x.1).size := by rw [ByteArray.size_append]
    rw [e1, readUvarint_of_eq d2 hx2 inp.size (by omega)]
    simp only []
    rw [if_neg (by omega)]
    have e2 : (a ++ putUvarint x.1).size + (putUvarint x.2).size = (a ++ putUvarint x.1 ++ putUvarint x.2).size := by
      rw [ByteArray.size_append (a := a ++ putUvarint x.1)]
    rw [e2]
    obtain ⟨parsed, h1, h2⟩ := ih (acc.push (x.1, x.2)) _ c d3 (fun y hy => hb y (List.mem_cons_of_mem _ hy))
    refine ⟨parsed, ?_, ?_⟩
    · rw [h1]
      simp only [recsBytes, ByteArray.size_append, Nat.add_assoc]
    · rw [h2]; simp


/-! ### index and footer -/

theorem footerF_eq (flags isize : Nat) :
    footerF flags isize = Hash.le32 (isize / 4 - 1).toUInt32 ++ (ByteArray.empty.push 0).push flags.toUInt8 := by
  unfold footerF
  rw [push_eq_append, push_eq_append (Hash.le32 _), push_eq_append (ByteArray.empty.push 0)]
  simp only [ByteArray.append_assoc]

theorem footerMagicBytes_size : footerMagicBytes.size = 2 := rfl

theorem indexPadded_size (recs : List (Nat × Nat)) : (indexPadded recs).size % 4 = 0 := by
  unfold indexPadded
  rw [ByteArray.size_append, zeros_size]
  exact (padLen_lt _).2

theorem indexBytes_size (recs : List (Nat × Nat)) :
    (indexBytes recs).size = (indexPadded recs).size + 4 := by
  unfold indexBytes
  rw [ByteArray.size_append, le32_size]

theorem footerBytes_size (flags isize : Nat) : (footerBytes flags isize).size = 12 := by
  unfold footerBytes
  rw [ByteArray.size_append, ByteArray.size_append, le32_size, footerF_eq, ByteArray.size_append, le32_size]
  rfl

theorem flags_lt (flags : Nat) (h : (checkSize flags).isSome = true) : flags < 256 := by
  rcases checkSize_cases flags h with rfl | rfl | rfl | rfl <;> omega

/-- **Index and footer**: `readTail` on the bytes the emitter writes behind the blocks -/
theorem readTail_emit (flags : Nat) (recs : Array (Nat × Nat))
    (hrec : ∀ x ∈ recs.toList, x.1 < 2 ^ 63 ∧ x.2 < 2 ^ 63) (hn : recs.size < 2 ^ 63)
    (hisz : (indexBytes recs.toList).size / 4 - 1 < 2 ^ 32) (hfl : (checkSize flags).isSome = true)
    (r : RdState) (pre post : ByteArray)
    (hinp : r.inp = pre ++ (indexBytes recs.toList ++ footerBytes flags (indexBytes recs.toList).size) ++ post)
    (hpos : r.pos = pre.size) :
    readTail flags recs r = ({ r with pos := pre.size + (indexBytes recs.toList).size + 12 }, .eof) := by
  have hflt := flags_lt flags hfl
  generalize hL : recs.toList = L at *
  have hLn : L.length = recs.size := by rw [← hL]; exact Array.length_toList
  have hIXs := indexBytes_size L
  have hIPs := indexPadded_size L
  generalize hisize : (indexBytes L).size = isize at *
  -- the pieces
  generalize hcrc : Hash.crc32 (indexPadded L) 0 (indexPadded L).size = crc at *
  have hIX : indexBytes L = indexPadded L ++ Hash.le32 crc := by unfold indexBytes; rw [hcrc]
  have hIP : indexPadded L = indexBody L ++ zeros (padLen (indexBody L).size) := rfl
  have hIB : indexBody L = ByteArray.empty.push 0 ++ putUvarint recs.size ++ recsBytes L := by
    unfold indexBody; rw [hLn]
  generalize hI0 : ByteArray.empty.push 0 = I0 at hIB
  have hI0s : I0.size = 1 := by rw [← hI0]; rfl
  generalize hfcrc : Hash.crc32 (footerF flags isize) 0 6 = fcrc at *
  have hFB : footerBytes flags isize = Hash.le32 fcrc ++ footerF flags isize ++ footerMagicBytes := by
    unfold footerBytes; rw [hfcrc]
  have hFF := footerF_eq flags isize
  generalize hT2 : (ByteArray.empty.push 0).push flags.toUInt8 = T2 at hFF
  have hT2s : T2.size = 2 := by rw [← hT2]; rfl
  have hFs : (footerF flags isize).size = 6 := by rw [hFF, ByteArray.size_append, le32_size, hT2s]
  generalize hIBv : indexBody L = IB at *
  generalize hIPv : indexPadded L = IP at *
  generalize hFv : footerF flags isize = F at *
  have hIPsz : IP.size = IB.size + padLen IB.size := by rw [hIP, ByteArray.size_append, zeros_size]
  have hIBsz : IB.size = 1 + (putUvarint recs.size).size + (recsBytes L).size := by
    rw [hIB]; simp only [ByteArray.size_append, hI0s]
  have hsz : r.inp.size = pre.size + (isize + 12) + post.size := by
    rw [hinp, ByteArray.size_append, ByteArray.size_append, ByteArray.size_append, footerBytes_size, hisize]
  rw [hIX, hFB] at hinp
  -- decompositions
  have dN : r.inp = (pre ++ I0) ++ putUvarint recs.size ++
      (recsBytes L ++ zeros (padLen IB.size) ++ Hash.le32 crc ++ (Hash.le32 fcrc ++ F ++ footerMagicBytes) ++ post) := by
    rw [hinp, hIP, hIB]; simp only [ByteArray.append_assoc]
  have dR : r.inp = (pre ++ I0 ++ putUvarint recs.size) ++ recsBytes L ++
      (zeros (padLen IB.size) ++ Hash.le32 crc ++ (Hash.le32 fcrc ++ F ++ footerMagicBytes) ++ post) := by
    rw [hinp, hIP, hIB]; simp only [ByteArray.append_assoc]
  have dZ : r.inp = (pre ++ IB) ++ zeros (padLen IB.size) ++
      (Hash.le32 crc ++ (Hash.le32 fcrc ++ F ++ footerMagicBytes) ++ post) := by
    rw [hinp, hIP]; simp only [ByteArray.append_assoc]
  have dP : r.inp = pre ++ IP ++ (Hash.le32 crc ++ (Hash.le32 fcrc ++ F ++ footerMagicBytes) ++ post) := by
    rw [hinp]; simp only [ByteArray.append_assoc]
  have dK1 : r.inp = (pre ++ IP) ++ Hash.le32 crc ++ ((Hash.le32 fcrc ++ F ++ footerMagicBytes) ++ post) := by
    rw [hinp]; simp only [ByteArray.append_assoc]
  have dK2 : r.inp = (pre ++ IP ++ Hash.le32 crc) ++ Hash.le32 fcrc ++ (F ++ footerMagicBytes ++ post) := by
    rw [hinp]; simp only [ByteArray.append_assoc]
  have dF : r.inp = (pre ++ IP ++ Hash.le32 crc ++ Hash.le32 fcrc) ++ F ++ (footerMagicBytes ++ post) := by
    rw [hinp]; simp only [ByteArray.append_assoc]
  have dX : r.inp = (pre ++ IP ++ Hash.le32 crc ++ Hash.le32 fcrc) ++ Hash.le32 (isize / 4 - 1).toUInt32 ++
      (T2 ++ footerMagicBytes ++ post) := by
    rw [hinp, hFF]; simp only [ByteArray.append_assoc]
  have dT : r.inp = (pre ++ IP ++ Hash.le32 crc ++ Hash.le32 fcrc ++ Hash.le32 (isize / 4 - 1).toUInt32) ++ T2 ++
      (footerMagicBytes ++ post) := by
    rw [hinp, hFF]; simp only [ByteArray.append_assoc]
  have dM : r.inp = (pre ++ IP ++ Hash.le32 crc ++ Hash.le32 fcrc ++ F) ++ footerMagicBytes ++ post := by
    rw [hinp]; simp only [ByteArray.append_assoc]
  have hk := putUvarint_size recs.size hn
  generalize hkk : (putUvarint recs.size).size = k at *
  -- positions
  have eN : pre.size + 1 = (pre ++ I0).size := by rw [ByteArray.size_append, hI0s]
  have eR : pre.size + 1 + k = (pre ++ I0 ++ putUvarint recs.size).size := by
    simp only [ByteArray.size_append, hI0s, hkk]
  have eZ : pre.size + 1 + k + (recsBytes L).size = (pre ++ IB).size := by
    rw [ByteArray.size_append, hIBsz]; omega
  have eP : pre.size + 1 + k + (recsBytes L).size + padLen IB.size = pre.size + IP.size := by omega
  have eK1 : pre.size + IP.size = (pre ++ IP).size := by rw [ByteArray.size_append]
  have eK2 : pre.size + IP.size + 4 = (pre ++ IP ++ Hash.le32 crc).size := by
    simp only [ByteArray.size_append, le32_size]
  have eF : pre.size + IP.size + 4 + 4 = (pre ++ IP ++ Hash.le32 crc ++ Hash.le32 fcrc).size := by
    simp only [ByteArray.size_append, le32_size]
  have eT : pre.size + IP.size + 4 + 8 = (pre ++ IP ++ Hash.le32 crc ++ Hash.le32 fcrc ++
      Hash.le32 (isize / 4 - 1).toUInt32).size := by
    simp only [ByteArray.size_append, le32_size]
  have eM : pre.size + IP.size + 4 + 10 = (pre ++ IP ++ Hash.le32 crc ++ Hash.le32 fcrc ++ F).size := by
    simp only [ByteArray.size_append, le32_size, hFs]
  unfold readTail
  simp only []
  rw [hpos, eN, readUvarint_of_eq dN hn r.inp.size (by rw [← eN, hkk]; omega)]
  simp only [ne_eq, not_true_eq_false, if_false]
  rw [hkk, ← eN, eR]
  obtain ⟨parsed, hrl, hpl⟩ := recLoop_emit r.inp L #[] _ _ dR hrec
  rw [hLn] at hrl
  rw [hrl]
  simp only []
  rw [← eR]
  have en : pre.size + 1 + k + (recsBytes L).size - (pre.size + 1) + 1 = IB.size := by omega
  rw [en, eP, if_neg (by omega)]
  have hz : allZero r.inp (pre.size + 1 + k + (recsBytes L).size) (pre.size + IP.size) = true := by
    have := allZero_of_eq dZ
    rw [← eZ, eP] at this
    exact this
  rw [hz]
  simp only [Bool.not_true, Bool.false_eq_true, if_false]
  rw [if_neg (by omega)]
  have c1 : (Hash.crc32 r.inp pre.size (pre.size + IP.size)).toNat = le32At r.inp (pre.size + IP.size) := by
    rw [crc32_of_eq dP, hcrc, eK1, le32At_of_eq dK1]
  rw [if_neg (by rw [c1]; simp), if_neg (by rw [hpl, hL]; simp), if_neg (by omega)]
  -- footer magic
  have hmag : sliceEq r.inp (pre.size + IP.size + 4 + 10) footerMagic = true := by
    apply sliceEq_of
    intro j hj
    rw [eM, get_of_eq dM (by rw [footerMagicBytes_size]; exact hj)]
    have : j = 0 ∨ j = 1 := by
      have : footerMagic.length = 2 := rfl
      omega
    rcases this with rfl | rfl <;> rfl
  rw [hmag]
  simp only [Bool.not_true, Bool.false_eq_true, if_false]
  have c2 : (Hash.crc32 r.inp (pre.size + IP.size + 4 + 4) (pre.size + IP.size + 4 + 10)).toNat =
      le32At r.inp (pre.size + IP.size + 4) := by
    have e : pre.size + IP.size + 4 + 10 = pre.size + IP.size + 4 + 4 + F.size := by omega
    rw [e, eF, crc32_of_eq dF, hFs, hfcrc, eK2, le32At_of_eq dK2]
  rw [if_neg (by rw [c2]; simp)]
  have g8 : get r.inp (pre.size + IP.size + 4 + 8) = 0 := by
    have := get_of_eq dT (i := 0) (by omega)
    rw [Nat.add_zero] at this
    rw [eT, this, ← hT2, push_eq_append, get_append_left (by show 0 < 1; omega)]
    exact get_single 0 (by omega)
  have g9 : get r.inp (pre.size + IP.size + 4 + 9) = flags := by
    have := get_of_eq dT (i := 1) (by omega)
    rw [show pre.size + IP.size + 4 + 9 = pre.size + IP.size + 4 + 8 + 1 by omega, eT, this, ← hT2]
    exact get_push_last (ByteArray.empty.push 0) flags hflt
  rw [g8, g9]
  simp only [ne_eq, not_true_eq_false, if_false]
  rw [if_neg (by rw [Option.isNone_iff_eq_none]; intro h; rw [h] at hfl; simp at hfl)]
  have c3 : le32At r.inp (pre.size + IP.size + 4 + 4) = isize / 4 - 1 := by
    rw [eF, le32At_of_eq dX]
    simp only [Nat.toUInt32, UInt32.toNat_ofNat']
    exact Nat.mod_eq_of_lt hisz
  rw [c3, if_neg (by omega)]
  have : pre.size + IP.size + 4 + 12 = pre.size + isize + 12 := by omega
  rw [this]

end Xz

/-! ## part: Stream -/

namespace Xz
open Lzma Lzma2 Rc Spec

/-! ### stream header -/

def headerMagicBytes : ByteArray := headerMagic.foldl (fun a x => a.push x.toUInt8) ByteArray.empty

def streamHdrB (flags : Nat) : ByteArray := (headerMagicBytes.push 0).push flags.toUInt8

theorem streamHeader_eq (flags : Nat) :
    streamHeader flags = streamHdrB flags ++ Hash.le32 (Hash.crc32 (streamHdrB flags) 6 8) := rfl

theorem streamHdrB_eq (flags : Nat) :
    streamHdrB flags = headerMagicBytes ++ (ByteArray.empty.push 0).push flags.toUInt8 := by
  unfold streamHdrB
  rw [push_eq_append, push_eq_append headerMagicBytes, push_eq_append (ByteArray.empty.push 0)]
  simp only [ByteArray.append_assoc]

theorem headerMagicBytes_size : headerMagicBytes.size = 6 := rfl

theorem streamHdrB_size (flags : Nat) : (streamHdrB flags).size = 8 := by
  rw [streamHdrB_eq, ByteArray.size_append, headerMagicBytes_size]; rfl

theorem streamHeader_size (flags : Nat) : (streamHeader flags).size = 12 := by
  rw [streamHeader_eq, ByteArray.size_append, streamHdrB_size, le32_size]

theorem allZero_false (b : ByteArray) (lo hi : Nat) (hlt : lo < hi) (h : get b lo ≠ 0) :
    allZero b lo hi = false := by
  cases hz : allZero b lo hi with
  | false => rfl
  | true =>
    unfold allZero at hz
    rw [List.all_eq_true] at hz
    have := hz 0 (by rw [List.mem_range]; omega)
    rw [Nat.add_zero] at this
    simp only [beq_iff_eq] at this
    exact absurd this h

theorem readStreamHeader_emit (flags : Nat) (hfl : (checkSize flags).isSome = true) (inp pre post : ByteArray)
    (hinp : inp = pre ++ streamHeader flags ++ post) :
    readStreamHeader inp pre.size = .ok flags := by
  have hflt := flags_lt flags hfl
  have hsz : inp.size = pre.size + 12 + post.size := by rw [size_of_eq hinp, streamHeader_size]
  rw [streamHeader_eq] at hinp
  generalize hcrc : Hash.crc32 (streamHdrB flags) 6 8 = crc at hinp
  have hB := streamHdrB_eq flags
  have hBs := streamHdrB_size flags
  generalize hT2 : (ByteArray.empty.push 0).push flags.toUInt8 = T2 at hB
  have hT2s : T2.size = 2 := by rw [← hT2]; rfl
  generalize hBv : streamHdrB flags = B at *
  have dB : inp = pre ++ B ++ (Hash.le32 crc ++ post) := by rw [hinp]; simp only [ByteArray.append_assoc]
  have dK : inp = (pre ++ B) ++ Hash.le32 crc ++ post := by rw [hinp]; simp only [ByteArray.append_assoc]
  have dM : inp = pre ++ headerMagicBytes ++ (T2 ++ Hash.le32 crc ++ post) := by
    rw [hinp, hB]; simp only [ByteArray.append_assoc]
  have dT : inp = (pre ++ headerMagicBytes) ++ T2 ++ (Hash.le32 crc ++ post) := by
    rw [hinp, hB]; simp only [ByteArray.append_assoc]
  have eT : pre.size + 6 = (pre ++ headerMagicBytes).size := by rw [ByteArray.size_append, headerMagicBytes_size]
  have eK : pre.size + 8 = (pre ++ B).size := by rw [ByteArray.size_append, hBs]
  have gM : ∀ j, j < 6 → get inp (pre.size + j) = headerMagic.getD j 0 := by
    intro j hj
    rw [get_of_eq dM (by rw [headerMagicBytes_size]; exact hj)]
    have : j = 0 ∨ j = 1 ∨ j = 2 ∨ j = 3 ∨ j = 4 ∨ j = 5 := by omega
    rcases this with rfl | rfl | rfl | rfl | rfl | rfl <;> rfl
  have g0 : get inp pre.size = 0xFD := by
    have := gM 0 (by omega)
    rw [Nat.add_zero] at this
    rw [this]; rfl
  have g6 : get inp (pre.size + 6) = 0 := by
    have := get_of_eq dT (i := 0) (by omega)
    rw [Nat.add_zero] at this
    rw [eT, this, ← hT2, push_eq_append, get_append_left (by show 0 < 1; omega)]
    exact get_single 0 (by omega)
  have g7 : get inp (pre.size + 7) = flags := by
    have := get_of_eq dT (i := 1) (by omega)
    rw [show pre.size + 7 = pre.size + 6 + 1 by omega, eT, this, ← hT2]
    exact get_push_last (ByteArray.empty.push 0) flags hflt
  have c1 : (Hash.crc32 inp (pre.size + 6) (pre.size + 8)).toNat = le32At inp (pre.size + 8) := by
    have := crc32_congr inp B (pre.size + 6) 6 2 (by
      intro i hi
      have := get!_of_eq dB (i := 6 + i) (by omega)
      rw [← this]; congr 1; omega)
    rw [show pre.size + 8 = pre.size + 6 + 2 by omega, this, hcrc, show pre.size + 6 + 2 = pre.size + 8 by omega,
      eK, le32At_of_eq dK]
  unfold readStreamHeader
  rw [if_neg (by omega), if_neg (by omega), allZero_false _ _ _ (by omega) (by rw [g0]; omega)]
  simp only [Bool.false_eq_true, if_false]
  rw [if_neg (by omega), sliceEq_of _ _ _ (by intro k hk; exact gM k hk)]
  simp only [Bool.not_true, Bool.false_eq_true, if_false]
  rw [if_neg (by rw [c1]; simp), g6, g7]
  simp only [ne_eq, not_true_eq_false, if_false]
  cases hc : checkSize flags with
  | none => rw [hc] at hfl; simp at hfl
  | some _ => rfl


/-! ### the blocks of a stream -/

/-- a well-formed block: acceptable header, legal chunks followed by the end marker, declared sizes (if any) are
    the true ones, and the index record fits the format's 63-bit fields -/
structure BlockOk (strict : Bool) (flags : Nat) (b : Block) : Prop where
  hdr : HdrOk b.hdr
  chunks : ∃ cs : List Chunk, b.chunks.toList = cs ++ [eosChunk] ∧
    ChunksOk strict (e0 (dictSize b.hdr.dictCode)) .init cs
  csize : ∀ c, b.hdr.csize = some c → c = (blockE b).out.size
  usize : ∀ u, b.hdr.usize = some u → u = (blockE b).h.out.size
  unpadded : b.hdr.len + (blockE b).out.size + (checkSize flags).getD 0 < 2 ^ 63
  usizeLt : (blockE b).h.out.size < 2 ^ 63

theorem blockE_eq (b : Block) (cs : List Chunk) (h : b.chunks.toList = cs ++ [eosChunk]) :
    (blockE b).out = lzBytes b.hdr.dictCode cs ∧ (blockE b).h.out = lzContent b.hdr.dictCode cs := by
  unfold blockE
  rw [← Array.foldl_toList, h, List.foldl_append]
  simp only [List.foldl_cons, List.foldl_nil]
  constructor
  · show ((cs.foldl emitChunk (e0 (dictSize b.hdr.dictCode))).out.push 0) = _
    rw [foldl_emitChunk_out, push_eq_append]
    show ByteArray.empty ++ _ ++ _ = _
    rw [ByteArray.empty_append]
    rfl
  · rfl

theorem blockBytes_eq (flags : Nat) (b : Block) (cs : List Chunk) (h : b.chunks.toList = cs ++ [eosChunk]) :
    blockBytes flags b = blockHeaderBytes b.hdr ++ blockBody flags b.hdr.dictCode cs := by
  obtain ⟨h1, h2⟩ := blockE_eq b cs h
  unfold blockBytes blockBody
  rw [h1, h2]

def blocksContent : List Block → ByteArray
  | [] => ByteArray.empty
  | b :: bs => (blockE b).h.out ++ blocksContent bs

theorem hdrBody_size (h : BlockHeader) (hok : HdrOk h) : (blockHeaderBytes h).size = h.len ∧ 12 ≤ h.len := by
  obtain ⟨_, hcs, hus, ⟨k, hlen⟩, _⟩ := hok
  have hps := hdrPre_size h
  have hmin : hdrMinLen h = (hdrFields h + 3) / 4 * 4 + 4 := rfl
  have hfl : hdrFields h = 2 + (optUv h.csize).size + (optUv h.usize).size + 3 := rfl
  rw [blockHeaderBytes_eq, ByteArray.size_append, le32_size]
  unfold hdrBody
  rw [ByteArray.size_append, zeros_size, hps]
  omega

theorem indexBody_get0 (recs : List (Nat × Nat)) : get (indexBody recs) 0 = 0 ∧ 1 ≤ (indexBody recs).size := by
  unfold indexBody
  constructor
  · rw [ByteArray.append_assoc, get_append_left (by show 0 < 1; omega)]
    exact get_single 0 (by omega)
  · simp only [ByteArray.size_append]
    have : (ByteArray.empty.push 0).size = 1 := rfl
    omega

theorem readBlockHeader_index (strict : Bool) (inp pre post : ByteArray) (recs : List (Nat × Nat))
    (hinp : inp = pre ++ indexBytes recs ++ post) : readBlockHeader strict inp pre.size = .index := by
  obtain ⟨g0, h1⟩ := indexBody_get0 recs
  have d : inp = pre ++ indexBody recs ++ (zeros (padLen (indexBody recs).size) ++
      Hash.le32 (Hash.crc32 (indexPadded recs) 0 (indexPadded recs).size) ++ post) := by
    rw [hinp]; unfold indexBytes indexPadded; simp only [ByteArray.append_assoc]
  have hs := size_of_eq d
  have := get_of_eq d (i := 0) (by omega)
  rw [Nat.add_zero, g0] at this
  unfold readBlockHeader
  rw [if_neg (by omega)]
  simp only [this, if_true]

end Xz

/-! ## part: Blocks -/

namespace Xz
open Lzma Lzma2 Rc Spec

theorem lzBytes_size_pos (dc : Nat) (cs : List Chunk) : 1 ≤ (lzBytes dc cs).size := by
  unfold lzBytes
  rw [ByteArray.size_append]
  have : (ByteArray.empty.push 0).size = 1 := rfl
  omega

/-- **Blocks, index and footer of one stream** -/
theorem readBlocks_emit (strict : Bool) (cfgCap flags : Nat) (hfl : (checkSize flags).isSome = true) :
    ∀ (bs : List Block) (fuel : Nat) (r : RdState) (acc : Array Block) (recs : Array (Nat × Nat))
      (pre post : ByteArray),
      (∀ b ∈ bs, BlockOk strict flags b) →
      (strict = false → ∀ b ∈ bs, cfgCap ≤ dictSize b.hdr.dictCode) →
      (∀ x ∈ recs.toList, x.1 < 2 ^ 63 ∧ x.2 < 2 ^ 63) →
      recs.size + bs.length < 2 ^ 63 →
      (indexBytes (recs.toList ++ bs.map (blockRec flags))).size / 4 - 1 < 2 ^ 32 →
      r.inp = pre ++ (blocksBytes flags bs ++ indexBytes (recs.toList ++ bs.map (blockRec flags)) ++
        footerBytes flags (indexBytes (recs.toList ++ bs.map (blockRec flags))).size) ++ post →
      r.pos = pre.size → bs.length + 1 ≤ fuel →
      ∃ accOut, readBlocks strict cfgCap flags fuel r acc recs =
        ({ r with pos := pre.size + (blocksBytes flags bs).size +
                    (indexBytes (recs.toList ++ bs.map (blockRec flags))).size + 12,
                  out := r.out ++ blocksContent bs }, .eof, accOut) := by
  intro bs
  induction bs with
  | nil =>
    intro fuel r acc recs pre post _ _ hrecs hn hisz hinp hpos hfuel
    obtain ⟨f, rfl⟩ : ∃ f, fuel = f + 1 := ⟨fuel - 1, by omega⟩
    simp only [List.map_nil, List.append_nil, blocksBytes, ByteArray.empty_append, List.length_nil,
      Nat.add_zero, blocksContent, ByteArray.append_empty, ByteArray.size_empty] at *
    have d : r.inp = pre ++ indexBytes recs.toList ++ (footerBytes flags (indexBytes recs.toList).size ++ post) := by
      rw [hinp]; simp only [ByteArray.append_assoc]
    rw [readBlocks, hpos, readBlockHeader_index strict r.inp pre _ recs.toList d]
    simp only []
    rw [readTail_emit flags recs hrecs hn hisz hfl r pre post hinp hpos]
    exact ⟨acc, rfl⟩
  | cons b bs ih =>
    intro fuel r acc recs pre post hbs hcap hrecs hn hisz hinp hpos hfuel
    obtain ⟨f, rfl⟩ : ∃ f, fuel = f + 1 := ⟨fuel - 1, by omega⟩
    have hb := hbs b (List.mem_cons_self)
    obtain ⟨cs, hch, hcs⟩ := hb.chunks
    obtain ⟨hE1, hE2⟩ := blockE_eq b cs hch
    obtain ⟨hhs, hh12⟩ := hdrBody_size b.hdr hb.hdr
    have hbb := blockBytes_eq flags b cs hch
    generalize hIX : indexBytes (recs.toList ++ (b :: bs).map (blockRec flags)) = IX at *
    generalize hFB : footerBytes flags IX.size = FB at *
    have d1 : r.inp = pre ++ blockHeaderBytes b.hdr ++
        (blockBody flags b.hdr.dictCode cs ++ blocksBytes flags bs ++ IX ++ FB ++ post) := by
      rw [hinp]; simp only [blocksBytes, hbb, ByteArray.append_assoc]
    have d2 : r.inp = (pre ++ blockHeaderBytes b.hdr) ++ blockBody flags b.hdr.dictCode cs ++
        (blocksBytes flags bs ++ IX ++ FB ++ post) := by
      rw [hinp]; simp only [blocksBytes, hbb, ByteArray.append_assoc]
    have d3 : r.inp = (pre ++ blockBytes flags b) ++ (blocksBytes flags bs ++ IX ++ FB) ++ post := by
      rw [hinp]; simp only [blocksBytes, hbb, ByteArray.append_assoc]
    have hs0 : strict = true → b.hdr.csize ≠ some 0 := by
      intro _ h0
      have := hb.csize 0 h0
      rw [hE1] at this
      have := lzBytes_size_pos b.hdr.dictCode cs
      omega
    rw [readBlocks, hpos, readBlockHeader_emit strict b.hdr hb.hdr hs0 r.inp pre _ d1]
    simp only []
    obtain ⟨blk, hrb, hbc, hbu⟩ := readBlock_emit strict cfgCap flags b.hdr cs hcs
      (fun h => hcap h b (List.mem_cons_self)) hfl
      (by intro c hc; rw [← hE1]; exact hb.csize c hc) (by intro u hu; rw [← hE2]; exact hb.usize u hu)
      { r with pos := pre.size + b.hdr.len } (pre ++ blockHeaderBytes b.hdr) _ d2
      (by show pre.size + b.hdr.len = _; rw [ByteArray.size_append, hhs])
    rw [hrb]
    simp only []
    rw [hbc, hbu, ← hE1, ← hE2]
    have hrec : (b.hdr.len + (blockE b).out.size + (checkSize flags).getD 0, (blockE b).h.out.size) =
        blockRec flags b := rfl
    rw [hrec]
    have hl : (recs.push (blockRec flags b)).toList ++ bs.map (blockRec flags) =
        recs.toList ++ (b :: bs).map (blockRec flags) := by
      simp only [Array.toList_push, List.map_cons, List.append_assoc, List.cons_append, List.nil_append]
    obtain ⟨accOut, hih⟩ := ih f
      { r with pos := (pre ++ blockHeaderBytes b.hdr).size + (blockBody flags b.hdr.dictCode cs).size,
               out := r.out ++ (blockE b).h.out }
      (acc.push blk) (recs.push (blockRec flags b)) (pre ++ blockBytes flags b) post
      (fun x hx => hbs x (List.mem_cons_of_mem _ hx))
      (fun h x hx => hcap h x (List.mem_cons_of_mem _ hx))
      (by
        intro x hx
        rw [Array.toList_push, List.mem_append, List.mem_singleton] at hx
        rcases hx with hx | rfl
        · exact hrecs x hx
        · exact ⟨hb.unpadded, hb.usizeLt⟩)
      (by rw [Array.size_push]; simp only [List.length_cons] at hn; omega)
      (by rw [hl, hIX]; exact hisz)
      (by rw [hl, hIX, hFB]; exact d3)
      (by show _ = (pre ++ blockBytes flags b).size; rw [hbb]; simp only [ByteArray.size_append]; omega)
      (by simp only [List.length_cons] at hfuel; omega)
    refine ⟨accOut, ?_⟩
    rw [hih, hl, hIX]
    simp only [blocksBytes, blocksContent, ByteArray.size_append, ByteArray.append_assoc, Nat.add_assoc, hE2]

end Xz

/-! ## part: Streams -/

namespace Xz
open Lzma Lzma2 Rc Spec

/-! ### one stream -/

/-- the content the emitter produces for a stream: concatenation of the blocks' contents -/
def content (s : Stream) : ByteArray := blocksContent s.blocks.toList

/-- a well-formed stream -/
structure StreamOk (strict : Bool) (s : Stream) : Prop where
  flags : (checkSize s.flags).isSome = true
  blocks : ∀ b ∈ s.blocks.toList, BlockOk strict s.flags b
  pad : s.padAfter % 4 = 0
  /-- the index fits the footer's 32-bit "backward size" field -/
  indexSize : (indexBytes (streamRecs s)).size / 4 - 1 < 2 ^ 32

/-- capacity assumption: the model reader (`strict = false`) uses `max cfgCap (dictSize code)` -/
def CapOk (strict : Bool) (cfgCap : Nat) (s : Stream) : Prop :=
  strict = false → ∀ b ∈ s.blocks.toList, cfgCap ≤ dictSize b.hdr.dictCode

theorem putUvarint_size_pos (x : Nat) : 1 ≤ (putUvarint x).size := by
  unfold putUvarint
  rw [putUvarint.go]
  split
  · rw [putUvarint_go_append, ByteArray.size_append]
    have : (ByteArray.empty.push (x % 128 + 128).toUInt8).size = 1 := rfl
    omega
  · exact Nat.le_refl 1

theorem recsBytes_size_ge : ∀ l : List (Nat × Nat), 2 * l.length ≤ (recsBytes l).size := by
  intro l
  induction l with
  | nil => exact Nat.zero_le _
  | cons x l ih =>
    simp only [recsBytes, ByteArray.size_append, List.length_cons]
    have := putUvarint_size_pos x.1
    have := putUvarint_size_pos x.2
    omega

theorem indexBytes_size_ge (l : List (Nat × Nat)) : 2 * l.length ≤ (indexBytes l).size := by
  have := recsBytes_size_ge l
  unfold indexBytes indexPadded indexBody
  simp only [ByteArray.size_append]
  omega

theorem blocksBytes_length (strict : Bool) (flags : Nat) : ∀ bs : List Block, (∀ b ∈ bs, BlockOk strict flags b) →
    bs.length ≤ (blocksBytes flags bs).size := by
  intro bs
  induction bs with
  | nil => intro _; exact Nat.zero_le _
  | cons b bs ih =>
    intro h
    have := ih (fun x hx => h x (List.mem_cons_of_mem _ hx))
    have hb := hdrBody_size b.hdr (h b (List.mem_cons_self)).hdr
    simp only [blocksBytes, blockBytes, ByteArray.size_append, List.length_cons]
    omega

theorem streamCore_size (s : Stream) : 12 ≤ (streamCore s).size := by
  unfold streamCore
  simp only [ByteArray.size_append, streamHeader_size]
  omega

/-- **One stream** (4): header, blocks, index, footer -/
theorem readStreams_stream (strict : Bool) (cfgCap : Nat) (single : Bool) (s : Stream) (hok : StreamOk strict s)
    (hcap : CapOk strict cfgCap s) (fuel : Nat) (first : Bool) (r : RdState) (pre post : ByteArray)
    (hinp : r.inp = pre ++ streamCore s ++ post) (hpos : r.pos = pre.size) :
    ∃ bsOut, readStreams strict cfgCap single (fuel + 1) first r =
      if single = true then
        (if pre.size + (streamCore s).size < r.inp.size then
          ({ r with pos := pre.size + (streamCore s).size, out := r.out ++ content s,
                    streams := r.streams.push { flags := s.flags, blocks := bsOut } },
            .err "unexpected data after stream")
         else
          ({ r with pos := pre.size + (streamCore s).size, out := r.out ++ content s,
                    streams := r.streams.push { flags := s.flags, blocks := bsOut } }, .eof))
      else readStreams strict cfgCap single fuel false
        { r with pos := pre.size + (streamCore s).size, out := r.out ++ content s,
                 streams := r.streams.push { flags := s.flags, blocks := bsOut } } := by
  generalize hIX : indexBytes (streamRecs s) = IX at *
  have hcore : streamCore s = streamHeader s.flags ++ blocksBytes s.flags s.blocks.toList ++ IX ++
      footerBytes s.flags IX.size := by unfold streamCore; rw [hIX]
  have d1 : r.inp = pre ++ streamHeader s.flags ++ (blocksBytes s.flags s.blocks.toList ++ IX ++
      footerBytes s.flags IX.size ++ post) := by
    rw [hinp, hcore]; simp only [ByteArray.append_assoc]
  have d2 : r.inp = (pre ++ streamHeader s.flags) ++ (blocksBytes s.flags s.blocks.toList ++ IX ++
      footerBytes s.flags IX.size) ++ post := by
    rw [hinp, hcore]; simp only [ByteArray.append_assoc]
  have hsz := size_of_eq d2
  have hlen := blocksBytes_length strict s.flags s.blocks.toList hok.blocks
  have hnb : s.blocks.toList.length < 2 ^ 63 := by
    have := indexBytes_size_ge (streamRecs s)
    have h2 := hok.indexSize
    rw [hIX] at this h2
    unfold streamRecs at this
    rw [List.length_map] at this
    omega
  obtain ⟨bsOut, hrb⟩ := readBlocks_emit strict cfgCap s.flags hok.flags s.blocks.toList
    (r.inp.size - pre.size + 2) { r with pos := pre.size + 12 } #[] #[] (pre ++ streamHeader s.flags) post
    hok.blocks hcap (by intro x hx; simp at hx) (by simpa using hnb)
    (by simp only [Array.toList_empty, List.nil_append]; show (indexBytes (streamRecs s)).size / 4 - 1 < _
        exact hok.indexSize)
    (by simp only [Array.toList_empty, List.nil_append]
        show r.inp = _
        rw [show List.map (blockRec s.flags) s.blocks.toList = streamRecs s from rfl, hIX]
        exact d2)
    (by show pre.size + 12 = _; rw [ByteArray.size_append, streamHeader_size])
    (by simp only [ByteArray.size_append, streamHeader_size] at hsz; omega)
  refine ⟨bsOut, ?_⟩
  rw [readStreams, hpos, readStreamHeader_emit s.flags hok.flags r.inp pre _ d1]
  simp only []
  rw [hrb]
  simp only [ne_eq, not_true_eq_false, if_false, Array.toList_empty, List.nil_append]
  have epos : (pre ++ streamHeader s.flags).size + (blocksBytes s.flags s.blocks.toList).size +
      (indexBytes (List.map (blockRec s.flags) s.blocks.toList)).size + 12 = pre.size + (streamCore s).size := by
    rw [show List.map (blockRec s.flags) s.blocks.toList = streamRecs s from rfl, hIX, hcore]
    simp only [ByteArray.size_append, footerBytes_size]
    omega
  rw [epos]
  rfl


/-! ### stream padding and the end of the input -/

theorem readStreamHeader_padding (inp : ByteArray) (pos : Nat) (h4 : pos + 4 ≤ inp.size)
    (hz : ∀ j, j < 4 → get inp (pos + j) = 0) : readStreamHeader inp pos = .padding := by
  unfold readStreamHeader
  rw [if_neg (by omega), if_neg (by omega), allZero_of _ _ _ (by
    intro k hk; exact hz k (by omega))]
  rfl

theorem readStreams_padding (strict : Bool) (cfgCap : Nat) (single : Bool) :
    ∀ (m fuel : Nat) (r : RdState), (∀ j, j < 4 * m → get r.inp (r.pos + j) = 0) → r.pos + 4 * m ≤ r.inp.size →
      ∃ r', readStreams strict cfgCap single (fuel + m) false r = readStreams strict cfgCap single fuel false r' ∧
        r'.inp = r.inp ∧ r'.pos = r.pos + 4 * m ∧ r'.out = r.out := by
  intro m
  induction m with
  | zero => intro fuel r _ _; exact ⟨r, rfl, rfl, rfl, rfl⟩
  | succ m ih =>
    intro fuel r hz hsz
    rw [show fuel + (m + 1) = (fuel + m) + 1 by omega, readStreams,
      readStreamHeader_padding r.inp r.pos (by omega) (fun j hj => hz j (by omega))]
    simp only [Bool.false_eq_true, if_false]
    have aux : ∀ r1 : RdState, r1.inp = r.inp → r1.pos = r.pos + 4 → r1.out = r.out →
        ∃ r', readStreams strict cfgCap single (fuel + m) false r1 = readStreams strict cfgCap single fuel false r' ∧
          r'.inp = r.inp ∧ r'.pos = r.pos + 4 * (m + 1) ∧ r'.out = r.out := by
      intro r1 h1 h2 h3
      obtain ⟨r', g1, g2, g3, g4⟩ := ih fuel r1 (by
          intro j hj
          rw [h1, h2, show r.pos + 4 + j = r.pos + (4 + j) by omega]
          exact hz (4 + j) (by omega)) (by rw [h1, h2]; omega)
      exact ⟨r', g1, by rw [g2, h1], by rw [g3, h2]; omega, by rw [g4, h3]⟩
    rcases hb : r.streams.back? with _ | s0
    all_goals
      simp only []
      exact aux _ rfl rfl rfl

theorem readStreams_end (strict : Bool) (cfgCap : Nat) (single : Bool) (fuel : Nat) (r : RdState)
    (h : r.pos ≥ r.inp.size) : readStreams strict cfgCap single (fuel + 1) false r = (r, .eof) := by
  rw [readStreams]
  have : readStreamHeader r.inp r.pos = .cleanEnd := by
    unfold readStreamHeader; rw [if_pos h]
  rw [this]
  rfl

/-! ### stream lists -/

def emitL : List Stream → ByteArray
  | [] => ByteArray.empty
  | s :: ss => emitStream s ++ emitL ss

def contents : List Stream → ByteArray
  | [] => ByteArray.empty
  | s :: ss => content s ++ contents ss

theorem readStreams_emit (strict : Bool) (cfgCap : Nat) :
    ∀ (ss : List Stream) (fuel : Nat) (first : Bool) (r : RdState) (pre : ByteArray),
      (∀ s ∈ ss, StreamOk strict s ∧ CapOk strict cfgCap s) →
      r.inp = pre ++ emitL ss → r.pos = pre.size → (emitL ss).size + 4 ≤ 4 * fuel →
      (first = true → ss ≠ []) →
      ∃ r', readStreams strict cfgCap false fuel first r = (r', .eof) ∧ r'.out = r.out ++ contents ss := by
  intro ss
  induction ss with
  | nil =>
    intro fuel first r pre _ hinp hpos hfuel hfirst
    obtain ⟨f, rfl⟩ : ∃ f, fuel = f + 1 := ⟨fuel - 1, by omega⟩
    have hf : first = false := by
      cases first with
      | false => rfl
      | true => exact absurd rfl (hfirst rfl)
    subst hf
    refine ⟨r, readStreams_end strict cfgCap false f r ?_, ?_⟩
    · rw [hinp, hpos]; simp only [emitL, ByteArray.append_empty]; exact Nat.le_refl _
    · simp only [contents, ByteArray.append_empty]
  | cons s ss ih =>
    intro fuel first r pre hss hinp hpos hfuel _
    obtain ⟨hok, hcap⟩ := hss s (List.mem_cons_self)
    have hc12 := streamCore_size s
    obtain ⟨m, hm⟩ : ∃ m, s.padAfter = 4 * m := ⟨s.padAfter / 4, by have := hok.pad; omega⟩
    have hes : emitL (s :: ss) = streamCore s ++ zeros (4 * m) ++ emitL ss := by
      simp only [emitL]; rw [emitStream_eq, hm]
    rw [hes] at hinp hfuel
    simp only [ByteArray.size_append, zeros_size] at hfuel
    obtain ⟨f', rfl⟩ : ∃ f', fuel = f' + m + 1 := ⟨fuel - m - 1, by omega⟩
    have d1 : r.inp = pre ++ streamCore s ++ (zeros (4 * m) ++ emitL ss) := by
      rw [hinp]; simp only [ByteArray.append_assoc]
    have d2 : r.inp = (pre ++ streamCore s) ++ zeros (4 * m) ++ emitL ss := by
      rw [hinp]; simp only [ByteArray.append_assoc]
    have hsz := size_of_eq d2
    rw [zeros_size] at hsz
    obtain ⟨bsOut, h1⟩ := readStreams_stream strict cfgCap false s hok hcap (f' + m) first r pre _ d1 hpos
    simp only [Bool.false_eq_true, if_false] at h1
    obtain ⟨r1, g1, g2, g3, g4⟩ := readStreams_padding strict cfgCap false m f'
      { r with pos := pre.size + (streamCore s).size, out := r.out ++ content s,
               streams := r.streams.push { flags := s.flags, blocks := bsOut } }
      (by
        intro j hj
        show get r.inp (pre.size + (streamCore s).size + j) = 0
        have e : pre.size + (streamCore s).size = (pre ++ streamCore s).size := by rw [ByteArray.size_append]
        rw [e, get_of_eq d2 (by rw [zeros_size]; exact hj), get_zeros])
      (by show pre.size + (streamCore s).size + 4 * m ≤ r.inp.size
          rw [hsz, ByteArray.size_append]; omega)
    obtain ⟨r', k1, k2⟩ := ih f' false r1 (pre ++ streamCore s ++ zeros (4 * m))
      (fun x hx => hss x (List.mem_cons_of_mem _ hx))
      (by rw [g2]; exact d2)
      (by rw [g3]; simp only [ByteArray.size_append, zeros_size])
      (by omega) (by intro h; cases h)
    refine ⟨r', ?_, ?_⟩
    · rw [h1, g1, k1]
    · rw [k2, g4]; simp only [contents, ByteArray.append_assoc]

end Xz

/-! ## part: Main -/

namespace Xz
open Lzma Lzma2 Rc Spec

/-! ### headlines -/

theorem foldl_emitStream : ∀ (l : List Stream) (acc : ByteArray),
    l.foldl (fun a s => a ++ emitStream s) acc = acc ++ emitL l := by
  intro l
  induction l with
  | nil => intro acc; simp only [List.foldl_nil, emitL, ByteArray.append_empty]
  | cons s l ih => intro acc; simp only [List.foldl_cons, emitL, ih, ByteArray.append_assoc]

theorem emit_eq_emitL (ss : List Stream) : emit ss.toArray = emitL ss := by
  unfold emit
  rw [← Array.foldl_toList, foldl_emitStream, ByteArray.empty_append]

theorem foldl_append_contents : ∀ (l : List Stream) (acc : ByteArray),
    (l.map content).foldl (· ++ ·) acc = acc ++ contents l := by
  intro l
  induction l with
  | nil => intro acc; simp only [List.map_nil, List.foldl_nil, contents, ByteArray.append_empty]
  | cons s l ih => intro acc; simp only [List.map_cons, List.foldl_cons, contents, ih, ByteArray.append_assoc]

theorem read_emitL (strict : Bool) (cfgCap : Nat) (ss : List Stream) (hne : ss ≠ [])
    (hok : ∀ s ∈ ss, StreamOk strict s ∧ CapOk strict cfgCap s) :
    (read strict cfgCap false (emitL ss)).status = .eof ∧ (read strict cfgCap false (emitL ss)).out = contents ss := by
  obtain ⟨r', h1, h2⟩ := readStreams_emit strict cfgCap ss ((emitL ss).size / 4 + 3) true
    { inp := emitL ss, pos := 0, out := .empty } ByteArray.empty hok
    (by show emitL ss = _; rw [ByteArray.empty_append]) rfl (by omega) (fun _ => hne)
  unfold read
  simp only [h1]
  exact ⟨trivial, by rw [h2]; exact ByteArray.empty_append⟩

/-- **Headline B (concatenation law, C12)**: reading the concatenation of well-formed streams (each possibly followed
    by stream padding) ends cleanly and delivers the concatenation of the streams' contents -/
theorem read_emit (strict : Bool) (cfgCap : Nat) (ss : List Stream) (hne : ss ≠ [])
    (hok : ∀ s ∈ ss, StreamOk strict s ∧ CapOk strict cfgCap s) :
    (read strict cfgCap false (emit ss.toArray)).status = .eof ∧
    (read strict cfgCap false (emit ss.toArray)).out = (ss.map content).foldl (· ++ ·) .empty := by
  rw [emit_eq_emitL, foldl_append_contents, ByteArray.empty_append]
  exact read_emitL strict cfgCap ss hne hok

/-- **Headline A (round trip)** -/
theorem read_emitStream (strict : Bool) (cfgCap : Nat) (s : Stream) (hok : StreamOk strict s)
    (hcap : CapOk strict cfgCap s) :
    (read strict cfgCap false (emitStream s)).status = .eof ∧
    (read strict cfgCap false (emitStream s)).out = content s := by
  have := read_emitL strict cfgCap [s] (by simp) (by
    intro x hx; rw [List.mem_singleton] at hx; subst hx; exact ⟨hok, hcap⟩)
  simp only [emitL, contents, ByteArray.append_empty] at this
  exact this

theorem byteArray_size_zero (t : ByteArray) (h : t.size = 0) : t = ByteArray.empty := by
  apply ByteArray.ext
  exact Array.eq_empty_of_size_eq_zero h

/-- **Headline B, single-stream mode**: with `single = true`, anything after the stream is an error — but the
    stream's content has been delivered in both cases -/
theorem read_single (strict : Bool) (cfgCap : Nat) (s : Stream) (hok : StreamOk strict s)
    (hcap : CapOk strict cfgCap s) (hpad : s.padAfter = 0) (t : ByteArray) :
    ((read strict cfgCap true (emitStream s ++ t)).status = .eof ↔ t = ByteArray.empty) ∧
    (read strict cfgCap true (emitStream s ++ t)).out = content s := by
  have hes : emitStream s = streamCore s := by
    rw [emitStream_eq, hpad]; exact ByteArray.append_empty
  rw [hes]
  obtain ⟨bsOut, h1⟩ := readStreams_stream strict cfgCap true s hok hcap ((streamCore s ++ t).size / 4 + 2) true
    { inp := streamCore s ++ t, pos := 0, out := .empty } ByteArray.empty t
    (by show streamCore s ++ t = _; rw [ByteArray.empty_append]) rfl
  simp only [if_true] at h1
  have hsz : (streamCore s ++ t).size = (streamCore s).size + t.size := ByteArray.size_append
  unfold read
  simp only []
  rw [show (streamCore s ++ t).size / 4 + 3 = (streamCore s ++ t).size / 4 + 2 + 1 by omega, h1]
  by_cases ht : t.size = 0
  · have := byteArray_size_zero t ht
    rw [if_neg (by show ¬ ByteArray.empty.size + (streamCore s).size < (streamCore s ++ t).size
                   rw [hsz, ht]; simp)]
    exact ⟨⟨fun _ => this, fun _ => rfl⟩, ByteArray.empty_append⟩
  · rw [if_pos (by show ByteArray.empty.size + (streamCore s).size < (streamCore s ++ t).size
                   rw [hsz]; simp; omega)]
    refine ⟨⟨fun h => ?_, fun h => ?_⟩, ByteArray.empty_append⟩
    · simp at h
    · rw [h] at ht; exact absurd rfl ht

end Xz

/-! ## part: Build -/

namespace Xz
open Lzma Lzma2 Rc Spec

/-! ### a simple sufficient condition for the index-size bound -/

theorem recsBytes_size_le : ∀ l : List (Nat × Nat), (∀ x ∈ l, x.1 < 2 ^ 63 ∧ x.2 < 2 ^ 63) →
    (recsBytes l).size ≤ 18 * l.length := by
  intro l
  induction l with
  | nil => intro _; exact Nat.le_refl _
  | cons x l ih =>
    intro h
    have := ih (fun y hy => h y (List.mem_cons_of_mem _ hy))
    obtain ⟨h1, h2⟩ := h x (List.mem_cons_self)
    have := (putUvarint_size x.1 h1).2
    have := (putUvarint_size x.2 h2).2
    simp only [recsBytes, ByteArray.size_append, List.length_cons]
    omega

theorem indexSize_of_count (l : List (Nat × Nat)) (h : ∀ x ∈ l, x.1 < 2 ^ 63 ∧ x.2 < 2 ^ 63)
    (hn : l.length < 2 ^ 28) : (indexBytes l).size / 4 - 1 < 2 ^ 32 := by
  have h1 := recsBytes_size_le l h
  have h2 := (putUvarint_size l.length (by omega)).2
  have h3 := padLen_lt (indexBody l).size
  have h4 : (indexBody l).size = 1 + (putUvarint l.length).size + (recsBytes l).size := by
    unfold indexBody; simp only [ByteArray.size_append]; rfl
  rw [indexBytes_size]
  unfold indexPadded
  rw [ByteArray.size_append, zeros_size]
  omega

/-- a stream with fewer than 2^28 well-formed blocks is well-formed -/
theorem StreamOk.of_count (strict : Bool) (s : Stream) (hfl : (checkSize s.flags).isSome = true)
    (hb : ∀ b ∈ s.blocks.toList, BlockOk strict s.flags b) (hpad : s.padAfter % 4 = 0)
    (hn : s.blocks.size < 2 ^ 28) : StreamOk strict s := by
  refine ⟨hfl, hb, hpad, indexSize_of_count _ ?_ ?_⟩
  · intro x hx
    unfold streamRecs at hx
    rw [List.mem_map] at hx
    obtain ⟨b, hbm, rfl⟩ := hx
    exact ⟨(hb b hbm).unpadded, (hb b hbm).usizeLt⟩
  · unfold streamRecs; rw [List.length_map, Array.length_toList]; exact hn

/-! ### `buildStream` -/

/-- the parsed block `buildStream` makes of a block specification -/
def specBlock (bs : BlockSpec) : Block :=
  let st := bs.chunks.foldl emitChunk { h := { out := .empty, dictStart := 0, cap := dictSize bs.dictCode } }
  let cs := if bs.withCs then some st.out.size else none
  let us := if bs.withUs then some st.h.out.size else none
  let fields := 2 + (match cs with | some c => (putUvarint c).size | none => 0) +
    (match us with | some u => (putUvarint u).size | none => 0) + 3
  let len := (fields + 3) / 4 * 4 + 4 + 4 * bs.extraPad
  { hdr := { len := len, csize := cs, usize := us, dictCode := bs.dictCode }, chunks := bs.chunks,
    usize := st.h.out.size, csize := st.out.size, check := .empty }

theorem buildStream_eq (flags : Nat) (blocks : Array BlockSpec) (padAfter : Nat) :
    buildStream flags blocks padAfter =
      emitStream { flags := flags, blocks := blocks.map specBlock, padAfter := padAfter } := rfl

/-- the emitter's state for the chunks of a block specification -/
def specE (bs : BlockSpec) : EState := bs.chunks.foldl emitChunk (e0 (dictSize bs.dictCode))

/-- hypotheses on a block specification -/
structure BlockSpecOk (strict : Bool) (flags : Nat) (bs : BlockSpec) : Prop where
  dict : bs.dictCode ≤ 40
  chunks : ∃ cs : List Chunk, bs.chunks.toList = cs ++ [eosChunk] ∧
    ChunksOk strict (e0 (dictSize bs.dictCode)) .init cs
  lenMax : (specBlock bs).hdr.len ≤ 1024
  unpadded : (specBlock bs).hdr.len + (specE bs).out.size + (checkSize flags).getD 0 < 2 ^ 63
  usizeLt : (specE bs).h.out.size < 2 ^ 63

theorem blockE_specBlock (bs : BlockSpec) : blockE (specBlock bs) = specE bs := rfl

theorem specBlock_ok (strict : Bool) (flags : Nat) (bs : BlockSpec) (h : BlockSpecOk strict flags bs) :
    BlockOk strict flags (specBlock bs) := by
  obtain ⟨hd, hch, hmax, hunp, hus⟩ := h
  have hcsz : ∀ c, (specBlock bs).hdr.csize = some c → c = (specE bs).out.size := by
    intro c hc
    unfold specBlock at hc
    simp only [] at hc
    split at hc
    · exact (Option.some.inj hc).symm
    · cases hc
  have husz : ∀ u, (specBlock bs).hdr.usize = some u → u = (specE bs).h.out.size := by
    intro u hu
    unfold specBlock at hu
    simp only [] at hu
    split at hu
    · exact (Option.some.inj hu).symm
    · cases hu
  refine ⟨⟨hd, ?_, ?_, ⟨bs.extraPad, ?_⟩, hmax⟩, hch, hcsz, husz, hunp, hus⟩
  · intro c hc; rw [hcsz c hc]; omega
  · intro u hu; rw [husz u hu]; exact hus
  · unfold hdrMinLen hdrFields optUv specBlock
    simp only []
    cases bs.withCs <;> cases bs.withUs <;> simp

/-- **Headline A for `buildStream`** -/
theorem read_buildStream (strict : Bool) (cfgCap flags : Nat) (blocks : Array BlockSpec) (padAfter : Nat)
    (hfl : (checkSize flags).isSome = true) (hb : ∀ b ∈ blocks.toList, BlockSpecOk strict flags b)
    (hpad : padAfter % 4 = 0) (hn : blocks.size < 2 ^ 28)
    (hcap : strict = false → ∀ b ∈ blocks.toList, cfgCap ≤ dictSize b.dictCode) :
    (read strict cfgCap false (buildStream flags blocks padAfter)).status = .eof ∧
    (read strict cfgCap false (buildStream flags blocks padAfter)).out =
      (blocks.toList.map (fun b => (specE b).h.out)).foldl (· ++ ·) .empty := by
  rw [buildStream_eq]
  have hok : StreamOk strict { flags := flags, blocks := blocks.map specBlock, padAfter := padAfter } := by
    apply StreamOk.of_count strict _ hfl ?_ hpad (by simpa using hn)
    intro b hbm
    simp only [Array.toList_map, List.mem_map] at hbm
    obtain ⟨x, hx, rfl⟩ := hbm
    exact specBlock_ok strict flags x (hb x hx)
  have hc : CapOk strict cfgCap { flags := flags, blocks := blocks.map specBlock, padAfter := padAfter } := by
    intro hs b hbm
    simp only [Array.toList_map, List.mem_map] at hbm
    obtain ⟨x, hx, rfl⟩ := hbm
    exact hcap hs x hx
  obtain ⟨h1, h2⟩ := read_emitStream strict cfgCap _ hok hc
  refine ⟨h1, ?_⟩
  rw [h2]
  unfold content
  simp only [Array.toList_map]
  generalize blocks.toList = l
  have : ∀ (l : List BlockSpec) (acc : ByteArray),
      (l.map (fun b => (specE b).h.out)).foldl (· ++ ·) acc = acc ++ blocksContent (l.map specBlock) := by
    intro l
    induction l with
    | nil => intro acc; simp only [List.map_nil, List.foldl_nil, blocksContent, ByteArray.append_empty]
    | cons b l ih =>
      intro acc
      simp only [List.map_cons, List.foldl_cons, blocksContent, ih, ByteArray.append_assoc, blockE_specBlock]
  rw [this, ByteArray.empty_append]


/-! ### (4) one stream, stated directly for `readStreamHeader` / `readBlocks` (which calls `readTail`) -/

theorem readStream_emitStream (strict : Bool) (cfgCap : Nat) (s : Stream) (hok : StreamOk strict s)
    (hcap : CapOk strict cfgCap s) (r : RdState) (pre post : ByteArray)
    (hinp : r.inp = pre ++ emitStream s ++ post) (hpos : r.pos = pre.size)
    (fuel : Nat) (hfuel : s.blocks.size + 1 ≤ fuel) :
    readStreamHeader r.inp r.pos = .ok s.flags ∧
    ∃ bsOut, readBlocks strict cfgCap s.flags fuel { r with pos := r.pos + 12 } #[] #[] =
      ({ r with pos := pre.size + ((emitStream s).size - s.padAfter), out := r.out ++ content s }, .eof, bsOut) := by
  rw [emitStream_eq] at hinp
  have hsz : (emitStream s).size - s.padAfter = (streamCore s).size := by
    rw [emitStream_eq, ByteArray.size_append, zeros_size]; omega
  generalize hIX : indexBytes (streamRecs s) = IX at *
  have hcore : streamCore s = streamHeader s.flags ++ blocksBytes s.flags s.blocks.toList ++ IX ++
      footerBytes s.flags IX.size := by unfold streamCore; rw [hIX]
  have d1 : r.inp = pre ++ streamHeader s.flags ++ (blocksBytes s.flags s.blocks.toList ++ IX ++
      footerBytes s.flags IX.size ++ zeros s.padAfter ++ post) := by
    rw [hinp, hcore]; simp only [ByteArray.append_assoc]
  have d2 : r.inp = (pre ++ streamHeader s.flags) ++ (blocksBytes s.flags s.blocks.toList ++ IX ++
      footerBytes s.flags IX.size) ++ (zeros s.padAfter ++ post) := by
    rw [hinp, hcore]; simp only [ByteArray.append_assoc]
  have hnb : s.blocks.toList.length < 2 ^ 63 := by
    have := indexBytes_size_ge (streamRecs s)
    have h2 := hok.indexSize
    rw [hIX] at this h2
    unfold streamRecs at this
    rw [List.length_map] at this
    omega
  refine ⟨by rw [hpos]; exact readStreamHeader_emit s.flags hok.flags r.inp pre _ d1, ?_⟩
  obtain ⟨bsOut, hrb⟩ := readBlocks_emit strict cfgCap s.flags hok.flags s.blocks.toList
    fuel { r with pos := r.pos + 12 } #[] #[] (pre ++ streamHeader s.flags) (zeros s.padAfter ++ post)
    hok.blocks hcap (by intro x hx; simp at hx) (by simpa using hnb)
    (by simp only [Array.toList_empty, List.nil_append]; show (indexBytes (streamRecs s)).size / 4 - 1 < _
        exact hok.indexSize)
    (by simp only [Array.toList_empty, List.nil_append]
        show r.inp = _
        rw [show List.map (blockRec s.flags) s.blocks.toList = streamRecs s from rfl, hIX]
        exact d2)
    (by show r.pos + 12 = _; rw [ByteArray.size_append, streamHeader_size, hpos])
    (by rw [Array.length_toList]; exact hfuel)
  refine ⟨bsOut, ?_⟩
  rw [hrb, hsz]
  simp only [Array.toList_empty, List.nil_append]
  have epos : (pre ++ streamHeader s.flags).size + (blocksBytes s.flags s.blocks.toList).size +
      (indexBytes (List.map (blockRec s.flags) s.blocks.toList)).size + 12 = pre.size + (streamCore s).size := by
    rw [show List.map (blockRec s.flags) s.blocks.toList = streamRecs s from rfl, hIX, hcore]
    simp only [ByteArray.size_append, footerBytes_size]
    omega
  rw [epos]
  rfl

end Xz

#print axioms Xz.readUvarint_putUvarint
#print axioms Xz.readBlockHeader_emit
#print axioms Lzma2.chunks_shift
#print axioms Xz.readBlock_emit
#print axioms Xz.emitStream_eq
#print axioms Xz.readTail_emit
#print axioms Xz.readBlocks_emit
#print axioms Xz.readStreams_stream
#print axioms Xz.readStream_emitStream
#print axioms Xz.read_emitStream
#print axioms Xz.read_buildStream
#print axioms Xz.read_emit
#print axioms Xz.read_single
