import XzVerif.Gen.GoSrc
import XzVerif.Codec.Lzma
import XzVerif.Proofs.Rc
import XzVerif.Proofs.GoSrcMisc
/-
  Proofs.GoSrcEnc — the REGENERATED translation of lzma/rangecodec.go's ENCODER half and lzma/bytewriter.go
  (Gen/GoSrc.lean: uint32 `nrange`, uint64 `low` with the carry in bit 32, int64 `cacheLen`, byte `cache`,
  the `LimitedByteWriter` budget `N`, Go's wrap-around arithmetic as BitVec operations) refines the Nat-level
  range encoder `Rc.Enc` of Codec/Rc.lean, INCLUDING the byte limit: a step answers `ErrLimit` exactly when it
  has to write while `Available() = N - (cacheLen + 4) < 1`, which is the `overflow` predicate of
  Model/Writer2.lean with `L = maxCompressed - base`.  No panic, fuel never exhausted.
  Statements are fixed; only proofs may change.
-/
namespace GoSrcP
open GoSrc

def bytesNat (l : List (BitVec 8)) : List Nat := l.map BitVec.toNat

/-- the Go encoder `g` represents the Nat-level encoder `e`; `L` = bytes the limited writer admits in total -/
structure EncRel (g : T_rangeEncoder) (e : Rc.Enc) (L : Nat) : Prop where
  range : g.nrange.toNat = e.range
  low : g.low.toNat = e.low
  cache : g.cache.toNat = e.cache
  cacheLen : g.cacheLen.toNat = e.cacheLen
  out : bytesNat g.lbw.BW.out = e.out
  budget : g.lbw.N.toNat + e.out.length = L

/-- `shiftLow` writes (rather than only lengthening the pending 0xff run) -/
def writes (e : Rc.Enc) : Prop := e.low % 2 ^ 32 < 0xff000000 ∨ e.low / 2 ^ 32 ≠ 0

instance (e : Rc.Enc) : Decidable (writes e) := by unfold writes; infer_instance

/-- `Available() < 1` at the moment of a write -/
def noRoom (e : Rc.Enc) (L : Nat) : Prop := L < e.out.length + e.cacheLen + 5

instance (e : Rc.Enc) (L : Nat) : Decidable (noRoom e L) := by unfold noRoom; infer_instance


theorem avail_lt (N cl : BitVec 64) (hN : N.toNat < 2 ^ 63) (hc : cl.toNat < 2 ^ 63 - 8) :
    BitVec.slt (N - (cl + 4#64)) (1#64) = decide (N.toNat < cl.toNat + 5) := by
  simp only [BitVec.slt, BitVec.toInt_eq_toNat_cond]
  by_cases h : N.toNat < cl.toNat + 5
  · simp only [h, decide_true, decide_eq_true_eq]; bv_omega
  · simp only [h, decide_false, decide_eq_false_iff_not]; bv_omega

theorem writeByte_limit (g : T_rangeEncoder) (c : BitVec 8)
    (hN : g.lbw.N.toNat < 2 ^ 63) (hc : g.cacheLen.toNat < 2 ^ 63 - 8)
    (h : g.lbw.N.toNat < g.cacheLen.toNat + 5) :
    rangeEncoder_writeByte g c = (Go.Err.named "ErrLimit", g) := by
  unfold rangeEncoder_writeByte rangeEncoder_Available
  simp only [avail_lt _ _ hN hc, h, decide_true, if_true]

theorem writeByte_ok (g : T_rangeEncoder) (c : BitVec 8)
    (hN : g.lbw.N.toNat < 2 ^ 63) (hc : g.cacheLen.toNat < 2 ^ 63 - 8)
    (h : g.cacheLen.toNat + 5 ≤ g.lbw.N.toNat) :
    rangeEncoder_writeByte g c
      = (Go.Err.nil, { g with lbw := { BW := { out := g.lbw.BW.out ++ [c] }, N := g.lbw.N - 1#64 } }) := by
  unfold rangeEncoder_writeByte rangeEncoder_Available
  have h' : ¬ g.lbw.N.toNat < g.cacheLen.toNat + 5 := by omega
  have h2 : BitVec.sle g.lbw.N 0#64 = false := by
    simp only [BitVec.sle, BitVec.toInt_eq_toNat_cond, decide_eq_false_iff_not]; bv_omega
  simp only [avail_lt _ _ hN hc, h', decide_false, LimitedByteWriter_WriteByte, h2, Go.ByteWriter.WriteByte]
  simp

theorem loop_spec (n : Nat) : ∀ (fuel : Nat) (g : T_rangeEncoder) (tmp : BitVec 8),
    g.cacheLen.toNat = n + 1 → n + 1 ≤ fuel → g.lbw.N.toNat < 2 ^ 63 → g.cacheLen.toNat < 2 ^ 63 - 8 →
    g.cacheLen.toNat + 5 ≤ g.lbw.N.toNat →
    ∃ g', rangeEncoder_shiftLow_loop1 fuel g tmp = Go.Res.ok (Sum.inr (g', 255#8)) ∧
      g'.low = g.low ∧ g'.nrange = g.nrange ∧ g'.cache = g.cache ∧ g'.cacheLen = 0#64 ∧
      bytesNat g'.lbw.BW.out = Rc.emit (bytesNat g.lbw.BW.out)
        (tmp + BitVec.setWidth 8 (BitVec.ushiftRight g.low 32)).toNat
        (255#8 + BitVec.setWidth 8 (BitVec.ushiftRight g.low 32)).toNat (n + 1) ∧
      g'.lbw.N.toNat + (n + 1) = g.lbw.N.toNat := by
  induction n with
  | zero =>
    intro fuel g tmp hcl hf hN hc hroom
    obtain ⟨f, rfl⟩ : ∃ f, fuel = f + 1 := ⟨fuel - 1, by omega⟩
    unfold rangeEncoder_shiftLow_loop1
    rw [writeByte_ok g _ hN hc hroom]
    have e0 : g.cacheLen - 1#64 = 0#64 := by bv_omega
    simp only [bne_self_eq_false, Bool.false_eq_true, if_false, e0]
    refine ⟨{ g with lbw := { BW := { out := g.lbw.BW.out ++ [tmp + BitVec.setWidth 8 (BitVec.ushiftRight g.low 32)] }, N := g.lbw.N - 1#64 }, cacheLen := 0#64 },
      by simp [BitVec.sle, BitVec.slt], rfl, rfl, rfl, rfl, ?_, ?_⟩
    · simp [bytesNat, Rc.emit]
    · simp only; bv_omega
  | succ n ih =>
    intro fuel g tmp hcl hf hN hc hroom
    obtain ⟨f, rfl⟩ : ∃ f, fuel = f + 1 := ⟨fuel - 1, by omega⟩
    unfold rangeEncoder_shiftLow_loop1
    rw [writeByte_ok g _ hN hc hroom]
    have e1 : (g.cacheLen - 1#64).toNat = n + 1 := by bv_omega
    have e2 : BitVec.sle (g.cacheLen - 1#64) 0#64 = false := by
      simp only [BitVec.sle, BitVec.toInt_eq_toNat_cond, decide_eq_false_iff_not]; bv_omega
    simp only [bne_self_eq_false, Bool.false_eq_true, if_false, e2]
    obtain ⟨g', h1, h2, h3, h4, h5, h6, h7⟩ := ih f
      { g with lbw := { BW := { out := g.lbw.BW.out ++ [tmp + BitVec.setWidth 8 (BitVec.ushiftRight g.low 32)] }, N := g.lbw.N - 1#64 }, cacheLen := g.cacheLen - 1#64 }
      (255#8) e1 (by omega) (by simp only; bv_omega) (by simp only; bv_omega) (by simp only; bv_omega)
    refine ⟨g', h1, h2, h3, h4, h5, ?_, ?_⟩
    · rw [h6]; simp [bytesNat, Rc.emit]
    · simp only at h7; bv_omega

theorem cond_eq (low : BitVec 64) :
    ((BitVec.ult (BitVec.setWidth 32 low) 4278190080#32) || ((BitVec.ushiftRight low 32) != 0#64))
      = decide (low.toNat % 2 ^ 32 < 0xff000000 ∨ low.toNat / 2 ^ 32 ≠ 0) := by
  rw [Bool.eq_iff_iff]
  simp only [Bool.or_eq_true, BitVec.ult, decide_eq_true_eq, bne_iff_ne, ne_eq, BitVec.toNat_eq,
    BitVec.toNat_setWidth, BitVec.ushiftRight_eq, BitVec.toNat_ushiftRight, BitVec.toNat_ofNat,
    Nat.shiftRight_eq_div_pow]

theorem shiftLow_refines' (fuel : Nat) (g : T_rangeEncoder) (e : Rc.Enc) (L : Nat)
    (rel : EncRel g e L) (inv : e.Inv) (hcl : e.cacheLen < 2 ^ 63 - 16) (hL : L < 2 ^ 63) (hfuel : e.cacheLen ≤ fuel) :
    if writes e ∧ noRoom e L then
      ∃ g', rangeEncoder_shiftLow fuel g = Go.Res.ok (Go.Err.named "ErrLimit", g')
    else
      ∃ g', rangeEncoder_shiftLow fuel g = Go.Res.ok (Go.Err.nil, g') ∧ EncRel g' e.shiftLow L := by
  obtain ⟨hr, hlo, hca, hcl', hout, hbud⟩ := rel
  obtain ⟨icl, icache, ilow, iff⟩ := inv
  have hN : g.lbw.N.toNat < 2 ^ 63 := by omega
  have hc : g.cacheLen.toNat < 2 ^ 63 - 8 := by omega
  have hlen : e.out.length = g.lbw.BW.out.length := by rw [← hout]; simp [bytesNat]
  unfold rangeEncoder_shiftLow
  rw [cond_eq, hlo]
  by_cases hw : writes e
  · have hw' := hw
    unfold writes at hw'
    simp only [hw', decide_true, if_true]
    by_cases hroom : noRoom e L
    · rw [if_pos ⟨hw, hroom⟩]
      unfold noRoom at hroom
      obtain ⟨f, rfl⟩ : ∃ f, fuel = f + 1 := ⟨fuel - 1, by omega⟩
      unfold rangeEncoder_shiftLow_loop1
      rw [writeByte_limit g _ hN hc (by omega)]
      exact ⟨g, by simp⟩
    · rw [if_neg (fun h => hroom h.2)]
      unfold noRoom at hroom
      obtain ⟨g', h1, h2, h3, h4, h5, h6, h7⟩ := loop_spec (e.cacheLen - 1) fuel g g.cache
        (by omega) (by omega) hN hc (by omega)
      rw [h1]
      simp only [Go.Res.bind_ok]
      refine ⟨_, ⟨rfl, ?_⟩⟩
      have hcarry : (BitVec.setWidth 8 (BitVec.ushiftRight g.low 32)).toNat = e.low / 2 ^ 32 := by
        simp only [BitVec.toNat_setWidth, BitVec.ushiftRight_eq, BitVec.toNat_ushiftRight,
          Nat.shiftRight_eq_div_pow, hlo]
        omega
      unfold Rc.Enc.shiftLow
      rw [if_pos hw']
      constructor
      · simp only [h3, hr]
      · simp only [h2, BitVec.toNat_setWidth, BitVec.shiftLeft_eq, BitVec.toNat_shiftLeft,
          Nat.shiftLeft_eq, hlo]
        omega
      · simp only [h2, BitVec.toNat_setWidth, BitVec.ushiftRight_eq, BitVec.toNat_ushiftRight,
          Nat.shiftRight_eq_div_pow, hlo]
        omega
      · simp only [h5]; rfl
      · simp only [h6, hout, BitVec.toNat_add, hcarry, hca]
        have : e.cacheLen - 1 + 1 = e.cacheLen := by omega
        rw [this]; rfl
      · simp only [Rc.emit_length]
        omega
  · rw [if_neg (fun h => hw h.1)]
    have hw' := hw
    unfold writes at hw'
    simp only [hw', decide_false, Bool.false_eq_true, if_false]
    refine ⟨_, ⟨rfl, ?_⟩⟩
    unfold Rc.Enc.shiftLow
    rw [if_neg hw']
    constructor
    · exact hr
    · simp only [BitVec.toNat_setWidth, BitVec.shiftLeft_eq, BitVec.toNat_shiftLeft,
        Nat.shiftLeft_eq, hlo]
      omega
    · exact hca
    · simp only [BitVec.toNat_add, hcl']
      simp; omega
    · exact hout
    · exact hbud

theorem shiftLow_out_length (e : Rc.Enc) :
    e.shiftLow.out.length = if writes e then e.out.length + e.cacheLen else e.out.length := by
  by_cases h : writes e
  · have h' : e.low % 2 ^ 32 < 0xff000000 ∨ e.low / 2 ^ 32 ≠ 0 := h
    rw [if_pos h]; unfold Rc.Enc.shiftLow
    rw [if_pos h']; simp only [Rc.emit_length]
  · have h' : ¬ (e.low % 2 ^ 32 < 0xff000000 ∨ e.low / 2 ^ 32 ≠ 0) := h
    rw [if_neg h]; unfold Rc.Enc.shiftLow
    rw [if_neg h']

theorem apply_out (e : Rc.Enc) (dn : Rc.Decn) : (e.apply dn).out = e.out := by
  unfold Rc.Enc.apply
  rcases dn.p with _ | p
  · rfl
  · simp only; split <;> rfl

theorem apply_cacheLen (e : Rc.Enc) (dn : Rc.Decn) : (e.apply dn).cacheLen = e.cacheLen := by
  unfold Rc.Enc.apply
  rcases dn.p with _ | p
  · rfl
  · simp only; split <;> rfl

theorem norm_refines (fuel : Nat) (g : T_rangeEncoder) (m : Rc.Enc) (L : Nat)
    (rel : EncRel g m L) (mid : m.Mid) (hr16 : 2 ^ 16 ≤ m.range)
    (hcl : m.cacheLen < 2 ^ 62) (hL : L < 2 ^ 63) (hfuel : m.cacheLen ≤ fuel) :
    if m.norm.out.length > m.out.length ∧ noRoom m L then
      BitVec.ule 16777216#32 g.nrange = false ∧
        ∃ g', rangeEncoder_shiftLow fuel { g with nrange := BitVec.shiftLeft g.nrange 8 }
                = Go.Res.ok (Go.Err.named "ErrLimit", g')
    else
      (BitVec.ule 16777216#32 g.nrange = true ∧ m.norm = m) ∨
      (BitVec.ule 16777216#32 g.nrange = false ∧
        ∃ g', rangeEncoder_shiftLow fuel { g with nrange := BitVec.shiftLeft g.nrange 8 }
                = Go.Res.ok (Go.Err.nil, g') ∧ EncRel g' m.norm L) := by
  have hrange := rel.range
  unfold Rc.Enc.norm
  by_cases hlt : m.range < 2 ^ 24
  · rw [if_pos hlt]
    have hule : BitVec.ule 16777216#32 g.nrange = false := by
      simp only [BitVec.ule, BitVec.toNat_ofNat, decide_eq_false_iff_not]; omega
    have rel' : EncRel { g with nrange := BitVec.shiftLeft g.nrange 8 } { m with range := m.range * 256 } L := by
      obtain ⟨hr, hlo, hca, hcl', hout, hbud⟩ := rel
      refine ⟨?_, hlo, hca, hcl', hout, hbud⟩
      simp only [BitVec.shiftLeft_eq, BitVec.toNat_shiftLeft, Nat.shiftLeft_eq, hr]
      omega
    have inv' : ({ m with range := m.range * 256 } : Rc.Enc).Inv := ⟨mid.cl, mid.cache, mid.low, mid.ff⟩
    have h := shiftLow_refines' fuel _ _ L rel' inv' (by simp only; omega) hL hfuel
    rw [shiftLow_out_length]
    have hcl1 : 1 ≤ m.cacheLen := mid.cl
    by_cases hw : writes ({ m with range := m.range * 256 } : Rc.Enc)
    · rw [if_pos hw]
      by_cases hroom : noRoom m L
      · have hroom' : noRoom ({ m with range := m.range * 256 } : Rc.Enc) L := hroom
        rw [if_pos ⟨hw, hroom'⟩] at h
        rw [if_pos ⟨by simp only; omega, hroom⟩]
        exact ⟨hule, h⟩
      · have hroom' : ¬ noRoom ({ m with range := m.range * 256 } : Rc.Enc) L := hroom
        rw [if_neg (fun hh => hroom' hh.2)] at h
        rw [if_neg (fun hh => hroom hh.2)]
        exact Or.inr ⟨hule, h⟩
    · rw [if_neg hw]
      rw [if_neg (fun hh => hw hh.1)] at h
      rw [if_neg (fun hh => by have := hh.1; simp only at this; omega)]
      exact Or.inr ⟨hule, h⟩
  · rw [if_neg hlt]
    rw [if_neg (fun hh => by have := hh.1; omega)]
    refine Or.inl ⟨?_, rfl⟩
    simp only [BitVec.ule, BitVec.toNat_ofNat, decide_eq_true_eq]; omega

theorem and_one_eq (b : BitVec 32) : ((b &&& 1#32) == 0#32) = !b.getLsbD 0 := by
  rw [Bool.eq_iff_iff]
  simp only [beq_iff_eq, BitVec.toNat_eq, BitVec.toNat_and, BitVec.toNat_ofNat, BitVec.getLsbD,
    Nat.testBit_zero, Bool.not_eq_true', decide_eq_false_iff_not]
  have : b.toNat &&& 1 % 2 ^ 32 = b.toNat % 2 := Nat.and_one_is_mod _
  omega

theorem shiftLow_refines (fuel : Nat) (g : T_rangeEncoder) (e : Rc.Enc) (L : Nat)
    (rel : EncRel g e L) (inv : e.Inv) (hcl : e.cacheLen < 2 ^ 62) (hL : L < 2 ^ 63) (hfuel : e.cacheLen ≤ fuel) :
    if writes e ∧ noRoom e L then
      ∃ g', rangeEncoder_shiftLow fuel g = Go.Res.ok (Go.Err.named "ErrLimit", g')
    else
      ∃ g', rangeEncoder_shiftLow fuel g = Go.Res.ok (Go.Err.nil, g') ∧ EncRel g' e.shiftLow L :=
  shiftLow_refines' fuel g e L rel inv (by omega) hL hfuel

/-- local copies of three facts of Proofs/GoSrcMisc.lean (kept here so that this file does not depend on the
    proof state of that one) -/
theorem prob_dec_toNat (p : BitVec 16) : (prob_dec p).toNat = Lzma.probNext p.toNat true := by
  unfold prob_dec Lzma.probNext
  simp only [BitVec.ushiftRight_eq, BitVec.toNat_sub, BitVec.toNat_ushiftRight,
    Nat.shiftRight_eq_div_pow, if_true]
  have := p.isLt
  omega

theorem prob_inc_toNat (p : BitVec 16) (h : p.toNat ≤ 2048) :
    (prob_inc p).toNat = Lzma.probNext p.toNat false := by
  unfold prob_inc Lzma.probNext
  simp only [BitVec.ushiftRight_eq, BitVec.toNat_add, BitVec.toNat_sub, BitVec.toNat_ushiftRight,
    BitVec.toNat_ofNat, Nat.shiftRight_eq_div_pow, Bool.false_eq_true, if_false]
  omega

theorem prob_bound_toNat (p : BitVec 16) (r : BitVec 32) (h : p.toNat ≤ 2048) :
    (prob_bound p r).toNat = (r.toNat / 2048) * p.toNat := by
  unfold prob_bound
  simp only [BitVec.ushiftRight_eq, BitVec.toNat_mul, BitVec.toNat_ushiftRight, BitVec.toNat_setWidth,
    Nat.shiftRight_eq_div_pow]
  have hr := r.isLt
  have h1 : r.toNat / 2 ^ 11 * p.toNat ≤ r.toNat / 2 ^ 11 * 2048 := Nat.mul_le_mul_left _ h
  rw [Nat.mod_eq_of_lt (by omega : p.toNat < 2 ^ 32), Nat.mod_eq_of_lt (by omega)]

theorem EncodeBit_refines (fuel : Nat) (g : T_rangeEncoder) (e : Rc.Enc) (L : Nat) (b : BitVec 32) (p : BitVec 16)
    (rel : EncRel g e L) (rest : e.Rest) (hp : Rc.POk p.toNat)
    (hcl : e.cacheLen < 2 ^ 62) (hL : L < 2 ^ 63) (hfuel : e.cacheLen ≤ fuel) :
    let bit := b.getLsbD 0
    let e' := e.step ⟨some p.toNat, bit⟩
    if e'.out.length > e.out.length ∧ noRoom e L then
      ∃ g' p', rangeEncoder_EncodeBit fuel g b p = Go.Res.ok (Go.Err.named "ErrLimit", g', p')
    else
      ∃ g', rangeEncoder_EncodeBit fuel g b p
              = Go.Res.ok (Go.Err.nil, g', BitVec.ofNat 16 (Lzma.probNext p.toNat bit))
            ∧ EncRel g' e' L ∧ e'.Rest := by
  intro bit e'
  have he' : e' = (e.apply ⟨some p.toNat, bit⟩).norm := rfl
  have hbitdef : b.getLsbD 0 = bit := rfl
  clear_value e' bit
  subst he'
  have hdn : (⟨some p.toNat, bit⟩ : Rc.Decn).ok := by
    intro q hq; simp only [Option.some.injEq] at hq; subst hq; exact hp
  obtain ⟨hmid, hr16, -, -, -⟩ := Rc.apply_spec e rest _ hdn
  have hrest' : (e.apply ⟨some p.toNat, bit⟩).norm.Rest := Rc.step_rest e rest _ hdn
  have hp2048 : p.toNat ≤ 2048 := by have := hp.2; omega
  have hbound := prob_bound_toNat p g.nrange hp2048
  have hble : e.range / 2048 * p.toNat ≤ e.range := by
    have : e.range / 2048 * p.toNat ≤ e.range / 2048 * 2048 := Nat.mul_le_mul_left _ hp2048
    omega
  obtain ⟨hr, hlo, hca, hcl', hout, hbud⟩ := rel
  have hrhi := rest.rhi
  have hlow := rest.low
  have hnr : noRoom (e.apply ⟨some p.toNat, bit⟩) L = noRoom e L := by
    unfold noRoom; rw [apply_out, apply_cacheLen]
  have houtm : (e.apply ⟨some p.toNat, bit⟩).out = e.out := apply_out _ _
  have hclm : (e.apply ⟨some p.toNat, bit⟩).cacheLen = e.cacheLen := apply_cacheLen _ _
  unfold rangeEncoder_EncodeBit
  simp only [and_one_eq, hbitdef]
  cases bit
  · -- bit 0
    simp only [Bool.not_false, if_true]
    have hpn : prob_inc p = BitVec.ofNat 16 (Lzma.probNext p.toNat false) := by
      apply BitVec.eq_of_toNat_eq
      rw [BitVec.toNat_ofNat, ← prob_inc_toNat p hp2048, Nat.mod_eq_of_lt (prob_inc p).isLt]
    have relm : EncRel { g with nrange := prob_bound p g.nrange } (e.apply ⟨some p.toNat, false⟩) L := by
      simp only [Rc.Enc.apply, Bool.false_eq_true, if_false]
      exact ⟨by simp only [hbound, hr], hlo, hca, hcl', hout, hbud⟩
    have h := norm_refines fuel _ _ L relm hmid hr16 (by omega) hL (by omega)
    simp only [hnr, houtm] at h
    by_cases hc : (e.apply ⟨some p.toNat, false⟩).norm.out.length > e.out.length ∧ noRoom e L
    · rw [if_pos hc] at h ⊢
      obtain ⟨hule, g', hg'⟩ := h
      simp only [hule, Bool.false_eq_true, if_false, hg', Go.Res.bind_ok]
      exact ⟨_, _, rfl⟩
    · rw [if_neg hc] at h ⊢
      rcases h with ⟨hule, hnorm⟩ | ⟨hule, g', hg', hrel⟩
      · simp only [hule, if_true, hpn]
        refine ⟨_, rfl, ?_, hrest'⟩
        rw [hnorm]; exact relm
      · simp only [hule, Bool.false_eq_true, if_false, hg', Go.Res.bind_ok, hpn]
        exact ⟨_, rfl, hrel, hrest'⟩
  · -- bit 1
    simp only [Bool.not_true, Bool.false_eq_true, if_false]
    have hpn : prob_dec p = BitVec.ofNat 16 (Lzma.probNext p.toNat true) := by
      apply BitVec.eq_of_toNat_eq
      rw [BitVec.toNat_ofNat, ← prob_dec_toNat p, Nat.mod_eq_of_lt (prob_dec p).isLt]
    have relm : EncRel { g with low := g.low + BitVec.setWidth 64 (prob_bound p g.nrange),
                                nrange := g.nrange - prob_bound p g.nrange }
                  (e.apply ⟨some p.toNat, true⟩) L := by
      simp only [Rc.Enc.apply, if_true]
      refine ⟨?_, ?_, hca, hcl', hout, hbud⟩
      · simp only [BitVec.toNat_sub, hbound, hr]; omega
      · simp only [BitVec.toNat_add, BitVec.toNat_setWidth, hbound, hr, hlo]; omega
    have h := norm_refines fuel _ _ L relm hmid hr16 (by omega) hL (by omega)
    simp only [hnr, houtm] at h
    by_cases hc : (e.apply ⟨some p.toNat, true⟩).norm.out.length > e.out.length ∧ noRoom e L
    · rw [if_pos hc] at h ⊢
      obtain ⟨hule, g', hg'⟩ := h
      simp only [hule, Bool.false_eq_true, if_false, hg', Go.Res.bind_ok]
      exact ⟨_, _, rfl⟩
    · rw [if_neg hc] at h ⊢
      rcases h with ⟨hule, hnorm⟩ | ⟨hule, g', hg', hrel⟩
      · simp only [hule, if_true, hpn]
        refine ⟨_, rfl, ?_, hrest'⟩
        rw [hnorm]; exact relm
      · simp only [hule, Bool.false_eq_true, if_false, hg', Go.Res.bind_ok, hpn]
        exact ⟨_, rfl, hrel, hrest'⟩

theorem direct_mask (r : BitVec 32) (b : BitVec 32) :
    (BitVec.setWidth 64 r &&& (0#64 - (BitVec.setWidth 64 b &&& 1#64))).toNat
      = if b.getLsbD 0 then r.toNat else 0 := by
  have h1 : BitVec.setWidth 64 b &&& 1#64 = if b.getLsbD 0 then 1#64 else 0#64 := by
    apply BitVec.eq_of_toNat_eq
    have : b.toNat % 2 ^ 64 &&& 1 % 2 ^ 64 = b.toNat % 2 ^ 64 % 2 := Nat.and_one_is_mod _
    simp only [BitVec.toNat_and, BitVec.toNat_setWidth, BitVec.toNat_ofNat, BitVec.getLsbD,
      Nat.testBit_zero, this]
    by_cases hb : b.toNat % 2 = 1
    · simp only [hb, decide_true, if_true, BitVec.toNat_ofNat]; omega
    · simp only [hb, decide_false, Bool.false_eq_true, if_false, BitVec.toNat_ofNat]; omega
  rw [h1]
  cases b.getLsbD 0
  · simp only [Bool.false_eq_true, if_false, BitVec.sub_zero, BitVec.and_zero, BitVec.toNat_ofNat]
  · have : (0#64 - 1#64) = BitVec.allOnes 64 := by decide
    simp only [if_true, this, BitVec.and_allOnes, BitVec.toNat_setWidth]
    omega

theorem DirectEncodeBit_refines (fuel : Nat) (g : T_rangeEncoder) (e : Rc.Enc) (L : Nat) (b : BitVec 32)
    (rel : EncRel g e L) (rest : e.Rest)
    (hcl : e.cacheLen < 2 ^ 62) (hL : L < 2 ^ 63) (hfuel : e.cacheLen ≤ fuel) :
    let bit := b.getLsbD 0
    let e' := e.step ⟨none, bit⟩
    if e'.out.length > e.out.length ∧ noRoom e L then
      ∃ g', rangeEncoder_DirectEncodeBit fuel g b = Go.Res.ok (Go.Err.named "ErrLimit", g')
    else
      ∃ g', rangeEncoder_DirectEncodeBit fuel g b = Go.Res.ok (Go.Err.nil, g')
            ∧ EncRel g' e' L ∧ e'.Rest := by
  intro bit e'
  have he' : e' = (e.apply ⟨none, bit⟩).norm := rfl
  have hbitdef : b.getLsbD 0 = bit := rfl
  clear_value e' bit
  subst he'
  have hdn : (⟨none, bit⟩ : Rc.Decn).ok := by
    intro q hq; simp at hq
  obtain ⟨hmid, hr16, -, -, -⟩ := Rc.apply_spec e rest _ hdn
  have hrest' : (e.apply ⟨none, bit⟩).norm.Rest := Rc.step_rest e rest _ hdn
  obtain ⟨hr, hlo, hca, hcl', hout, hbud⟩ := rel
  have hrhi := rest.rhi
  have hlow := rest.low
  have hnr : noRoom (e.apply ⟨none, bit⟩) L = noRoom e L := by
    unfold noRoom; rw [apply_out, apply_cacheLen]
  have houtm : (e.apply ⟨none, bit⟩).out = e.out := apply_out _ _
  unfold rangeEncoder_DirectEncodeBit
  have relm : EncRel { g with nrange := BitVec.ushiftRight g.nrange 1,
                              low := g.low + (BitVec.setWidth 64 (BitVec.ushiftRight g.nrange 1) &&&
                                (0#64 - (BitVec.setWidth 64 b &&& 1#64))) }
                (e.apply ⟨none, bit⟩) L := by
    simp only [Rc.Enc.apply]
    refine ⟨?_, ?_, hca, hcl', hout, hbud⟩
    · simp only [BitVec.ushiftRight_eq, BitVec.toNat_ushiftRight, Nat.shiftRight_eq_div_pow, hr]
    · simp only [BitVec.toNat_add, direct_mask, hbitdef, BitVec.ushiftRight_eq,
        BitVec.toNat_ushiftRight, Nat.shiftRight_eq_div_pow, hr, hlo]
      cases bit
      · simp only [Bool.false_eq_true, if_false]; omega
      · simp only [if_true]; omega
  have h := norm_refines fuel _ _ L relm hmid hr16
    (by rw [apply_cacheLen]; omega) hL (by rw [apply_cacheLen]; omega)
  simp only [hnr, houtm] at h
  by_cases hc : (e.apply ⟨none, bit⟩).norm.out.length > e.out.length ∧ noRoom e L
  · rw [if_pos hc] at h ⊢
    obtain ⟨hule, g', hg'⟩ := h
    simp only [hule, Bool.false_eq_true, if_false, hg', Go.Res.bind_ok]
    exact ⟨_, rfl⟩
  · rw [if_neg hc] at h ⊢
    rcases h with ⟨hule, hnorm⟩ | ⟨hule, g', hg', hrel⟩
    · simp only [hule, if_true]
      refine ⟨_, rfl, ?_, hrest'⟩
      rw [hnorm]; exact relm
    · simp only [hule, Bool.false_eq_true, if_false, hg', Go.Res.bind_ok]
      exact ⟨_, rfl, hrel, hrest'⟩

/-- `rangeEncoder.Close` at the Nat level with the byte limit: five checked shiftLows (`none` = ErrLimit) -/
def closeL (L : Nat) : Nat → Rc.Enc → Option Rc.Enc
  | 0, e => some e
  | n + 1, e => if writes e ∧ noRoom e L then none else closeL L n e.shiftLow

theorem errLimit_bne : (Go.Err.named "ErrLimit" != Go.Err.nil) = true := by decide

theorem shiftLow_cacheLen_le (e : Rc.Enc) (h : 1 ≤ e.cacheLen) : e.shiftLow.cacheLen ≤ e.cacheLen + 1 := by
  unfold Rc.Enc.shiftLow
  split
  · simp only; omega
  · simp only; omega

theorem close_loop (L : Nat) (n : Nat) : ∀ (fuel : Nat) (g : T_rangeEncoder) (e : Rc.Enc) (i : BitVec 64),
    i.toNat + n = 5 → EncRel g e L → e.Inv → e.cacheLen + n < 2 ^ 63 - 16 → L < 2 ^ 63 →
    e.cacheLen + 2 * n ≤ fuel → 1 ≤ fuel →
    match closeL L n e with
    | none => ∃ g', rangeEncoder_Close_loop1 fuel g i = Go.Res.ok (Sum.inl (Go.Err.named "ErrLimit", g'))
    | some e' => ∃ g' i', rangeEncoder_Close_loop1 fuel g i = Go.Res.ok (Sum.inr (g', i')) ∧ EncRel g' e' L := by
  induction n with
  | zero =>
    intro fuel g e i hi rel inv hcl hL hf hf1
    obtain ⟨f, rfl⟩ : ∃ f, fuel = f + 1 := ⟨fuel - 1, by omega⟩
    have hi5 : i = 5#64 := by bv_omega
    subst hi5
    unfold rangeEncoder_Close_loop1
    have hslt : BitVec.slt 5#64 5#64 = false := by decide
    simp only [hslt, Bool.false_eq_true, if_false, closeL]
    exact ⟨_, _, rfl, rel⟩
  | succ n ih =>
    intro fuel g e i hi rel inv hcl hL hf hf1
    obtain ⟨f, rfl⟩ : ∃ f, fuel = f + 1 := ⟨fuel - 1, by omega⟩
    have hslt : BitVec.slt i 5#64 = true := by
      simp only [BitVec.slt, BitVec.toInt_eq_toNat_cond, decide_eq_true_eq]; bv_omega
    have h := shiftLow_refines' f g e L rel inv (by omega) hL (by omega)
    rw [show closeL L (n + 1) e = (if writes e ∧ noRoom e L then none else closeL L n e.shiftLow) from rfl]
    by_cases hc : writes e ∧ noRoom e L
    · rw [if_pos hc] at h ⊢
      obtain ⟨g', hg'⟩ := h
      simp only
      unfold rangeEncoder_Close_loop1
      simp only [hslt, if_true, hg', Go.Res.bind_ok, errLimit_bne]
      exact ⟨_, rfl⟩
    · rw [if_neg hc] at h ⊢
      obtain ⟨g', hg', rel'⟩ := h
      have hstep : rangeEncoder_Close_loop1 (f + 1) g i = rangeEncoder_Close_loop1 f g' (i + 1#64) := by
        rw [rangeEncoder_Close_loop1]
        simp only [hslt, if_true, hg', Go.Res.bind_ok, bne_self_eq_false, Bool.false_eq_true, if_false]
      rw [hstep]
      have hcl1 := shiftLow_cacheLen_le e inv.cl
      have hcl0 := inv.cl
      exact ih f g' e.shiftLow (i + 1#64) (by bv_omega) rel' (Rc.shiftLow_inv e inv) (by omega) hL
        (by omega) (by omega)

theorem Close_refines (fuel : Nat) (g : T_rangeEncoder) (e : Rc.Enc) (L : Nat)
    (rel : EncRel g e L) (inv : e.Inv) (hcl : e.cacheLen < 2 ^ 62) (hL : L < 2 ^ 63) (hfuel : e.cacheLen + 10 ≤ fuel) :
    match closeL L 5 e with
    | none => ∃ g', rangeEncoder_Close fuel g = Go.Res.ok (Go.Err.named "ErrLimit", g')
    | some e' => ∃ g', rangeEncoder_Close fuel g = Go.Res.ok (Go.Err.nil, g') ∧ EncRel g' e' L := by
  have h := close_loop L 5 fuel g e 0#64 (by decide) rel inv (by omega) hL (by omega) (by omega)
  unfold rangeEncoder_Close
  rcases hcl5 : closeL L 5 e with _ | e'
  · rw [hcl5] at h
    obtain ⟨g', hg'⟩ := h
    simp only [hg', Go.Res.bind_ok]
    exact ⟨_, rfl⟩
  · rw [hcl5] at h
    obtain ⟨g', i', hg', rel'⟩ := h
    simp only [hg', Go.Res.bind_ok]
    exact ⟨_, rfl, rel'⟩

theorem closeL_room (L : Nat) (n : Nat) : ∀ (e : Rc.Enc), e.digits + 4 + n ≤ L →
    closeL L n e = some (Nat.iterate Rc.Enc.shiftLow n e) := by
  induction n with
  | zero => intro e _; rfl
  | succ n ih =>
    intro e h
    rw [show closeL L (n + 1) e = (if writes e ∧ noRoom e L then none else closeL L n e.shiftLow) from rfl]
    have hnr : ¬ noRoom e L := by
      unfold noRoom; unfold Rc.Enc.digits at h; omega
    rw [if_neg (fun hh => hnr hh.2)]
    rw [ih e.shiftLow (by rw [Rc.shiftLow_digits]; omega)]
    rfl

/-- without a limit in reach the closed stream is `Rc.Enc.close` -/
theorem Close_refines_noLimit (fuel : Nat) (g : T_rangeEncoder) (e : Rc.Enc) (L : Nat)
    (rel : EncRel g e L) (inv : e.Inv) (hcl : e.cacheLen < 2 ^ 62) (hL : L < 2 ^ 63) (hfuel : e.cacheLen + 10 ≤ fuel)
    (room : e.out.length + e.cacheLen + 9 ≤ L) :
    ∃ g', rangeEncoder_Close fuel g = Go.Res.ok (Go.Err.nil, g') ∧ bytesNat g'.lbw.BW.out = e.close := by
  have h := Close_refines fuel g e L rel inv hcl hL hfuel
  rw [closeL_room L 5 e (by unfold Rc.Enc.digits; omega)] at h
  obtain ⟨g', hg', rel'⟩ := h
  exact ⟨g', hg', rel'.out⟩

/-- the state `newRangeEncoder` builds (the constructor uses a type assertion and is outside the translated subset) -/
def encInit (N : BitVec 64) : T_rangeEncoder :=
  { lbw := { BW := { out := [] }, N := N }, nrange := 0xffffffff#32, low := 0#64, cacheLen := 1#64, cache := 0#8 }

theorem encInit_rel (N : BitVec 64) : EncRel (encInit N) Rc.Enc.init N.toNat := by
  refine ⟨?_, ?_, ?_, ?_, ?_, ?_⟩ <;> simp [encInit, Rc.Enc.init, bytesNat]

end GoSrcP
