import XzVerif.Gen.GoSrc
import XzVerif.Codec.LzmaDec
import XzVerif.Proofs.GoSrcTreeEnc
import XzVerif.Proofs.GoSrcTreeDec
/-
  Proofs.GoSrcLen — the REGENERATED translation of lzma/lengthcodec.go (`lengthCodec.Encode` / `Decode`: two choice
  probabilities, sixteen low and sixteen mid trees selected by the position state, one high tree; Go arrays with their
  bounds checks) refines `Lzma.lenEnc` / `Lzma.lenDec` of Codec/Lzma.lean over the flat probability table at offset `L`
  (layout: L, L+1 the choices; low tree ps at L+2+8·ps; mid tree ps at L+130+8·ps; high tree at L+258).
  Statements are fixed; only proofs may change.
-/
namespace GoSrcP
open GoSrc Rc Lzma

/-- the Go length codec `lc` is the block `[L, L + 514)` of the model's flat table -/
structure LenRel (lc : T_lengthCodec) (tbl : Tbl) (L : Nat) : Prop where
  inb : L + 514 ≤ tbl.size
  csize : lc.choice.size = 2
  c0 : (lc.choice.getD 0 0#16).toNat = tbl.get L
  c1 : (lc.choice.getD 1 0#16).toNat = tbl.get (L + 1)
  lsize : lc.low.size = 16
  msize : lc.mid.size = 16
  low : ∀ ps, ps < 16 → ((lc.low.getD ps default).probTree.bits = 3#8 ∧
          TreeRel (lc.low.getD ps default).probTree.probs tbl (L + 2 + ps * 8) 8)
  mid : ∀ ps, ps < 16 → ((lc.mid.getD ps default).probTree.bits = 3#8 ∧
          TreeRel (lc.mid.getD ps default).probTree.probs tbl (L + 130 + ps * 8) 8)
  hbits : lc.high.probTree.bits = 8#8
  high : TreeRel lc.high.probTree.probs tbl (L + 258) 256

/-! ### frame -/

/-- `t'` has the size of `t` and differs from it at most inside `[lo, hi)` -/
structure Agree (t t' : Tbl) (lo hi : Nat) : Prop where
  size : t'.size = t.size
  get : ∀ c, (c < lo ∨ hi ≤ c) → t'.get c = t.get c

theorem Tbl.size_upd (t : Tbl) (c v : Nat) : (t.upd c v).size = t.size := by
  unfold Tbl.upd; rw [Array.size_setIfInBounds]

theorem Agree.refl (t : Tbl) (lo hi : Nat) : Agree t t lo hi := ⟨rfl, fun _ _ => rfl⟩

theorem Agree.upd (t : Tbl) (c v lo hi : Nat) (h1 : lo ≤ c) (h2 : c < hi) : Agree t (t.upd c v) lo hi :=
  ⟨Tbl.size_upd _ _ _, fun i hi' => by rw [Tbl.get_upd, if_neg (by omega)]⟩

theorem Agree.trans {t t' t'' : Tbl} {lo hi : Nat} (a : Agree t t' lo hi) (b : Agree t' t'' lo hi) :
    Agree t t'' lo hi :=
  ⟨by rw [b.size, a.size], fun c hc => by rw [b.get c hc, a.get c hc]⟩

theorem treeEncGo_frame (Lim base v hi : Nat) : ∀ (n k m : Nat) (t : Tbl) (e : Enc) (t' : Tbl) (e' : Enc),
    m < 2 ^ k → 2 ^ (k + n) ≤ 2 * hi → encPathL Lim t e (treeEncGo base n m v) = some (t', e') →
    Agree t t' base (base + hi) := by
  intro n
  induction n with
  | zero =>
    intro k m t e t' e' _ _ h
    simp only [treeEncGo, encPathL, Option.some.injEq, Prod.mk.injEq] at h
    obtain ⟨rfl, _⟩ := h
    exact Agree.refl _ _ _
  | succ n ih =>
    intro k m t e t' e' hm hhi h
    simp only [treeEncGo, encPathL] at h
    split at h
    · cases h
    · have hp : (2:Nat) ^ (k + (n + 1)) = 2 * 2 ^ (k + n) := by rw [← Nat.add_assoc, Nat.pow_succ]; omega
      have hk : (2:Nat) ^ k ≤ 2 ^ (k + n) := Nat.pow_le_pow_right (by decide) (by omega)
      have := ih (k + 1) _ _ _ _ _ (by rw [Nat.pow_succ]; split <;> omega)
        (by rw [show k + 1 + n = k + (n + 1) by omega]; exact hhi) h
      exact (Agree.upd t (base + m) _ base (base + hi) (by omega) (by omega)).trans this

theorem treeEnc_frame (Lim base bits v : Nat) (t : Tbl) (e : Enc) (t' : Tbl) (e' : Enc)
    (h : encPathL Lim t e (treeEnc base bits v) = some (t', e')) : Agree t t' base (base + 2 ^ bits) :=
  treeEncGo_frame Lim base v (2 ^ bits) bits 1 1 t e t' e' (by decide)
    (by rw [Nat.add_comm, Nat.pow_succ]; omega) h

theorem treeDecGo_frame (base hi : Nat) : ∀ (n k m : Nat) (t : Tbl) (d : Rc.Dec) (mf : Nat) (t' : Tbl) (d' : Rc.Dec),
    m < 2 ^ k → 2 ^ (k + n) ≤ 2 * hi → decTree pm (treeDecGo base n m) t d = some (mf, t', d') →
    Agree t t' base (base + hi) := by
  intro n
  induction n with
  | zero =>
    intro k m t d mf t' d' _ _ h
    simp only [treeDecGo, decTree, Option.some.injEq, Prod.mk.injEq] at h
    obtain ⟨_, rfl, _⟩ := h
    exact Agree.refl _ _ _
  | succ n ih =>
    intro k m t d mf t' d' hm hhi h
    simp only [treeDecGo, decTree] at h
    cases hs : d.step (some (t.get (base + m))) with
    | none => rw [hs] at h; cases h
    | some bd =>
      obtain ⟨bit, d1⟩ := bd
      rw [hs] at h
      have hp : (2:Nat) ^ (k + (n + 1)) = 2 * 2 ^ (k + n) := by rw [← Nat.add_assoc, Nat.pow_succ]; omega
      have hk : (2:Nat) ^ k ≤ 2 ^ (k + n) := Nat.pow_le_pow_right (by decide) (by omega)
      have := ih (k + 1) _ _ _ _ _ _ (by rw [Nat.pow_succ]; split <;> omega)
        (by rw [show k + 1 + n = k + (n + 1) by omega]; exact hhi) h
      exact (Agree.upd t (base + m) _ base (base + hi) (by omega) (by omega)).trans this

theorem treeDec_frame (base bits : Nat) (t : Tbl) (d : Rc.Dec) (v : Nat) (t' : Tbl) (d' : Rc.Dec)
    (h : decTree pm (treeDec base bits) t d = some (v, t', d')) : Agree t t' base (base + 2 ^ bits) := by
  unfold treeDec DecTree.map at h
  rw [decTree_bind] at h
  cases hdt : decTree pm (treeDecGo base bits 1) t d with
  | none => rw [hdt] at h; cases h
  | some r =>
    obtain ⟨mf, t1, d1⟩ := r
    rw [hdt] at h
    simp only [decTree, Option.some.injEq, Prod.mk.injEq] at h
    obtain ⟨_, rfl, _⟩ := h
    exact treeDecGo_frame base (2 ^ bits) bits 1 1 t d mf _ d1 (by decide) (by rw [Nat.add_comm, Nat.pow_succ]; omega) hdt

theorem getD_setIfInBounds {α : Type} (a : Array α) (i j : Nat) (x d : α) :
    (a.setIfInBounds i x).getD j d = if i = j ∧ i < a.size then x else a.getD j d := by
  simp only [Array.getD_eq_getD_getElem?, Array.getElem?_setIfInBounds]
  by_cases h : i = j
  · subst h; by_cases h2 : i < a.size <;> simp [h2]
  · simp [h]

theorem TreeRel.frame {probs : Array (BitVec 16)} {tbl tbl' : Tbl} {base n : Nat} (tr : TreeRel probs tbl base n)
    (lo hi : Nat) (ag : Agree tbl tbl' lo hi) (hd : base + n ≤ lo ∨ hi ≤ base) : TreeRel probs tbl' base n :=
  ⟨tr.size, by rw [ag.size]; exact tr.inb, fun m hm => by rw [tr.val m hm, ag.get _ (by omega)]⟩

/-! ### `LenRel` is kept by the four kinds of updates -/

theorem LenRel.set_choice {lc : T_lengthCodec} {tbl : Tbl} {L : Nat} (lr : LenRel lc tbl L)
    (i : Nat) (hi : i < 2) (p : BitVec 16) (q : Nat) (hp : p.toNat = q) :
    LenRel { lc with choice := lc.choice.setIfInBounds i p } (tbl.upd (L + i) q) L := by
  have ag : Agree tbl (tbl.upd (L + i) q) L (L + 2) := Agree.upd _ _ _ _ _ (by omega) (by omega)
  have hinb := lr.inb
  have hcs := lr.csize
  refine ⟨by rw [ag.size]; exact lr.inb, by simp only [Array.size_setIfInBounds]; exact lr.csize, ?_, ?_,
    lr.lsize, lr.msize, ?_, ?_, lr.hbits, lr.high.frame _ _ ag (by omega)⟩
  · show ((lc.choice.setIfInBounds i p).getD 0 0#16).toNat = _
    rw [getD_setIfInBounds, Tbl.get_upd]
    by_cases h : i = 0
    · subst h; rw [if_pos ⟨rfl, by omega⟩, if_pos ⟨rfl, by omega⟩]; exact hp
    · rw [if_neg (by omega), if_neg (by omega)]; exact lr.c0
  · show ((lc.choice.setIfInBounds i p).getD 1 0#16).toNat = _
    rw [getD_setIfInBounds, Tbl.get_upd]
    by_cases h : i = 1
    · subst h; rw [if_pos ⟨rfl, by omega⟩, if_pos ⟨rfl, by omega⟩]; exact hp
    · rw [if_neg (by omega), if_neg (by omega)]; exact lr.c1
  · intro ps hps
    exact ⟨(lr.low ps hps).1, (lr.low ps hps).2.frame _ _ ag (by omega)⟩
  · intro ps hps
    exact ⟨(lr.mid ps hps).1, (lr.mid ps hps).2.frame _ _ ag (by omega)⟩

theorem LenRel.set_low {lc : T_lengthCodec} {tbl : Tbl} {L : Nat} (lr : LenRel lc tbl L)
    (ps : Nat) (hps : ps < 16) (tc : T_treeCodec) (tbl' : Tbl)
    (ag : Agree tbl tbl' (L + 2 + ps * 8) (L + 2 + ps * 8 + 8)) (hb : tc.probTree.bits = 3#8)
    (tr : TreeRel tc.probTree.probs tbl' (L + 2 + ps * 8) 8) :
    LenRel { lc with low := lc.low.setIfInBounds ps tc } tbl' L := by
  have hls := lr.lsize
  refine ⟨by rw [ag.size]; exact lr.inb, lr.csize, ?_, ?_,
    by simp only [Array.size_setIfInBounds]; exact lr.lsize, lr.msize, ?_, ?_, lr.hbits,
    lr.high.frame _ _ ag (by omega)⟩
  · show _ = tbl'.get L
    rw [ag.get _ (by omega)]; exact lr.c0
  · show _ = tbl'.get (L + 1)
    rw [ag.get _ (by omega)]; exact lr.c1
  · intro ps' hps'
    show ((lc.low.setIfInBounds ps tc).getD ps' default).probTree.bits = 3#8 ∧
      TreeRel ((lc.low.setIfInBounds ps tc).getD ps' default).probTree.probs tbl' (L + 2 + ps' * 8) 8
    rw [getD_setIfInBounds]
    by_cases h : ps = ps'
    · subst h; rw [if_pos ⟨rfl, by omega⟩]; exact ⟨hb, tr⟩
    · rw [if_neg (fun hh => h hh.1)]
      exact ⟨(lr.low ps' hps').1, (lr.low ps' hps').2.frame _ _ ag (by omega)⟩
  · intro ps' hps'
    exact ⟨(lr.mid ps' hps').1, (lr.mid ps' hps').2.frame _ _ ag (by omega)⟩

theorem LenRel.set_mid {lc : T_lengthCodec} {tbl : Tbl} {L : Nat} (lr : LenRel lc tbl L)
    (ps : Nat) (hps : ps < 16) (tc : T_treeCodec) (tbl' : Tbl)
    (ag : Agree tbl tbl' (L + 130 + ps * 8) (L + 130 + ps * 8 + 8)) (hb : tc.probTree.bits = 3#8)
    (tr : TreeRel tc.probTree.probs tbl' (L + 130 + ps * 8) 8) :
    LenRel { lc with mid := lc.mid.setIfInBounds ps tc } tbl' L := by
  have hms := lr.msize
  refine ⟨by rw [ag.size]; exact lr.inb, lr.csize, ?_, ?_, lr.lsize,
    by simp only [Array.size_setIfInBounds]; exact lr.msize, ?_, ?_, lr.hbits,
    lr.high.frame _ _ ag (by omega)⟩
  · show _ = tbl'.get L
    rw [ag.get _ (by omega)]; exact lr.c0
  · show _ = tbl'.get (L + 1)
    rw [ag.get _ (by omega)]; exact lr.c1
  · intro ps' hps'
    exact ⟨(lr.low ps' hps').1, (lr.low ps' hps').2.frame _ _ ag (by omega)⟩
  · intro ps' hps'
    show ((lc.mid.setIfInBounds ps tc).getD ps' default).probTree.bits = 3#8 ∧
      TreeRel ((lc.mid.setIfInBounds ps tc).getD ps' default).probTree.probs tbl' (L + 130 + ps' * 8) 8
    rw [getD_setIfInBounds]
    by_cases h : ps = ps'
    · subst h; rw [if_pos ⟨rfl, by omega⟩]; exact ⟨hb, tr⟩
    · rw [if_neg (fun hh => h hh.1)]
      exact ⟨(lr.mid ps' hps').1, (lr.mid ps' hps').2.frame _ _ ag (by omega)⟩

theorem LenRel.set_high {lc : T_lengthCodec} {tbl : Tbl} {L : Nat} (lr : LenRel lc tbl L)
    (tc : T_treeCodec) (tbl' : Tbl)
    (ag : Agree tbl tbl' (L + 258) (L + 258 + 256)) (hb : tc.probTree.bits = 8#8)
    (tr : TreeRel tc.probTree.probs tbl' (L + 258) 256) :
    LenRel { lc with high := tc } tbl' L := by
  refine ⟨by rw [ag.size]; exact lr.inb, lr.csize, ?_, ?_, lr.lsize, lr.msize, ?_, ?_, hb, tr⟩
  · show _ = tbl'.get L
    rw [ag.get _ (by omega)]; exact lr.c0
  · show _ = tbl'.get (L + 1)
    rw [ag.get _ (by omega)]; exact lr.c1
  · intro ps' hps'
    exact ⟨(lr.low ps' hps').1, (lr.low ps' hps').2.frame _ _ ag (by omega)⟩
  · intro ps' hps'
    exact ⟨(lr.mid ps' hps').1, (lr.mid ps' hps').2.frame _ _ ag (by omega)⟩

/-! ### encoder -/

/-- one choice bit coded with a probability `p` that is the table entry `a` -/
theorem choice_step (fuel : Nat) (p : BitVec 16) (g : T_rangeEncoder) (e : Enc) (Lim : Nat) (b : BitVec 32)
    (tbl : Tbl) (a : Nat) (rel : EncRel g e Lim) (rest : e.Rest) (htbl : tbl.ok) (hp : p.toNat = tbl.get a)
    (hcl : e.cacheLen < 2 ^ 62) (hL : Lim < 2 ^ 63) (hfuel : e.cacheLen ≤ fuel) :
    if (e.step ⟨some (tbl.get a), b.getLsbD 0⟩).out.length > e.out.length ∧ noRoom e Lim then
      ∃ g' p', prob_Encode fuel p g b = Go.Res.ok (Go.Err.named "ErrLimit", p', g')
    else
      ∃ g' p', prob_Encode fuel p g b = Go.Res.ok (Go.Err.nil, p', g')
        ∧ EncRel g' (e.step ⟨some (tbl.get a), b.getLsbD 0⟩) Lim
        ∧ (e.step ⟨some (tbl.get a), b.getLsbD 0⟩).Rest
        ∧ (e.step ⟨some (tbl.get a), b.getLsbD 0⟩).cacheLen ≤ e.cacheLen + 1
        ∧ (tbl.upd a (pm.next (tbl.get a) (b.getLsbD 0))).ok
        ∧ p'.toNat = pm.next (tbl.get a) (b.getLsbD 0) := by
  have hpok : POk p.toNat := by rw [hp]; exact htbl _
  have h := EncodeBit_refines fuel g e Lim b p rel rest hpok hcl hL hfuel
  simp only [hp] at h
  unfold prob_Encode
  split
  · rename_i hc
    rw [if_pos hc] at h
    obtain ⟨g', p', hg⟩ := h
    exact ⟨g', p', by rw [hg]; rfl⟩
  · rename_i hc
    rw [if_neg hc] at h
    obtain ⟨g', hg', rel', rest'⟩ := h
    have hnext : POk (probNext (tbl.get a) (b.getLsbD 0)) := pm.ok _ _ (htbl _)
    refine ⟨g', _, by rw [hg']; rfl, rel', rest', step_cacheLen_le _ _ rest.cl, Tbl.upd_ok _ htbl _ _ hnext, ?_⟩
    simp only [BitVec.toNat_ofNat]
    have := hnext.2
    show _ % 2 ^ 16 = probNext _ _
    omega

/-- a tree of the length codec: `treeCodec_Encode_refines` with the frame -/
theorem tree_enc (fuel : Nat) (tc : T_treeCodec) (g : T_rangeEncoder) (e : Enc) (Lim : Nat) (v : BitVec 32)
    (tbl : Tbl) (base bits : Nat)
    (rel : EncRel g e Lim) (rest : e.Rest) (htbl : tbl.ok) (hb1 : 1 ≤ bits) (hb2 : bits ≤ 32)
    (hbits : tc.probTree.bits.toNat = bits) (tr : TreeRel tc.probTree.probs tbl base (2 ^ bits))
    (hcl : e.cacheLen + 80 < 2 ^ 62) (hL : Lim < 2 ^ 63) (hfuel : e.cacheLen + 80 ≤ fuel) :
    match encPathL Lim tbl e (treeEnc base bits v.toNat) with
    | none => ∃ tc' g', treeCodec_Encode fuel tc g v = Go.Res.ok (Go.Err.named "ErrLimit", tc', g')
    | some (tbl', e') =>
      ∃ tc' g', treeCodec_Encode fuel tc g v = Go.Res.ok (Go.Err.nil, tc', g')
        ∧ EncRel g' e' Lim ∧ e'.Rest ∧ tbl'.ok ∧ e'.cacheLen ≤ e.cacheLen + bits
        ∧ tc'.probTree.bits = tc.probTree.bits ∧ TreeRel tc'.probTree.probs tbl' base (2 ^ bits)
        ∧ Agree tbl tbl' base (base + 2 ^ bits) := by
  have h := treeCodec_Encode_refines fuel tc g e Lim v tbl base bits rel rest htbl hb1 hb2 hbits tr hcl hL hfuel
  rcases hp : encPathL Lim tbl e (treeEnc base bits v.toNat) with _ | ⟨tbl', e'⟩
  · rw [hp] at h; exact h
  · rw [hp] at h
    obtain ⟨tc', g', h1, h2, h3, h4, h5, h6, h7⟩ := h
    exact ⟨tc', g', h1, h2, h3, h4, h5, h6, h7, treeEnc_frame _ _ _ _ _ _ _ _ hp⟩

theorem toInt0 : (0#64).toInt.toNat = 0 := by decide
theorem toInt1 : (1#64).toInt.toNat = 1 := by decide
theorem toInt0' : ¬ (0#64).toInt < 0 := by decide
theorem toInt1' : ¬ (1#64).toInt < 0 := by decide
theorem nil_bne : (Go.Err.nil != Go.Err.nil) = false := by decide
theorem lsb0 : (0#32).getLsbD 0 = false := by decide
theorem lsb1 : (1#32).getLsbD 0 = true := by decide

theorem lengthCodec_Encode_refines (fuel : Nat) (lc : T_lengthCodec) (g : T_rangeEncoder) (e : Enc) (Lim : Nat)
    (l posState : BitVec 32) (tbl : Tbl) (L : Nat)
    (rel : EncRel g e Lim) (rest : e.Rest) (htbl : tbl.ok) (lr : LenRel lc tbl L)
    (hl : l.toNat ≤ 271) (hps : posState.toNat < 16)
    (hcl : e.cacheLen + 200 < 2 ^ 62) (hL : Lim < 2 ^ 63) (hfuel : e.cacheLen + 200 ≤ fuel) :
    match encPathL Lim tbl e (lenEnc L posState.toNat l.toNat) with
    | none => ∃ lc' g', lengthCodec_Encode fuel lc g l posState = Go.Res.ok (Go.Err.named "ErrLimit", lc', g')
    | some (tbl', e') =>
      ∃ lc' g', lengthCodec_Encode fuel lc g l posState = Go.Res.ok (Go.Err.nil, lc', g')
        ∧ EncRel g' e' Lim ∧ e'.Rest ∧ tbl'.ok ∧ e'.cacheLen ≤ e.cacheLen + 10 ∧ LenRel lc' tbl' L := by
  have hult : BitVec.ult 271#32 l = false := by
    simp only [BitVec.ult, BitVec.toNat_ofNat, decide_eq_false_iff_not]; omega
  have hcs : ¬ lc.choice.size ≤ 0 := by rw [lr.csize]; omega
  have hcs1 : ¬ lc.choice.size ≤ 1 := by rw [lr.csize]; omega
  have hlsz : ¬ lc.low.size ≤ posState.toNat := by rw [lr.lsize]; omega
  have hmsz : ¬ lc.mid.size ≤ posState.toNat := by rw [lr.msize]; omega
  unfold lengthCodec_Encode
  simp only [hult, Bool.false_eq_true, if_false, toInt0, toInt1, toInt0', toInt1', false_or, hcs]
  by_cases h8 : l.toNat < 8
  · have hu8 : BitVec.ult l 8#32 = true := by
      simp only [BitVec.ult, BitVec.toNat_ofNat, decide_eq_true_eq]; omega
    have hpath : lenEnc L posState.toNat l.toNat
        = (.adaptive L, false) :: treeEnc (L + 2 + posState.toNat * 8) 3 l.toNat := by
      unfold lenEnc; rw [if_pos h8]
    rw [hpath]
    simp only [encPathL, hu8, if_true]
    have hs := choice_step fuel (lc.choice.getD 0 0#16) g e Lim 0#32 tbl L rel rest htbl lr.c0
      (by omega) hL (by omega)
    rw [lsb0] at hs
    by_cases hc : (e.step ⟨some (tbl.get L), false⟩).out.length > e.out.length ∧ noRoom e Lim
    · rw [if_pos hc] at hs ⊢
      obtain ⟨g1, p1, hg⟩ := hs
      simp only [hg, Go.Res.bind_ok, errLimit_bne, if_true]
      exact ⟨_, _, rfl⟩
    · rw [if_neg hc] at hs ⊢
      obtain ⟨g1, p1, hg, rel1, rest1, hcl1, htbl1, hp1⟩ := hs
      have lr1 : LenRel { lc with choice := lc.choice.setIfInBounds 0 p1 } (tbl.upd L (pm.next (tbl.get L) false)) L :=
        lr.set_choice 0 (by omega) p1 _ hp1
      have hlow : (lc.low.getD posState.toNat default).probTree.bits = 3#8 ∧
          TreeRel (lc.low.getD posState.toNat default).probTree.probs (tbl.upd L (pm.next (tbl.get L) false))
            (L + 2 + posState.toNat * 8) 8 := lr1.low posState.toNat hps
      obtain ⟨hb, tr⟩ := hlow
      have ht := tree_enc fuel _ g1 _ Lim l _ (L + 2 + posState.toNat * 8) 3 rel1 rest1 htbl1 (by omega) (by omega)
        (by rw [hb]; rfl) tr (by omega) hL (by omega)
      simp only [hg, Go.Res.bind_ok, nil_bne, Bool.false_eq_true, if_false, hlsz]
      rcases hp : encPathL Lim (tbl.upd L (pm.next (tbl.get L) false)) (e.step ⟨some (tbl.get L), false⟩)
        (treeEnc (L + 2 + posState.toNat * 8) 3 l.toNat) with _ | ⟨tbl2, e2⟩
      · rw [hp] at ht
        obtain ⟨tc', g', hg'⟩ := ht
        simp only [hg', Go.Res.bind_ok]
        exact ⟨_, _, rfl⟩
      · rw [hp] at ht
        obtain ⟨tc', g', hg', rel2, rest2, htbl2, hcl2, hb2, tr2, ag⟩ := ht
        simp only [hg', Go.Res.bind_ok]
        exact ⟨_, _, rfl, rel2, rest2, htbl2, by omega, lr1.set_low _ hps tc' tbl2 ag (by rw [hb2, hb]) tr2⟩
  · have hu8 : BitVec.ult l 8#32 = false := by
      simp only [BitVec.ult, BitVec.toNat_ofNat, decide_eq_false_iff_not]; omega
    simp only [hu8, Bool.false_eq_true, if_false]
    have hs := choice_step fuel (lc.choice.getD 0 0#16) g e Lim 1#32 tbl L rel rest htbl lr.c0
      (by omega) hL (by omega)
    rw [lsb1] at hs
    have hpath : ∃ π, lenEnc L posState.toNat l.toNat = (.adaptive L, true) :: π ∧
        π = if l.toNat < 16 then (.adaptive (L + 1), false) :: treeEnc (L + 130 + posState.toNat * 8) 3 (l.toNat - 8)
            else (.adaptive (L + 1), true) :: treeEnc (L + 258) 8 (l.toNat - 16) := by
      unfold lenEnc; rw [if_neg h8]
      by_cases h16 : l.toNat < 16
      · rw [if_pos h16, if_pos h16]; exact ⟨_, rfl, rfl⟩
      · rw [if_neg h16, if_neg h16]; exact ⟨_, rfl, rfl⟩
    obtain ⟨π, hpath, hπ⟩ := hpath
    rw [hpath]
    simp only [encPathL]
    by_cases hc : (e.step ⟨some (tbl.get L), true⟩).out.length > e.out.length ∧ noRoom e Lim
    · rw [if_pos hc] at hs ⊢
      obtain ⟨g1, p1, hg⟩ := hs
      simp only [hg, Go.Res.bind_ok, errLimit_bne, if_true]
      exact ⟨_, _, rfl⟩
    · rw [if_neg hc] at hs ⊢
      obtain ⟨g1, p1, hg, rel1, rest1, hcl1, htbl1, hp1⟩ := hs
      have lr1 : LenRel { lc with choice := lc.choice.setIfInBounds 0 p1 } (tbl.upd L (pm.next (tbl.get L) true)) L :=
        lr.set_choice 0 (by omega) p1 _ hp1
      have hc1 : ((lc.choice.setIfInBounds 0 p1).getD 1 0#16).toNat
          = (tbl.upd L (pm.next (tbl.get L) true)).get (L + 1) := lr1.c1
      simp only [hg, Go.Res.bind_ok, nil_bne, Bool.false_eq_true, if_false, Array.size_setIfInBounds, hcs1]
      generalize htbl1' : tbl.upd L (pm.next (tbl.get L) true) = tbl1 at *
      generalize he1 : e.step ⟨some (tbl.get L), true⟩ = e1 at *
      by_cases h16 : l.toNat < 16
      · have hu16 : BitVec.ult l 16#32 = true := by
          simp only [BitVec.ult, BitVec.toNat_ofNat, decide_eq_true_eq]; omega
        rw [if_pos h16] at hπ
        subst hπ
        simp only [encPathL, hu16, if_true]
        have hs := choice_step fuel _ g1 e1 Lim 0#32 tbl1 (L + 1) rel1 rest1 htbl1 hc1 (by omega) hL (by omega)
        rw [lsb0] at hs
        by_cases hc' : (e1.step ⟨some (tbl1.get (L + 1)), false⟩).out.length > e1.out.length ∧ noRoom e1 Lim
        · rw [if_pos hc'] at hs ⊢
          obtain ⟨g2, p2, hg2⟩ := hs
          simp only [hg2, Go.Res.bind_ok, errLimit_bne, if_true]
          exact ⟨_, _, rfl⟩
        · rw [if_neg hc'] at hs ⊢
          obtain ⟨g2, p2, hg2, rel2, rest2, hcl2, htbl2, hp2⟩ := hs
          have lr2 : LenRel { lc with choice := (lc.choice.setIfInBounds 0 p1).setIfInBounds 1 p2 }
              (tbl1.upd (L + 1) (pm.next (tbl1.get (L + 1)) false)) L := lr1.set_choice 1 (by omega) p2 _ hp2
          have hmid : (lc.mid.getD posState.toNat default).probTree.bits = 3#8 ∧
              TreeRel (lc.mid.getD posState.toNat default).probTree.probs
                (tbl1.upd (L + 1) (pm.next (tbl1.get (L + 1)) false))
                (L + 130 + posState.toNat * 8) 8 := lr2.mid posState.toNat hps
          obtain ⟨hb, tr⟩ := hmid
          have ht := tree_enc fuel _ g2 _ Lim (l - 8#32) _ (L + 130 + posState.toNat * 8) 3 rel2 rest2 htbl2
            (by omega) (by omega) (by rw [hb]; rfl) tr (by omega) hL (by omega)
          have hl8 : (l - 8#32).toNat = l.toNat - 8 := by
            simp only [BitVec.toNat_sub, BitVec.toNat_ofNat]; omega
          rw [hl8] at ht
          simp only [hg2, Go.Res.bind_ok, nil_bne, Bool.false_eq_true, if_false, hmsz]
          rcases hp : encPathL Lim (tbl1.upd (L + 1) (pm.next (tbl1.get (L + 1)) false))
            (e1.step ⟨some (tbl1.get (L + 1)), false⟩)
            (treeEnc (L + 130 + posState.toNat * 8) 3 (l.toNat - 8)) with _ | ⟨tbl3, e3⟩
          · rw [hp] at ht
            obtain ⟨tc', g', hg'⟩ := ht
            simp only [hg', Go.Res.bind_ok]
            exact ⟨_, _, rfl⟩
          · rw [hp] at ht
            obtain ⟨tc', g', hg', rel3, rest3, htbl3, hcl3, hb3, tr3, ag⟩ := ht
            simp only [hg', Go.Res.bind_ok]
            exact ⟨_, _, rfl, rel3, rest3, htbl3, by omega, lr2.set_mid _ hps tc' tbl3 ag (by rw [hb3, hb]) tr3⟩
      · have hu16 : BitVec.ult l 16#32 = false := by
          simp only [BitVec.ult, BitVec.toNat_ofNat, decide_eq_false_iff_not]; omega
        rw [if_neg h16] at hπ
        subst hπ
        simp only [encPathL, hu16, Bool.false_eq_true, if_false]
        have hs := choice_step fuel _ g1 e1 Lim 1#32 tbl1 (L + 1) rel1 rest1 htbl1 hc1 (by omega) hL (by omega)
        rw [lsb1] at hs
        by_cases hc' : (e1.step ⟨some (tbl1.get (L + 1)), true⟩).out.length > e1.out.length ∧ noRoom e1 Lim
        · rw [if_pos hc'] at hs ⊢
          obtain ⟨g2, p2, hg2⟩ := hs
          simp only [hg2, Go.Res.bind_ok, errLimit_bne, if_true]
          exact ⟨_, _, rfl⟩
        · rw [if_neg hc'] at hs ⊢
          obtain ⟨g2, p2, hg2, rel2, rest2, hcl2, htbl2, hp2⟩ := hs
          have lr2 : LenRel { lc with choice := (lc.choice.setIfInBounds 0 p1).setIfInBounds 1 p2 }
              (tbl1.upd (L + 1) (pm.next (tbl1.get (L + 1)) true)) L := lr1.set_choice 1 (by omega) p2 _ hp2
          have hb : lc.high.probTree.bits = 8#8 := lr2.hbits
          have tr : TreeRel lc.high.probTree.probs (tbl1.upd (L + 1) (pm.next (tbl1.get (L + 1)) true))
              (L + 258) 256 := lr2.high
          have ht := tree_enc fuel lc.high g2 _ Lim (l - 16#32) _ (L + 258) 8 rel2 rest2 htbl2
            (by omega) (by omega) (by rw [hb]; rfl) tr (by omega) hL (by omega)
          have hl16 : (l - 16#32).toNat = l.toNat - 16 := by
            simp only [BitVec.toNat_sub, BitVec.toNat_ofNat]; omega
          rw [hl16] at ht
          simp only [hg2, Go.Res.bind_ok, nil_bne, Bool.false_eq_true, if_false]
          rcases hp : encPathL Lim (tbl1.upd (L + 1) (pm.next (tbl1.get (L + 1)) true))
            (e1.step ⟨some (tbl1.get (L + 1)), true⟩)
            (treeEnc (L + 258) 8 (l.toNat - 16)) with _ | ⟨tbl3, e3⟩
          · rw [hp] at ht
            obtain ⟨tc', g', hg'⟩ := ht
            simp only [hg', Go.Res.bind_ok, errLimit_bne, if_true]
            exact ⟨_, _, rfl⟩
          · rw [hp] at ht
            obtain ⟨tc', g', hg', rel3, rest3, htbl3, hcl3, hb3, tr3, ag⟩ := ht
            simp only [hg', Go.Res.bind_ok, nil_bne, Bool.false_eq_true, if_false]
            exact ⟨_, _, rfl, rel3, rest3, htbl3, by omega, lr2.set_high tc' tbl3 ag (by rw [hb3, hb]) tr3⟩

/-- a length above 271 (= maxMatchLen − minMatchLen) is refused before anything is encoded -/
theorem lengthCodec_Encode_refuses (fuel : Nat) (lc : T_lengthCodec) (g : T_rangeEncoder) (l posState : BitVec 32)
    (hl : 271 < l.toNat) :
    lengthCodec_Encode fuel lc g l posState
      = Go.Res.ok (Go.Err.new "lengthCodec.Encode: l out of range", lc, g) := by
  have hult : BitVec.ult 271#32 l = true := by
    simp only [BitVec.ult, BitVec.toNat_ofNat, decide_eq_true_eq]; omega
  unfold lengthCodec_Encode
  simp only [hult, if_true]

/-! ### decoder -/

theorem eof_bne : (Go.Err.named "io.EOF" != Go.Err.nil) = true := by decide

/-- one choice bit decoded with a probability `p` that is the table entry `a` -/
theorem choice_dec (p : BitVec 16) (g : T_rangeDecoder) (d : Rc.Dec) (tbl : Tbl) (a : Nat)
    (rel : DecRel g d) (inv : DecInv d) (htbl : tbl.ok) (hp : p.toNat = tbl.get a) :
    match d.step (some (tbl.get a)) with
    | none => ∃ b p' g', prob_Decode p g = (b, Go.Err.named "io.EOF", p', g')
    | some (bit, d') =>
        ∃ p' g', prob_Decode p g = (BitVec.ofNat 32 (bitOf bit), Go.Err.nil, p', g')
          ∧ DecRel g' d' ∧ DecInv d' ∧ (tbl.upd a (pm.next (tbl.get a) bit)).ok
          ∧ p'.toNat = pm.next (tbl.get a) bit := by
  have key := DecodeBit_refines g d p rel inv (by rw [hp]; exact htbl _)
  rw [hp] at key
  unfold prob_Decode
  cases hs : d.step (some (tbl.get a)) with
  | none =>
    rw [hs] at key
    obtain ⟨b, g', p', hg⟩ := key
    exact ⟨b, p', g', by rw [hg]⟩
  | some bd =>
    obtain ⟨bit, d1⟩ := bd
    rw [hs] at key
    obtain ⟨g', hg, rel', inv'⟩ := key
    have hnext : POk (probNext (tbl.get a) bit) := pm.ok _ _ (htbl _)
    refine ⟨_, g', by rw [hg], rel', inv', Tbl.upd_ok _ htbl _ _ hnext, ?_⟩
    simp only [BitVec.toNat_ofNat]
    have := hnext.2
    show _ % 2 ^ 16 = probNext _ _
    omega

/-- a tree of the length codec: `treeCodec_Decode_refines` with the frame -/
theorem tree_dec (fuel : Nat) (tc : T_treeCodec) (g : T_rangeDecoder) (d : Rc.Dec)
    (tbl : Tbl) (base bits : Nat)
    (rel : DecRel g d) (inv : DecInv d) (htbl : tbl.ok) (hb1 : 1 ≤ bits) (hb2 : bits ≤ 31)
    (hbits : tc.probTree.bits.toNat = bits) (tr : TreeRel tc.probTree.probs tbl base (2 ^ bits))
    (hfuel : 40 ≤ fuel) :
    match decTree pm (treeDec base bits) tbl d with
    | none => ∃ v tc' g', treeCodec_Decode fuel tc g = Go.Res.ok (v, Go.Err.named "io.EOF", tc', g')
    | some (v, tbl', d') =>
      ∃ tc' g', treeCodec_Decode fuel tc g = Go.Res.ok (BitVec.ofNat 32 v, Go.Err.nil, tc', g')
        ∧ DecRel g' d' ∧ DecInv d' ∧ tbl'.ok ∧ v < 2 ^ bits
        ∧ tc'.probTree.bits = tc.probTree.bits ∧ TreeRel tc'.probTree.probs tbl' base (2 ^ bits)
        ∧ Agree tbl tbl' base (base + 2 ^ bits) := by
  have h := treeCodec_Decode_refines fuel tc g d tbl base bits rel inv htbl hb1 hb2 hbits tr hfuel
  cases hp : decTree pm (treeDec base bits) tbl d with
  | none => rw [hp] at h; exact h
  | some r =>
    obtain ⟨v, tbl', d'⟩ := r
    rw [hp] at h
    obtain ⟨tc', g', h1, h2, h3, h4, h5, h6, h7⟩ := h
    exact ⟨tc', g', h1, h2, h3, h4, h5, h6, h7, treeDec_frame _ _ _ _ _ _ _ hp⟩

theorem bit0_beq : (BitVec.ofNat 32 (bitOf false) == 0#32) = true := by decide
theorem bit1_beq : (BitVec.ofNat 32 (bitOf true) == 0#32) = false := by decide

theorem lengthCodec_Decode_refines (fuel : Nat) (lc : T_lengthCodec) (g : T_rangeDecoder) (d : Rc.Dec)
    (posState : BitVec 32) (tbl : Tbl) (L : Nat)
    (rel : DecRel g d) (inv : DecInv d) (htbl : tbl.ok) (lr : LenRel lc tbl L)
    (hps : posState.toNat < 16) (hfuel : 60 ≤ fuel) :
    match decTree pm (lenDec L posState.toNat) tbl d with
    | none => ∃ v lc' g', lengthCodec_Decode fuel lc g posState = Go.Res.ok (v, Go.Err.named "io.EOF", lc', g')
    | some (v, tbl', d') =>
      ∃ lc' g', lengthCodec_Decode fuel lc g posState = Go.Res.ok (BitVec.ofNat 32 v, Go.Err.nil, lc', g')
        ∧ DecRel g' d' ∧ DecInv d' ∧ tbl'.ok ∧ v ≤ 271 ∧ LenRel lc' tbl' L := by
  have hcs : ¬ lc.choice.size ≤ 0 := by rw [lr.csize]; omega
  have hcs1 : ¬ lc.choice.size ≤ 1 := by rw [lr.csize]; omega
  have hlsz : ¬ lc.low.size ≤ posState.toNat := by rw [lr.lsize]; omega
  have hmsz : ¬ lc.mid.size ≤ posState.toNat := by rw [lr.msize]; omega
  have key0 := choice_dec (lc.choice.getD 0 0#16) g d tbl L rel inv htbl lr.c0
  unfold lengthCodec_Decode lenDec
  simp only [decTree, toInt0, toInt1, toInt0', toInt1', false_or, hcs, if_false]
  cases hs : d.step (some (tbl.get L)) with
  | none =>
    rw [hs] at key0
    obtain ⟨b, p', g', hg⟩ := key0
    simp only [hg, eof_bne, if_true]
    exact ⟨_, _, _, rfl⟩
  | some bd =>
    obtain ⟨bit, d1⟩ := bd
    rw [hs] at key0
    obtain ⟨p1, g1, hg, rel1, inv1, htbl1, hp1⟩ := key0
    have lr1 : LenRel { lc with choice := lc.choice.setIfInBounds 0 p1 } (tbl.upd L (pm.next (tbl.get L) bit)) L :=
      lr.set_choice 0 (by omega) p1 _ hp1
    simp only [hg, nil_bne, Bool.false_eq_true, if_false]
    generalize htbl1' : tbl.upd L (pm.next (tbl.get L) bit) = tbl1 at *
    cases bit with
    | false =>
      simp only [bit0_beq, if_true, Bool.not_false, hlsz, if_false]
      have hlow : (lc.low.getD posState.toNat default).probTree.bits = 3#8 ∧
          TreeRel (lc.low.getD posState.toNat default).probTree.probs tbl1
            (L + 2 + posState.toNat * 8) 8 := lr1.low posState.toNat hps
      obtain ⟨hb, tr⟩ := hlow
      have ht := tree_dec fuel _ g1 d1 tbl1 (L + 2 + posState.toNat * 8) 3 rel1 inv1 htbl1 (by omega) (by omega)
        (by rw [hb]; rfl) tr (by omega)
      cases hp : decTree pm (treeDec (L + 2 + posState.toNat * 8) 3) tbl1 d1 with
      | none =>
        rw [hp] at ht
        obtain ⟨v, tc', g', hg'⟩ := ht
        simp only [hg', Go.Res.bind_ok]
        exact ⟨_, _, _, rfl⟩
      | some r =>
        obtain ⟨v, tbl2, d2⟩ := r
        rw [hp] at ht
        obtain ⟨tc', g', hg', rel2, inv2, htbl2, hv, hb2, tr2, ag⟩ := ht
        simp only [hg', Go.Res.bind_ok]
        exact ⟨_, _, rfl, rel2, inv2, htbl2, by omega, lr1.set_low _ hps tc' tbl2 ag (by rw [hb2, hb]) tr2⟩
    | true =>
      have hc1 : ((lc.choice.setIfInBounds 0 p1).getD 1 0#16).toNat = tbl1.get (L + 1) := lr1.c1
      have key1 := choice_dec _ g1 d1 tbl1 (L + 1) rel1 inv1 htbl1 hc1
      simp only [bit1_beq, Bool.false_eq_true, if_false, Bool.not_true, decTree, Array.size_setIfInBounds, hcs1]
      cases hs1 : d1.step (some (tbl1.get (L + 1))) with
      | none =>
        rw [hs1] at key1
        obtain ⟨b, p', g', hg'⟩ := key1
        simp only [hg', eof_bne, if_true]
        exact ⟨_, _, _, rfl⟩
      | some bd =>
        obtain ⟨bit1, d2⟩ := bd
        rw [hs1] at key1
        obtain ⟨p2, g2, hg2, rel2, inv2, htbl2, hp2⟩ := key1
        have lr2 : LenRel { lc with choice := (lc.choice.setIfInBounds 0 p1).setIfInBounds 1 p2 }
            (tbl1.upd (L + 1) (pm.next (tbl1.get (L + 1)) bit1)) L := lr1.set_choice 1 (by omega) p2 _ hp2
        simp only [hg2, nil_bne, Bool.false_eq_true, if_false]
        generalize htbl2' : tbl1.upd (L + 1) (pm.next (tbl1.get (L + 1)) bit1) = tbl2 at *
        cases bit1 with
        | false =>
          simp only [bit0_beq, if_true, Bool.not_false, hmsz, if_false]
          have hmid : (lc.mid.getD posState.toNat default).probTree.bits = 3#8 ∧
              TreeRel (lc.mid.getD posState.toNat default).probTree.probs tbl2
                (L + 130 + posState.toNat * 8) 8 := lr2.mid posState.toNat hps
          obtain ⟨hb, tr⟩ := hmid
          have ht := tree_dec fuel _ g2 d2 tbl2 (L + 130 + posState.toNat * 8) 3 rel2 inv2 htbl2 (by omega) (by omega)
            (by rw [hb]; rfl) tr (by omega)
          unfold DecTree.map
          rw [decTree_bind]
          cases hp : decTree pm (treeDec (L + 130 + posState.toNat * 8) 3) tbl2 d2 with
          | none =>
            rw [hp] at ht
            obtain ⟨v, tc', g', hg'⟩ := ht
            simp only [hg', Go.Res.bind_ok]
            exact ⟨_, _, _, rfl⟩
          | some r =>
            obtain ⟨v, tbl3, d3⟩ := r
            rw [hp] at ht
            obtain ⟨tc', g', hg', rel3, inv3, htbl3, hv, hb3, tr3, ag⟩ := ht
            simp only [hg', Go.Res.bind_ok, decTree]
            refine ⟨_, _, ?_, rel3, inv3, htbl3, by omega, lr2.set_mid _ hps tc' tbl3 ag (by rw [hb3, hb]) tr3⟩
            rw [← BitVec.ofNat_add]
        | true =>
          simp only [bit1_beq, Bool.false_eq_true, if_false, Bool.not_true]
          have hb : lc.high.probTree.bits = 8#8 := lr2.hbits
          have tr : TreeRel lc.high.probTree.probs tbl2 (L + 258) 256 := lr2.high
          have ht := tree_dec fuel lc.high g2 d2 tbl2 (L + 258) 8 rel2 inv2 htbl2 (by omega) (by omega)
            (by rw [hb]; rfl) tr (by omega)
          unfold DecTree.map
          rw [decTree_bind]
          cases hp : decTree pm (treeDec (L + 258) 8) tbl2 d2 with
          | none =>
            rw [hp] at ht
            obtain ⟨v, tc', g', hg'⟩ := ht
            simp only [hg', Go.Res.bind_ok]
            exact ⟨_, _, _, rfl⟩
          | some r =>
            obtain ⟨v, tbl3, d3⟩ := r
            rw [hp] at ht
            obtain ⟨tc', g', hg', rel3, inv3, htbl3, hv, hb3, tr3, ag⟩ := ht
            simp only [hg', Go.Res.bind_ok, decTree]
            refine ⟨_, _, ?_, rel3, inv3, htbl3, by omega, lr2.set_high tc' tbl3 ag (by rw [hb3, hb]) tr3⟩
            rw [← BitVec.ofNat_add]

end GoSrcP
