import XzVerif.Proofs.RunKInv
import Mathlib.Tactic.IntervalCases
import XzVerif.Proofs.RunHFlush

/-!
  Generic version of Proofs/RunFlush.lean (any match finder with an `OpStepK`, irregular operations counted in
  bits): `encoder.Close`, `flushChunk`, `Writer2.Write`, the final `Flush`, and the byte count.
-/

set_option linter.unusedSimpArgs false
set_option linter.unusedVariables false
set_option maxRecDepth 8000

namespace RunCost
open Lzma Rc W2 Lzma2 Spec

variable {σ : Type}

/-! ### `encoder.Close` -/

theorem encClose_k (c : Cfg) (hc : CfgOk c) (hd : 65536 ≤ c.dictCap) (b : UInt8) (M : Matcher σ)
    (I : σ → ByteArray → ByteArray → Prop) (hMIo : MatcherInv c M I) (dbt : Lzma.St → Nat → Nat)
    (hdb : ∀ s hs, dbt s hs ≤ 504) (hstep : OpStepK c b M I dbt) (w : WSt σ)
    (hi : InvI c I w) (hb : RunA b w) (hloc : ∃ X E, LocK c dbt w X E 0) (hw : 0 < w.written) :
    ∃ w', W2.encClose c M w = .ok (closeSt w') ∧ InvI c I w' ∧ Frame w w' ByteArray.empty ∧
      w'.look.size = 0 ∧ RunA b w' ∧ (∃ X E, LocK c dbt w' X E 504) ∧ 0 < w'.compressed := by
  have hMI := matcherInv' hMIo
  have hc' := cfgOk' hc
  have hcs := compress_spec c hc' M I hMI true (w.look.size + 1) w hi (by omega)
  have hcr := compress_k c hc hd b M I hMIo dbt hdb hstep true (w.look.size + 1) w hi hb hloc (by omega)
  unfold W2.encClose
  simp only []
  cases hr : compress c M true (w.look.size + 1) w with
  | ok w' =>
    rw [hr] at hcs hcr
    obtain ⟨a1, a2, a3⟩ := hcs
    obtain ⟨b1, b2⟩ := hcr
    have hl0 : w'.look.size = 0 := by
      unfold thr at a3; simp only [if_true] at a3; omega
    have hwr := a2.written hi.start
    have hpos : 0 < w'.compressed := by
      rw [ByteArray.size_empty] at hwr
      unfold WSt.written at hwr hw
      omega
    have hlim := a1.lim hmargin
    rw [digits_eq w' a1.eout] at hlim
    exact ⟨w', fin_eq w' hlim, a1, a2, hl0, b1, by simpa using b2, hpos⟩
  | limit w' => rw [hr] at hcr; exact absurd hcr id
  | broken w' => rw [hr] at hcr; exact absurd hcr id
  | bad w' s => rw [hr] at hcr; exact absurd hcr id

/-! ### `flushChunk` -/

/-- one `flushChunk` with pending data inside a run: everything is consumed, the accounting moves to the closed
    chunks; either the chunk is stored compressed and the invariant continues, or it is stored raw, which
    happens for tiny chunks only -/
theorem flushChunk_k (c : Cfg) (hc : CfgOk c) (hd : 65536 ≤ c.dictCap) (b : UInt8) (M : Matcher σ)
    (I : σ → ByteArray → ByteArray → Prop) (hMIo : MatcherInv c M I) (dbt : Lzma.St → Nat → Nat)
    (hdb : ∀ s hs, dbt s hs ≤ 504) (hstep : OpStepK c b M I dbt) (D : Nat) (w w'' : WSt σ)
    (hi : InvI c I w) (hb : RunA b w) {P X0 Y0 m F : Nat} (hg : GlobK c dbt D w P X0 Y0 m F)
    (hloc : ∃ X E, LocK c dbt w X E 0) (hw : 0 < w.written) (hfc : flushChunk c M w = .ok w'') :
    w''.look.size = 0 ∧ w''.start = w''.hist.size ∧ w''.hist.size = w.hist.size + w.look.size ∧
    (∃ P' X' Y', FinK c D w'' P' X' Y' (m + 1) (F + Gen.lzma_maxUncompressed) 378) ∧
    ((RunA b w'' ∧ (∃ P' X0' Y0', GlobK c dbt D w'' P' X0' Y0' (m + 1) (F + (Gen.lzma_maxUncompressed - w.written))) ∧
        LocK c dbt w'' 0 0 0) ∨ w.written ≤ 65536) := by
  have hw0 : ¬ w.written = 0 := by omega
  obtain ⟨w', h1, hi'I, hf, hl0, hb', ⟨X, Y, hloc'⟩, hpos⟩ := encClose_k c hc hd b M I hMIo dbt hdb hstep w hi hb hloc hw
  have hi' := hi'I.toInv
  have hg' := hg.frame hf
  have hsz := closeSt_body_size w' hi'.erest.toInv hi'.eout
  have hdig := digits_eq w' hi'.eout
  have hlim := hi'.lim hmargin
  have hwr := hf.written hi.start
  rw [ByteArray.size_empty] at hwr
  have hsizes := hf.sizes
  rw [ByteArray.size_empty] at hsizes
  have hs' := hi'.start
  have hpos1 : 0 < (closeSt w').compressed := hpos
  have hs1 : (closeSt w').start ≤ (closeSt w').hist.size := hi'.start
  have hraw := raw_size w' hi'.start
  have hD1 : 1 ≤ w'.digits := by
    have := hi'.erest.cl
    unfold WSt.digits; omega
  have hr : w'.e.range ≤ Enc.init.range := by
    have := hi'.erest.rhi
    rw [init_range]; omega
  have hRpos : 0 < Enc.init.range := by rw [init_range]; decide
  have hcomb := gi_combH P (S2 w'.snapTbl) X0 _ Y0 Enc.init.range (S2 w'.tbl) X w'.digits w'.e.range Y
    (S2_pos _ hi'.snapok) hRpos hr hD1 hg'.gi hloc'.li
  have hLpos : 0 < Lc c := by unfold Lc; omega
  have hdivm : w'.start / Lc c ≤ w'.hist.size / Lc c := Nat.div_le_div_right hs'
  have hcw : w'.compressed = w.written := by
    unfold WSt.written at hwr
    unfold WSt.written WSt.compressed at *
    omega
  have hhl := hl_eq (closeSt w').ctype hi'.ctype_cases
  have hmax : Gen.lzma_maxUncompressed = 2097152 := rfl
  have hmaxc : Gen.lzma_maxCompressed = 65536 := rfl
  -- the weak accounting, for any sink growth of at most `digits + 10`
  have hfin : ∀ w3 : WSt σ, w3.hist = w'.hist → w3.out.size ≤ w'.out.size + (w'.digits - 1) + 11 →
      FinK c D w3 (P + (w'.digits - 1)) (X0 + X) (Y0 + Y) (m + 1) (F + Gen.lzma_maxUncompressed) 378 := by
    intro w3 e1 e2
    have hx0 := hg'.x0
    have hx := hloc'.x
    have hy0 := hg'.y0
    have hy := hloc'.yf
    have hfu := hg'.full
    have hou := hg'.out
    rw [hmax] at hfu
    refine ⟨?_, by omega, by rw [e1]; omega, by rw [e1]; omega, by rw [e1, hmax]; omega⟩
    calc 256 ^ (P + (w'.digits - 1)) * Smin * LR ^ (X0 + X)
        ≤ 256 ^ (P + (w'.digits - 1)) * S2 w'.tbl * LR ^ (X0 + X) :=
          Nat.mul_le_mul_right _ (Nat.mul_le_mul_left _ (S2_ge _ hi'.tblok))
      _ ≤ _ := hcomb
  by_cases hcond : 3 + (closeSt w').compressed < headerLenOf (closeSt w').ctype + (closeSt w').body.size ∧
      (closeSt w').compressed ≤ (closeSt w').lenE c
  · -- raw
    have h2 := writeChunk_raw c (closeSt w') hpos1 hs1 hcond
    unfold flushChunk at hfc
    rw [if_neg hw0, h1] at hfc
    simp only [h2] at hfc
    split at hfc
    · exact absurd hfc (by simp)
    · have hw'' := (Except.ok.inj hfc).symm
      subst hw''
      have hc1 : (closeSt w').compressed = w'.compressed := rfl
      have hcond1 := hcond.1
      rw [hc1, hsz] at hcond1
      refine ⟨hl0, rfl, ?_, ⟨_, _, _, hfin _ rfl ?_⟩, Or.inr ?_⟩
      · show w'.hist.size = _
        omega
      · show (w'.out ++ (ByteArray.empty.push _ ++ be16 _) ++ w'.hist.extract w'.start w'.hist.size).size ≤ _
        simp only [ByteArray.size_append, ByteArray.size_push, be16_size, ByteArray.size_empty, hraw]
        split at hhl <;> omega
      · rw [← hcw]
        split at hhl <;> omega
  · -- compressed
    have h2 := writeChunk_lz c (closeSt w') hpos1 hcond
    unfold flushChunk at hfc
    rw [if_neg hw0, h1] at hfc
    simp only [h2] at hfc
    split at hfc
    · exact absurd hfc (by simp)
    · have hw'' := (Except.ok.inj hfc).symm
      subst hw''
      have hosz : ((closeSt w').out ++ (if (decide ((closeSt w').ctype = Gen.lzma_cLRN) ||
              decide ((closeSt w').ctype = Gen.lzma_cLRND)) = true then
            ((ByteArray.empty.push (hdrByte (closeSt w').ctype + (((closeSt w').compressed - 1) / 65536) % 32).toUInt8) ++
              be16 (((closeSt w').compressed - 1) % 65536) ++ be16 (((closeSt w').body.size - 1) % 65536)).push
                (byteOfProps c.props).toUInt8
           else
            (ByteArray.empty.push (hdrByte (closeSt w').ctype + (((closeSt w').compressed - 1) / 65536) % 32).toUInt8) ++
              be16 (((closeSt w').compressed - 1) % 65536) ++ be16 (((closeSt w').body.size - 1) % 65536)) ++
            (closeSt w').body).size ≤ w'.out.size + (w'.digits - 1) + 11 := by
        rw [ByteArray.size_append, ByteArray.size_append, ite_push_size]
        simp only [ByteArray.size_append, ByteArray.size_push, be16_size, ByteArray.size_empty]
        have ho : (closeSt w').out.size = w'.out.size := rfl
        split <;> omega
      refine ⟨hl0, rfl, ?_, ⟨_, _, _, hfin _ rfl hosz⟩, Or.inl ⟨⟨hb'.hist, hb'.look⟩, ⟨P + (w'.digits - 1), X0 + X, Y0 + Y, ?_⟩, ?_⟩⟩
      · show w'.hist.size = _
        omega
      · have hx0 := hg'.x0
        have hx := hloc'.x
        have hy0 := hg'.y0
        have hy := hloc'.y
        have hfu := hg'.full
        have hou := hg'.out
        rw [hmax] at hfu
        refine ⟨hcomb, ?_, ?_, ?_, ?_⟩
        · exact Nat.le_trans hosz (by omega)
        · show (X0 + X) * 273 ≤ w'.hist.size
          omega
        · show Y0 + Y + dbt w'.s w'.hist.size ≤ 455 * (w'.hist.size / Lc c) + 504 * (m + 1) + D
          omega
        · show Gen.lzma_maxUncompressed * (m + 1) ≤ w'.hist.size + (F + (Gen.lzma_maxUncompressed - w.written))
          unfold WSt.compressed at hcw
          rw [hmax]
          omega
      · refine ⟨?_, ?_, ?_, Nat.zero_le _, hloc'.tsz⟩
        · show Enc.init.range * S2 w'.tbl * LR ^ 0 * 256 ^ (0 + ([] : List Nat).length + Enc.init.cacheLen) ≤
            Enc.init.range * S2 w'.tbl * KR ^ 0 * 2 ^ 0 * 256
          rw [init_digits]
          simp
        · show 0 * 273 ≤ w'.hist.size - w'.hist.size
          omega
        · show 0 + dbt w'.s w'.hist.size ≤ 455 * (w'.hist.size / Lc c - w'.hist.size / Lc c) + dbt w'.s w'.hist.size + 0
          omega

/-! ### `Writer2.Write` -/

/-- the complete invariant between two operations -/
structure RCK (c : Cfg) (b : UInt8) (I : σ → ByteArray → ByteArray → Prop) (dbt : Lzma.St → Nat → Nat) (D : Nat)
    (w : WSt σ) (F : Nat) : Prop where
  inv : InvI c I w
  rb : RunA b w
  ex : ∃ P X0 Y0 m X Y, GlobK c dbt D w P X0 Y0 m F ∧ LocK c dbt w X Y 0

def WriteK (c : Cfg) (b : UInt8) (I : σ → ByteArray → ByteArray → Prop) (dbt : Lzma.St → Nat → Nat) (D : Nat) :
    WSt σ × Nat × Option Err → Prop
  | (w', _, none) => RCK c b I dbt D w' 0 ∧ w'.written < Gen.lzma_maxUncompressed
  | (_, _, some _) => False

theorem write_k (c : Cfg) (hc : CfgOk c) (hd : 65536 ≤ c.dictCap) (b : UInt8) (M : Matcher σ)
    (I : σ → ByteArray → ByteArray → Prop) (hMIo : MatcherInv c M I) (dbt : Lzma.St → Nat → Nat)
    (hdb : ∀ s hs, dbt s hs ≤ 504) (hstep : OpStepK c b M I dbt) (D : Nat) (p : ByteArray)
    (hp : AllB b p) :
    ∀ (fuel : Nat) (w : WSt σ) (n : Nat), RCK c b I dbt D w 0 → w.written < Gen.lzma_maxUncompressed → n ≤ p.size →
      2 * (p.size - n) + w.written + 1 ≤ fuel → WriteK c b I dbt D (write c M p fuel w n) := by
  have hMI := matcherInv' hMIo
  have hc' := cfgOk' hc
  intro fuel
  induction fuel with
  | zero => intro w n _ _ _ h; omega
  | succ fuel ih =>
    intro w n hrc hwr hn hf
    obtain ⟨hi, hb, P, X0, Y0, m0, X, Y, hg, hloc⟩ := hrc
    unfold write
    by_cases hlt : n < p.size
    · rw [if_pos hlt]
      simp only []
      generalize hm : Gen.lzma_maxUncompressed - w.written = m
      rw [if_neg (by omega)]
      generalize hq : p.extract n (if n + m < p.size then n + m else p.size) = q
      have hqs : q.size = min m (p.size - n) := by
        rw [← hq, ByteArray.size_extract]
        split <;> omega
      have hqb : ∀ i, i < q.size → q.get! i = b := by
        intro i hi2
        rw [← hq, Ring.get!_extract p n _ i (by split <;> omega) (by rw [hqs] at hi2; split <;> omega)]
        exact hp _ (by rw [hqs] at hi2; omega)
      have hew := encWrite_spec c hc' M I hMI q (q.size + 2) w 0 hi (Nat.zero_le _) (by omega)
        (by split <;> omega)
      have her := encWrite_k c hc hd b M I hMIo dbt hdb hstep q hqb (q.size + 2) w 0 hi hb ⟨X, Y, hloc⟩ (Nat.zero_le _) (by omega)
        (by split <;> omega)
      rcases hr : encWrite c M q (q.size + 2) w 0 with ⟨res, k⟩
      rw [hr] at hew her
      cases res with
      | bad w' s => exact absurd hew id
      | broken w' => exact absurd her id
      | limit w' => exact absurd her id
      | ok w' =>
        obtain ⟨a1, a2, a3⟩ := hew
        obtain ⟨b1, X', Y', b2⟩ := her
        simp only []
        have hw' := a2.written hi.start
        rw [ByteArray.size_extract] at hw'
        have hg' := hg.frame a2
        by_cases hkm : k = m
        · rw [if_pos hkm]
          have hfl := flushChunk_spec c hc' M I hMI w' a1
          cases hfc : flushChunk c M w' with
          | error e =>
            rw [hfc] at hfl
            exact absurd hmargin hfl.2
          | ok w'' =>
            rw [hfc] at hfl
            obtain ⟨c1, c2, c3, c4⟩ := hfl
            simp only []
            have hpos : 0 < w'.written := by omega
            have := c4 hpos
            obtain ⟨d1, _, d2, _, d4⟩ := flushChunk_k c hc hd b M I hMIo dbt hdb hstep D w' w'' a1 b1 hg' ⟨X', Y', b2⟩ hpos hfc
            have hmax : Gen.lzma_maxUncompressed = 2097152 := rfl
            rcases d4 with ⟨e1, ⟨P', X0', Y0', e2⟩, e3⟩ | e4
            · have hF : 0 + (Gen.lzma_maxUncompressed - w'.written) = 0 := by omega
              rw [hF] at e2
              exact ih w'' (n + k) ⟨c1, e1, P', X0', Y0', m0 + 1, 0, 0, e2, e3⟩ (by omega) (by omega) (by omega)
            · omega
        · rw [if_neg hkm]
          exact ih w' (n + k) ⟨a1, b1, P, X0, Y0, m0, X', Y', hg', b2⟩ (by omega) (by omega) (by omega)
    · rw [if_neg hlt]
      exact ⟨⟨hi, hb, P, X0, Y0, m0, X, Y, hg, hloc⟩, hwr⟩

/-! ### the final `Flush` of `Close` -/


theorem flushLoop_k (c : Cfg) (hc : CfgOk c) (hd : 65536 ≤ c.dictCap) (b : UInt8) (M : Matcher σ)
    (I : σ → ByteArray → ByteArray → Prop) (hMIo : MatcherInv c M I) (dbt : Lzma.St → Nat → Nat)
    (hdb : ∀ s hs, dbt s hs ≤ 504) (hstep : OpStepK c b M I dbt) (D : Nat) (w : WSt σ)
    (hrc : RCK c b I dbt D w 0) :
    ∃ w', flushLoop c M (w.written + 1) w = .ok w' ∧ w'.hist.size = w.hist.size + w.look.size ∧
      ∃ P X Y m F J, FinK c D w' P X Y m F J ∧
        ((F = Gen.lzma_maxUncompressed ∧ J = 378) ∨ (F = 0 ∧ J = 0)) := by
  have hMI := matcherInv' hMIo
  have hc' := cfgOk' hc
  obtain ⟨hi, hb, P, X0, Y0, m0, X, Y, hg, hloc⟩ := hrc
  unfold flushLoop
  by_cases hw : w.written > 0
  · rw [if_pos hw]
    have hfl := flushChunk_spec c hc' M I hMI w hi
    cases hfc : flushChunk c M w with
    | error e =>
      rw [hfc] at hfl
      exact absurd hmargin hfl.2
    | ok w'' =>
      rw [hfc] at hfl
      obtain ⟨c1, c2, c3, c4⟩ := hfl
      simp only []
      obtain ⟨d1, d0, d2, ⟨P', X', Y', d3⟩, _⟩ := flushChunk_k c hc hd b M I hMIo dbt hdb hstep D w w'' hi hb hg ⟨X, Y, hloc⟩ hw hfc
      have hs'' := c1.start
      have hw0 : w''.written = 0 := by
        unfold WSt.written WSt.compressed
        omega
      have hstop : flushLoop c M w.written w'' = .ok w'' := by
        cases hwn : w.written with
        | zero => omega
        | succ f =>
          unfold flushLoop
          rw [if_neg (by omega)]
      rw [hstop]
      exact ⟨w'', rfl, d2, P', X', Y', m0 + 1, _, _, d3, Or.inl ⟨by omega, rfl⟩⟩
  · rw [if_neg hw]
    refine ⟨w, rfl, ?_, P, X0, Y0, m0, _, _, hg.fin hi.toInv, Or.inr ⟨rfl, rfl⟩⟩
    unfold WSt.written at hw
    omega

/-! ### the byte count -/

theorem fin_boundK (c : Cfg) (hc : CfgOk c) (hd : 65536 ≤ c.dictCap) (D : Nat) (hD : D ≤ 504) (w : WSt σ)
    {P X E m F J : Nat}
    (h : FinK c D w P X E m F J) (hFJ : (F = Gen.lzma_maxUncompressed ∧ J = 378) ∨ (F = 0 ∧ J = 0)) :
    (D ≤ 259 → w.out.size + 1 ≤ w.hist.size / 500 + 97) ∧ (D ≤ 413 → w.out.size + 1 ≤ w.hist.size / 500 + 117) := by
  have hS0 := S2_init c.props.lc c.props.lp
  have hgi : Smin * LR ^ X * 256 ^ P ≤ S2 (initTable c.props.lc c.props.lp) * KR ^ X * 2 ^ E := by
    calc Smin * LR ^ X * 256 ^ P = 256 ^ P * Smin * LR ^ X := by ring
      _ ≤ _ := h.gi
  have hlog := core_log2 Smin _ X E P SinitB2 (Nat.le_refl _) hS0 hgi
  have hB : SinitB2 = 299 := rfl
  have hx := h.x
  have hy := h.y
  have hfu := h.full
  have hout := h.out
  have hmax : Gen.lzma_maxUncompressed = 2097152 := rfl
  rw [hmax] at hfu hFJ
  have hbuf : 273 ≤ c.bufSize := hc.2.2.2.2
  have hL : w.hist.size / Lc c ≤ w.hist.size / 65810 :=
    Nat.div_le_div_left (by unfold Lc; omega) (by omega)
  generalize w.hist.size / Lc c = wr at *
  by_cases hsmall : w.hist.size < 20020
  · have hX : X ≤ 73 := by omega
    have hwr : wr = 0 := by omega
    have hm : m ≤ 1 := by omega
    subst hwr
    constructor
    · intro hD1
      interval_cases X <;> omega
    · intro hD2
      interval_cases X <;> omega
  · constructor
    · intro hD1
      omega
    · intro hD2
      omega

end RunCost
