import XzVerif.Model.Writer1
import XzVerif.Proofs.Writer2
import XzVerif.Proofs.Lzma1RoundTrip

/-!
  The invariant of reachable states of the classic writer model (Model/Writer1.lean) and its preservation by
  `encodeOp`, `compress`, `encWrite`, `write`; `close` produces `Lzma1.encode` of the recorded operations.
-/

set_option linter.unusedSimpArgs false
set_option linter.unusedVariables false

namespace W1
open Lzma Rc Lzma2 W2

variable {σ : Type}

/-- what the encoder lemmas need of the configuration -/
def CfgOk1 (c : Cfg) : Prop :=
  1 ≤ c.dictCap ∧ c.dictCap ≤ Gen.lzma_MaxDictCap ∧ Gen.lzma_maxMatchLen ≤ c.bufSize

/-- the history capacity `Lzma1.encode` works with -/
def capK (c : Cfg) : Nat := max c.dictCap Lzma1.minDictCap

/-- the history at the read position -/
def HK (c : Cfg) (w : St σ) : Hist := ⟨w.hist, 0, capK c⟩

/-- the initial history (`Lzma1.encHist c.header`) -/
def HK0 (c : Cfg) : Hist := ⟨ByteArray.empty, 0, capK c⟩

theorem HK0_eq (c : Cfg) : HK0 c = Lzma1.encHist c.header := rfl

/-- a Writer2 configuration with the same dictionary and harmless properties: the operation-level lemmas of
    Proofs/Writer2Lemmas.lean only look at the dictionary capacity -/
def cfg2 (c : Cfg) : W2.Cfg := { props := ⟨0, 0, 0⟩, dictCap := c.dictCap, bufSize := c.bufSize }

theorem cfg2_ok (c : Cfg) (hc : CfgOk1 c) : W2.CfgOk' (cfg2 c) := by
  obtain ⟨h1, h2, h3⟩ := hc
  exact ⟨⟨Nat.zero_le _, Nat.zero_le _, Nat.zero_le _⟩, Nat.zero_le _, h1, h2, h3⟩

theorem goOpOk_cfg2 (c : Cfg) (hist look : ByteArray) (s : Lzma.St) (g : GoOp)
    (h : GoOpOk' c.w2 hist look s g) : GoOpOk' (cfg2 c) hist look s g := by
  cases g <;> exact h

structure Inv (c : Cfg) (w : St σ) : Prop where
  enc : encodeOps c.props {} (initTable c.props.lc c.props.lp) (HK0 c) w.ops.toList =
    ⟨w.s, w.tbl, w.e, w.body, HK c w⟩
  ops : OpsOk {} (HK0 c) w.ops.toList
  space : w.look.size + min w.hist.size c.dictCap ≤ c.dictCap + c.bufSize
  r0 : w.s.r0 + 1 ≤ max 1 (min w.hist.size c.dictCap)

theorem init_inv (c : Cfg) (m0 : σ) : Inv c (init c m0) := by
  refine ⟨rfl, OpsOk.nil _ _, ?_, ?_⟩
  · show ByteArray.empty.size + min ByteArray.empty.size c.dictCap ≤ _
    simp only [ByteArray.size_empty]
    omega
  · show 0 + 1 ≤ _
    omega

theorem Inv.setM {c : Cfg} {w : St σ} (hi : Inv c w) (m' : σ) : Inv c { w with m := m' } :=
  ⟨hi.enc, hi.ops, hi.space, hi.r0⟩

/-! ### the coding context -/

theorem byteAtE_eq (c : Cfg) (w : St σ) (d : Nat)
    (hspace : w.look.size + min w.hist.size c.dictCap ≤ c.dictCap + c.bufSize)
    (hd : d ≤ max 1 (min w.hist.size c.dictCap)) (hcap : 1 ≤ c.dictCap) :
    w.byteAtE c d = (HK c w).byteAt d := by
  unfold St.byteAtE Hist.byteAt
  have hiff : (0 < d ∧ d ≤ w.lenE c) ↔ (0 < d ∧ d ≤ (HK c w).dictLen) := by
    unfold St.lenE Hist.dictLen Hist.pos HK capK Lzma1.minDictCap
    simp only [Nat.sub_zero]
    omega
  by_cases h : 0 < d ∧ d ≤ w.lenE c
  · rw [if_pos h, if_pos (hiff.mp h)]
    rfl
  · rw [if_neg h, if_neg (fun h' => h (hiff.mpr h'))]

theorem ctx_eq (c : Cfg) (w : St σ) (hcap : 1 ≤ c.dictCap)
    (hspace : w.look.size + min w.hist.size c.dictCap ≤ c.dictCap + c.bufSize)
    (hr0 : w.s.r0 + 1 ≤ max 1 (min w.hist.size c.dictCap)) :
    w.ctx c = mkCtx c.props w.s (HK c w) := by
  unfold St.ctx mkCtx
  rw [byteAtE_eq c w 1 hspace (by omega) hcap, byteAtE_eq c w (w.s.r0 + 1) hspace hr0 hcap]
  simp only [Hist.pos, HK, Nat.sub_zero]

/-! ### operations against the larger capacity -/

theorem opOk_K (c : Cfg) (hc : CfgOk1 c) (hist look : ByteArray) (s : Lzma.St) (g : GoOp)
    (hg : GoOpOk' (cfg2 c) hist look s g) : OpOk ⟨hist, 0, capK c⟩ s (classify s g) := by
  have h := classify_opOk (cfg2 c) (cfg2_ok c hc) hist look s g hg
  have := Lzma1.OpOk_withCap _ s _ (capK c) (by show c.dictCap ≤ capK c; unfold capK; omega) h
  exact this

theorem applyOp_K (c : Cfg) (hc : CfgOk1 c) (hist look : ByteArray) (s : Lzma.St) (g : GoOp)
    (hg : GoOpOk' (cfg2 c) hist look s g) :
    (⟨hist, 0, capK c⟩ : Hist).applyOp (s.apply (classify s g)) (classify s g) =
      ⟨hist ++ look.extract 0 g.len, 0, capK c⟩ := by
  have h := classify_applyOp (cfg2 c) (cfg2_ok c hc) hist look s g hg
  have h2 := Lzma1.applyOp_withCap ⟨hist, 0, (cfg2 c).dictCap⟩ (s.apply (classify s g)) (classify s g) (capK c)
  rw [h] at h2
  exact h2

/-! ### one operation -/

theorem encodeOp_ok (c : Cfg) (hc : CfgOk1 c) (w : St σ) (g : GoOp) (hi : Inv c w)
    (hg : GoOpOk' (cfg2 c) w.hist w.look w.s g) :
    ∃ w', encodeOp c w g = some w' ∧ Inv c w' ∧ w'.hist ++ w'.look = w.hist ++ w.look ∧
      w'.look.size + 1 ≤ w.look.size := by
  obtain ⟨henc, hlen1, hlen2⟩ := goOp_encodable (cfg2 c) (cfg2_ok c hc) w.hist w.look w.s g hg
  have hcap : 1 ≤ c.dictCap := hc.1
  have hctx := ctx_eq c w hcap hi.space hi.r0
  have hopok := opOk_K c hc w.hist w.look w.s g hg
  have happ := applyOp_K c hc w.hist w.look w.s g hg
  have hr0 := classify_r0 (cfg2 c) w.hist w.look w.s g hg hcap hi.r0
  have hhs : (w.hist ++ w.look.extract 0 g.len).size = w.hist.size + g.len := by
    rw [ByteArray.size_append, ByteArray.size_extract]; omega
  have hls : (w.look.extract g.len w.look.size).size = w.look.size - g.len := by
    rw [ByteArray.size_extract]; omega
  have hsh := encodeOps_sh c.props {} (initTable c.props.lc c.props.lp) (HK0 c) w.ops.toList
  rw [hi.enc] at hsh
  unfold encodeOp
  rw [henc]
  simp only [Bool.not_true, Bool.false_eq_true, if_false, hctx]
  refine ⟨_, rfl, ⟨?_, ?_, ?_, ?_⟩, ?_, ?_⟩
  · show encodeOps c.props {} (initTable c.props.lc c.props.lp) (HK0 c) (w.ops.push (classify w.s g)).toList = _
    rw [Array.toList_push, encodeOps_snoc, hi.enc]
    show encStep c.props ⟨w.s, w.tbl, w.e, w.body, HK c w⟩ (classify w.s g) = _
    unfold encStep
    dsimp only
    rw [show (HK c w).applyOp (w.s.apply (classify w.s g)) (classify w.s g) = _ from happ]
    rfl
  · show OpsOk {} (HK0 c) (w.ops.push (classify w.s g)).toList
    rw [Array.toList_push]
    apply OpsOk_snoc _ _ _ _ hi.ops
    rw [← hsh.1, ← hsh.2]
    exact hopok
  · show (w.look.extract g.len w.look.size).size + min (w.hist ++ w.look.extract 0 g.len).size c.dictCap ≤ _
    have := hi.space
    rw [hhs, hls]; omega
  · show (w.s.apply (classify w.s g)).r0 + 1 ≤ max 1 (min (w.hist ++ w.look.extract 0 g.len).size c.dictCap)
    rw [hhs]; exact hr0
  · show (w.hist ++ w.look.extract 0 g.len) ++ w.look.extract g.len w.look.size = _
    rw [ByteArray.append_assoc, extract_split _ _ hlen2]
  · show (w.look.extract g.len w.look.size).size + 1 ≤ w.look.size
    rw [hls]; omega

/-! ### `compress` -/

theorem compress_ok (c : Cfg) (hc : CfgOk1 c) (M : Matcher σ) (hM : MatcherOk' c.w2 M) (all : Bool) :
    ∀ (fuel : Nat) (w : St σ), Inv c w → w.look.size < fuel →
      ∃ w', compress c M all fuel w = some w' ∧ Inv c w' ∧ w'.hist ++ w'.look = w.hist ++ w.look ∧
        w'.look.size ≤ thr all := by
  intro fuel
  induction fuel with
  | zero => intro w _ h; omega
  | succ fuel ih =>
    intro w hi hf
    unfold compress
    by_cases hl : w.look.size > thr all
    · have hl' : w.look.size > (if all = true then 0 else Gen.lzma_maxMatchLen - 1) := hl
      rw [if_pos hl']
      rcases hnx : M.next w.m w.hist w.look w.s with ⟨g, m'⟩
      simp only []
      have hi1 := hi.setM m'
      have hg : GoOpOk' (cfg2 c) w.hist w.look w.s g := by
        have := hM w.m w.hist w.look w.s (by omega)
        rw [hnx] at this
        exact goOpOk_cfg2 c _ _ _ _ this
      obtain ⟨w', h1, h2, h3, h4⟩ := encodeOp_ok c hc { w with m := m' } g hi1 hg
      rw [h1]
      simp only []
      obtain ⟨w'', a1, a2, a3, a4⟩ := ih w' h2 (by have : ({ w with m := m' } : St σ).look.size = w.look.size := rfl; omega)
      exact ⟨w'', a1, a2, by rw [a3, h3], a4⟩
    · have hl' : ¬ w.look.size > (if all = true then 0 else Gen.lzma_maxMatchLen - 1) := hl
      rw [if_neg hl']
      exact ⟨w, rfl, hi, rfl, by omega⟩

/-! ### `encWrite` -/

theorem encWrite_ok (c : Cfg) (hc : CfgOk1 c) (M : Matcher σ) (hM : MatcherOk' c.w2 M) (p : ByteArray) :
    ∀ (fuel : Nat) (w : St σ) (n : Nat), Inv c w → n ≤ p.size →
      (p.size - n) + (if 1 ≤ w.dictAvail c then 1 else 2) ≤ fuel →
      ∃ w', encWrite c M p fuel w n = some (w', p.size) ∧ Inv c w' ∧
        w'.hist ++ w'.look = w.hist ++ w.look ++ p.extract n p.size := by
  intro fuel
  induction fuel with
  | zero => intro w n _ _ h; split at h <;> omega
  | succ fuel ih =>
    intro w n hi hn hf
    unfold encWrite
    simp only []
    generalize hk : min (p.size - n) (w.dictAvail c) = k
    have hex : (p.extract n (n + k)).size = k := by
      rw [ByteArray.size_extract]; omega
    have hi1 : Inv c { w with look := w.look ++ p.extract n (n + k) } := by
      refine ⟨hi.enc, hi.ops, ?_, hi.r0⟩
      show (w.look ++ p.extract n (n + k)).size + min w.hist.size c.dictCap ≤ _
      have := hi.space
      rw [ByteArray.size_append, hex]
      unfold St.dictAvail at hk
      omega
    have hls : ({ w with look := w.look ++ p.extract n (n + k) } : St σ).look.size = w.look.size + k := by
      show (w.look ++ p.extract n (n + k)).size = _
      rw [ByteArray.size_append, hex]
    have hd1 : ({ w with look := w.look ++ p.extract n (n + k) } : St σ).hist ++
        ({ w with look := w.look ++ p.extract n (n + k) } : St σ).look = w.hist ++ w.look ++ p.extract n (n + k) := by
      show w.hist ++ (w.look ++ p.extract n (n + k)) = _
      rw [ByteArray.append_assoc]
    generalize ({ w with look := w.look ++ p.extract n (n + k) } : St σ) = w1 at *
    have hls' : (w.look ++ p.extract n (n + k)).size = w1.look.size := by
      rw [hls, ByteArray.size_append, hex]
    by_cases hlt : n + k < p.size
    · rw [if_pos hlt, hls']
      obtain ⟨w2, a1, a2, a3, a4⟩ := compress_ok c hc M hM false (w1.look.size + 1) w1 hi1 (by omega)
      rw [a1]
      simp only []
      have hav : 1 ≤ w2.dictAvail c := by
        have hb := hc.2.2
        unfold thr Gen.lzma_maxMatchLen at a4
        unfold Gen.lzma_maxMatchLen at hb
        simp only [Bool.false_eq_true, if_false] at a4
        unfold St.dictAvail
        omega
      have hkpos : 1 ≤ k ∨ ¬ 1 ≤ w.dictAvail c := by omega
      obtain ⟨w3, b1, b2, b3⟩ := ih w2 (n + k) a2 (by omega) (by
        rw [if_pos hav]
        split at hf <;> omega)
      refine ⟨w3, b1, b2, ?_⟩
      rw [b3, a3, hd1, ByteArray.append_assoc, ByteArray.extract_append_extract,
        Nat.min_eq_left (by omega), Nat.max_eq_right (by omega)]
    · rw [if_neg hlt]
      have : n + k = p.size := by omega
      rw [this]
      refine ⟨w1, rfl, hi1, ?_⟩
      rw [hd1, this]

/-! ### `write` -/

theorem write_ok (c : Cfg) (hc : CfgOk1 c) (M : Matcher σ) (hM : MatcherOk' c.w2 M) (w : St σ) (p : ByteArray)
    (hi : Inv c w) (room : Nat)
    (hroom : room = match c.size with
      | some sz => sz - (w.hist.size + w.look.size)
      | none => p.size) :
    ∃ w', write c M w p = (w', min p.size room, if min p.size room < p.size then some .noSpace else none) ∧
      Inv c w' ∧ w'.hist ++ w'.look = w.hist ++ w.look ++ p.extract 0 (min p.size room) := by
  have key : ∀ q : ByteArray, ∃ w', encWrite c M q (q.size + 2) w 0 = some (w', q.size) ∧ Inv c w' ∧
      w'.hist ++ w'.look = w.hist ++ w.look ++ q := by
    intro q
    obtain ⟨w', a1, a2, a3⟩ := encWrite_ok c hc M hM q (q.size + 2) w 0 hi (Nat.zero_le _) (by split <;> omega)
    refine ⟨w', a1, a2, ?_⟩
    rw [a3, ByteArray.extract_zero_size]
  unfold write
  cases hsz : c.size with
  | none =>
    rw [hsz] at hroom
    dsimp only at hroom ⊢
    subst hroom
    obtain ⟨w', a1, a2, a3⟩ := key p
    rw [a1]
    refine ⟨w', ?_, a2, ?_⟩
    · simp only [Nat.min_self, Nat.lt_irrefl, if_false, Bool.false_eq_true]
    · rw [a3, Nat.min_self, ByteArray.extract_zero_size]
  | some sz =>
    rw [hsz] at hroom
    dsimp only at hroom ⊢
    subst hroom
    by_cases hlt : sz - (w.hist.size + w.look.size) < p.size
    · rw [if_pos hlt]
      dsimp only
      obtain ⟨w', a1, a2, a3⟩ := key (p.extract 0 (sz - (w.hist.size + w.look.size)))
      rw [a1]
      have hqs : (p.extract 0 (sz - (w.hist.size + w.look.size))).size = sz - (w.hist.size + w.look.size) := by
        rw [ByteArray.size_extract]; omega
      have hmin : min p.size (sz - (w.hist.size + w.look.size)) = sz - (w.hist.size + w.look.size) := by omega
      refine ⟨w', ?_, a2, ?_⟩
      · rw [hmin, hqs, if_pos hlt]
        simp only [if_true]
      · rw [a3, hmin]
    · rw [if_neg hlt]
      dsimp only
      obtain ⟨w', a1, a2, a3⟩ := key p
      rw [a1]
      have hmin : min p.size (sz - (w.hist.size + w.look.size)) = p.size := by omega
      refine ⟨w', ?_, a2, ?_⟩
      · rw [hmin]
        simp only [Nat.lt_irrefl, if_false, Bool.false_eq_true]
      · rw [a3, hmin, ByteArray.extract_zero_size]

/-! ### `close` -/

theorem flush_close (e : Enc) (body : ByteArray) :
    (flushOut { e with out := e.close } body).2 =
      (flushOut { (flushOut e body).1 with out := (flushOut e body).1.close } (flushOut e body).2).2 := by
  unfold flushOut
  dsimp only
  have h : e.close = e.out ++ ({ e with out := [] } : Enc).close := by
    have h1 := close_pre e.out { e with out := [] }
    have h2 : preOut e.out { e with out := [] } = e := by
      cases e; simp [preOut]
    rw [h2] at h1; exact h1
  rw [h, List.foldl_append]

/-- table and coder after the optional end marker -/
def closeTE (c : Cfg) (w1 : St σ) : Tbl × Enc :=
  if c.marker then encPath w1.tbl w1.e (opEnc (w1.ctx c) (.mtch 2 eosDist)) else (w1.tbl, w1.e)

theorem close_body (c : Cfg) (hc : CfgOk1 c) (w1 : St σ) (hi : Inv c w1) :
    (flushOut { (closeTE c w1).2 with out := (closeTE c w1).2.close } w1.body).2 =
      encClose (encodeOps c.props {} (initTable c.props.lc c.props.lp) (HK0 c)
        (Lzma1.withMarker w1.ops.toList c.marker)) := by
  unfold closeTE Lzma1.withMarker
  cases c.marker with
  | false =>
    simp only [Bool.false_eq_true, if_false]
    rw [hi.enc]
    rfl
  | true =>
    simp only [if_true]
    rw [encodeOps_snoc, hi.enc, ctx_eq c w1 hc.1 hi.space hi.r0, flush_close]
    rfl

theorem close_ok (c : Cfg) (hc : CfgOk1 c) (M : Matcher σ) (hM : MatcherOk' c.w2 M) (w : St σ) (hi : Inv c w)
    (hsz : ∀ sz, c.size = some sz → w.hist.size + w.look.size = sz) :
    ∃ (w1 wf : St σ), close c M w = .ok (wf, Lzma1.encode c.header w1.ops c.marker) ∧ Inv c w1 ∧
      w1.hist = w.hist ++ w.look := by
  have hso : (match c.size with
      | some sz => decide (w.hist.size + w.look.size = sz)
      | none => true) = true := by
    cases hcs : c.size with
    | none => rfl
    | some sz => simp only [hsz sz hcs, decide_true]
  obtain ⟨w1, a1, a2, a3, a4⟩ := compress_ok c hc M hM true (w.look.size + 1) w hi (by omega)
  have hl : w1.look = ByteArray.empty := by
    apply ByteArray.size_eq_zero_iff.mp
    unfold thr at a4
    simp only [if_true] at a4
    omega
  rw [hl, ByteArray.append_empty] at a3
  unfold close
  simp only [a1]
  rw [if_neg (by
    cases hcs : c.size with
    | none => simp
    | some sz => simp [hsz sz hcs])]
  refine ⟨w1, { w1 with tbl := (closeTE c w1).1, e := (closeTE c w1).2 }, ?_, a2, a3⟩
  have henc := Lzma1.encode_eq c.header w1.ops.toList c.marker
  rw [Array.toArray_toList] at henc
  rw [henc, ← HK0_eq]
  have hb := close_body c hc w1 a2
  rw [show c.header.props = c.props from rfl, ← hb]
  rfl

theorem close_size (c : Cfg) (M : Matcher σ) (w : St σ) (sz : Nat) (hcs : c.size = some sz)
    (hne : w.hist.size + w.look.size ≠ sz) : close c M w = .error .size := by
  unfold close
  simp only [hcs, hne, decide_false, Bool.not_false, if_true]

end W1
