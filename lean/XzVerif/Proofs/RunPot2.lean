import XzVerif.Proofs.RunPot
import XzVerif.Proofs.RunPotTab2
import XzVerif.Proofs.RunOps

/-!
  Second potential for the cost analysis inside a run: the 32 position-state contexts of the steady-state
  operation (isMatch[11][ps], isRepG0Long[11][ps]) are charged one bit (`KP / LP`) per expected decision and weighted
  with `Wp` (constant while the unexpected symbol has probability ≤ 1/2), the other 12 contexts keep the factor
  `KE / LE` and the weight `Wq`.  The potential of the initial table is then only 299 bits (instead of 1094),
  at the price of 2.27 bits per steady-state operation (273 bytes), which the `n / 500` budget pays.
-/

set_option linter.unusedSimpArgs false
set_option linter.unusedVariables false

namespace RunCost
open Lzma Rc

/-- the position-state contexts among `AL` -/
def isPS (a : Nat) : Bool := (decide (176 ≤ a) && decide (a < 192)) || (decide (416 ≤ a) && decide (a < 432))

def Wsel (a q : Nat) : Nat := if isPS a then Wp q else Wq q
def kOf (a : Nat) : Nat := if isPS a then KP else KE
def lOf (a : Nat) : Nat := if isPS a then LP else LE

def wOf2 (a p : Nat) : Nat := Wsel a (qOf a p)

/-- the second potential of a probability table -/
def S2 (t : Tbl) : Nat := (AL.map (fun a => wOf2 a (t.get a))).prod

theorem wsel_ok (a q : Nat) (h1 : q < 2018) (h2 : 31 ≤ q) :
    Wsel a (q - q / 32) * (2048 * 8192) * lOf a ≤ Wsel a q * (8191 * (2048 - q)) * kOf a ∧
    Wsel a (q + (2048 - q) / 32) * (2048 * 8192) ≤ Wsel a q * (8191 * q * 128) ∧
    2 ^ 40 ≤ Wsel a q ∧ Wsel a q ≤ 2 ^ 113 := by
  unfold Wsel kOf lOf
  cases isPS a
  · simp only [Bool.false_eq_true, if_false]
    obtain ⟨hE, hU, hB⟩ := Wtab_ok q h1 h2
    refine ⟨?_, hU, hB⟩
    unfold cE at hE
    unfold KE LE
    calc Wq (q - q / 32) * (2048 * 8192) * (2017 * 8191) = (Wq (q - q / 32) * 2017) * (2048 * 8192 * 8191) := by ring
      _ ≤ (Wq q * (2048 - q)) * (2048 * 8192 * 8191) := Nat.mul_le_mul_right _ hE
      _ = _ := by ring
  · simp only [if_true]
    obtain ⟨hE, hU, hB⟩ := Wptab_ok q h1 h2
    refine ⟨hE, hU, hB.1, Nat.le_trans hB.2 (Nat.pow_le_pow_right (by omega) (by omega))⟩

theorem wOf2_bounds (a p : Nat) (hp : POk p) : 2 ^ 40 ≤ wOf2 a p ∧ wOf2 a p ≤ 2 ^ 113 := by
  obtain ⟨h1, h2⟩ := qOf_ok a p hp
  exact (wsel_ok a _ h1 h2).2.2

theorem wOf2_pos (a p : Nat) (hp : POk p) : 0 < wOf2 a p :=
  Nat.lt_of_lt_of_le (Nat.pow_pos (by omega)) (wOf2_bounds a p hp).1

theorem S2_ge (t : Tbl) (ht : t.ok) : Smin ≤ S2 t := by
  unfold Smin
  have := prod_ge AL (fun a => wOf2 a (t.get a)) (2 ^ 40) (fun a _ => (wOf2_bounds a _ (ht a)).1)
  rwa [AL_length] at this

theorem S2_le (t : Tbl) (ht : t.ok) : S2 t ≤ Smin * 2 ^ SmaxB := by
  rw [← Wmax]
  have := prod_le AL (fun a => wOf2 a (t.get a)) (2 ^ 113) (fun a _ => (wOf2_bounds a _ (ht a)).2)
  rwa [AL_length] at this

theorem S2_pos (t : Tbl) (ht : t.ok) : 0 < S2 t :=
  Nat.lt_of_lt_of_le (Nat.pow_pos (Nat.pow_pos (by omega))) (S2_ge t ht)

/-- the bound of the potential of the initial table, in bits above `Smin` -/
def SinitB2 : Nat := 299

theorem S2_init_const : (AL.map (fun a => Wsel a 1024)).prod ≤ Smin * 2 ^ SinitB2 := by decide +kernel

theorem S2_init (lc lp : Nat) : S2 (initTable lc lp) ≤ Smin * 2 ^ SinitB2 := by
  have hget : ∀ a, (initTable lc lp).get a = 1024 := by
    intro a
    unfold initTable Tbl.get
    simp only [Array.getD_eq_getD_getElem?, Array.getElem?_replicate]
    split <;> rfl
  have h1 : S2 (initTable lc lp) = (AL.map (fun a => Wsel a 1024)).prod := by
    unfold S2
    apply prod_map_congr
    intro a _
    rw [hget]
    unfold wOf2 qOf
    split <;> rfl
  rw [h1]
  exact S2_init_const

theorem S2_upd_mem (t : Tbl) (a v : Nat) (ha : a ∈ AL) (hlt : a < t.size) :
    S2 (t.upd a v) * wOf2 a (t.get a) = S2 t * wOf2 a v := by
  unfold S2
  have := prod_map_upd AL (fun x => wOf2 x (t.get x)) (fun x => wOf2 x ((t.upd a v).get x)) a AL_nodup ha
    (fun x hx => by
      show wOf2 x ((t.upd a v).get x) = wOf2 x (t.get x)
      rw [Tbl.get_upd, if_neg (fun h => hx h.1)])
  rw [this]
  show _ * wOf2 a ((t.upd a v).get a) = _
  rw [Tbl.get_upd, if_pos ⟨rfl, hlt⟩]

theorem S2_upd_not (t : Tbl) (a v : Nat) (ha : a ∉ AL ∨ t.size ≤ a) : S2 (t.upd a v) = S2 t := by
  unfold S2
  apply prod_map_congr
  intro x hx
  show wOf2 x ((t.upd a v).get x) = wOf2 x (t.get x)
  rw [Tbl.get_upd, if_neg]
  rintro ⟨rfl, h2⟩
  rcases ha with ha | ha
  · exact ha hx
  · omega

/-! ### one decision -/

theorem apply_exp2 (e : Enc) (he : e.Rest) (a p : Nat) (hp : POk p) :
    e.range * (wOf2 a (probNext p (sig a)) * lOf a) ≤ (e.apply ⟨some p, sig a⟩).range * (wOf2 a p * kOf a) := by
  obtain ⟨h1, h2⟩ := qOf_ok a p hp
  have hE := (wsel_ok a _ h1 h2).1
  have hr := apply_range_exp e he a p hp
  unfold wOf2
  rw [probNext_q_exp a p hp]
  generalize qOf a p = q at *
  generalize (e.apply ⟨some p, sig a⟩).range = r' at *
  have : e.range * (Wsel a (q - q / 32) * lOf a) * (2048 * 8192) ≤ r' * (Wsel a q * kOf a) * (2048 * 8192) := by
    calc e.range * (Wsel a (q - q / 32) * lOf a) * (2048 * 8192)
        = e.range * (Wsel a (q - q / 32) * (2048 * 8192) * lOf a) := by ring
      _ ≤ e.range * (Wsel a q * (8191 * (2048 - q)) * kOf a) := Nat.mul_le_mul_left _ hE
      _ = (e.range * 8191 * (2048 - q)) * (Wsel a q * kOf a) := by ring
      _ ≤ (r' * (2048 * 8192)) * (Wsel a q * kOf a) := Nat.mul_le_mul_right _ hr
      _ = _ := by ring
  exact Nat.le_of_mul_le_mul_right this (by decide)

theorem k_le_l (a : Nat) : kOf a ≤ 128 * lOf a := by
  unfold kOf lOf
  cases isPS a <;> decide

theorem lOf_pos (a : Nat) : 0 < lOf a := by
  unfold lOf
  cases isPS a <;> decide

theorem apply_any2 (e : Enc) (he : e.Rest) (a p : Nat) (hp : POk p) (b : Bool) :
    e.range * wOf2 a (probNext p b) ≤ (e.apply ⟨some p, b⟩).range * (wOf2 a p * 128) := by
  by_cases hb : b = sig a
  · subst hb
    have h := apply_exp2 e he a p hp
    have hk := k_le_l a
    have : e.range * wOf2 a (probNext p (sig a)) * lOf a ≤
        (e.apply ⟨some p, sig a⟩).range * (wOf2 a p * 128) * lOf a := by
      calc e.range * wOf2 a (probNext p (sig a)) * lOf a = e.range * (wOf2 a (probNext p (sig a)) * lOf a) := by ring
        _ ≤ (e.apply ⟨some p, sig a⟩).range * (wOf2 a p * kOf a) := h
        _ ≤ (e.apply ⟨some p, sig a⟩).range * (wOf2 a p * (128 * lOf a)) :=
            Nat.mul_le_mul_left _ (Nat.mul_le_mul_left _ hk)
        _ = _ := by ring
    exact Nat.le_of_mul_le_mul_right this (lOf_pos a)
  · have hb' : b = !sig a := by cases b <;> cases h : sig a <;> simp_all
    subst hb'
    obtain ⟨h1, h2⟩ := qOf_ok a p hp
    have hU := (wsel_ok a _ h1 h2).2.1
    have hr := apply_range_unexp e he a p hp
    unfold wOf2
    rw [probNext_q_unexp a p hp]
    generalize qOf a p = q at *
    generalize (e.apply ⟨some p, !sig a⟩).range = r' at *
    have : e.range * Wsel a (q + (2048 - q) / 32) * (2048 * 8192) ≤ r' * (Wsel a q * 128) * (2048 * 8192) := by
      calc e.range * Wsel a (q + (2048 - q) / 32) * (2048 * 8192)
          = e.range * (Wsel a (q + (2048 - q) / 32) * (2048 * 8192)) := by ring
        _ ≤ e.range * (Wsel a q * (8191 * q * 128)) := Nat.mul_le_mul_left _ hU
        _ = (e.range * 8191 * q) * (Wsel a q * 128) := by ring
        _ ≤ (r' * (2048 * 8192)) * (Wsel a q * 128) := Nat.mul_le_mul_right _ hr
        _ = _ := by ring
    exact Nat.le_of_mul_le_mul_right this (by decide)

theorem step_pot_any2 (t : Tbl) (ht : t.ok) (e : Enc) (he : e.Rest) (a : Nat) (b : Bool) :
    e.range * S2 (t.upd a (pm.next (t.get a) b)) ≤ (e.apply ⟨some (t.get a), b⟩).range * (S2 t * 128) := by
  have hdn : (⟨some (t.get a), b⟩ : Decn).ok := by
    intro p hp; simp at hp; subst hp; exact ht a
  by_cases ha : a ∈ AL ∧ a < t.size
  · have hS := S2_upd_mem t a (pm.next (t.get a) b) ha.1 ha.2
    have hA := apply_any2 e he a (t.get a) (ht a) b
    have hw := wOf2_pos a (t.get a) (ht a)
    have hpm : pm.next (t.get a) b = probNext (t.get a) b := rfl
    rw [hpm] at hS ⊢
    generalize (e.apply ⟨some (t.get a), b⟩).range = r' at *
    apply Nat.le_of_mul_le_mul_right _ hw
    calc e.range * S2 (t.upd a (probNext (t.get a) b)) * wOf2 a (t.get a)
        = e.range * (S2 (t.upd a (probNext (t.get a) b)) * wOf2 a (t.get a)) := by ring
      _ = e.range * (S2 t * wOf2 a (probNext (t.get a) b)) := by rw [hS]
      _ = (e.range * wOf2 a (probNext (t.get a) b)) * S2 t := by ring
      _ ≤ (r' * (wOf2 a (t.get a) * 128)) * S2 t := Nat.mul_le_mul_right _ hA
      _ = r' * (S2 t * 128) * wOf2 a (t.get a) := by ring
  · rw [S2_upd_not t a _ (by
      by_cases h1 : a ∈ AL
      · exact Or.inr (Nat.le_of_not_lt (fun h => ha ⟨h1, h⟩))
      · exact Or.inl h1)]
    have h67 := apply_grow_adaptive e he _ hdn (t.get a) rfl
    calc e.range * S2 t ≤ (e.apply ⟨some (t.get a), b⟩).range * 67 * S2 t := Nat.mul_le_mul_right _ h67
      _ ≤ (e.apply ⟨some (t.get a), b⟩).range * 128 * S2 t :=
          Nat.mul_le_mul_right _ (Nat.mul_le_mul_left _ (by omega))
      _ = _ := by ring

theorem step_pot_exp2 (t : Tbl) (ht : t.ok) (e : Enc) (he : e.Rest) (a : Nat) (ha : a ∈ AL) (hlt : a < t.size) :
    e.range * (S2 (t.upd a (pm.next (t.get a) (sig a))) * lOf a) ≤
      (e.apply ⟨some (t.get a), sig a⟩).range * (S2 t * kOf a) := by
  have hS := S2_upd_mem t a (pm.next (t.get a) (sig a)) ha hlt
  have hA := apply_exp2 e he a (t.get a) (ht a)
  have hw := wOf2_pos a (t.get a) (ht a)
  have hpm : pm.next (t.get a) (sig a) = probNext (t.get a) (sig a) := rfl
  rw [hpm] at hS ⊢
  generalize (e.apply ⟨some (t.get a), sig a⟩).range = r' at *
  apply Nat.le_of_mul_le_mul_right _ hw
  calc e.range * (S2 (t.upd a (probNext (t.get a) (sig a))) * lOf a) * wOf2 a (t.get a)
      = e.range * lOf a * (S2 (t.upd a (probNext (t.get a) (sig a))) * wOf2 a (t.get a)) := by ring
    _ = e.range * lOf a * (S2 t * wOf2 a (probNext (t.get a) (sig a))) := by rw [hS]
    _ = (e.range * (wOf2 a (probNext (t.get a) (sig a)) * lOf a)) * S2 t := by ring
    _ ≤ (r' * (wOf2 a (t.get a) * kOf a)) * S2 t := Nat.mul_le_mul_right _ hA
    _ = r' * (S2 t * kOf a) * wOf2 a (t.get a) := by ring

/-! ### paths -/

theorem path_pot_any2 (π : Path) : ∀ (t : Tbl) (e : Enc), t.ok → e.Rest →
    e.range * S2 (tblAfter t π) * 1 * 256 ^ (e.encodeAll (toDecns pm t π)).digits ≤
      (e.encodeAll (toDecns pm t π)).range * S2 t * (128 ^ nA π * 3 ^ nD π) * 256 ^ e.digits := by
  induction π with
  | nil => intro t e _ _; simp [toDecns, Enc.encodeAll, tblAfter]
  | cons qb π ih =>
    intro t e ht he
    obtain ⟨q, bit⟩ := qb
    cases q with
    | adaptive a =>
      have hdn : (⟨some (t.get a), bit⟩ : Decn).ok := by
        intro p hp; simp at hp; subst hp; exact ht a
      have ht1 := t.upd_ok ht a _ (pm.ok _ bit (ht a))
      have he1 := step_rest e he _ hdn
      have h1 := step_grow e he _ hdn (S2 t * 128) (S2 (t.upd a (pm.next (t.get a) bit)))
        (step_pot_any2 t ht e he a bit)
      have h2 := ih _ _ ht1 he1
      have hpos : 0 < (e.step ⟨some (t.get a), bit⟩).range * S2 (t.upd a (pm.next (t.get a) bit)) *
          256 ^ (e.step ⟨some (t.get a), bit⟩).digits :=
        Nat.mul_pos (Nat.mul_pos (Nat.lt_of_lt_of_le (by decide) he1.rlo) (S2_pos _ ht1)) (Nat.pow_pos (by omega))
      simp only [toDecns, tblAfter, nA_adaptive, nD_adaptive]
      have heq : ∀ l, e.encodeAll (⟨some (t.get a), bit⟩ :: l) = (e.step ⟨some (t.get a), bit⟩).encodeAll l :=
        fun _ => rfl
      rw [heq]
      have h1' : e.range * S2 (t.upd a (pm.next (t.get a) bit)) * 1 *
          256 ^ (e.step ⟨some (t.get a), bit⟩).digits ≤
          (e.step ⟨some (t.get a), bit⟩).range * S2 t * 128 * 256 ^ e.digits := by
        calc e.range * S2 (t.upd a (pm.next (t.get a) bit)) * 1 * 256 ^ (e.step ⟨some (t.get a), bit⟩).digits
            = e.range * S2 (t.upd a (pm.next (t.get a) bit)) * 256 ^ (e.step ⟨some (t.get a), bit⟩).digits := by ring
          _ ≤ (e.step ⟨some (t.get a), bit⟩).range * (S2 t * 128) * 256 ^ e.digits := h1
          _ = _ := by ring
      have := chain2 _ _ _ _ _ _ _ _ _ _ _ _ _ hpos h1' h2
      calc _ = e.range * S2 (tblAfter (t.upd a (pm.next (t.get a) bit)) π) * (1 * 1) *
            256 ^ ((e.step ⟨some (t.get a), bit⟩).encodeAll
              (toDecns pm (t.upd a (pm.next (t.get a) bit)) π)).digits := by ring
        _ ≤ _ := this
        _ = _ := by rw [Nat.pow_succ]; ring
    | direct =>
      have hdn : (⟨none, bit⟩ : Decn).ok := by intro p hp; simp at hp
      have he1 := step_rest e he _ hdn
      have h1 := step_grow_direct3 e he _ hdn rfl
      have h2 := ih t _ ht he1
      have hpos : 0 < (e.step ⟨none, bit⟩).range * S2 t * 256 ^ (e.step ⟨none, bit⟩).digits :=
        Nat.mul_pos (Nat.mul_pos (Nat.lt_of_lt_of_le (by decide) he1.rlo) (S2_pos _ ht)) (Nat.pow_pos (by omega))
      simp only [toDecns, tblAfter, nA_direct, nD_direct]
      have heq : ∀ l, e.encodeAll (⟨none, bit⟩ :: l) = (e.step ⟨none, bit⟩).encodeAll l := fun _ => rfl
      rw [heq]
      have h1' : e.range * S2 t * 1 * 256 ^ (e.step ⟨none, bit⟩).digits ≤
          (e.step ⟨none, bit⟩).range * S2 t * 3 * 256 ^ e.digits := by
        calc e.range * S2 t * 1 * 256 ^ (e.step ⟨none, bit⟩).digits
            = (e.range * 256 ^ (e.step ⟨none, bit⟩).digits) * S2 t := by ring
          _ ≤ ((e.step ⟨none, bit⟩).range * 3 * 256 ^ e.digits) * S2 t := Nat.mul_le_mul_right _ h1
          _ = _ := by ring
      have := chain2 _ _ _ _ _ _ _ _ _ _ _ _ _ hpos h1' h2
      calc _ = e.range * S2 (tblAfter t π) * (1 * 1) *
            256 ^ ((e.step ⟨none, bit⟩).encodeAll (toDecns pm t π)).digits := by ring
        _ ≤ _ := this
        _ = _ := by rw [Nat.pow_succ]; ring

/-- product of the per-decision factors of a path -/
def pathK : Path → Nat
  | [] => 1
  | (.adaptive a, _) :: π => kOf a * pathK π
  | (.direct, _) :: π => pathK π

def pathL : Path → Nat
  | [] => 1
  | (.adaptive a, _) :: π => lOf a * pathL π
  | (.direct, _) :: π => pathL π

theorem path_pot_exp2 (π : Path) : ∀ (t : Tbl) (e : Enc), t.ok → e.Rest → ExpPath t.size π →
    e.range * S2 (tblAfter t π) * pathL π * 256 ^ (e.encodeAll (toDecns pm t π)).digits ≤
      (e.encodeAll (toDecns pm t π)).range * S2 t * pathK π * 256 ^ e.digits := by
  induction π with
  | nil => intro t e _ _ _; simp [toDecns, Enc.encodeAll, tblAfter, pathK, pathL]
  | cons qb π ih =>
    intro t e ht he hx
    obtain ⟨a, rfl, ha, hlt⟩ := hx qb (List.mem_cons_self ..)
    have hdn : (⟨some (t.get a), sig a⟩ : Decn).ok := by
      intro p hp; simp at hp; subst hp; exact ht a
    have ht1 := t.upd_ok ht a _ (pm.ok _ (sig a) (ht a))
    have he1 := step_rest e he _ hdn
    have h1 := step_grow e he _ hdn (S2 t * kOf a) (S2 (t.upd a (pm.next (t.get a) (sig a))) * lOf a)
      (step_pot_exp2 t ht e he a ha hlt)
    have h2 := ih _ _ ht1 he1 (by
      intro x hxm
      rw [upd_size]
      exact hx x (List.mem_cons_of_mem _ hxm))
    have hpos : 0 < (e.step ⟨some (t.get a), sig a⟩).range * S2 (t.upd a (pm.next (t.get a) (sig a))) *
        256 ^ (e.step ⟨some (t.get a), sig a⟩).digits :=
      Nat.mul_pos (Nat.mul_pos (Nat.lt_of_lt_of_le (by decide) he1.rlo) (S2_pos _ ht1)) (Nat.pow_pos (by omega))
    simp only [toDecns, tblAfter, pathK, pathL]
    have heq : ∀ l, e.encodeAll (⟨some (t.get a), sig a⟩ :: l) = (e.step ⟨some (t.get a), sig a⟩).encodeAll l :=
      fun _ => rfl
    rw [heq]
    have h1' : e.range * S2 (t.upd a (pm.next (t.get a) (sig a))) * lOf a *
        256 ^ (e.step ⟨some (t.get a), sig a⟩).digits ≤
        (e.step ⟨some (t.get a), sig a⟩).range * S2 t * kOf a * 256 ^ e.digits := by
      calc e.range * S2 (t.upd a (pm.next (t.get a) (sig a))) * lOf a * 256 ^ (e.step ⟨some (t.get a), sig a⟩).digits
          = e.range * (S2 (t.upd a (pm.next (t.get a) (sig a))) * lOf a) *
              256 ^ (e.step ⟨some (t.get a), sig a⟩).digits := by ring
        _ ≤ (e.step ⟨some (t.get a), sig a⟩).range * (S2 t * kOf a) * 256 ^ e.digits := h1
        _ = _ := by ring
    exact chain2 _ _ _ _ _ _ _ _ _ _ _ _ _ hpos h1' h2

/-! ### the steady-state operation -/

/-- factors of one steady-state operation: 12 decisions at `KE / LE`, 2 at `KP / LP` -/
def KR : Nat := KE ^ 12 * KP ^ 2
def LR : Nat := LE ^ 12 * LP ^ 2

theorem reg_factors : ∀ ps, ps < 16 →
    pathK (opEnc ⟨11, ps, 0, 0⟩ (.rep 0 273)) = KR ∧ pathL (opEnc ⟨11, ps, 0, 0⟩ (.rep 0 273)) = LR := by
  decide +kernel

theorem reg_path2 (cx : Ctx) (hst : cx.st = 11) (hps : cx.ps < 16) :
    pathK (opEnc cx (.rep 0 273)) = KR ∧ pathL (opEnc cx (.rep 0 273)) = LR := by
  obtain ⟨st, ps, lb, mb⟩ := cx
  simp only at hst hps
  subst hst
  have h : opEnc ⟨11, ps, lb, mb⟩ (.rep 0 273) = opEnc ⟨11, ps, 0, 0⟩ (.rep 0 273) := rfl
  rw [h]
  exact reg_factors ps hps

/-- one steady-state operation costs at most 2.3 bits: `(KR / LR)^r ≤ 2^((23 r + 9) / 10)` for `r < 10` -/
theorem kr_small : ∀ r, r < 10 → KR ^ r ≤ 2 ^ ((23 * r + 9) / 10) * LR ^ r := by decide +kernel

theorem kr10 : KR ^ 10 ≤ 2 ^ 23 * LR ^ 10 := by decide +kernel

theorem LR_pos : 0 < LR := by decide

theorem kr_pow (R : Nat) : KR ^ R ≤ 2 ^ ((23 * R + 9) / 10) * LR ^ R := by
  have hR : R = 10 * (R / 10) + R % 10 := (Nat.div_add_mod R 10).symm
  generalize R / 10 = a at *
  generalize hr : R % 10 = r at *
  have hr10 : r < 10 := by have := Nat.mod_lt R (by omega : 0 < 10); omega
  subst hR
  have h1 : KR ^ (10 * a) ≤ 2 ^ (23 * a) * LR ^ (10 * a) := by
    rw [Nat.pow_mul, Nat.pow_mul LR, Nat.pow_mul 2, ← Nat.mul_pow]
    exact Nat.pow_le_pow_left kr10 a
  have h2 := kr_small r hr10
  have he : (23 * (10 * a + r) + 9) / 10 = 23 * a + (23 * r + 9) / 10 := by omega
  rw [he]
  calc KR ^ (10 * a + r) = KR ^ (10 * a) * KR ^ r := Nat.pow_add ..
    _ ≤ (2 ^ (23 * a) * LR ^ (10 * a)) * (2 ^ ((23 * r + 9) / 10) * LR ^ r) := Nat.mul_le_mul h1 h2
    _ = _ := by rw [Nat.pow_add LR, Nat.pow_add 2]; ring

/-- from the multiplicative invariant to bytes -/
theorem core_log2 (st ss R E D B : Nat) (hst : Smin ≤ st) (hss : ss ≤ Smin * 2 ^ B)
    (h : st * LR ^ R * 256 ^ D ≤ ss * KR ^ R * 2 ^ E) : 8 * D ≤ B + E + (23 * R + 9) / 10 := by
  have hk := kr_pow R
  have hpos : 0 < Smin * LR ^ R := Nat.mul_pos (Nat.pow_pos (Nat.pow_pos (by omega))) (Nat.pow_pos LR_pos)
  have h1 : 256 ^ D * (Smin * LR ^ R) ≤ 2 ^ (B + E + (23 * R + 9) / 10) * (Smin * LR ^ R) := by
    calc 256 ^ D * (Smin * LR ^ R) = Smin * LR ^ R * 256 ^ D := by ring
      _ ≤ st * LR ^ R * 256 ^ D := Nat.mul_le_mul_right _ (Nat.mul_le_mul_right _ hst)
      _ ≤ ss * KR ^ R * 2 ^ E := h
      _ ≤ (Smin * 2 ^ B) * (2 ^ ((23 * R + 9) / 10) * LR ^ R) * 2 ^ E :=
          Nat.mul_le_mul_right _ (Nat.mul_le_mul hss hk)
      _ = _ := by rw [Nat.pow_add, Nat.pow_add]; ring
  have h3 := Nat.le_of_mul_le_mul_right h1 hpos
  have h4 : (256 : Nat) ^ D = 2 ^ (8 * D) := by
    rw [show (256 : Nat) = 2 ^ 8 from rfl, ← Nat.pow_mul]
  rw [h4] at h3
  exact (Nat.pow_le_pow_iff_right (by omega : 1 < 2)).mp h3

end RunCost
