import XzVerif.Model.LazyDec2
import XzVerif.Model.Src
/-
  Proofs.SrcLink — where the LZMA2 reader model reads uncompressed chunk data (`LazyDec2.ufill`) it uses exactly the
  access layer's view of the doubly limited copy (`Src.viewCopyLim`, which Proofs/Src.lean shows to be what
  `io.CopyN(dict, &io.LimitedReader{src, N}, want)` returns on every fragmenting source): position, remaining limit, the
  bytes written into the dictionary and the status.
-/
namespace SrcLink
open LazyDec LazyDec2

def endOf (srcErr : Bool) : Src.End := if srcErr then .fail else .eof

theorem ufill_is_viewCopyLim (r : R2) (h : r.uEof = false) (hp : r.pos ≤ r.inp.size) :
    (ufill r).1.pos = (Src.viewCopyLim r.inp r.pos (endOf r.srcErr) r.uN r.l.dict.buf.available).1 ∧
    (ufill r).1.uN = (Src.viewCopyLim r.inp r.pos (endOf r.srcErr) r.uN r.l.dict.buf.available).2.1 ∧
    (ufill r).1.l.dict =
      (r.l.dict.write (Src.viewCopyLim r.inp r.pos (endOf r.srcErr) r.uN r.l.dict.buf.available).2.2.1).1 ∧
    (ufill r).2 =
      (match (Src.viewCopyLim r.inp r.pos (endOf r.srcErr) r.uN r.l.dict.buf.available).2.2.2 with
       | .ok => RStat.ok
       | .src => RStat.err .src
       | _ =>
         if 0 < (Src.viewCopyLim r.inp r.pos (endOf r.srcErr) r.uN r.l.dict.buf.available).2.2.1.size then RStat.ok
         else if (ufill r).1.uN ≠ 0 then RStat.err .unexpectedEOF else RStat.eof) := by
  have hk : ∀ k, k ≤ r.inp.size - r.pos → (r.inp.extract r.pos (r.pos + k)).size = k := by
    intro k hk'
    simp only [ByteArray.size_extract]
    omega
  unfold ufill Src.viewCopyLim endOf
  simp only [h, Bool.not_false, ite_true]
  have hkk := hk (min r.l.dict.buf.available (min r.uN (r.inp.size - r.pos))) (by omega)
  generalize hk0 : min r.l.dict.buf.available (min r.uN (r.inp.size - r.pos)) = k at *
  by_cases h1 : k = r.l.dict.buf.available
  · simp [h1]
  · by_cases hs : r.srcErr = true
    · by_cases h2 : r.inp.size - r.pos < min r.l.dict.buf.available r.uN
      · simp [h1, hs, h2]
      · by_cases hpos : 0 < k
        · simp [h1, hs, h2, hkk, hpos]
        · by_cases hz : r.uN - k = 0 <;> simp [h1, hs, h2, hkk, hpos, hz]
    · by_cases hpos : 0 < k
      · simp [h1, hs, hkk, hpos]
      · by_cases hz : r.uN - k = 0 <;> simp [h1, hs, hkk, hpos, hz]

end SrcLink

#print axioms SrcLink.ufill_is_viewCopyLim
