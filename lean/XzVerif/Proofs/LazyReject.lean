import XzVerif.Proofs.LazyDec2
import XzVerif.Proofs.Lzma2RoundTrip
import XzVerif.Proofs.LazyRejectLemmas
/-!
  C16 at the level the code runs: the lazy LZMA2 reader rejects an illegal chunk sequence AT THE OFFENDING CHUNK — every
  byte of the legal chunks before it is delivered, no byte of the offending chunk or of anything after it, and the
  schedule ends with an error, never with io.EOF.
-/
namespace LazyReject
open Lzma Rc Spec Lzma2 LazyDec

/-- the automaton state after a list of chunk kinds (legal lists only matter) -/
def seqAfter (cs : List Chunk) : SeqState := cs.foldl (fun q c => (seqStep q c.kind).getD q) .init

/- Why `hsz` is needed (`bad` is otherwise an ARBITRARY chunk record — no `ChunkOk`): the emitter writes the control
   byte of an LZMA chunk as `(ctrlOf kind + (usize - 1) / 65536).toUInt8`, which wraps once `usize > 2 ^ 21`, so the
   byte on the wire no longer says `bad.kind`.  Checked with `#eval` (about 90 s, hence not a `#guard` here):

     def badC : Chunk := { kind := .l, usize := 0, ops := #[RawOp.lit 0] ++ Array.replicate 30728 (RawOp.rep 0 273) }
     def s0 : ByteArray := emit (8 * 1024 * 1024) (#[] ++ #[badC] ++ #[])
     #eval lzUsize (e0 (8 * 1024 * 1024)) badC            -- 8388745, (8388745 - 1) / 65536 = 128
     #eval s0.get! 0                                      -- 0  (0x80 + 128 wrapped: the END MARKER)
     #eval seqStep (seqAfter []) badC.kind                -- none  (`.l` is illegal as the first chunk)
     #eval (LazyDec2.readSeq (LazyDec2.newReader2 0 s0) [10]).map (fun r => (r.1.size, r.2))   -- [(0, .eof)]
     #eval (Lzma2.decode false (8 * 1024 * 1024) s0 0 ByteArray.empty).2                       -- .eof

   i.e. without `hsz` the schedule ends with io.EOF.  (Wrapping by 64 turns `.l` into `.lrn`, which is legal after an
   uncompressed chunk and is then decoded.)  Nothing else about `bad` is needed: a `lrn`/`lrnd` record without a
   properties byte still has a complete 6-byte header on the wire because the range coder's body is never empty
   (`encClose_size_pos`); the batch error is then "invalid properties code" or "unexpected chunk type". -/

/-- `pre` is a well-formed chunk list, the next chunk header `bad` is not allowed after it (first chunk without dictionary
    reset, compressed chunk without the properties it owes, anything after the end marker …); whatever follows.
    `hsz`: the uncompressed size of `bad` (as an LZMA chunk) fits the header's 21 bits, so that the control byte the
    emitter writes really encodes `bad.kind` (irrelevant for uncompressed chunks, but harmless). -/
theorem lazy_rejects_at_offending_chunk (cfgCap : Nat) (hcap : 4096 ≤ effCap cfgCap)
    (pre : Array Chunk) (bad : Chunk) (rest : Array Chunk)
    (hok : ChunksOk false (e0 (effCap cfgCap)) .init pre.toList)
    (hne : seqAfter pre.toList ≠ .ended)   -- the reader stops at an end marker: what follows it is not read at all
    (hbad : seqStep (seqAfter pre.toList) bad.kind = none)
    (hsz : lzUsize (pre.foldl emitChunk (e0 (effCap cfgCap))) bad ≤ 2 ^ 21)
    (lens : List Nat)
    (hsum : ((pre.foldl emitChunk (e0 (effCap cfgCap))).h.out).size < lens.sum) :
    let stream := emit (effCap cfgCap) (pre ++ #[bad] ++ rest)
    (∃ e, LazyDec.lastStat (LazyDec2.readSeq (LazyDec2.newReader2 cfgCap stream) lens) = .err e ∧ e ≠ .unexpectedEOF) ∧
    delivered (LazyDec2.readSeq (LazyDec2.newReader2 cfgCap stream) lens) = (pre.foldl emitChunk (e0 (effCap cfgCap))).h.out := by
  intro stream
  have hstream : stream = emit (effCap cfgCap) (pre ++ #[bad] ++ rest) := rfl
  clear_value stream
  have h21 : (2 : Nat) ^ 21 = 2097152 := rfl
  obtain ⟨rB, st, hB, hH, hout⟩ := Lzma2.decode_bad (effCap cfgCap) pre bad rest hok hne hbad (by rw [← h21]; exact hsz)
  rw [← hstream] at hB
  have hbatch : LazyDec2.batch cfgCap stream = (rB, st) := hB
  have hs := LazyDec2.schedule_batch cfgCap hcap stream lens
  have hK : LazyDec2.KB (LazyDec2.batch cfgCap stream) := LazyDec2.decode_fuel _ _ _ _
  have hHB : LazyDec2.HdrSt (Lzma2.decode false (effCap cfgCap) stream 0 ByteArray.empty).2 := by rw [hB]; exact hH
  cases hl : LazyDec.lastStat (LazyDec2.readSeq (LazyDec2.newReader2 cfgCap stream) lens) with
  | ok =>
    exfalso
    have hp := hs.2.2.1 hK
    rw [ByteArray.empty_append, List.drop_zero] at hp
    have hlen := congrArg List.length hp
    rw [Ring.length_toList, List.length_take, Ring.length_toList] at hlen
    have := hs.2.2.2.2.2 hl
    rw [hbatch] at hlen
    simp only at hlen
    rw [hout] at hlen
    omega
  | eof =>
    exfalso
    have := (hs.2.2.2.1 hl hK).1
    rw [hbatch] at this
    simp only at this
    rw [this] at hH
    rcases hH with h | h <;> cases h
  | err e =>
    refine ⟨⟨e, rfl, ?_⟩, ?_⟩
    · intro he
      subst he
      have := hs.2.2.2.2.1 _ hl hK
      rw [hbatch] at this
      rcases hH with h | h <;> rw [h] at this <;> simp [Status.cls, LazyDec.statusOf] at this
    · rw [LazyDec2.schedule2_whole cfgCap hcap stream lens e hl hHB, hB]
      exact hout

end LazyReject

#print axioms LazyReject.lazy_rejects_at_offending_chunk
