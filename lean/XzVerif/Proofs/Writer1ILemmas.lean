import XzVerif.Proofs.Writer1

/-!
  The lemmas of Proofs/Writer1Lemmas.lean and the run lemmas of Proofs/Writer1.lean for a stateful,
  self-synchronising match finder (`W2.MatcherInv'`): the sync invariant `I w.m w.hist w.look` is threaded
  through `compress`, `encWrite`, `write`, `close` and `run`.
-/

set_option linter.unusedSimpArgs false
set_option linter.unusedVariables false

namespace W1
open Lzma Rc Lzma2 W2

variable {σ : Type}

theorem encodeOp_fields (c : Cfg) (w w' : St σ) (g : GoOp) (h : encodeOp c w g = some w') :
    w'.m = w.m ∧ w'.hist = w.hist ++ w.look.extract 0 g.len ∧ w'.look = w.look.extract g.len w.look.size := by
  unfold encodeOp at h
  split at h
  · exact absurd h (by simp)
  · simp only [Option.some.injEq] at h
    subst h
    exact ⟨rfl, rfl, rfl⟩

/-! ### `compress` -/

theorem compress_ok_I (c : Cfg) (hc : CfgOk1 c) (M : Matcher σ) (I : σ → ByteArray → ByteArray → Prop)
    (hI : MatcherInv' c.w2 M I) (all : Bool) :
    ∀ (fuel : Nat) (w : St σ), Inv c w → I w.m w.hist w.look → w.look.size < fuel →
      ∃ w', compress c M all fuel w = some w' ∧ Inv c w' ∧ I w'.m w'.hist w'.look ∧
        w'.hist ++ w'.look = w.hist ++ w.look ∧ w'.look.size ≤ thr all := by
  intro fuel
  induction fuel with
  | zero => intro w _ _ h; omega
  | succ fuel ih =>
    intro w hi hs hf
    unfold compress
    by_cases hl : w.look.size > thr all
    · have hl' : w.look.size > (if all = true then 0 else Gen.lzma_maxMatchLen - 1) := hl
      rw [if_pos hl']
      have hcons := hI.consume w.m w.hist w.look w.s hs (by omega) hi.space
      have hok := hI.ok w.m w.hist w.look w.s hs (by omega) hi.space
      rcases hnx : M.next w.m w.hist w.look w.s with ⟨g, m'⟩
      rw [hnx] at hcons hok
      simp only []
      dsimp only at hcons hok
      have hi1 := hi.setM m'
      have hg : GoOpOk' (cfg2 c) w.hist w.look w.s g := goOpOk_cfg2 c _ _ _ _ hok
      obtain ⟨w', h1, h2, h3, h4⟩ := encodeOp_ok c hc { w with m := m' } g hi1 hg
      obtain ⟨f1, f2, f3⟩ := encodeOp_fields c _ _ _ h1
      rw [h1]
      simp only []
      have hs' : I w'.m w'.hist w'.look := by
        rw [f1, f2, f3]; exact hcons
      obtain ⟨w'', a1, a2, a3, a4, a5⟩ := ih w' h2 hs'
        (by have : ({ w with m := m' } : St σ).look.size = w.look.size := rfl; omega)
      exact ⟨w'', a1, a2, a3, by rw [a4, h3], a5⟩
    · have hl' : ¬ w.look.size > (if all = true then 0 else Gen.lzma_maxMatchLen - 1) := hl
      rw [if_neg hl']
      exact ⟨w, rfl, hi, hs, rfl, by omega⟩

/-! ### `encWrite` -/

theorem encWrite_ok_I (c : Cfg) (hc : CfgOk1 c) (M : Matcher σ) (I : σ → ByteArray → ByteArray → Prop)
    (hI : MatcherInv' c.w2 M I) (p : ByteArray) :
    ∀ (fuel : Nat) (w : St σ) (n : Nat), Inv c w → I w.m w.hist w.look → n ≤ p.size →
      (p.size - n) + (if 1 ≤ w.dictAvail c then 1 else 2) ≤ fuel →
      ∃ w', encWrite c M p fuel w n = some (w', p.size) ∧ Inv c w' ∧ I w'.m w'.hist w'.look ∧
        w'.hist ++ w'.look = w.hist ++ w.look ++ p.extract n p.size := by
  intro fuel
  induction fuel with
  | zero => intro w n _ _ _ h; split at h <;> omega
  | succ fuel ih =>
    intro w n hi hs hn hf
    unfold encWrite
    simp only []
    generalize hk : min (p.size - n) (w.dictAvail c) = k
    have hex : (p.extract n (n + k)).size = k := by
      rw [ByteArray.size_extract]; omega
    have hi1 : Inv c { w with look := w.look ++ p.extract n (n + k) } := by
      refine ⟨hi.enc, hi.ops, ?_, hi.r0⟩
      show (w.look ++ p.extract n (n + k)).size + min w.hist.size c.dictCap ≤ _
      have := hi.space
      rw [ByteArray.size_append, hex]
      unfold St.dictAvail at hk
      omega
    have hs1 : I ({ w with look := w.look ++ p.extract n (n + k) } : St σ).m
        ({ w with look := w.look ++ p.extract n (n + k) } : St σ).hist
        ({ w with look := w.look ++ p.extract n (n + k) } : St σ).look :=
      hI.grow w.m w.hist w.look (p.extract n (n + k)) hs hi1.space
    have hls : ({ w with look := w.look ++ p.extract n (n + k) } : St σ).look.size = w.look.size + k := by
      show (w.look ++ p.extract n (n + k)).size = _
      rw [ByteArray.size_append, hex]
    have hd1 : ({ w with look := w.look ++ p.extract n (n + k) } : St σ).hist ++
        ({ w with look := w.look ++ p.extract n (n + k) } : St σ).look = w.hist ++ w.look ++ p.extract n (n + k) := by
      show w.hist ++ (w.look ++ p.extract n (n + k)) = _
      rw [ByteArray.append_assoc]
    generalize ({ w with look := w.look ++ p.extract n (n + k) } : St σ) = w1 at *
    have hls' : (w.look ++ p.extract n (n + k)).size = w1.look.size := by
      rw [hls, ByteArray.size_append, hex]
    by_cases hlt : n + k < p.size
    · rw [if_pos hlt, hls']
      obtain ⟨w2, a1, a2, as, a3, a4⟩ := compress_ok_I c hc M I hI false (w1.look.size + 1) w1 hi1 hs1 (by omega)
      rw [a1]
      simp only []
      have hav : 1 ≤ w2.dictAvail c := by
        have hb := hc.2.2
        unfold thr Gen.lzma_maxMatchLen at a4
        unfold Gen.lzma_maxMatchLen at hb
        simp only [Bool.false_eq_true, if_false] at a4
        unfold St.dictAvail
        omega
      have hkpos : 1 ≤ k ∨ ¬ 1 ≤ w.dictAvail c := by omega
      obtain ⟨w3, b1, b2, bs, b3⟩ := ih w2 (n + k) a2 as (by omega) (by
        rw [if_pos hav]
        split at hf <;> omega)
      refine ⟨w3, b1, b2, bs, ?_⟩
      rw [b3, a3, hd1, ByteArray.append_assoc, ByteArray.extract_append_extract,
        Nat.min_eq_left (by omega), Nat.max_eq_right (by omega)]
    · rw [if_neg hlt]
      have : n + k = p.size := by omega
      rw [this]
      refine ⟨w1, rfl, hi1, hs1, ?_⟩
      rw [hd1, this]

/-! ### `write` -/

theorem write_ok_I (c : Cfg) (hc : CfgOk1 c) (M : Matcher σ) (I : σ → ByteArray → ByteArray → Prop)
    (hI : MatcherInv' c.w2 M I) (w : St σ) (p : ByteArray)
    (hi : Inv c w) (hs : I w.m w.hist w.look) (room : Nat)
    (hroom : room = match c.size with
      | some sz => sz - (w.hist.size + w.look.size)
      | none => p.size) :
    ∃ w', write c M w p = (w', min p.size room, if min p.size room < p.size then some .noSpace else none) ∧
      Inv c w' ∧ I w'.m w'.hist w'.look ∧
      w'.hist ++ w'.look = w.hist ++ w.look ++ p.extract 0 (min p.size room) := by
  have key : ∀ q : ByteArray, ∃ w', encWrite c M q (q.size + 2) w 0 = some (w', q.size) ∧ Inv c w' ∧
      I w'.m w'.hist w'.look ∧ w'.hist ++ w'.look = w.hist ++ w.look ++ q := by
    intro q
    obtain ⟨w', a1, a2, as, a3⟩ :=
      encWrite_ok_I c hc M I hI q (q.size + 2) w 0 hi hs (Nat.zero_le _) (by split <;> omega)
    refine ⟨w', a1, a2, as, ?_⟩
    rw [a3, ByteArray.extract_zero_size]
  unfold write
  cases hsz : c.size with
  | none =>
    rw [hsz] at hroom
    dsimp only at hroom ⊢
    subst hroom
    obtain ⟨w', a1, a2, as, a3⟩ := key p
    rw [a1]
    refine ⟨w', ?_, a2, as, ?_⟩
    · simp only [Nat.min_self, Nat.lt_irrefl, if_false, Bool.false_eq_true]
    · rw [a3, Nat.min_self, ByteArray.extract_zero_size]
  | some sz =>
    rw [hsz] at hroom
    dsimp only at hroom ⊢
    subst hroom
    by_cases hlt : sz - (w.hist.size + w.look.size) < p.size
    · rw [if_pos hlt]
      dsimp only
      obtain ⟨w', a1, a2, as, a3⟩ := key (p.extract 0 (sz - (w.hist.size + w.look.size)))
      rw [a1]
      have hqs : (p.extract 0 (sz - (w.hist.size + w.look.size))).size = sz - (w.hist.size + w.look.size) := by
        rw [ByteArray.size_extract]; omega
      have hmin : min p.size (sz - (w.hist.size + w.look.size)) = sz - (w.hist.size + w.look.size) := by omega
      refine ⟨w', ?_, a2, as, ?_⟩
      · rw [hmin, hqs, if_pos hlt]
        simp only [if_true]
      · rw [a3, hmin]
    · rw [if_neg hlt]
      dsimp only
      obtain ⟨w', a1, a2, as, a3⟩ := key p
      rw [a1]
      have hmin : min p.size (sz - (w.hist.size + w.look.size)) = p.size := by omega
      refine ⟨w', ?_, a2, as, ?_⟩
      · rw [hmin]
        simp only [Nat.lt_irrefl, if_false, Bool.false_eq_true]
      · rw [a3, hmin, ByteArray.extract_zero_size]

/-! ### `close` -/

theorem close_ok_I (c : Cfg) (hc : CfgOk1 c) (M : Matcher σ) (I : σ → ByteArray → ByteArray → Prop)
    (hI : MatcherInv' c.w2 M I) (w : St σ) (hi : Inv c w) (hs : I w.m w.hist w.look)
    (hsz : ∀ sz, c.size = some sz → w.hist.size + w.look.size = sz) :
    ∃ (w1 wf : St σ), close c M w = .ok (wf, Lzma1.encode c.header w1.ops c.marker) ∧ Inv c w1 ∧
      w1.hist = w.hist ++ w.look := by
  obtain ⟨w1, a1, a2, _, a3, a4⟩ := compress_ok_I c hc M I hI true (w.look.size + 1) w hi hs (by omega)
  have hl : w1.look = ByteArray.empty := by
    apply ByteArray.size_eq_zero_iff.mp
    unfold thr at a4
    simp only [if_true] at a4
    omega
  rw [hl, ByteArray.append_empty] at a3
  unfold close
  simp only [a1]
  rw [if_neg (by
    cases hcs : c.size with
    | none => simp
    | some sz => simp [hsz sz hcs])]
  refine ⟨w1, { w1 with tbl := (closeTE c w1).1, e := (closeTE c w1).2 }, ?_, a2, a3⟩
  have henc := Lzma1.encode_eq c.header w1.ops.toList c.marker
  rw [Array.toArray_toList] at henc
  rw [henc, ← HK0_eq]
  have hb := close_body c hc w1 a2
  rw [show c.header.props = c.props from rfl, ← hb]
  rfl

/-! ### `run` -/

theorem acceptedData_cons (size : Option Nat) (acc : Nat) (p : ByteArray) (ps : List ByteArray) (room : Nat)
    (h : (match size with
      | some sz => sz - acc
      | none => p.size) = room) :
    acceptedData size acc (p :: ps) = p.extract 0 (min p.size room) ++ acceptedData size (acc + min p.size room) ps := by
  subst h
  cases size <;> rfl

theorem specWrites_cons (size : Option Nat) (acc : Nat) (p : ByteArray) (ps : List ByteArray) (room : Nat)
    (h : (match size with
      | some sz => sz - acc
      | none => p.size) = room) :
    specWrites size acc (p :: ps) =
      (min p.size room, if min p.size room < p.size then some .noSpace else none) ::
        specWrites size (acc + min p.size room) ps := by
  subst h
  cases size <;> rfl

theorem run_spec_I (c : Cfg) (hc : CfgOk c) (M : Matcher σ) (I : σ → ByteArray → ByteArray → Prop)
    (hI : MatcherInv' c.w2 M I) :
    ∀ (ps : List ByteArray) (w : St σ), Inv c w → I w.m w.hist w.look →
      ∃ wf : St σ, Inv c wf ∧ I wf.m wf.hist wf.look ∧
        wf.hist ++ wf.look = w.hist ++ w.look ++ acceptedData c.size (w.hist.size + w.look.size) ps ∧
        (run c M w (ps.map .write ++ [.close])).1 =
          specWrites c.size (w.hist.size + w.look.size) ps ++ (run c M wf [.close]).1 ∧
        (run c M w (ps.map .write ++ [.close])).2 = (run c M wf [.close]).2 := by
  intro ps
  induction ps with
  | nil =>
    intro w hi hs
    refine ⟨w, hi, hs, ?_, rfl, rfl⟩
    simp only [acceptedData, ByteArray.append_empty]
  | cons p ps ih =>
    intro w hi hs
    obtain ⟨room, hroom⟩ : ∃ room, (match c.size with
      | some sz => sz - (w.hist.size + w.look.size)
      | none => p.size) = room := ⟨_, rfl⟩
    obtain ⟨w', a1, a2, as, a3⟩ := write_ok_I c (cfgOk1 hc) M I hI w p hi hs room hroom.symm
    have hn : (p.extract 0 (min p.size room)).size = min p.size room := by
      rw [ByteArray.size_extract]; omega
    have hacc : w'.hist.size + w'.look.size = w.hist.size + w.look.size + min p.size room := by
      have := congrArg ByteArray.size a3
      simp only [ByteArray.size_append, hn] at this
      exact this
    obtain ⟨wf, b1, bs, b2, b3, b4⟩ := ih w' a2 as
    rw [hacc] at b2 b3
    refine ⟨wf, b1, bs, ?_, ?_, ?_⟩
    · rw [b2, a3, acceptedData_cons _ _ _ _ room hroom]
      simp only [ByteArray.append_assoc]
    · rw [specWrites_cons _ _ _ _ room hroom]
      simp only [List.map_cons, List.cons_append, run_write, a1, b3]
    · simp only [List.map_cons, List.cons_append, run_write, a1, b4]

theorem run_init_I (c : Cfg) (hc : CfgOk c) (M : Matcher σ) (I : σ → ByteArray → ByteArray → Prop)
    (hI : MatcherInv' c.w2 M I) (m0 : σ) (h0 : I m0 ByteArray.empty ByteArray.empty) (ps : List ByteArray) :
    ∃ wf : St σ, Inv c wf ∧ I wf.m wf.hist wf.look ∧ wf.hist ++ wf.look = acceptedData c.size 0 ps ∧
      (run c M (init c m0) (ps.map .write ++ [.close])).1 = specWrites c.size 0 ps ++ (run c M wf [.close]).1 ∧
      (run c M (init c m0) (ps.map .write ++ [.close])).2 = (run c M wf [.close]).2 := by
  obtain ⟨wf, b1, bs, b2, b3, b4⟩ := run_spec_I c hc M I hI ps (init c m0) (init_inv c m0) h0
  have h0' : (init c m0).hist.size + (init c m0).look.size = 0 := rfl
  have he : (init c m0).hist ++ (init c m0).look = ByteArray.empty := rfl
  rw [h0'] at b2 b3
  rw [he, ByteArray.empty_append] at b2
  exact ⟨wf, b1, bs, b2, b3, b4⟩

/-- `writes_spec` for a self-synchronising match finder -/
theorem writes_I (c : Cfg) (hc : CfgOk c) (M : Matcher σ) (I : σ → ByteArray → ByteArray → Prop)
    (hI : MatcherInv' c.w2 M I) (m0 : σ) (h0 : I m0 ByteArray.empty ByteArray.empty) (ps : List ByteArray) :
    (run c M (init c m0) (ps.map .write ++ [.close])).1.take ps.length = specWrites c.size 0 ps := by
  obtain ⟨wf, _, _, _, h3, _⟩ := run_init_I c hc M I hI m0 h0 ps
  rw [h3]
  exact List.take_left' (specWrites_length c.size ps 0)

/-- `close_spec` for a self-synchronising match finder -/
theorem closes_I (c : Cfg) (hc : CfgOk c) (M : Matcher σ) (I : σ → ByteArray → ByteArray → Prop)
    (hI : MatcherInv' c.w2 M I) (m0 : σ) (h0 : I m0 ByteArray.empty ByteArray.empty)
    (ps : List ByteArray) (cfgCap : Nat) :
    let res := run c M (init c m0) (ps.map .write ++ [.close])
    let data := acceptedData c.size 0 ps
    ((match c.size with
      | some sz => data.size ≠ sz
      | none => False) →
      (res.1.drop ps.length = [(0, some .size)] ∧ res.2 = none))
    ∧
    ((match c.size with
      | some sz => data.size = sz
      | none => True) →
      res.1.drop ps.length = [(0, none)] ∧
      ∃ o, res.2 = some o ∧ o.extract 0 13 = Lzma1.headerBytes c.header ∧
        (Lzma1.read cfgCap o).status = .eof ∧ (Lzma1.read cfgCap o).out = data ∧
        (Lzma1.read cfgCap o).consumed = o.size ∧ (Lzma1.read cfgCap o).marker = c.marker ∧
        (Lzma1.read cfgCap o).openError = false) := by
  intro res data
  obtain ⟨wf, hi, hs, hd, h3, h4⟩ := run_init_I c hc M I hI m0 h0 ps
  have hdrop : res.1.drop ps.length = (run c M wf [.close]).1 := by
    show (run c M (init c m0) (ps.map .write ++ [.close])).1.drop ps.length = _
    rw [h3]
    exact List.drop_left' (specWrites_length c.size ps 0)
  have hres2 : res.2 = (run c M wf [.close]).2 := h4
  have hsize : wf.hist.size + wf.look.size = data.size := by
    have := congrArg ByteArray.size hd
    simp only [ByteArray.size_append] at this
    exact this
  rw [hdrop, hres2]
  constructor
  · intro hne
    cases hcs : c.size with
    | none => rw [hcs] at hne; exact absurd hne id
    | some sz =>
      rw [hcs] at hne
      dsimp only at hne
      have := close_size c M wf sz hcs (by rw [hsize]; exact hne)
      rw [run_close_err c M wf _ this]
      exact ⟨rfl, rfl⟩
  · intro heq
    have hsz : ∀ sz, c.size = some sz → wf.hist.size + wf.look.size = sz := by
      intro sz hcs
      rw [hcs] at heq
      dsimp only at heq
      rw [hsize]; exact heq
    obtain ⟨w1, wf', hcl, hi1, hh1⟩ := close_ok_I c (cfgOk1 hc) M I hI wf hi hs hsz
    rw [run_close_ok c M wf wf' _ hcl]
    refine ⟨rfl, _, rfl, encode_extract _ _ _, ?_⟩
    have hdata : w1.hist = data := by rw [hh1, hd]
    have := read_close c hc w1 hi1 cfgCap (by
      intro sz hcs
      rw [hh1, ByteArray.size_append]
      exact hsz sz hcs)
    rw [hdata] at this
    exact this

end W1
