import XzVerif.Gen.GoSrc
import XzVerif.Model.HashTable
import XzVerif.Proofs.GoSrcHash
/-
  Proofs.GoSrcHash2 — the REGENERATED translation of `hashTable.getMatches` (the walk along the delta chain of a hash slot:
  tail position, the ring index `rear + delta` with its wrap, the out-parameter `positions`) refines `Tab.getMatches` of
  Model/HashTable.lean: the same positions, most recent first, at most len(positions).  Statements are fixed.
-/
namespace GoSrcP
open GoSrc


/-- the model's chain walk without the accumulator -/
def gmChain (t : HT.Tab) (B T : Nat) : Nat → Nat → List Nat
  | 0, _ => []
  | m + 1, d => (T + d) ::
      (if m = 0 then [] else
       if t.data.getD ((t.front + t.data.size - B + d) % t.data.size) 0 = 0 ∨
          t.data.getD ((t.front + t.data.size - B + d) % t.data.size) 0 > d then []
       else gmChain t B T m (d - t.data.getD ((t.front + t.data.size - B + d) % t.data.size) 0))

theorem gm_go_eq_chain (t : HT.Tab) (B T : Nat) : ∀ m d acc,
    HT.Tab.getMatches.go t B T m d acc = acc.reverse ++ gmChain t B T m d := by
  intro m
  induction m with
  | zero => intro d acc; simp [HT.Tab.getMatches.go, gmChain]
  | succ m ih =>
    intro d acc
    unfold HT.Tab.getMatches.go gmChain
    by_cases hm : m = 0
    · simp [hm]
    · simp only [hm, if_false]
      split
      · simp
      · rw [ih]; simp

theorem gm_loop2_eq_loop1 : ∀ fuel g h positions n bufb tailb rear posb delta,
    hashTable_getMatches_loop2 fuel g h positions n bufb tailb rear posb delta =
    hashTable_getMatches_loop1 fuel g h positions n bufb tailb rear posb delta := by
  intro fuel
  induction fuel with
  | zero => intros; rfl
  | succ f ih =>
    intros
    unfold hashTable_getMatches_loop2 hashTable_getMatches_loop1
    simp only [ih]


theorem gm_mod2 (x s : Nat) (h : x < 2 * s) : x % s = if x < s then x else x - s := by
  split
  · exact Nat.mod_eq_of_lt ‹_›
  · rw [Nat.mod_eq_sub_mod (by omega), Nat.mod_eq_of_lt (by omega)]

theorem gm_loop1_stop (f : Nat) (g : T_hashTable) (h : BitVec 64) (positions : Array (BitVec 64))
    (n bufb tailb rear posb delta : BitVec 64) (hneg : BitVec.slt delta 0#64 = true) :
    hashTable_getMatches_loop1 (f + 1) g h positions n bufb tailb rear posb delta
      = Go.Res.ok (Sum.inl (n, positions)) := by
  unfold hashTable_getMatches_loop1
  simp only [hneg, if_true]

theorem gm_loop1_step (f : Nat) (g : T_hashTable) (h : BitVec 64) (positions : Array (BitVec 64))
    (bufb tailb rear posb : BitVec 64) (k d B front : Nat) (hk : k < 16) (hps : positions.size = 16)
    (hsz : g.data.size < 2 ^ 62) (hfront : front < g.data.size) (hB : B ≤ g.data.size) (hd : d < B)
    (hrear : rear.toNat + B + (if B ≤ front then g.data.size else 0) = 2 ^ 64 + front) :
    hashTable_getMatches_loop1 (f + 1) g h positions (BitVec.ofNat 64 k) bufb tailb rear posb (BitVec.ofNat 64 d)
      = if k + 1 = 16 then
          Go.Res.ok (Sum.inl (BitVec.ofNat 64 (k + 1), positions.setIfInBounds k (tailb + BitVec.ofNat 64 d)))
        else if g.data.getD ((front + g.data.size - B + d) % g.data.size) 0#32 = 0#32 then
          Go.Res.ok (Sum.inl (BitVec.ofNat 64 (k + 1), positions.setIfInBounds k (tailb + BitVec.ofNat 64 d)))
        else
          hashTable_getMatches_loop1 f g h (positions.setIfInBounds k (tailb + BitVec.ofNat 64 d))
            (BitVec.ofNat 64 (k + 1)) bufb tailb rear posb
            (BitVec.ofNat 64 d - BitVec.setWidth 64 (g.data.getD ((front + g.data.size - B + d) % g.data.size) 0#32)) := by
  rw [gm_mod2 _ _ (by omega)]
  generalize hidx : (if front + g.data.size - B + d < g.data.size then front + g.data.size - B + d
      else front + g.data.size - B + d - g.data.size) = idx
  have hidxlt : idx < g.data.size := by rw [← hidx]; split <;> omega
  conv => lhs; unfold hashTable_getMatches_loop1
  have hdn : (BitVec.ofNat 64 d).toNat = d := by rw [BitVec.toNat_ofNat]; omega
  have hkn : (BitVec.ofNat 64 k).toNat = k := by rw [BitVec.toNat_ofNat]; omega
  have hsn : (BitVec.ofNat 64 g.data.size).toNat = g.data.size := by rw [BitVec.toNat_ofNat]; omega
  have h0 : BitVec.slt (BitVec.ofNat 64 d) 0#64 = false := by
    simp only [BitVec.slt, BitVec.toInt_eq_toNat_cond, decide_eq_false_iff_not]; bv_omega
  have hki : (BitVec.ofNat 64 k).toInt = (k : Int) := by
    simp only [BitVec.toInt_eq_toNat_cond]; omega
  have hk1 : BitVec.ofNat 64 k + 1#64 = BitVec.ofNat 64 (k + 1) := by
    apply BitVec.eq_of_toNat_eq; simp only [BitVec.toNat_add, BitVec.toNat_ofNat]; omega
  have hle : BitVec.sle (BitVec.ofNat 64 16) (BitVec.ofNat 64 (k + 1)) = decide (k + 1 = 16) := by
    rw [Bool.eq_iff_iff]
    simp only [BitVec.sle, BitVec.toInt_eq_toNat_cond, decide_eq_true_iff, BitVec.toNat_ofNat]; omega
  simp only [h0, hki, Int.toNat_natCast, Bool.false_eq_true, if_false, hps, hk1, Array.size_setIfInBounds, hle,
    decide_eq_true_iff]
  rw [if_neg (by omega)]
  by_cases hk16 : k + 1 = 16
  · simp only [hk16, if_true]
  · simp only [hk16, if_false]
    generalize BitVec.ofNat 64 g.data.size = nb at *
    generalize BitVec.ofNat 64 d = db at *
    by_cases hc : (rear + db).toNat < 2 ^ 63
    · have h1 : BitVec.slt (rear + db) 0#64 = false := by
        simp only [BitVec.slt, BitVec.toInt_eq_toNat_cond, decide_eq_false_iff_not]; bv_omega
      have h2 : (rear + db).toInt = (idx : Int) := by
        simp only [BitVec.toInt_eq_toNat_cond]; split at hrear <;> split at hidx <;> bv_omega
      simp only [h1, h2, Bool.false_eq_true, if_false, Int.toNat_natCast, beq_iff_eq]
      rw [if_neg (by omega)]
    · have h1 : BitVec.slt (rear + db) 0#64 = true := by
        simp only [BitVec.slt, BitVec.toInt_eq_toNat_cond, decide_eq_true_iff]; bv_omega
      have h2 : (rear + db + nb).toInt = (idx : Int) := by
        simp only [BitVec.toInt_eq_toNat_cond]; split at hrear <;> split at hidx <;> bv_omega
      simp only [h1, h2, if_true, Int.toNat_natCast, beq_iff_eq]
      rw [if_neg (by omega)]


theorem gm_getD_set_ne {α} (a : Array α) (k j : Nat) (v x : α) (h : j ≠ k) :
    (a.setIfInBounds k v).getD j x = a.getD j x := by
  simp only [Array.getD_eq_getD_getElem?, Array.getElem?_setIfInBounds]
  rw [if_neg (by omega)]

theorem gm_getD_set_eq {α} (a : Array α) (k : Nat) (v x : α) (h : k < a.size) :
    (a.setIfInBounds k v).getD k x = v := by
  simp only [Array.getD_eq_getD_getElem?, Array.getElem?_setIfInBounds, if_true, h]
  rfl

/-- what the loop has to deliver: `l` appended to the first `k` positions -/
def GmPost (res : Go.Res (Sum ((BitVec 64) × (Array (BitVec 64))) (GoSrc.T_hashTable × (BitVec 64) × (Array (BitVec 64)) × (BitVec 64) × (BitVec 64) × (BitVec 64) × (BitVec 64) × (BitVec 64) × (BitVec 64))))
    (positions : Array (BitVec 64)) (k : Nat) (l : List Nat) : Prop :=
  ∃ n pos', res = Go.Res.ok (Sum.inl (BitVec.ofNat 64 n, pos')) ∧ n = k + l.length ∧ pos'.size = 16 ∧
    (∀ j, j < k → pos'.getD j 0#64 = positions.getD j 0#64) ∧
    ∀ j, j < l.length → (pos'.getD (k + j) 0#64).toNat = l.getD j 0

theorem gm_post_single (positions : Array (BitVec 64)) (k x : Nat) (v : BitVec 64) (hps : positions.size = 16)
    (hk : k < 16) (hv : v.toNat = x) :
    GmPost (Go.Res.ok (Sum.inl (BitVec.ofNat 64 (k + 1), positions.setIfInBounds k v))) positions k [x] := by
  refine ⟨k + 1, _, rfl, rfl, by simp [hps], ?_, ?_⟩
  · intro j hj; exact gm_getD_set_ne _ _ _ _ _ (by omega)
  · intro j hj
    have : j = 0 := by simpa using hj
    subst this
    rw [Nat.add_zero, gm_getD_set_eq _ _ _ _ (by omega), hv]; rfl

theorem gm_post_cons (res) (positions : Array (BitVec 64)) (k x : Nat) (v : BitVec 64) (l : List Nat)
    (hps : positions.size = 16) (hk : k < 16) (hv : v.toNat = x)
    (hp : GmPost res (positions.setIfInBounds k v) (k + 1) l) : GmPost res positions k (x :: l) := by
  obtain ⟨n, pos', h1, h2, h3, h4, h5⟩ := hp
  refine ⟨n, pos', h1, by simp only [List.length_cons]; omega, h3, ?_, ?_⟩
  · intro j hj; rw [h4 j (by omega)]; exact gm_getD_set_ne _ _ _ _ _ (by omega)
  · intro j hj
    cases j with
    | zero => rw [Nat.add_zero, h4 k (by omega), gm_getD_set_eq _ _ _ _ (by omega), hv]; rfl
    | succ j =>
      rw [show k + (j + 1) = k + 1 + j by omega, h5 j (by simpa using hj)]; rfl

theorem gm_loop1_spec (g : T_hashTable) (t : HT.Tab) (rel : TabRel g t) (h bufb tailb rear posb : BitVec 64)
    (B T : Nat) (hB : B ≤ t.data.size) (hT : T + B < 2 ^ 62) (htail : tailb.toNat = T)
    (hrear : rear.toNat + B + (if B ≤ t.front then t.data.size else 0) = 2 ^ 64 + t.front) :
    ∀ m k d f (positions : Array (BitVec 64)), positions.size = 16 → k + (m + 1) = 16 → m + 1 ≤ f → d < B →
      GmPost (hashTable_getMatches_loop1 f g h positions (BitVec.ofNat 64 k) bufb tailb rear posb (BitVec.ofNat 64 d))
        positions k (gmChain t B T (m + 1) d) := by
  obtain ⟨-, -, -, hds, hdv, -, hfin, -, -, -, -, hsmall⟩ := rel
  have hval : ∀ d, d < B → (tailb + BitVec.ofNat 64 d).toNat = T + d := by
    intro d hd
    rw [BitVec.toNat_add, BitVec.toNat_ofNat, htail]; omega
  intro m
  induction m with
  | zero =>
    intro k d f positions hps hk hf hd
    obtain ⟨f, rfl⟩ : ∃ f', f = f' + 1 := ⟨f - 1, by omega⟩
    rw [gm_loop1_step f g h positions bufb tailb rear posb k d B t.front (by omega) hps (by omega) (by omega)
      (by omega) hd (by rw [hds]; exact hrear)]
    rw [if_pos (show k + 1 = 16 by omega)]
    simp only [gmChain, if_true]
    exact gm_post_single _ _ _ _ hps (by omega) (hval d hd)
  | succ m ih =>
    intro k d f positions hps hk hf hd
    obtain ⟨f, rfl⟩ : ∃ f', f = f' + 1 := ⟨f - 1, by omega⟩
    rw [gm_loop1_step f g h positions bufb tailb rear posb k d B t.front (by omega) hps (by omega) (by omega)
      (by omega) hd (by rw [hds]; exact hrear)]
    rw [if_neg (show ¬ (k + 1 = 16) by omega)]
    have hpos : 0 < t.data.size := by omega
    have hu := hdv ((t.front + t.data.size - B + d) % t.data.size) (Nat.mod_lt _ hpos)
    rw [gmChain, if_neg (show ¬ (m + 1 = 0) by omega), hds]
    generalize g.data.getD ((t.front + t.data.size - B + d) % t.data.size) 0#32 = ub at *
    generalize t.data.getD ((t.front + t.data.size - B + d) % t.data.size) 0 = u at *
    have hub := ub.isLt
    by_cases hu0 : u = 0
    · have : ub = 0#32 := by apply BitVec.eq_of_toNat_eq; rw [hu, hu0]; rfl
      rw [if_pos this, if_pos (Or.inl hu0)]
      exact gm_post_single _ _ _ _ hps (by omega) (hval d hd)
    · have : ¬ ub = 0#32 := by intro hh; rw [hh] at hu; exact hu0 hu.symm
      rw [if_neg this]
      by_cases hgt : u > d
      · rw [if_pos (Or.inr hgt)]
        obtain ⟨f, rfl⟩ : ∃ f', f = f' + 1 := ⟨f - 1, by omega⟩
        rw [gm_loop1_stop]
        · exact gm_post_single _ _ _ _ hps (by omega) (hval d hd)
        · simp only [BitVec.slt, BitVec.toInt_eq_toNat_cond, decide_eq_true_iff, BitVec.toNat_sub,
            BitVec.toNat_setWidth, BitVec.toNat_ofNat]
          omega
      · rw [if_neg (show ¬ (u = 0 ∨ u > d) by omega)]
        have hdel : BitVec.ofNat 64 d - BitVec.setWidth 64 ub = BitVec.ofNat 64 (d - u) := by
          apply BitVec.eq_of_toNat_eq
          simp only [BitVec.toNat_sub, BitVec.toNat_setWidth, BitVec.toNat_ofNat]
          omega
        rw [hdel]
        exact gm_post_cons _ _ _ _ _ _ hps (by omega) (hval d hd)
          (ih (k + 1) (d - u) f _ (by simp [hps]) (by omega) (by omega) (by omega))



theorem gm_delta_neg (entryb tailb : BitVec 64) (entry T : Nat) (hev : entryb.toNat = entry)
    (htail : tailb.toNat = T) (hesm : entry < 2 ^ 62) (hT : T < 2 ^ 62) (hstop : entry = 0 ∨ entry - 1 < T) :
    BitVec.slt (entryb - 1#64 - tailb) 0#64 = true := by
  simp only [BitVec.slt, BitVec.toInt_eq_toNat_cond, decide_eq_true_iff]
  bv_omega

theorem gm_delta_pos (entryb tailb : BitVec 64) (entry T : Nat) (hev : entryb.toNat = entry)
    (htail : tailb.toNat = T) (hesm : entry < 2 ^ 62) (hT : T < 2 ^ 62) (hstop : ¬ (entry = 0 ∨ entry - 1 < T)) :
    entryb - 1#64 - tailb = BitVec.ofNat 64 (entry - 1 - T) := by
  apply BitVec.eq_of_toNat_eq
  rw [BitVec.toNat_ofNat]
  bv_omega
theorem gm_buffered_aux (hoffb nb : BitVec 64) (n sz : Nat) (hoff : hoffb.toInt = (n : Int) - 4)
    (hnb : nb.toNat = sz) (hn : n < 2 ^ 62) (hsz : sz < 2 ^ 62) :
    (if (BitVec.sle (hoffb + 1#64) (0#64)) then (0#64)
     else if (BitVec.sle nb (hoffb + 1#64)) then nb else hoffb + 1#64).toNat
    = if n < 4 then 0 else if n - 3 ≥ sz then sz else n - 3 := by
  have hl := hoffb.isLt
  simp only [BitVec.toInt_eq_toNat_cond] at hoff
  by_cases h4 : n < 4
  · have h1 : BitVec.sle (hoffb + 1#64) (0#64) = true := by
      simp only [BitVec.sle, BitVec.toInt_eq_toNat_cond, decide_eq_true_iff]
      split at hoff <;> bv_omega
    simp only [h1, if_true, h4]; rfl
  · have hoffn : hoffb.toNat = n - 4 := by split at hoff <;> omega
    clear hoff
    have h1 : BitVec.sle (hoffb + 1#64) (0#64) = false := by
      simp only [BitVec.sle, BitVec.toInt_eq_toNat_cond, decide_eq_false_iff_not]
      bv_omega
    simp only [h1, Bool.false_eq_true, if_false, h4]
    by_cases hc : n - 3 ≥ sz
    · have h2 : BitVec.sle nb (hoffb + 1#64) = true := by
        simp only [BitVec.sle, BitVec.toInt_eq_toNat_cond, decide_eq_true_iff]
        bv_omega
      simp only [h2, if_true, hc, hnb]
    · have h2 : BitVec.sle nb (hoffb + 1#64) = false := by
        simp only [BitVec.sle, BitVec.toInt_eq_toNat_cond, decide_eq_false_iff_not]
        bv_omega
      simp only [h2, Bool.false_eq_true, if_false, hc]
      bv_omega

theorem gm_buffered (g : T_hashTable) (t : HT.Tab) (rel : TabRel g t) :
    (hashTable_buffered g).toNat = t.buffered := by
  unfold hashTable_buffered HT.Tab.buffered
  exact gm_buffered_aux g.hoff _ t.n t.data.size rel.hoff
    (by rw [BitVec.toNat_ofNat, rel.dsize]; have := rel.small.2; omega) rel.small.1 rel.small.2

theorem getMatches_refines (fuel : Nat) (g : T_hashTable) (t : HT.Tab) (rel : TabRel g t) (h : BitVec 64)
    (positions : Array (BitVec 64)) (hsz : positions.size = 16) (hfuel : 20 ≤ fuel)
    (hord : ∀ i, i < t.t.size → t.t.getD i 0 ≤ t.n - 4 + 1) :
    ∃ n pos', hashTable_getMatches fuel g h positions = Go.Res.ok (BitVec.ofNat 64 n, pos') ∧
      n = (t.getMatches (UInt64.ofNat h.toNat)).length ∧ pos'.size = 16 ∧
      ∀ k, k < n → (pos'.getD k 0#64).toNat = (t.getMatches (UInt64.ofNat h.toNat)).getD k 0 := by
  have hbuf := gm_buffered g t rel
  have rel' := rel
  obtain ⟨hts, htv, htsm, hds, hdv, hfr, hfin, hmask, ⟨e, he30, hme, hte⟩, hoff, hnsm, hdsm⟩ := rel'
  have hh : (UInt64.ofNat h.toNat).toNat = h.toNat := by
    rw [UInt64.toNat_ofNat']; exact Nat.mod_eq_of_lt h.isLt
  unfold hashTable_getMatches HT.Tab.getMatches
  rw [hh]
  by_cases hn4 : t.n < 4
  · have h0 : BitVec.slt g.hoff 0#64 = true := by
      simp only [BitVec.slt, decide_eq_true_iff, hoff]
      show (t.n : Int) - 4 < 0
      omega
    simp only [h0, Bool.true_or, if_true, hn4]
    exact ⟨0, positions, rfl, rfl, hsz, fun k hk => absurd hk (by omega)⟩
  · have hoffn : g.hoff.toNat = t.n - 4 := by
      have := g.hoff.isLt
      simp only [BitVec.toInt_eq_toNat_cond] at hoff
      split at hoff <;> omega
    have h0 : BitVec.slt g.hoff 0#64 = false := by
      simp only [BitVec.slt, decide_eq_false_iff_not, hoff]
      show ¬ ((t.n : Int) - 4 < 0)
      omega
    have h16 : (BitVec.ofNat 64 positions.size == 0#64) = false := by rw [hsz]; decide
    simp only [h0, h16, Bool.or_self, Bool.false_eq_true, if_false, hn4]
    -- the buffered count
    have hBdef : t.buffered = if t.n - 3 ≥ t.data.size then t.data.size else t.n - 3 := by
      unfold HT.Tab.buffered; rw [if_neg hn4]
    generalize t.buffered = B at *
    generalize hashTable_buffered g = bufb at *
    have hB1 : 1 ≤ B := by rw [hBdef]; split <;> omega
    have hB2 : B ≤ t.data.size := by rw [hBdef]; split <;> omega
    have hB3 : B ≤ t.n - 3 := by rw [hBdef]; split <;> omega
    have htail : (g.hoff + 1#64 - bufb).toNat = t.n - 3 - B := by bv_omega
    generalize g.hoff + 1#64 - bufb = tailb at *
    generalize hT : t.n - 3 - B = T at *
    -- the slot
    have hslot : (h &&& g.mask).toNat = h.toNat % (t.mask + 1) := by
      rw [BitVec.toNat_and, hmask, hme, ← Nat.and_two_pow_sub_one_eq_mod, ← hme, Nat.add_sub_cancel]
    have hslotlt : h.toNat % (t.mask + 1) < t.t.size := by
      rw [hme, hte]; exact Nat.mod_lt _ (Nat.two_pow_pos e)
    rw [hslot, hts]
    have hev := htv _ hslotlt
    have hesm := htsm _ hslotlt
    have heord := hord _ hslotlt
    generalize t.t.getD (h.toNat % (t.mask + 1)) 0 = entry at *
    generalize g.t.getD (h.toNat % (t.mask + 1)) 0#64 = entryb at *
    obtain ⟨f, rfl⟩ : ∃ f', fuel = f' + 1 := ⟨fuel - 1, by omega⟩
    -- both branches run the same loop
    have key : ∀ rear : BitVec 64,
        rear.toNat + B + (if B ≤ t.front then t.data.size else 0) = 2 ^ 64 + t.front →
        ∃ n pos', (Go.Res.bind
            (hashTable_getMatches_loop1 (f + 1) g h positions 0#64 bufb tailb rear (entryb - 1#64)
              (entryb - 1#64 - tailb))
            (fun lr_6 => match lr_6 with
              | Sum.inl lr_6 => Go.Res.ok lr_6
              | Sum.inr (t, h, positions, n, buffered, tailPos, rear, pos, delta) => Go.Res.ok (n, positions)))
            = Go.Res.ok (BitVec.ofNat 64 n, pos') ∧
          n = (if entry = 0 then [] else if entry - 1 < T then []
                else HT.Tab.getMatches.go t B T 16 (entry - 1 - T) []).length ∧ pos'.size = 16 ∧
          ∀ k, k < n → (pos'.getD k 0#64).toNat =
            (if entry = 0 then [] else if entry - 1 < T then []
                else HT.Tab.getMatches.go t B T 16 (entry - 1 - T) []).getD k 0 := by
      intro rear hrear
      by_cases hstop : entry = 0 ∨ entry - 1 < T
      · rw [gm_loop1_stop]
        · refine ⟨0, positions, rfl, ?_, hsz, ?_⟩
          · split
            · rfl
            · split
              · rfl
              · exact absurd hstop (by omega)
          · intro k hk; exact absurd hk (Nat.not_lt_zero _)
        · exact gm_delta_neg entryb tailb entry T hev htail hesm (by omega) hstop
      · have hd : entry - 1 - T < B := by omega
        have hdel := gm_delta_pos entryb tailb entry T hev htail hesm (by omega) hstop
        rw [hdel, if_neg (by omega), if_neg (by omega), gm_go_eq_chain]
        obtain ⟨n, pos', h1, h2, h3, -, h5⟩ :=
          gm_loop1_spec g t rel h bufb tailb rear (entryb - 1#64) B T hB2 (by omega) htail hrear
            15 0 (entry - 1 - T) (f + 1) positions hsz rfl (by omega) hd
        refine ⟨n, pos', ?_, ?_, h3, ?_⟩
        · rw [h1]; rfl
        · simpa using h2
        · intro k hk
          have := h5 k (by omega)
          simpa using this
    by_cases hBf : B ≤ t.front
    · have h1 : BitVec.sle 0#64 (g.front - bufb) = true := by
        simp only [BitVec.sle, BitVec.toInt_eq_toNat_cond, decide_eq_true_iff]
        bv_omega
      simp only [h1, if_true]
      rw [if_neg (by omega)]
      apply key
      have hsn : (BitVec.ofNat 64 g.data.size).toNat = t.data.size := by rw [BitVec.toNat_ofNat]; omega
      rw [if_pos hBf]
      bv_omega
    · have h1 : BitVec.sle 0#64 (g.front - bufb) = false := by
        simp only [BitVec.sle, BitVec.toInt_eq_toNat_cond, decide_eq_false_iff_not]
        bv_omega
      simp only [h1, Bool.false_eq_true, if_false]
      rw [if_neg (by omega), gm_loop2_eq_loop1]
      apply key
      rw [if_neg hBf]
      bv_omega

end GoSrcP
