import XzVerif.Proofs.LazyDec2Lemmas

/-! More about the batch LZMA2 reader (its fuel always suffices, its position and output only grow, the range
    decoder only consumes) and what follows for the lazy reader's source position. -/
namespace LazyDec2
open Lzma Rc Ring LazyDec Spec Lzma2

/-! ### the fuel of the batch LZMA2 reader always suffices -/

def FE : Status := .err "fuel exhausted"

theorem finish_props (p : Props) (d : DecSt) :
    (decSegment.finish p false d).status ≠ FE ∧
    (decSegment.finish p false d).d.rd.inp.length ≤ d.rd.inp.length := by
  unfold decSegment.finish FE
  split_ifs with hc
  · exact ⟨by simp, Nat.le_refl _⟩
  · simp at *
  · rcases decStep_cases p d with ⟨d', e, _, e2⟩ | ⟨d', e, _, e2⟩ | ⟨d', e, _, e2⟩ | ⟨d', e, _, e2⟩ <;> rw [e] <;>
      exact ⟨by simp, e2⟩

theorem decSegment_props (p : Props) (sz start : Nat) : ∀ (fb : Nat) (d : DecSt),
    (decSegment p (some sz) start false fb d).d.rd.inp.length ≤ d.rd.inp.length ∧
    (start ≤ d.h.out.size → (sz - (d.h.out.size - start)) + 1 ≤ fb →
      (decSegment p (some sz) start false fb d).status ≠ FE) := by
  intro fb
  induction fb with
  | zero => intro d; exact ⟨Nat.le_refl _, fun _ h => by omega⟩
  | succ fb ih =>
    intro d
    rw [decSegment]
    by_cases h0 : some sz = some (d.h.out.size - start)
    · rw [if_pos h0]
      exact ⟨(finish_props p d).2, fun _ _ => (finish_props p d).1⟩
    rw [if_neg h0]
    rcases decStep_cases p d with ⟨d', e, _, e2⟩ | ⟨d', e, _, e2⟩ | ⟨d', e, _, e2⟩ | ⟨d', e, e1, e2⟩
    · rw [e]; exact ⟨e2, fun _ _ => by simp [FE]⟩
    · rw [e]; exact ⟨e2, fun _ _ => by simp [FE]⟩
    · rw [e]
      simp only [Bool.false_eq_true, if_false]
      split_ifs <;> exact ⟨e2, fun _ _ => by simp [FE]⟩
    · rw [e]
      simp only
      split_ifs with c1 c2
      · exact ⟨e2, fun _ _ => by simp [FE]⟩
      · have := finish_props p d'
        exact ⟨Nat.le_trans this.2 e2, fun _ _ => this.1⟩
      · obtain ⟨i1, i2⟩ := ih d'
        refine ⟨Nat.le_trans i1 e2, fun hs hf => i2 (by omega) ?_⟩
        simp only [Option.some.injEq] at h0
        omega

def CRProps (r : RState) : ChunkRes → Prop
  | .done r' st => st ≠ FE ∧ r.pos ≤ r'.pos ∧ r'.inp = r.inp
  | .next r' => r.pos < r.inp.size ∧ r.pos + 1 ≤ r'.pos ∧ r'.inp = r.inp

theorem hlenOf_pos (k : ChunkKind) : 1 ≤ hlenOf k := by cases k <;> simp [hlenOf]

theorem chunkBody_props (r : RState) (kind : ChunkKind) (hp : Option Props) (seq' : SeqState)
    (h1 : r.pos < r.inp.size) : CRProps r (chunkBody r kind hp seq') := by
  have hl := hlenOf_pos kind
  unfold chunkBody
  simp only
  by_cases cu : kind = .ud ∨ kind = .u
  · rw [if_pos cu]
    unfold uncOut
    split_ifs <;> first
      | exact ⟨by simp [FE], by simp only [afterUnc]; omega, rfl⟩
      | exact ⟨h1, by simp only [afterUnc]; omega, rfl⟩
  rw [if_neg cu]
  cases propsOpt hp r.props with
  | none => exact ⟨by simp [FE], Nat.le_refl _, rfl⟩
  | some p =>
    simp only
    cases Dec.init (bytesToList r.inp (r.pos + hlenOf kind) (r.pos + hlenOf kind +
        min (Lzma2.get r.inp (r.pos + 3) * 256 + Lzma2.get r.inp (r.pos + 4) + 1)
          (r.inp.size - (r.pos + hlenOf kind)))) with
    | none =>
      refine ⟨?_, by simp only; omega, rfl⟩
      rcases initStatus_cases (bytesToList r.inp (r.pos + hlenOf kind) (r.pos + hlenOf kind +
        min (Lzma2.get r.inp (r.pos + 3) * 256 + Lzma2.get r.inp (r.pos + 4) + 1)
          (r.inp.size - (r.pos + hlenOf kind)))) with h | h <;> rw [h] <;> simp [FE]
    | some rd =>
      simp only
      generalize hR : decSegment p _ _ false _ _ = R
      have hst : R.status ≠ FE := by
        rw [← hR]
        exact (decSegment_props p _ _ _ _).2 (Nat.le_refl _) (by simp only; omega)
      unfold lzOut
      cases hs : R.status with
      | eof => exact ⟨h1, by simp only [afterLz]; omega, rfl⟩
      | unexpectedEOF => exact ⟨by simp [FE], by simp only [afterLz]; omega, rfl⟩
      | err w => exact ⟨by rw [← hs]; exact hst, by simp only [afterLz]; omega, rfl⟩

theorem readChunk_props (r : RState) : CRProps r (readChunk false r) := by
  rw [readChunk_eq]
  by_cases c1 : r.pos ≥ r.inp.size
  · rw [if_pos c1]; exact ⟨by simp [FE], Nat.le_refl _, rfl⟩
  rw [if_neg c1]
  cases Spec.ctrl (Lzma2.get r.inp r.pos) with
  | none => exact ⟨by simp [FE], Nat.le_refl _, rfl⟩
  | some kind =>
    simp only
    by_cases c2 : r.pos + hlenOf kind > r.inp.size
    · rw [if_pos c2]; exact ⟨by simp [FE], Nat.le_refl _, rfl⟩
    rw [if_neg c2]
    cases hpropsOf r.inp r.pos kind with
    | none => exact ⟨by simp [FE], Nat.le_refl _, rfl⟩
    | some hp =>
      simp only
      cases seqStep r.seq kind with
      | none => exact ⟨by simp [FE], Nat.le_refl _, rfl⟩
      | some seq' =>
        simp only
        by_cases ce : kind = .eos
        · rw [if_pos ce]; exact ⟨by simp [FE], by simp only; omega, rfl⟩
        · rw [if_neg ce]; exact chunkBody_props r kind hp seq' (by omega)

theorem readAll_props : ∀ (f : Nat) (r : RState),
    r.pos ≤ (readAll false f r).1.pos ∧ (readAll false f r).1.inp = r.inp ∧
    (r.inp.size - r.pos + 1 ≤ f → (readAll false f r).2 ≠ FE) := by
  intro f
  induction f with
  | zero => intro r; exact ⟨Nat.le_refl _, rfl, fun h => by omega⟩
  | succ f ih =>
    intro r
    rw [readAll]
    have := readChunk_props r
    cases hrc : readChunk false r with
    | done r' st =>
      rw [hrc] at this
      simp only
      exact ⟨this.2.1, this.2.2, fun _ => this.1⟩
    | next r' =>
      rw [hrc] at this
      simp only
      obtain ⟨a1, a2, a3⟩ := this
      obtain ⟨i1, i2, i3⟩ := ih r'
      refine ⟨by omega, by rw [i2, a3], fun hf => i3 ?_⟩
      rw [a3]; omega

/-- the batch LZMA2 reader never runs out of fuel -/
theorem decode_fuel (cap : Nat) (inp : ByteArray) (pos : Nat) (out : ByteArray) :
    KB (Lzma2.decode false cap inp pos out) := by
  unfold KB Lzma2.decode
  exact (readAll_props _ _).2.2 (by simp only; omega)


/-! ### the source position of the lazy reader against the batch position -/

variable {cap : Nat} {inp : ByteArray} {off : Nat} {B : RState × Status}

theorem gtr_pos {rb : RState} (hg : GTr B rb) (hK : KB B) : (crState (readChunk false rb)).pos ≤ B.1.pos := by
  obtain ⟨f, hf⟩ := gtr_succ hg hK
  rw [readAll] at hf
  cases hrc : readChunk false rb with
  | done r' st => rw [hrc] at hf; rw [← hf]; exact Nat.le_refl _
  | next r' => rw [hrc] at hf; rw [← hf]; exact (readAll_props _ _).1

theorem C2.pos_le {r : R2} {D : ByteArray} (hc : C2 cap inp off B r D) (hK : KB B) : r.srcPos ≤ B.1.pos := by
  rcases hc with hc | hc
  · obtain ⟨hsrc, hcur, hinp, hdec, p, usize, startB, R, hg, hKB⟩ := hc
    obtain ⟨rb, seq', kind, csize, hp, body, n, k1, k2, k3, k4, k5, k6, k7, k8⟩ := hKB hK
    have hKR := kR_of_KB hK k1 k3
    have hpos := gtr_pos k1 hK
    rw [k3, lzOut_state] at hpos
    obtain ⟨d, hs, hD, h1, h2⟩ := hg
    have hrd : R.d.rd.inp.length ≤ r.l.rd.inp.length := by
      rw [hs.rd]
      cases he : r.l.eos with
      | false =>
        obtain ⟨fb, hfb⟩ := (h1 he).1 hKR
        rw [← hfb]
        exact (decSegment_props p usize startB fb d).1
      | true => rw [(h2 he hKR).2]
    simp only [R2.srcPos, hcur, if_true]
    simp only [afterLz] at hpos
    omega
  · obtain ⟨hsrc, hcur, hinp, hue, h0, body, usize, hrel, hol, hdl, hcapH, hD, hb, hps, hus, huE, hKB⟩ := hc
    obtain ⟨rb, seq', kind, hg, hrc, hl⟩ := hKB hK
    have hpos := gtr_pos hg hK
    rw [hrc, uncOut_state] at hpos
    have hi : rb.inp = inp := hl.inp
    simp only [afterUnc, hi] at hpos
    simp only [R2.srcPos, hcur]
    rw [if_neg (by simp)]
    omega

/-- state of a `Reader2` as the xz block reader holds it: running, or with a stored final status -/
def R2Inv (cap : Nat) (inp : ByteArray) (off : Nat) (B : RState × Status) (p0 : Nat) (r : R2) (D : ByteArray) : Prop :=
  (r.err = none ∧ C2 cap inp off B r D ∧ p0 ≤ r.srcPos) ∨
  (∃ st, r.err = some st ∧ st ≠ .ok ∧ FinSt off B D r st ∧ FinPre off B D ∧ (st = .eof → p0 ≤ r.srcPos))

def R2InvPost (cap : Nat) (inp : ByteArray) (off : Nat) (B : RState × Status) (p0 len : Nat) (D : ByteArray)
    (x : R2 × ByteArray × RStat) : Prop :=
  x.2.1.size ≤ len ∧
  (x.2.2 = .ok → x.2.1.size = len ∧ R2Inv cap inp off B p0 x.1 (D ++ x.2.1) ∧ x.1.err = none ∧
    C2 cap inp off B x.1 (D ++ x.2.1)) ∧
  (x.2.2 ≠ .ok → FinSt off B (D ++ x.2.1) x.1 x.2.2 ∧ FinPre off B (D ++ x.2.1)) ∧
  (x.2.2 = .eof → p0 ≤ x.1.srcPos)

theorem read2_inv (hcap : 274 ≤ cap) {p0 : Nat} {r : R2} {D : ByteArray} (h : R2Inv cap inp off B p0 r D) (len : Nat) :
    R2InvPost cap inp off B p0 len D (read r len) := by
  rcases h with ⟨he, hc, hp⟩ | ⟨st, he, hs, h1, h2, h3⟩
  · obtain ⟨q1, q2, q3, q4⟩ := read2_spec hcap hc he len
    refine ⟨q1, fun h => ?_, fun h => ⟨(q4 h).1, (q4 h).2.1⟩, fun h => Nat.le_trans hp (q2 (Or.inr h))⟩
    obtain ⟨a1, a2, a3⟩ := q3 h
    exact ⟨a1, Or.inl ⟨a3, a2, Nat.le_trans hp (q2 (Or.inl h))⟩, a3, a2⟩
  · have hE : D ++ ByteArray.empty = D := ByteArray.append_empty
    unfold read
    rw [he]
    simp only
    refine ⟨Nat.zero_le _, fun h => absurd h hs, fun _ => by rw [hE]; exact ⟨h1, h2⟩, h3⟩

theorem init_inv (cfgCap : Nat) (inp : ByteArray) (pos0 : Nat) (out0 : ByteArray) :
    R2Inv (if cfgCap = 0 then 8 * 1024 * 1024 else cfgCap) inp out0.size
      (Lzma2.decode false (if cfgCap = 0 then 8 * 1024 * 1024 else cfgCap) inp pos0 out0) pos0
      (newReader2At cfgCap inp pos0) ByteArray.empty := by
  rcases init_spec cfgCap inp pos0 out0 with ⟨h1, h2, h3⟩ | ⟨st, h1, h2, h3, h4, h5⟩
  · exact Or.inl ⟨h1, h2, h3⟩
  · exact Or.inr ⟨st, h1, h2, h3, h4, h5⟩
end LazyDec2
