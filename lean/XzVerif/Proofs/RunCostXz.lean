import XzVerif.Proofs.RunCost128
import XzVerif.Proofs.RunCost97
/-
  Proofs.RunCostXz — C17 clause 1 for the whole xz writer model (one block) on top of the sharper LZMA2 bound of
  Proofs/RunCost128.lean: the container adds the stream header (12), the block header (12), block padding (≤ 3), the
  check, the index (≤ 24) and the footer (12).
-/
namespace RunCost
open W2

/-- HashTable4, one block: `n/500 + 112 + 63 + check size` -/
theorem xz_run_compresses_check (c : XzW.Cfg) (hc : XzW.CfgOk c) (hd : 65536 ≤ c.w2.dictCap) (b : UInt8) (n : Nat)
    (hblk : n ≤ c.blockSize) (hn : n < 2 ^ 40) :
    (XzW.run c HT.HT4 (HT.St.new c.w2.dictCap c.w2.bufSize) [runOf b n]).size ≤
      n / 500 + 112 + 63 + (Xz.checkSize c.flags).getD 0 := by
  obtain ⟨hw2, hbs, hfl⟩ := hc
  have hrun := XzWF.xzw_run_eq c hw2 HT.HT4 (HT.Synced c.w2) (HT.ht4_matcherInv c.w2)
    (HT.St.new c.w2.dictCap c.w2.bufSize) (HT.synced_new c.w2) [runOf b n]
  rw [split_single c.blockSize (runOf b n) (by rw [runOf_size]; exact hblk)] at hrun
  rw [hrun]
  simp only [List.map_cons, List.map_nil]
  have hout : (XzW.runBlock c HT.HT4 (HT.St.new c.w2.dictCap c.w2.bufSize) [runOf b n]).out =
      lzma2OfRun c.w2 b n := rfl
  have hsz := run_compresses_112 c.w2 hw2 hd b n
  have hcs : (Xz.checkSize c.flags).getD 0 ≤ 32 := by
    rcases Xz.checkSize_cases c.flags hfl with h | h | h | h <;> rw [h] <;> decide
  have hbh := XzWF.blockHeader_size c hw2
  have hcat : (XzW.cat [runOf b n]).size = n := by rw [XzW.cat_single, runOf_size]
  have hpl := (Xz.padLen_lt (lzma2OfRun c.w2 b n).size).1
  have hrec1 : (XzWF.recW c HT.HT4 (HT.St.new c.w2.dictCap c.w2.bufSize) [runOf b n]).1 < 2 ^ 63 := by
    show (XzWF.blockHeader c).size + (XzW.runBlock c HT.HT4 _ [runOf b n]).out.size + (Xz.checkSize c.flags).getD 0 < _
    rw [hout, hbh]; omega
  have hrec2 : (XzWF.recW c HT.HT4 (HT.St.new c.w2.dictCap c.w2.bufSize) [runOf b n]).2 < 2 ^ 63 := by
    show (XzW.cat [runOf b n]).size < _
    rw [hcat]; omega
  have hu1 := (Xz.putUvarint_size _ hrec1).2
  have hu2 := (Xz.putUvarint_size _ hrec2).2
  generalize XzWF.recW c HT.HT4 (HT.St.new c.w2.dictCap c.w2.bufSize) [runOf b n] = r at *
  have hib : (Xz.indexBody [r]).size ≤ 4 * 5 := by
    unfold Xz.indexBody Xz.recsBytes Xz.recsBytes
    simp only [ByteArray.size_append, List.length_cons, List.length_nil, ByteArray.size_empty, Nat.zero_add]
    have : (ByteArray.empty.push 0).size = 1 := rfl
    have := putUvarint_one
    omega
  have hidx : (Xz.indexBytes [r]).size ≤ 24 := by
    rw [Xz.indexBytes_size]
    unfold Xz.indexPadded
    rw [ByteArray.size_append, Xz.zeros_size]
    have := pad_le _ 5 hib
    omega
  unfold XzWF.SP XzWF.blockW
  simp only [List.map_cons, List.map_nil, XzW.cat_single, ByteArray.size_append, Xz.streamHeader_size,
    Xz.footerBytes_size, Xz.zeros_size, Xz.checkValue_size c.flags hfl, hout, hbh]
  omega

/-- with no check, CRC32 or CRC64 this is inside the property's allowance for an xz stream of one block (128 + 64) -/
theorem xz_run_compresses_192 (c : XzW.Cfg) (hc : XzW.CfgOk c) (hd : 65536 ≤ c.w2.dictCap) (b : UInt8) (n : Nat)
    (hblk : n ≤ c.blockSize) (hn : n < 2 ^ 40) (hck : (Xz.checkSize c.flags).getD 0 ≤ 17) :
    (XzW.run c HT.HT4 (HT.St.new c.w2.dictCap c.w2.bufSize) [runOf b n]).size ≤ n / 500 + 128 + 64 := by
  have := xz_run_compresses_check c hc hd b n hblk hn
  omega

/-- with the constant 97 of Proofs/RunCost97.lean: HashTable4, one block, ANY check — inside the property's allowance
    for an xz stream of one block (128 + 64) -/
theorem xz_run_compresses_full (c : XzW.Cfg) (hc : XzW.CfgOk c) (hd : 65536 ≤ c.w2.dictCap) (b : UInt8) (n : Nat)
    (hblk : n ≤ c.blockSize) (hn : n < 2 ^ 40) :
    (XzW.run c HT.HT4 (HT.St.new c.w2.dictCap c.w2.bufSize) [runOf b n]).size ≤ n / 500 + 128 + 64 := by
  obtain ⟨hw2, hbs, hfl⟩ := hc
  have hrun := XzWF.xzw_run_eq c hw2 HT.HT4 (HT.Synced c.w2) (HT.ht4_matcherInv c.w2)
    (HT.St.new c.w2.dictCap c.w2.bufSize) (HT.synced_new c.w2) [runOf b n]
  rw [split_single c.blockSize (runOf b n) (by rw [runOf_size]; exact hblk)] at hrun
  rw [hrun]
  simp only [List.map_cons, List.map_nil]
  have hout : (XzW.runBlock c HT.HT4 (HT.St.new c.w2.dictCap c.w2.bufSize) [runOf b n]).out =
      lzma2OfRun c.w2 b n := rfl
  have hsz := run_compresses_97 c.w2 hw2 hd b n
  have hcs : (Xz.checkSize c.flags).getD 0 ≤ 32 := by
    rcases Xz.checkSize_cases c.flags hfl with h | h | h | h <;> rw [h] <;> decide
  have hbh := XzWF.blockHeader_size c hw2
  have hcat : (XzW.cat [runOf b n]).size = n := by rw [XzW.cat_single, runOf_size]
  have hpl := (Xz.padLen_lt (lzma2OfRun c.w2 b n).size).1
  have hrec1 : (XzWF.recW c HT.HT4 (HT.St.new c.w2.dictCap c.w2.bufSize) [runOf b n]).1 < 2 ^ 63 := by
    show (XzWF.blockHeader c).size + (XzW.runBlock c HT.HT4 _ [runOf b n]).out.size + (Xz.checkSize c.flags).getD 0 < _
    rw [hout, hbh]; omega
  have hrec2 : (XzWF.recW c HT.HT4 (HT.St.new c.w2.dictCap c.w2.bufSize) [runOf b n]).2 < 2 ^ 63 := by
    show (XzW.cat [runOf b n]).size < _
    rw [hcat]; omega
  have hu1 := (Xz.putUvarint_size _ hrec1).2
  have hu2 := (Xz.putUvarint_size _ hrec2).2
  generalize XzWF.recW c HT.HT4 (HT.St.new c.w2.dictCap c.w2.bufSize) [runOf b n] = r at *
  have hib : (Xz.indexBody [r]).size ≤ 4 * 5 := by
    unfold Xz.indexBody Xz.recsBytes Xz.recsBytes
    simp only [ByteArray.size_append, List.length_cons, List.length_nil, ByteArray.size_empty, Nat.zero_add]
    have : (ByteArray.empty.push 0).size = 1 := rfl
    have := putUvarint_one
    omega
  have hidx : (Xz.indexBytes [r]).size ≤ 24 := by
    rw [Xz.indexBytes_size]
    unfold Xz.indexPadded
    rw [ByteArray.size_append, Xz.zeros_size]
    have := pad_le _ 5 hib
    omega
  unfold XzWF.SP XzWF.blockW
  simp only [List.map_cons, List.map_nil, XzW.cat_single, ByteArray.size_append, Xz.streamHeader_size,
    Xz.footerBytes_size, Xz.zeros_size, Xz.checkValue_size c.flags hfl, hout, hbh]
  omega

/-- BinaryTree, one block: `n/500 + 117 + 63 + check size` (inside 128 + 64 for no check, CRC32, CRC64) -/
theorem xz_run_compresses_check_bt (c : XzW.Cfg) (hc : XzW.CfgOk c) (hd : 65536 ≤ c.w2.dictCap) (b : UInt8) (n : Nat)
    (hblk : n ≤ c.blockSize) (hn : n < 2 ^ 40) :
    (XzW.run c BT.BT4 (BT.St.new c.w2.dictCap c.w2.bufSize) [runOf b n]).size ≤
      n / 500 + 117 + 63 + (Xz.checkSize c.flags).getD 0 := by
  obtain ⟨hw2, hbs, hfl⟩ := hc
  have hrun := XzWF.xzw_run_eq c hw2 BT.BT4 (BT.Synced c.w2) (BT.bt4_matcherInv c.w2)
    (BT.St.new c.w2.dictCap c.w2.bufSize) (BT.synced_new c.w2) [runOf b n]
  rw [split_single c.blockSize (runOf b n) (by rw [runOf_size]; exact hblk)] at hrun
  rw [hrun]
  simp only [List.map_cons, List.map_nil]
  have hout : (XzW.runBlock c BT.BT4 (BT.St.new c.w2.dictCap c.w2.bufSize) [runOf b n]).out =
      lzma2OfRunBT c.w2 b n := rfl
  have hsz := run_compresses_117_bt c.w2 hw2 hd b n
  have hcs : (Xz.checkSize c.flags).getD 0 ≤ 32 := by
    rcases Xz.checkSize_cases c.flags hfl with h | h | h | h <;> rw [h] <;> decide
  have hbh := XzWF.blockHeader_size c hw2
  have hcat : (XzW.cat [runOf b n]).size = n := by rw [XzW.cat_single, runOf_size]
  have hpl := (Xz.padLen_lt (lzma2OfRunBT c.w2 b n).size).1
  have hrec1 : (XzWF.recW c BT.BT4 (BT.St.new c.w2.dictCap c.w2.bufSize) [runOf b n]).1 < 2 ^ 63 := by
    show (XzWF.blockHeader c).size + (XzW.runBlock c BT.BT4 _ [runOf b n]).out.size + (Xz.checkSize c.flags).getD 0 < _
    rw [hout, hbh]; omega
  have hrec2 : (XzWF.recW c BT.BT4 (BT.St.new c.w2.dictCap c.w2.bufSize) [runOf b n]).2 < 2 ^ 63 := by
    show (XzW.cat [runOf b n]).size < _
    rw [hcat]; omega
  have hu1 := (Xz.putUvarint_size _ hrec1).2
  have hu2 := (Xz.putUvarint_size _ hrec2).2
  generalize XzWF.recW c BT.BT4 (BT.St.new c.w2.dictCap c.w2.bufSize) [runOf b n] = r at *
  have hib : (Xz.indexBody [r]).size ≤ 4 * 5 := by
    unfold Xz.indexBody Xz.recsBytes Xz.recsBytes
    simp only [ByteArray.size_append, List.length_cons, List.length_nil, ByteArray.size_empty, Nat.zero_add]
    have : (ByteArray.empty.push 0).size = 1 := rfl
    have := putUvarint_one
    omega
  have hidx : (Xz.indexBytes [r]).size ≤ 24 := by
    rw [Xz.indexBytes_size]
    unfold Xz.indexPadded
    rw [ByteArray.size_append, Xz.zeros_size]
    have := pad_le _ 5 hib
    omega
  unfold XzWF.SP XzWF.blockW
  simp only [List.map_cons, List.map_nil, XzW.cat_single, ByteArray.size_append, Xz.streamHeader_size,
    Xz.footerBytes_size, Xz.zeros_size, Xz.checkValue_size c.flags hfl, hout, hbh]
  omega


theorem xz_run_compresses_192_bt (c : XzW.Cfg) (hc : XzW.CfgOk c) (hd : 65536 ≤ c.w2.dictCap) (b : UInt8) (n : Nat)
    (hblk : n ≤ c.blockSize) (hn : n < 2 ^ 40) (hck : (Xz.checkSize c.flags).getD 0 ≤ 12) :
    (XzW.run c BT.BT4 (BT.St.new c.w2.dictCap c.w2.bufSize) [runOf b n]).size ≤ n / 500 + 128 + 64 := by
  have := xz_run_compresses_check_bt c hc hd b n hblk hn
  omega

end RunCost

#print axioms RunCost.xz_run_compresses_check
#print axioms RunCost.xz_run_compresses_192
#print axioms RunCost.xz_run_compresses_full
#print axioms RunCost.xz_run_compresses_192_bt
