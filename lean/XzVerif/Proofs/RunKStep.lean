import XzVerif.Proofs.RunHStep

/-!
  Proofs/RunHStep.lean with the irregular operations charged by kind: 63 bits for a literal (9 decisions),
  98 bits for `rep0` (14 decisions), 126 bits for any other operation at a distance ≤ 4, 203 bits for an arbitrary
  one.  The debt `dbtB` of a coder state is now a number of bits.
-/

set_option linter.unusedSimpArgs false
set_option linter.unusedVariables false
set_option maxRecDepth 8000

namespace RunCost
open Lzma Rc W2

variable {σ : Type}

/-- the cost invariant of the open chunk; `dbt` in bits -/
structure LocK (c : Cfg) (dbt : Lzma.St → Nat → Nat) (w : WSt σ) (X E A : Nat) : Prop where
  li : Enc.init.range * S2 w.tbl * LR ^ X * 256 ^ w.digits ≤ w.e.range * S2 w.snapTbl * KR ^ X * 2 ^ E * 256
  x : X * 273 ≤ w.hist.size - w.start
  y : E + dbt w.s w.hist.size ≤ 455 * (w.hist.size / Lc c - w.start / Lc c) + dbt w.snapS w.start + A
  yf : E ≤ 455 * (w.hist.size / Lc c - w.start / Lc c) + dbt w.snapS w.start + 126
  tsz : 1856 ≤ w.tbl.size

theorem lit_count (cx : Ctx) (s : Nat) : nA (opEnc cx (.lit s)) = 9 ∧ nD (opEnc cx (.lit s)) = 0 := by
  simp only [opEnc]
  split <;> simp [litMatchedEnc_count, litPlainEnc_count]

theorem rep0_count (cx : Ctx) (len : Nat) : nA (opEnc cx (.rep 0 len)) ≤ 14 ∧ nD (opEnc cx (.rep 0 len)) = 0 := by
  have h1 := lenEnc_count aRepLen cx.ps (len - 2)
  simp only [opEnc, nA_append, nD_append]
  simp
  omega

theorem lit_cost (x y : Nat) (hx : x = 9) (hy : y = 0) : 128 ^ x * 3 ^ y ≤ 2 ^ 63 := by
  subst hx; subst hy; decide

theorem rep0_cost (x y : Nat) (hx : x ≤ 14) (hy : y = 0) : 128 ^ x * 3 ^ y ≤ 2 ^ 98 := by
  subst hy
  have : (128 : Nat) ^ 14 = 2 ^ 98 := by decide +kernel
  rw [← this]
  simpa using Nat.pow_le_pow_right (by omega : 0 < 128) hx

/-- bits of irregular operations still to come, from history length `h0` on -/
def coreB (rho : Nat) (s : Lzma.St) : Nat :=
  if s.r0 ≠ rho then 224 else if s.st = 11 then 0 else if 7 ≤ s.st then 98 else 196

/-- bits of irregular operations still to come -/
def dbtB (rho h0 : Nat) (s : Lzma.St) (hs : Nat) : Nat :=
  if hs = 0 then 63 + (if h0 ≤ 1 then coreB rho { s with st := updLit s.st } else 350)
  else if hs < h0 then 350 else coreB rho s

theorem coreB_le (rho : Nat) (s : Lzma.St) : coreB rho s ≤ 224 := by
  unfold coreB; split_ifs <;> omega

theorem dbtB_le (rho h0 : Nat) (s : Lzma.St) (hs : Nat) : dbtB rho h0 s hs ≤ 504 := by
  unfold dbtB
  have := coreB_le rho s
  have := coreB_le rho { s with st := updLit s.st }
  split_ifs <;> omega

theorem dbtB_pos (rho h0 : Nat) (s : Lzma.St) (hs : Nat) (h : 1 ≤ hs) : dbtB rho h0 s hs ≤ 350 := by
  unfold dbtB
  have := coreB_le rho s
  rw [if_neg (by omega)]
  split_ifs <;> omega

theorem dbtB_core (rho h0 : Nat) (s : Lzma.St) (hs : Nat) (h : h0 ≤ hs) (h1 : 1 ≤ hs) :
    dbtB rho h0 s hs = coreB rho s := by
  unfold dbtB
  rw [if_neg (by omega), if_neg (by omega)]

theorem dbtB_zero (rho h0 : Nat) (s : Lzma.St) :
    dbtB rho h0 s 0 = 63 + (if h0 ≤ 1 then coreB rho { s with st := updLit s.st } else 350) := by
  unfold dbtB; rw [if_pos rfl]

theorem dbtB_small (rho h0 : Nat) (s : Lzma.St) (hs : Nat) (h1 : 1 ≤ hs) (h : hs < h0) : dbtB rho h0 s hs = 350 := by
  unfold dbtB
  rw [if_neg (by omega), if_pos h]

/-! ### one operation -/

def OpStepK (c : Cfg) (b : UInt8) (M : Matcher σ) (I : σ → ByteArray → ByteArray → Prop)
    (dbt : Lzma.St → Nat → Nat) : Prop :=
  ∀ (w w' : WSt σ) (X E : Nat), InvI c I w → RunA b w → 1 ≤ w.look.size →
    w.digits + 4 + Gen.lzma_opLenMargin ≤ Gen.lzma_maxCompressed → LocK c dbt w X E 0 →
    encodeOp c { w with m := (M.next w.m w.hist w.look w.s).2 } (M.next w.m w.hist w.look w.s).1 = .ok w' →
    RunA b w' ∧ ∃ X' E', LocK c dbt w' X' E' 0 ∨ (w.look.size < 273 ∧ w'.look.size = 0 ∧ LocK c dbt w' X' E' 504)

/-- **one operation** of the writer inside a run, for a match finder with known proposals -/
theorem opstepK (c : Cfg) (hc : CfgOk c) (b : UInt8) (M : Matcher σ) (I : σ → ByteArray → ByteArray → Prop)
    (hMI : MatcherInv c M I) (rho h0 : Nat) (hsp : RunSpec c b M I rho h0) :
    OpStepK c b M I (dbtB rho h0) := by
  intro w w' X E hi hb hl hadm hloc hres
  have hMI' := matcherInv' hMI
  have hc' := cfgOk' hc
  have hg := hMI'.ok w.m w.hist w.look w.s hi.sync hl hi.space
  have hi1 := hi.toInv.setM (M.next w.m w.hist w.look w.s).2
  generalize hgg : (M.next w.m w.hist w.look w.s).1 = g at *
  have hop := encodeOp_spec c hc' _ g hi1 hg hadm
  rw [hres] at hop
  obtain ⟨hi', hf, hlk, _, hh', hl'⟩ := hop
  have hh'' : w'.hist = w.hist ++ w.look.extract 0 g.len := hh'
  have hl'' : w'.look = w.look.extract g.len w.look.size := hl'
  obtain ⟨_, hlen1, hlen2⟩ := goOp_encodable c hc' w.hist w.look w.s g hg
  have hwf := (classify_opOk c hc' w.hist w.look w.s g hg).1
  have hhs : w'.hist.size = w.hist.size + g.len := by
    rw [hh'', ByteArray.size_append, ByteArray.size_extract]; omega
  have hls : w'.look.size = w.look.size - g.len := by
    rw [hl'', ByteArray.size_extract]; omega
  have hbuf : 273 ≤ c.bufSize := hc.2.2.2.2
  have hLpos : 0 < Lc c := by unfold Lc; omega
  have hL3 : 275 ≤ Lc c := by have := hc.2.2.1; unfold Lc; omega
  have hsn : w'.snapTbl = w.snapTbl := hf.snapTbl
  have hss : w'.snapS = w.snapS := hf.snapS
  have hstart : w'.start = w.start := hf.start
  have hs0 := hi.start
  have hmono : w.hist.size / Lc c ≤ w'.hist.size / Lc c := Nat.div_le_div_right (by omega)
  have hmono0 : w.start / Lc c ≤ w.hist.size / Lc c := Nat.div_le_div_right hs0
  obtain ⟨hsapp, htbl, _, _⟩ := encodeOp_ok c _ w' g hres
  have hsapp' : w'.s = w.s.apply (classify w.s g) := hsapp
  have htsz' : 1856 ≤ w'.tbl.size := by rw [htbl, tblAfter_size]; exact hloc.tsz
  -- the bytes
  have hb' : RunA b w' := by
    constructor
    · intro i hi2
      rw [hh'']
      by_cases hlt : i < w.hist.size
      · rw [Lzma2.get!_append_left hlt]; exact hb.hist i hlt
      · rw [hhs] at hi2
        rw [show i = w.hist.size + (i - w.hist.size) by omega, Lzma2.get!_append_right,
          get!_extract0 _ _ _ (by omega)]
        exact hb.look _ (by omega)
    · intro i hi2
      rw [hls] at hi2
      rw [hl'', Ring.get!_extract w.look g.len w.look.size i (Nat.le_refl _) (by omega)]
      exact hb.look _ (by omega)
  refine ⟨hb', ?_⟩
  have hcntany := opEnc_count_le (({ w with m := (M.next w.m w.hist w.look w.s).2 } : WSt σ).ctx c)
    (classify w.s g) hwf
  have hany := li_cost2 c _ w' g hi1 203 (any_cost _ _ hcntany.1 hcntany.2) hres hsn hloc.li
  have hcx : ∀ k, 128 ^ nA (opEnc (({ w with m := (M.next w.m w.hist w.look w.s).2 } : WSt σ).ctx c) (classify w.s g)) *
        3 ^ nD (opEnc (({ w with m := (M.next w.m w.hist w.look w.s).2 } : WSt σ).ctx c) (classify w.s g)) ≤ 2 ^ k →
      Enc.init.range * S2 w'.tbl * LR ^ X * 256 ^ w'.digits ≤
        w'.e.range * S2 w'.snapTbl * KR ^ X * 2 ^ (E + k) * 256 :=
    fun k hk => li_cost2 c _ w' g hi1 k hk hres hsn hloc.li
  have hcheapk : Cheap (classify w.s g) →
      128 ^ nA (opEnc (({ w with m := (M.next w.m w.hist w.look w.s).2 } : WSt σ).ctx c) (classify w.s g)) *
        3 ^ nD (opEnc (({ w with m := (M.next w.m w.hist w.look w.s).2 } : WSt σ).ctx c) (classify w.s g)) ≤ 2 ^ 126 := by
    intro hch
    have hcnt := cheap_count (({ w with m := (M.next w.m w.hist w.look w.s).2 } : WSt σ).ctx c)
      (classify w.s g) hch
    exact cheap_cost _ _ hcnt.1 hcnt.2
  have hy := hloc.y
  have hyf := hloc.yf
  have hx := hloc.x
  have hd350 := dbtB_pos rho h0 w'.s w'.hist.size (by omega)
  -- an irregular operation of at most `k` bits whose debt decreases by `k`, or the short one ending a chunk
  have irrK : ∀ k, 128 ^ nA (opEnc (({ w with m := (M.next w.m w.hist w.look w.s).2 } : WSt σ).ctx c) (classify w.s g)) *
        3 ^ nD (opEnc (({ w with m := (M.next w.m w.hist w.look w.s).2 } : WSt σ).ctx c) (classify w.s g)) ≤ 2 ^ k →
      (dbtB rho h0 w'.s w'.hist.size + k ≤ dbtB rho h0 w.s w.hist.size ∨
        (w.look.size < 273 ∧ w'.look.size = 0 ∧ k ≤ 126)) →
      ∃ X' E', LocK c (dbtB rho h0) w' X' E' 0 ∨
        (w.look.size < 273 ∧ w'.look.size = 0 ∧ LocK c (dbtB rho h0) w' X' E' 504) := by
    intro k hk hcase
    refine ⟨X, E + k, ?_⟩
    rcases hcase with hcase | ⟨h1, h2, h3⟩
    · left
      refine ⟨hcx k hk, by rw [hstart]; omega, ?_, ?_, htsz'⟩
      · rw [hstart, hss]; omega
      · rw [hstart, hss]; omega
    · right
      refine ⟨h1, h2, hcx k hk, by rw [hstart]; omega, ?_, ?_, htsz'⟩
      · rw [hstart, hss]; omega
      · rw [hstart, hss]; omega
  by_cases hh0 : w.hist.size = 0
  · -- the very first operation: a literal
    cases g with
    | mtch dist n =>
      obtain ⟨h1, h2, _⟩ := hg
      omega
    | lit bb =>
      have hcl : classify w.s (.lit bb) = .lit bb := rfl
      have hcnt := lit_count (({ w with m := (M.next w.m w.hist w.look w.s).2 } : WSt σ).ctx c) bb
      apply irrK 63 (by rw [hcl]; exact lit_cost _ _ hcnt.1 hcnt.2)
      left
      have hlen : (GoOp.lit bb).len = 1 := rfl
      rw [hlen] at hhs
      have hs' : w'.s = { w.s with st := updLit w.s.st } := by rw [hsapp', hcl]; rfl
      rw [hhs, hh0, dbtB_zero]
      by_cases h01 : h0 ≤ 1
      · rw [if_pos h01, dbtB_core rho h0 w'.s (0 + 1) (by omega) (by omega), hs']
        exact Nat.le_of_eq (Nat.add_comm _ _)
      · rw [if_neg h01, dbtB_small rho h0 w'.s (0 + 1) (by omega) (by omega)]
        all_goals omega
  have hh1 : 1 ≤ w.hist.size := by omega
  by_cases hwrap : 1 ≤ w.hist.size % Lc c ∧ Lc c + 1 < w.hist.size % Lc c + min 273 w.look.size
  · -- the match source hits the physical end of the ring
    obtain ⟨dist, n, hgn, hn⟩ := hsp.p3 w.m w.hist w.look w.s hi.sync hb.hist hb.look hh1 hl hi.space hwrap.1 hwrap.2
    rw [hgg] at hgn
    subst hgn
    have hlen : (GoOp.mtch dist n).len = n := rfl
    rw [hlen] at hhs
    have hmod : w.hist.size % Lc c < Lc c := Nat.mod_lt _ hLpos
    have hds := div_step (Lc c) w.hist.size n hLpos (by omega)
    have hd2 : dbtB rho h0 w'.s w'.hist.size ≤ 224 := by
      rw [dbtB_core _ _ _ _ (by have := hsp.h0_le; omega) (by omega)]; exact coreB_le _ _
    rw [hhs] at hd2 hmono
    refine ⟨X, E + 203, Or.inl ⟨hany, by rw [hstart]; omega, ?_, ?_, htsz'⟩⟩
    · rw [hstart, hss, hhs]; omega
    · rw [hstart, hss, hhs]; omega
  · have hphys : w.hist.size % Lc c = 0 ∨ w.hist.size % Lc c + min 273 w.look.size ≤ Lc c + 1 := by omega
    by_cases hn : 2 ≤ w.look.size
    · obtain ⟨dist, hd4, hgn⟩ := hsp.p2 w.m w.hist w.look w.s hi.sync hb.hist hb.look hh1 hn hi.space hphys
      rw [hgg] at hgn
      have hchp : Cheap (classify w.s g) := by rw [hgn]; exact classify_cheap _ _ _ hd4
      have hlenN : g.len = min 273 w.look.size := by rw [hgn]; rfl
      rw [hlenN] at hhs hls
      by_cases hbig : 273 ≤ w.look.size
      · have hN : min 273 w.look.size = 273 := by omega
        rw [hN] at hhs hls hphys
        have hh0' : h0 ≤ w'.hist.size := by have := hsp.h0_le; omega
        have hdc' := dbtB_core rho h0 w'.s w'.hist.size hh0' (by omega)
        by_cases hsmall : w.hist.size < h0
        · apply irrK 126 (hcheapk hchp)
          left
          rw [dbtB_small _ _ _ _ hh1 hsmall, hdc']
          have := coreB_le rho w'.s
          omega
        · have hge : h0 ≤ w.hist.size := by omega
          have hdc := dbtB_core rho h0 w.s w.hist.size hge hh1
          have hg1 := hsp.p1 w.m w.hist w.look w.s hi.sync hb.hist hb.look hge hbig hi.space hphys
          rw [hgg] at hg1
          subst hg1
          by_cases hr0 : w.s.r0 = rho
          · have hcl := classify_rep0G w.s rho 273 (by omega) hr0
            have hsapp2 := hsapp'
            rw [hcl] at hsapp2
            have hst' : w'.s.st = updRep w.s.st := by rw [hsapp2]; rfl
            have hr0' : w'.s.r0 = rho := by rw [hsapp2]; exact hr0
            by_cases hst : w.s.st = 11
            · -- the steady-state operation
              have hps : (({ w with m := (M.next w.m w.hist w.look w.s).2 } : WSt σ).ctx c).ps < 16 := by
                show w.hist.size % 2 ^ c.props.pb < 16
                have hpb : c.props.pb ≤ 4 := hc.1.2.2
                have h16 : 2 ^ c.props.pb ≤ 2 ^ 4 := Nat.pow_le_pow_right (by omega) hpb
                have := Nat.mod_lt w.hist.size (Nat.pow_pos (by omega) : 0 < 2 ^ c.props.pb)
                omega
              have hreg := li_reg2 c _ w' _ hi1 hcl hst hps hloc.tsz hres hsn hloc.li
              have hst2 : w'.s.st = 11 := by rw [hst', hst]; rfl
              have hd0 : dbtB rho h0 w.s w.hist.size = 0 := by
                rw [hdc]; unfold coreB; rw [if_neg (by omega), if_pos hst]
              have hd1 : dbtB rho h0 w'.s w'.hist.size = 0 := by
                rw [hdc']; unfold coreB; rw [if_neg (by omega), if_pos hst2]
              refine ⟨X + 1, E, Or.inl ⟨hreg, ?_, ?_, ?_, htsz'⟩⟩
              · rw [hstart, hhs]; exact x_stepH _ _ _ hx hs0
              · rw [hstart, hss, hd1]
                rw [hd0] at hy
                omega
              · rw [hstart, hss]; omega
            · have hcnt := rep0_count (({ w with m := (M.next w.m w.hist w.look w.s).2 } : WSt σ).ctx c) 273
              apply irrK 98 (by rw [hcl]; exact rep0_cost _ _ hcnt.1 hcnt.2)
              left
              rw [hdc, hdc']
              by_cases h7 : w.s.st < 7
              · have hst2 : w'.s.st = 8 := by rw [hst']; unfold updRep; rw [if_pos h7]
                unfold coreB
                rw [if_neg (by omega), if_neg (by omega), if_pos (by omega), if_neg (by omega), if_neg hst,
                  if_neg (by omega)]
              · have hst2 : w'.s.st = 11 := by rw [hst']; unfold updRep; rw [if_neg h7]
                unfold coreB
                rw [if_neg (by omega), if_pos hst2, if_neg (by omega), if_neg hst, if_pos (by omega)]
                all_goals omega
          · obtain ⟨f1, f2⟩ := classify_fixG w.s rho 273 hr0
            rw [← hsapp'] at f1 f2
            apply irrK 126 (hcheapk hchp)
            left
            rw [hdc, hdc']
            unfold coreB
            rw [if_neg (by omega), if_pos hr0]
            split_ifs <;> omega
      · apply irrK 126 (hcheapk hchp)
        right
        exact ⟨by omega, by omega, Nat.le_refl _⟩
    · -- one byte left: whatever is proposed consumes it
      apply irrK 126 (hcheapk (classify_cheap1 c w.hist w.look w.s g hg (by omega)))
      right
      exact ⟨by omega, by omega, Nat.le_refl _⟩

end RunCost
