import XzVerif.Proofs.Src
/-
  Proofs.SrcProg — fragmentation independence of EVERY deterministic client of the access layer.

  A reader is a deterministic program whose only contact with its source are calls of the four access functions of
  Model/Src.lean (pinned fact `Gen.srcReads`), each continuing with whatever the call returned.  `Prog α` is the type of
  all such programs (an interaction tree: a result, or an access followed by a continuation that may depend on the bytes
  and the status it got — arbitrary Lean functions, so every control flow, every state, every early exit is covered);
  `run` executes one on a source.  Theorem: on two sources with the same bytes, position and kind of end, fragmenting in
  ANY two ways, every program returns the same result — so whatever the Go readers compute from their accesses (bytes
  delivered, statuses, per call) cannot depend on how the source fragments its data.
-/
namespace Src

inductive Prog (α : Type) where
  | ret (a : α)
  | readFull (n : Nat) (k : ByteArray × St → Prog α)
  | readByte (k : Option UInt8 × St → Prog α)
  | copyN (n : Nat) (k : ByteArray × St → Prog α)
  | copyLim (N want : Nat) (k : Nat × ByteArray × St → Prog α)

def run {α : Type} : Prog α → S → α × S
  | .ret a, s => (a, s)
  | .readFull n k, s => run (k (readFull s n).2) (readFull s n).1
  | .readByte k, s => run (k (readByte s).2) (readByte s).1
  | .copyN n k, s => run (k (copyN s n).2) (copyN s n).1
  | .copyLim N want k, s => run (k (copyLim s N want).2) (copyLim s N want).1

theorem sameView_pos {a b : S} (h : SameView a b) (ha : a.pos ≤ a.data.size) : b.pos ≤ b.data.size := by
  obtain ⟨h1, h2, _⟩ := h
  rw [← h1, ← h2]; exact ha

/-- a source that ends with io.EOF: every client program computes the same on any two fragmentations -/
theorem run_frag_independent {α : Type} (p : Prog α) :
    ∀ (a b : S), a.pos ≤ a.data.size → SameView a b → a.ends = .eof →
      (run p a).1 = (run p b).1 ∧ SameView (run p a).2 (run p b).2 := by
  induction p with
  | ret x => intro a b _ hab _; exact ⟨rfl, hab⟩
  | readFull n k ih =>
    intro a b ha hab he
    obtain ⟨h1, h2⟩ := readFull_frag_independent a b n ha hab
    have hs := (readFull_view a n ha).2
    simp only [run]
    rw [← h1]
    exact ih _ _ _ hs.2.2.2.2.2 h2 (by rw [hs.2.1]; exact he)
  | readByte k ih =>
    intro a b ha hab he
    obtain ⟨h1, h2⟩ := readByte_frag_independent a b ha hab
    have hs := (readByte_view a ha).2
    simp only [run]
    rw [← h1]
    exact ih _ _ _ hs.2.2.2.2.2 h2 (by rw [hs.2.1]; exact he)
  | copyN n k ih =>
    intro a b ha hab he
    obtain ⟨h1, h2⟩ := copyN_frag_independent a b n ha hab
    have hs := (copyN_view a n ha).2
    simp only [run]
    rw [← h1]
    exact ih _ _ _ hs.2.2.2.2.2 h2 (by rw [hs.2.1]; exact he)
  | copyLim N want k ih =>
    intro a b ha hab he
    obtain ⟨h1, h2⟩ := copyLim_frag_independent_eof a b N want ha hab he
    have hx : ¬ LimException a N want := by
      intro hx; rw [hx.1] at he; cases he
    have hs := (copyLim_view a N want ha hx).2
    simp only [run]
    rw [← h1]
    exact ih _ _ _ hs.2.2.2.2.2 h2 (by rw [hs.2.1]; exact he)

/-- a source that FAILS at its end, the error arriving alone (not together with the last bytes): the same -/
theorem run_frag_independent_fail {α : Type} (p : Prog α) :
    ∀ (a b : S), a.pos ≤ a.data.size → SameView a b → a.together = false → b.together = false →
      (run p a).1 = (run p b).1 ∧ SameView (run p a).2 (run p b).2 := by
  induction p with
  | ret x => intro a b _ hab _ _; exact ⟨rfl, hab⟩
  | readFull n k ih =>
    intro a b ha hab hta htb
    obtain ⟨h1, h2⟩ := readFull_frag_independent a b n ha hab
    have hs := (readFull_view a n ha).2
    have hsb := (readFull_view b n (sameView_pos hab ha)).2
    simp only [run]
    rw [← h1]
    exact ih _ _ _ hs.2.2.2.2.2 h2 (by rw [hs.2.2.2.1]; exact hta) (by rw [hsb.2.2.2.1]; exact htb)
  | readByte k ih =>
    intro a b ha hab hta htb
    obtain ⟨h1, h2⟩ := readByte_frag_independent a b ha hab
    have hs := (readByte_view a ha).2
    have hsb := (readByte_view b (sameView_pos hab ha)).2
    simp only [run]
    rw [← h1]
    exact ih _ _ _ hs.2.2.2.2.2 h2 (by rw [hs.2.2.2.1]; exact hta) (by rw [hsb.2.2.2.1]; exact htb)
  | copyN n k ih =>
    intro a b ha hab hta htb
    obtain ⟨h1, h2⟩ := copyN_frag_independent a b n ha hab
    have hs := (copyN_view a n ha).2
    have hsb := (copyN_view b n (sameView_pos hab ha)).2
    simp only [run]
    rw [← h1]
    exact ih _ _ _ hs.2.2.2.2.2 h2 (by rw [hs.2.2.2.1]; exact hta) (by rw [hsb.2.2.2.1]; exact htb)
  | copyLim N want k ih =>
    intro a b ha hab hta htb
    have hxa : ¬ LimException a N want := by
      intro hx; rw [hx.2.1] at hta; cases hta
    have hxb : ¬ LimException b N want := by
      intro hx; rw [hx.2.1] at htb; cases htb
    obtain ⟨h1, h2⟩ := copyLim_frag_independent a b N want ha hab hxa hxb
    have hs := (copyLim_view a N want ha hxa).2
    have hsb := (copyLim_view b N want (sameView_pos hab ha) hxb).2
    simp only [run]
    rw [← h1]
    exact ih _ _ _ hs.2.2.2.2.2 h2 (by rw [hs.2.2.2.1]; exact hta) (by rw [hsb.2.2.2.1]; exact htb)

/-- non-vacuity: a client that reads a 2-byte header, then as many bytes as the header says, one at a time or at once -/
def exClient : Prog (List Nat) :=
  .readFull 2 (fun (hdr, st) =>
    if st ≠ .ok then .ret [] else
    .copyN (hdr.get! 1).toNat (fun (body, _) => .readByte (fun (b, _) => .ret (body.toList.map (·.toNat) ++ [(b.getD 0).toNat]))))

#guard (run exClient (exSrc (fun _ => 1) true .eof)).1 == (run exClient (exSrc (fun i => 3 * i + 1) false .eof)).1
#guard (run exClient (exSrc (fun _ => 1) true .eof)).1 == [3, 4, 5]

end Src

#print axioms Src.run_frag_independent
#print axioms Src.run_frag_independent_fail
