import XzVerif.Proofs.Lzma1RoundTrip
import Mathlib.Tactic.Ring
import Mathlib.Tactic.Linarith

/-! Compressed-size bounds for the range coder model (upper bounds; the mirror image of
    `Lzma1.apply_shrink` / `Lzma1.encodeAll_shrink` / `Lzma1.body_size_bound`).

    1. one decision emits at most one byte; `range` shrinks by at most the factor 67 (adaptive) resp. `a / b` (direct bit,
       for every pair with `DirOk a b`, e.g. `3 / 1` or `(2^23 + 1) / 2^22`);
    2. multiplicative bound for a path, explicit bound on the number of emitted digits;
    3. number of adaptive / direct questions of one LZMA operation; one operation emits at most `opB = 20` bytes;
    4. segment bound `size ≤ 20 * ops.length + 5`;
    5. expansion accounting for LZMA2 chunk lists (pure arithmetic). -/

namespace Lzma
open Rc

/-! ## 1. one decision -/

/-- a decision emits at most one byte (and never removes one) -/
theorem step_digits_le (e : Enc) (h : e.Rest) (dn : Decn) (hp : dn.ok) :
    e.digits ≤ (e.step dn).digits ∧ (e.step dn).digits ≤ e.digits + 1 := by
  obtain ⟨hmid, hr16, hdig, _, _⟩ := apply_spec e h dn hp
  obtain ⟨_, _, _, _, hd⟩ := norm_nest _ hmid hr16
  have hstep : e.step dn = (e.apply dn).norm := rfl
  rw [hstep]
  omega

/-- an adaptive decision shrinks `range` by a factor of at most 67 (> 2048 / 31) -/
theorem apply_grow_adaptive (e : Enc) (h : e.Rest) (dn : Decn) (hp : dn.ok) (p : Nat) (hdp : dn.p = some p) :
    e.range ≤ (e.apply dn).range * 67 := by
  have hlo := h.rlo
  obtain ⟨hp1, hp2⟩ := hp p hdp
  unfold Enc.apply
  rw [hdp]
  dsimp only
  have hq1 : e.range / 2048 * 31 ≤ e.range / 2048 * p := Nat.mul_le_mul_left _ hp1
  have hq2 : e.range / 2048 * p ≤ e.range / 2048 * 2017 := Nat.mul_le_mul_left _ hp2
  generalize e.range / 2048 * p = X at *
  split <;> dsimp only <;> omega

/-- admissible constants for a direct bit: halving a range `≥ 2^24` loses at most the factor `a / b` -/
def DirOk (a b : Nat) : Prop := ∀ r, 2 ^ 24 ≤ r → r * b ≤ (r / 2) * a

theorem dirOk_three : DirOk 3 1 := by
  intro r hr; omega

/-- `a / b = 2 + 2^-22` -/
theorem dirOk_tight : DirOk 8388609 4194304 := by
  intro r hr
  have : 16777216 ≤ r := hr
  omega

/-- the factor 2 itself is not admissible: an odd range loses its last bit -/
theorem not_dirOk_two : ¬ DirOk 2 1 := by
  intro h
  have := h (2 ^ 24 + 1) (by omega)
  omega

theorem apply_grow_direct (e : Enc) (h : e.Rest) (dn : Decn) (hdp : dn.p = none) (a b : Nat) (hab : DirOk a b) :
    e.range * b ≤ (e.apply dn).range * a := by
  have := hab e.range h.rlo
  unfold Enc.apply
  rw [hdp]
  exact this

/-- a bound on `apply` carries over to `step`, scaled by the emitted digits -/
theorem step_grow (e : Enc) (h : e.Rest) (dn : Decn) (hp : dn.ok) (K L : Nat)
    (hK : e.range * L ≤ (e.apply dn).range * K) :
    e.range * L * 256 ^ (e.step dn).digits ≤ (e.step dn).range * K * 256 ^ e.digits := by
  obtain ⟨hmid, hr16, hdig, _, _⟩ := apply_spec e h dn hp
  obtain ⟨_, hdle, _, hnR, _⟩ := norm_nest _ hmid hr16
  have hstep : e.step dn = (e.apply dn).norm := rfl
  rw [hstep, hnR]
  have hpow : 256 ^ (e.apply dn).norm.digits =
      256 ^ ((e.apply dn).norm.digits - (e.apply dn).digits) * 256 ^ e.digits := by
    rw [← Nat.pow_add]; congr 1; omega
  rw [hpow]
  generalize 256 ^ ((e.apply dn).norm.digits - (e.apply dn).digits) = A
  generalize 256 ^ e.digits = B
  calc e.range * L * (A * B) ≤ ((e.apply dn).range * K) * (A * B) := Nat.mul_le_mul_right _ hK
    _ = (e.apply dn).range * A * K * B := by ring

/-- **(1)** adaptive decision: `range * 67 * 256^digits` does not decrease relative to `256^digits'` -/
theorem step_grow_adaptive (e : Enc) (h : e.Rest) (dn : Decn) (hp : dn.ok) (p : Nat) (hdp : dn.p = some p) :
    e.range * 256 ^ (e.step dn).digits ≤ (e.step dn).range * 67 * 256 ^ e.digits := by
  have := step_grow e h dn hp 67 1 (by simpa using apply_grow_adaptive e h dn hp p hdp)
  simpa using this

/-- **(1)** direct bit, constants `a / b` -/
theorem step_grow_direct (e : Enc) (h : e.Rest) (dn : Decn) (hp : dn.ok) (hdp : dn.p = none)
    (a b : Nat) (hab : DirOk a b) :
    e.range * b * 256 ^ (e.step dn).digits ≤ (e.step dn).range * a * 256 ^ e.digits :=
  step_grow e h dn hp a b (apply_grow_direct e h dn hdp a b hab)

/-- **(1)** direct bit with the factor 3 -/
theorem step_grow_direct3 (e : Enc) (h : e.Rest) (dn : Decn) (hp : dn.ok) (hdp : dn.p = none) :
    e.range * 256 ^ (e.step dn).digits ≤ (e.step dn).range * 3 * 256 ^ e.digits := by
  simpa using step_grow_direct e h dn hp hdp 3 1 dirOk_three

/-! ## 2. paths -/

/-- number of adaptive questions of a path -/
def nA : Path → Nat
  | [] => 0
  | (.adaptive _, _) :: π => nA π + 1
  | (.direct, _) :: π => nA π

/-- number of direct questions of a path -/
def nD : Path → Nat
  | [] => 0
  | (.adaptive _, _) :: π => nD π
  | (.direct, _) :: π => nD π + 1

@[simp] theorem nA_nil : nA [] = 0 := rfl
@[simp] theorem nD_nil : nD [] = 0 := rfl
@[simp] theorem nA_adaptive (c : Nat) (b : Bool) (π : Path) : nA ((.adaptive c, b) :: π) = nA π + 1 := rfl
@[simp] theorem nD_adaptive (c : Nat) (b : Bool) (π : Path) : nD ((.adaptive c, b) :: π) = nD π := rfl
@[simp] theorem nA_direct (b : Bool) (π : Path) : nA ((.direct, b) :: π) = nA π := rfl
@[simp] theorem nD_direct (b : Bool) (π : Path) : nD ((.direct, b) :: π) = nD π + 1 := rfl

@[simp] theorem nA_append (π1 π2 : Path) : nA (π1 ++ π2) = nA π1 + nA π2 := by
  induction π1 with
  | nil => simp
  | cons qb π ih =>
    obtain ⟨q, b⟩ := qb
    cases q <;> simp [ih]
    all_goals omega

@[simp] theorem nD_append (π1 π2 : Path) : nD (π1 ++ π2) = nD π1 + nD π2 := by
  induction π1 with
  | nil => simp
  | cons qb π ih =>
    obtain ⟨q, b⟩ := qb
    cases q <;> simp [ih]
    all_goals omega

theorem nA_add_nD (π : Path) : nA π + nD π = π.length := by
  induction π with
  | nil => rfl
  | cons qb π ih =>
    obtain ⟨q, b⟩ := qb
    cases q <;> simp <;> omega

/-- chaining two scaled inequalities -/
theorem grow_chain (r0 r1 r2 L1 K1 L2 K2 P0 P1 P2 : Nat) (hP1 : 0 < P1)
    (h1 : r0 * L1 * P1 ≤ r1 * K1 * P0) (h2 : r1 * L2 * P2 ≤ r2 * K2 * P1) :
    r0 * (L1 * L2) * P2 ≤ r2 * (K1 * K2) * P0 := by
  apply Nat.le_of_mul_le_mul_right _ hP1
  calc r0 * (L1 * L2) * P2 * P1 = (r0 * L1 * P1) * (L2 * P2) := by ring
    _ ≤ (r1 * K1 * P0) * (L2 * P2) := Nat.mul_le_mul_right _ h1
    _ = (r1 * L2 * P2) * (K1 * P0) := by ring
    _ ≤ (r2 * K2 * P1) * (K1 * P0) := Nat.mul_le_mul_right _ h2
    _ = r2 * (K1 * K2) * P0 * P1 := by ring

/-- multiplicative invariant along a path, for any probability model and any admissible direct-bit constants -/
theorem path_grow (m : PM) (a b : Nat) (hab : DirOk a b) (π : Path) : ∀ (tbl : Tbl) (e : Enc), tbl.ok → e.Rest →
    e.range * b ^ nD π * 256 ^ (e.encodeAll (toDecns m tbl π)).digits ≤
      (e.encodeAll (toDecns m tbl π)).range * (67 ^ nA π * a ^ nD π) * 256 ^ e.digits := by
  induction π with
  | nil => intro tbl e _ _; simp [toDecns, Enc.encodeAll]
  | cons qb π ih =>
    intro tbl e htbl he
    obtain ⟨q, bit⟩ := qb
    cases q with
    | adaptive c =>
      have hdn : (⟨some (tbl.get c), bit⟩ : Decn).ok := by
        intro p hp; simp at hp; subst hp; exact htbl c
      have htbl1 := tbl.upd_ok htbl c _ (m.ok _ bit (htbl c))
      have h1 := step_grow e he _ hdn 67 1 (by simpa using apply_grow_adaptive e he _ hdn _ rfl)
      have h2 := ih _ _ htbl1 (step_rest e he _ hdn)
      have hpos : 0 < 256 ^ (e.step ⟨some (tbl.get c), bit⟩).digits := Nat.pow_pos (by omega)
      have := grow_chain _ _ _ _ _ _ _ _ _ _ hpos h1 h2
      simp only [toDecns, nA_adaptive, nD_adaptive]
      have heq : ∀ l, e.encodeAll (⟨some (tbl.get c), bit⟩ :: l) = (e.step ⟨some (tbl.get c), bit⟩).encodeAll l :=
        fun _ => rfl
      rw [heq, Nat.pow_succ]
      calc _ = e.range * (1 * b ^ nD π) * 256 ^ _ := by ring
        _ ≤ _ := this
        _ = _ := by ring
    | direct =>
      have hdn : (⟨none, bit⟩ : Decn).ok := by intro p hp; simp at hp
      have h1 := step_grow_direct e he _ hdn rfl a b hab
      have h2 := ih _ _ htbl (step_rest e he _ hdn)
      have hpos : 0 < 256 ^ (e.step ⟨none, bit⟩).digits := Nat.pow_pos (by omega)
      have := grow_chain _ _ _ _ _ _ _ _ _ _ hpos h1 h2
      simp only [toDecns, nA_direct, nD_direct]
      have heq : ∀ l, e.encodeAll (⟨none, bit⟩ :: l) = (e.step ⟨none, bit⟩).encodeAll l :=
        fun _ => rfl
      rw [heq, Nat.pow_succ, Nat.pow_succ]
      calc _ = e.range * (b * b ^ nD π) * 256 ^ _ := by ring
        _ ≤ _ := this
        _ = _ := by ring

/-- **(2)** path bound, general constants: the number of emitted digits `Δ` satisfies
    `b^nD * 256^Δ < 67^nA * a^nD * 256` -/
theorem path_pow_bound (m : PM) (a b : Nat) (hab : DirOk a b) (ha : 0 < a) (π : Path) (tbl : Tbl) (e : Enc)
    (htbl : tbl.ok) (he : e.Rest) :
    b ^ nD π * 256 ^ ((e.encodeAll (toDecns m tbl π)).digits - e.digits) < 67 ^ nA π * a ^ nD π * 256 := by
  have hg := path_grow m a b hab π tbl e htbl he
  obtain ⟨hf, hfd, _, _⟩ := encodeAll_nest e he _ (toDecns_ok m π tbl htbl)
  generalize e.encodeAll (toDecns m tbl π) = f at *
  have hsplit : 256 ^ f.digits = 256 ^ (f.digits - e.digits) * 256 ^ e.digits := by
    rw [← Nat.pow_add]; congr 1; omega
  rw [hsplit] at hg
  have hP : 0 < 256 ^ e.digits := Nat.pow_pos (by omega)
  have hK : 0 < 67 ^ nA π * a ^ nD π := Nat.mul_pos (Nat.pow_pos (by omega)) (Nat.pow_pos ha)
  have hlo := he.rlo
  have hhi := hf.rhi
  generalize 256 ^ (f.digits - e.digits) = X at *
  generalize 256 ^ e.digits = P at *
  generalize 67 ^ nA π * a ^ nD π = K at *
  generalize b ^ nD π = L at *
  -- 2^24 * L * X * P ≤ e.range * L * (X * P) ≤ f.range * K * P < 2^32 * K * P
  have h1 : 2 ^ 24 * (L * X * P) ≤ e.range * L * (X * P) := by
    calc 2 ^ 24 * (L * X * P) ≤ e.range * (L * X * P) := Nat.mul_le_mul_right _ hlo
      _ = e.range * L * (X * P) := by ring
  have h2 : f.range * K * P < 2 ^ 32 * (K * P) := by
    calc f.range * K * P = f.range * (K * P) := by ring
      _ < 2 ^ 32 * (K * P) := Nat.mul_lt_mul_of_pos_right hhi (Nat.mul_pos hK hP)
  have h3 : 2 ^ 24 * (L * X * P) < 2 ^ 24 * (K * 256 * P) := by
    calc 2 ^ 24 * (L * X * P) ≤ e.range * L * (X * P) := h1
      _ ≤ f.range * K * P := hg
      _ < 2 ^ 32 * (K * P) := h2
      _ = 2 ^ 24 * (K * 256 * P) := by ring
  have h4 : L * X * P < K * 256 * P := Nat.lt_of_mul_lt_mul_left h3
  exact Nat.lt_of_mul_lt_mul_right h4

/-- **(2)** path bound with the constants 67 (adaptive) and 3 (direct) -/
theorem path_pow_bound3 (m : PM) (π : Path) (tbl : Tbl) (e : Enc) (htbl : tbl.ok) (he : e.Rest) :
    256 ^ ((e.encodeAll (toDecns m tbl π)).digits - e.digits) < 67 ^ nA π * 3 ^ nD π * 256 := by
  simpa using path_pow_bound m 3 1 dirOk_three (by omega) π tbl e htbl he

/-- **(2)** explicit bound on the number of emitted digits: 7 bits per adaptive, 2 bits per direct question -/
theorem path_digits_bound (m : PM) (π : Path) (tbl : Tbl) (e : Enc) (htbl : tbl.ok) (he : e.Rest) :
    (e.encodeAll (toDecns m tbl π)).digits - e.digits ≤ (7 * nA π + 2 * nD π + 7) / 8 := by
  have h := path_pow_bound3 m π tbl e htbl he
  generalize (e.encodeAll (toDecns m tbl π)).digits - e.digits = Δ at *
  have h67 : 67 ^ nA π ≤ 2 ^ (7 * nA π) := by
    rw [Nat.pow_mul]; exact Nat.pow_le_pow_left (by norm_num) _
  have h3 : 3 ^ nD π ≤ 2 ^ (2 * nD π) := by
    rw [Nat.pow_mul]; exact Nat.pow_le_pow_left (by norm_num) _
  have h256 : (256 : Nat) ^ Δ = 2 ^ (8 * Δ) := by
    rw [Nat.pow_mul]
  have hlt : 2 ^ (8 * Δ) < 2 ^ (7 * nA π + 2 * nD π + 8) := by
    rw [← h256]
    calc 256 ^ Δ < 67 ^ nA π * 3 ^ nD π * 256 := h
      _ ≤ 2 ^ (7 * nA π) * 2 ^ (2 * nD π) * 2 ^ 8 :=
          Nat.mul_le_mul (Nat.mul_le_mul h67 h3) (by norm_num)
      _ = 2 ^ (7 * nA π + 2 * nD π + 8) := by rw [Nat.pow_add, Nat.pow_add]
  have := (Nat.pow_lt_pow_iff_right (by omega : 1 < 2)).mp hlt
  omega

/-- **(2)** the bound in the form asked for -/
theorem path_digits_bound' (m : PM) (π : Path) (tbl : Tbl) (e : Enc) (htbl : tbl.ok) (he : e.Rest) :
    (e.encodeAll (toDecns m tbl π)).digits - e.digits ≤ (7 * nA π + 2 * nD π) / 8 + 1 := by
  have := path_digits_bound m π tbl e htbl he
  omega

/-- **(2)** a finer linear bound: 6.1 bits per adaptive, 1.6 bits per direct question
    (`67^10 ≤ 2^61`, `3^10 ≤ 2^16`) -/
theorem path_digits_bound_fine (m : PM) (π : Path) (tbl : Tbl) (e : Enc) (htbl : tbl.ok) (he : e.Rest) :
    (e.encodeAll (toDecns m tbl π)).digits - e.digits ≤ (61 * nA π + 16 * nD π + 79) / 80 := by
  have h := path_pow_bound3 m π tbl e htbl he
  generalize (e.encodeAll (toDecns m tbl π)).digits - e.digits = Δ at *
  have h10 : (256 ^ Δ) ^ 10 < (67 ^ nA π * 3 ^ nD π * 256) ^ 10 := Nat.pow_lt_pow_left h (by omega)
  have h67 : (67 ^ nA π) ^ 10 ≤ 2 ^ (61 * nA π) := by
    rw [← Nat.pow_mul, Nat.mul_comm, Nat.pow_mul, Nat.pow_mul]
    exact Nat.pow_le_pow_left (by norm_num) _
  have h3 : (3 ^ nD π) ^ 10 ≤ 2 ^ (16 * nD π) := by
    rw [← Nat.pow_mul, Nat.mul_comm, Nat.pow_mul, Nat.pow_mul]
    exact Nat.pow_le_pow_left (by norm_num) _
  have h256 : ((256 : Nat) ^ Δ) ^ 10 = 2 ^ (80 * Δ) := by
    rw [← Nat.pow_mul, show (256 : Nat) = 2 ^ 8 from rfl, ← Nat.pow_mul]
    congr 1; omega
  have hlt : 2 ^ (80 * Δ) < 2 ^ (61 * nA π + 16 * nD π + 80) := by
    rw [← h256]
    calc (256 ^ Δ) ^ 10 < (67 ^ nA π * 3 ^ nD π * 256) ^ 10 := h10
      _ = (67 ^ nA π) ^ 10 * (3 ^ nD π) ^ 10 * 256 ^ 10 := by rw [Nat.mul_pow, Nat.mul_pow]
      _ ≤ 2 ^ (61 * nA π) * 2 ^ (16 * nD π) * 2 ^ 80 :=
          Nat.mul_le_mul (Nat.mul_le_mul h67 h3) (by norm_num)
      _ = 2 ^ (61 * nA π + 16 * nD π + 80) := by rw [Nat.pow_add, Nat.pow_add]
  have := (Nat.pow_lt_pow_iff_right (by omega : 1 < 2)).mp hlt
  omega

/-! ## 3. operations -/

theorem treeEncGo_count (base : Nat) : ∀ (n m v : Nat),
    nA (treeEncGo base n m v) = n ∧ nD (treeEncGo base n m v) = 0 := by
  intro n
  induction n with
  | zero => intro m v; simp [treeEncGo]
  | succ n ih => intro m v; simp [treeEncGo, ih]

theorem treeEnc_count (base bits v : Nat) : nA (treeEnc base bits v) = bits ∧ nD (treeEnc base bits v) = 0 :=
  treeEncGo_count base bits 1 v

theorem rtreeEncGo_count (base : Nat) : ∀ (n m v : Nat),
    nA (rtreeEncGo base n m v) = n ∧ nD (rtreeEncGo base n m v) = 0 := by
  intro n
  induction n with
  | zero => intro m v; simp [rtreeEncGo]
  | succ n ih => intro m v; simp [rtreeEncGo, ih]

theorem rtreeEnc_count (base bits v : Nat) : nA (rtreeEnc base bits v) = bits ∧ nD (rtreeEnc base bits v) = 0 :=
  rtreeEncGo_count base bits 1 v

theorem directEnc_count : ∀ (n v : Nat), nA (directEnc n v) = 0 ∧ nD (directEnc n v) = n := by
  intro n
  induction n with
  | zero => intro v; simp [directEnc]
  | succ n ih => intro v; simp [directEnc, ih]

theorem litPlainEnc_count (base : Nat) : ∀ (n sym s : Nat),
    nA (litPlainEnc base n sym s) = n ∧ nD (litPlainEnc base n sym s) = 0 := by
  intro n
  induction n with
  | zero => intro sym s; simp [litPlainEnc]
  | succ n ih => intro sym s; simp [litPlainEnc, ih]

theorem litMatchedEnc_count (base : Nat) : ∀ (n sym mb s : Nat),
    nA (litMatchedEnc base n sym mb s) = n ∧ nD (litMatchedEnc base n sym mb s) = 0 := by
  intro n
  induction n with
  | zero => intro sym mb s; simp [litMatchedEnc]
  | succ n ih =>
    intro sym mb s
    simp only [litMatchedEnc, nA_adaptive, nD_adaptive]
    split
    · simp [ih]
    · simp [litPlainEnc_count]

theorem lenEnc_count (L ps l : Nat) : nA (lenEnc L ps l) ≤ 10 ∧ nD (lenEnc L ps l) = 0 := by
  unfold lenEnc
  split
  · simp [treeEnc_count]
  · split <;> simp [treeEnc_count]

theorem posSlot_le (d : Nat) (h : d < 2 ^ 32) : posSlot d ≤ 63 := by
  by_cases h4 : d < 4
  · unfold posSlot; rw [if_pos h4]; omega
  · obtain ⟨k, _, hk31, hs, _, _⟩ := posSlot_spec d (by omega) h
    omega

/-- distance: either the short form (slot < 14: at most 6 + 5 adaptive, no direct bits) or the long form
    (6 + 4 adaptive, at most 26 direct bits) -/
theorem distEnc_count (d l : Nat) (h : d < 2 ^ 32) :
    (nA (distEnc d l) ≤ 11 ∧ nD (distEnc d l) = 0) ∨ (nA (distEnc d l) = 10 ∧ nD (distEnc d l) ≤ 26) := by
  have hs := posSlot_le d h
  unfold distEnc
  simp only
  generalize posSlot d = slot at *
  split
  · left; simp [treeEnc_count]
  · split
    · left
      refine ⟨?_, ?_⟩ <;> (simp only [nA_append, nD_append, treeEnc_count, rtreeEnc_count]; try omega)
    · right
      refine ⟨?_, ?_⟩ <;>
        (simp only [nA_append, nD_append, treeEnc_count, rtreeEnc_count, directEnc_count]; try omega)

/-- **(3)** number of questions of one operation.  `nA ≤ 22` alone is false: `mtch 18 64` (position slot 12, five
    reverse-tree bits) asks 2 + 10 + 6 + 5 = 23 adaptive questions (`opEnc_count_example`); such operations ask no
    direct question. -/
theorem opEnc_count (c : Ctx) (op : RawOp) (h : op.wf) :
    (nA (opEnc c op) ≤ 22 ∧ nD (opEnc c op) ≤ 26) ∨ (nA (opEnc c op) ≤ 23 ∧ nD (opEnc c op) = 0) := by
  cases op with
  | lit s =>
    right
    simp only [opEnc]
    split <;> simp [litMatchedEnc_count, litPlainEnc_count]
  | mtch len d =>
    obtain ⟨_, _, hd⟩ := h
    have h1 := lenEnc_count aLen c.ps (len - 2)
    have h2 := distEnc_count d (len - 2) hd
    simp only [opEnc, nA_adaptive, nD_adaptive, nA_append, nD_append]
    omega
  | shortRep => right; simp [opEnc]
  | rep g len =>
    right
    have h1 := lenEnc_count aRepLen c.ps (len - 2)
    simp only [opEnc, nA_append, nD_append]
    rcases g with _ | _ | _ | g <;> simp <;> omega

theorem opEnc_count_le (c : Ctx) (op : RawOp) (h : op.wf) : nA (opEnc c op) ≤ 23 ∧ nD (opEnc c op) ≤ 26 := by
  have := opEnc_count c op h
  omega

/-- counterexample to `nA (opEnc c op) ≤ 22` -/
theorem opEnc_count_example (c : Ctx) : (RawOp.mtch 18 64).wf ∧ nA (opEnc c (.mtch 18 64)) = 23 := by
  refine ⟨by decide, ?_⟩
  have hs : posSlot 64 = 12 := by decide
  simp [opEnc, lenEnc, distEnc, hs, treeEnc_count, rtreeEnc_count]

/-- the number of bytes one operation can emit -/
def opB : Nat := 20

theorem opB_eq : opB = 20 := rfl

theorem cost_const1 : 67 ^ 22 * 8388609 ^ 26 ≤ 256 ^ 20 * 4194304 ^ 26 := by decide
theorem cost_const2 : 67 ^ 23 ≤ 256 ^ 20 := by decide

/-- cost of a question count admissible for one operation, with the direct-bit constants `(2^23 + 1) / 2^22` -/
theorem cost_le (x y : Nat) (h : (x ≤ 22 ∧ y ≤ 26) ∨ (x ≤ 23 ∧ y = 0)) :
    67 ^ x * 8388609 ^ y * 4194304 ^ (26 - y) ≤ 256 ^ 20 * 4194304 ^ 26 := by
  rcases h with ⟨hx, hy⟩ | ⟨hx, rfl⟩
  · have h1 : 67 ^ x ≤ 67 ^ 22 := Nat.pow_le_pow_right (by omega) hx
    have h2 : 4194304 ^ (26 - y) ≤ 8388609 ^ (26 - y) := Nat.pow_le_pow_left (by omega) _
    have h3 : 8388609 ^ y * 8388609 ^ (26 - y) = 8388609 ^ 26 := by
      rw [← Nat.pow_add]; congr 1; omega
    calc 67 ^ x * 8388609 ^ y * 4194304 ^ (26 - y)
        ≤ 67 ^ 22 * 8388609 ^ y * 8388609 ^ (26 - y) :=
          Nat.mul_le_mul (Nat.mul_le_mul_right _ h1) h2
      _ = 67 ^ 22 * 8388609 ^ 26 := by rw [Nat.mul_assoc, h3]
      _ ≤ _ := cost_const1
  · have h1 : 67 ^ x ≤ 67 ^ 23 := Nat.pow_le_pow_right (by omega) hx
    simp only [Nat.pow_zero, Nat.mul_one, Nat.sub_zero]
    exact Nat.mul_le_mul_right _ (Nat.le_trans h1 cost_const2)

/-- a path with an admissible question count emits at most `opB = 20` digits from a rest state -/
theorem path_digits_opB (m : PM) (π : Path) (tbl : Tbl) (e : Enc) (htbl : tbl.ok) (he : e.Rest)
    (hc : (nA π ≤ 22 ∧ nD π ≤ 26) ∨ (nA π ≤ 23 ∧ nD π = 0)) :
    (e.encodeAll (toDecns m tbl π)).digits ≤ e.digits + opB := by
  have h := path_pow_bound m 8388609 4194304 dirOk_tight (by omega) π tbl e htbl he
  have hcost := cost_le _ _ hc
  have hy : nD π ≤ 26 := by omega
  generalize (e.encodeAll (toDecns m tbl π)).digits = fd at *
  have hpos : 0 < 4194304 ^ (26 - nD π) := Nat.pow_pos (by omega)
  have hb : 4194304 ^ nD π * 4194304 ^ (26 - nD π) = 4194304 ^ 26 := by
    rw [← Nat.pow_add]; congr 1; omega
  have h1 : 4194304 ^ 26 * 256 ^ (fd - e.digits) < 4194304 ^ 26 * 256 ^ 21 := by
    calc 4194304 ^ 26 * 256 ^ (fd - e.digits)
        = (4194304 ^ nD π * 256 ^ (fd - e.digits)) * 4194304 ^ (26 - nD π) := by rw [← hb]; ring
      _ < (67 ^ nA π * 8388609 ^ nD π * 256) * 4194304 ^ (26 - nD π) := Nat.mul_lt_mul_of_pos_right h hpos
      _ = (67 ^ nA π * 8388609 ^ nD π * 4194304 ^ (26 - nD π)) * 256 := by ring
      _ ≤ (256 ^ 20 * 4194304 ^ 26) * 256 := Nat.mul_le_mul_right _ hcost
      _ = 4194304 ^ 26 * 256 ^ 21 := by ring
  have h2 : 256 ^ (fd - e.digits) < 256 ^ 21 := Nat.lt_of_mul_lt_mul_left h1
  have := (Nat.pow_lt_pow_iff_right (by omega : 1 < 256)).mp h2
  unfold opB
  omega

/-- **(3)** encoding one well-formed operation from a rest state emits at most `opB = 20` bytes -/
theorem op_digits_bound (c : Ctx) (op : RawOp) (hwf : op.wf) (tbl : Tbl) (e : Enc) (htbl : tbl.ok) (he : e.Rest) :
    (e.encodeAll (toDecns pm tbl (opEnc c op))).digits ≤ e.digits + opB :=
  path_digits_opB pm _ tbl e htbl he (opEnc_count c op hwf)

/-! ## 4. segments -/

theorem ops_digits_bound (p : Props) (ops : List RawOp) : ∀ (s : St) (h : Hist) (tbl : Tbl) (e : Enc),
    tbl.ok → e.Rest → (∀ op ∈ ops, op.wf) →
    (e.encodeAll (toDecns pm tbl (opsPath p s h ops))).digits ≤ e.digits + opB * ops.length := by
  induction ops with
  | nil => intro s h tbl e _ _ _; simp [opsPath, toDecns, Enc.encodeAll]
  | cons op ops ih =>
    intro s h tbl e htbl he hwf
    simp only [opsPath, toDecns_append, encodeAll_append, List.length_cons]
    have h1 := op_digits_bound (mkCtx p s h) op (hwf op (by simp)) tbl e htbl he
    have hr := (encodeAll_nest e he _ (toDecns_ok pm (opEnc (mkCtx p s h) op) tbl htbl)).1
    have h2 := ih (s.apply op) (h.applyOp (s.apply op) op) (tblAfter tbl (opEnc (mkCtx p s h) op)) _
      (tblAfter_ok _ _ htbl) hr (fun o ho => hwf o (by simp [ho]))
    rw [Nat.mul_succ]
    omega

/-- **(4)** a segment of `n` operations occupies at most `20 * n + 5` bytes -/
theorem segment_size_le (p : Props) (s : St) (tbl : Tbl) (htbl : tbl.ok) (h : Hist) (ops : List RawOp)
    (hwf : ∀ op ∈ ops, op.wf) :
    (encClose (encodeOps p s tbl h ops)).size ≤ opB * ops.length + 5 := by
  rw [← Lzma1.blist_length, (encodeOps_bytes p s tbl htbl h ops).1]
  have hok := toDecns_ok pm (opsPath p s h ops) tbl htbl
  obtain ⟨hf, _, _, _⟩ := encodeAll_nest _ init_rest _ hok
  have hdigf := encodeAll_dig _ (toDecns pm tbl (opsPath p s h ops)) Lzma1.init_dig
  obtain ⟨_, hlen, _⟩ := close_spec _ hf.toInv hdigf
  have hd := ops_digits_bound p ops s h tbl Enc.init htbl init_rest hwf
  have hd0 : Enc.init.digits = 1 := rfl
  unfold Rc.encode
  omega

theorem OpsOk.wf : ∀ {ops : List RawOp} {s : St} {h : Hist}, OpsOk s h ops → ∀ op ∈ ops, op.wf := by
  intro ops
  induction ops with
  | nil => intro s h _ op hop; simp at hop
  | cons o ops ih =>
    intro s h hok op hop
    cases hok with
    | cons _ _ _ _ h1 h2 =>
      rcases List.mem_cons.mp hop with rfl | hmem
      · exact h1.1
      · exact ih h2 op hmem

/-- **(4, headline)** compressed size against uncompressed size: every applicable operation produces at least one
    byte, so a segment that decodes to `u` bytes occupies at most `20 * u + 5` bytes -/
theorem segment_size_le_out (p : Props) (s : St) (tbl : Tbl) (htbl : tbl.ok) (h : Hist) (ops : List RawOp)
    (hok : OpsOk s h ops) :
    (encClose (encodeOps p s tbl h ops)).size ≤ opB * ((finalH s h ops).out.size - h.out.size) + 5 := by
  have h1 := segment_size_le p s tbl htbl h ops hok.wf
  have h2 := finalH_size ops s h hok
  have h3 : opB * ops.length ≤ opB * ((finalH s h ops).out.size - h.out.size) :=
    Nat.mul_le_mul_left _ (by omega)
  omega

/-- a segment of `c` compressed bytes holds at least `(c − 5) / 20` uncompressed bytes -/
theorem segment_out_ge (p : Props) (s : St) (tbl : Tbl) (htbl : tbl.ok) (h : Hist) (ops : List RawOp)
    (hok : OpsOk s h ops) :
    ((encClose (encodeOps p s tbl h ops)).size - 5) / 20 ≤ (finalH s h ops).out.size - h.out.size := by
  have := segment_size_le_out p s tbl htbl h ops hok
  unfold opB at this
  omega

/-! ## 5. expansion accounting for chunk lists (pure arithmetic) -/

namespace Expansion

/-- a chunk: uncompressed size, compressed size, stored raw? -/
abbrev Chunk := Nat × Nat × Bool

def Chunk.u (ch : Chunk) : Nat := ch.1
def Chunk.c (ch : Chunk) : Nat := ch.2.1
def Chunk.raw (ch : Chunk) : Bool := ch.2.2

/-- emitted size: 3 header bytes + data for a raw chunk, 6 header bytes + data for a compressed chunk -/
def Chunk.sz (ch : Chunk) : Nat := if ch.raw then ch.u + 3 else ch.c + 6

/-- the writer's rule: the compressed form is chosen only when it is not larger than the raw form plus 3 -/
def Chunk.rule (ch : Chunk) : Prop := ch.raw = true ∨ ch.c + 6 ≤ ch.u + 3 + 3

def sumSz (l : List Chunk) : Nat := (l.map Chunk.sz).sum
def sumU (l : List Chunk) : Nat := (l.map Chunk.u).sum

/-- the stricter forms of the rule imply `Chunk.rule` -/
theorem rule_of_le5 (ch : Chunk) (h : ¬ ch.raw = true → ch.c + 5 ≤ ch.u + 3) : ch.rule := by
  unfold Chunk.rule
  by_cases hr : ch.raw = true
  · exact Or.inl hr
  · have := h hr; right; omega

theorem rule_of_le6 (ch : Chunk) (h : ¬ ch.raw = true → ch.c + 6 ≤ ch.u + 3) : ch.rule := by
  unfold Chunk.rule
  by_cases hr : ch.raw = true
  · exact Or.inl hr
  · have := h hr; right; omega

theorem sz_le (ch : Chunk) (h : ch.rule) : ch.sz ≤ ch.u + 6 := by
  unfold Chunk.sz
  rcases h with h | h
  · rw [if_pos h]; omega
  · split <;> omega

/-- **(5a)** at most 6 bytes of overhead per chunk -/
theorem sumSz_le (l : List Chunk) (h : ∀ ch ∈ l, ch.rule) : sumSz l ≤ sumU l + 6 * l.length := by
  induction l with
  | nil => simp [sumSz, sumU]
  | cons ch l ih =>
    have h1 := sz_le ch (h ch (by simp))
    have h2 := ih (fun x hx => h x (by simp [hx]))
    simp only [sumSz, sumU, List.map_cons, List.sum_cons, List.length_cons] at *
    omega

theorem sumU_ge (l : List Chunk) (h : ∀ ch ∈ l, 3000 ≤ ch.u) : 3000 * l.length ≤ sumU l := by
  induction l with
  | nil => simp [sumU]
  | cons ch l ih =>
    have h1 := h ch (by simp)
    have h2 := ih (fun x hx => h x (by simp [hx]))
    simp only [sumU, List.map_cons, List.sum_cons, List.length_cons] at *
    omega

theorem sumU_append (l1 l2 : List Chunk) : sumU (l1 ++ l2) = sumU l1 + sumU l2 := by
  simp [sumU]

/-- **(5b)** if every chunk but the last carries at least 3000 bytes, the stream (with its end byte) is at most
    `n + n / 500 + 7` bytes long -/
theorem sumSz_small7 (l : List Chunk) (h : ∀ ch ∈ l, ch.rule) (hbig : ∀ ch ∈ l.dropLast, 3000 ≤ ch.u) :
    sumSz l + 1 ≤ sumU l + sumU l / 500 + 7 := by
  have h1 := sumSz_le l h
  have h2 := sumU_ge l.dropLast hbig
  have h3 : sumU l.dropLast ≤ sumU l := by
    rcases List.eq_nil_or_concat l with rfl | ⟨l', x, rfl⟩
    · simp
    · rw [List.concat_eq_append, List.dropLast_concat, sumU_append]; omega
  rw [List.length_dropLast] at h2
  omega

/-- **(5b)** "never expands noticeably" -/
theorem sumSz_small (l : List Chunk) (h : ∀ ch ∈ l, ch.rule) (hbig : ∀ ch ∈ l.dropLast, 3000 ≤ ch.u) :
    sumSz l + 1 ≤ sumU l + sumU l / 500 + 128 := by
  have := sumSz_small7 l h hbig
  omega

end Expansion

#print axioms step_digits_le
#print axioms step_grow_adaptive
#print axioms step_grow_direct
#print axioms path_pow_bound
#print axioms path_pow_bound3
#print axioms path_digits_bound'
#print axioms path_digits_bound_fine
#print axioms opEnc_count
#print axioms opEnc_count_example
#print axioms op_digits_bound
#print axioms segment_size_le
#print axioms segment_size_le_out
#print axioms segment_out_ge
#print axioms Expansion.sumSz_le
#print axioms Expansion.sumSz_small

end Lzma
