import XzVerif.Model.Writer1F

/-!
  Helper lemmas for Proofs/Writer1F.lean: the writer on a failing sink (Model/Writer1F.lean) simulates the
  writer of Model/Writer1.lean as long as every sink call succeeds; what the sink holds is a prefix of what was
  produced; a failing sink call sets `failed` and makes the enclosing call return the sink's error.
-/

set_option linter.unusedSimpArgs false
set_option linter.unusedVariables false

namespace W1F
open W1 Lzma Rc Lzma2 W2 W2F

variable {σ : Type}

/-! ### byte arrays -/

theorem push_eq_append (a : ByteArray) (x : UInt8) : a.push x = a ++ ByteArray.empty.push x := by
  apply ByteArray.ext
  simp

theorem extract_append_le (a b : ByteArray) (k : Nat) (hk : k ≤ a.size) :
    (a ++ b).extract 0 k = a.extract 0 k := by
  rw [ByteArray.extract_append]
  have : k - a.size = 0 := by omega
  rw [this, Nat.zero_sub, ByteArray.extract_same, ByteArray.append_empty]

theorem ext_app (a : ByteArray) (p q r : Nat) (h1 : p ≤ q) (h2 : q ≤ r) :
    a.extract p q ++ a.extract q r = a.extract p r := by
  rw [ByteArray.extract_append_extract, Nat.min_eq_left h1, Nat.max_eq_right h2]

theorem ext_size (a : ByteArray) (p q : Nat) (h : q ≤ a.size) : (a.extract p q).size = q - p := by
  rw [ByteArray.size_extract, Nat.min_eq_left h]

/-- `b` is `a` with something appended -/
def Grows (a b : ByteArray) : Prop := ∃ t, b = a ++ t

theorem Grows.refl (a : ByteArray) : Grows a a := ⟨ByteArray.empty, by rw [ByteArray.append_empty]⟩

theorem Grows.trans {a b c : ByteArray} (h1 : Grows a b) (h2 : Grows b c) : Grows a c := by
  obtain ⟨t1, rfl⟩ := h1
  obtain ⟨t2, rfl⟩ := h2
  exact ⟨t1 ++ t2, by rw [ByteArray.append_assoc]⟩

theorem foldl_push_grows (l : List Nat) : ∀ acc : ByteArray,
    Grows acc (l.foldl (fun a x => a.push x.toUInt8) acc) := by
  induction l with
  | nil => intro acc; exact Grows.refl acc
  | cons x l ih =>
    intro acc
    simp only [List.foldl_cons]
    exact Grows.trans ⟨ByteArray.empty.push x.toUInt8, push_eq_append _ _⟩ (ih _)

theorem flushOut_grows (e : Enc) (acc : ByteArray) : Grows acc (flushOut e acc).2 :=
  foldl_push_grows _ _

theorem encodeOp_grows (c : W1.Cfg) (w w' : W1.St σ) (g : GoOp) (h : W1.encodeOp c w g = some w') :
    Grows w.body w'.body := by
  unfold W1.encodeOp at h
  split at h
  · exact absurd h (by simp)
  · simp only [Option.some.injEq] at h
    subst h
    exact flushOut_grows _ _

theorem produced_grows (c : W1.Cfg) (w w' : W1.St σ) (h : Grows w.body w'.body) :
    Grows (produced c w) (produced c w') := by
  obtain ⟨t, ht⟩ := h
  exact ⟨t, by unfold produced; rw [ht, ByteArray.append_assoc]⟩

/-! ### the sink holds a prefix of what was produced -/

def InvA (all : ByteArray) (s : FSt σ) : Prop := s.sunk = all.extract 0 s.given ∧ s.given ≤ all.size

def Inv5 (c : W1.Cfg) (s : FSt σ) : Prop := InvA (produced c s.w) s

theorem InvA.grow {a b : ByteArray} {s s' : FSt σ} (h : InvA a s) (hg : Grows a b) (h1 : s'.sunk = s.sunk)
    (h2 : s'.given = s.given) : InvA b s' := by
  obtain ⟨t, rfl⟩ := hg
  obtain ⟨i1, i2⟩ := h
  refine ⟨?_, ?_⟩
  · rw [h1, h2, i1, extract_append_le _ _ _ i2]
  · rw [h2, ByteArray.size_append]; omega

/-- what every step guarantees: success keeps `failed` and the prefix invariant, failure sets `failed`, and a plan
    without faults never fails -/
def Post (c : W1.Cfg) (F : Plan) (s s' : FSt σ) (b : Bool) : Prop :=
  (b = true → s'.failed = s.failed ∧ (Inv5 c s → Inv5 c s')) ∧ (b = false → s'.failed = true) ∧
  ((∀ i, F i = none) → b = true)

theorem Post.refl (c : W1.Cfg) (F : Plan) (s : FSt σ) : Post c F s s true :=
  ⟨fun _ => ⟨rfl, id⟩, fun h => (by cases h), fun _ => rfl⟩

theorem Post.trans {c : W1.Cfg} {F : Plan} {s s1 s2 : FSt σ} {b : Bool} (h1 : Post c F s s1 true)
    (h2 : Post c F s1 s2 b) : Post c F s s2 b := by
  obtain ⟨a1, _, _⟩ := h1
  obtain ⟨b1, b2, b3⟩ := h2
  obtain ⟨a11, a12⟩ := a1 rfl
  refine ⟨fun hb => ?_, b2, b3⟩
  obtain ⟨b11, b12⟩ := b1 hb
  exact ⟨b11.trans a11, fun hi => b12 (a12 hi)⟩

/-! ### one sink call -/

theorem sinkCall_spec (F : Plan) (s s' : FSt σ) (p : ByteArray) (b : Bool) (h : sinkCall F s p = (s', b)) :
    s'.w = s.w ∧
    (b = true → s'.failed = s.failed ∧ s'.sunk = s.sunk ++ p ∧ s'.given = s.given + p.size) ∧
    (b = false → s'.failed = true) ∧ ((∀ i, F i = none) → b = true) := by
  unfold sinkCall at h
  cases hF : F s.calls with
  | none =>
    rw [hF] at h
    simp only [Prod.mk.injEq] at h
    obtain ⟨rfl, rfl⟩ := h
    exact ⟨rfl, fun _ => ⟨rfl, rfl, rfl⟩, fun h => (by cases h), fun _ => rfl⟩
  | some g =>
    rw [hF] at h
    simp only [Prod.mk.injEq] at h
    obtain ⟨rfl, rfl⟩ := h
    refine ⟨rfl, fun h => (by cases h), fun _ => rfl, fun hn => ?_⟩
    rw [hn] at hF
    cases hF

/-- a successful call with the next `t` bytes keeps the prefix invariant -/
theorem InvA.step {all : ByteArray} {s s' : FSt σ} (t : Nat) (h : InvA all s) (ht : s.given + t ≤ all.size)
    (h1 : s'.sunk = s.sunk ++ all.extract s.given (s.given + t))
    (h2 : s'.given = s.given + (all.extract s.given (s.given + t)).size) : InvA all s' := by
  obtain ⟨i1, i2⟩ := h
  have hsz : (all.extract s.given (s.given + t)).size = t := by rw [ext_size _ _ _ ht]; omega
  rw [hsz] at h2
  refine ⟨?_, by omega⟩
  rw [h1, h2, i1, ext_app _ _ _ _ (Nat.zero_le _) (by omega)]

/-! ### `deliver` -/

theorem deliver_spec (k : Kind) (F : Plan) (all : ByteArray) : ∀ (fuel : Nat) (s s' : FSt σ) (b : Bool),
    deliver k F all fuel s = (s', b) →
    s'.w = s.w ∧
    (b = true → s'.failed = s.failed ∧ (InvA all s → InvA all s') ∧
      (k = .byteWriter → all.size + 1 ≤ s.given + fuel → all.size ≤ s'.given)) ∧
    (b = false → s'.failed = true) ∧ ((∀ i, F i = none) → b = true) := by
  intro fuel
  induction fuel with
  | zero =>
    intro s s' b h
    unfold deliver at h
    simp only [Prod.mk.injEq] at h
    obtain ⟨rfl, rfl⟩ := h
    exact ⟨rfl, fun _ => ⟨rfl, id, fun _ hh => by omega⟩, fun h => (by cases h), fun _ => rfl⟩
  | succ fuel ih =>
    intro s s' b h
    unfold deliver at h
    cases k with
    | plain =>
      dsimp only at h
      by_cases hgt : all.size > s.given + bufioSize
      · rw [if_pos hgt] at h
        rcases hsc : sinkCall F s (all.extract s.given (s.given + bufioSize)) with ⟨s1, b1⟩
        rw [hsc] at h
        obtain ⟨c1, c2, c3, c4⟩ := sinkCall_spec F s s1 _ b1 hsc
        cases b1 with
        | true =>
          dsimp only at h
          obtain ⟨d1, d2, d3, d4⟩ := ih s1 s' b h
          obtain ⟨e1, e2, e3⟩ := c2 rfl
          refine ⟨d1.trans c1, fun hb => ?_, d3, d4⟩
          obtain ⟨f1, f2, f3⟩ := d2 hb
          exact ⟨f1.trans e1, fun hi => f2 (InvA.step bufioSize hi (by omega) e2 e3), fun hk => by cases hk⟩
        | false =>
          dsimp only at h
          simp only [Prod.mk.injEq] at h
          obtain ⟨rfl, rfl⟩ := h
          exact ⟨c1, fun h => (by cases h), fun _ => c3 rfl, c4⟩
      · rw [if_neg hgt] at h
        simp only [Prod.mk.injEq] at h
        obtain ⟨rfl, rfl⟩ := h
        exact ⟨rfl, fun _ => ⟨rfl, id, fun hk => by cases hk⟩, fun h => (by cases h), fun _ => rfl⟩
    | byteWriter =>
      dsimp only at h
      by_cases hgt : all.size > s.given
      · rw [if_pos hgt] at h
        rcases hsc : sinkCall F s (all.extract s.given (s.given + 1)) with ⟨s1, b1⟩
        rw [hsc] at h
        obtain ⟨c1, c2, c3, c4⟩ := sinkCall_spec F s s1 _ b1 hsc
        cases b1 with
        | true =>
          dsimp only at h
          obtain ⟨d1, d2, d3, d4⟩ := ih s1 s' b h
          obtain ⟨e1, e2, e3⟩ := c2 rfl
          have hsz : (all.extract s.given (s.given + 1)).size = 1 := by rw [ext_size _ _ _ (by omega)]; omega
          refine ⟨d1.trans c1, fun hb => ?_, d3, d4⟩
          obtain ⟨f1, f2, f3⟩ := d2 hb
          refine ⟨f1.trans e1, fun hi => f2 (InvA.step 1 hi (by omega) e2 e3), fun hk hfu => ?_⟩
          apply f3 hk
          rw [e3, hsz]; omega
        | false =>
          dsimp only at h
          simp only [Prod.mk.injEq] at h
          obtain ⟨rfl, rfl⟩ := h
          exact ⟨c1, fun h => (by cases h), fun _ => c3 rfl, c4⟩
      · rw [if_neg hgt] at h
        simp only [Prod.mk.injEq] at h
        obtain ⟨rfl, rfl⟩ := h
        exact ⟨rfl, fun _ => ⟨rfl, id, fun _ _ => by omega⟩, fun h => (by cases h), fun _ => rfl⟩

theorem deliverAll_spec (c : W1.Cfg) (k : Kind) (F : Plan) (s s' : FSt σ) (b : Bool)
    (h : deliverAll c k F s = (s', b)) :
    s'.w = s.w ∧ Post c F s s' b ∧
    (b = true → k = .byteWriter → (produced c s'.w).size ≤ s'.given) := by
  unfold deliverAll at h
  dsimp only at h
  obtain ⟨d1, d2, d3, d4⟩ := deliver_spec k F (produced c s.w) _ s s' b h
  refine ⟨d1, ⟨fun hb => ?_, d3, d4⟩, fun hb hk => ?_⟩
  · obtain ⟨f1, f2, _⟩ := d2 hb
    refine ⟨f1, fun hi => ?_⟩
    unfold Inv5 at hi ⊢
    rw [d1]
    exact f2 hi
  · rw [d1]
    exact (d2 hb).2.2 hk (by omega)

/-- replacing the writer state by one that has produced more keeps the prefix invariant -/
theorem Inv5.setW {c : W1.Cfg} {s : FSt σ} (h : Inv5 c s) (w' : W1.St σ) (hg : Grows s.w.body w'.body) :
    Inv5 c { s with w := w' } :=
  InvA.grow h (produced_grows c s.w w' hg) rfl rfl

/-! ### `compress` -/

theorem compress_spec (c : W1.Cfg) (M : Matcher σ) (k : Kind) (F : Plan) (all : Bool) : ∀ (fuel : Nat) (s : FSt σ),
    (W1F.compress c M k F all fuel s = none → W1.compress c M all fuel s.w = none) ∧
    (∀ s' b, W1F.compress c M k F all fuel s = some (s', b) →
      Post c F s s' b ∧ (b = true → W1.compress c M all fuel s.w = some s'.w)) := by
  intro fuel
  induction fuel with
  | zero =>
    intro s
    unfold W1F.compress W1.compress
    refine ⟨fun h => (by cases h), fun s' b h => ?_⟩
    simp only [Option.some.injEq, Prod.mk.injEq] at h
    obtain ⟨rfl, rfl⟩ := h
    exact ⟨Post.refl c F s, fun _ => rfl⟩
  | succ fuel ih =>
    intro s
    unfold W1F.compress W1.compress
    by_cases hl : s.w.look.size > (if all = true then 0 else Gen.lzma_maxMatchLen - 1)
    · rw [if_pos hl, if_pos hl]
      rcases hnx : M.next s.w.m s.w.hist s.w.look s.w.s with ⟨g, m'⟩
      dsimp only
      cases henc : W1.encodeOp c { s.w with m := m' } g with
      | none =>
        dsimp only
        exact ⟨fun _ => rfl, fun s' b h => by cases h⟩
      | some w' =>
        dsimp only
        have hgrow : Grows s.w.body w'.body := by
          have := encodeOp_grows c _ w' g henc
          exact this
        have hp0 : Post c F s { s with w := w' } true :=
          ⟨fun _ => ⟨rfl, fun hi => hi.setW w' hgrow⟩, fun h => (by cases h), fun _ => rfl⟩
        rcases hd : deliverAll c k F { s with w := w' } with ⟨s1, b1⟩
        obtain ⟨d1, d2, _⟩ := deliverAll_spec c k F _ s1 b1 hd
        have hw1 : s1.w = w' := d1
        cases b1 with
        | true =>
          dsimp only
          obtain ⟨i1, i2⟩ := ih s1
          rw [hw1] at i1 i2
          refine ⟨i1, fun s' b h => ?_⟩
          obtain ⟨j1, j2⟩ := i2 s' b h
          exact ⟨(hp0.trans d2).trans j1, j2⟩
        | false =>
          dsimp only
          refine ⟨fun h => (by cases h), fun s' b h => ?_⟩
          simp only [Option.some.injEq, Prod.mk.injEq] at h
          obtain ⟨rfl, rfl⟩ := h
          exact ⟨hp0.trans d2, fun h => by cases h⟩
    · rw [if_neg hl, if_neg hl]
      refine ⟨fun h => (by cases h), fun s' b h => ?_⟩
      simp only [Option.some.injEq, Prod.mk.injEq] at h
      obtain ⟨rfl, rfl⟩ := h
      exact ⟨Post.refl c F s, fun _ => rfl⟩

/-! ### `encWrite` -/

theorem encWrite_spec (c : W1.Cfg) (M : Matcher σ) (k : Kind) (F : Plan) (p : ByteArray) :
    ∀ (fuel : Nat) (s : FSt σ) (n : Nat),
    (W1F.encWrite c M k F p fuel s n = none → W1.encWrite c M p fuel s.w n = none) ∧
    (∀ s' n' b, W1F.encWrite c M k F p fuel s n = some (s', n', b) →
      Post c F s s' b ∧ (b = true → W1.encWrite c M p fuel s.w n = some (s'.w, n'))) := by
  intro fuel
  induction fuel with
  | zero =>
    intro s n
    unfold W1F.encWrite W1.encWrite
    exact ⟨fun _ => rfl, fun s' n' b h => by cases h⟩
  | succ fuel ih =>
    intro s n
    unfold W1F.encWrite W1.encWrite
    dsimp only
    generalize ht : min (p.size - n) (s.w.dictAvail c) = t
    have hp0 : Post c F s { s with w := { s.w with look := s.w.look ++ p.extract n (n + t) } } true :=
      ⟨fun _ => ⟨rfl, fun hi => hi.setW _ (Grows.refl _)⟩, fun h => (by cases h), fun _ => rfl⟩
    by_cases hlt : n + t < p.size
    · rw [if_pos hlt, if_pos hlt]
      obtain ⟨c1, c2⟩ := compress_spec c M k F false ((s.w.look ++ p.extract n (n + t)).size + 1)
        { s with w := { s.w with look := s.w.look ++ p.extract n (n + t) } }
      dsimp only at c1 c2
      cases hc : W1F.compress c M k F false ((s.w.look ++ p.extract n (n + t)).size + 1)
          { s with w := { s.w with look := s.w.look ++ p.extract n (n + t) } } with
      | none =>
        dsimp only
        rw [c1 hc]
        exact ⟨fun _ => rfl, fun s' n' b h => by cases h⟩
      | some r =>
        obtain ⟨s2, b2⟩ := r
        obtain ⟨e1, e2⟩ := c2 s2 b2 hc
        cases b2 with
        | true =>
          dsimp only
          rw [e2 rfl]
          dsimp only
          obtain ⟨i1, i2⟩ := ih s2 (n + t)
          refine ⟨i1, fun s' n' b h => ?_⟩
          obtain ⟨j1, j2⟩ := i2 s' n' b h
          exact ⟨(hp0.trans e1).trans j1, j2⟩
        | false =>
          dsimp only
          refine ⟨fun h => (by cases h), fun s' n' b h => ?_⟩
          simp only [Option.some.injEq, Prod.mk.injEq] at h
          obtain ⟨rfl, rfl, rfl⟩ := h
          exact ⟨hp0.trans e1, fun h => by cases h⟩
    · rw [if_neg hlt, if_neg hlt]
      refine ⟨fun h => (by cases h), fun s' n' b h => ?_⟩
      simp only [Option.some.injEq, Prod.mk.injEq] at h
      obtain ⟨rfl, rfl, rfl⟩ := h
      exact ⟨hp0, fun _ => rfl⟩

/-! ### `write` -/

/-- the part of `p` a `Write` hands to the encoder, and whether a surplus was cut off -/
def qcut (c : W1.Cfg) (w : W1.St σ) (p : ByteArray) : ByteArray × Bool :=
  match c.size with
  | some sz =>
    if sz - (w.hist.size + w.look.size) < p.size then (p.extract 0 (sz - (w.hist.size + w.look.size)), true)
    else (p, false)
  | none => (p, false)

theorem W1_write_eq (c : W1.Cfg) (M : Matcher σ) (w : W1.St σ) (p : ByteArray) :
    W1.write c M w p =
      match W1.encWrite c M (qcut c w p).1 ((qcut c w p).1.size + 2) w 0 with
      | none => (w, 0, some (.other "match finder proposal not encodable"))
      | some (w', n) => (w', n, if (qcut c w p).2 then some .noSpace else none) := by
  unfold W1.write qcut
  cases c.size with
  | none => rfl
  | some sz => rfl

theorem W1F_write_eq (c : W1.Cfg) (M : Matcher σ) (k : Kind) (F : Plan) (s : FSt σ) (p : ByteArray)
    (hs : s.failed = false) :
    W1F.write c M k F s p =
      match W1F.encWrite c M k F (qcut c s.w p).1 ((qcut c s.w p).1.size + 2) s 0 with
      | none => (s, .done 0 (some (.other "match finder proposal not encodable")))
      | some (s', n, true) => (s', .done n (if (qcut c s.w p).2 then some .noSpace else none))
      | some (s', n, false) => (s', .sink n) := by
  unfold W1F.write qcut
  rw [hs]
  simp only [Bool.false_eq_true, if_false]
  cases c.size with
  | none => rfl
  | some sz => rfl

/-- what a call of the writer guarantees, by its result -/
def CallPost (c : W1.Cfg) (s s' : FSt σ) : Res → Prop
  | .done _ _ => s'.failed = false ∧ (Inv5 c s → Inv5 c s')
  | .sink _ => s'.failed = true
  | _ => False

theorem write_spec (c : W1.Cfg) (M : Matcher σ) (k : Kind) (F : Plan) (s s' : FSt σ) (p : ByteArray) (r : Res)
    (hs : s.failed = false) (h : W1F.write c M k F s p = (s', r)) :
    CallPost c s s' r ∧ (∀ n e, r = .done n e → W1.write c M s.w p = (s'.w, n, e)) ∧
    ((∀ i, F i = none) → ∃ n e, r = .done n e) := by
  rw [W1F_write_eq c M k F s p hs] at h
  rw [W1_write_eq]
  generalize qcut c s.w p = qc at h ⊢
  obtain ⟨q, cut⟩ := qc
  dsimp only at h ⊢
  obtain ⟨e1, e2⟩ := encWrite_spec c M k F q (q.size + 2) s 0
  cases hw : W1F.encWrite c M k F q (q.size + 2) s 0 with
  | none =>
    rw [hw] at h
    dsimp only at h
    simp only [Prod.mk.injEq] at h
    obtain ⟨rfl, rfl⟩ := h
    rw [e1 hw]
    refine ⟨⟨hs, id⟩, fun n e he => ?_, fun _ => ⟨_, _, rfl⟩⟩
    cases he
    rfl
  | some x =>
    obtain ⟨s1, n1, b1⟩ := x
    rw [hw] at h
    obtain ⟨f1, f2⟩ := e2 s1 n1 b1 hw
    cases b1 with
    | true =>
      dsimp only at h
      simp only [Prod.mk.injEq] at h
      obtain ⟨rfl, rfl⟩ := h
      obtain ⟨g1, g2⟩ := f1.1 rfl
      rw [f2 rfl]
      refine ⟨⟨g1.trans hs, g2⟩, fun n e he => ?_, fun _ => ⟨_, _, rfl⟩⟩
      cases he
      rfl
    | false =>
      dsimp only at h
      simp only [Prod.mk.injEq] at h
      obtain ⟨rfl, rfl⟩ := h
      refine ⟨f1.2.1 rfl, fun n e he => (by cases he), fun hF => ?_⟩
      exact absurd (f1.2.2 hF) (by simp)

/-! ### `close` -/

def sizeOkB (c : W1.Cfg) (w : W1.St σ) : Bool :=
  match c.size with
  | some sz => decide (w.hist.size + w.look.size = sz)
  | none => true

/-- table and coder after the optional end marker -/
def clTE (c : W1.Cfg) (w1 : W1.St σ) : Tbl × Enc :=
  if c.marker then encPath w1.tbl w1.e (opEnc (w1.ctx c) (.mtch 2 eosDist)) else (w1.tbl, w1.e)

def clBody (c : W1.Cfg) (w1 : W1.St σ) : ByteArray :=
  (flushOut { (clTE c w1).2 with out := (clTE c w1).2.close } w1.body).2

theorem clBody_grows (c : W1.Cfg) (w1 : W1.St σ) : Grows w1.body (clBody c w1) := flushOut_grows _ _

theorem W1_close_eq (c : W1.Cfg) (M : Matcher σ) (w : W1.St σ) :
    W1.close c M w =
      if !sizeOkB c w then .error .size else
      match W1.compress c M true (w.look.size + 1) w with
      | none => .error (.other "match finder proposal not encodable")
      | some w1 => .ok ({ w1 with tbl := (clTE c w1).1, e := (clTE c w1).2 },
                        Lzma1.headerBytes c.header ++ clBody c w1) := by
  unfold W1.close sizeOkB
  cases c.size <;> rfl

/-- the end of `Close`: hand on everything, then (plain) bufio's Flush -/
def closeTail (c : W1.Cfg) (k : Kind) (F : Plan) (s2 : FSt σ) : FSt σ × Res :=
  match deliverAll c k F s2 with
  | (s3, false) => (s3, .sink 0)
  | (s3, true) =>
    match k with
    | .byteWriter => (s3, .done 0 none)
    | .plain =>
      if (produced c s3.w).size > s3.given then
        match sinkCall F s3 ((produced c s3.w).extract s3.given (produced c s3.w).size) with
        | (s4, true) => (s4, .done 0 none)
        | (s4, false) => (s4, .sink 0)
      else (s3, .done 0 none)

theorem W1F_close_eq (c : W1.Cfg) (M : Matcher σ) (k : Kind) (F : Plan) (s : FSt σ) (hs : s.failed = false) :
    W1F.close c M k F s =
      if !sizeOkB c s.w then (s, .done 0 (some .size)) else
      match W1F.compress c M k F true (s.w.look.size + 1) s with
      | none => (s, .done 0 (some (.other "match finder proposal not encodable")))
      | some (s1, false) => (s1, .sink 0)
      | some (s1, true) =>
        closeTail c k F { s1 with w := { s1.w with tbl := (clTE c s1.w).1, e := (clTE c s1.w).2,
                                                   body := clBody c s1.w } } := by
  unfold W1F.close sizeOkB closeTail
  rw [hs]
  simp only [Bool.false_eq_true, if_false]
  cases c.size <;> rfl

def TailPost (c : W1.Cfg) (s2 s' : FSt σ) : Res → Prop
  | .done n e => n = 0 ∧ e = none ∧ s'.failed = s2.failed ∧ s'.w = s2.w ∧
      (Inv5 c s2 → Inv5 c s' ∧ s'.sunk = produced c s2.w)
  | .sink _ => s'.failed = true
  | _ => False

theorem closeTail_spec (c : W1.Cfg) (k : Kind) (F : Plan) (s2 s' : FSt σ) (r : Res)
    (h : closeTail c k F s2 = (s', r)) :
    TailPost c s2 s' r ∧ ((∀ i, F i = none) → ∃ n e, r = .done n e) := by
  unfold closeTail at h
  rcases hd : deliverAll c k F s2 with ⟨s3, b3⟩
  rw [hd] at h
  obtain ⟨d1, d2, d3⟩ := deliverAll_spec c k F s2 s3 b3 hd
  cases b3 with
  | false =>
    dsimp only at h
    simp only [Prod.mk.injEq] at h
    obtain ⟨rfl, rfl⟩ := h
    exact ⟨d2.2.1 rfl, fun hF => absurd (d2.2.2 hF) (by simp)⟩
  | true =>
    dsimp only at h
    obtain ⟨g1, g2⟩ := d2.1 rfl
    cases k with
    | byteWriter =>
      dsimp only at h
      simp only [Prod.mk.injEq] at h
      obtain ⟨rfl, rfl⟩ := h
      refine ⟨⟨rfl, rfl, g1, d1, fun hi => ?_⟩, fun _ => ⟨_, _, rfl⟩⟩
      have hi3 := g2 hi
      refine ⟨hi3, ?_⟩
      have hge := d3 rfl rfl
      obtain ⟨i1, i2⟩ := hi3
      have : s3.given = (produced c s3.w).size := by omega
      rw [i1, this, ByteArray.extract_zero_size, d1]
    | plain =>
      dsimp only at h
      by_cases hgt : (produced c s3.w).size > s3.given
      · rw [if_pos hgt] at h
        rcases hsc : sinkCall F s3 ((produced c s3.w).extract s3.given (produced c s3.w).size) with ⟨s4, b4⟩
        rw [hsc] at h
        obtain ⟨c1, c2, c3, c4⟩ := sinkCall_spec F s3 s4 _ b4 hsc
        cases b4 with
        | true =>
          dsimp only at h
          simp only [Prod.mk.injEq] at h
          obtain ⟨rfl, rfl⟩ := h
          obtain ⟨e1, e2, e3⟩ := c2 rfl
          refine ⟨⟨rfl, rfl, e1.trans g1, c1.trans d1, fun hi => ?_⟩, fun _ => ⟨_, _, rfl⟩⟩
          have hi3 := g2 hi
          have hle : s3.given + ((produced c s3.w).size - s3.given) ≤ (produced c s3.w).size := by omega
          have heq : s3.given + ((produced c s3.w).size - s3.given) = (produced c s3.w).size := by omega
          have hi4 : InvA (produced c s3.w) s4 :=
            InvA.step ((produced c s3.w).size - s3.given) hi3 hle (by rw [heq]; exact e2) (by rw [heq]; exact e3)
          have hi4' : Inv5 c s4 := by unfold Inv5; rw [c1]; exact hi4
          refine ⟨hi4', ?_⟩
          obtain ⟨i1, i2⟩ := hi3
          have hfin : s3.sunk ++ (produced c s3.w).extract s3.given (produced c s3.w).size = produced c s3.w := by
            rw [i1, ext_app _ 0 s3.given _ (Nat.zero_le _) i2, ByteArray.extract_zero_size]
          rw [e2, hfin, d1]
        | false =>
          dsimp only at h
          simp only [Prod.mk.injEq] at h
          obtain ⟨rfl, rfl⟩ := h
          exact ⟨c3 rfl, fun hF => absurd (c4 hF) (by simp)⟩
      · rw [if_neg hgt] at h
        simp only [Prod.mk.injEq] at h
        obtain ⟨rfl, rfl⟩ := h
        refine ⟨⟨rfl, rfl, g1, d1, fun hi => ?_⟩, fun _ => ⟨_, _, rfl⟩⟩
        have hi3 := g2 hi
        refine ⟨hi3, ?_⟩
        obtain ⟨i1, i2⟩ := hi3
        have : s3.given = (produced c s3.w).size := by omega
        rw [i1, this, ByteArray.extract_zero_size, d1]

theorem close_spec (c : W1.Cfg) (M : Matcher σ) (k : Kind) (F : Plan) (s s' : FSt σ) (r : Res)
    (hs : s.failed = false) (h : W1F.close c M k F s = (s', r)) :
    CallPost c s s' r ∧
    (∀ n err, r = .done n (some err) → n = 0 ∧ s' = s ∧ W1.close c M s.w = .error err) ∧
    (∀ n, r = .done n none → n = 0 ∧
      ∃ wf out, W1.close c M s.w = .ok (wf, out) ∧ (Inv5 c s → s'.sunk = out)) ∧
    ((∀ i, F i = none) → ∃ n e, r = .done n e) := by
  rw [W1F_close_eq c M k F s hs] at h
  rw [W1_close_eq]
  by_cases hso : sizeOkB c s.w = true
  · rw [hso] at h ⊢
    simp only [Bool.not_true, Bool.false_eq_true, if_false] at h ⊢
    obtain ⟨e1, e2⟩ := compress_spec c M k F true (s.w.look.size + 1) s
    cases hc : W1F.compress c M k F true (s.w.look.size + 1) s with
    | none =>
      rw [hc] at h
      dsimp only at h
      simp only [Prod.mk.injEq] at h
      obtain ⟨rfl, rfl⟩ := h
      rw [e1 hc]
      refine ⟨⟨hs, id⟩, fun n err he => ?_, fun n he => (by cases he), fun _ => ⟨_, _, rfl⟩⟩
      cases he
      exact ⟨rfl, rfl, rfl⟩
    | some x =>
      obtain ⟨s1, b1⟩ := x
      rw [hc] at h
      obtain ⟨f1, f2⟩ := e2 s1 b1 hc
      cases b1 with
      | false =>
        dsimp only at h
        simp only [Prod.mk.injEq] at h
        obtain ⟨rfl, rfl⟩ := h
        exact ⟨f1.2.1 rfl, fun n err he => (by cases he), fun n he => (by cases he),
          fun hF => absurd (f1.2.2 hF) (by simp)⟩
      | true =>
        dsimp only at h
        obtain ⟨g1, g2⟩ := f1.1 rfl
        rw [f2 rfl]
        dsimp only
        obtain ⟨t1, t2⟩ := closeTail_spec c k F _ s' r h
        have hgrow : Inv5 c s1 →
            Inv5 c { s1 with w := { s1.w with tbl := (clTE c s1.w).1, e := (clTE c s1.w).2, body := clBody c s1.w } } :=
          fun hi => hi.setW _ (clBody_grows c s1.w)
        cases r with
        | done n e =>
          obtain ⟨rfl, rfl, u3, u4, u5⟩ := t1
          refine ⟨⟨u3.trans (g1.trans hs), fun hi => (u5 (hgrow (g2 hi))).1⟩, fun n err he => (by cases he),
            fun n he => ⟨(by cases he; rfl), _, _, rfl, fun hi => ?_⟩, t2⟩
          exact (u5 (hgrow (g2 hi))).2
        | sink n =>
          exact ⟨t1, fun n err he => (by cases he), fun n he => (by cases he), t2⟩
        | open_ => exact absurd t1 id
        | err => exact absurd t1 id
  · have hso' : sizeOkB c s.w = false := by
      cases hb : sizeOkB c s.w
      · rfl
      · exact absurd hb hso
    rw [hso'] at h ⊢
    simp only [Bool.not_false, if_true] at h ⊢
    simp only [Prod.mk.injEq] at h
    obtain ⟨rfl, rfl⟩ := h
    refine ⟨⟨hs, id⟩, fun n err he => ?_, fun n he => (by cases he), fun _ => ⟨_, _, rfl⟩⟩
    cases he
    exact ⟨rfl, rfl, rfl⟩

/-! ### `run` -/

def Res.nil : Res → Bool
  | .done _ none => true
  | _ => false

def Res.sinkErr : Res → Bool
  | .sink _ => true
  | _ => false

theorem write_failed (c : W1.Cfg) (M : Matcher σ) (k : Kind) (F : Plan) (s : FSt σ) (p : ByteArray)
    (hs : s.failed = true) : W1F.write c M k F s p = (s, .open_) := by
  unfold W1F.write
  rw [hs]
  rfl

theorem close_failed (c : W1.Cfg) (M : Matcher σ) (k : Kind) (F : Plan) (s : FSt σ)
    (hs : s.failed = true) : W1F.close c M k F s = (s, if k = .plain then .err else .open_) := by
  unfold W1F.close
  rw [hs]
  rfl

theorem run_write (c : W1.Cfg) (M : Matcher σ) (k : Kind) (F : Plan) (s : FSt σ) (p : ByteArray)
    (rest : List W1.Call) :
    W1F.run c M k F s (.write p :: rest) =
      ((W1F.run c M k F (W1F.write c M k F s p).1 rest).1,
       ((W1F.write c M k F s p).2, (W1F.write c M k F s p).1.sunk.size) ::
         (W1F.run c M k F (W1F.write c M k F s p).1 rest).2) := rfl

theorem run_close (c : W1.Cfg) (M : Matcher σ) (k : Kind) (F : Plan) (s s' : FSt σ) (r : Res)
    (rest : List W1.Call) (h : W1F.close c M k F s = (s', r)) :
    W1F.run c M k F s (.close :: rest) =
      if r.nil then (s', [(r, s'.sunk.size)])
      else ((W1F.run c M k F s' rest).1, (r, s'.sunk.size) :: (W1F.run c M k F s' rest).2) := by
  rw [W1F.run.eq_3, h]
  cases r with
  | done n e => cases e <;> rfl
  | sink n => rfl
  | open_ => rfl
  | err => rfl

theorem run_nil (c : W1.Cfg) (M : Matcher σ) (k : Kind) (F : Plan) (s : FSt σ) :
    W1F.run c M k F s [] = (s, []) := rfl

/-- a single `Close` at the end of a history -/
theorem run_close_single (c : W1.Cfg) (M : Matcher σ) (k : Kind) (F : Plan) (s s' : FSt σ) (r : Res)
    (h : W1F.close c M k F s = (s', r)) :
    W1F.run c M k F s [.close] = (s', [(r, s'.sunk.size)]) := by
  rw [run_close c M k F s s' r [] h, run_nil]
  split <;> rfl

/-- after a fault nothing happens any more: the state stays, no call reports success or a (new) sink error -/
theorem run_failed (c : W1.Cfg) (M : Matcher σ) (k : Kind) (F : Plan) : ∀ (calls : List W1.Call) (s : FSt σ),
    s.failed = true →
    (W1F.run c M k F s calls).1 = s ∧ ∀ r ∈ (W1F.run c M k F s calls).2, r.1.nil = false := by
  intro calls
  induction calls with
  | nil => intro s _; exact ⟨rfl, fun r hr => by cases hr⟩
  | cons call rest ih =>
    intro s hs
    cases call with
    | write p =>
      rw [run_write, write_failed c M k F s p hs]
      obtain ⟨i1, i2⟩ := ih s hs
      refine ⟨i1, fun r hr => ?_⟩
      rcases List.mem_cons.mp hr with rfl | hr
      · rfl
      · exact i2 r hr
    | close =>
      rw [run_close c M k F s s _ rest (close_failed c M k F s hs)]
      have hnil : (if k = Kind.plain then Res.err else Res.open_).nil = false := by
        split <;> rfl
      rw [hnil]
      simp only [Bool.false_eq_true, if_false]
      obtain ⟨i1, i2⟩ := ih s hs
      refine ⟨i1, fun r hr => ?_⟩
      rcases List.mem_cons.mp hr with rfl | hr
      · exact hnil
      · exact i2 r hr

/-- T3 and T5 together, for any list of calls -/
theorem run_inv (c : W1.Cfg) (M : Matcher σ) (k : Kind) (F : Plan) : ∀ (calls : List W1.Call) (s : FSt σ),
    s.failed = false → Inv5 c s →
    ((W1F.run c M k F s calls).1.failed = false → Inv5 c (W1F.run c M k F s calls).1) ∧
    ((W1F.run c M k F s calls).1.failed = true → ∃ r ∈ (W1F.run c M k F s calls).2, r.1.sinkErr = true) := by
  intro calls
  induction calls with
  | nil =>
    intro s hs hi
    rw [run_nil]
    exact ⟨fun _ => hi, fun h => by rw [hs] at h; cases h⟩
  | cons call rest ih =>
    intro s hs hi
    cases call with
    | write p =>
      rcases hw : W1F.write c M k F s p with ⟨s', r⟩
      obtain ⟨a1, _, _⟩ := write_spec c M k F s s' p r hs hw
      rw [run_write, hw]
      dsimp only
      cases r with
      | done n e =>
        obtain ⟨b1, b2⟩ := a1
        obtain ⟨i1, i2⟩ := ih s' b1 (b2 hi)
        refine ⟨i1, fun h => ?_⟩
        obtain ⟨r, hr, hr2⟩ := i2 h
        exact ⟨r, List.mem_cons_of_mem _ hr, hr2⟩
      | sink n =>
        have hf : s'.failed = true := a1
        obtain ⟨j1, _⟩ := run_failed c M k F rest s' hf
        rw [j1]
        exact ⟨fun h => (by rw [hf] at h; cases h), fun _ => ⟨_, List.mem_cons_self, rfl⟩⟩
      | open_ => exact absurd a1 id
      | err => exact absurd a1 id
    | close =>
      rcases hw : W1F.close c M k F s with ⟨s', r⟩
      obtain ⟨a1, _, _, _⟩ := close_spec c M k F s s' r hs hw
      rw [run_close c M k F s s' r rest hw]
      cases r with
      | done n e =>
        obtain ⟨b1, b2⟩ := a1
        cases e with
        | none =>
          have : (Res.done n none).nil = true := rfl
          rw [this]
          simp only [if_true]
          exact ⟨fun _ => b2 hi, fun h => by rw [b1] at h; cases h⟩
        | some err =>
          have : (Res.done n (some err)).nil = false := rfl
          rw [this]
          simp only [Bool.false_eq_true, if_false]
          obtain ⟨i1, i2⟩ := ih s' b1 (b2 hi)
          refine ⟨i1, fun h => ?_⟩
          obtain ⟨r, hr, hr2⟩ := i2 h
          exact ⟨r, List.mem_cons_of_mem _ hr, hr2⟩
      | sink n =>
        have hf : s'.failed = true := a1
        have : (Res.sink n).nil = false := rfl
        rw [this]
        simp only [Bool.false_eq_true, if_false]
        obtain ⟨j1, _⟩ := run_failed c M k F rest s' hf
        rw [j1]
        exact ⟨fun h => (by rw [hf] at h; cases h), fun _ => ⟨_, List.mem_cons_self, rfl⟩⟩
      | open_ => exact absurd a1 id
      | err => exact absurd a1 id

/-! ### against `W1.run` -/

theorem W1run_write (c : W1.Cfg) (M : Matcher σ) (w : W1.St σ) (p : ByteArray) (rest : List W1.Call) :
    W1.run c M w (.write p :: rest) =
      (((W1.write c M w p).2.1, (W1.write c M w p).2.2) :: (W1.run c M (W1.write c M w p).1 rest).1,
       (W1.run c M (W1.write c M w p).1 rest).2) := rfl

theorem W1run_close_err (c : W1.Cfg) (M : Matcher σ) (w : W1.St σ) (e : W1.Err) (h : W1.close c M w = .error e) :
    W1.run c M w [.close] = ([(0, some e)], none) := by
  unfold W1.run
  rw [h]

theorem W1run_close_ok (c : W1.Cfg) (M : Matcher σ) (w wf : W1.St σ) (o : ByteArray)
    (h : W1.close c M w = .ok (wf, o)) : W1.run c M w [.close] = ([(0, none)], some o) := by
  unfold W1.run
  rw [h]

/-- T1 and T2 together, from any state that has not seen a fault -/
theorem run_hist (c : W1.Cfg) (M : Matcher σ) (k : Kind) (F : Plan) : ∀ (ws : List ByteArray) (s : FSt σ),
    s.failed = false → Inv5 c s →
    ((∀ i, F i = none) →
      (W1F.run c M k F s (ws.map W1.Call.write ++ [W1.Call.close])).2.map (·.1) =
        (W1.run c M s.w (ws.map W1.Call.write ++ [W1.Call.close])).1.map (fun x => Res.done x.1 x.2) ∧
      ∀ out, (W1.run c M s.w (ws.map W1.Call.write ++ [W1.Call.close])).2 = some out →
        (W1F.run c M k F s (ws.map W1.Call.write ++ [W1.Call.close])).1.sunk = out) ∧
    ((∀ r ∈ (W1F.run c M k F s (ws.map W1.Call.write ++ [W1.Call.close])).2, r.1.nil = true) →
      ∃ out, (W1.run c M s.w (ws.map W1.Call.write ++ [W1.Call.close])).2 = some out ∧
        (W1F.run c M k F s (ws.map W1.Call.write ++ [W1.Call.close])).1.sunk = out ∧
        ∀ r ∈ (W1.run c M s.w (ws.map W1.Call.write ++ [W1.Call.close])).1, r.2 = none) := by
  intro ws
  induction ws with
  | nil =>
    intro s hs hi
    simp only [List.map_nil, List.nil_append]
    rcases hw : W1F.close c M k F s with ⟨s', r⟩
    obtain ⟨a1, a2, a3, a4⟩ := close_spec c M k F s s' r hs hw
    rw [run_close_single c M k F s s' r hw]
    dsimp only
    constructor
    · intro hF
      obtain ⟨n, e, rfl⟩ := a4 hF
      cases e with
      | some err =>
        obtain ⟨rfl, _, b3⟩ := a2 n err rfl
        rw [W1run_close_err c M s.w err b3]
        exact ⟨rfl, fun out h => by cases h⟩
      | none =>
        obtain ⟨rfl, wf, out, b2, b3⟩ := a3 n rfl
        rw [W1run_close_ok c M s.w wf out b2]
        refine ⟨rfl, fun out' h => ?_⟩
        simp only [Option.some.injEq] at h
        rw [← h]
        exact b3 hi
    · intro hall
      have hr := hall (r, s'.sunk.size) List.mem_cons_self
      cases r with
      | done n e =>
        cases e with
        | some err => exact absurd hr (by simp [Res.nil])
        | none =>
          obtain ⟨rfl, wf, out, b2, b3⟩ := a3 n rfl
          rw [W1run_close_ok c M s.w wf out b2]
          refine ⟨out, rfl, b3 hi, fun r hr => ?_⟩
          rcases List.mem_cons.mp hr with rfl | hr
          · rfl
          · cases hr
      | sink n => exact absurd hr (by simp [Res.nil])
      | open_ => exact absurd hr (by simp [Res.nil])
      | err => exact absurd hr (by simp [Res.nil])
  | cons p ws ih =>
    intro s hs hi
    simp only [List.map_cons, List.cons_append]
    rcases hw : W1F.write c M k F s p with ⟨s', r⟩
    obtain ⟨a1, a2, a3⟩ := write_spec c M k F s s' p r hs hw
    rw [run_write, hw, W1run_write]
    dsimp only
    cases r with
    | done n e =>
      obtain ⟨b1, b2⟩ := a1
      have hww := a2 n e rfl
      rw [hww]
      dsimp only
      obtain ⟨i1, i2⟩ := ih s' b1 (b2 hi)
      constructor
      · intro hF
        obtain ⟨j1, j2⟩ := i1 hF
        refine ⟨?_, j2⟩
        simp only [List.map_cons, j1]
      · intro hall
        have hr := hall _ List.mem_cons_self
        have he : e = none := by
          cases e with
          | none => rfl
          | some err => exact absurd hr (by simp [Res.nil])
        subst he
        obtain ⟨out, j1, j2, j3⟩ := i2 (fun r hr => hall r (List.mem_cons_of_mem _ hr))
        refine ⟨out, j1, j2, fun r hr => ?_⟩
        rcases List.mem_cons.mp hr with rfl | hr
        · rfl
        · exact j3 r hr
    | sink n =>
      constructor
      · intro hF
        obtain ⟨_, _, h⟩ := a3 hF
        cases h
      · intro hall
        exact absurd (hall _ List.mem_cons_self) (by simp [Res.nil])
    | open_ => exact absurd a1 id
    | err => exact absurd a1 id

/-! ### `NewWriter` -/

theorem new_spec (c : W1.Cfg) (k : Kind) (F : Plan) (m0 : σ) :
    (W1F.new c k F m0).1.w = W1.init c m0 ∧
    ((W1F.new c k F m0).2 = true → (W1F.new c k F m0).1.failed = false ∧ Inv5 c (W1F.new c k F m0).1) ∧
    ((∀ i, F i = none) → (W1F.new c k F m0).2 = true) := by
  unfold W1F.new
  cases k with
  | plain =>
    dsimp only
    refine ⟨rfl, fun _ => ⟨rfl, ?_, ?_⟩, fun _ => rfl⟩
    · show ByteArray.empty = _
      rw [ByteArray.extract_same]
    · exact Nat.zero_le _
  | byteWriter =>
    dsimp only
    rcases hsc : sinkCall F ({ w := W1.init c m0 } : FSt σ) (Lzma1.headerBytes c.header) with ⟨s1, b1⟩
    obtain ⟨c1, c2, c3, c4⟩ := sinkCall_spec F _ s1 _ b1 hsc
    refine ⟨c1, fun hb => ?_, c4⟩
    have hb' : b1 = true := hb
    obtain ⟨e1, e2, e3⟩ := c2 hb'
    refine ⟨e1, ?_, ?_⟩
    · show s1.sunk = (produced c s1.w).extract 0 s1.given
      rw [e2, e3, c1]
      show ByteArray.empty ++ Lzma1.headerBytes c.header =
        (Lzma1.headerBytes c.header ++ ByteArray.empty).extract 0 (0 + (Lzma1.headerBytes c.header).size)
      rw [ByteArray.empty_append, ByteArray.append_empty, Nat.zero_add, ByteArray.extract_zero_size]
    · show s1.given ≤ (produced c s1.w).size
      rw [e3, c1]
      show 0 + (Lzma1.headerBytes c.header).size ≤ (Lzma1.headerBytes c.header ++ ByteArray.empty).size
      rw [ByteArray.append_empty]
      omega

end W1F
