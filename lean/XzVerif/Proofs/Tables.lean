import XzVerif.Gen.Consts
import XzVerif.Gen.Tables
import XzVerif.Codec.Lzma
import XzVerif.Codec.Lzma2
import XzVerif.Model.Xz
/-
  Proofs.Tables — the finite-domain functions of the Go code (their regenerated complete graphs,
  Gen/Tables.lean) are the functions the format-derived codec uses.  Each obligation covers its
  whole domain; a changed table entry in /repo breaks the corresponding theorem.
-/
namespace Proofs.Tables
open Lzma

theorem updLit_table : Gen.updLit = (List.range 12).map updLit := by decide
theorem updMatch_table : Gen.updMatch = (List.range 12).map updMatch := by decide
theorem updRep_table : Gen.updRep = (List.range 12).map updRep := by decide
theorem updShortRep_table : Gen.updShortRep = (List.range 12).map updShortRep := by decide

theorem lenState_table : Gen.lenState = (List.range 272).map lenState := by decide +kernel

theorem probInc_table : Gen.probInc = (List.range 2048).map (fun p => probNext p false) := by
  decide +kernel
theorem probDec_table : Gen.probDec = (List.range 2048).map (fun p => probNext p true) := by
  decide +kernel

theorem propsForCode_table :
    Gen.propsForCode = (List.range 256).map (fun b => (Lzma2.propsOfByte b).map (fun p => (p.lc, p.lp, p.pb))) := by
  decide +kernel

theorem propsCode_table :
    Gen.propsCode.all (fun (lc, lp, pb, c) => Lzma2.byteOfProps ⟨lc, lp, pb⟩ == c) = true := by
  decide +kernel

theorem verifyFlags_table :
    Gen.verifyFlags = (List.range 256).map (fun f => (Xz.checkSize f).isSome) := by decide +kernel

theorem padLen_table : Gen.padLen = (List.range 64).map Xz.padLen := by decide +kernel

theorem consts_ok :
    Gen.lzma_maxMatchLen = 273 ∧ Gen.lzma_minMatchLen = 2 ∧ Gen.lzma_states = 12 ∧
    Gen.lzma_probInit = 1024 ∧ Gen.lzma_probbits = 11 ∧ Gen.lzma_movebits = 5 ∧
    Gen.lzma_maxCompressed = 65536 ∧ Gen.lzma_maxUncompressed = 2097152 ∧
    Gen.lzma_startPosModel = 4 ∧ Gen.lzma_endPosModel = 14 ∧ Gen.lzma_posSlotBits = 6 ∧
    Gen.lzma_alignBits = 4 ∧ Gen.lzma_lenStates = 4 ∧ Gen.lzma_maxPosBits = 4 ∧
    Gen.lzma_MinDictCap = 4096 ∧ Gen.lzma_HeaderLen = 13 ∧
    Gen.xz_HeaderLen = 12 ∧ Gen.xz_footerLen = 12 ∧ Gen.xz_lzmaFilterID = 0x21 ∧
    Gen.xz_None = 0 ∧ Gen.xz_CRC32 = 1 ∧ Gen.xz_CRC64 = 4 ∧ Gen.xz_SHA256 = 10 := by decide

/-- padding: the padded length is a multiple of four and the padding is less than four bytes -/
theorem padLen_spec (n : Nat) : (n + Xz.padLen n) % 4 = 0 ∧ Xz.padLen n < 4 := by
  unfold Xz.padLen; omega

end Proofs.Tables
