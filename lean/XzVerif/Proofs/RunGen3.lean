import XzVerif.Proofs.RunKFlush
import XzVerif.Proofs.RunGen2

/-!
  Proofs/RunGen.lean with the second potential (Proofs/RunPot2.lean): for every match finder whose proposals inside
  a run are known (`RunSpec`) a run of `n` equal bytes is compressed by the LZMA2 writer model to at most
  `n / 500 + 128` bytes, and to at most `n / 500 + 112` when the steady distance is available from the first byte on.
-/

set_option linter.unusedSimpArgs false
set_option linter.unusedVariables false
set_option maxRecDepth 8000

namespace RunCost
open W2 Lzma Rc

variable {σ : Type}

theorem init_rck (c : Cfg) (b : UInt8) (M : Matcher σ) (I : σ → ByteArray → ByteArray → Prop) (m0 : σ)
    (h0 : I m0 ByteArray.empty ByteArray.empty) (dbt : Lzma.St → Nat → Nat) :
    RCK c b I dbt (dbt {} 0) (W2.init c m0) 0 := by
  have hinv := init_inv c I m0 h0
  refine ⟨hinv.inv, ⟨fun i h => ?_, fun i h => ?_⟩, 0, 0, 0, 0, 0, 0, ⟨?_, ?_, ?_, ?_, ?_⟩,
    ⟨?_, ?_, ?_, Nat.zero_le _, ?_⟩⟩
  · exact absurd h (by show ¬ i < ByteArray.empty.size; simp)
  · exact absurd h (by show ¬ i < ByteArray.empty.size; simp)
  · show 256 ^ 0 * S2 (initTable c.props.lc c.props.lp) * LR ^ 0 ≤ S2 (initTable c.props.lc c.props.lp) * KR ^ 0 * 2 ^ 0
    simp
  · show ByteArray.empty.size ≤ 0 + 11 * 0
    simp
  · show 0 * 273 ≤ 14 * 0
    omega
  · show 0 + dbt {} 0 ≤ 455 * (0 / Lc c) + 504 * 0 + dbt {} 0
    omega
  · show Gen.lzma_maxUncompressed * 0 ≤ 0 + 0
    omega
  · show Enc.init.range * S2 (initTable c.props.lc c.props.lp) * LR ^ 0 *
        256 ^ (ByteArray.empty.size + ([] : List Nat).length + Enc.init.cacheLen) ≤
      Enc.init.range * S2 (initTable c.props.lc c.props.lp) * KR ^ 0 * 2 ^ 0 * 256
    have : ByteArray.empty.size + ([] : List Nat).length + Enc.init.cacheLen = 1 := rfl
    rw [this]
    simp
  · show 0 * 273 ≤ 14 * (ByteArray.empty.size - 0)
    omega
  · show 0 + dbt {} ByteArray.empty.size ≤
      455 * (ByteArray.empty.size / Lc c - 0 / Lc c) + dbt {} 0 + 0
    have : ByteArray.empty.size = 0 := rfl
    rw [this]; omega
  · show 1856 ≤ (initTable c.props.lc c.props.lp).size
    unfold initTable tableSize aLit
    simp

/-- **the compressed size of a run, for any match finder with known proposals inside a run** -/
theorem run_size_k (c : Cfg) (hc : CfgOk c) (hd : 65536 ≤ c.dictCap) (b : UInt8) (M : Matcher σ)
    (I : σ → ByteArray → ByteArray → Prop) (hMI : MatcherInv c M I) (m0 : σ)
    (h0I : I m0 ByteArray.empty ByteArray.empty) (rho h0 : Nat) (hsp : RunSpec c b M I rho h0) (n : Nat) :
    (dbtB rho h0 {} 0 ≤ 259 → (W2.run c M (W2.init c m0) [.write (runOf b n), .close]).1.out.size ≤ n / 500 + 97) ∧
    (W2.run c M (W2.init c m0) [.write (runOf b n), .close]).1.out.size ≤ n / 500 + 117 := by
  have hstep := opstepK c hc b M I hMI rho h0 hsp
  have hdb := dbtB_le rho h0
  have hrc0 := init_rck c b M I m0 h0I (dbtB rho h0)
  have hD4 : dbtB rho h0 {} 0 ≤ 504 := dbtB_le _ _ _ _
  have hD413 : dbtB rho h0 {} 0 ≤ 413 := by
    rw [dbtB_zero]
    split
    · exact Nat.add_le_add_left (Nat.le_trans (coreB_le _ _) (by decide : 224 ≤ 350)) 63
    · omega
  suffices hsz : ∃ sz, (W2.run c M (W2.init c m0) [.write (runOf b n), .close]).1.out.size = sz ∧
      (dbtB rho h0 {} 0 ≤ 259 → sz ≤ n / 500 + 97) ∧ sz ≤ n / 500 + 117 by
    obtain ⟨sz, e, h1, h2⟩ := hsz
    rw [e]; exact ⟨h1, h2⟩
  have hcl0 := hrc0.inv.toInv.notClosed
  have hw0 : (W2.init c m0).written = 0 := rfl
  have hwr := write_k c hc hd b M I hMI (dbtB rho h0) hdb hstep (dbtB rho h0 {} 0) (runOf b n) (runOf_allB b n)
    (2 * (runOf b n).size + 0 + 2) _ 0 hrc0 (by rw [hw0]; decide) (Nat.zero_le _) (by rw [hw0]; omega)
  have hws := write_spec c (cfgOk' hc) M I (matcherInv' hMI) (runOf b n)
    (2 * (runOf b n).size + 0 + 2) _ 0 hrc0.inv (by rw [hw0]; decide) (Nat.zero_le _) (by rw [hw0]; omega)
  rw [run_cons, run_cons]
  show ∃ sz, ((step c M (step c M _ (.write (runOf b n))).1 .close).1).out.size = sz ∧ _
  have hs1 : (step c M (W2.init c m0) (.write (runOf b n))).1 =
      (write c M (runOf b n) (2 * (runOf b n).size + 0 + 2) (W2.init c m0) 0).1 := by
    unfold step
    rw [hcl0]
    rfl
  rw [hs1]
  rcases hr : write c M (runOf b n) (2 * (runOf b n).size + 0 + 2) (W2.init c m0) 0 with ⟨w1, n1, e⟩
  rw [hr] at hwr hws
  cases e with
  | some e => exact absurd hwr id
  | none =>
    obtain ⟨hrc1, _⟩ := hwr
    obtain ⟨_, _, _, hdata⟩ := hws
    have hcl1 := hrc1.inv.toInv.notClosed
    obtain ⟨w2, hfl, hsz, P, X, Y, m, F, J, hfin, hFJ⟩ :=
      flushLoop_k c hc hd b M I hMI (dbtB rho h0) hdb hstep (dbtB rho h0 {} 0) w1 hrc1
    have hstep' : (step c M w1 .close).1.out = w2.out.push 0 := by
      unfold step
      rw [hcl1]
      simp only [Bool.false_eq_true, if_false, hfl]
    show ∃ sz, (step c M w1 .close).1.out.size = sz ∧ _
    rw [hstep', ByteArray.size_push]
    refine ⟨_, rfl, ?_⟩
    have hb := fin_boundK c hc hd (dbtB rho h0 {} 0) hD4 w2 hfin hFJ
    have hn : w2.hist.size = n := by
      have h1 := congrArg ByteArray.size hdata
      simp only [ByteArray.size_append, ByteArray.size_extract, runOf_size] at h1
      have : (W2.init c m0).hist.size = 0 := rfl
      have : (W2.init c m0).look.size = 0 := rfl
      omega
    rw [hn] at hb
    exact ⟨hb.1, hb.2 hD413⟩

end RunCost
