import XzVerif.Model.XzWF
import XzVerif.Proofs.Writer2F
import XzVerif.Proofs.XzW

/-!
  Helper lemmas for Proofs/XzWF.lean, part 1: the ghost flag `hit` and the absence of panics in the xz writer on a
  failing sink.  The invariant between calls: the block header length is positive and the Writer2 of the open block
  is either stuck with a stored error, closed, or in a good state up to the sink bytes (`W2F.RunInvG`).
-/

set_option linter.unusedSimpArgs false
set_option linter.unusedVariables false

namespace W2F
open W2 Lzma Rc Lzma2 Spec

variable {σ : Type}

/-! ### more about `hit` in Model/Writer2F.lean: a panic never coincides with a failing sink call -/

theorem write_hit2 (c : Cfg) (M : Matcher σ) (F : Plan) (p : ByteArray) : ∀ (fuel : Nat) (s : FSt σ) (n : Nat),
    (write c M F p fuel s n).s.hit = s.hit ∨
      ((write c M F p fuel s n).err ≠ none ∧ (write c M F p fuel s n).panic = false) := by
  intro fuel
  induction fuel with
  | zero => intro s n; exact Or.inl rfl
  | succ fuel ih =>
    intro s n
    unfold write
    by_cases hlt : n < p.size
    · rw [if_pos hlt]
      simp only []
      split
      · exact Or.inl rfl
      · generalize (p.extract n _) = q
        rcases encWrite c M q (q.size + 2) s.w 0 with ⟨res, k⟩
        have hfc : ∀ w' : WSt σ,
            ((match flushChunk c M F { s with w := w' } with
              | .err s' e => ({ s := s', n := n + k, err := some e } : WRes σ)
              | .panic s' => { s := s', n := n + k, panic := true }
              | .ok s' => write c M F p fuel s' (n + k)).s.hit = s.hit ∨
             ((match flushChunk c M F { s with w := w' } with
              | .err s' e => ({ s := s', n := n + k, err := some e } : WRes σ)
              | .panic s' => { s := s', n := n + k, panic := true }
              | .ok s' => write c M F p fuel s' (n + k)).err ≠ none ∧
              (match flushChunk c M F { s with w := w' } with
              | .err s' e => ({ s := s', n := n + k, err := some e } : WRes σ)
              | .panic s' => { s := s', n := n + k, panic := true }
              | .ok s' => write c M F p fuel s' (n + k)).panic = false)) := by
          intro w'
          obtain ⟨b1, b2⟩ := flushChunk_hit c M F { s with w := w' }
          cases hf : flushChunk c M F { s with w := w' } with
          | ok s' =>
            rw [hf] at b1
            have e1 : s'.hit = s.hit := b1
            rcases ih s' (n + k) with h | h
            · exact Or.inl (h.trans e1)
            · exact Or.inr h
          | err s' e => exact Or.inr ⟨by simp, rfl⟩
          | panic s' =>
            rw [hf] at b1
            exact Or.inl b1
        cases res with
        | bad w' what => exact Or.inl rfl
        | broken w' => exact Or.inl rfl
        | limit w' => exact hfc w'
        | ok w' =>
          dsimp only
          split
          · exact hfc w'
          · exact ih { s with w := w' } (n + k)
    · rw [if_neg hlt]
      exact Or.inl rfl

theorem step_hit2 (c : Cfg) (M : Matcher σ) (F : Plan) (s : FSt σ) (call : Call) :
    (step c M F s call).1.hit = s.hit ∨
      ((step c M F s call).2.err ≠ none ∧ (step c M F s call).2.panic = false) := by
  cases call with
  | write p =>
    simp only [step]
    by_cases hcl : s.w.closed = true
    · rw [if_pos hcl]; exact Or.inl rfl
    · rw [if_neg hcl]
      cases he : s.err with
      | some e => exact Or.inl rfl
      | none => exact write_hit2 c M F p _ s 0
  | flush =>
    simp only [step]
    by_cases hcl : s.w.closed = true
    · rw [if_pos hcl]; exact Or.inl rfl
    · rw [if_neg hcl]
      cases he : s.err with
      | some e => exact Or.inl rfl
      | none =>
        dsimp only
        obtain ⟨b1, _⟩ := flushLoop_hit c M F (s.w.written + 1) s
        cases hr : flushLoop c M F (s.w.written + 1) s with
        | ok s' => rw [hr] at b1; exact Or.inl b1
        | err s' e => exact Or.inr ⟨by simp, rfl⟩
        | panic s' => rw [hr] at b1; exact Or.inl b1
  | close =>
    simp only [step]
    by_cases hcl : s.w.closed = true
    · rw [if_pos hcl]; exact Or.inl rfl
    · rw [if_neg hcl]
      cases he : s.err with
      | some e => exact Or.inl rfl
      | none =>
        dsimp only
        obtain ⟨b1, _⟩ := flushLoop_hit c M F (s.w.written + 1) s
        cases hr : flushLoop c M F (s.w.written + 1) s with
        | ok s' =>
          rw [hr] at b1
          dsimp only
          obtain ⟨a1, a2, a3, a4, a5⟩ := sinkWrite_spec F s' (ByteArray.empty.push 0)
          rcases hsw : sinkWrite F s' (ByteArray.empty.push 0) with ⟨s'', b⟩
          rw [hsw] at a4
          have e1 : s'.hit = s.hit := b1
          cases b with
          | false => exact Or.inr ⟨by simp, rfl⟩
          | true => exact Or.inl ((a4 rfl).1.trans e1)
        | err s' e => exact Or.inr ⟨by simp, rfl⟩
        | panic s' => rw [hr] at b1; exact Or.inl b1

/-! ### the invariant between calls of Model/Writer2F.lean as a lemma -/

/-- stuck with a stored error, closed, or good up to the sink bytes -/
def PF (c : Cfg) (I : σ → ByteArray → ByteArray → Prop) (f : FSt σ) : Prop :=
  f.err ≠ none ∨ f.w.closed = true ∨ ∃ d, RunInvG c I f.w d

theorem step_PF (c : Cfg) (hc : CfgOk c) (M : Matcher σ) (I : σ → ByteArray → ByteArray → Prop)
    (hI : MatcherInv c M I) (F : Plan) (s : FSt σ) (call : Call) (hP : PF c I s) :
    (step c M F s call).2.panic = false ∧ PF c I (step c M F s call).1 := by
  have hc' := cfgOk' hc
  have hI' := matcherInv' hI
  by_cases he : s.err = none
  · rcases hP with h | h | ⟨d, h⟩
    · exact absurd he h
    · have hst : step c M F s call = (s, { err := some (.w .closed) }) := by
        cases call <;> simp only [step, h, if_true]
      rw [hst]
      exact ⟨rfl, Or.inr (Or.inl h)⟩
    · cases call with
      | write p =>
        obtain ⟨h1, h2⟩ := step_write_F c hc' M I hI' F s d p h he
        refine ⟨h1, ?_⟩
        rcases h2 with ⟨_, a2, _⟩ | ⟨_, a2, _⟩
        · exact Or.inr (Or.inr ⟨_, a2⟩)
        · exact Or.inl (by rw [a2]; simp)
      | flush =>
        obtain ⟨h1, h2⟩ := step_flush_F c hc' M I hI' F s d h he
        refine ⟨h1, ?_⟩
        rcases h2 with ⟨_, a2, _⟩ | ⟨_, a2, _⟩
        · exact Or.inr (Or.inr ⟨_, a2⟩)
        · exact Or.inl (by rw [a2]; simp)
      | close =>
        obtain ⟨h1, h2⟩ := step_close_F c hc' M I hI' F s d h he
        refine ⟨h1, ?_⟩
        rcases h2 with ⟨_, a2, _⟩ | ⟨_, a2, _⟩ | ⟨_, _, _, a4⟩
        · exact Or.inr (Or.inl a2)
        · exact Or.inl (by rw [a2]; simp)
        · exact Or.inr (Or.inr ⟨_, a4⟩)
  · obtain ⟨a1, _, a3⟩ := step_sticky c M F s call he
    rw [a1]
    exact ⟨a3, Or.inl he⟩

theorem PF.of_er {c : Cfg} {I : σ → ByteArray → ByteArray → Prop} {f f' : FSt σ} (h : PF c I f)
    (hw : er f'.w = er f.w) (he : f'.err = f.err) : PF c I f' := by
  obtain ⟨_, _, _, g4, _⟩ := er_fields hw
  rcases h with h | h | ⟨d, t, ht, hr⟩
  · exact Or.inl (by rw [he]; exact h)
  · refine Or.inr (Or.inl ?_)
    unfold WSt.closed at h ⊢
    rw [g4]; exact h
  · exact Or.inr (Or.inr ⟨d, t, ht.trans hw.symm, hr⟩)

theorem PF.sinkWrite {c : Cfg} {I : σ → ByteArray → ByteArray → Prop} {f : FSt σ} (h : PF c I f) (F : Plan)
    (p : ByteArray) : PF c I (sinkWrite F f p).1 := by
  obtain ⟨a1, a2, _⟩ := sinkWrite_spec F f p
  exact h.of_er a1 a2

theorem PF.sinkWrites {c : Cfg} {I : σ → ByteArray → ByteArray → Prop} {f : FSt σ} (h : PF c I f) (F : Plan)
    (ps : List ByteArray) : PF c I (sinkWrites F f ps).1 := by
  obtain ⟨a1, a2, _⟩ := sinkWrites_spec F ps f
  exact h.of_er a1 a2

/-- a fresh block writer is in a good state whatever the sink holds -/
theorem PF.fresh (c : Cfg) (I : σ → ByteArray → ByteArray → Prop) (m0 : σ) (h0 : I m0 ByteArray.empty ByteArray.empty)
    (f : FSt σ) : PF c I { f with w := { W2.init c m0 with out := f.w.out }, err := none } :=
  Or.inr (Or.inr ⟨_, W2.init c m0, rfl, init_inv c I m0 h0⟩)

end W2F

namespace XzWF
open W2 W2F

variable {σ : Type}

/-! ### `hit` -/

theorem sw_spec (F : Plan) (s : St σ) (p : ByteArray) :
    (sw F s p).1 = { s with f := (sinkWrite F s.f p).1 } ∧ (sw F s p).2 = (sinkWrite F s.f p).2 := ⟨rfl, rfl⟩

/-- hit unchanged, or an error without panic -/
def HitOk (s : St σ) (r : St σ × CallRes) : Prop :=
  r.1.f.hit = s.f.hit ∨ (r.2.err ≠ none ∧ r.2.panic = false)

theorem closeBlock_hit (c : XzW.Cfg) (M : Matcher σ) (F : Plan) (s : St σ) : HitOk s (closeBlock c M F s) := by
  unfold closeBlock
  by_cases hb : s.bwClosed = true
  · rw [if_pos hb]; exact Or.inl rfl
  · rw [if_neg hb]
    simp only []
    have h2 := W2F.step_hit2 c.w2 M F s.f .close
    rcases hst : W2F.step c.w2 M F s.f .close with ⟨f', r⟩
    rw [hst] at h2
    dsimp only at h2 ⊢
    by_cases hp : r.panic = true
    · rw [if_pos hp]
      rcases h2 with h | ⟨_, h⟩
      · exact Or.inl h
      · rw [hp] at h; cases h
    · rw [if_neg hp]
      cases he : r.err with
      | some e => exact Or.inr ⟨by simp, rfl⟩
      | none =>
        dsimp only
        rcases h2 with h | ⟨h, _⟩
        · obtain ⟨a1, a2, a3, a4, a5⟩ := sinkWrite_spec F f'
            (Xz.zeros (Xz.padLen (f'.w.out.size - s.blockStart)) ++ Xz.checkValue c.flags s.data 0 s.data.size)
          unfold sw
          dsimp only
          rcases hsw : sinkWrite F f'
            (Xz.zeros (Xz.padLen (f'.w.out.size - s.blockStart)) ++ Xz.checkValue c.flags s.data 0 s.data.size)
            with ⟨f'', b⟩
          rw [hsw] at a4
          cases b with
          | false => exact Or.inr ⟨by simp, rfl⟩
          | true =>
            dsimp only
            split
            · exact Or.inl ((a4 rfl).1.trans h)
            · exact Or.inl ((a4 rfl).1.trans h)
        · exact absurd he h

theorem newBlock_hit (c : XzW.Cfg) (F : Plan) (m0 : σ) (s : St σ) :
    ((newBlock c F m0 s).2 = true → (newBlock c F m0 s).1.f.hit = s.f.hit) := by
  intro h
  unfold newBlock at h ⊢
  dsimp only at h ⊢
  exact ((sinkWrite_spec F _ _).2.2.2.1 h).1

theorem write_hit (c : XzW.Cfg) (M : Matcher σ) (F : Plan) (m0 : σ) (p : ByteArray) :
    ∀ (fuel : Nat) (s : St σ) (n : Nat), HitOk s (write c M F m0 p fuel s n) := by
  intro fuel
  induction fuel with
  | zero => intro s n; exact Or.inl rfl
  | succ fuel ih =>
    intro s n
    unfold write
    by_cases hb : s.bwClosed = true
    · rw [if_pos hb]; exact Or.inl rfl
    · rw [if_neg hb]
      simp only []
      generalize (p.extract n _) = q
      generalize (decide (p.size - n > c.blockSize - s.n)) = noSpace
      have h2 := W2F.step_hit2 c.w2 M F s.f (.write q)
      rcases hst : W2F.step c.w2 M F s.f (.write q) with ⟨f', r⟩
      rw [hst] at h2
      dsimp only at h2 ⊢
      by_cases hp : r.panic = true
      · rw [if_pos hp]
        rcases h2 with h | ⟨_, h⟩
        · exact Or.inl h
        · rw [hp] at h; cases h
      · rw [if_neg hp]
        cases he : r.err with
        | some e => exact Or.inr ⟨by simp, rfl⟩
        | none =>
          dsimp only
          have hf : f'.hit = s.f.hit := by
            rcases h2 with h | ⟨h, _⟩
            · exact h
            · exact absurd he h
          cases noSpace with
          | false => exact Or.inl hf
          | true =>
            simp only [if_true]
            generalize hs1 : ({ s with f := f', n := s.n + r.n, data := s.data ++ q } : St σ) = s1
            have hs1f : s1.f.hit = s.f.hit := by rw [← hs1]; exact hf
            have hcb := closeBlock_hit c M F s1
            rcases hcl : closeBlock c M F s1 with ⟨s', rc⟩
            rw [hcl] at hcb
            dsimp only
            by_cases hpc : rc.panic = true
            · rw [if_pos hpc]
              rcases hcb with h | ⟨_, h⟩
              · exact Or.inl (h.trans hs1f)
              · rw [hpc] at h; cases h
            · rw [if_neg hpc]
              cases hec : rc.err with
              | some e => exact Or.inr ⟨by simp, rfl⟩
              | none =>
                dsimp only
                have hs' : s'.f.hit = s.f.hit := by
                  rcases hcb with h | ⟨h, _⟩
                  · exact h.trans hs1f
                  · exact absurd hec h
                have hnb := newBlock_hit c F m0 s'
                rcases hn : newBlock c F m0 s' with ⟨s'', ok⟩
                rw [hn] at hnb
                cases ok with
                | false => exact Or.inr ⟨by simp, rfl⟩
                | true =>
                  dsimp only
                  rcases ih s'' (n + r.n) with h | h
                  · exact Or.inl (h.trans ((hnb rfl).trans hs'))
                  · exact Or.inr h

theorem finish_hit (c : XzW.Cfg) (F : Plan) (s : St σ) : HitOk s (finish c F s) := by
  unfold finish
  simp only []
  generalize ([ByteArray.empty.push 0, uvar s.index.length] ++ s.index.map (fun r => uvar r.1 ++ uvar r.2) ++ _) = all
  obtain ⟨a1, a2, a3, a4, a5⟩ := sinkWrites_spec F all s.f
  rcases hsw : sinkWrites F s.f all with ⟨f', b⟩
  rw [hsw] at a4
  cases b with
  | false => exact Or.inr ⟨by simp, rfl⟩
  | true => exact Or.inl (a4 rfl).1

theorem step_hitOk (c : XzW.Cfg) (M : Matcher σ) (F : Plan) (m0 : σ) (s : St σ) (call : Call) :
    HitOk s (step c M F m0 s call) := by
  cases call with
  | write p =>
    simp only [step]
    by_cases hcl : s.closed = true
    · rw [if_pos hcl]; exact Or.inl rfl
    · rw [if_neg hcl]; exact write_hit c M F m0 p _ s 0
  | close =>
    simp only [step]
    by_cases hcl : s.closed = true
    · rw [if_pos hcl]; exact Or.inl rfl
    · rw [if_neg hcl]
      have hcb := closeBlock_hit c M F { s with closed := true }
      rcases hcc : closeBlock c M F { s with closed := true } with ⟨s', rc⟩
      rw [hcc] at hcb
      dsimp only
      by_cases hpc : rc.panic = true
      · rw [if_pos hpc]
        rcases hcb with h | ⟨_, h⟩
        · exact Or.inl h
        · rw [hpc] at h; cases h
      · rw [if_neg hpc]
        cases hec : rc.err with
        | some e => exact Or.inr ⟨by simp, rfl⟩
        | none =>
          dsimp only
          have hs' : s'.f.hit = s.f.hit := by
            rcases hcb with h | ⟨h, _⟩
            · exact h
            · exact absurd hec h
          rcases finish_hit c F s' with h | h
          · exact Or.inl (h.trans hs')
          · exact Or.inr h

theorem run_cons (c : XzW.Cfg) (M : Matcher σ) (F : Plan) (m0 : σ) (s : St σ) (call : Call) (rest : List Call) :
    run c M F m0 s (call :: rest) =
      ((run c M F m0 (step c M F m0 s call).1 rest).1,
       ((step c M F m0 s call).2, (step c M F m0 s call).1.f.w.out.size) ::
         (run c M F m0 (step c M F m0 s call).1 rest).2) := rfl

/-! ### no panic -/

theorem blockHeader_size_pos (c : XzW.Cfg) : (blockHeader c).size ≠ 0 := by
  unfold blockHeader Xz.blockHeaderBytes
  simp only []
  rw [ByteArray.size_append, Xz.le32_size]
  omega

/-- the state between calls: positive header length, Writer2 of the block stuck / closed / good -/
def Good (c : XzW.Cfg) (I : σ → ByteArray → ByteArray → Prop) (s : St σ) : Prop :=
  s.hdrLen ≠ 0 ∧ PF c.w2 I s.f

theorem newBlock_good (c : XzW.Cfg) (I : σ → ByteArray → ByteArray → Prop) (F : Plan) (m0 : σ)
    (h0 : I m0 ByteArray.empty ByteArray.empty) (s : St σ) : Good c I (newBlock c F m0 s).1 := by
  unfold newBlock
  dsimp only
  exact ⟨blockHeader_size_pos c, (PF.fresh c.w2 I m0 h0 s.f).sinkWrite F _⟩

theorem closeBlock_good (c : XzW.Cfg) (hc : W2.CfgOk c.w2) (M : Matcher σ) (I : σ → ByteArray → ByteArray → Prop)
    (hI : MatcherInv c.w2 M I) (F : Plan) (s : St σ) (hg : Good c I s) :
    (closeBlock c M F s).2.panic = false ∧ Good c I (closeBlock c M F s).1 := by
  obtain ⟨hl, hP⟩ := hg
  unfold closeBlock
  by_cases hb : s.bwClosed = true
  · rw [if_pos hb]; exact ⟨rfl, hl, hP⟩
  · rw [if_neg hb]
    simp only []
    obtain ⟨h1, h2⟩ := W2F.step_PF c.w2 hc M I hI F s.f .close hP
    rcases hst : W2F.step c.w2 M F s.f .close with ⟨f', r⟩
    rw [hst] at h1 h2
    dsimp only at h1 h2 ⊢
    rw [if_neg (by rw [h1]; simp)]
    cases he : r.err with
    | some e => exact ⟨rfl, hl, h2⟩
    | none =>
      dsimp only
      unfold sw
      dsimp only
      have h3 := h2.sinkWrite F
        (Xz.zeros (Xz.padLen (f'.w.out.size - s.blockStart)) ++ Xz.checkValue c.flags s.data 0 s.data.size)
      rcases hsw : sinkWrite F f'
        (Xz.zeros (Xz.padLen (f'.w.out.size - s.blockStart)) ++ Xz.checkValue c.flags s.data 0 s.data.size)
        with ⟨f'', b⟩
      rw [hsw] at h3
      cases b with
      | false => exact ⟨rfl, hl, h3⟩
      | true =>
        dsimp only
        rw [if_neg hl]
        exact ⟨rfl, hl, h3⟩

theorem write_good (c : XzW.Cfg) (hc : W2.CfgOk c.w2) (M : Matcher σ) (I : σ → ByteArray → ByteArray → Prop)
    (hI : MatcherInv c.w2 M I) (F : Plan) (m0 : σ) (h0 : I m0 ByteArray.empty ByteArray.empty) (p : ByteArray) :
    ∀ (fuel : Nat) (s : St σ) (n : Nat), Good c I s →
      (write c M F m0 p fuel s n).2.panic = false ∧ Good c I (write c M F m0 p fuel s n).1 := by
  intro fuel
  induction fuel with
  | zero => intro s n hg; exact ⟨rfl, hg⟩
  | succ fuel ih =>
    intro s n hg
    obtain ⟨hl, hP⟩ := hg
    unfold write
    by_cases hb : s.bwClosed = true
    · rw [if_pos hb]; exact ⟨rfl, hl, hP⟩
    · rw [if_neg hb]
      simp only []
      generalize (p.extract n _) = q
      generalize (decide (p.size - n > c.blockSize - s.n)) = noSpace
      obtain ⟨h1, h2⟩ := W2F.step_PF c.w2 hc M I hI F s.f (.write q) hP
      rcases hst : W2F.step c.w2 M F s.f (.write q) with ⟨f', r⟩
      rw [hst] at h1 h2
      dsimp only at h1 h2 ⊢
      rw [if_neg (by rw [h1]; simp)]
      cases he : r.err with
      | some e => exact ⟨rfl, hl, h2⟩
      | none =>
        dsimp only
        cases noSpace with
        | false => exact ⟨rfl, hl, h2⟩
        | true =>
          simp only [if_true]
          generalize hs1 : ({ s with f := f', n := s.n + r.n, data := s.data ++ q } : St σ) = s1
          have hg1 : Good c I s1 := by rw [← hs1]; exact ⟨hl, h2⟩
          obtain ⟨c1, c2⟩ := closeBlock_good c hc M I hI F s1 hg1
          rcases hcl : closeBlock c M F s1 with ⟨s', rc⟩
          rw [hcl] at c1 c2
          dsimp only at c1 c2 ⊢
          rw [if_neg (by rw [c1]; simp)]
          cases hec : rc.err with
          | some e => exact ⟨rfl, c2⟩
          | none =>
            dsimp only
            have hnb := newBlock_good c I F m0 h0 s'
            rcases hn : newBlock c F m0 s' with ⟨s'', ok⟩
            rw [hn] at hnb
            cases ok with
            | false => exact ⟨rfl, hnb⟩
            | true => exact ih s'' (n + r.n) hnb

theorem finish_good (c : XzW.Cfg) (I : σ → ByteArray → ByteArray → Prop) (F : Plan) (s : St σ) (hg : Good c I s) :
    (finish c F s).2.panic = false ∧ Good c I (finish c F s).1 := by
  obtain ⟨hl, hP⟩ := hg
  unfold finish
  simp only []
  generalize ([ByteArray.empty.push 0, uvar s.index.length] ++ s.index.map (fun r => uvar r.1 ++ uvar r.2) ++ _) = all
  have h3 := hP.sinkWrites F all
  rcases hsw : sinkWrites F s.f all with ⟨f', b⟩
  rw [hsw] at h3
  cases b with
  | false => exact ⟨rfl, hl, h3⟩
  | true => exact ⟨rfl, hl, h3⟩

theorem step_good (c : XzW.Cfg) (hc : W2.CfgOk c.w2) (M : Matcher σ) (I : σ → ByteArray → ByteArray → Prop)
    (hI : MatcherInv c.w2 M I) (F : Plan) (m0 : σ) (h0 : I m0 ByteArray.empty ByteArray.empty) (s : St σ)
    (call : Call) (hg : Good c I s) :
    (step c M F m0 s call).2.panic = false ∧ Good c I (step c M F m0 s call).1 := by
  cases call with
  | write p =>
    simp only [step]
    by_cases hcl : s.closed = true
    · rw [if_pos hcl]; exact ⟨rfl, hg⟩
    · rw [if_neg hcl]; exact write_good c hc M I hI F m0 h0 p _ s 0 hg
  | close =>
    simp only [step]
    by_cases hcl : s.closed = true
    · rw [if_pos hcl]; exact ⟨rfl, hg⟩
    · rw [if_neg hcl]
      have hg1 : Good c I { s with closed := true } := hg
      obtain ⟨c1, c2⟩ := closeBlock_good c hc M I hI F _ hg1
      rcases hcc : closeBlock c M F { s with closed := true } with ⟨s', rc⟩
      rw [hcc] at c1 c2
      dsimp only at c1 c2 ⊢
      rw [if_neg (by rw [c1]; simp)]
      cases hec : rc.err with
      | some e => exact ⟨rfl, c2⟩
      | none => exact finish_good c I F s' c2

theorem new_good (c : XzW.Cfg) (I : σ → ByteArray → ByteArray → Prop) (F : Plan) (m0 : σ)
    (h0 : I m0 ByteArray.empty ByteArray.empty) (s : St σ) (h : new c F m0 = .ok s) :
    Good c I s ∧ s.f.hit = false := by
  unfold new at h
  simp only [] at h
  obtain ⟨a1, a2, a3, a4, a5⟩ := sinkWrite_spec F (W2F.init c.w2 m0) (Xz.streamHeader c.flags)
  rcases hsw : sinkWrite F (W2F.init c.w2 m0) (Xz.streamHeader c.flags) with ⟨f1, b⟩
  rw [hsw] at h a4
  cases b with
  | false => cases h
  | true =>
    dsimp only at h
    have hg := newBlock_good c I F m0 h0 ({ f := f1, blockStart := f1.w.out.size } : St σ)
    have hh := newBlock_hit c F m0 ({ f := f1, blockStart := f1.w.out.size } : St σ)
    rcases hn : newBlock c F m0 ({ f := f1, blockStart := f1.w.out.size } : St σ) with ⟨s', ok⟩
    rw [hn] at h hg hh
    cases ok with
    | false => cases h
    | true =>
      have := (Except.ok.inj h)
      subst this
      exact ⟨hg, (hh rfl).trans (a4 rfl).1⟩

/-! ### `hit` is never reset -/

theorem closeBlock_mono (c : XzW.Cfg) (M : Matcher σ) (F : Plan) (s : St σ) (h : s.f.hit = true) :
    (closeBlock c M F s).1.f.hit = true := by
  unfold closeBlock
  by_cases hb : s.bwClosed = true
  · rw [if_pos hb]; exact h
  · rw [if_neg hb]
    simp only []
    have h2 := (W2F.step_hit_aux c.w2 M F s.f .close).2 h
    rcases hst : W2F.step c.w2 M F s.f .close with ⟨f', r⟩
    rw [hst] at h2
    dsimp only at h2 ⊢
    split
    · exact h2
    · cases he : r.err with
      | some e => exact h2
      | none =>
        dsimp only
        unfold sw
        dsimp only
        have h3 := (sinkWrite_spec F f'
          (Xz.zeros (Xz.padLen (f'.w.out.size - s.blockStart)) ++ Xz.checkValue c.flags s.data 0 s.data.size)).2.2.1 h2
        rcases hsw : sinkWrite F f'
          (Xz.zeros (Xz.padLen (f'.w.out.size - s.blockStart)) ++ Xz.checkValue c.flags s.data 0 s.data.size)
          with ⟨f'', b⟩
        rw [hsw] at h3
        cases b with
        | false => exact h3
        | true =>
          dsimp only
          split
          · exact h3
          · exact h3

theorem newBlock_mono (c : XzW.Cfg) (F : Plan) (m0 : σ) (s : St σ) (h : s.f.hit = true) :
    (newBlock c F m0 s).1.f.hit = true := by
  unfold newBlock
  dsimp only
  exact (sinkWrite_spec F _ _).2.2.1 h

theorem write_mono (c : XzW.Cfg) (M : Matcher σ) (F : Plan) (m0 : σ) (p : ByteArray) :
    ∀ (fuel : Nat) (s : St σ) (n : Nat), s.f.hit = true → (write c M F m0 p fuel s n).1.f.hit = true := by
  intro fuel
  induction fuel with
  | zero => intro s n h; exact h
  | succ fuel ih =>
    intro s n h
    unfold write
    by_cases hb : s.bwClosed = true
    · rw [if_pos hb]; exact h
    · rw [if_neg hb]
      simp only []
      generalize (p.extract n _) = q
      generalize (decide (p.size - n > c.blockSize - s.n)) = noSpace
      have h2 := (W2F.step_hit_aux c.w2 M F s.f (.write q)).2 h
      rcases hst : W2F.step c.w2 M F s.f (.write q) with ⟨f', r⟩
      rw [hst] at h2
      dsimp only at h2 ⊢
      split
      · exact h2
      · cases he : r.err with
        | some e => exact h2
        | none =>
          dsimp only
          cases noSpace with
          | false => exact h2
          | true =>
            simp only [if_true]
            generalize hs1 : ({ s with f := f', n := s.n + r.n, data := s.data ++ q } : St σ) = s1
            have hs1f : s1.f.hit = true := by rw [← hs1]; exact h2
            have hcb := closeBlock_mono c M F s1 hs1f
            rcases hcl : closeBlock c M F s1 with ⟨s', rc⟩
            rw [hcl] at hcb
            dsimp only at hcb ⊢
            split
            · exact hcb
            · cases hec : rc.err with
              | some e => exact hcb
              | none =>
                dsimp only
                have hnb := newBlock_mono c F m0 s' hcb
                rcases hn : newBlock c F m0 s' with ⟨s'', ok⟩
                rw [hn] at hnb
                cases ok with
                | false => exact hnb
                | true => exact ih s'' (n + r.n) hnb

theorem finish_mono (c : XzW.Cfg) (F : Plan) (s : St σ) (h : s.f.hit = true) : (finish c F s).1.f.hit = true := by
  unfold finish
  simp only []
  generalize ([ByteArray.empty.push 0, uvar s.index.length] ++ s.index.map (fun r => uvar r.1 ++ uvar r.2) ++ _) = all
  have h3 := (sinkWrites_spec F all s.f).2.2.1 h
  rcases hsw : sinkWrites F s.f all with ⟨f', b⟩
  rw [hsw] at h3
  cases b <;> exact h3

theorem step_mono (c : XzW.Cfg) (M : Matcher σ) (F : Plan) (m0 : σ) (s : St σ) (call : Call) (h : s.f.hit = true) :
    (step c M F m0 s call).1.f.hit = true := by
  cases call with
  | write p =>
    simp only [step]
    split
    · exact h
    · exact write_mono c M F m0 p _ s 0 h
  | close =>
    simp only [step]
    split
    · exact h
    · have hcb := closeBlock_mono c M F { s with closed := true } h
      rcases hcc : closeBlock c M F { s with closed := true } with ⟨s', rc⟩
      rw [hcc] at hcb
      dsimp only at hcb ⊢
      split
      · exact hcb
      · cases hec : rc.err with
        | some e => exact hcb
        | none => exact finish_mono c F s' hcb

theorem run_mono (c : XzW.Cfg) (M : Matcher σ) (F : Plan) (m0 : σ) : ∀ (calls : List Call) (s : St σ),
    s.f.hit = true → (run c M F m0 s calls).1.f.hit = true := by
  intro calls
  induction calls with
  | nil => intro s h; exact h
  | cons call rest ih =>
    intro s h
    rw [run_cons]
    exact ih _ (step_mono c M F m0 s call h)

end XzWF
