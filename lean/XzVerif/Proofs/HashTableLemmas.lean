import XzVerif.Model.HashTable
import XzVerif.Proofs.RingLemmas

/-! helper lemmas for Proofs/HashTable.lean: `ringStore`, the hash table's counters, `getMatches` -/
namespace HT
open Ring W2

/-! ### ringStore -/

/-- storing `n` more bytes of the abstract content `F` behind position `w` keeps the ring a window of `F` -/
theorem foldl_store_kept (data : ByteArray) (L : Nat) (hL : data.size = L) (hpos : 0 < L) (F : Nat → UInt8)
    (w : Nat) (p : ByteArray) (lo : Nat) :
    ∀ n, (∀ j, j < w → w - j ≤ L → data.get! (j % L) = F j) → (∀ k, k < n → p.get! (lo + k) = F (w + k)) →
      ((List.range n).foldl (fun a k => a.set! ((w % L + k) % L) (p.get! (lo + k))) data).size = L ∧
      ∀ j, j < w + n → w + n - j ≤ L →
        ((List.range n).foldl (fun a k => a.set! ((w % L + k) % L) (p.get! (lo + k))) data).get! (j % L) = F j := by
  intro n
  induction n with
  | zero => intro h0 _; exact ⟨hL, h0⟩
  | succ n ih =>
    intro h0 hp
    obtain ⟨s1, k1⟩ := ih h0 (fun k hk => hp k (by omega))
    rw [List.range_succ, List.foldl_append]
    simp only [List.foldl_cons, List.foldl_nil]
    generalize (List.range n).foldl (fun a k => a.set! ((w % L + k) % L) (p.get! (lo + k))) data = r at *
    refine ⟨by rw [size_set!]; exact s1, ?_⟩
    intro j hj hjk
    have hlt : (w % L + n) % L < r.size := by rw [s1]; exact Nat.mod_lt _ hpos
    rw [get!_set! _ _ _ _ hlt, Nat.mod_add_mod]
    by_cases hjn : j = w + n
    · subst hjn; rw [if_pos rfl]; exact hp n (by omega)
    · have hne : j % L ≠ (w + n) % L := by
        intro he
        have e := mod_fwd L j (w + n) hpos (by omega) (by omega)
        rw [he] at e
        split_ifs at e <;> omega
      rw [if_neg hne]
      exact k1 j (by omega) (by omega)

theorem ringStore_kept (data : ByteArray) (L : Nat) (hL : data.size = L) (hpos : 0 < L) (F : Nat → UInt8)
    (w : Nat) (p : ByteArray) (lo hi : Nat)
    (h0 : ∀ j, j < w → w - j ≤ L → data.get! (j % L) = F j)
    (hp : ∀ k, k < hi - lo → p.get! (lo + k) = F (w + k)) :
    (ringStore data (w % L) p lo hi).size = L ∧
    ∀ j, j < w + (hi - lo) → w + (hi - lo) - j ≤ L → (ringStore data (w % L) p lo hi).get! (j % L) = F j := by
  unfold ringStore
  rw [hL]
  exact foldl_store_kept data L hL hpos F w p lo (hi - lo) h0 hp

/-! ### the hash table's counters -/

/-- every slot holds position + 1 of a complete four-byte word, i.e. at most `n − 3` -/
def Tab.WF (t : Tab) : Prop := ∀ i, t.t.getD i 0 ≤ t.n - 3

theorem Tab.new_wf (capacity : Nat) : (Tab.new capacity).WF := by
  intro i
  simp only [Tab.new, Array.getD_eq_getD_getElem?, Array.getElem?_replicate]
  split_ifs <;> simp

theorem Tab.writeByte_n (t : Tab) (c : UInt8) : (t.writeByte c).n = t.n + 1 := by
  unfold Tab.writeByte
  simp only
  split_ifs <;> rfl

theorem Tab.writeByte_t (t : Tab) (c : UInt8) :
    (t.writeByte c).t = if t.n + 1 < 4 then t.t else
      t.t.setIfInBounds ((hash4 t.b1 t.b2 t.b3 c).toNat % (t.mask + 1)) (t.n + 1 - 4 + 1) := by
  unfold Tab.writeByte
  simp only
  split_ifs <;> rfl

theorem Tab.writeByte_wf (t : Tab) (c : UInt8) (h : t.WF) : (t.writeByte c).WF := by
  intro i
  have hi := h i
  rw [Tab.writeByte_n, Tab.writeByte_t]
  by_cases hc : t.n + 1 < 4
  · rw [if_pos hc]; omega
  · rw [if_neg hc]
    simp only [Array.getD_eq_getD_getElem?, Array.getElem?_setIfInBounds] at hi ⊢
    split_ifs
    · simp only [Option.getD_some]; omega
    · simp only [Option.getD_none]; omega
    · omega

theorem Tab.foldl_writeByte (p : ByteArray) (lo : Nat) : ∀ (n : Nat) (t : Tab), t.WF →
    ((List.range n).foldl (fun t k => t.writeByte (p.get! (lo + k))) t).n = t.n + n ∧
    ((List.range n).foldl (fun t k => t.writeByte (p.get! (lo + k))) t).WF := by
  intro n
  induction n with
  | zero => intro t h; exact ⟨rfl, h⟩
  | succ n ih =>
    intro t h
    obtain ⟨e1, e2⟩ := ih t h
    rw [List.range_succ, List.foldl_append]
    simp only [List.foldl_cons, List.foldl_nil]
    exact ⟨by rw [Tab.writeByte_n, e1]; omega, Tab.writeByte_wf _ _ e2⟩

theorem Tab.write_n (t : Tab) (h : t.WF) (p : ByteArray) (lo hi : Nat) :
    (t.write p lo hi).n = t.n + (hi - lo) ∧ (t.write p lo hi).WF :=
  Tab.foldl_writeByte p lo (hi - lo) t h

/-! ### getMatches -/

theorem go_spec (t : Tab) (buffered tailPos : Nat) : ∀ (fuel delta : Nat) (acc : List Nat),
    ∃ l, Tab.getMatches.go t buffered tailPos fuel delta acc = acc.reverse ++ l ∧
      l.Pairwise (· > ·) ∧ ∀ x ∈ l, x ≤ tailPos + delta := by
  intro fuel
  induction fuel with
  | zero =>
    intro delta acc
    exact ⟨[], by rw [Tab.getMatches.go.eq_1, List.append_nil], List.Pairwise.nil, by simp⟩
  | succ fuel ih =>
    intro delta acc
    have hone : ∃ l, ((tailPos + delta) :: acc).reverse = acc.reverse ++ l ∧
        l.Pairwise (· > ·) ∧ ∀ x ∈ l, x ≤ tailPos + delta :=
      ⟨[tailPos + delta], by simp, List.pairwise_singleton _ _, by simp⟩
    rw [Tab.getMatches.go.eq_2]
    by_cases h0 : fuel = 0
    · rw [if_pos h0]; exact hone
    rw [if_neg h0]
    simp only
    generalize t.data.getD ((t.front + t.data.size - buffered + delta) % t.data.size) 0 = u
    by_cases hu : u = 0 ∨ u > delta
    · rw [if_pos hu]; exact hone
    · rw [if_neg hu]
      obtain ⟨l, e1, e2, e3⟩ := ih (delta - u) ((tailPos + delta) :: acc)
      refine ⟨(tailPos + delta) :: l, by rw [e1]; simp, ?_, ?_⟩
      · rw [List.pairwise_cons]
        refine ⟨fun x hx => ?_, e2⟩
        have := e3 x hx
        omega
      · intro x hx
        rcases List.mem_cons.mp hx with hx | hx
        · omega
        · have := e3 x hx; omega

/-- the positions `getMatches` returns strictly decrease and lie below `n − 3` -/
theorem getMatches_spec (t : Tab) (hwf : t.WF) (h : UInt64) :
    (t.getMatches h).Pairwise (· > ·) ∧ ∀ x ∈ t.getMatches h, x + 4 ≤ t.n := by
  unfold Tab.getMatches
  simp only
  split_ifs with c1 c2 c3
  · exact ⟨List.Pairwise.nil, by simp⟩
  · exact ⟨List.Pairwise.nil, by simp⟩
  · exact ⟨List.Pairwise.nil, by simp⟩
  · have he := hwf (h.toNat % (t.mask + 1))
    generalize t.t.getD (h.toNat % (t.mask + 1)) 0 = entry at *
    obtain ⟨l, e1, e2, e3⟩ := go_spec t t.buffered (t.n - 3 - t.buffered) 16
      (entry - 1 - (t.n - 3 - t.buffered)) []
    rw [e1]
    simp only [List.reverse_nil, List.nil_append]
    refine ⟨e2, fun x hx => ?_⟩
    have := e3 x hx
    omega

theorem cands_ascending' (t : Tab) (hwf : t.WF) (look : ByteArray) : (t.cands look).Pairwise (· < ·) := by
  unfold Tab.cands
  split_ifs
  · exact List.Pairwise.nil
  · obtain ⟨e1, e2⟩ := getMatches_spec t hwf
      (hash4 (look.get! 0) (look.get! 1) (look.get! 2) (look.get! 3))
    rw [List.pairwise_map]
    refine List.Pairwise.imp_of_mem ?_ e1
    intro a b ha hb hab
    have := e2 a ha
    have := e2 b hb
    omega

/-! ### byte arrays, and the state `HT4.next` returns -/

theorem toList_extract0 (a : ByteArray) (k : Nat) : (a.extract 0 k).data.toList = a.data.toList.take k := by
  rw [ByteArray.data_extract, Array.toList_extract]
  simp [List.extract]

theorem toList_append (a b : ByteArray) : (a ++ b).data.toList = a.data.toList ++ b.data.toList := by
  rw [ByteArray.data_append, Array.toList_append]

theorem ba_ext {a b : ByteArray} (h : a.data.toList = b.data.toList) : a = b := by
  obtain ⟨⟨la⟩⟩ := a
  obtain ⟨⟨lb⟩⟩ := b
  simp only at h
  rw [h]

theorem extract_self (a : ByteArray) : a.extract 0 a.size = a := by
  apply ba_ext
  rw [toList_extract0, ← length_toList, List.take_length]

theorem split_look (look : ByteArray) (n : Nat) : look.extract 0 n ++ look.extract n look.size = look := by
  apply ba_ext
  rw [toList_append, toList_extract0, ByteArray.data_extract, Array.toList_extract]
  simp only [List.extract, ← length_toList]
  have : List.take (look.data.toList.length - n) (List.drop n look.data.toList) = List.drop n look.data.toList :=
    List.take_of_length_le (by simp)
  rw [this, List.take_append_drop]

theorem next_snd (s : St) (hist look : ByteArray) (st : Lzma.St) :
    (HT4.next s hist look st).2 = s.sync hist look := by
  simp only [HT4]
  split <;> rfl

end HT
