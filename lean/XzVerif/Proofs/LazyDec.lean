import XzVerif.Model.LazyDec
import XzVerif.Proofs.Ring
import XzVerif.Proofs.LazyDecLemmas
/-!
  The lazy classic reader (Model/LazyDec.lean: ring level, refill threshold, per-call results) refines the batch
  reader (Model/Lzma1.lean `read`: unbounded history, whole stream at once), for EVERY input — valid or not — and
  EVERY schedule of buffer lengths.
-/
namespace LazyDec
open Lzma Rc Ring

/-- the configured capacity after `ReaderConfig.fill` -/
def effCap (cfgCap : Nat) : Nat := if cfgCap = 0 then 8 * 1024 * 1024 else cfgCap

/-- the batch status an error of the lazy reader corresponds to -/
def statusOf : Err → Status
  | .unexpectedEOF => .unexpectedEOF
  | .size => .err "wrong uncompressed size"
  | .dataAfterEOS => .err "data after end of stream marker"
  | .distRange => .err "distance out of range"
  | .noSpace => .err "insufficient space"
  | .lenRange => .err "length out of range"
  | .panic => .err "panic"
  | .other w => .err w
  | .src => .err "source error"

def lastStat (rs : List (ByteArray × RStat)) : RStat := (rs.getLast?.map (·.2)).getD .ok

/-! ## helper lemmas: schedules -/

section Helpers
variable {p : Props} {size : Option Nat} {cap : Nat}

theorem ba_ext {a b : ByteArray} (h : a.data.toList = b.data.toList) : a = b := by
  obtain ⟨⟨la⟩⟩ := a
  obtain ⟨⟨lb⟩⟩ := b
  simp only at h
  rw [h]

theorem foldl_app (rs : List (ByteArray × RStat)) : ∀ (a : ByteArray),
    rs.foldl (fun a r => a ++ r.1) a = a ++ rs.foldl (fun a r => a ++ r.1) ByteArray.empty := by
  induction rs with
  | nil => intro a; simp only [List.foldl_nil, ByteArray.append_empty]
  | cons x rs ih =>
    intro a
    simp only [List.foldl_cons]
    rw [ih (a ++ x.1), ih (ByteArray.empty ++ x.1), ByteArray.empty_append, ByteArray.append_assoc]

theorem delivered_cons (x : ByteArray × RStat) (rs : List (ByteArray × RStat)) :
    delivered (x :: rs) = x.1 ++ delivered rs := by
  unfold delivered
  rw [List.foldl_cons, foldl_app, ByteArray.empty_append]

theorem delivered_nil : delivered [] = ByteArray.empty := rfl

theorem lastStat_cons_ok (out : ByteArray) (rs : List (ByteArray × RStat)) :
    lastStat ((out, .ok) :: rs) = lastStat rs := by
  cases rs with
  | nil => rfl
  | cons y t => simp [lastStat, List.getLast?_cons_cons]

theorem lastStat_single (x : ByteArray × RStat) : lastStat [x] = x.2 := rfl

def NotBad (st : RStat) : Prop := st ≠ .err .noSpace ∧ st ≠ .err .lenRange ∧ st ≠ .err .panic

theorem goodErr_notBad {Kp : Prop} {e : Err} {st : Status} (h : GoodErr Kp e st) : NotBad (.err e) := by
  rcases h with ⟨rfl, _⟩ | ⟨rfl | rfl | rfl, _⟩ <;> refine ⟨?_, ?_, ?_⟩ <;> intro hh <;> cases hh

/-- everything the theorems say about a schedule, for a state in step with the batch run -/
def SeqPost (R : SegRes) (D : ByteArray) (lens : List Nat)
    (rs : List (ByteArray × RStat)) : Prop :=
  (∀ x ∈ rs, NotBad x.2) ∧
  (rs.length ≤ lens.length ∧ ∀ i (hi : i < rs.length), (rs[i]).1.size ≤ lens[i]! ∧ ((rs[i]).2 = .ok → (rs[i]).1.size = lens[i]!)) ∧
  Pre 0 R (D ++ delivered rs) ∧
  (lastStat rs = .eof → K R → R.status = .eof ∧ (D ++ delivered rs).data.toList = R.d.h.out.data.toList) ∧
  (∀ e, lastStat rs = .err e → GoodErr (K R) e R.status) ∧
  (lastStat rs = .ok → (delivered rs).size = lens.sum)

theorem readSeq_spec (R : SegRes) (hcap : 274 ≤ cap) : ∀ (lens : List Nat) (l : LSt) (D : ByteArray),
    GI p size cap 0 0 R l D → SeqPost R D lens (readSeq l lens) := by
  intro lens
  induction lens with
  | nil =>
    intro l D hg
    simp only [readSeq]
    refine ⟨(fun x hx => by cases hx), ⟨Nat.le_refl _, (fun i hi => by cases hi)⟩, ?_, ?_, ?_, fun _ => rfl⟩
    · rw [delivered_nil, ByteArray.append_empty]; exact hg.pre
    · intro h; cases h
    · intro e h; cases h
  | cons len rest ih =>
    intro l D hg
    have hr := read_spec' R hcap hg len
    rw [readSeq]
    rcases hrd : read l len with ⟨l', out, st⟩
    rw [hrd] at hr
    obtain ⟨q1, q2, q3, q4⟩ := hr
    simp only at q1 q2 q3 q4 ⊢
    cases st with
    | ok =>
      simp only
      obtain ⟨i1, ⟨i2, i3⟩, i4, i5, i6, i7⟩ := ih l' (D ++ out) q4.2
      have hdl : D ++ delivered ((out, RStat.ok) :: readSeq l' rest) = D ++ out ++ delivered (readSeq l' rest) := by
        rw [delivered_cons, ByteArray.append_assoc]
      refine ⟨?_, ⟨?_, ?_⟩, ?_, ?_, ?_, ?_⟩
      · intro x hx
        rcases List.mem_cons.mp hx with rfl | hx
        · refine ⟨?_, ?_, ?_⟩ <;> intro hh <;> cases hh
        · exact i1 x hx
      · simp only [List.length_cons]; omega
      · intro i hi
        cases i with
        | zero => simp only [List.getElem_cons_zero, List.getElem!_cons_zero]; exact ⟨q1, fun _ => q2 rfl⟩
        | succ i =>
          simp only [List.getElem_cons_succ, List.getElem!_cons_succ]
          exact i3 i (by simpa using hi)
      · rw [hdl]; exact i4
      · rw [hdl, lastStat_cons_ok]; exact i5
      · rw [lastStat_cons_ok]; exact i6
      · rw [lastStat_cons_ok, delivered_cons, ByteArray.size_append, List.sum_cons]
        intro h
        rw [i7 h, q2 rfl]
    | eof =>
      simp only
      have hd1 : delivered [(out, RStat.eof)] = out := by rw [delivered_cons, delivered_nil, ByteArray.append_empty]
      refine ⟨?_, ⟨?_, ?_⟩, ?_, ?_, ?_, ?_⟩
      · intro x hx
        rcases List.mem_cons.mp hx with rfl | hx
        · refine ⟨?_, ?_, ?_⟩ <;> intro hh <;> cases hh
        · cases hx
      · simp
      · intro i hi
        have : i = 0 := by simpa using hi
        subst this
        simp only [List.getElem_cons_zero, List.getElem!_cons_zero]
        exact ⟨q1, fun h => by cases h⟩
      · rw [hd1]; exact q3
      · rw [hd1]; intro _ hK
        obtain ⟨_, a2, d, ⟨a3, a4, _, a6⟩, a7⟩ := q4
        obtain ⟨e1, e2⟩ := a6 a2 hK
        refine ⟨e1, ?_⟩
        rw [a4, e2, List.drop_zero, List.take_of_length_le (by rw [length_toList, a7]; omega)]
      · intro e h; cases h
      · intro h; cases h
    | err e =>
      simp only
      have hd1 : delivered [(out, RStat.err e)] = out := by rw [delivered_cons, delivered_nil, ByteArray.append_empty]
      refine ⟨?_, ⟨?_, ?_⟩, ?_, ?_, ?_, ?_⟩
      · intro x hx
        rcases List.mem_cons.mp hx with rfl | hx
        · exact goodErr_notBad q4
        · cases hx
      · simp
      · intro i hi
        have : i = 0 := by simpa using hi
        subst this
        simp only [List.getElem_cons_zero, List.getElem!_cons_zero]
        exact ⟨q1, fun h => by cases h⟩
      · rw [hd1]; exact q3
      · intro h; cases h
      · intro e' h
        have : e' = e := by
          have h' : RStat.err e = RStat.err e' := h
          cases h'; rfl
        rw [this]; exact q4
      · intro h; cases h

theorem toList_extract0 (a : ByteArray) (k : Nat) : (a.extract 0 k).data.toList = a.data.toList.take k := by
  rw [ByteArray.data_extract, Array.toList_extract]
  simp [List.extract]

theorem goodErr_cls {Kp : Prop} (hK : Kp) {e : Err} {st : Status} (h : GoodErr Kp e st) :
    st.cls = (statusOf e).cls := by
  rcases h with ⟨rfl, h2⟩ | ⟨rfl | rfl | rfl, h2⟩
  · rw [h2 hK]; rfl
  · obtain ⟨w, hw⟩ := h2 hK; rw [hw]; rfl
  · obtain ⟨w, hw⟩ := h2 hK; rw [hw]; rfl
  · obtain ⟨w, hw⟩ := h2 hK; rw [hw]; rfl

/-- the schedule facts for the state `NewReader` returns, against the batch reader -/
theorem schedule_spec (cfgCap : Nat) (inp : ByteArray) (l : LSt) (h : newReader cfgCap inp = .ok l) (lens : List Nat) :
    ∃ R : SegRes, (Lzma1.read (effCap cfgCap) inp).out = R.d.h.out ∧
      (Lzma1.read (effCap cfgCap) inp).status = R.status ∧ SeqPost R ByteArray.empty lens (readSeq l lens) := by
  obtain ⟨p, size, cap, R, hcap, hg, e1, e2⟩ := newReader_init cfgCap inp l h
  exact ⟨R, e1, e2, readSeq_spec R hcap lens l ByteArray.empty hg⟩

end Helpers

/-! ## statements to prove -/

/-- T1. NewReader fails exactly when the batch reader reports an open error -/
theorem newReader_ok_iff (cfgCap : Nat) (inp : ByteArray) :
    (newReader cfgCap inp).toOption.isSome = !(Lzma1.read (effCap cfgCap) inp).openError := by
  unfold newReader newReaderE Lzma1.read effCap
  by_cases c1 : inp.size < 13
  · rw [if_pos c1, if_pos c1]; rfl
  rw [if_neg c1, if_neg c1]
  cases hp : Lzma2.propsOfByte (Lzma2.get inp 0) with
  | none => rfl
  | some p =>
    simp only
    by_cases c2 : Lzma1.le inp 5 8 ≠ 2 ^ 64 - 1 ∧ Lzma1.le inp 5 8 ≥ 2 ^ 63
    · rw [if_pos c2, if_pos c2]; rfl
    rw [if_neg c2, if_neg c2]
    cases hi : Dec.init (bytesToList inp 13 inp.size) with
    | none => rfl
    | some rd => rfl

/-- T2. the ring never lacks space, no length is out of range, nothing panics — for every input and schedule -/
theorem never_noSpace (cfgCap : Nat) (inp : ByteArray) (l : LSt) (h : newReader cfgCap inp = .ok l) (lens : List Nat) :
    ∀ r ∈ readSeq l lens, r.2 ≠ .err .noSpace ∧ r.2 ≠ .err .lenRange ∧ r.2 ≠ .err .panic := by
  obtain ⟨R, _, _, hs⟩ := schedule_spec cfgCap inp l h lens
  exact hs.1

/-- T3. Read contract per call: never more than requested; a call that returns nil filled its buffer completely -/
theorem call_sizes (cfgCap : Nat) (inp : ByteArray) (l : LSt) (h : newReader cfgCap inp = .ok l) (lens : List Nat) :
    (readSeq l lens).length ≤ lens.length ∧
    ∀ i (hi : i < (readSeq l lens).length),
      ((readSeq l lens)[i]).1.size ≤ lens[i]! ∧
      (((readSeq l lens)[i]).2 = .ok → ((readSeq l lens)[i]).1.size = lens[i]!) := by
  obtain ⟨R, _, _, hs⟩ := schedule_spec cfgCap inp l h lens
  exact hs.2.1

/-- T4. whatever the schedule, the delivered bytes are a prefix of what the batch reader decodes -/
theorem delivered_prefix (cfgCap : Nat) (inp : ByteArray) (l : LSt) (h : newReader cfgCap inp = .ok l) (lens : List Nat)
    (hfuel : (Lzma1.read (effCap cfgCap) inp).status ≠ .err "fuel exhausted") :
    let out := (Lzma1.read (effCap cfgCap) inp).out
    (delivered (readSeq l lens)).size ≤ out.size ∧
    delivered (readSeq l lens) = out.extract 0 (delivered (readSeq l lens)).size := by
  obtain ⟨R, e1, e2, hs⟩ := schedule_spec cfgCap inp l h lens
  have hK : K R := by rw [K, ← e2]; exact hfuel
  have hp := hs.2.2.1 hK
  rw [ByteArray.empty_append, List.drop_zero] at hp
  intro out
  have ho : out = R.d.h.out := e1
  rw [ho]
  have hlen := congrArg List.length hp
  rw [length_toList, List.length_take, length_toList] at hlen
  refine ⟨by omega, ?_⟩
  apply ba_ext
  rw [toList_extract0]; exact hp

/-- T5. a schedule that ends with io.EOF has delivered everything, and the batch reader ends cleanly -/
theorem eof_complete (cfgCap : Nat) (inp : ByteArray) (l : LSt) (h : newReader cfgCap inp = .ok l) (lens : List Nat)
    (hfuel : (Lzma1.read (effCap cfgCap) inp).status ≠ .err "fuel exhausted")
    (he : lastStat (readSeq l lens) = .eof) :
    (Lzma1.read (effCap cfgCap) inp).status = .eof ∧
    delivered (readSeq l lens) = (Lzma1.read (effCap cfgCap) inp).out := by
  obtain ⟨R, e1, e2, hs⟩ := schedule_spec cfgCap inp l h lens
  have hK : K R := by rw [K, ← e2]; exact hfuel
  obtain ⟨a1, a2⟩ := hs.2.2.2.1 he hK
  rw [ByteArray.empty_append] at a2
  rw [e1, e2]
  exact ⟨a1, ba_ext a2⟩

/-- T6. a schedule that ends with an error: the batch reader fails with an error of the same class (unexpected EOF
    vs. other).  (The messages can differ in one corner: after the declared size the Go code only READS a further
    operation and reports errSize, the batch model also applies it and may report its distance instead.) -/
theorem err_agrees (cfgCap : Nat) (inp : ByteArray) (l : LSt) (h : newReader cfgCap inp = .ok l) (lens : List Nat)
    (hfuel : (Lzma1.read (effCap cfgCap) inp).status ≠ .err "fuel exhausted")
    (e : Err) (he : lastStat (readSeq l lens) = .err e) :
    (Lzma1.read (effCap cfgCap) inp).status.cls = (statusOf e).cls := by
  obtain ⟨R, e1, e2, hs⟩ := schedule_spec cfgCap inp l h lens
  have hK : K R := by rw [K, ← e2]; exact hfuel
  rw [e2]
  exact goodErr_cls hK (hs.2.2.2.2.1 e he)

/-- T7. progress: when the batch reader ends cleanly, a schedule asking for more than the content reaches io.EOF -/
theorem reaches_eof (cfgCap : Nat) (inp : ByteArray) (l : LSt) (h : newReader cfgCap inp = .ok l) (lens : List Nat)
    (hclean : (Lzma1.read (effCap cfgCap) inp).status = .eof)
    (hsum : (Lzma1.read (effCap cfgCap) inp).out.size < lens.sum) :
    lastStat (readSeq l lens) = .eof := by
  obtain ⟨R, e1, e2, hs⟩ := schedule_spec cfgCap inp l h lens
  have hst : R.status = .eof := by rw [← e2]; exact hclean
  have hK : K R := by rw [K, hst]; intro hh; cases hh
  have hp := hs.2.2.1 hK
  rw [ByteArray.empty_append, List.drop_zero] at hp
  have hlen := congrArg List.length hp
  rw [length_toList, List.length_take, length_toList] at hlen
  rw [e1] at hsum
  cases hl : lastStat (readSeq l lens) with
  | eof => rfl
  | ok =>
    have := hs.2.2.2.2.2 hl
    omega
  | err e =>
    have := goodErr_cls hK (hs.2.2.2.2.1 e hl)
    rw [hst] at this
    cases e <;> simp [Status.cls, statusOf] at this

end LazyDec

#print axioms LazyDec.newReader_ok_iff
#print axioms LazyDec.never_noSpace
#print axioms LazyDec.call_sizes
#print axioms LazyDec.delivered_prefix
#print axioms LazyDec.eof_complete
#print axioms LazyDec.err_agrees
#print axioms LazyDec.reaches_eof
