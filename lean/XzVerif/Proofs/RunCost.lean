import XzVerif.Model.Writer2
import XzVerif.Model.HashTable
import XzVerif.Proofs.Writer2
import XzVerif.Proofs.HashTable
import XzVerif.Proofs.RunFlush

/-!
  C17, first clause, for the LZMA2 writer model with the HashTable4 match finder model: a run of one byte value
  is compressed to about `n / 7000` bytes; proved here: `≤ n / 500 + 251` for dictionaries of at least 64 KiB.

  * Proofs/RunProposal.lean — what HashTable4 proposes inside a run (ring level);
  * Proofs/RunPotTab.lean, RunPot.lean — the amortised cost of range-coder decisions (weight table, potential);
  * Proofs/RunOps.lean, RunStep.lean — one operation of the writer inside a run;
  * Proofs/RunInv.lean, RunFlush.lean — the invariant through `compress`, `encoder.Write`, `Close`, chunks, `Write`.
-/

set_option linter.unusedSimpArgs false
set_option linter.unusedVariables false
set_option maxRecDepth 8000

namespace RunCost
open W2 Lzma Rc

def runOf (b : UInt8) (n : Nat) : ByteArray := ⟨Array.replicate n b⟩

def lzma2OfRun (c : Cfg) (b : UInt8) (n : Nat) : ByteArray :=
  (W2.run c HT.HT4 (W2.init c (HT.St.new c.dictCap c.bufSize)) [.write (runOf b n), .close]).1.out

/-! ## (a) the proposal inside a run

  The statement as given,

      theorem run_proposal (c : Cfg) (hc : CfgOk c) (b : UInt8) (m : HT.St) (hist look : ByteArray) (s : St)
          (hI : HT.Synced c m hist look) (hr0 : s.r0 = 0) (hh : 1 ≤ hist.size) (hl : 1 ≤ look.size)
          (hsp : look.size + min hist.size c.dictCap ≤ c.dictCap + c.bufSize)
          (hlast : hist.get! (hist.size - 1) = b) (hall : ∀ i, i < look.size → look.get! i = b) :
          (HT.HT4.next m hist look s).1 = .mtch 1 (min 273 look.size)

  is FALSE for the model (and for the Go code): `buffer.matchLen` does not wrap the match source at the physical
  end of the ring array (`n += prefixLen(p, b.data[i:])` for `i ≥ 0`), so near the end of the array distance 1
  yields a truncated length, the candidate loop goes on and returns another distance.  Counterexample (evaluated
  below): `dictCap = 1000`, `bufSize = 273`, fresh match finder state, `hist = 1273 × 'A'`, `look = 273 × 'A'`:
  the proposal is `(19, 20)`.  The corrected statement needs the read position `hist.size mod (dictCap + bufSize + 1)`
  to be `0` or at least `min 273 look.size − 1` bytes before the end of the array (`run_proposal'`); at the
  physical end the proposal is some match reaching at least the end of the array (`run_proposal_wrap`). -/

#guard (HT.HT4.next (HT.St.new 1000 273) ⟨Array.replicate 1273 65⟩ ⟨Array.replicate 273 65⟩ {}).1 = .mtch 19 20

/-- **(a), corrected**: HashTable4 inside a run proposes distance 1 with the whole look-ahead (capped at 273),
    provided the match source does not run into the physical end of the ring array.  (`hr0` is only needed when
    one byte is left: `hn`.) -/
theorem run_proposal' (c : Cfg) (hc : CfgOk c) (b : UInt8) (m : HT.St) (hist look : ByteArray) (s : St)
    (hI : HT.Synced c m hist look) (hr0 : s.r0 = 0) (hh : 1 ≤ hist.size) (hl : 1 ≤ look.size)
    (hsp : look.size + min hist.size c.dictCap ≤ c.dictCap + c.bufSize)
    (hlast : hist.get! (hist.size - 1) = b) (hall : ∀ i, i < look.size → look.get! i = b)
    (hphys : hist.size % (c.dictCap + c.bufSize + 1) = 0 ∨
      hist.size % (c.dictCap + c.bufSize + 1) + min 273 look.size ≤ c.dictCap + c.bufSize + 2) :
    (HT.HT4.next m hist look s).1 = .mtch 1 (min 273 look.size) :=
  ht4_run c hc b m hist look s hI hh hl hsp hlast hall hphys (Or.inr hr0)

/-- the same for any `rep0` when at least two bytes are left -/
theorem run_proposal'' (c : Cfg) (hc : CfgOk c) (b : UInt8) (m : HT.St) (hist look : ByteArray) (s : St)
    (hI : HT.Synced c m hist look) (hh : 1 ≤ hist.size) (hl : 2 ≤ look.size)
    (hsp : look.size + min hist.size c.dictCap ≤ c.dictCap + c.bufSize)
    (hlast : hist.get! (hist.size - 1) = b) (hall : ∀ i, i < look.size → look.get! i = b)
    (hphys : hist.size % (c.dictCap + c.bufSize + 1) = 0 ∨
      hist.size % (c.dictCap + c.bufSize + 1) + min 273 look.size ≤ c.dictCap + c.bufSize + 2) :
    (HT.HT4.next m hist look s).1 = .mtch 1 (min 273 look.size) :=
  ht4_run c hc b m hist look s hI hh (by omega) hsp hlast hall hphys (Or.inl (by omega))

/-- **(a), at the physical end of the ring**: some match that reaches at least the end of the array -/
theorem run_proposal_wrap (c : Cfg) (hc : CfgOk c) (b : UInt8) (m : HT.St) (hist look : ByteArray) (s : St)
    (hI : HT.Synced c m hist look) (hh : 1 ≤ hist.size) (hl : 1 ≤ look.size)
    (hsp : look.size + min hist.size c.dictCap ≤ c.dictCap + c.bufSize)
    (hlast : hist.get! (hist.size - 1) = b) (hall : ∀ i, i < look.size → look.get! i = b)
    (hphys : 1 ≤ hist.size % (c.dictCap + c.bufSize + 1) ∧
      c.dictCap + c.bufSize + 2 < hist.size % (c.dictCap + c.bufSize + 1) + min 273 look.size) :
    ∃ dist n, (HT.HT4.next m hist look s).1 = .mtch dist n ∧
      c.dictCap + c.bufSize + 2 - hist.size % (c.dictCap + c.bufSize + 1) ≤ n :=
  ht4_wrap c hc b m hist look s hI hh hl hsp hlast hall hphys

/-! ## (b) the compressed size of a run -/

theorem runOf_size (b : UInt8) (n : Nat) : (runOf b n).size = n := by
  unfold runOf
  show (Array.replicate n b).size = n
  simp

theorem runOf_get (b : UInt8) (n i : Nat) (hi : i < n) : (runOf b n).get! i = b := by
  rw [Ring.get!_eq]
  unfold runOf
  show (Array.replicate n b)[i]?.getD default = b
  rw [Array.getElem?_replicate, if_pos hi]
  rfl

theorem init_rc (c : Cfg) (hc : CfgOk c) (b : UInt8) :
    RC c b (W2.init c (HT.St.new c.dictCap c.bufSize)) 0 := by
  have hinv := init_inv c (HT.Synced c) (HT.St.new c.dictCap c.bufSize) (HT.synced_new c)
  refine ⟨hinv.inv, ⟨fun h => ?_, fun i h => ?_⟩, 0, 0, 0, 0, 0, 0, ⟨?_, ?_, ?_, ?_, ?_⟩, ⟨?_, ?_, ?_, Nat.zero_le _, ?_⟩⟩
  · exact absurd h (by show ¬ 1 ≤ ByteArray.empty.size; simp)
  · exact absurd h (by show ¬ i < ByteArray.empty.size; simp)
  · show 256 ^ 0 * S (initTable c.props.lc c.props.lp) * LE ^ 0 ≤ S (initTable c.props.lc c.props.lp) * KE ^ 0 * G ^ 0
    simp
  · show ByteArray.empty.size ≤ 0 + 11 * 0
    simp
  · show 0 * 273 ≤ 14 * 0
    omega
  · show 0 + dbt {} 0 ≤ 3 * (0 / Lc c) + 3 * 0 + 3
    have : dbt {} 0 = 3 := rfl
    rw [this]; omega
  · show Gen.lzma_maxUncompressed * 0 ≤ 0 + 0
    omega
  · show Enc.init.range * S (initTable c.props.lc c.props.lp) * LE ^ 0 *
        256 ^ (ByteArray.empty.size + ([] : List Nat).length + Enc.init.cacheLen) ≤
      Enc.init.range * S (initTable c.props.lc c.props.lp) * KE ^ 0 * G ^ 0 * 256
    have : ByteArray.empty.size + ([] : List Nat).length + Enc.init.cacheLen = 1 := rfl
    rw [this]
    simp
  · show 0 * 273 ≤ 14 * (ByteArray.empty.size - 0)
    omega
  · show 0 + dbt {} ByteArray.empty.size ≤ 3 * (ByteArray.empty.size / Lc c - 0 / Lc c) + dbt {} 0 + 0
    have : ByteArray.empty.size = 0 := rfl
    rw [this]; omega
  · show 1856 ≤ (initTable c.props.lc c.props.lp).size
    unfold initTable tableSize aLit
    simp

/-- **(b), partial: a run of `n` equal bytes compresses to at most `n / 500 + 251` bytes**, for every valid
    configuration with a dictionary of at least 64 KiB, every byte value and every `n`. -/
theorem run_compresses_partial (c : Cfg) (hc : CfgOk c) (hd : 65536 ≤ c.dictCap) (b : UInt8) (n : Nat) :
    (lzma2OfRun c b n).size ≤ n / 500 + 251 := by
  have hrc0 := init_rc c hc b
  have hcl0 := hrc0.inv.toInv.notClosed
  have hw0 : (W2.init c (HT.St.new c.dictCap c.bufSize)).written = 0 := rfl
  have hwr := write_rc c hc hd b (runOf b n) (fun i hi => runOf_get b n i (by rw [runOf_size] at hi; exact hi))
    (2 * (runOf b n).size + 0 + 2) _ 0 hrc0 (by rw [hw0]; decide) (Nat.zero_le _) (by rw [hw0]; omega)
  have hws := write_spec c (cfgOk' hc) HT.HT4 (HT.Synced c) (matcherInv' (HT.ht4_matcherInv c)) (runOf b n)
    (2 * (runOf b n).size + 0 + 2) _ 0 hrc0.inv (by rw [hw0]; decide) (Nat.zero_le _) (by rw [hw0]; omega)
  unfold lzma2OfRun
  rw [run_cons, run_cons]
  show ((step c HT.HT4 (step c HT.HT4 _ (.write (runOf b n))).1 .close).1).out.size ≤ _
  have hs1 : (step c HT.HT4 (W2.init c (HT.St.new c.dictCap c.bufSize)) (.write (runOf b n))).1 =
      (write c HT.HT4 (runOf b n) (2 * (runOf b n).size + 0 + 2) (W2.init c (HT.St.new c.dictCap c.bufSize)) 0).1 := by
    unfold step
    rw [hcl0]
    rfl
  rw [hs1]
  rcases hr : write c HT.HT4 (runOf b n) (2 * (runOf b n).size + 0 + 2)
      (W2.init c (HT.St.new c.dictCap c.bufSize)) 0 with ⟨w1, n1, e⟩
  rw [hr] at hwr hws
  cases e with
  | some e => exact absurd hwr id
  | none =>
    obtain ⟨hrc1, _⟩ := hwr
    obtain ⟨_, _, _, hdata⟩ := hws
    have hcl1 := hrc1.inv.toInv.notClosed
    obtain ⟨w2, hfl, hsz, P, X, Y, m, F, E, hfin, hFE⟩ := flushLoop_rc c hc hd b w1 hrc1
    have hstep : (step c HT.HT4 w1 .close).1.out = w2.out.push 0 := by
      unfold step
      rw [hcl1]
      simp only [Bool.false_eq_true, if_false, hfl]
    show (step c HT.HT4 w1 .close).1.out.size ≤ _
    rw [hstep, ByteArray.size_push]
    have hb := fin_bound c hc hd w2 hfin hFE
    have hn : w2.hist.size = n := by
      have h1 := congrArg ByteArray.size hdata
      simp only [ByteArray.size_append, ByteArray.size_extract, runOf_size] at h1
      have : (W2.init c (HT.St.new c.dictCap c.bufSize)).hist.size = 0 := rfl
      have : (W2.init c (HT.St.new c.dictCap c.bufSize)).look.size = 0 := rfl
      omega
    rw [hn] at hb
    exact hb

/-! The full statement

      theorem run_compresses (c : Cfg) (hc : CfgOk c) (b : UInt8) (n : Nat) :
          (lzma2OfRun c b n).size ≤ n / 500 + 100

  is not proved.  What is missing:
  * the constant: 251 = 137 (44 steady-state probability contexts paying 1094 bits while they adapt from 1024,
    `S_init`) + 102 (four irregular operations — literal, two reps before state 11, the short operation ending
    the chunk — at the crude 203 bits each) + 12 (chunk header, range-coder flush, end marker).  The model
    gives 16 … 100 bytes for `n ≤ 10^5`; getting below 100 needs the real cost of the irregular operations
    (≈ 2 … 12 bytes) and the use counts of the contexts (most of the 44 contexts are used by one position state
    only and do not adapt fully).
  * small dictionaries: once per `dictCap + bufSize + 1` bytes the match source hits the physical end of the
    ring (`run_proposal_wrap`), which costs up to three irregular operations, charged 203 bits each; this is
    affordable only for rings of at least ≈ 42 000 bytes.  For tiny rings (`dictCap = 1`) the model still stays
    below `n / 500 + 100` in experiments (≈ `n / 890`), but only because those operations are in fact cheap. -/

end RunCost

#print axioms RunCost.run_proposal'
#print axioms RunCost.run_proposal''
#print axioms RunCost.run_proposal_wrap
#print axioms RunCost.run_compresses_partial
