import XzVerif.Proofs.Segment
import XzVerif.Model.Lzma1
import Mathlib.Tactic.Ring
import Mathlib.Tactic.Linarith

/-! Classic .lzma round trip: `Lzma1.read` applied to `Lzma1.encode` returns the content of the operations. -/

namespace Lzma1
open Lzma Rc Lzma2

/-- the end-of-stream marker operation -/
def eosOp : RawOp := .mtch 2 eosDist

theorem eosOp_wf : eosOp.wf := by
  show 2 ≤ 2 ∧ 2 ≤ 273 ∧ eosDist < 2 ^ 32
  unfold eosDist
  omega

/-! ### paths of appended operation lists -/

theorem finalS_append (ops1 ops2 : List RawOp) : ∀ s : St,
    finalS s (ops1 ++ ops2) = finalS (finalS s ops1) ops2 := by
  induction ops1 with
  | nil => intro s; rfl
  | cons op ops ih => intro s; simp only [List.cons_append, finalS, ih]

theorem finalH_append (ops1 ops2 : List RawOp) : ∀ (s : St) (h : Hist),
    finalH s h (ops1 ++ ops2) = finalH (finalS s ops1) (finalH s h ops1) ops2 := by
  induction ops1 with
  | nil => intro s h; rfl
  | cons op ops ih => intro s h; simp only [List.cons_append, finalS, finalH, ih]

theorem opsPath_append (p : Props) (ops1 ops2 : List RawOp) : ∀ (s : St) (h : Hist),
    opsPath p s h (ops1 ++ ops2) =
      opsPath p s h ops1 ++ opsPath p (finalS s ops1) (finalH s h ops1) ops2 := by
  induction ops1 with
  | nil => intro s h; rfl
  | cons op ops ih => intro s h; simp only [List.cons_append, finalS, finalH, opsPath, ih, List.append_assoc]

theorem finalH_eos (s : St) (h : Hist) : finalH s h [eosOp] = h := by
  simp only [finalH, eosOp, Hist.applyOp, if_true]

theorem opsPath_eos (p : Props) (s : St) (h : Hist) : opsPath p s h [eosOp] = opEnc (mkCtx p s h) eosOp := by
  simp only [opsPath, List.append_nil]

/-! ### the marker step -/

theorem step_true_code (e : Enc) (he : e.Rest) (hdig : e.Dig) (q : Nat) (hq : POk q)
    (ds : List Decn) (hp' : ∀ d ∈ ds, d.ok) (d : Dec) (pre inp : List Nat)
    (hs : Sync e d ((e.step ⟨some q, true⟩).encodeAll ds).close pre inp ((e.step ⟨some q, true⟩).encodeAll ds).digits) :
    d.code ≠ 0 := by
  have hok : (⟨some q, true⟩ : Decn).ok := by
    intro p hp; simp only [Option.some.injEq] at hp; subst hp; exact hq
  obtain ⟨d1, pre1, inp1, hstep, _⟩ := step_sync e he hdig _ hok ds hp' d pre inp hs
  have hr : d.range = e.range := hs.range
  have hlo := he.rlo
  intro hc
  simp only [Dec.step] at hstep
  have hb : 0 < d.range / 2048 * q := by
    apply Nat.mul_pos
    · apply Nat.div_pos <;> omega
    · have := hq.1; omega
  rw [if_pos (by omega)] at hstep
  cases hn : ({ d with range := d.range / 2048 * q } : Dec).norm with
  | none => rw [hn] at hstep; simp at hstep
  | some d' => rw [hn] at hstep; simp at hstep

theorem decStep_marker (p : Props) (s : St) (tbl : Tbl) (rd : Dec) (h : Hist) (acc : Array RawOp)
    (rest : Path) (htbl : tbl.ok) (E : Enc) (hE : E.Rest) (hD : E.Dig) (pre inp : List Nat)
    (hs : Sync E rd (E.encodeAll (toDecns pm tbl (opEnc (mkCtx p s h) eosOp ++ rest))).close pre inp
      (E.encodeAll (toDecns pm tbl (opEnc (mkCtx p s h) eosOp ++ rest))).digits) :
    rd.code ≠ 0 ∧ ∃ E' rd' pre' inp',
      decStep p ⟨s, tbl, rd, h, acc⟩ =
        .marker ⟨s.apply eosOp, tblAfter tbl (opEnc (mkCtx p s h) eosOp), rd', h, acc.push eosOp⟩ ∧
      E'.Rest ∧ E'.Dig ∧
      Sync E' rd' (E'.encodeAll (toDecns pm (tblAfter tbl (opEnc (mkCtx p s h) eosOp)) rest)).close pre' inp'
        (E'.encodeAll (toDecns pm (tblAfter tbl (opEnc (mkCtx p s h) eosOp)) rest)).digits := by
  constructor
  · have hpath : ∃ a π, opEnc (mkCtx p s h) eosOp ++ rest = (.adaptive a, true) :: π := ⟨_, _, rfl⟩
    obtain ⟨a, π, hπ⟩ := hpath
    rw [hπ] at hs
    simp only [toDecns] at hs
    exact step_true_code E hE hD _ (htbl a) _
      (toDecns_ok pm π _ (tbl.upd_ok htbl a _ (pm.ok _ true (htbl a)))) rd pre inp hs
  · obtain ⟨π0, E', rd', pre', inp', hπ, hdec, h2, h3, _, h5⟩ :=
      tree_sync' (opDec (mkCtx p s h)) _ rest eosOp (opDec_opEnc _ eosOp eosOp_wf rest) tbl htbl E hE hD rd pre inp hs
    have hπ0 : opEnc (mkCtx p s h) eosOp = π0 := List.append_cancel_right hπ
    rw [← hπ0] at hdec h5
    refine ⟨E', rd', pre', inp', ?_, h2, h3, h5⟩
    simp only [decStep, hdec, eosOp]
    rw [if_pos True.intro]

/-! ### the decoder loop over a list of operations, followed by anything -/

theorem decSegment_none_step (p : Props) (start : Nat) (snm : Bool) (fuel : Nat) (d d' : DecSt)
    (hstep : decStep p d = .cont d') :
    decSegment p none start snm (fuel + 1) d = decSegment p none start snm fuel d' := by
  rw [decSegment]
  rw [if_neg (by simp)]
  rw [hstep]

/-- unknown size: the loop runs through the operations and continues with whatever follows -/
theorem decSegment_none_ops (p : Props) (snm : Bool) (start : Nat) (rest : Path) (k : Nat) :
    ∀ (ops : List RawOp) (s : St) (tbl : Tbl)
    (h : Hist) (E : Enc) (rd : Dec) (pre inp : List Nat) (acc : Array RawOp),
    tbl.ok → E.Rest → E.Dig → OpsOk s h ops →
    Sync E rd (E.encodeAll (toDecns pm tbl (opsPath p s h ops ++ rest))).close pre inp
      (E.encodeAll (toDecns pm tbl (opsPath p s h ops ++ rest))).digits →
    ∃ E' rd' pre' inp',
      decSegment p none start snm (ops.length + k) ⟨s, tbl, rd, h, acc⟩ =
        decSegment p none start snm k
          ⟨finalS s ops, tblAfter tbl (opsPath p s h ops), rd', finalH s h ops, acc ++ ops.toArray⟩ ∧
      E'.Rest ∧ E'.Dig ∧
      Sync E' rd' (E'.encodeAll (toDecns pm (tblAfter tbl (opsPath p s h ops)) rest)).close pre' inp'
        (E'.encodeAll (toDecns pm (tblAfter tbl (opsPath p s h ops)) rest)).digits := by
  intro ops
  induction ops with
  | nil =>
    intro s tbl h E rd pre inp acc htbl hE hD _ hs
    refine ⟨E, rd, pre, inp, ?_, hE, hD, hs⟩
    simp [finalS, finalH, opsPath, tblAfter]
  | cons op ops ih =>
    intro s tbl h E rd pre inp acc htbl hE hD hok hs
    cases hok with
    | cons _ _ _ _ hop hrest =>
    simp only [opsPath, List.append_assoc] at hs
    obtain ⟨E1, rd1, pre1, inp1, hstep, hE1, hD1, hs1⟩ :=
      decStep_op p s tbl rd h acc op hop _ htbl E hE hD pre inp hs
    obtain ⟨E', rd', pre', inp', hrun, hE', hD', hs'⟩ :=
      ih (s.apply op) (tblAfter tbl (opEnc (mkCtx p s h) op)) (h.applyOp (s.apply op) op) E1 rd1
        pre1 inp1 (acc.push op) (tblAfter_ok _ _ htbl) hE1 hD1 hrest hs1
    have hpath : tblAfter tbl (opsPath p s h (op :: ops)) =
        tblAfter (tblAfter tbl (opEnc (mkCtx p s h) op)) (opsPath p (s.apply op) (h.applyOp (s.apply op) op) ops) := by
      simp only [opsPath, tblAfter_append]
    have hfuel : (op :: ops).length + k = (ops.length + k) + 1 := by simp only [List.length_cons]; omega
    have hacc : acc ++ (op :: ops).toArray = acc.push op ++ ops.toArray := by simp
    rw [hpath, hfuel, hacc]
    refine ⟨E', rd', pre', inp', ?_, hE', hD', hs'⟩
    rw [decSegment_none_step p start snm _ _ _ hstep]
    exact hrun

/-- known size: the loop runs through the operations and ends in `finish` -/
theorem decSegment_some_ops (p : Props) (snm : Bool) (start : Nat) (rest : Path) :
    ∀ (ops : List RawOp) (s : St) (tbl : Tbl)
    (h : Hist) (E : Enc) (rd : Dec) (pre inp : List Nat) (acc : Array RawOp) (fuel : Nat),
    tbl.ok → E.Rest → E.Dig → OpsOk s h ops → start ≤ h.out.size → ops.length + 1 ≤ fuel →
    Sync E rd (E.encodeAll (toDecns pm tbl (opsPath p s h ops ++ rest))).close pre inp
      (E.encodeAll (toDecns pm tbl (opsPath p s h ops ++ rest))).digits →
    ∃ E' rd' pre' inp',
      decSegment p (some ((finalH s h ops).out.size - start)) start snm fuel ⟨s, tbl, rd, h, acc⟩ =
        decSegment.finish p snm
          ⟨finalS s ops, tblAfter tbl (opsPath p s h ops), rd', finalH s h ops, acc ++ ops.toArray⟩ ∧
      E'.Rest ∧ E'.Dig ∧
      Sync E' rd' (E'.encodeAll (toDecns pm (tblAfter tbl (opsPath p s h ops)) rest)).close pre' inp'
        (E'.encodeAll (toDecns pm (tblAfter tbl (opsPath p s h ops)) rest)).digits := by
  intro ops
  induction ops with
  | nil =>
    intro s tbl h E rd pre inp acc fuel htbl hE hD _ hstart hfuel hs
    obtain ⟨fuel', rfl⟩ : ∃ f, fuel = f + 1 := ⟨fuel - 1, by omega⟩
    refine ⟨E, rd, pre, inp, ?_, hE, hD, hs⟩
    rw [decSegment]
    simp [finalS, finalH, opsPath, tblAfter]
  | cons op ops ih =>
    intro s tbl h E rd pre inp acc fuel htbl hE hD hok hstart hfuel hs
    cases hok with
    | cons _ _ _ _ hop hrest =>
    obtain ⟨fuel', rfl⟩ : ∃ f, fuel = f + 1 := ⟨fuel - 1, by omega⟩
    simp only [opsPath, List.append_assoc] at hs
    obtain ⟨E1, rd1, pre1, inp1, hstep, hE1, hD1, hs1⟩ :=
      decStep_op p s tbl rd h acc op hop _ htbl E hE hD pre inp hs
    have hsz1 := applyOp_size h s op hop
    have hpos := opLen_pos op hop.1
    have hsz2 := finalH_size ops _ _ hrest
    have hfin : finalH s h (op :: ops) = finalH (s.apply op) (h.applyOp (s.apply op) op) ops := rfl
    have hfS : finalS s (op :: ops) = finalS (s.apply op) ops := rfl
    have hpath : tblAfter tbl (opsPath p s h (op :: ops)) =
        tblAfter (tblAfter tbl (opEnc (mkCtx p s h) op)) (opsPath p (s.apply op) (h.applyOp (s.apply op) op) ops) := by
      simp only [opsPath, tblAfter_append]
    have hacc : acc ++ (op :: ops).toArray = acc.push op ++ ops.toArray := by simp
    rw [hfin, hfS, hpath, hacc]
    rw [decSegment_cont p _ start snm fuel' _ _ (by dsimp only; omega) hstep]
    dsimp only
    by_cases hnil : ops = []
    · subst hnil
      simp only [finalH, opsPath, tblAfter, finalS, List.nil_append] at hs1 ⊢
      simp only [ge_iff_le, gt_iff_lt, Nat.le_refl, Nat.lt_irrefl, ↓reduceIte]
      refine ⟨E1, rd1, pre1, inp1, ?_, hE1, hD1, hs1⟩
      simp
    · have hlen : 1 ≤ ops.length := by
        rcases ops with _ | ⟨o, os⟩
        · exact absurd rfl hnil
        · simp
      rw [if_neg (by omega)]
      exact ih (s.apply op) (tblAfter tbl (opEnc (mkCtx p s h) op)) (h.applyOp (s.apply op) op) E1 rd1
        pre1 inp1 (acc.push op) fuel' (tblAfter_ok _ _ htbl) hE1 hD1 hrest (by omega)
        (by simp only [List.length_cons] at hfuel; omega) hs1

/-! ### what happens after the operations -/

/-- nothing follows: `finish` sees `code = 0` -/
theorem finish_clean (p : Props) (snm : Bool) (s : St) (tbl : Tbl) (rd : Dec) (h : Hist) (acc : Array RawOp)
    (E : Enc) (hE : E.Rest) (hD : E.Dig) (pre inp : List Nat)
    (hs : Sync E rd (E.encodeAll (toDecns pm tbl [])).close pre inp (E.encodeAll (toDecns pm tbl [])).digits) :
    decSegment.finish p snm ⟨s, tbl, rd, h, acc⟩ = ⟨⟨s, tbl, rd, h, acc⟩, .eof, false⟩ ∧
      rd.code = 0 ∧ rd.inp = [] := by
  have hEE : E.encodeAll (toDecns pm tbl []) = E := rfl
  rw [hEE] at hs
  obtain ⟨hc, hi⟩ := end_sync E hE hD rd pre inp hs
  refine ⟨?_, hc, hi⟩
  simp only [decSegment.finish]
  rw [if_pos hc]

/-- the marker step followed by nothing leaves the range decoder at its end -/
theorem marker_step_end (p : Props) (s : St) (tbl : Tbl) (rd : Dec) (h : Hist) (acc : Array RawOp)
    (htbl : tbl.ok) (E : Enc) (hE : E.Rest) (hD : E.Dig) (pre inp : List Nat)
    (hs : Sync E rd (E.encodeAll (toDecns pm tbl (opEnc (mkCtx p s h) eosOp))).close pre inp
      (E.encodeAll (toDecns pm tbl (opEnc (mkCtx p s h) eosOp))).digits) :
    rd.code ≠ 0 ∧ ∃ rd',
      decStep p ⟨s, tbl, rd, h, acc⟩ =
        .marker ⟨s.apply eosOp, tblAfter tbl (opEnc (mkCtx p s h) eosOp), rd', h, acc.push eosOp⟩ ∧
      rd'.code = 0 ∧ rd'.inp = [] := by
  obtain ⟨hne, E', rd', pre', inp', hstep, hE', hD', hs'⟩ :=
    decStep_marker p s tbl rd h acc [] htbl E hE hD pre inp (by rw [List.append_nil]; exact hs)
  have hEE : E'.encodeAll (toDecns pm (tblAfter tbl (opEnc (mkCtx p s h) eosOp)) []) = E' := rfl
  rw [hEE] at hs'
  obtain ⟨hc, hi⟩ := end_sync E' hE' hD' rd' pre' inp' hs'
  exact ⟨hne, rd', hstep, hc, hi⟩

/-- the marker after the declared size: `finish` reads it -/
theorem finish_marker (p : Props) (s : St) (tbl : Tbl) (rd : Dec) (h : Hist) (acc : Array RawOp)
    (htbl : tbl.ok) (E : Enc) (hE : E.Rest) (hD : E.Dig) (pre inp : List Nat)
    (hs : Sync E rd (E.encodeAll (toDecns pm tbl (opEnc (mkCtx p s h) eosOp))).close pre inp
      (E.encodeAll (toDecns pm tbl (opEnc (mkCtx p s h) eosOp))).digits) :
    ∃ rd', decSegment.finish p false ⟨s, tbl, rd, h, acc⟩ =
        ⟨⟨s.apply eosOp, tblAfter tbl (opEnc (mkCtx p s h) eosOp), rd', h, acc.push eosOp⟩, .eof, true⟩ ∧
      rd'.code = 0 ∧ rd'.inp = [] := by
  obtain ⟨hne, rd', hstep, hc, hi⟩ := marker_step_end p s tbl rd h acc htbl E hE hD pre inp hs
  refine ⟨rd', ?_, hc, hi⟩
  simp only [decSegment.finish]
  rw [if_neg hne, hstep]
  simp

/-- the marker in the loop (unknown size) -/
theorem loop_marker (p : Props) (start k : Nat) (s : St) (tbl : Tbl) (rd : Dec) (h : Hist) (acc : Array RawOp)
    (htbl : tbl.ok) (E : Enc) (hE : E.Rest) (hD : E.Dig) (pre inp : List Nat)
    (hs : Sync E rd (E.encodeAll (toDecns pm tbl (opEnc (mkCtx p s h) eosOp))).close pre inp
      (E.encodeAll (toDecns pm tbl (opEnc (mkCtx p s h) eosOp))).digits) :
    ∃ rd', decSegment p none start false (k + 1) ⟨s, tbl, rd, h, acc⟩ =
        ⟨⟨s.apply eosOp, tblAfter tbl (opEnc (mkCtx p s h) eosOp), rd', h, acc.push eosOp⟩, .eof, true⟩ ∧
      rd'.code = 0 ∧ rd'.inp = [] := by
  obtain ⟨_, rd', hstep, hc, hi⟩ := marker_step_end p s tbl rd h acc htbl E hE hD pre inp hs
  refine ⟨rd', ?_, hc, hi⟩
  rw [decSegment]
  rw [if_neg (by simp), hstep]
  simp [hc]

/-! ### segment level: encoder bytes, decoder loop -/

theorem enc_init_sync (p : Props) (s : St) (tbl : Tbl) (htbl : tbl.ok) (h : Hist) (ops : List RawOp) :
    ∃ rd pre inp, Dec.init (blist (encClose (encodeOps p s tbl h ops))) = some rd ∧
      Sync Enc.init rd (Enc.init.encodeAll (toDecns pm tbl (opsPath p s h ops))).close pre inp
        (Enc.init.encodeAll (toDecns pm tbl (opsPath p s h ops))).digits := by
  obtain ⟨hbytes, _, _, _⟩ := encodeOps_bytes p s tbl htbl h ops
  obtain ⟨rd, pre, inp, hinit, hsync⟩ :=
    init_sync (toDecns pm tbl (opsPath p s h ops)) (toDecns_ok pm _ tbl htbl)
  exact ⟨rd, pre, inp, by rw [hbytes]; exact hinit, hsync⟩

theorem init_dig : Enc.init.Dig := by simp [Enc.Dig, Enc.init]

/-- Unknown size, end marker: the loop returns the operations and the marker. -/
theorem segment_marker_unknown (p : Props) (start : Nat) (s : St) (tbl : Tbl) (htbl : tbl.ok) (h : Hist)
    (ops : List RawOp) (hops : OpsOk s h ops) :
    ∃ rd, Dec.init (blist (encClose (encodeOps p s tbl h (ops ++ [eosOp])))) = some rd ∧
      ∀ fuel, ops.length + 1 ≤ fuel →
      ∃ rd', decSegment p none start false fuel ⟨s, tbl, rd, h, #[]⟩ =
          ⟨⟨finalS s (ops ++ [eosOp]), tblAfter tbl (opsPath p s h (ops ++ [eosOp])), rd', finalH s h ops,
            (ops ++ [eosOp]).toArray⟩, .eof, true⟩ ∧
        rd'.code = 0 ∧ rd'.inp = [] := by
  obtain ⟨rd, pre, inp, hinit, hsync⟩ := enc_init_sync p s tbl htbl h (ops ++ [eosOp])
  refine ⟨rd, hinit, ?_⟩
  intro fuel hfuel
  rw [opsPath_append, opsPath_eos] at hsync
  obtain ⟨k, rfl⟩ : ∃ k, fuel = ops.length + (k + 1) := ⟨fuel - ops.length - 1, by omega⟩
  obtain ⟨E', rd1, pre', inp', hrun, hE', hD', hs'⟩ :=
    decSegment_none_ops p false start _ (k + 1) ops s tbl h Enc.init rd pre inp #[] htbl init_rest init_dig hops hsync
  obtain ⟨rd', hfin, hc, hi⟩ := loop_marker p start k _ _ rd1 _ (#[] ++ ops.toArray)
    (tblAfter_ok _ _ htbl) E' hE' hD' pre' inp' hs'
  refine ⟨rd', ?_, hc, hi⟩
  rw [hrun, hfin, opsPath_append, opsPath_eos, tblAfter_append, finalS_append]
  simp [finalS]

/-- Known size followed by an end marker: `finish` reads the marker. -/
theorem segment_marker_known (p : Props) (s : St) (tbl : Tbl) (htbl : tbl.ok) (h : Hist)
    (ops : List RawOp) (hops : OpsOk s h ops) :
    ∃ rd, Dec.init (blist (encClose (encodeOps p s tbl h (ops ++ [eosOp])))) = some rd ∧
      ∀ fuel, ops.length + 1 ≤ fuel →
      ∃ rd', decSegment p (some ((finalH s h ops).out.size - h.out.size)) h.out.size false fuel ⟨s, tbl, rd, h, #[]⟩ =
          ⟨⟨finalS s (ops ++ [eosOp]), tblAfter tbl (opsPath p s h (ops ++ [eosOp])), rd', finalH s h ops,
            (ops ++ [eosOp]).toArray⟩, .eof, true⟩ ∧
        rd'.code = 0 ∧ rd'.inp = [] := by
  obtain ⟨rd, pre, inp, hinit, hsync⟩ := enc_init_sync p s tbl htbl h (ops ++ [eosOp])
  refine ⟨rd, hinit, ?_⟩
  intro fuel hfuel
  rw [opsPath_append, opsPath_eos] at hsync
  obtain ⟨E', rd1, pre', inp', hrun, hE', hD', hs'⟩ :=
    decSegment_some_ops p false h.out.size _ ops s tbl h Enc.init rd pre inp #[] fuel htbl init_rest init_dig hops
      (Nat.le_refl _) hfuel hsync
  obtain ⟨rd', hfin, hc, hi⟩ := finish_marker p _ _ rd1 _ (#[] ++ ops.toArray)
    (tblAfter_ok _ _ htbl) E' hE' hD' pre' inp' hs'
  refine ⟨rd', ?_, hc, hi⟩
  rw [hrun, hfin, opsPath_append, opsPath_eos, tblAfter_append, finalS_append]
  simp [finalS]

/-- Known size, no marker; `ops = []` (size 0, five bytes) included. -/
theorem segment_known (p : Props) (snm : Bool) (s : St) (tbl : Tbl) (htbl : tbl.ok) (h : Hist)
    (ops : List RawOp) (hops : OpsOk s h ops) :
    ∃ rd, Dec.init (blist (encClose (encodeOps p s tbl h ops))) = some rd ∧
      ∀ fuel, ops.length + 1 ≤ fuel →
      ∃ rd', decSegment p (some ((finalH s h ops).out.size - h.out.size)) h.out.size snm fuel ⟨s, tbl, rd, h, #[]⟩ =
          ⟨⟨finalS s ops, tblAfter tbl (opsPath p s h ops), rd', finalH s h ops, ops.toArray⟩, .eof, false⟩ ∧
        rd'.code = 0 ∧ rd'.inp = [] := by
  obtain ⟨rd, pre, inp, hinit, hsync⟩ := enc_init_sync p s tbl htbl h ops
  refine ⟨rd, hinit, ?_⟩
  intro fuel hfuel
  rw [← List.append_nil (opsPath p s h ops)] at hsync
  obtain ⟨E', rd1, pre', inp', hrun, hE', hD', hs'⟩ :=
    decSegment_some_ops p snm h.out.size [] ops s tbl h Enc.init rd pre inp #[] fuel htbl init_rest init_dig hops
      (Nat.le_refl _) hfuel hsync
  obtain ⟨hfin, hc, hi⟩ := finish_clean p snm (finalS s ops) _ rd1 (finalH s h ops) (#[] ++ ops.toArray)
    E' hE' hD' pre' inp' hs'
  refine ⟨rd1, ?_, hc, hi⟩
  rw [hrun, hfin]
  simp

/-! ### byte arrays -/

theorem blist_append (a b : ByteArray) : blist (a ++ b) = blist a ++ blist b := by
  unfold blist
  simp only [ByteArray.data_append, Array.toList_append, List.map_append]

theorem blist_length (b : ByteArray) : (blist b).length = b.size := by
  unfold blist
  simp only [List.length_map, Array.length_toList]
  rfl

theorem get_eq_getD (b : ByteArray) (i : Nat) : Lzma2.get b i = (blist b).getD i 0 := by
  obtain ⟨bs⟩ := b
  show (bs[i]!).toNat = (List.map UInt8.toNat bs.toList).getD i 0
  by_cases h : i < bs.size
  · rw [getElem!_pos bs i h]
    simp [List.getD, h]
  · rw [getElem!_neg bs i h]
    simp [List.getD, h]
    rfl

theorem bytesToList_drop (b : ByteArray) (lo : Nat) : bytesToList b lo b.size = (blist b).drop lo := by
  apply List.ext_getElem
  · simp only [bytesToList, List.length_map, List.length_range, List.length_drop, blist_length]
  · intro i h1 h2
    simp only [bytesToList, List.getElem_map, List.getElem_range, List.getElem_drop]
    have := get_eq_getD b (lo + i)
    unfold Lzma2.get at this
    rw [this]
    simp only [List.length_drop, blist_length] at h2
    have hlt : lo + i < (blist b).length := by rw [blist_length]; omega
    simp [List.getD, List.getElem?_eq_getElem hlt]

theorem bytesToList_append (a b : ByteArray) :
    bytesToList (a ++ b) a.size (a ++ b).size = blist b := by
  rw [bytesToList_drop, blist_append]
  exact List.drop_left' (blist_length a)

theorem blist_push_ofNat (b : ByteArray) (x : Nat) :
    blist (b.push (UInt8.ofNat x)) = blist b ++ [x % 256] := by
  unfold blist
  simp only [ByteArray.data_push, Array.toList_push, List.map_append, List.map_cons, List.map_nil]
  congr 2

def hdrList (pb dc sz : Nat) : List Nat :=
    [pb % 256, dc % 256, dc / 256 % 256, dc / 65536 % 256, dc / 16777216 % 256,
     sz % 256, sz / 256 % 256, sz / 65536 % 256, sz / 16777216 % 256,
     sz / 4294967296 % 256, sz / 1099511627776 % 256, sz / 281474976710656 % 256,
     sz / 72057594037927936 % 256]

def hdrBytes (pb dc sz : Nat) : ByteArray := Id.run do
  let mut o := ByteArray.empty.push pb.toUInt8
  for i in [0:4] do
    o := o.push ((dc / 256 ^ i) % 256).toUInt8
  for i in [0:8] do
    o := o.push ((sz / 256 ^ i) % 256).toUInt8
  return o

theorem blist_hdrBytes (pb dc sz : Nat) : blist (hdrBytes pb dc sz) = hdrList pb dc sz := by
  unfold hdrBytes hdrList
  simp [blist_push_ofNat, blist_empty, List.range']

def sizeField (h : Header) : Nat := match h.size with | some n => n | none => 2 ^ 64 - 1

theorem headerBytes_eq (h : Header) : headerBytes h = hdrBytes (byteOfProps h.props) h.dictCap (sizeField h) := by
  obtain ⟨pr, dc, _ | n⟩ := h <;> rfl

/-! ### header fields, `read` unfolded -/

theorem propsOfByte_byteOfProps (p : Props) (hlc : p.lc ≤ 8) (hlp : p.lp ≤ 4) (hpb : p.pb ≤ 4) :
    propsOfByte (byteOfProps p) = some p := by
  obtain ⟨lc, lp, pb⟩ := p
  unfold propsOfByte byteOfProps
  dsimp only at *
  rw [if_neg (by omega)]
  have h1 : ((pb * 5 + lp) * 9 + lc) % 9 = lc := by omega
  have h2 : ((pb * 5 + lp) * 9 + lc) / 9 % 5 = lp := by omega
  have h3 : ((pb * 5 + lp) * 9 + lc) / 45 % 5 = pb := by omega
  rw [h1, h2, h3]

theorem byteOfProps_lt (p : Props) (hlc : p.lc ≤ 8) (hlp : p.lp ≤ 4) (hpb : p.pb ≤ 4) :
    byteOfProps p < 256 := by
  unfold byteOfProps; omega

theorem le4 (b : ByteArray) (off : Nat) : le b off 4 =
    Lzma2.get b off + 256 * (Lzma2.get b (off + 1) + 256 * (Lzma2.get b (off + 2) + 256 * Lzma2.get b (off + 3))) := by
  have : List.range 4 = [0, 1, 2, 3] := by decide
  unfold le
  rw [this]
  simp only [List.foldr, Nat.add_zero, Nat.zero_mul, Nat.zero_add]
  omega

theorem le8 (b : ByteArray) (off : Nat) : le b off 8 =
    Lzma2.get b off + 256 * (Lzma2.get b (off + 1) + 256 * (Lzma2.get b (off + 2) + 256 * (Lzma2.get b (off + 3) +
    256 * (Lzma2.get b (off + 4) + 256 * (Lzma2.get b (off + 5) + 256 * (Lzma2.get b (off + 6) + 256 * Lzma2.get b (off + 7))))))) := by
  have : List.range 8 = [0, 1, 2, 3, 4, 5, 6, 7] := by decide
  unfold le
  rw [this]
  simp only [List.foldr, Nat.add_zero, Nat.zero_mul, Nat.zero_add]
  omega

theorem header_fields (inp : ByteArray) (pb dc sz : Nat) (rest : List Nat)
    (h : blist inp = hdrList pb dc sz ++ rest) :
    Lzma2.get inp 0 = pb % 256 ∧ le inp 1 4 = dc % 2 ^ 32 ∧ le inp 5 8 = sz % 2 ^ 64 := by
  rw [le4, le8]
  simp only [get_eq_getD, h, hdrList, List.cons_append, List.getD_cons_succ, List.getD_cons_zero, Nat.reduceAdd]
  refine ⟨trivial, ?_, ?_⟩ <;> omega

theorem read_eq (cfgCap : Nat) (inp : ByteArray) (p : Props) (rd : Dec)
    (hsz : 13 ≤ inp.size) (hp : propsOfByte (Lzma2.get inp 0) = some p)
    (hrange : ¬(le inp 5 8 ≠ 2 ^ 64 - 1 ∧ le inp 5 8 ≥ 2 ^ 63))
    (hrd : Dec.init (bytesToList inp 13 inp.size) = some rd) :
    read cfgCap inp =
      let size : Option Nat := if le inp 5 8 = 2 ^ 64 - 1 then none else some (le inp 5 8)
      let res := decSegment p size 0 false (match size with | some n => n + 2 | none => (inp.size + 8) * 400)
        { s := {}, tbl := initTable p.lc p.lp, rd := rd,
          h := { out := .empty, dictStart := 0, cap := max cfgCap (max (le inp 1 4) minDictCap) } }
      { out := res.d.h.out, status := res.status,
        header := some { props := p, dictCap := le inp 1 4, size := size }, marker := res.sawMarker,
        ops := res.d.ops, consumed := inp.size - res.d.rd.inp.length } := by
  unfold read
  rw [if_neg (by omega)]
  simp only [hp]
  rw [if_neg hrange]
  simp only [hrd]
  rfl

theorem initTable_ok (lc lp : Nat) : (initTable lc lp).ok := by
  intro c
  unfold initTable Tbl.get POk
  simp only [Array.getD_eq_getD_getElem?, Array.getElem?_replicate]
  split <;> simp

/-! ### the dictionary capacity only matters for the validity of distances -/

def withCap (h : Hist) (c : Nat) : Hist := { h with cap := c }

theorem copyMatch_withCap (dist c : Nat) : ∀ (n : Nat) (h : Hist),
    (withCap h c).copyMatch dist n = withCap (h.copyMatch dist n) c := by
  intro n
  induction n with
  | zero => intro h; rfl
  | succ n ih =>
    intro h
    simp only [Hist.copyMatch]
    rw [← ih]
    rfl

theorem applyOp_withCap (h : Hist) (s' : St) (op : RawOp) (c : Nat) :
    (withCap h c).applyOp s' op = withCap (h.applyOp s' op) c := by
  cases op with
  | lit b => rfl
  | mtch len dd =>
    simp only [Hist.applyOp]
    split
    · rfl
    · exact copyMatch_withCap _ _ _ _
  | rep g len => exact copyMatch_withCap _ _ _ _
  | shortRep => exact copyMatch_withCap _ _ _ _

theorem copyMatch_cap (dist : Nat) : ∀ (n : Nat) (h : Hist), (h.copyMatch dist n).cap = h.cap := by
  intro n
  induction n with
  | zero => intro h; rfl
  | succ n ih => intro h; simp only [Hist.copyMatch]; rw [ih]

theorem applyOp_cap (h : Hist) (s' : St) (op : RawOp) : (h.applyOp s' op).cap = h.cap := by
  cases op with
  | lit b => rfl
  | mtch len dd =>
    simp only [Hist.applyOp]
    split
    · rfl
    · exact copyMatch_cap _ _ _
  | rep g len => exact copyMatch_cap _ _ _
  | shortRep => exact copyMatch_cap _ _ _

theorem dictLen_le_cap (h : Hist) : h.dictLen ≤ h.cap := by
  unfold Hist.dictLen; omega

theorem dictLen_withCap (h : Hist) (c : Nat) (hc : h.cap ≤ c) : h.dictLen ≤ (withCap h c).dictLen := by
  unfold Hist.dictLen Hist.pos withCap
  dsimp only
  omega

theorem byteAt_withCap (h : Hist) (c dist : Nat) (hc : h.cap ≤ c) (hd : dist ≤ h.cap) :
    (withCap h c).byteAt dist = h.byteAt dist := by
  unfold Hist.byteAt Hist.dictLen Hist.pos withCap
  dsimp only
  by_cases hcond : 0 < dist ∧ dist ≤ min (h.out.size - h.dictStart) h.cap
  · rw [if_pos hcond, if_pos (by omega)]
  · rw [if_neg hcond, if_neg (by omega)]

theorem mkCtx_withCap (p : Props) (s : St) (h : Hist) (c : Nat) (hc : h.cap ≤ c) (h1 : 1 ≤ h.cap)
    (hr : s.r0 + 1 ≤ h.cap) : mkCtx p s (withCap h c) = mkCtx p s h := by
  unfold mkCtx
  rw [byteAt_withCap h c 1 hc h1, byteAt_withCap h c (s.r0 + 1) hc hr]
  rfl

theorem OpOk_withCap (h : Hist) (s : St) (op : RawOp) (c : Nat) (hc : h.cap ≤ c) (hok : OpOk h s op) :
    OpOk (withCap h c) s op := by
  have hd := dictLen_withCap h c hc
  obtain ⟨hwf, happ⟩ := hok
  refine ⟨hwf, ?_⟩
  cases op with
  | lit b => trivial
  | mtch len dd => exact ⟨happ.1, Nat.le_trans happ.2 hd⟩
  | rep g len => exact Nat.le_trans happ hd
  | shortRep => exact Nat.le_trans happ hd

theorem apply_r0_le (h : Hist) (s : St) (op : RawOp) (hok : OpOk h s op) (hr : s.r0 + 1 ≤ h.cap) :
    (s.apply op).r0 + 1 ≤ h.cap := by
  have hd := dictLen_le_cap h
  obtain ⟨hwf, happ⟩ := hok
  cases op with
  | lit b => exact hr
  | mtch len dd => exact Nat.le_trans happ.2 hd
  | rep g len => exact Nat.le_trans happ hd
  | shortRep => exact hr

theorem ops_withCap (p : Props) (c : Nat) : ∀ (ops : List RawOp) (s : St) (h : Hist),
    OpsOk s h ops → h.cap ≤ c → 1 ≤ h.cap → s.r0 + 1 ≤ h.cap →
    OpsOk s (withCap h c) ops ∧ opsPath p s (withCap h c) ops = opsPath p s h ops ∧
    finalH s (withCap h c) ops = withCap (finalH s h ops) c ∧
    (finalS s ops).r0 + 1 ≤ h.cap ∧ (finalH s h ops).cap = h.cap := by
  intro ops
  induction ops with
  | nil => intro s h _ _ _ hr; exact ⟨OpsOk.nil _ _, rfl, rfl, hr, rfl⟩
  | cons op ops ih =>
    intro s h hok hc h1 hr
    cases hok with
    | cons _ _ _ _ hop hrest =>
    have hcap := applyOp_cap h (s.apply op) op
    obtain ⟨a1, a2, a3, a4, a5⟩ := ih (s.apply op) (h.applyOp (s.apply op) op) hrest
      (by rw [hcap]; exact hc) (by rw [hcap]; exact h1) (by rw [hcap]; exact apply_r0_le h s op hop hr)
    rw [hcap] at a4 a5
    refine ⟨?_, ?_, ?_, a4, a5⟩
    · refine OpsOk.cons _ _ _ _ (OpOk_withCap h s op c hc hop) ?_
      rw [applyOp_withCap]
      exact a1
    · simp only [opsPath]
      rw [mkCtx_withCap p s h c hc h1 hr, applyOp_withCap, a2]
    · simp only [finalH]
      rw [applyOp_withCap, a3]

/-! ### encoder and reader of the classic format -/

/-- the encoder's initial history -/
def encHist (hdr : Header) : Hist := { out := .empty, dictStart := 0, cap := max hdr.dictCap minDictCap }

/-- the reader's initial history -/
def readHist (cfgCap : Nat) (hdr : Header) : Hist :=
  { out := .empty, dictStart := 0, cap := max cfgCap (max hdr.dictCap minDictCap) }

def withMarker (ops : List RawOp) (marker : Bool) : List RawOp := if marker then ops ++ [eosOp] else ops

theorem encode_eq (hdr : Header) (ops : List RawOp) (marker : Bool) :
    encode hdr ops.toArray marker = headerBytes hdr ++
      encClose (encodeOps hdr.props {} (initTable hdr.props.lc hdr.props.lp) (encHist hdr) (withMarker ops marker)) := by
  unfold encode encodeOps withMarker encHist
  cases marker
  · simp
  · simp [List.foldl_append, eosOp]

theorem headerBytes_size (hdr : Header) : (headerBytes hdr).size = 13 := by
  rw [← blist_length, headerBytes_eq, blist_hdrBytes]
  rfl

theorem opsPath_marker_withCap (p : Props) (c : Nat) (ops : List RawOp) (s : St) (h : Hist)
    (hok : OpsOk s h ops) (hc : h.cap ≤ c) (h1 : 1 ≤ h.cap) (hr : s.r0 + 1 ≤ h.cap) (marker : Bool) :
    opsPath p s (withCap h c) (withMarker ops marker) = opsPath p s h (withMarker ops marker) := by
  obtain ⟨_, a2, a3, a4, a5⟩ := ops_withCap p c ops s h hok hc h1 hr
  unfold withMarker
  cases marker
  · simpa using a2
  · simp only [if_true]
    rw [opsPath_append, opsPath_append, a2, a3, opsPath_eos, opsPath_eos,
      mkCtx_withCap p _ _ c (by rw [a5]; exact hc) (by rw [a5]; exact h1) (by rw [a5]; exact a4)]

theorem body_withCap (p : Props) (c : Nat) (ops : List RawOp) (s : St) (tbl : Tbl) (htbl : tbl.ok) (h : Hist)
    (hok : OpsOk s h ops) (hc : h.cap ≤ c) (h1 : 1 ≤ h.cap) (hr : s.r0 + 1 ≤ h.cap) (marker : Bool) :
    blist (encClose (encodeOps p s tbl h (withMarker ops marker))) =
      blist (encClose (encodeOps p s tbl (withCap h c) (withMarker ops marker))) := by
  rw [(encodeOps_bytes p s tbl htbl h _).1, (encodeOps_bytes p s tbl htbl (withCap h c) _).1,
    opsPath_marker_withCap p c ops s h hok hc h1 hr marker]

theorem sizeField_lt (hdr : Header) (hsz : ∀ n, hdr.size = some n → n < 2 ^ 63) : sizeField hdr < 2 ^ 64 := by
  unfold sizeField
  cases h : hdr.size with
  | none => simp
  | some n => have := hsz n h; simp only; omega

/-- the fuel `read` gives to the decoder loop -/
def fuelOf (size : Option Nat) (inpSize : Nat) : Nat :=
  match size with
  | some n => n + 2
  | none => (inpSize + 8) * 400

/-- `read` on a valid header followed by a body whose first five bytes initialise the range decoder -/
theorem read_header (cfgCap : Nat) (hdr : Header) (body : ByteArray) (rd : Dec)
    (hlc : hdr.props.lc ≤ 8) (hlp : hdr.props.lp ≤ 4) (hpb : hdr.props.pb ≤ 4) (hdc : hdr.dictCap < 2 ^ 32)
    (hsz : ∀ n, hdr.size = some n → n < 2 ^ 63) (hrd : Dec.init (blist body) = some rd) :
    read cfgCap (headerBytes hdr ++ body) =
      let res := decSegment hdr.props hdr.size 0 false
        (fuelOf hdr.size (headerBytes hdr ++ body).size)
        ⟨{}, initTable hdr.props.lc hdr.props.lp, rd, readHist cfgCap hdr, #[]⟩
      { out := res.d.h.out, status := res.status, header := some hdr, marker := res.sawMarker,
        ops := res.d.ops, consumed := (headerBytes hdr ++ body).size - res.d.rd.inp.length } := by
  have hbl : blist (headerBytes hdr ++ body) =
      hdrList (byteOfProps hdr.props) hdr.dictCap (sizeField hdr) ++ blist body := by
    rw [blist_append, headerBytes_eq, blist_hdrBytes]
  obtain ⟨f1, f2, f3⟩ := header_fields _ _ _ _ _ hbl
  have hbp := byteOfProps_lt hdr.props hlc hlp hpb
  have hsf := sizeField_lt hdr hsz
  rw [Nat.mod_eq_of_lt hbp] at f1
  rw [Nat.mod_eq_of_lt hdc] at f2
  rw [Nat.mod_eq_of_lt hsf] at f3
  have hsize : 13 ≤ (headerBytes hdr ++ body).size := by rw [ByteArray.size_append, headerBytes_size]; omega
  have hb13 : bytesToList (headerBytes hdr ++ body) 13 (headerBytes hdr ++ body).size = blist body := by
    have := bytesToList_append (headerBytes hdr) body
    rw [headerBytes_size] at this
    exact this
  have hrange : ¬(le (headerBytes hdr ++ body) 5 8 ≠ 2 ^ 64 - 1 ∧ le (headerBytes hdr ++ body) 5 8 ≥ 2 ^ 63) := by
    rw [f3]
    unfold sizeField
    cases h : hdr.size with
    | none => simp
    | some n => have := hsz n h; simp only; omega
  rw [read_eq cfgCap _ hdr.props rd hsize (by rw [f1]; exact propsOfByte_byteOfProps _ hlc hlp hpb) hrange
    (by rw [hb13]; exact hrd)]
  rw [f2, f3]
  obtain ⟨pr, dc, sz⟩ := hdr
  cases sz with
  | none => rfl
  | some n =>
    have hn : n < 2 ^ 63 := hsz n rfl
    have hne : sizeField { props := pr, dictCap := dc, size := some n } ≠ 2 ^ 64 - 1 := by
      show n ≠ 2 ^ 64 - 1
      omega
    simp only [if_neg hne]
    rfl

theorem read_of_segment (cfgCap : Nat) (hdr : Header) (body : ByteArray) (rd : Dec)
    (hlc : hdr.props.lc ≤ 8) (hlp : hdr.props.lp ≤ 4) (hpb : hdr.props.pb ≤ 4) (hdc : hdr.dictCap < 2 ^ 32)
    (hsz : ∀ n, hdr.size = some n → n < 2 ^ 63) (hrd : Dec.init (blist body) = some rd)
    (dfin : DecSt) (mk : Bool)
    (hseg : decSegment hdr.props hdr.size 0 false
        (fuelOf hdr.size (headerBytes hdr ++ body).size)
        ⟨{}, initTable hdr.props.lc hdr.props.lp, rd, readHist cfgCap hdr, #[]⟩ = ⟨dfin, .eof, mk⟩)
    (hinp : dfin.rd.inp = []) :
    read cfgCap (headerBytes hdr ++ body) =
      { out := dfin.h.out, status := .eof, header := some hdr, marker := mk, ops := dfin.ops,
        consumed := (headerBytes hdr ++ body).size } := by
  rw [read_header cfgCap hdr body rd hlc hlp hpb hdc hsz hrd]
  dsimp only
  rw [hseg]
  simp [hinp]

theorem readHist_eq (cfgCap : Nat) (hdr : Header) :
    readHist cfgCap hdr = withCap (encHist hdr) (max cfgCap (max hdr.dictCap minDictCap)) := rfl

theorem encHist_facts (cfgCap : Nat) (hdr : Header) :
    (encHist hdr).cap ≤ max cfgCap (max hdr.dictCap minDictCap) ∧ 1 ≤ (encHist hdr).cap ∧
    ({} : St).r0 + 1 ≤ (encHist hdr).cap := by
  unfold encHist minDictCap
  dsimp only
  refine ⟨by omega, by omega, ?_⟩
  show 0 + 1 ≤ _
  omega

/-- Unknown size, end marker; the fuel condition is discharged in `read_encode_unknown` below. -/
theorem read_encode_unknown_fuel (cfgCap : Nat) (hdr : Header) (ops : List RawOp)
    (hlc : hdr.props.lc ≤ 8) (hlp : hdr.props.lp ≤ 4) (hpb : hdr.props.pb ≤ 4) (hdc : hdr.dictCap < 2 ^ 32)
    (hsize : hdr.size = none) (hops : OpsOk {} (encHist hdr) ops)
    (hfuel : ops.length + 1 ≤ ((encode hdr ops.toArray true).size + 8) * 400) :
    read cfgCap (encode hdr ops.toArray true) =
      { out := (finalH {} (encHist hdr) ops).out, status := .eof, header := some hdr, marker := true,
        ops := (ops ++ [eosOp]).toArray, consumed := (encode hdr ops.toArray true).size } := by
  obtain ⟨hc, h1, hr⟩ := encHist_facts cfgCap hdr
  obtain ⟨a1, _, a3, _, _⟩ := ops_withCap hdr.props _ ops {} (encHist hdr) hops hc h1 hr
  rw [← readHist_eq] at a1 a3
  obtain ⟨rd, hinit, hrun⟩ := segment_marker_unknown hdr.props 0 {} _ (initTable_ok hdr.props.lc hdr.props.lp)
    (readHist cfgCap hdr) ops a1
  have hbody := body_withCap hdr.props _ ops {} _ (initTable_ok hdr.props.lc hdr.props.lp) (encHist hdr) hops hc h1 hr true
  rw [← readHist_eq] at hbody
  have hwm : withMarker ops true = ops ++ [eosOp] := rfl
  rw [encode_eq] at hfuel ⊢
  rw [hwm] at hbody hfuel ⊢
  rw [← hbody] at hinit
  obtain ⟨rd', hseg, hc0, hi0⟩ := hrun _ hfuel
  have hsz : ∀ n, hdr.size = some n → n < 2 ^ 63 := by intro n hn; rw [hsize] at hn; cases hn
  rw [read_of_segment cfgCap hdr _ rd hlc hlp hpb hdc hsz hinit _ true (by rw [hsize]; exact hseg) hi0]
  rw [a3]
  rfl

theorem readHist_size (cfgCap : Nat) (hdr : Header) : (readHist cfgCap hdr).out.size = 0 := rfl

/-- Known size, no end marker. -/
theorem read_encode_known (cfgCap : Nat) (hdr : Header) (ops : List RawOp)
    (hlc : hdr.props.lc ≤ 8) (hlp : hdr.props.lp ≤ 4) (hpb : hdr.props.pb ≤ 4) (hdc : hdr.dictCap < 2 ^ 32)
    (hops : OpsOk {} (encHist hdr) ops)
    (hsize : hdr.size = some (finalH {} (encHist hdr) ops).out.size)
    (h63 : (finalH {} (encHist hdr) ops).out.size < 2 ^ 63) :
    read cfgCap (encode hdr ops.toArray false) =
      { out := (finalH {} (encHist hdr) ops).out, status := .eof, header := some hdr, marker := false,
        ops := ops.toArray, consumed := (encode hdr ops.toArray false).size } := by
  obtain ⟨hc, h1, hr⟩ := encHist_facts cfgCap hdr
  obtain ⟨a1, _, a3, _, _⟩ := ops_withCap hdr.props _ ops {} (encHist hdr) hops hc h1 hr
  rw [← readHist_eq] at a1 a3
  obtain ⟨rd, hinit, hrun⟩ := segment_known hdr.props false {} _ (initTable_ok hdr.props.lc hdr.props.lp)
    (readHist cfgCap hdr) ops a1
  have hbody := body_withCap hdr.props _ ops {} _ (initTable_ok hdr.props.lc hdr.props.lp) (encHist hdr) hops hc h1 hr false
  rw [← readHist_eq] at hbody
  have hwm : withMarker ops false = ops := rfl
  rw [encode_eq]
  rw [hwm] at hbody ⊢
  rw [← hbody] at hinit
  have hlen := finalH_size ops {} (readHist cfgCap hdr) a1
  rw [readHist_size] at hlen hrun
  have hout : (finalH {} (readHist cfgCap hdr) ops).out = (finalH {} (encHist hdr) ops).out := by rw [a3]; rfl
  rw [hout] at hlen hrun
  obtain ⟨rd', hseg, hc0, hi0⟩ := hrun ((finalH {} (encHist hdr) ops).out.size + 2) (by omega)
  have hsz : ∀ n, hdr.size = some n → n < 2 ^ 63 := by
    intro n hn; rw [hsize] at hn; cases hn; exact h63
  rw [read_of_segment cfgCap hdr _ rd hlc hlp hpb hdc hsz hinit _ false (by rw [hsize]; exact hseg) hi0]
  rw [a3]
  rfl

/-- Known size followed by an end marker. -/
theorem read_encode_known_marker (cfgCap : Nat) (hdr : Header) (ops : List RawOp)
    (hlc : hdr.props.lc ≤ 8) (hlp : hdr.props.lp ≤ 4) (hpb : hdr.props.pb ≤ 4) (hdc : hdr.dictCap < 2 ^ 32)
    (hops : OpsOk {} (encHist hdr) ops)
    (hsize : hdr.size = some (finalH {} (encHist hdr) ops).out.size)
    (h63 : (finalH {} (encHist hdr) ops).out.size < 2 ^ 63) :
    read cfgCap (encode hdr ops.toArray true) =
      { out := (finalH {} (encHist hdr) ops).out, status := .eof, header := some hdr, marker := true,
        ops := (ops ++ [eosOp]).toArray, consumed := (encode hdr ops.toArray true).size } := by
  obtain ⟨hc, h1, hr⟩ := encHist_facts cfgCap hdr
  obtain ⟨a1, _, a3, _, _⟩ := ops_withCap hdr.props _ ops {} (encHist hdr) hops hc h1 hr
  rw [← readHist_eq] at a1 a3
  obtain ⟨rd, hinit, hrun⟩ := segment_marker_known hdr.props {} _ (initTable_ok hdr.props.lc hdr.props.lp)
    (readHist cfgCap hdr) ops a1
  have hbody := body_withCap hdr.props _ ops {} _ (initTable_ok hdr.props.lc hdr.props.lp) (encHist hdr) hops hc h1 hr true
  rw [← readHist_eq] at hbody
  have hwm : withMarker ops true = ops ++ [eosOp] := rfl
  rw [encode_eq]
  rw [hwm] at hbody ⊢
  rw [← hbody] at hinit
  have hlen := finalH_size ops {} (readHist cfgCap hdr) a1
  rw [readHist_size] at hlen hrun
  have hout : (finalH {} (readHist cfgCap hdr) ops).out = (finalH {} (encHist hdr) ops).out := by rw [a3]; rfl
  rw [hout] at hlen hrun
  obtain ⟨rd', hseg, hc0, hi0⟩ := hrun ((finalH {} (encHist hdr) ops).out.size + 2) (by omega)
  have hsz : ∀ n, hdr.size = some n → n < 2 ^ 63 := by
    intro n hn; rw [hsize] at hn; cases hn; exact h63
  rw [read_of_segment cfgCap hdr _ rd hlc hlp hpb hdc hsz hinit _ true (by rw [hsize]; exact hseg) hi0]
  rw [a3]
  rfl

/-! ### the reader's fuel suffices: every decision shrinks the range by a factor ≤ 2018/2048 -/

theorem apply_shrink (e : Enc) (h : e.Rest) (dn : Decn) (hp : dn.ok) :
    (e.apply dn).range * 2048 ≤ e.range * 2018 := by
  have hlo := h.rlo
  unfold Enc.apply
  rcases hdp : dn.p with _ | p
  · dsimp only
    omega
  · obtain ⟨hp1, hp2⟩ := hp p hdp
    dsimp only
    have hq1 : e.range / 2048 * 31 ≤ e.range / 2048 * p := Nat.mul_le_mul_left _ hp1
    have hq2 : e.range / 2048 * p ≤ e.range / 2048 * 2017 := Nat.mul_le_mul_left _ hp2
    generalize e.range / 2048 * p = X at *
    split <;> dsimp only <;> omega

theorem step_shrink (e : Enc) (h : e.Rest) (dn : Decn) (hp : dn.ok) :
    (e.step dn).range * 2048 * 256 ^ e.digits ≤ e.range * 2018 * 256 ^ (e.step dn).digits := by
  obtain ⟨hmid, hr16, hdig, _, _⟩ := apply_spec e h dn hp
  obtain ⟨_, hdle, _, hnR, _⟩ := norm_nest _ hmid hr16
  have ha := apply_shrink e h dn hp
  have hstep : e.step dn = (e.apply dn).norm := rfl
  rw [hstep, hnR]
  have hpow : 256 ^ (e.apply dn).norm.digits = 256 ^ ((e.apply dn).norm.digits - (e.apply dn).digits) * 256 ^ e.digits := by
    rw [← Nat.pow_add]; congr 1; omega
  rw [hpow]
  generalize 256 ^ ((e.apply dn).norm.digits - (e.apply dn).digits) = A
  generalize 256 ^ e.digits = B
  calc (e.apply dn).range * A * 2048 * B = ((e.apply dn).range * 2048) * (A * B) := by ring
    _ ≤ (e.range * 2018) * (A * B) := Nat.mul_le_mul_right _ ha
    _ = e.range * 2018 * (A * B) := by ring

theorem encodeAll_shrink (ds : List Decn) : ∀ (e : Enc), e.Rest → (∀ dn ∈ ds, dn.ok) →
    (e.encodeAll ds).range * 2048 ^ ds.length * 256 ^ e.digits ≤
      e.range * 2018 ^ ds.length * 256 ^ (e.encodeAll ds).digits := by
  induction ds with
  | nil => intro e _ _; simp [Enc.encodeAll]
  | cons dn ds ih =>
    intro e he hp
    have hok : dn.ok := hp dn (by simp)
    have h1 := step_shrink e he dn hok
    have h2 := ih (e.step dn) (step_rest e he dn hok) (fun d hd => hp d (by simp [hd]))
    have heq : e.encodeAll (dn :: ds) = (e.step dn).encodeAll ds := rfl
    rw [heq]
    simp only [List.length_cons, Nat.pow_succ]
    generalize ((e.step dn).encodeAll ds).range = rf at *
    generalize 256 ^ ((e.step dn).encodeAll ds).digits = PF at *
    have hpos : 0 < 256 ^ (e.step dn).digits := Nat.pow_pos (by omega)
    generalize 256 ^ (e.step dn).digits = P1 at *
    generalize 256 ^ e.digits = P at *
    generalize (e.step dn).range = r1 at *
    generalize 2048 ^ ds.length = A at *
    generalize 2018 ^ ds.length = B at *
    apply Nat.le_of_mul_le_mul_right _ hpos
    calc rf * (A * 2048) * P * P1 = (rf * A * P1) * (2048 * P) := by ring
      _ ≤ (r1 * B * PF) * (2048 * P) := Nat.mul_le_mul_right _ h2
      _ = (r1 * 2048 * P) * (B * PF) := by ring
      _ ≤ (e.range * 2018 * P1) * (B * PF) := Nat.mul_le_mul_right _ h1
      _ = e.range * (B * 2018) * PF * P1 := by ring

theorem pow48 : 2 * 2018 ^ 48 ≤ 2048 ^ 48 := by decide

set_option exponentiation.threshold 400 in
theorem pow384 : 256 * 2018 ^ (48 * 8) ≤ 2048 ^ (48 * 8) := by
  have h := Nat.pow_le_pow_left pow48 8
  rw [Nat.mul_pow, ← Nat.pow_mul, ← Nat.pow_mul] at h
  exact h

set_option exponentiation.threshold 400 in
/-- `N` decisions produce at least `N / 384` digits -/
theorem decisions_le (N D : Nat) (h : 2048 ^ N ≤ 2018 ^ N * 256 ^ D) : N ≤ 384 * D := by
  by_contra hlt
  obtain ⟨m, hm, rfl⟩ : ∃ m, 1 ≤ m ∧ N = 48 * 8 * D + m := ⟨N - 384 * D, by omega, by omega⟩
  have h1 : (256 * 2018 ^ (48 * 8)) ^ D ≤ (2048 ^ (48 * 8)) ^ D := Nat.pow_le_pow_left pow384 D
  rw [Nat.mul_pow, ← Nat.pow_mul, ← Nat.pow_mul] at h1
  have h2 : 2018 ^ m < 2048 ^ m := Nat.pow_lt_pow_left (by omega) (by omega)
  rw [Nat.pow_add, Nat.pow_add] at h
  have hpos : 0 < 256 ^ D * 2018 ^ (48 * 8 * D) := Nat.mul_pos (Nat.pow_pos (by omega)) (Nat.pow_pos (by omega))
  have h3 : 256 ^ D * 2018 ^ (48 * 8 * D) * 2018 ^ m < 256 ^ D * 2018 ^ (48 * 8 * D) * 2048 ^ m :=
    Nat.mul_lt_mul_of_pos_left h2 hpos
  have h4 : 256 ^ D * 2018 ^ (48 * 8 * D) * 2048 ^ m ≤ 2048 ^ (48 * 8 * D) * 2048 ^ m := Nat.mul_le_mul_right _ h1
  have h5 : 2018 ^ (48 * 8 * D) * 2018 ^ m * 256 ^ D = 256 ^ D * 2018 ^ (48 * 8 * D) * 2018 ^ m := by ring
  rw [h5] at h
  exact absurd (Nat.lt_of_lt_of_le h3 h4) (Nat.not_lt.mpr h)

theorem toDecns_length (π : Path) : ∀ t : Tbl, (toDecns pm t π).length = π.length := by
  induction π with
  | nil => intro t; rfl
  | cons qb π ih =>
    intro t
    obtain ⟨q, b⟩ := qb
    cases q <;> simp only [toDecns, List.length_cons, ih]

theorem opEnc_length_pos (c : Ctx) (op : RawOp) : 1 ≤ (opEnc c op).length := by
  cases op <;> simp [opEnc]

theorem opsPath_length (p : Props) (ops : List RawOp) : ∀ (s : St) (h : Hist),
    ops.length ≤ (opsPath p s h ops).length := by
  induction ops with
  | nil => intro s h; simp [opsPath]
  | cons op ops ih =>
    intro s h
    have h1 := opEnc_length_pos (mkCtx p s h) op
    have h2 := ih (s.apply op) (h.applyOp (s.apply op) op)
    simp only [opsPath, List.length_append, List.length_cons]
    omega

/-- the encoder's output has at least one byte per 384 operations -/
theorem body_size_bound (p : Props) (s : St) (tbl : Tbl) (htbl : tbl.ok) (h : Hist) (ops : List RawOp) :
    ops.length + 1536 ≤ 384 * (encClose (encodeOps p s tbl h ops)).size := by
  rw [← blist_length, (encodeOps_bytes p s tbl htbl h ops).1]
  have hok := toDecns_ok pm (opsPath p s h ops) tbl htbl
  obtain ⟨hf, hfd, _, _⟩ := encodeAll_nest _ init_rest _ hok
  have hdigf := encodeAll_dig _ (toDecns pm tbl (opsPath p s h ops)) init_dig
  obtain ⟨_, hlen, _⟩ := close_spec _ hf.toInv hdigf
  have hsh := encodeAll_shrink _ Enc.init init_rest hok
  rw [toDecns_length] at hsh
  have hN := opsPath_length p ops s h
  unfold Rc.encode
  generalize Enc.init.encodeAll (toDecns pm tbl (opsPath p s h ops)) = f at *
  have hrlo := hf.rlo
  have hd0 : Enc.init.digits = 1 := rfl
  have hr0 : Enc.init.range = 2 ^ 32 - 1 := rfl
  rw [hd0, hr0] at hsh
  have key : 2048 ^ (opsPath p s h ops).length ≤ 2018 ^ (opsPath p s h ops).length * 256 ^ f.digits := by
    generalize 2048 ^ (opsPath p s h ops).length = A at *
    generalize 2018 ^ (opsPath p s h ops).length = B at *
    generalize 256 ^ f.digits = P at *
    have h1 : 2 ^ 24 * A * 256 ^ 1 ≤ f.range * A * 256 ^ 1 :=
      Nat.mul_le_mul_right _ (Nat.mul_le_mul_right _ hrlo)
    have h2 : (2 ^ 32 - 1) * B * P ≤ 2 ^ 32 * (B * P) := by
      rw [Nat.mul_assoc]
      exact Nat.mul_le_mul_right _ (by omega)
    have h3 : 2 ^ 24 * A * 256 ^ 1 = 2 ^ 32 * A := by ring
    have h4 : 2 ^ 32 * A ≤ 2 ^ 32 * (B * P) := by omega
    exact Nat.le_of_mul_le_mul_left h4 (by omega)
  have := decisions_le _ _ key
  omega

/-! ### headline theorems

`Lzma1.encode` builds its history with capacity `max hdr.dictCap 4096`, `Lzma1.read` with
`max cfgCap (max hdr.dictCap 4096)`.  The coding context (`mkCtx`: `matchByte = byteAt (r0 + 1)`) depends on the capacity,
so for `cfgCap > max hdr.dictCap 4096` validity of the operations for the *reader's* capacity is not enough:
`cfgCap = 8192`, `hdr = { props := ⟨3, 0, 2⟩, dictCap := 4096, size := some 4203 }`,
`ops = 4200 × lit 255 ++ [mtch 2 4150, lit 255]` satisfies `OpsOk` for capacity 8192, but
`read 8192 (encode hdr ops false)` ends with `unexpectedEOF` after 4202 bytes (checked with `#eval`): the encoder codes the last
literal with match byte 0 (distance 4151 > 4096), the decoder with match byte 255.
The general theorems `read_encode_*` therefore ask for `OpsOk` with the encoder's capacity (`encHist`) and hold for every
`cfgCap`; the `roundtrip_*` theorems are the task's statements with the extra hypothesis `cfgCap ≤ max hdr.dictCap 4096`
(then both capacities coincide). -/

/-- Unknown size, end marker (general form: `OpsOk` for the encoder's capacity, any reader configuration). -/
theorem read_encode_unknown (cfgCap : Nat) (hdr : Header) (ops : List RawOp)
    (hlc : hdr.props.lc ≤ 8) (hlp : hdr.props.lp ≤ 4) (hpb : hdr.props.pb ≤ 4) (hdc : hdr.dictCap < 2 ^ 32)
    (hsize : hdr.size = none) (hops : OpsOk {} (encHist hdr) ops) :
    read cfgCap (encode hdr ops.toArray true) =
      { out := (finalH {} (encHist hdr) ops).out, status := .eof, header := some hdr, marker := true,
        ops := (ops ++ [eosOp]).toArray, consumed := (encode hdr ops.toArray true).size } := by
  apply read_encode_unknown_fuel cfgCap hdr ops hlc hlp hpb hdc hsize hops
  rw [encode_eq, ByteArray.size_append, headerBytes_size]
  have := body_size_bound hdr.props {} _ (initTable_ok hdr.props.lc hdr.props.lp) (encHist hdr) (withMarker ops true)
  have hwm : withMarker ops true = ops ++ [eosOp] := rfl
  rw [hwm] at this ⊢
  simp only [List.length_append, List.length_cons, List.length_nil] at this
  omega

/-- the history of the task statement: the reader's capacity -/
theorem readHist_eq_encHist (cfgCap : Nat) (hdr : Header) (hcfg : cfgCap ≤ max hdr.dictCap 4096) :
    ({ out := .empty, dictStart := 0, cap := max cfgCap (max hdr.dictCap 4096) } : Hist) = encHist hdr := by
  unfold encHist minDictCap
  congr 1
  omega

/-- **Headline 1**: unknown size with end marker. -/
theorem roundtrip_unknown (cfgCap : Nat) (hdr : Header) (ops : List RawOp)
    (hlc : hdr.props.lc ≤ 8) (hlp : hdr.props.lp ≤ 4) (hpb : hdr.props.pb ≤ 4) (hdc : hdr.dictCap < 2 ^ 32)
    (hcfg : cfgCap ≤ max hdr.dictCap 4096)
    (hops : OpsOk {} { out := .empty, dictStart := 0, cap := max cfgCap (max hdr.dictCap 4096) } ops)
    (hsize : hdr.size = none) :
    let c := (finalH {} { out := .empty, dictStart := 0, cap := max cfgCap (max hdr.dictCap 4096) } ops).out
    let r := read cfgCap (encode hdr ops.toArray true)
    r.status = .eof ∧ r.out = c ∧ r.marker = true ∧
    r.consumed = (encode hdr ops.toArray true).size ∧ r.openError = false := by
  rw [readHist_eq_encHist cfgCap hdr hcfg] at hops ⊢
  intro c r
  have hr : r = _ := read_encode_unknown cfgCap hdr ops hlc hlp hpb hdc hsize hops
  rw [hr]
  exact ⟨rfl, rfl, rfl, rfl, rfl⟩

/-- **Headline 2**: known size, no end marker. -/
theorem roundtrip_known (cfgCap : Nat) (hdr : Header) (ops : List RawOp)
    (hlc : hdr.props.lc ≤ 8) (hlp : hdr.props.lp ≤ 4) (hpb : hdr.props.pb ≤ 4) (hdc : hdr.dictCap < 2 ^ 32)
    (hcfg : cfgCap ≤ max hdr.dictCap 4096)
    (hops : OpsOk {} { out := .empty, dictStart := 0, cap := max cfgCap (max hdr.dictCap 4096) } ops)
    (hsize : hdr.size = some
      (finalH {} { out := .empty, dictStart := 0, cap := max cfgCap (max hdr.dictCap 4096) } ops).out.size)
    (h63 : (finalH {} { out := .empty, dictStart := 0, cap := max cfgCap (max hdr.dictCap 4096) } ops).out.size
      < 2 ^ 63) :
    let c := (finalH {} { out := .empty, dictStart := 0, cap := max cfgCap (max hdr.dictCap 4096) } ops).out
    let r := read cfgCap (encode hdr ops.toArray false)
    r.status = .eof ∧ r.out = c ∧ r.marker = false ∧
    r.consumed = (encode hdr ops.toArray false).size ∧ r.openError = false := by
  rw [readHist_eq_encHist cfgCap hdr hcfg] at hops hsize h63 ⊢
  intro c r
  have hr : r = _ := read_encode_known cfgCap hdr ops hlc hlp hpb hdc hops hsize h63
  rw [hr]
  exact ⟨rfl, rfl, rfl, rfl, rfl⟩

/-- **Headline 3**: known size followed by an end marker. -/
theorem roundtrip_known_marker (cfgCap : Nat) (hdr : Header) (ops : List RawOp)
    (hlc : hdr.props.lc ≤ 8) (hlp : hdr.props.lp ≤ 4) (hpb : hdr.props.pb ≤ 4) (hdc : hdr.dictCap < 2 ^ 32)
    (hcfg : cfgCap ≤ max hdr.dictCap 4096)
    (hops : OpsOk {} { out := .empty, dictStart := 0, cap := max cfgCap (max hdr.dictCap 4096) } ops)
    (hsize : hdr.size = some
      (finalH {} { out := .empty, dictStart := 0, cap := max cfgCap (max hdr.dictCap 4096) } ops).out.size)
    (h63 : (finalH {} { out := .empty, dictStart := 0, cap := max cfgCap (max hdr.dictCap 4096) } ops).out.size
      < 2 ^ 63) :
    let c := (finalH {} { out := .empty, dictStart := 0, cap := max cfgCap (max hdr.dictCap 4096) } ops).out
    let r := read cfgCap (encode hdr ops.toArray true)
    r.status = .eof ∧ r.out = c ∧ r.marker = true ∧
    r.consumed = (encode hdr ops.toArray true).size ∧ r.openError = false := by
  rw [readHist_eq_encHist cfgCap hdr hcfg] at hops hsize h63 ⊢
  intro c r
  have hr : r = _ := read_encode_known_marker cfgCap hdr ops hlc hlp hpb hdc hops hsize h63
  rw [hr]
  exact ⟨rfl, rfl, rfl, rfl, rfl⟩

/-! ### Part 1 in the form of `Lzma.segment_roundtrip` -/

/-- Marker version of the segment theorem, unknown size. -/
theorem segment_roundtrip_marker (p : Props) (start : Nat) (s : St) (tbl : Tbl) (htbl : tbl.ok) (h : Hist)
    (ops : List RawOp) (hops : OpsOk s h ops) (fuel : Nat) (hfuel : ops.length + 1 ≤ fuel) :
    let x := encodeOps p s tbl h (ops ++ [RawOp.mtch 2 eosDist])
    let body := encClose x
    ∃ rd, Dec.init (bytesToList body 0 body.size) = some rd ∧
      let res := decSegment p none start false fuel { s := s, tbl := tbl, rd := rd, h := h }
      res.status = .eof ∧ res.sawMarker = true ∧ res.d.h = finalH s h ops ∧ res.d.h = x.h ∧ res.d.s = x.s ∧
      res.d.tbl = x.tbl ∧ res.d.ops = (ops ++ [RawOp.mtch 2 eosDist]).toArray ∧ res.d.rd.inp = [] ∧ res.d.rd.code = 0 := by
  intro x body
  obtain ⟨_, hxs, hxt, hxh⟩ := encodeOps_bytes p s tbl htbl h (ops ++ [eosOp])
  obtain ⟨rd, hinit, hrun⟩ := segment_marker_unknown p start s tbl htbl h ops hops
  obtain ⟨rd', hseg, hc, hi⟩ := hrun fuel hfuel
  refine ⟨rd, by rw [bytesToList_eq]; exact hinit, ?_⟩
  have hseg' : decSegment p none start false fuel { s := s, tbl := tbl, rd := rd, h := h } = _ := hseg
  dsimp only
  rw [hseg']
  refine ⟨rfl, rfl, rfl, ?_, hxs.symm, hxt.symm, rfl, hi, hc⟩
  show finalH s h ops = (encodeOps p s tbl h (ops ++ [eosOp])).h
  rw [hxh, finalH_append, finalH_eos]

/-- Marker after a known size: `finish` reads the marker. -/
theorem segment_roundtrip_known_marker (p : Props) (s : St) (tbl : Tbl) (htbl : tbl.ok) (h : Hist)
    (ops : List RawOp) (hops : OpsOk s h ops) (fuel : Nat) (hfuel : ops.length + 1 ≤ fuel) :
    let x := encodeOps p s tbl h (ops ++ [RawOp.mtch 2 eosDist])
    let body := encClose x
    let n := x.h.out.size - h.out.size
    ∃ rd, Dec.init (bytesToList body 0 body.size) = some rd ∧
      let res := decSegment p (some n) h.out.size false fuel { s := s, tbl := tbl, rd := rd, h := h }
      res.status = .eof ∧ res.sawMarker = true ∧ res.d.h = finalH s h ops ∧ res.d.h = x.h ∧ res.d.s = x.s ∧
      res.d.tbl = x.tbl ∧ res.d.ops = (ops ++ [RawOp.mtch 2 eosDist]).toArray ∧ res.d.rd.inp = [] ∧ res.d.rd.code = 0 := by
  intro x body n
  obtain ⟨_, hxs, hxt, hxh⟩ := encodeOps_bytes p s tbl htbl h (ops ++ [eosOp])
  have hxh' : x.h = finalH s h ops := by
    show (encodeOps p s tbl h (ops ++ [eosOp])).h = _
    rw [hxh, finalH_append, finalH_eos]
  obtain ⟨rd, hinit, hrun⟩ := segment_marker_known p s tbl htbl h ops hops
  obtain ⟨rd', hseg, hc, hi⟩ := hrun fuel hfuel
  refine ⟨rd, by rw [bytesToList_eq]; exact hinit, ?_⟩
  have hn : n = (finalH s h ops).out.size - h.out.size := by show x.h.out.size - _ = _; rw [hxh']
  dsimp only
  rw [hn, hseg]
  exact ⟨rfl, rfl, rfl, hxh'.symm, hxs.symm, hxt.symm, rfl, hi, hc⟩

/-- Known size without marker, `ops = []` included (then `n = 0`, the body has five bytes and the loop's first
    test fires). -/
theorem segment_roundtrip_known (p : Props) (strictNoMarker : Bool) (s : St) (tbl : Tbl) (htbl : tbl.ok) (h : Hist)
    (ops : List RawOp) (hops : OpsOk s h ops) (fuel : Nat) (hfuel : ops.length + 1 ≤ fuel) :
    let x := encodeOps p s tbl h ops
    let body := encClose x
    let n := x.h.out.size - h.out.size
    ∃ rd, Dec.init (bytesToList body 0 body.size) = some rd ∧
      let res := decSegment p (some n) h.out.size strictNoMarker fuel { s := s, tbl := tbl, rd := rd, h := h }
      res.status = .eof ∧ res.sawMarker = false ∧ res.d.h = x.h ∧ res.d.s = x.s ∧ res.d.tbl = x.tbl ∧
      res.d.ops = ops.toArray ∧ res.d.rd.inp = [] ∧ res.d.rd.code = 0 := by
  intro x body n
  obtain ⟨_, hxs, hxt, hxh⟩ := encodeOps_bytes p s tbl htbl h ops
  obtain ⟨rd, hinit, hrun⟩ := segment_known p strictNoMarker s tbl htbl h ops hops
  obtain ⟨rd', hseg, hc, hi⟩ := hrun fuel hfuel
  refine ⟨rd, by rw [bytesToList_eq]; exact hinit, ?_⟩
  have hn : n = (finalH s h ops).out.size - h.out.size := by
    show (encodeOps p s tbl h ops).h.out.size - _ = _; rw [hxh]
  dsimp only
  rw [hn, hseg]
  exact ⟨rfl, rfl, hxh.symm, hxs.symm, hxt.symm, rfl, hi, hc⟩

/-- the empty stream: five bytes -/
theorem empty_body_size (p : Props) (s : St) (tbl : Tbl) (h : Hist) :
    (encClose (encodeOps p s tbl h [])).size = 5 := by
  rw [← blist_length]
  have h1 := encClose_blist (encodeOps p s tbl h []) init_rest.toInv rfl
  have h2 : preOut (blist (encodeOps p s tbl h []).bytes) (encodeOps p s tbl h []).e = Enc.init := rfl
  rw [h1, h2]
  have := (close_spec Enc.init init_rest.toInv init_dig).2.1
  have hd : Enc.init.digits = 1 := rfl
  omega

end Lzma1

#print axioms Lzma1.segment_roundtrip_marker
#print axioms Lzma1.segment_roundtrip_known_marker
#print axioms Lzma1.segment_roundtrip_known
#print axioms Lzma1.read_encode_unknown
#print axioms Lzma1.read_encode_known
#print axioms Lzma1.read_encode_known_marker
#print axioms Lzma1.roundtrip_unknown
#print axioms Lzma1.roundtrip_known
#print axioms Lzma1.roundtrip_known_marker
