import XzVerif.Model.Lzma1
import XzVerif.Model.Xz
import XzVerif.Proofs.Rc
import XzVerif.Proofs.FuelLemmas
/-!
  The fuel of the batch readers is never exhausted: for EVERY input the loops of `decSegment`, `Lzma2.readAll`,
  `Xz.readBlocks`, `Xz.readStreams` end because the data ends or an error occurs, never because the recursion bound
  of the model was reached.  This is the termination statement of C11 for the reader models ("every Read returns")
  and removes the `hfuel` hypotheses of the lazy-reader refinement theorems.
  Key fact for the unknown-size classic stream: the range decoder consumes at least one input byte every ~366 decoded
  bits (a probability is never above 2017/2048, so the range shrinks by that factor at least with every bit, and it
  is renormalised — one byte read — whenever it falls below 2^24), and every operation decodes at least one bit.
-/
namespace Fuel
open Lzma Rc

/-- classic .lzma reader -/
theorem lzma1_read_fuel (cfgCap : Nat) (inp : ByteArray) :
    (Lzma1.read cfgCap inp).status ≠ .err "fuel exhausted" := by
  exact FuelL.lzma1_read_fuel cfgCap inp

/-- LZMA2 reader (both rule sets) -/
theorem lzma2_decode_fuel (strict : Bool) (cap : Nat) (inp : ByteArray) (pos : Nat) (out : ByteArray) :
    (Lzma2.decode strict cap inp pos out).2 ≠ .err "fuel exhausted" := by
  exact (FuelL.lzma2_decode_fuel strict cap inp pos out).1

/-- xz reader (both rule sets, multi-stream and SingleStream) -/
theorem xz_read_fuel (strict : Bool) (cfgCap : Nat) (single : Bool) (inp : ByteArray) :
    (Xz.read strict cfgCap single inp).status ≠ .err "fuel exhausted" := by
  exact FuelL.xz_read_fuel strict cfgCap single inp

#print axioms Fuel.lzma1_read_fuel
#print axioms Fuel.lzma2_decode_fuel
#print axioms Fuel.xz_read_fuel

end Fuel
