import XzVerif.Model.XzW
import XzVerif.Proofs.Writer2
import XzVerif.Proofs.XzRoundTrip
import XzVerif.Proofs.DictCap
import XzVerif.Proofs.XzWSplit
import XzVerif.Proofs.XzWCap

/-! One block of the xz writer model: the block specification built from the Writer2 machine's chunk list satisfies
    the hypotheses of `Xz.read_buildStream`, and its content is what was written to the block. -/

set_option linter.unusedSimpArgs false
set_option linter.unusedVariables false

namespace Lzma2
open Lzma Rc Spec

/-! ### a crude size bound: every chunk occupies at most 6 + 65536 bytes and carries at least one byte -/

theorem lzHdr_size_le (e : EState) (c : Chunk) : (lzHdr e c).size ≤ 6 := by
  unfold lzHdr
  cases c.props <;> simp only [ByteArray.size_append, ByteArray.size_push, be16_size] <;>
    (have : ByteArray.empty.size = 0 := rfl) <;> omega

theorem chunk_size_facts (strict : Bool) (e : EState) (q : SeqState) (c : Chunk) (htbl : e.tbl.ok)
    (hok : ChunkOk strict e q c) :
    (chunkBytes e c).size ≤ 65542 ∧ e.h.out.size + 1 ≤ (emitChunk e c).h.out.size := by
  obtain ⟨hq, hrest⟩ := hok
  have raw : (c.kind = .ud ∨ c.kind = .u) → RawOk c →
      (chunkBytes e c).size ≤ 65542 ∧ e.h.out.size + 1 ≤ (emitChunk e c).h.out.size := by
    intro hk hr
    rw [emitChunk_raw_out e c hk, ByteArray.size_append]
    obtain ⟨h1, h2⟩ := hr
    refine ⟨?_, by omega⟩
    obtain ⟨kind, usize, csize, props, ops, raw, consumed, marker⟩ := c
    dsimp only at hk h1 h2
    rcases hk with rfl | rfl <;>
    · simp only [chunkBytes, ByteArray.size_append, ByteArray.size_push, be16_size]
      have : ByteArray.empty.size = 0 := rfl
      omega
  have lz : isLz c.kind → LzOk strict e c →
      (chunkBytes e c).size ≤ 65542 ∧ e.h.out.size + 1 ≤ (emitChunk e c).h.out.size := by
    intro hk hl
    obtain ⟨_, _, _, _, hU1, _⟩ := lz_roundtrip strict e c htbl hl
    have hB := hl.2.2.2.2.1
    rw [chunkBytes_lz e c hk, emitChunk_lz e c hk, ByteArray.size_append]
    refine ⟨by have := lzHdr_size_le e c; omega, ?_⟩
    show e.h.out.size + 1 ≤ (lzEnc e c).h.out.size
    unfold lzUsize at hU1
    rw [lzH_out] at hU1
    omega
  cases hck : c.kind <;> rw [hck] at hrest <;> dsimp only at hrest
  · exact raw (Or.inl hck) hrest
  · exact raw (Or.inr hck) hrest
  · exact lz (Or.inl hck) hrest
  · exact lz (Or.inr (Or.inl hck)) hrest
  · exact lz (Or.inr (Or.inr (Or.inl hck))) hrest
  · exact lz (Or.inr (Or.inr (Or.inr hck))) hrest

theorem chunks_size_bound (strict : Bool) : ∀ (cs : List Chunk) (e : EState) (q : SeqState), e.tbl.ok →
    ChunksOk strict e q cs →
    (chunksBytes e cs).size + 65542 * e.h.out.size ≤ 65542 * (cs.foldl emitChunk e).h.out.size := by
  intro cs
  induction cs with
  | nil => intro e q _ _; simp only [chunksBytes, List.foldl_nil, ByteArray.size_empty]; omega
  | cons c cs ih =>
    intro e q htbl hok
    cases hok with
    | cons _ _ q' _ _ hc hs hrest =>
      obtain ⟨t1, _⟩ := chunk_step_facts strict e q c htbl hc
      obtain ⟨s1, s2⟩ := chunk_size_facts strict e q c htbl hc
      have := ih (emitChunk e c) q' t1 hrest
      simp only [chunksBytes, List.foldl_cons, ByteArray.size_append]
      omega

end Lzma2

namespace XzW
open W2 Lzma Lzma2

variable {σ : Type}

theorem not_close_of_write (ps : List ByteArray) : ∀ call ∈ ps.map Call.write, ¬ (call matches .close) := by
  intro call h
  obtain ⟨p, _, rfl⟩ := List.mem_map.mp h
  simp

theorem payload_writes (ps : List ByteArray) : payload (ps.map .write) = cat ps := by
  induction ps with
  | nil => rfl
  | cons p ps ih => simp only [List.map_cons, payload, cat, ih]

theorem dictSize_eq (c : Nat) : Xz.dictSize c = Spec.dictSize c := rfl

/-- **The LZMA2 writer of one block**: after the pieces and `Close`, the ghost chunk list is a well-formed list
    (for the machine's capacity) followed by the end marker, the sink holds its emission, and its content is the
    concatenation of the pieces. -/
theorem runBlock_spec (strict : Bool) (c : W2.Cfg) (hc : W2.CfgOk c) (M : Matcher σ)
    (I : σ → ByteArray → ByteArray → Prop) (hI : MatcherInv c M I) (m0 : σ) (h0 : I m0 ByteArray.empty ByteArray.empty)
    (ps : List ByteArray) :
    let w := (W2.run c M (W2.init c m0) (ps.map .write ++ [.close])).1
    ∃ cs : List Chunk, w.chunks.toList = cs ++ [eosChunk] ∧ ChunksOk strict (e0 c.dictCap) .init cs ∧
      (cs.foldl emitChunk (e0 c.dictCap)).h.out = cat ps := by
  intro w
  have hnc := not_close_of_write ps
  have hok := no_error_of_margin_I (by decide) c hc M I hI m0 h0 (ps.map .write) hnc .close
  obtain ⟨hw, hall⟩ := W2.run_snoc c M (ps.map .write) .close (W2.init c m0)
  obtain ⟨hok1, herr⟩ := hall.mp hok
  have h := init_run c hc M I hI m0 h0 (ps.map .write) hnc hok1
  obtain ⟨w', hi', hz, hd, hst⟩ := (step_close c (cfgOk' hc) M I (matcherInv' hI) _ _ h).2 herr
  have hwe : w = (W2.step c M (W2.run c M (W2.init c m0) (ps.map .write)).1 .close).1 := hw
  rw [← hwe] at hst
  refine ⟨w'.chunks.toList, ?_, chunksOk_of_inv hi'.toInv strict, ?_⟩
  · rw [hst]
    simp only [Array.toList_push]
    rfl
  · rw [Array.foldl_toList, quiescent hi'.toInv hz, hd, payload_writes]

theorem specBlock_len (c : Cfg) (w : WSt σ) : (Xz.specBlock (blockSpec c w)).hdr.len = 12 := by
  simp [Xz.specBlock, blockSpec]

/-- the block specification of one block satisfies the hypotheses of `read_buildStream` -/
theorem blockSpec_ok (strict : Bool) (c : Cfg) (hc : W2.CfgOk c.w2) (flags : Nat) (hfl : (Xz.checkSize flags).getD 0 ≤ 32)
    (M : Matcher σ) (I : σ → ByteArray → ByteArray → Prop) (hI : MatcherInv c.w2 M I) (m0 : σ)
    (h0 : I m0 ByteArray.empty ByteArray.empty) (ps : List ByteArray) (hsize : (cat ps).size < 2 ^ 40) :
    Xz.BlockSpecOk strict flags (blockSpec c (runBlock c M m0 ps)) ∧
    (Xz.specE (blockSpec c (runBlock c M m0 ps))).h.out = cat ps := by
  obtain ⟨cs, h1, h2, h3⟩ := runBlock_spec strict c.w2 hc M I hI m0 h0 ps
  obtain ⟨hc1, hc2, hd1, hdmax, hc6⟩ := hc
  have hdm : c.w2.dictCap ≤ 2 ^ 32 - 1 := hdmax
  obtain ⟨e1, e2, _⟩ := Proofs.DictCap.encode_least c.w2.dictCap hd1 hdm
  rw [← dictSize_eq] at e2
  generalize hcode : Model.encodeDictCap c.w2.dictCap = code at e1 e2
  obtain ⟨l1, l2, l3, l4, _⟩ := chunks_cap_e0 strict c.w2.dictCap (Xz.dictSize code) hd1 e2 .init cs h2
  have hchunks : (blockSpec c (runBlock c M m0 ps)).chunks.toList = cs ++ [eosChunk] := h1
  have hcodeq : (blockSpec c (runBlock c M m0 ps)).dictCode = code := hcode
  have hE : Xz.specE (blockSpec c (runBlock c M m0 ps)) =
      emitChunk (cs.foldl emitChunk (e0 (Xz.dictSize code))) eosChunk := by
    unfold Xz.specE
    rw [← Array.foldl_toList, hchunks, hcodeq, List.foldl_append]
    rfl
  have hEh : (Xz.specE (blockSpec c (runBlock c M m0 ps))).h.out = cat ps := by
    rw [hE]
    show (cs.foldl emitChunk (e0 (Xz.dictSize code))).h.out = _
    rw [l4, h3]
  have hEo : (Xz.specE (blockSpec c (runBlock c M m0 ps))).out.size = (chunksBytes (e0 c.w2.dictCap) cs).size + 1 := by
    rw [hE]
    show ((cs.foldl emitChunk (e0 (Xz.dictSize code))).out.push 0).size = _
    rw [ByteArray.size_push, l3, foldl_emitChunk_out]
    show (ByteArray.empty ++ _).size + 1 = _
    rw [ByteArray.empty_append]
  have hb := chunks_size_bound strict cs (e0 c.w2.dictCap) .init empty_tbl_ok h2
  rw [h3] at hb
  refine ⟨⟨by rw [hcodeq]; exact e1, ⟨cs, hchunks, by rw [hcodeq]; exact l1⟩, ?_, ?_, ?_⟩, hEh⟩
  · rw [specBlock_len]; omega
  · rw [specBlock_len, hEo]
    have : (e0 c.w2.dictCap).h.out.size = 0 := rfl
    omega
  · rw [hEh]; omega

end XzW
