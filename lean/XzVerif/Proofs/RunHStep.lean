import XzVerif.Proofs.RunGStep
import XzVerif.Proofs.RunPot2

/-!
  Proofs/RunGStep.lean with the second potential (Proofs/RunPot2.lean): steady-state operations are counted
  (`R`), each costs the factor `KR / LR` (2.27 bits).
-/

set_option linter.unusedSimpArgs false
set_option linter.unusedVariables false
set_option maxRecDepth 8000

namespace RunCost
open Lzma Rc W2

variable {σ : Type}

/-! ### the cost invariant of the open chunk, irregular operations counted in bits -/

structure LocH (c : Cfg) (dbt : Lzma.St → Nat → Nat) (w : WSt σ) (X E A : Nat) : Prop where
  li : Enc.init.range * S2 w.tbl * LR ^ X * 256 ^ w.digits ≤ w.e.range * S2 w.snapTbl * KR ^ X * 2 ^ E * 256
  x : X * 273 ≤ w.hist.size - w.start
  y : E + 126 * dbt w.s w.hist.size ≤ 455 * (w.hist.size / Lc c - w.start / Lc c) + 126 * dbt w.snapS w.start + A
  yf : E ≤ 455 * (w.hist.size / Lc c - w.start / Lc c) + 126 * dbt w.snapS w.start + 126
  tsz : 1856 ≤ w.tbl.size

/-- potential part after an operation whose decisions cost at most `2^k` -/
theorem li_cost2 (c : Cfg) (w w' : WSt σ) (g : GoOp) (hi : Inv c w) (k : Nat)
    (hk : 128 ^ nA (opEnc (w.ctx c) (classify w.s g)) * 3 ^ nD (opEnc (w.ctx c) (classify w.s g)) ≤ 2 ^ k)
    (h : encodeOp c w g = .ok w') (hsn : w'.snapTbl = w.snapTbl) {X E : Nat}
    (hli : Enc.init.range * S2 w.tbl * LR ^ X * 256 ^ w.digits ≤ w.e.range * S2 w.snapTbl * KR ^ X * 2 ^ E * 256) :
    Enc.init.range * S2 w'.tbl * LR ^ X * 256 ^ w'.digits ≤
      w'.e.range * S2 w'.snapTbl * KR ^ X * 2 ^ (E + k) * 256 := by
  obtain ⟨_, ht, hr, hd⟩ := encodeOp_ok c w w' g h
  generalize opEnc (w.ctx c) (classify w.s g) = π at *
  have hpp := path_pot_any2 π w.tbl w.e hi.tblok hi.erest
  have hdig := digits_eq w hi.eout
  rw [ht, hr, hd, hsn]
  rw [hdig] at hli
  generalize (w.e.encodeAll (toDecns pm w.tbl π)) = E' at *
  have hpos : 0 < w.e.range * S2 w.tbl * 256 ^ (w.body.size + w.e.digits) :=
    Nat.mul_pos (Nat.mul_pos (Nat.lt_of_lt_of_le (by decide) hi.erest.rlo) (S2_pos _ hi.tblok))
      (Nat.pow_pos (by omega))
  have h2 : w.e.range * S2 (tblAfter w.tbl π) * 256 ^ (w.body.size + E'.digits) ≤
      E'.range * S2 w.tbl * 2 ^ k * 256 ^ (w.body.size + w.e.digits) := by
    rw [Nat.pow_add, Nat.pow_add]
    calc w.e.range * S2 (tblAfter w.tbl π) * (256 ^ w.body.size * 256 ^ E'.digits)
        = (w.e.range * S2 (tblAfter w.tbl π) * 1 * 256 ^ E'.digits) * 256 ^ w.body.size := by ring
      _ ≤ (E'.range * S2 w.tbl * (128 ^ nA π * 3 ^ nD π) * 256 ^ w.e.digits) * 256 ^ w.body.size :=
          Nat.mul_le_mul_right _ hpp
      _ ≤ (E'.range * S2 w.tbl * 2 ^ k * 256 ^ w.e.digits) * 256 ^ w.body.size :=
          Nat.mul_le_mul_right _ (Nat.mul_le_mul_right _ (Nat.mul_le_mul_left _ hk))
      _ = _ := by ring
  have h1 : (Enc.init.range * LR ^ X) * S2 w.tbl * 256 ^ (w.body.size + w.e.digits) ≤
      w.e.range * (S2 w.snapTbl * KR ^ X * 2 ^ E * 256) := by
    calc _ = Enc.init.range * S2 w.tbl * LR ^ X * 256 ^ (w.body.size + w.e.digits) := by ring
      _ ≤ _ := hli
      _ = _ := by ring
  have := comb _ _ _ _ _ _ _ _ _ hpos h1 h2
  calc _ = Enc.init.range * LR ^ X * S2 (tblAfter w.tbl π) * 256 ^ (w.body.size + E'.digits) := by ring
    _ ≤ _ := this
    _ = _ := by rw [Nat.pow_add]; ring

/-- potential part after the steady-state operation -/
theorem li_reg2 (c : Cfg) (w w' : WSt σ) (g : GoOp) (hi : Inv c w) (hcl : classify w.s g = .rep 0 273)
    (hst : w.s.st = 11) (hps : (w.ctx c).ps < 16) (htsz : 1856 ≤ w.tbl.size)
    (h : encodeOp c w g = .ok w') (hsn : w'.snapTbl = w.snapTbl) {X E : Nat}
    (hli : Enc.init.range * S2 w.tbl * LR ^ X * 256 ^ w.digits ≤ w.e.range * S2 w.snapTbl * KR ^ X * 2 ^ E * 256) :
    Enc.init.range * S2 w'.tbl * LR ^ (X + 1) * 256 ^ w'.digits ≤
      w'.e.range * S2 w'.snapTbl * KR ^ (X + 1) * 2 ^ E * 256 := by
  have hG : (2 : Nat) ^ E = (2 ^ E) ^ 1 := by rw [Nat.pow_one]
  obtain ⟨_, ht, hr, hd⟩ := encodeOp_ok c w w' g h
  rw [hcl] at ht hr hd
  obtain ⟨hexp, hlen⟩ := reg_path (w.ctx c) hst hps
  obtain ⟨hk, hl⟩ := reg_path2 (w.ctx c) hst hps
  generalize opEnc (w.ctx c) (.rep 0 273) = π at *
  have hpp := path_pot_exp2 π w.tbl w.e hi.tblok hi.erest (expPath_mono hexp htsz)
  rw [hk, hl] at hpp
  have hdig := digits_eq w hi.eout
  rw [ht, hr, hd, hsn]
  rw [hdig] at hli
  generalize (w.e.encodeAll (toDecns pm w.tbl π)) = E' at *
  have hpos : 0 < w.e.range * S2 w.tbl * 256 ^ (w.body.size + w.e.digits) :=
    Nat.mul_pos (Nat.mul_pos (Nat.lt_of_lt_of_le (by decide) hi.erest.rlo) (S2_pos _ hi.tblok))
      (Nat.pow_pos (by omega))
  have h2 : w.e.range * (S2 (tblAfter w.tbl π) * LR) * 256 ^ (w.body.size + E'.digits) ≤
      E'.range * S2 w.tbl * KR * 256 ^ (w.body.size + w.e.digits) := by
    rw [Nat.pow_add, Nat.pow_add]
    calc w.e.range * (S2 (tblAfter w.tbl π) * LR) * (256 ^ w.body.size * 256 ^ E'.digits)
        = (w.e.range * S2 (tblAfter w.tbl π) * LR * 256 ^ E'.digits) * 256 ^ w.body.size := by ring
      _ ≤ (E'.range * S2 w.tbl * KR * 256 ^ w.e.digits) * 256 ^ w.body.size :=
          Nat.mul_le_mul_right _ hpp
      _ = _ := by ring
  have h1 : (Enc.init.range * LR ^ X) * S2 w.tbl * 256 ^ (w.body.size + w.e.digits) ≤
      w.e.range * (S2 w.snapTbl * KR ^ X * 2 ^ E * 256) := by
    calc _ = Enc.init.range * S2 w.tbl * LR ^ X * 256 ^ (w.body.size + w.e.digits) := by ring
      _ ≤ _ := hli
      _ = _ := by ring
  have := comb _ _ _ _ _ _ _ _ _ hpos h1 h2
  calc _ = Enc.init.range * LR ^ X * (S2 (tblAfter w.tbl π) * LR) * 256 ^ (w.body.size + E'.digits) := by
        rw [Nat.pow_succ]; ring
    _ ≤ _ := this
    _ = _ := by rw [Nat.pow_succ]; ring

/-! ### one operation -/

/-- what the chunk-level part of the proof needs of one operation -/
def OpStep2 (c : Cfg) (b : UInt8) (M : Matcher σ) (I : σ → ByteArray → ByteArray → Prop)
    (dbt : Lzma.St → Nat → Nat) : Prop :=
  ∀ (w w' : WSt σ) (X E : Nat), InvI c I w → RunA b w → 1 ≤ w.look.size →
    w.digits + 4 + Gen.lzma_opLenMargin ≤ Gen.lzma_maxCompressed → LocH c dbt w X E 0 →
    encodeOp c { w with m := (M.next w.m w.hist w.look w.s).2 } (M.next w.m w.hist w.look w.s).1 = .ok w' →
    RunA b w' ∧ ∃ X' E', LocH c dbt w' X' E' 0 ∨ (w.look.size < 273 ∧ w'.look.size = 0 ∧ LocH c dbt w' X' E' 504)

theorem x_stepH (X h s : Nat) (hx : X * 273 ≤ h - s) (hs : s ≤ h) :
    (X + 1) * 273 ≤ h + 273 - s := by omega

/-- **one operation** of the writer inside a run, for a match finder with known proposals -/
theorem opstepH (c : Cfg) (hc : CfgOk c) (b : UInt8) (M : Matcher σ) (I : σ → ByteArray → ByteArray → Prop)
    (hMI : MatcherInv c M I) (rho h0 : Nat) (hsp : RunSpec c b M I rho h0) :
    OpStep2 c b M I (dbtG rho h0) := by
  intro w w' X E hi hb hl hadm hloc hres
  have hMI' := matcherInv' hMI
  have hc' := cfgOk' hc
  have hg := hMI'.ok w.m w.hist w.look w.s hi.sync hl hi.space
  have hi1 := hi.toInv.setM (M.next w.m w.hist w.look w.s).2
  generalize hgg : (M.next w.m w.hist w.look w.s).1 = g at *
  have hop := encodeOp_spec c hc' _ g hi1 hg hadm
  rw [hres] at hop
  obtain ⟨hi', hf, hlk, _, hh', hl'⟩ := hop
  have hh'' : w'.hist = w.hist ++ w.look.extract 0 g.len := hh'
  have hl'' : w'.look = w.look.extract g.len w.look.size := hl'
  obtain ⟨_, hlen1, hlen2⟩ := goOp_encodable c hc' w.hist w.look w.s g hg
  have hwf := (classify_opOk c hc' w.hist w.look w.s g hg).1
  have hhs : w'.hist.size = w.hist.size + g.len := by
    rw [hh'', ByteArray.size_append, ByteArray.size_extract]; omega
  have hls : w'.look.size = w.look.size - g.len := by
    rw [hl'', ByteArray.size_extract]; omega
  have hbuf : 273 ≤ c.bufSize := hc.2.2.2.2
  have hLpos : 0 < Lc c := by unfold Lc; omega
  have hL3 : 275 ≤ Lc c := by have := hc.2.2.1; unfold Lc; omega
  have hsn : w'.snapTbl = w.snapTbl := hf.snapTbl
  have hss : w'.snapS = w.snapS := hf.snapS
  have hstart : w'.start = w.start := hf.start
  have hs0 := hi.start
  have hmono : w.hist.size / Lc c ≤ w'.hist.size / Lc c := Nat.div_le_div_right (by omega)
  have hmono0 : w.start / Lc c ≤ w.hist.size / Lc c := Nat.div_le_div_right hs0
  obtain ⟨hsapp, htbl, _, _⟩ := encodeOp_ok c _ w' g hres
  have hsapp' : w'.s = w.s.apply (classify w.s g) := hsapp
  have htsz' : 1856 ≤ w'.tbl.size := by rw [htbl, tblAfter_size]; exact hloc.tsz
  -- the bytes
  have hb' : RunA b w' := by
    constructor
    · intro i hi2
      rw [hh'']
      by_cases hlt : i < w.hist.size
      · rw [Lzma2.get!_append_left hlt]; exact hb.hist i hlt
      · rw [hhs] at hi2
        rw [show i = w.hist.size + (i - w.hist.size) by omega, Lzma2.get!_append_right,
          get!_extract0 _ _ _ (by omega)]
        exact hb.look _ (by omega)
    · intro i hi2
      rw [hls] at hi2
      rw [hl'', Ring.get!_extract w.look g.len w.look.size i (Nat.le_refl _) (by omega)]
      exact hb.look _ (by omega)
  refine ⟨hb', ?_⟩
  have hcntany := opEnc_count_le (({ w with m := (M.next w.m w.hist w.look w.s).2 } : WSt σ).ctx c)
    (classify w.s g) hwf
  have hany := li_cost2 c _ w' g hi1 203 (any_cost _ _ hcntany.1 hcntany.2) hres hsn hloc.li
  have hcheap : Cheap (classify w.s g) →
      Enc.init.range * S2 w'.tbl * LR ^ X * 256 ^ w'.digits ≤
        w'.e.range * S2 w'.snapTbl * KR ^ X * 2 ^ (E + 126) * 256 := by
    intro hch
    have hcnt := cheap_count (({ w with m := (M.next w.m w.hist w.look w.s).2 } : WSt σ).ctx c)
      (classify w.s g) hch
    exact li_cost2 c _ w' g hi1 126 (cheap_cost _ _ hcnt.1 hcnt.2) hres hsn hloc.li
  have hy := hloc.y
  have hyf := hloc.yf
  have hx := hloc.x
  have hdpos := dbtG_pos rho h0 w'.s w'.hist.size (by omega)
  have hD4 : D0 h0 ≤ 4 := by unfold D0; split <;> omega
  -- a cheap irregular operation whose debt decreases
  have irrC : Cheap (classify w.s g) →
      (dbtG rho h0 w'.s w'.hist.size + 1 ≤ dbtG rho h0 w.s w.hist.size ∨
        (w.look.size < 273 ∧ w'.look.size = 0)) →
      ∃ X' E', LocH c (dbtG rho h0) w' X' E' 0 ∨
        (w.look.size < 273 ∧ w'.look.size = 0 ∧ LocH c (dbtG rho h0) w' X' E' 504) := by
    intro hch hcase
    refine ⟨X, E + 126, ?_⟩
    rcases hcase with hcase | ⟨h1, h2⟩
    · left
      refine ⟨hcheap hch, by rw [hstart]; omega, ?_, ?_, htsz'⟩
      · rw [hstart, hss]; omega
      · rw [hstart, hss]; omega
    · right
      refine ⟨h1, h2, hcheap hch, by rw [hstart]; omega, ?_, ?_, htsz'⟩
      · rw [hstart, hss]; omega
      · rw [hstart, hss]; omega
  by_cases hh0 : w.hist.size = 0
  · -- the very first operation: a literal
    have hchp : Cheap (classify w.s g) := by
      cases g with
      | lit b => trivial
      | mtch dist n =>
        obtain ⟨h1, h2, _⟩ := hg
        omega
    apply irrC hchp
    left
    rw [hh0, dbtG_init]
    exact hdpos
  have hh1 : 1 ≤ w.hist.size := by omega
  by_cases hwrap : 1 ≤ w.hist.size % Lc c ∧ Lc c + 1 < w.hist.size % Lc c + min 273 w.look.size
  · -- the match source hits the physical end of the ring
    obtain ⟨dist, n, hgn, hn⟩ := hsp.p3 w.m w.hist w.look w.s hi.sync hb.hist hb.look hh1 hl hi.space hwrap.1 hwrap.2
    rw [hgg] at hgn
    subst hgn
    have hlen : (GoOp.mtch dist n).len = n := rfl
    rw [hlen] at hhs
    have hmod : w.hist.size % Lc c < Lc c := Nat.mod_lt _ hLpos
    have hds := div_step (Lc c) w.hist.size n hLpos (by omega)
    have hd2 : dbtG rho h0 w'.s w'.hist.size ≤ 2 := dbtG_le2 _ _ _ _ (by have := hsp.h0_le; omega) (by omega)
    rw [hhs] at hd2 hmono
    refine ⟨X, E + 203, Or.inl ⟨hany, by rw [hstart]; omega, ?_, ?_, htsz'⟩⟩
    · rw [hstart, hss, hhs]; omega
    · rw [hstart, hss, hhs]; omega
  · have hphys : w.hist.size % Lc c = 0 ∨ w.hist.size % Lc c + min 273 w.look.size ≤ Lc c + 1 := by omega
    by_cases hn : 2 ≤ w.look.size
    · obtain ⟨dist, hd4, hgn⟩ := hsp.p2 w.m w.hist w.look w.s hi.sync hb.hist hb.look hh1 hn hi.space hphys
      rw [hgg] at hgn
      have hchp : Cheap (classify w.s g) := by rw [hgn]; exact classify_cheap _ _ _ hd4
      have hlenN : g.len = min 273 w.look.size := by rw [hgn]; rfl
      rw [hlenN] at hhs hls
      by_cases hbig : 273 ≤ w.look.size
      · have hN : min 273 w.look.size = 273 := by omega
        rw [hN] at hhs hls hphys
        have hh0' : h0 ≤ w'.hist.size := by have := hsp.h0_le; omega
        by_cases hsmall : w.hist.size < h0
        · apply irrC hchp
          left
          rw [dbtG_small _ _ _ _ hh1 hsmall]
          have := dbtG_le2 rho h0 w'.s w'.hist.size hh0' (by omega)
          omega
        · have hge : h0 ≤ w.hist.size := by omega
          have hg1 := hsp.p1 w.m w.hist w.look w.s hi.sync hb.hist hb.look hge hbig hi.space hphys
          rw [hgg] at hg1
          subst hg1
          by_cases hr0 : w.s.r0 = rho
          · have hcl := classify_rep0G w.s rho 273 (by omega) hr0
            rw [hcl] at hsapp'
            have hst' : w'.s.st = updRep w.s.st := by rw [hsapp']; rfl
            have hr0' : w'.s.r0 = rho := by rw [hsapp']; exact hr0
            by_cases hst : w.s.st = 11
            · -- the steady-state operation
              have hps : (({ w with m := (M.next w.m w.hist w.look w.s).2 } : WSt σ).ctx c).ps < 16 := by
                show w.hist.size % 2 ^ c.props.pb < 16
                have hpb : c.props.pb ≤ 4 := hc.1.2.2
                have h16 : 2 ^ c.props.pb ≤ 2 ^ 4 := Nat.pow_le_pow_right (by omega) hpb
                have := Nat.mod_lt w.hist.size (Nat.pow_pos (by omega) : 0 < 2 ^ c.props.pb)
                omega
              have hreg := li_reg2 c _ w' _ hi1 hcl hst hps hloc.tsz hres hsn hloc.li
              have hst2 : w'.s.st = 11 := by rw [hst', hst]; rfl
              have hd0 : dbtG rho h0 w.s w.hist.size = 0 := dbtG_zero _ _ _ _ hge hh1 hr0 hst
              have hd1 : dbtG rho h0 w'.s w'.hist.size = 0 := dbtG_zero _ _ _ _ hh0' (by omega) hr0' hst2
              refine ⟨X + 1, E, Or.inl ⟨hreg, ?_, ?_, ?_, htsz'⟩⟩
              · rw [hstart, hhs]; exact x_stepH _ _ _ hx hs0
              · rw [hstart, hss, hd1]
                rw [hd0] at hy
                omega
              · rw [hstart, hss]; omega
            · apply irrC hchp
              left
              by_cases h7 : w.s.st < 7
              · have hd0 : dbtG rho h0 w.s w.hist.size = 2 := dbtG_lit _ _ _ _ hge hh1 hr0 h7
                have hst2 : w'.s.st = 8 := by rw [hst']; unfold updRep; rw [if_pos h7]
                have hd1 : dbtG rho h0 w'.s w'.hist.size ≤ 1 := dbtG_ge7 _ _ _ _ hh0' (by omega) hr0' (by omega)
                omega
              · have hd0 : dbtG rho h0 w.s w.hist.size = 1 := dbtG_mid _ _ _ _ hge hh1 hr0 (by omega) hst
                have hst2 : w'.s.st = 11 := by rw [hst']; unfold updRep; rw [if_neg h7]
                have hd1 : dbtG rho h0 w'.s w'.hist.size = 0 := dbtG_zero _ _ _ _ hh0' (by omega) hr0' hst2
                omega
          · obtain ⟨f1, f2⟩ := classify_fixG w.s rho 273 hr0
            rw [← hsapp'] at f1 f2
            apply irrC hchp
            left
            have hd0 : dbtG rho h0 w.s w.hist.size = 2 := dbtG_r0 _ _ _ _ hge hh1 hr0
            have hd1 : dbtG rho h0 w'.s w'.hist.size ≤ 1 := dbtG_ge7 _ _ _ _ hh0' (by omega) f1 f2
            omega
      · apply irrC hchp
        right
        exact ⟨by omega, by omega⟩
    · -- one byte left: whatever is proposed consumes it
      apply irrC (classify_cheap1 c w.hist w.look w.s g hg (by omega))
      right
      exact ⟨by omega, by omega⟩

end RunCost
