import XzVerif.Proofs.XzRoundTrip
import XzVerif.Proofs.Lzma1RoundTrip
import XzVerif.Proofs.Lzma2RoundTrip
import XzVerif.Proofs.PrefixLzma2
import XzVerif.Proofs.PrefixLzma1
import XzVerif.Proofs.PrefixXz

/-!
  Prefix-freeness of the three stream languages for the reader models (C05): no proper prefix of a well-formed
  LZMA2 chunk sequence, classic .lzma stream or .xz stream is itself accepted with a clean end, and what the reader
  delivers before failing is a prefix of the content.  The underlying fact is extension stability: a reader that
  succeeds on an input reads only what it consumes, so it behaves identically on every extension.
-/

/-! ## statements to prove (do not change them) -/

namespace Lzma2
open Lzma Rc Spec

/-- **LZMA2.** Decoding any proper prefix of a well-formed chunk sequence (with its end marker) does not end
    cleanly, under the format's rules and under the Go reader's rules. -/
theorem lzma2_prefix_rejected (strict : Bool) (cap : Nat) (cs : Array Chunk)
    (hok : ChunksOk strict (e0 cap) .init cs.toList) (k : Nat)
    (hk : k < (emit cap (cs.push { kind := .eos, usize := 0 })).size) :
    (decode strict cap ((emit cap (cs.push { kind := .eos, usize := 0 })).extract 0 k) 0 ByteArray.empty).2 ≠ .eof :=
  (decode_trunc strict cap cs hok k hk).1

/-- … and the bytes delivered before the failure are a prefix of the content. -/
theorem lzma2_prefix_output (strict : Bool) (cap : Nat) (cs : Array Chunk)
    (hok : ChunksOk strict (e0 cap) .init cs.toList) (k : Nat)
    (hk : k < (emit cap (cs.push { kind := .eos, usize := 0 })).size) :
    let full := (cs.foldl emitChunk (e0 cap)).h.out
    let got := (decode strict cap ((emit cap (cs.push { kind := .eos, usize := 0 })).extract 0 k) 0 ByteArray.empty).1.h.out
    got.size ≤ full.size ∧ got = full.extract 0 got.size := by
  intro full got
  have h := (decode_trunc strict cap cs hok k hk).2
  exact ⟨h.size_le, h.eq_extract⟩

end Lzma2

namespace Lzma1
open Lzma Rc

/-- **Classic .lzma, end marker and unknown size.** -/
theorem lzma_prefix_rejected_unknown (cfgCap : Nat) (hdr : Header) (ops : List RawOp)
    (hlc : hdr.props.lc ≤ 8) (hlp : hdr.props.lp ≤ 4) (hpb : hdr.props.pb ≤ 4) (hdc : hdr.dictCap < 2 ^ 32)
    (hcfg : cfgCap ≤ max hdr.dictCap 4096)
    (hops : OpsOk {} { out := .empty, dictStart := 0, cap := max cfgCap (max hdr.dictCap 4096) } ops)
    (hsize : hdr.size = none) (k : Nat) (hk : k < (encode hdr ops.toArray true).size) :
    (read cfgCap ((encode hdr ops.toArray true).extract 0 k)).status ≠ .eof :=
  read_prefix_rejected cfgCap _ (roundtrip_unknown cfgCap hdr ops hlc hlp hpb hdc hcfg hops hsize).2.2.2.1 k hk

/-- **Classic .lzma, known size**, with or without an end marker. -/
theorem lzma_prefix_rejected_known (cfgCap : Nat) (hdr : Header) (ops : List RawOp) (marker : Bool)
    (hlc : hdr.props.lc ≤ 8) (hlp : hdr.props.lp ≤ 4) (hpb : hdr.props.pb ≤ 4) (hdc : hdr.dictCap < 2 ^ 32)
    (hcfg : cfgCap ≤ max hdr.dictCap 4096)
    (hops : OpsOk {} { out := .empty, dictStart := 0, cap := max cfgCap (max hdr.dictCap 4096) } ops)
    (hsize : hdr.size = some
      (finalH {} { out := .empty, dictStart := 0, cap := max cfgCap (max hdr.dictCap 4096) } ops).out.size)
    (h63 : (finalH {} { out := .empty, dictStart := 0, cap := max cfgCap (max hdr.dictCap 4096) } ops).out.size
      < 2 ^ 63) (k : Nat) (hk : k < (encode hdr ops.toArray marker).size) :
    (read cfgCap ((encode hdr ops.toArray marker).extract 0 k)).status ≠ .eof := by
  cases marker with
  | false =>
    exact read_prefix_rejected cfgCap _ (roundtrip_known cfgCap hdr ops hlc hlp hpb hdc hcfg hops hsize h63).2.2.2.1 k hk
  | true =>
    exact read_prefix_rejected cfgCap _
      (roundtrip_known_marker cfgCap hdr ops hlc hlp hpb hdc hcfg hops hsize h63).2.2.2.1 k hk

end Lzma1

namespace Xz
open Lzma Lzma2 Rc

/-- **.xz, single stream without trailing padding.** No proper prefix is accepted, in multi-stream mode and in
    SingleStream mode, under both rule sets. -/
theorem xz_prefix_rejected (strict : Bool) (cfgCap : Nat) (single : Bool) (s : Stream) (hok : StreamOk strict s)
    (hcap : CapOk strict cfgCap s) (hpad : s.padAfter = 0) (k : Nat) (hk : k < (emitStream s).size) :
    (read strict cfgCap single ((emitStream s).extract 0 k)).status ≠ .eof :=
  read_trunc_stream strict cfgCap single s hok hcap hpad k hk

/-- **.xz, chains of streams with padding.** A cut is accepted with a clean end only at the end of a stream or at
    a 4-byte step inside the padding that follows it: if a prefix of a well-formed chain is accepted, the prefix is
    itself the emission of a well-formed chain (the streams before the cut, the last one with possibly less
    padding). -/
theorem xz_chain_prefix_accepted_only_at_boundaries (strict : Bool) (cfgCap : Nat) (ss : List Stream) (hne : ss ≠ [])
    (hok : ∀ s ∈ ss, StreamOk strict s ∧ CapOk strict cfgCap s) (k : Nat) (hk : k ≤ (emitL ss).size)
    (hclean : (read strict cfgCap false ((emitL ss).extract 0 k)).status = .eof) :
    ∃ ss' : List Stream, ss' ≠ [] ∧ (∀ s ∈ ss', StreamOk strict s ∧ CapOk strict cfgCap s) ∧
      (emitL ss).extract 0 k = emitL ss' ∧ ss'.length ≤ ss.length := by
  have _ := hne
  exact read_chain_prefix strict cfgCap ss hok k hk hclean

end Xz

#print axioms Lzma2.lzma2_prefix_rejected
#print axioms Lzma2.lzma2_prefix_output
#print axioms Lzma1.lzma_prefix_rejected_unknown
#print axioms Lzma1.lzma_prefix_rejected_known
#print axioms Xz.xz_prefix_rejected
#print axioms Xz.xz_chain_prefix_accepted_only_at_boundaries
