import XzVerif.Model.Writer2F
import XzVerif.Proofs.Writer2
import XzVerif.Proofs.Writer2FLemmas
import XzVerif.Proofs.Writer2FInv
/-!
  Proofs about Model/Writer2F.lean (the LZMA2 writer model on a failing sink): the call during which a sink call fails
  returns an error; a stored error is returned by every later call and nothing more reaches the sink; no call of any
  history panics, whatever the fault plan; a run during which no sink call failed IS the fault-free run of
  Model/Writer2.lean, so that "every call returned nil" implies "the sink holds the complete valid stream".
-/
namespace W2F
open W2 Lzma Rc Lzma2 Spec

variable {σ : Type}

def allOk (rs : List (CallRes × Nat)) : Prop := ∀ r ∈ rs, r.1.err = none

/-- T1. the call during which a sink call fails for the first time returns a non-nil error (no hypothesis) -/
theorem step_hit (c : Cfg) (M : Matcher σ) (F : Plan) (s : FSt σ) (call : Call)
    (h0 : s.hit = false) (h1 : (step c M F s call).1.hit = true) :
    (step c M F s call).2.err ≠ none := by
  rcases (step_hit_aux c M F s call).1 with h | h
  · rw [h, h0] at h1; cases h1
  · exact h

/-- T2. a stored error is returned by every later call; the state, hence the sink, does not change; no panic -/
theorem step_sticky (c : Cfg) (M : Matcher σ) (F : Plan) (s : FSt σ) (call : Call) (h : s.err ≠ none) :
    (step c M F s call).1 = s ∧ (step c M F s call).2.err ≠ none ∧ (step c M F s call).2.panic = false := by
  cases he : s.err with
  | none => exact absurd he h
  | some e =>
    cases call <;>
    · simp only [step]
      by_cases hcl : s.w.closed = true
      · rw [if_pos hcl]; exact ⟨rfl, by simp, rfl⟩
      · rw [if_neg hcl, he]; exact ⟨rfl, by simp, rfl⟩

/-- T3. no call of any history panics: every valid configuration, every self-synchronising match finder, EVERY fault
    plan, every call history (closes anywhere) -/
theorem no_panic (c : Cfg) (hc : CfgOk c) (M : Matcher σ) (I : σ → ByteArray → ByteArray → Prop) (hI : MatcherInv c M I)
    (m0 : σ) (h0 : I m0 ByteArray.empty ByteArray.empty) (F : Plan) (calls : List Call) :
    ∀ r ∈ (run c M F (init c m0) calls).2, r.1.panic = false := by
  have hc' := cfgOk' hc
  have hI' := matcherInv' hI
  -- the invariant between calls
  have hstep : ∀ (s : FSt σ) (call : Call),
      (s.err ≠ none ∨ s.w.closed = true ∨ ∃ d, RunInvG c I s.w d) →
      (step c M F s call).2.panic = false ∧
      ((step c M F s call).1.err ≠ none ∨ (step c M F s call).1.w.closed = true ∨
        ∃ d, RunInvG c I (step c M F s call).1.w d) := by
    intro s call hP
    by_cases he : s.err = none
    · rcases hP with h | h | ⟨d, h⟩
      · exact absurd he h
      · have hst : step c M F s call = (s, { err := some (.w .closed) }) := by
          cases call <;> simp only [step, h, if_true]
        rw [hst]
        exact ⟨rfl, Or.inr (Or.inl h)⟩
      · cases call with
        | write p =>
          obtain ⟨h1, h2⟩ := step_write_F c hc' M I hI' F s d p h he
          refine ⟨h1, ?_⟩
          rcases h2 with ⟨_, a2, _⟩ | ⟨_, a2, _⟩
          · exact Or.inr (Or.inr ⟨_, a2⟩)
          · exact Or.inl (by rw [a2]; simp)
        | flush =>
          obtain ⟨h1, h2⟩ := step_flush_F c hc' M I hI' F s d h he
          refine ⟨h1, ?_⟩
          rcases h2 with ⟨_, a2, _⟩ | ⟨_, a2, _⟩
          · exact Or.inr (Or.inr ⟨_, a2⟩)
          · exact Or.inl (by rw [a2]; simp)
        | close =>
          obtain ⟨h1, h2⟩ := step_close_F c hc' M I hI' F s d h he
          refine ⟨h1, ?_⟩
          rcases h2 with ⟨_, a2, _⟩ | ⟨_, a2, _⟩ | ⟨_, _, _, a4⟩
          · exact Or.inr (Or.inl a2)
          · exact Or.inl (by rw [a2]; simp)
          · exact Or.inr (Or.inr ⟨_, a4⟩)
    · obtain ⟨a1, _, a3⟩ := step_sticky c M F s call he
      rw [a1]
      exact ⟨a3, Or.inl he⟩
  have key : ∀ (calls : List Call) (s : FSt σ),
      (s.err ≠ none ∨ s.w.closed = true ∨ ∃ d, RunInvG c I s.w d) →
      ∀ r ∈ (run c M F s calls).2, r.1.panic = false := by
    intro calls
    induction calls with
    | nil => intro s _ r hr; cases hr
    | cons call rest ih =>
      intro s hP r hr
      rw [run_cons] at hr
      obtain ⟨h1, h2⟩ := hstep s call hP
      rcases List.mem_cons.mp hr with rfl | hr
      · exact h1
      · exact ih _ h2 r hr
  exact key calls (init c m0) (Or.inr (Or.inr ⟨_, init_runInvG c I m0 h0⟩))

/-- T4. a failure of the sink is never masked: if some sink call failed during the history, some call returned a
    non-nil error -/
theorem hit_surfaces (c : Cfg) (M : Matcher σ) (F : Plan) (m0 : σ) (calls : List Call)
    (h : (run c M F (init c m0) calls).1.hit = true) :
    ∃ r ∈ (run c M F (init c m0) calls).2, r.1.err ≠ none := by
  have key : ∀ (calls : List Call) (s : FSt σ), s.hit = false → (run c M F s calls).1.hit = true →
      ∃ r ∈ (run c M F s calls).2, r.1.err ≠ none := by
    intro calls
    induction calls with
    | nil => intro s h0 h1; rw [show (run c M F s []).1 = s from rfl, h0] at h1; cases h1
    | cons call rest ih =>
      intro s h0 h1
      rw [run_cons] at h1 ⊢
      cases hh : (step c M F s call).1.hit with
      | true =>
        exact ⟨_, List.mem_cons_self, step_hit c M F s call h0 hh⟩
      | false =>
        obtain ⟨r, hr, he⟩ := ih _ hh h1
        exact ⟨r, List.mem_cons_of_mem _ hr, he⟩
  exact key calls (init c m0) rfl h

/-- T5. a run during which no sink call failed is the fault-free run of Model/Writer2.lean: same writer state
    (in particular the same sink bytes), same counts, same success of every call -/
theorem run_no_hit (c : Cfg) (hc : CfgOk c) (M : Matcher σ) (I : σ → ByteArray → ByteArray → Prop) (hI : MatcherInv c M I)
    (m0 : σ) (h0 : I m0 ByteArray.empty ByteArray.empty) (F : Plan) (calls : List Call)
    (hnc : ∀ call ∈ calls.dropLast, ¬ (call matches .close))
    (hh : (run c M F (init c m0) calls).1.hit = false) :
    (run c M F (init c m0) calls).1.w = (W2.run c M (W2.init c m0) calls).1 ∧
    (run c M F (init c m0) calls).1.err = none ∧
    (run c M F (init c m0) calls).2.map (fun r => (r.1.n, r.1.err.isNone, r.2)) =
      (W2.run c M (W2.init c m0) calls).2.map (fun r => (r.1.n, r.1.err.isNone, r.2)) := by
  have hc' := cfgOk' hc
  have hI' := matcherInv' hI
  have key : ∀ (calls : List Call) (s : FSt σ) (d : ByteArray), RunInvG c I s.w d → s.err = none → s.hit = false →
      (∀ call ∈ calls.dropLast, ¬ (call matches .close)) → (run c M F s calls).1.hit = false →
      (run c M F s calls).1.w = (W2.run c M s.w calls).1 ∧ (run c M F s calls).1.err = none ∧
      (run c M F s calls).2.map (fun r => (r.1.n, r.1.err.isNone, r.2)) =
        (W2.run c M s.w calls).2.map (fun r => (r.1.n, r.1.err.isNone, r.2)) := by
    intro calls
    induction calls with
    | nil => intro s d _ he _ _ _; exact ⟨rfl, he, rfl⟩
    | cons call rest ih =>
      intro s d h he hh0 hnc hh
      rw [run_cons] at hh ⊢
      rw [W2.run_cons]
      have hh1 : (step c M F s call).1.hit = false := by
        cases hb : (step c M F s call).1.hit with
        | false => rfl
        | true => rw [run_hit_mono c M F rest _ hb] at hh; cases hh
      have hnc' : ∀ call ∈ rest.dropLast, ¬ (call matches .close) := by
        intro x hx
        apply hnc x
        cases rest with
        | nil => simp at hx
        | cons y ys => rw [List.dropLast_cons_cons]; exact List.mem_cons_of_mem _ hx
      cases call with
      | write p =>
        obtain ⟨_, h2⟩ := step_write_F c hc' M I hI' F s d p h he
        rcases h2 with ⟨a1, a2, a3, a4, a5⟩ | ⟨_, _, a3⟩
        · obtain ⟨i1, i2, i3⟩ := ih _ _ a2 a4 hh1 hnc' hh
          rw [a5]
          dsimp only
          refine ⟨i1, i2, ?_⟩
          simp only [List.map_cons, i3, a1, Option.isNone_none]
        · rw [a3] at hh1; cases hh1
      | flush =>
        obtain ⟨_, h2⟩ := step_flush_F c hc' M I hI' F s d h he
        rcases h2 with ⟨a1, a2, a3, a4, a5, a6⟩ | ⟨_, _, a3⟩
        · obtain ⟨i1, i2, i3⟩ := ih _ _ a2 a4 hh1 hnc' hh
          rw [a5]
          dsimp only
          refine ⟨i1, i2, ?_⟩
          simp only [List.map_cons, i3, a1, a6, Option.isNone_none]
        · rw [a3] at hh1; cases hh1
      | close =>
        have hrest : rest = [] := by
          cases rest with
          | nil => rfl
          | cons y ys =>
            exact absurd rfl (hnc .close (by rw [List.dropLast_cons_cons]; exact List.mem_cons_self))
        subst hrest
        obtain ⟨_, h2⟩ := step_close_F c hc' M I hI' F s d h he
        rcases h2 with ⟨a1, a2, a3, a4, a5, a6⟩ | ⟨_, _, a3⟩ | ⟨_, a3, _⟩
        · rw [a5]
          refine ⟨rfl, a4, ?_⟩
          show [((step c M F s .close).2.n, (step c M F s .close).2.err.isNone, _)] = _
          rw [a1, a6]
          rfl
        · rw [a3] at hh1; cases hh1
        · rw [a3] at hh1; cases hh1
  exact key calls (init c m0) _ (init_runInvG c I m0 h0) rfl rfl hnc hh

/-- T6. success is reported only when the sink accepted the complete valid stream: if every call of a history ending
    with Close returned nil, then — whatever the fault plan — the sink decodes (strict rules and Go rules) to exactly
    the data written, followed by a clean end -/
theorem all_nil_means_valid_stream (strict : Bool) (c : Cfg) (hc : CfgOk c) (M : Matcher σ)
    (I : σ → ByteArray → ByteArray → Prop) (hI : MatcherInv c M I) (m0 : σ) (h0 : I m0 ByteArray.empty ByteArray.empty)
    (F : Plan) (calls : List Call) (hnc : ∀ call ∈ calls, ¬ (call matches .close))
    (hok : allOk (run c M F (init c m0) (calls ++ [.close])).2) :
    let s := (run c M F (init c m0) (calls ++ [.close])).1
    ∃ r, decode strict c.dictCap s.w.out 0 ByteArray.empty = (r, .eof) ∧
      r.h.out = payload calls ∧ r.pos = s.w.out.size ∧ r.seq = .ended := by
  intro s
  have hh : (run c M F (init c m0) (calls ++ [.close])).1.hit = false := by
    cases hb : (run c M F (init c m0) (calls ++ [.close])).1.hit with
    | false => rfl
    | true =>
      obtain ⟨r, hr, he⟩ := hit_surfaces c M F m0 _ hb
      exact absurd (hok r hr) he
  have hnc' : ∀ call ∈ (calls ++ [Call.close]).dropLast, ¬ (call matches .close) := by
    rw [List.dropLast_concat]; exact hnc
  obtain ⟨h1, _, _⟩ := run_no_hit c hc M I hI m0 h0 F _ hnc' hh
  have hok2 := W2.no_error_of_margin_I hmargin c hc M I hI m0 h0 calls hnc .close
  have := W2.close_decodes_I strict c hc M I hI m0 h0 calls hnc hok2
  show ∃ r, decode strict c.dictCap (run c M F (init c m0) (calls ++ [.close])).1.w.out 0 ByteArray.empty = (r, .eof) ∧
      r.h.out = payload calls ∧ r.pos = (run c M F (init c m0) (calls ++ [.close])).1.w.out.size ∧ r.seq = .ended
  rw [h1]
  exact this

#print axioms W2F.step_hit
#print axioms W2F.step_sticky
#print axioms W2F.no_panic
#print axioms W2F.hit_surfaces
#print axioms W2F.run_no_hit
#print axioms W2F.all_nil_means_valid_stream

end W2F
