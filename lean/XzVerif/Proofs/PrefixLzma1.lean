import XzVerif.Proofs.Lzma1RoundTrip
import XzVerif.Proofs.Stability
import XzVerif.Proofs.PrefixLzma2

/-! The classic .lzma reader on a proper prefix of an input: if the reader ended cleanly on the prefix, it would end
    cleanly on the whole input too, *without having consumed all of it* (extension stability). -/

set_option linter.unusedSimpArgs false
set_option linter.unusedVariables false

namespace Lzma1
open Lzma Rc Lzma2

theorem read_eof_facts (cfgCap : Nat) (P : ByteArray) (h : (read cfgCap P).status = .eof) :
    13 ≤ P.size ∧ ∃ p rd, propsOfByte (Lzma2.get P 0) = some p ∧
      ¬(le P 5 8 ≠ 2 ^ 64 - 1 ∧ le P 5 8 ≥ 2 ^ 63) ∧ Dec.init (bytesToList P 13 P.size) = some rd := by
  unfold read at h
  by_cases hs : P.size < 13
  · rw [if_pos hs] at h
    dsimp only at h
    split at h <;> simp at h
  rw [if_neg hs] at h
  refine ⟨by omega, ?_⟩
  cases hp : propsOfByte (Lzma2.get P 0) with
  | none => simp only [hp] at h; simp at h
  | some p =>
    simp only [hp] at h
    by_cases hr : le P 5 8 ≠ 2 ^ 64 - 1 ∧ le P 5 8 ≥ 2 ^ 63
    · rw [if_pos hr] at h; simp at h
    rw [if_neg hr] at h
    cases hrd : Dec.init (bytesToList P 13 P.size) with
    | none =>
      simp only [hrd] at h
      exact absurd h (Lzma2.initStatus_ne_eof _)
    | some rd => exact ⟨p, rd, rfl, hr, rfl⟩

theorem get_append_left' (a b : ByteArray) (i : Nat) (h : i < a.size) : Lzma2.get (a ++ b) i = Lzma2.get a i :=
  Lzma2.get_append_left h

theorem bytesToList_ext (P x : ByteArray) (lo : Nat) (hlo : lo ≤ P.size) :
    bytesToList (P ++ x) lo (P ++ x).size = bytesToList P lo P.size ++ blist x := by
  rw [bytesToList_drop, bytesToList_drop, blist_append, List.drop_append_of_le_length (by rw [blist_length]; exact hlo)]

/-- **Extension stability of the classic reader.** -/
theorem read_ext (cfgCap : Nat) (P x : ByteArray) (hx : 0 < x.size) (h : (read cfgCap P).status = .eof) :
    (read cfgCap (P ++ x)).status = .eof ∧ (read cfgCap (P ++ x)).consumed < (P ++ x).size := by
  obtain ⟨hsz, p, rd, hp, hr, hrd⟩ := read_eof_facts cfgCap P h
  have hg : ∀ i, i < 13 → Lzma2.get (P ++ x) i = Lzma2.get P i := fun i hi => get_append_left' P x i (by omega)
  have hle4 : le (P ++ x) 1 4 = le P 1 4 := by
    rw [le4, le4, hg _ (by omega), hg _ (by omega), hg _ (by omega), hg _ (by omega)]
  have hle8 : le (P ++ x) 5 8 = le P 5 8 := by
    rw [le8, le8, hg _ (by omega), hg _ (by omega), hg _ (by omega), hg _ (by omega), hg _ (by omega), hg _ (by omega),
      hg _ (by omega), hg _ (by omega)]
  have hszx : (P ++ x).size = P.size + x.size := ByteArray.size_append
  have hrdx : Dec.init (bytesToList (P ++ x) 13 (P ++ x).size) = some (rd.ext (blist x)) := by
    rw [bytesToList_ext P x 13 hsz]
    exact Dec.init_ext _ _ _ hrd
  have e1 := read_eq cfgCap P p rd hsz hp hr hrd
  have e2 := read_eq cfgCap (P ++ x) p (rd.ext (blist x)) (by omega) (by rw [hg 0 (by omega)]; exact hp)
    (by rw [hle8]; exact hr) hrdx
  rw [hle4, hle8] at e2
  rw [e1] at h
  rw [e2]
  dsimp only at h ⊢
  generalize hsize : (if le P 5 8 = 2 ^ 64 - 1 then none else some (le P 5 8) : Option Nat) = size at h ⊢
  generalize hhh : ({ out := ByteArray.empty, dictStart := 0, cap := max cfgCap (max (le P 1 4) minDictCap) } : Hist) = hh at h ⊢
  generalize hd0 : ({ s := {}, tbl := initTable p.lc p.lp, rd := rd, h := hh } : DecSt) = d0 at h
  have hd0x : ({ s := {}, tbl := initTable p.lc p.lp, rd := rd.ext (blist x), h := hh } : DecSt) =
      d0.ext (blist x) := by rw [← hd0]; rfl
  rw [hd0x]
  change (decSegment p size 0 false (fuelOf size P.size) d0).status = .eof at h
  show (decSegment p size 0 false (fuelOf size (P ++ x).size) (d0.ext (blist x))).status = .eof ∧
    (P ++ x).size - (decSegment p size 0 false (fuelOf size (P ++ x).size) (d0.ext (blist x))).d.rd.inp.length <
      (P ++ x).size
  generalize hf1 : fuelOf size P.size = f1 at h
  generalize hf2 : fuelOf size (P ++ x).size = f2
  have hf : f1 ≤ f2 := by
    rw [← hf1, ← hf2]
    unfold fuelOf
    cases size with
    | none => simp only; rw [hszx]; omega
    | some n => exact Nat.le_refl _
  rcases decSegment_lock p size 0 false (blist x) f1 d0 with hl | ⟨hst, _⟩
  · have hst : (decSegment p size 0 false f1 (d0.ext (blist x))).status = .eof := by rw [hl]; exact h
    rw [decSegment_fuel_mono p size 0 false f1 _ hst f2 hf, hl]
    refine ⟨h, ?_⟩
    show (P ++ x).size - ((decSegment p size 0 false f1 d0).d.rd.inp ++ blist x).length < _
    rw [List.length_append, Lzma1.blist_length]
    omega
  · rw [hst] at h
    simp at h

/-- no proper prefix of an input on which the reader ends cleanly having consumed everything is accepted -/
theorem read_prefix_rejected (cfgCap : Nat) (S : ByteArray) (hS : (read cfgCap S).consumed = S.size) (k : Nat)
    (hk : k < S.size) : (read cfgCap (S.extract 0 k)).status ≠ .eof := by
  intro h
  have hsp := Lzma2.extract_split S k (by omega)
  have hrs : 0 < (S.extract k S.size).size := by rw [ByteArray.size_extract]; omega
  have := (read_ext cfgCap (S.extract 0 k) (S.extract k S.size) hrs h).2
  rw [← hsp, hS] at this
  omega

end Lzma1
