import XzVerif.Gen.GoSrc
import XzVerif.Codec.LzmaDec
import XzVerif.Proofs.GoSrcTreeEnc
import XzVerif.Proofs.GoSrcTreeDec
/-
  Proofs.GoSrcLit — the REGENERATED translation of lzma/literalcodec.go (`literalCodec.Encode` / `Decode`: the 0x300
  probabilities of the literal state as a VIEW `c.probs[k : k+0x300]` into one slice, the matched-literal loop with its
  two exits, the plain loop; Go's slice-bounds and index checks) refines `litMatchedEnc` / `litPlainEnc` resp.
  `litMatchedDec` / `litPlainDec` of Codec/Lzma.lean over the flat table at `aLit + 0x300 · litState`.
  Statements are fixed; only proofs may change.
-/
namespace GoSrcP
open GoSrc Rc Lzma

/-- the Go literal codec's slice is the block `[aLit, aLit + n)` of the model's flat table -/
structure LitRel (c : T_literalCodec) (tbl : Tbl) (n : Nat) : Prop where
  size : c.probs.size = n
  inb : aLit + n ≤ tbl.size
  val : ∀ i, i < n → (c.probs.getD i 0#16).toNat = tbl.get (aLit + i)

def litPath (state : Nat) (litState : Nat) (matchByte s : Nat) : Path :=
  if state ≥ 7 then litMatchedEnc (aLit + 0x300 * litState) 8 1 matchByte s
  else litPlainEnc (aLit + 0x300 * litState) 8 1 s

def litTree (state : Nat) (litState : Nat) (matchByte : Nat) : DecTree Nat :=
  if state ≥ 7 then litMatchedDec (aLit + 0x300 * litState) 8 1 matchByte
  else litPlainDec (aLit + 0x300 * litState) 8 1


/-! ### helper facts -/

theorem LitRel.toTree {c : T_literalCodec} {tbl : Tbl} {n : Nat} (lr : LitRel c tbl n) :
    TreeRel c.probs tbl aLit n := ⟨lr.size, lr.inb, lr.val⟩

theorem LitRel.ofTree {probs : Array (BitVec 16)} {tbl : Tbl} {n : Nat} (tr : TreeRel probs tbl aLit n) :
    LitRel ⟨probs⟩ tbl n := ⟨tr.size, tr.inb, tr.val⟩

/-- bit `7` of `s · 2^k` is bit `7 - k` of `s` -/
theorem shifted_bit (s k : Nat) (hk : k ≤ 7) : s * 2 ^ k / 2 ^ 7 % 2 = s / 2 ^ (7 - k) % 2 := by
  have h : (2:Nat) ^ 7 = 2 ^ (7 - k) * 2 ^ k := by rw [← Nat.pow_add]; congr 1; omega
  rw [h, Nat.mul_div_mul_right _ _ (Nat.pow_pos (by decide))]

theorem shl1_toNat (r : BitVec 32) (s k : Nat) (hs : s < 256) (hk : k ≤ 7) (hr : r.toNat = s * 2 ^ k) :
    (BitVec.shiftLeft r 1).toNat = s * 2 ^ (k + 1) := by
  have h1 : (2:Nat) ^ k ≤ 2 ^ 7 := Nat.pow_le_pow_right (by decide) hk
  have h2 : s * 2 ^ k ≤ 255 * 2 ^ 7 := Nat.mul_le_mul (by omega) h1
  have h3 : s * 2 ^ (k + 1) = s * 2 ^ k * 2 := by rw [Nat.pow_succ, Nat.mul_assoc]
  rw [h3, ← hr] at *
  simp only [BitVec.shiftLeft_eq, BitVec.toNat_shiftLeft, Nat.shiftLeft_eq]
  omega

/-- the index `(1 + matchBit) << 8 | symbol` of the matched loop -/
theorem match_index (mb sym : BitVec 32) (hmb : mb.toNat ≤ 1) (hsym : sym.toNat < 256) :
    ((BitVec.shiftLeft ((1#32) + mb) 8) ||| sym).toNat = (1 + mb.toNat) * 256 + sym.toNat := by
  simp only [BitVec.shiftLeft_eq, BitVec.toNat_or, BitVec.toNat_shiftLeft, BitVec.toNat_add, BitVec.toNat_ofNat]
  have h1 : (1 % 2 ^ 32 + mb.toNat) % 2 ^ 32 = 1 + mb.toNat := by omega
  rw [h1]
  have h2 : (1 + mb.toNat) <<< 8 % 2 ^ 32 = (1 + mb.toNat) <<< 8 := by
    rw [Nat.shiftLeft_eq]; omega
  rw [h2, ← Nat.shiftLeft_add_eq_or_of_lt (by omega : sym.toNat < 2 ^ 8), Nat.shiftLeft_eq]

/-- one adaptive bit coded with the probability at slice index `idx` of the Go literal codec -/
theorem lit_step (fuel : Nat) (c : T_literalCodec) (g : T_rangeEncoder) (e : Enc) (L : Nat) (b : BitVec 32)
    (tbl : Tbl) (n idx : Nat)
    (rel : EncRel g e L) (rest : e.Rest) (htbl : tbl.ok) (lr : LitRel c tbl n) (hidx : idx < n)
    (hcl : e.cacheLen < 2 ^ 62) (hL : L < 2 ^ 63) (hfuel : e.cacheLen ≤ fuel) :
    if (e.step ⟨some (tbl.get (aLit + idx)), b.getLsbD 0⟩).out.length > e.out.length ∧ noRoom e L then
      ∃ p' g', prob_Encode fuel (c.probs.getD idx 0#16) g b = Go.Res.ok (Go.Err.named "ErrLimit", p', g')
    else
      ∃ p' g', prob_Encode fuel (c.probs.getD idx 0#16) g b = Go.Res.ok (Go.Err.nil, p', g')
        ∧ EncRel g' (e.step ⟨some (tbl.get (aLit + idx)), b.getLsbD 0⟩) L
        ∧ (e.step ⟨some (tbl.get (aLit + idx)), b.getLsbD 0⟩).Rest
        ∧ (e.step ⟨some (tbl.get (aLit + idx)), b.getLsbD 0⟩).cacheLen ≤ e.cacheLen + 1
        ∧ (tbl.upd (aLit + idx) (pm.next (tbl.get (aLit + idx)) (b.getLsbD 0))).ok
        ∧ LitRel { c with probs := c.probs.setIfInBounds idx p' }
            (tbl.upd (aLit + idx) (pm.next (tbl.get (aLit + idx)) (b.getLsbD 0))) n := by
  have h := tree_step fuel c.probs g e L b tbl aLit n idx rel rest htbl lr.toTree hidx hcl hL hfuel
  split
  · rename_i hc
    rw [if_pos hc] at h
    obtain ⟨g', p', hg⟩ := h
    exact ⟨p', g', by unfold prob_Encode; rw [hg]; rfl⟩
  · rename_i hc
    rw [if_neg hc] at h
    obtain ⟨g', p', hg, h1, h2, h3, h4, h5⟩ := h
    exact ⟨p', g', by unfold prob_Encode; rw [hg]; rfl, h1, h2, h3, h4, LitRel.ofTree h5⟩


theorem plainEnc_loop3 (L : Nat) (sb : BitVec 8) (state : BitVec 32) (mt : BitVec 8) (ls kk : BitVec 32)
    (sv : Nat) (hsv : sv < 256) (lo hi n : Nat) (hhi : hi = lo + 768) (hn : lo + 768 ≤ n) (hL : L < 2 ^ 63)
    (nb : Nat) :
    ∀ (fuel : Nat) (c : T_literalCodec) (g : T_rangeEncoder) (e : Enc) (tbl : Tbl) (sym r : BitVec 32) (k : Nat),
      k + nb = 8 → 2 ^ k ≤ sym.toNat → sym.toNat < 2 ^ (k + 1) → r.toNat = sv * 2 ^ k →
      EncRel g e L → e.Rest → tbl.ok → LitRel c tbl n →
      e.cacheLen + nb < 2 ^ 62 → e.cacheLen + 2 * nb + 1 ≤ fuel →
      match encPathL L tbl e (litPlainEnc (aLit + lo) nb sym.toNat sv) with
      | none => ∃ c' g', literalCodec_Encode_loop3 fuel c g sb state mt ls Go.Err.nil kk sym r lo hi
                  = Go.Res.ok (Sum.inl (Go.Err.named "ErrLimit", c', g'))
      | some (tbl', e') => ∃ c' g' sym' r', literalCodec_Encode_loop3 fuel c g sb state mt ls Go.Err.nil kk sym r lo hi
                  = Go.Res.ok (Sum.inr (c', g', sb, state, mt, ls, Go.Err.nil, kk, sym', r'))
          ∧ EncRel g' e' L ∧ e'.Rest ∧ tbl'.ok ∧ e'.cacheLen ≤ e.cacheLen + nb ∧ LitRel c' tbl' n := by
  induction nb with
  | zero =>
    intro fuel c g e tbl sym r k hk hs1 hs2 hr rel rest htbl lr hcl hf
    obtain ⟨f, rfl⟩ : ∃ f, fuel = f + 1 := ⟨fuel - 1, by omega⟩
    have hk8 : k = 8 := by omega
    subst hk8
    have hult : BitVec.ult sym (256#32) = false := by
      simp only [BitVec.ult, BitVec.toNat_ofNat, decide_eq_false_iff_not]; omega
    unfold literalCodec_Encode_loop3
    simp only [hult, Bool.false_eq_true, if_false, litPlainEnc, encPathL]
    exact ⟨_, _, _, _, rfl, rel, rest, htbl, by omega, lr⟩
  | succ nb ih =>
    intro fuel c g e tbl sym r k hk hs1 hs2 hr rel rest htbl lr hcl hf
    obtain ⟨f, rfl⟩ : ∃ f, fuel = f + 1 := ⟨fuel - 1, by omega⟩
    have hk7 : k ≤ 7 := by omega
    have hpk : (2:Nat) ^ (k + 1) ≤ 2 ^ 8 := Nat.pow_le_pow_right (by decide) (by omega)
    have hsym : sym.toNat < 256 := by omega
    have hult : BitVec.ult sym (256#32) = true := by
      simp only [BitVec.ult, BitVec.toNat_ofNat, decide_eq_true_eq]; omega
    obtain ⟨hbit, hbn⟩ := bit_facts r 7
    have hnb : 7 - k = nb := by omega
    rw [hr, shifted_bit sv k hk7, hnb] at hbit hbn
    have hstep := lit_step f c g e L ((BitVec.ushiftRight r 7) &&& 1#32) tbl n (lo + sym.toNat)
      rel rest htbl lr (by omega) (by omega) hL (by omega)
    rw [hbit, ← Nat.add_assoc] at hstep
    have hidx : ¬ hi - lo ≤ sym.toNat := by omega
    simp only [litPlainEnc, encPathL]
    by_cases hc : (e.step ⟨some (tbl.get (aLit + lo + sym.toNat)), decide (sv / 2 ^ nb % 2 = 1)⟩).out.length
        > e.out.length ∧ noRoom e L
    · rw [if_pos hc] at hstep ⊢
      obtain ⟨p', g', hg'⟩ := hstep
      simp only
      unfold literalCodec_Encode_loop3
      simp only [hult, if_true, hidx, if_false, hg', Go.Res.bind_ok, errLimit_bne]
      exact ⟨_, _, rfl⟩
    · rw [if_neg hc] at hstep ⊢
      obtain ⟨p', g', hg', rel', rest', hcl', htbl', lr'⟩ := hstep
      have hstepeq : literalCodec_Encode_loop3 (f + 1) c g sb state mt ls Go.Err.nil kk sym r lo hi
          = literalCodec_Encode_loop3 f { c with probs := c.probs.setIfInBounds (lo + sym.toNat) p' } g'
              sb state mt ls Go.Err.nil kk ((BitVec.shiftLeft sym 1) ||| ((BitVec.ushiftRight r 7) &&& 1#32))
              (BitVec.shiftLeft r 1) lo hi := by
        rw [literalCodec_Encode_loop3]
        simp only [hult, if_true, hidx, if_false, hg', Go.Res.bind_ok, bne_self_eq_false, Bool.false_eq_true]
      have hsn : ((BitVec.shiftLeft sym 1) ||| ((BitVec.ushiftRight r 7) &&& 1#32)).toNat
          = 2 * sym.toNat + bitOf (decide (sv / 2 ^ nb % 2 = 1)) := by
        rw [shl_or_toNat _ _ (by omega) (by omega), hbn]
        congr 1
        unfold bitOf
        by_cases hb : sv / 2 ^ nb % 2 = 1
        · simp only [hb, decide_true, if_true]
        · simp only [hb, decide_false, Bool.false_eq_true, if_false]; omega
      have hb1 : bitOf (decide (sv / 2 ^ nb % 2 = 1)) ≤ 1 := by unfold bitOf; split <;> omega
      have hp2 : (2:Nat) ^ (k + 1 + 1) = 2 * 2 ^ (k + 1) := by rw [Nat.pow_succ]; omega
      have hp1 : (2:Nat) ^ (k + 1) = 2 * 2 ^ k := by rw [Nat.pow_succ]; omega
      have IH := ih f { c with probs := c.probs.setIfInBounds (lo + sym.toNat) p' } g' _ _
        ((BitVec.shiftLeft sym 1) ||| ((BitVec.ushiftRight r 7) &&& 1#32)) (BitVec.shiftLeft r 1) (k + 1)
        (by omega) (by omega) (by omega) (shl1_toNat r sv k hsv hk7 hr) rel' rest' htbl' lr' (by omega) (by omega)
      rw [hsn] at IH
      rw [hstepeq]
      rcases hp : encPathL L (tbl.upd (aLit + lo + sym.toNat) (pm.next (tbl.get (aLit + lo + sym.toNat))
          (decide (sv / 2 ^ nb % 2 = 1))))
        (e.step ⟨some (tbl.get (aLit + lo + sym.toNat)), decide (sv / 2 ^ nb % 2 = 1)⟩)
        (litPlainEnc (aLit + lo) nb (2 * sym.toNat + bitOf (decide (sv / 2 ^ nb % 2 = 1))) sv) with _ | ⟨tbl2, e2⟩
      · rw [hp] at IH; exact IH
      · rw [hp] at IH
        obtain ⟨c2, g2, s2, r2, h1, h2, h3, h4, h5, h6⟩ := IH
        exact ⟨c2, g2, s2, r2, h1, h2, h3, h4, by omega, h6⟩


/-- the plain loop after the matched loop is the plain loop, carrying `m` along -/
theorem enc_loop2_eq_loop3 (sb : BitVec 8) (state : BitVec 32) (mt : BitVec 8) (ls kk m : BitVec 32) (lo hi : Nat) :
    ∀ (fuel : Nat) (c : T_literalCodec) (g : T_rangeEncoder) (err : Go.Err) (sym r : BitVec 32),
      literalCodec_Encode_loop2 fuel c g sb state mt ls err kk sym r m lo hi
        = Go.Res.bind (literalCodec_Encode_loop3 fuel c g sb state mt ls err kk sym r lo hi) (fun x =>
            match x with
            | Sum.inl y => Go.Res.ok (Sum.inl y)
            | Sum.inr (c, e, s, state, match_, litState, err, k, symbol, r) =>
              Go.Res.ok (Sum.inr (c, e, s, state, match_, litState, err, k, symbol, r, m))) := by
  intro fuel
  induction fuel with
  | zero => intro c g err sym r; rfl
  | succ f ih =>
    intro c g err sym r
    rw [literalCodec_Encode_loop2, literalCodec_Encode_loop3]
    split
    · split
      · rfl
      · dsimp only
        cases hpe : prob_Encode f (c.probs.getD (lo + sym.toNat) 0#16) g (BitVec.ushiftRight r 7 &&& 1#32) with
        | ok a =>
          obtain ⟨a1, a2, a3⟩ := a
          simp only [Go.Res.bind_ok]
          split
          · rfl
          · exact ih _ _ _ _ _
        | panic msg => rfl
        | fuel => rfl
    · rfl


/-- what `literalCodec.Encode` does with the result of the matched loop -/
def encTail (f2 lo hi : Nat) :
    Sum (Go.Err × T_literalCodec × T_rangeEncoder)
      (T_literalCodec × T_rangeEncoder × BitVec 8 × BitVec 32 × BitVec 8 × BitVec 32 × Go.Err × BitVec 32 × BitVec 32
        × BitVec 32 × BitVec 32) → Go.Res (Go.Err × T_literalCodec × T_rangeEncoder) :=
  fun lr_7 =>
    match lr_7 with
    | Sum.inl lr_7 => Go.Res.ok lr_7
    | Sum.inr (c, e, s, state, match_, litState, err, k, symbol, r, m) =>
      Go.Res.bind (GoSrc.literalCodec_Encode_loop2 f2 c e s state match_ litState err k symbol r m lo hi) (fun lr_12 =>
        match lr_12 with
        | Sum.inl lr_12 => Go.Res.ok lr_12
        | Sum.inr (c, e, _, _, _, _, _, _, _, _, _) => Go.Res.ok (Go.Err.nil, c, e))

theorem encTail_plain (L : Nat) (sb : BitVec 8) (state : BitVec 32) (mt : BitVec 8) (ls kk : BitVec 32)
    (sv : Nat) (hsv : sv < 256) (lo hi n : Nat) (hhi : hi = lo + 768) (hn : lo + 768 ≤ n) (hL : L < 2 ^ 63)
    (nb f2 : Nat) (c : T_literalCodec) (g : T_rangeEncoder) (e : Enc) (tbl : Tbl) (sym r m : BitVec 32) (k : Nat)
    (hk : k + nb = 8) (hs1 : 2 ^ k ≤ sym.toNat) (hs2 : sym.toNat < 2 ^ (k + 1)) (hr : r.toNat = sv * 2 ^ k)
    (rel : EncRel g e L) (rest : e.Rest) (htbl : tbl.ok) (lr : LitRel c tbl n)
    (hcl : e.cacheLen + nb < 2 ^ 62) (hf : e.cacheLen + 2 * nb + 1 ≤ f2) :
    match encPathL L tbl e (litPlainEnc (aLit + lo) nb sym.toNat sv) with
    | none => ∃ c' g', encTail f2 lo hi (Sum.inr (c, g, sb, state, mt, ls, Go.Err.nil, kk, sym, r, m))
                = Go.Res.ok (Go.Err.named "ErrLimit", c', g')
    | some (tbl', e') => ∃ c' g', encTail f2 lo hi (Sum.inr (c, g, sb, state, mt, ls, Go.Err.nil, kk, sym, r, m))
                = Go.Res.ok (Go.Err.nil, c', g')
        ∧ EncRel g' e' L ∧ e'.Rest ∧ tbl'.ok ∧ e'.cacheLen ≤ e.cacheLen + nb ∧ LitRel c' tbl' n := by
  have h := plainEnc_loop3 L sb state mt ls kk sv hsv lo hi n hhi hn hL nb f2 c g e tbl sym r k hk hs1 hs2 hr
    rel rest htbl lr hcl hf
  unfold encTail
  simp only [enc_loop2_eq_loop3]
  rcases hp : encPathL L tbl e (litPlainEnc (aLit + lo) nb sym.toNat sv) with _ | ⟨tbl', e'⟩
  · rw [hp] at h
    obtain ⟨c', g', hg⟩ := h
    simp only [hg, Go.Res.bind_ok]
    exact ⟨_, _, rfl⟩
  · rw [hp] at h
    obtain ⟨c', g', s', r', hg, h2, h3, h4, h5, h6⟩ := h
    simp only [hg, Go.Res.bind_ok]
    exact ⟨_, _, rfl, h2, h3, h4, h5, h6⟩

theorem bitOf_decide_mod (x : Nat) : bitOf (decide (x % 2 = 1)) = x % 2 := by
  unfold bitOf
  by_cases hb : x % 2 = 1
  · simp only [hb, decide_true, if_true]
  · simp only [hb, decide_false, Bool.false_eq_true, if_false]; omega

theorem bne_toNat (a b : BitVec 32) (x y : Nat) (ha : a.toNat = x) (hb : b.toNat = y) :
    (a != b) = !decide (y = x) := by
  subst ha hb
  by_cases h : a = b
  · subst h; simp only [bne_self_eq_false, decide_true, Bool.not_true]
  · have h2 : ¬ b.toNat = a.toNat := fun hh => h (BitVec.eq_of_toNat_eq hh.symm)
    simp only [bne_iff_ne, ne_eq, h, not_false_eq_true, h2, decide_false, Bool.not_false]

theorem matchedEnc_loop (L : Nat) (sb : BitVec 8) (state : BitVec 32) (mt : BitVec 8) (ls kk : BitVec 32)
    (sv mv : Nat) (hsv : sv < 256) (hmv : mv < 256) (lo hi n : Nat) (hhi : hi = lo + 768) (hn : lo + 768 ≤ n)
    (hL : L < 2 ^ 63) (nb : Nat) :
    ∀ (f1 f2 : Nat) (c : T_literalCodec) (g : T_rangeEncoder) (e : Enc) (tbl : Tbl) (sym r m : BitVec 32) (k : Nat),
      k + (nb + 1) = 8 → 2 ^ k ≤ sym.toNat → sym.toNat < 2 ^ (k + 1) → r.toNat = sv * 2 ^ k → m.toNat = mv * 2 ^ k →
      EncRel g e L → e.Rest → tbl.ok → LitRel c tbl n →
      e.cacheLen + (nb + 1) < 2 ^ 62 → e.cacheLen + 2 * (nb + 1) + 1 ≤ f1 → e.cacheLen + 2 * (nb + 1) + 1 ≤ f2 →
      match encPathL L tbl e (litMatchedEnc (aLit + lo) (nb + 1) sym.toNat mv sv) with
      | none => ∃ c' g', Go.Res.bind (literalCodec_Encode_loop1 f1 c g sb state mt ls Go.Err.nil kk sym r m lo hi)
                  (encTail f2 lo hi) = Go.Res.ok (Go.Err.named "ErrLimit", c', g')
      | some (tbl', e') => ∃ c' g', Go.Res.bind (literalCodec_Encode_loop1 f1 c g sb state mt ls Go.Err.nil kk sym r m lo hi)
                  (encTail f2 lo hi) = Go.Res.ok (Go.Err.nil, c', g')
          ∧ EncRel g' e' L ∧ e'.Rest ∧ tbl'.ok ∧ e'.cacheLen ≤ e.cacheLen + (nb + 1) ∧ LitRel c' tbl' n := by
  induction nb using Nat.strongRecOn with
  | ind nb ih =>
    intro f1 f2 c g e tbl sym r m k hk hs1 hs2 hr hm rel rest htbl lr hcl hf1 hf2
    obtain ⟨f, rfl⟩ : ∃ f, f1 = f + 1 := ⟨f1 - 1, by omega⟩
    have hk7 : k ≤ 7 := by omega
    have hpk : (2:Nat) ^ (k + 1) ≤ 2 ^ 8 := Nat.pow_le_pow_right (by decide) (by omega)
    have hsym : sym.toNat < 256 := by omega
    obtain ⟨hbit, hbn⟩ := bit_facts r 7
    obtain ⟨-, hmn⟩ := bit_facts m 7
    have hnb : 7 - k = nb := by omega
    rw [hr, shifted_bit sv k hk7, hnb] at hbit hbn
    rw [hm, shifted_bit mv k hk7, hnb] at hmn
    have hmb1 : mv / 2 ^ nb % 2 ≤ 1 := by omega
    have hidxv := match_index ((BitVec.ushiftRight m 7) &&& 1#32) sym (by omega) hsym
    rw [hmn] at hidxv
    have hstep := lit_step f c g e L ((BitVec.ushiftRight r 7) &&& 1#32) tbl n
      (lo + ((1 + mv / 2 ^ nb % 2) * 256 + sym.toNat))
      rel rest htbl lr (by omega) (by omega) hL (by omega)
    have hA : aLit + (lo + ((1 + mv / 2 ^ nb % 2) * 256 + sym.toNat))
        = aLit + lo + (1 + mv / 2 ^ nb % 2) * 256 + sym.toNat := by omega
    rw [hbit, hA] at hstep
    have hidx : ¬ hi - lo ≤ (1 + mv / 2 ^ nb % 2) * 256 + sym.toNat := by omega
    simp only [litMatchedEnc, encPathL]
    by_cases hc : (e.step ⟨some (tbl.get (aLit + lo + (1 + mv / 2 ^ nb % 2) * 256 + sym.toNat)),
        decide (sv / 2 ^ nb % 2 = 1)⟩).out.length > e.out.length ∧ noRoom e L
    · rw [if_pos hc] at hstep ⊢
      obtain ⟨p', g', hg'⟩ := hstep
      simp only
      unfold literalCodec_Encode_loop1
      simp only [hidxv, hidx, if_false, hg', Go.Res.bind_ok, errLimit_bne, if_true, encTail]
      exact ⟨_, _, rfl⟩
    · rw [if_neg hc] at hstep ⊢
      obtain ⟨p', g', hg', rel', rest', hcl', htbl', lr'⟩ := hstep
      have hsn : ((BitVec.shiftLeft sym 1) ||| ((BitVec.ushiftRight r 7) &&& 1#32)).toNat
          = 2 * sym.toNat + bitOf (decide (sv / 2 ^ nb % 2 = 1)) := by
        rw [shl_or_toNat _ _ (by omega) (by omega), hbn, bitOf_decide_mod]
      have hb1 : bitOf (decide (sv / 2 ^ nb % 2 = 1)) ≤ 1 := by unfold bitOf; split <;> omega
      have hp2 : (2:Nat) ^ (k + 1 + 1) = 2 * 2 ^ (k + 1) := by rw [Nat.pow_succ]; omega
      have hp1 : (2:Nat) ^ (k + 1) = 2 * 2 ^ k := by rw [Nat.pow_succ]; omega
      have hr' := shl1_toNat r sv k hsv hk7 hr
      have hm' := shl1_toNat m mv k hmv hk7 hm
      have hne : (((BitVec.ushiftRight m 7) &&& 1#32) != ((BitVec.ushiftRight r 7) &&& 1#32))
          = !decide (bitOf (decide (sv / 2 ^ nb % 2 = 1)) = mv / 2 ^ nb % 2) :=
        bne_toNat _ _ _ _ hmn (by rw [hbn, bitOf_decide_mod])
      have hule : BitVec.ule (256#32) ((BitVec.shiftLeft sym 1) ||| ((BitVec.ushiftRight r 7) &&& 1#32))
          = decide (nb = 0) := by
        simp only [BitVec.ule, hsn, BitVec.toNat_ofNat]
        by_cases h0 : nb = 0
        · have : k = 7 := by omega
          subst this
          simp only [h0, decide_true, decide_eq_true_eq]; omega
        · have : (2:Nat) ^ (k + 1 + 1) ≤ 2 ^ 8 := Nat.pow_le_pow_right (by decide) (by omega)
          simp only [h0, decide_false, decide_eq_false_iff_not]; omega
      by_cases hmm : bitOf (decide (sv / 2 ^ nb % 2 = 1)) = mv / 2 ^ nb % 2
      · rw [if_pos hmm]
        cases nb with
        | zero =>
          have hT := encTail_plain L sb state mt ls kk sv hsv lo hi n hhi hn hL 0 f2
            { c with probs := c.probs.setIfInBounds (lo + ((1 + mv / 2 ^ 0 % 2) * 256 + sym.toNat)) p' } g' _ _
            ((BitVec.shiftLeft sym 1) ||| ((BitVec.ushiftRight r 7) &&& 1#32)) (BitVec.shiftLeft r 1)
            (BitVec.shiftLeft m 1) (k + 1)
            (by omega) (by omega) (by omega) hr' rel' rest' htbl' lr' (by omega) (by omega)
          have hloop : literalCodec_Encode_loop1 (f + 1) c g sb state mt ls Go.Err.nil kk sym r m lo hi
              = Go.Res.ok (Sum.inr ({ c with probs := c.probs.setIfInBounds (lo + ((1 + mv / 2 ^ 0 % 2) * 256 + sym.toNat)) p' },
                  g', sb, state, mt, ls, Go.Err.nil, kk,
                  ((BitVec.shiftLeft sym 1) ||| ((BitVec.ushiftRight r 7) &&& 1#32)), (BitVec.shiftLeft r 1),
                  (BitVec.shiftLeft m 1))) := by
            rw [literalCodec_Encode_loop1]
            simp only [hidxv, hidx, if_false, hg', Go.Res.bind_ok, bne_self_eq_false, Bool.false_eq_true, hne, hmm,
              decide_true, Bool.not_true, hule, if_true]
          rw [hloop, Go.Res.bind_ok]
          simp only [litMatchedEnc, litPlainEnc] at hT ⊢
          generalize encPathL L _ _ _ = X at hT ⊢
          cases X with
          | none => exact hT
          | some x =>
            obtain ⟨tbl2, e2⟩ := x
            obtain ⟨c2, g2, h1, h2, h3, h4, h5, h6⟩ := hT
            exact ⟨c2, g2, h1, h2, h3, h4, by omega, h6⟩
        | succ nb' =>
          have hstepeq : literalCodec_Encode_loop1 (f + 1) c g sb state mt ls Go.Err.nil kk sym r m lo hi
              = literalCodec_Encode_loop1 f
                  { c with probs := c.probs.setIfInBounds (lo + ((1 + mv / 2 ^ (nb' + 1) % 2) * 256 + sym.toNat)) p' }
                  g' sb state mt ls Go.Err.nil kk
                  ((BitVec.shiftLeft sym 1) ||| ((BitVec.ushiftRight r 7) &&& 1#32)) (BitVec.shiftLeft r 1)
                  (BitVec.shiftLeft m 1) lo hi := by
            rw [literalCodec_Encode_loop1]
            simp only [hidxv, hidx, if_false, hg', Go.Res.bind_ok, bne_self_eq_false, Bool.false_eq_true, hne, hmm,
              decide_true, Bool.not_true, hule, Nat.succ_ne_zero, decide_false]
          have IH := ih nb' (by omega) f f2
            { c with probs := c.probs.setIfInBounds (lo + ((1 + mv / 2 ^ (nb' + 1) % 2) * 256 + sym.toNat)) p' } g' _ _
            ((BitVec.shiftLeft sym 1) ||| ((BitVec.ushiftRight r 7) &&& 1#32)) (BitVec.shiftLeft r 1)
            (BitVec.shiftLeft m 1) (k + 1)
            (by omega) (by omega) (by omega) hr' hm' rel' rest' htbl' lr' (by omega) (by omega) (by omega)
          rw [hsn] at IH
          rw [hstepeq]
          generalize encPathL L _ _ _ = X at IH ⊢
          cases X with
          | none => exact IH
          | some x =>
            obtain ⟨tbl2, e2⟩ := x
            obtain ⟨c2, g2, h1, h2, h3, h4, h5, h6⟩ := IH
            exact ⟨c2, g2, h1, h2, h3, h4, by omega, h6⟩
      · rw [if_neg hmm]
        have hT := encTail_plain L sb state mt ls kk sv hsv lo hi n hhi hn hL nb f2
          { c with probs := c.probs.setIfInBounds (lo + ((1 + mv / 2 ^ nb % 2) * 256 + sym.toNat)) p' } g' _ _
          ((BitVec.shiftLeft sym 1) ||| ((BitVec.ushiftRight r 7) &&& 1#32)) (BitVec.shiftLeft r 1)
          (BitVec.shiftLeft m 1) (k + 1)
          (by omega) (by omega) (by omega) hr' rel' rest' htbl' lr' (by omega) (by omega)
        have hloop : literalCodec_Encode_loop1 (f + 1) c g sb state mt ls Go.Err.nil kk sym r m lo hi
            = Go.Res.ok (Sum.inr ({ c with probs := c.probs.setIfInBounds (lo + ((1 + mv / 2 ^ nb % 2) * 256 + sym.toNat)) p' },
                g', sb, state, mt, ls, Go.Err.nil, kk,
                ((BitVec.shiftLeft sym 1) ||| ((BitVec.ushiftRight r 7) &&& 1#32)), (BitVec.shiftLeft r 1),
                (BitVec.shiftLeft m 1))) := by
          rw [literalCodec_Encode_loop1]
          simp only [hidxv, hidx, if_false, hg', Go.Res.bind_ok, bne_self_eq_false, Bool.false_eq_true, hne, hmm,
            decide_false, Bool.not_false, if_true]
        rw [hloop, Go.Res.bind_ok]
        rw [hsn] at hT
        generalize encPathL L _ _ _ = X at hT ⊢
        cases X with
        | none => exact hT
        | some x =>
          obtain ⟨tbl2, e2⟩ := x
          obtain ⟨c2, g2, h1, h2, h3, h4, h5, h6⟩ := hT
          exact ⟨c2, g2, h1, h2, h3, h4, by omega, h6⟩

theorem literalCodec_Encode_refines (fuel : Nat) (c : T_literalCodec) (g : T_rangeEncoder) (e : Enc) (Lim : Nat)
    (s : BitVec 8) (state : BitVec 32) (mtch : BitVec 8) (litState : BitVec 32) (tbl : Tbl) (n : Nat)
    (rel : EncRel g e Lim) (rest : e.Rest) (htbl : tbl.ok) (lr : LitRel c tbl n)
    (hls : 0x300 * (litState.toNat + 1) ≤ n) (hn : n ≤ 0x300 * 2 ^ 12)
    (hcl : e.cacheLen + 100 < 2 ^ 62) (hL : Lim < 2 ^ 63) (hfuel : e.cacheLen + 100 ≤ fuel) :
    match encPathL Lim tbl e (litPath state.toNat litState.toNat mtch.toNat s.toNat) with
    | none => ∃ c' g', literalCodec_Encode fuel c g s state mtch litState = Go.Res.ok (Go.Err.named "ErrLimit", c', g')
    | some (tbl', e') =>
      ∃ c' g', literalCodec_Encode fuel c g s state mtch litState = Go.Res.ok (Go.Err.nil, c', g')
        ∧ EncRel g' e' Lim ∧ e'.Rest ∧ tbl'.ok ∧ e'.cacheLen ≤ e.cacheLen + 8 ∧ LitRel c' tbl' n := by
  have hlo : (litState * 768#32).toNat = 0x300 * litState.toNat := by
    simp only [BitVec.toNat_mul, BitVec.toNat_ofNat]; omega
  have hhi : (litState * 768#32 + 768#32).toNat = 0x300 * litState.toNat + 768 := by
    simp only [BitVec.toNat_add, hlo, BitVec.toNat_ofNat]; omega
  have hdef : literalCodec_Encode fuel c g s state mtch litState =
      if (litState * 768#32 + 768#32).toNat < (litState * 768#32).toNat
          ∨ c.probs.size < (litState * 768#32 + 768#32).toNat then Go.Res.panic "slice bounds out of range" else
      if (BitVec.ule (7#32) state) then
        Go.Res.bind (literalCodec_Encode_loop1 fuel c g s state mtch litState Go.Err.nil (litState * 768#32) (1#32)
          (BitVec.setWidth 32 s) (BitVec.setWidth 32 mtch) (litState * 768#32).toNat (litState * 768#32 + 768#32).toNat)
          (encTail fuel (litState * 768#32).toNat (litState * 768#32 + 768#32).toNat)
      else
        Go.Res.bind (literalCodec_Encode_loop3 fuel c g s state mtch litState Go.Err.nil (litState * 768#32) (1#32)
          (BitVec.setWidth 32 s) (litState * 768#32).toNat (litState * 768#32 + 768#32).toNat) (fun lr_17 =>
            match lr_17 with
            | Sum.inl lr_17 => Go.Res.ok lr_17
            | Sum.inr (c, e, _, _, _, _, _, _, _, _) => Go.Res.ok (Go.Err.nil, c, e)) := rfl
  rw [hdef, hhi, hlo, if_neg (by rw [lr.size]; omega)]
  have hs : s.toNat < 256 := s.isLt
  have hm : mtch.toNat < 256 := mtch.isLt
  have hr : (BitVec.setWidth 32 s).toNat = s.toNat * 2 ^ 0 := by
    simp only [BitVec.toNat_setWidth]; omega
  have hmr : (BitVec.setWidth 32 mtch).toNat = mtch.toNat * 2 ^ 0 := by
    simp only [BitVec.toNat_setWidth]; omega
  have h1 : (1#32).toNat = 1 := rfl
  unfold litPath
  by_cases hst : state.toNat ≥ 7
  · have hule : BitVec.ule (7#32) state = true := by
      simp only [BitVec.ule, BitVec.toNat_ofNat, decide_eq_true_eq]; omega
    rw [if_pos hst, if_pos hule]
    have h := matchedEnc_loop Lim s state mtch litState (litState * 768#32) s.toNat mtch.toNat hs hm
      (0x300 * litState.toNat) (0x300 * litState.toNat + 768) n rfl (by omega) hL 7 fuel fuel c g e tbl
      (1#32) (BitVec.setWidth 32 s) (BitVec.setWidth 32 mtch) 0 (by omega) (by decide) (by decide) hr hmr
      rel rest htbl lr (by omega) (by omega) (by omega)
    rw [h1] at h
    exact h
  · have hule : BitVec.ule (7#32) state = false := by
      simp only [BitVec.ule, BitVec.toNat_ofNat, decide_eq_false_iff_not]; omega
    rw [if_neg hst, hule, if_neg (by decide)]
    have h := plainEnc_loop3 Lim s state mtch litState (litState * 768#32) s.toNat hs
      (0x300 * litState.toNat) (0x300 * litState.toNat + 768) n rfl (by omega) hL 8 fuel c g e tbl
      (1#32) (BitVec.setWidth 32 s) 0 (by omega) (by decide) (by decide) hr
      rel rest htbl lr (by omega) (by omega)
    rw [h1] at h
    rcases hp : encPathL Lim tbl e (litPlainEnc (aLit + 0x300 * litState.toNat) 8 1 s.toNat) with _ | ⟨tbl', e'⟩
    · rw [hp] at h
      obtain ⟨c', g', hg⟩ := h
      simp only [hg, Go.Res.bind_ok]
      exact ⟨_, _, rfl⟩
    · rw [hp] at h
      obtain ⟨c', g', s', r', hg, h2, h3, h4, h5, h6⟩ := h
      simp only [hg, Go.Res.bind_ok]
      exact ⟨_, _, rfl, h2, h3, h4, h5, h6⟩


/-! ### decoder -/

/-- one adaptive bit decoded with the probability at slice index `idx` of the Go literal codec -/
theorem lit_dstep (c : T_literalCodec) (g : T_rangeDecoder) (d : Rc.Dec) (tbl : Tbl) (n idx : Nat)
    (rel : DecRel g d) (inv : DecInv d) (htbl : tbl.ok) (lr : LitRel c tbl n) (hidx : idx < n) :
    match d.step (some (tbl.get (aLit + idx))) with
    | none => ∃ b g' p', rangeDecoder_DecodeBit g (c.probs.getD idx 0#16) = (b, Go.Err.named "io.EOF", g', p')
    | some (bit, d') => ∃ g' p', rangeDecoder_DecodeBit g (c.probs.getD idx 0#16)
          = (BitVec.ofNat 32 (bitOf bit), Go.Err.nil, g', p')
        ∧ DecRel g' d' ∧ DecInv d'
        ∧ (tbl.upd (aLit + idx) (pm.next (tbl.get (aLit + idx)) bit)).ok
        ∧ LitRel { c with probs := c.probs.setIfInBounds idx p' }
            (tbl.upd (aLit + idx) (pm.next (tbl.get (aLit + idx)) bit)) n := by
  have hpv := lr.val idx hidx
  have key := DecodeBit_refines g d (c.probs.getD idx 0#16) rel inv (by rw [hpv]; exact htbl _)
  rw [hpv] at key
  cases hs : d.step (some (tbl.get (aLit + idx))) with
  | none =>
    rw [hs] at key
    exact key
  | some bd =>
    obtain ⟨bit, d1⟩ := bd
    rw [hs] at key
    obtain ⟨g', hg, rel', inv'⟩ := key
    have hpok : POk (probNext (tbl.get (aLit + idx)) bit) := pm.ok _ _ (htbl _)
    refine ⟨g', _, hg, rel', inv', Tbl.upd_ok _ htbl _ _ hpok, ?_⟩
    exact LitRel.ofTree (lr.toTree.upd idx hidx _ _ (by
      simp only [BitVec.toNat_ofNat]
      obtain ⟨_, h2⟩ := hpok
      show _ % 2 ^ 16 = probNext _ _
      omega))

theorem eof_bne : (Go.Err.named "io.EOF" != Go.Err.nil) = true := by decide

theorem plainDec_loop3 (state : BitVec 32) (mt : BitVec 8) (ls : BitVec 32) (sb : BitVec 8) (err : Go.Err)
    (kk : BitVec 32) (lo hi n : Nat) (hhi : hi = lo + 768) (hn : lo + 768 ≤ n) :
    ∀ (nb fuel : Nat) (c : T_literalCodec) (g : T_rangeDecoder) (d : Rc.Dec) (tbl : Tbl) (sym : BitVec 32) (k : Nat),
      DecRel g d → DecInv d → tbl.ok → LitRel c tbl n →
      k + nb = 8 → 2 ^ k ≤ sym.toNat → sym.toNat < 2 ^ (k + 1) → nb < fuel →
      match decTree pm (litPlainDec (aLit + lo) nb sym.toNat) tbl d with
      | none => ∃ c' g', literalCodec_Decode_loop3 fuel c g state mt ls sb err kk sym lo hi
          = Go.Res.ok (Sum.inl (0#8, Go.Err.named "io.EOF", c', g'))
      | some (v, tbl', d') => ∃ c' g' sym', literalCodec_Decode_loop3 fuel c g state mt ls sb err kk sym lo hi
          = Go.Res.ok (Sum.inr (c', g', state, mt, ls, sb, err, kk, sym'))
          ∧ sym'.toNat = v + 256 ∧ v < 256 ∧ DecRel g' d' ∧ DecInv d' ∧ tbl'.ok ∧ LitRel c' tbl' n := by
  intro nb
  induction nb with
  | zero =>
    intro fuel c g d tbl sym k rel inv htbl lr hk hs1 hs2 hf
    obtain ⟨f, rfl⟩ : ∃ f, fuel = f + 1 := ⟨fuel - 1, by omega⟩
    have hk8 : k = 8 := by omega
    subst hk8
    have hult : BitVec.ult sym (256#32) = false := by
      simp only [BitVec.ult, BitVec.toNat_ofNat, decide_eq_false_iff_not]; omega
    unfold literalCodec_Decode_loop3
    simp only [hult, Bool.false_eq_true, if_false, litPlainDec, decTree]
    exact ⟨_, _, _, rfl, by omega, by omega, rel, inv, htbl, lr⟩
  | succ nb ih =>
    intro fuel c g d tbl sym k rel inv htbl lr hk hs1 hs2 hf
    obtain ⟨f, rfl⟩ : ∃ f, fuel = f + 1 := ⟨fuel - 1, by omega⟩
    have hk7 : k ≤ 7 := by omega
    have hpk : (2:Nat) ^ (k + 1) ≤ 2 ^ 8 := Nat.pow_le_pow_right (by decide) (by omega)
    have hsym : sym.toNat < 256 := by omega
    have hult : BitVec.ult sym (256#32) = true := by
      simp only [BitVec.ult, BitVec.toNat_ofNat, decide_eq_true_eq]; omega
    have hidx : ¬ hi - lo ≤ sym.toNat := by omega
    have key := lit_dstep c g d tbl n (lo + sym.toNat) rel inv htbl lr (by omega)
    rw [← Nat.add_assoc] at key
    simp only [litPlainDec, decTree]
    rw [literalCodec_Decode_loop3]
    cases hs : d.step (some (tbl.get (aLit + lo + sym.toNat))) with
    | none =>
      rw [hs] at key
      obtain ⟨b, g', p', hg⟩ := key
      simp only [hult, if_true, hidx, if_false, hg, eof_bne]
      exact ⟨_, g', rfl⟩
    | some bd =>
      obtain ⟨bit, d1⟩ := bd
      rw [hs] at key
      obtain ⟨g', p', hg, rel', inv', htbl', lr'⟩ := key
      simp only [hult, if_true, hidx, if_false, hg, bne_self_eq_false, Bool.false_eq_true]
      have hb : bitOf bit < 2 := by unfold bitOf; split <;> decide
      have hvn := shl1_or_toNat sym bit (by omega)
      have hp2 : (2:Nat) ^ (k + 1 + 1) = 2 * 2 ^ (k + 1) := by rw [Nat.pow_succ]; omega
      have hp1 : (2:Nat) ^ (k + 1) = 2 * 2 ^ k := by rw [Nat.pow_succ]; omega
      have := ih f { c with probs := c.probs.setIfInBounds (lo + sym.toNat) p' } g' d1 _
        (BitVec.shiftLeft sym 1 ||| BitVec.ofNat 32 (bitOf bit)) (k + 1) rel' inv' htbl' lr'
        (by omega) (by omega) (by omega) (by omega)
      rw [hvn] at this
      exact this


theorem dec_loop2_eq_loop3 (state : BitVec 32) (mt : BitVec 8) (ls : BitVec 32) (sb : BitVec 8) (err : Go.Err)
    (kk m : BitVec 32) (lo hi : Nat) :
    ∀ (fuel : Nat) (c : T_literalCodec) (g : T_rangeDecoder) (sym : BitVec 32),
      literalCodec_Decode_loop2 fuel c g state mt ls sb err kk sym m lo hi
        = Go.Res.bind (literalCodec_Decode_loop3 fuel c g state mt ls sb err kk sym lo hi) (fun x =>
            match x with
            | Sum.inl y => Go.Res.ok (Sum.inl y)
            | Sum.inr (c, d, state, match_, litState, s, err, k, symbol) =>
              Go.Res.ok (Sum.inr (c, d, state, match_, litState, s, err, k, symbol, m))) := by
  intro fuel
  induction fuel with
  | zero => intro c g sym; rfl
  | succ f ih =>
    intro c g sym
    rw [literalCodec_Decode_loop2, literalCodec_Decode_loop3]
    split
    · split
      · rfl
      · dsimp only
        split
        · rfl
        · exact ih _ _ _
    · rfl

/-- what `literalCodec.Decode` does with the result of the matched loop -/
def decTail (f2 lo hi : Nat) :
    Sum (BitVec 8 × Go.Err × T_literalCodec × T_rangeDecoder)
      (T_literalCodec × T_rangeDecoder × BitVec 32 × BitVec 8 × BitVec 32 × BitVec 8 × Go.Err × BitVec 32 × BitVec 32
        × BitVec 32) → Go.Res (BitVec 8 × Go.Err × T_literalCodec × T_rangeDecoder) :=
  fun lr_8 =>
    match lr_8 with
    | Sum.inl lr_8 => Go.Res.ok lr_8
    | Sum.inr (c, d, state, match_, litState, s, err, k, symbol, m) =>
      Go.Res.bind (GoSrc.literalCodec_Decode_loop2 f2 c d state match_ litState s err k symbol m lo hi) (fun lr_14 =>
        match lr_14 with
        | Sum.inl lr_14 => Go.Res.ok lr_14
        | Sum.inr (c, d, _, _, _, _, _, _, symbol, _) =>
          Go.Res.ok (BitVec.setWidth 8 (symbol - (256#32)), Go.Err.nil, c, d))

theorem sym_byte (sym : BitVec 32) (v : Nat) (h : sym.toNat = v + 256) (_hv : v < 256) :
    BitVec.setWidth 8 (sym - 256#32) = BitVec.ofNat 8 v := by
  apply BitVec.eq_of_toNat_eq
  simp only [BitVec.toNat_setWidth, BitVec.toNat_sub, BitVec.toNat_ofNat, h]
  omega

theorem decTail_plain (state : BitVec 32) (mt : BitVec 8) (ls : BitVec 32) (sb : BitVec 8) (err : Go.Err)
    (kk : BitVec 32) (lo hi n : Nat) (hhi : hi = lo + 768) (hn : lo + 768 ≤ n)
    (nb f2 : Nat) (c : T_literalCodec) (g : T_rangeDecoder) (d : Rc.Dec) (tbl : Tbl) (sym m : BitVec 32) (k : Nat)
    (rel : DecRel g d) (inv : DecInv d) (htbl : tbl.ok) (lr : LitRel c tbl n)
    (hk : k + nb = 8) (hs1 : 2 ^ k ≤ sym.toNat) (hs2 : sym.toNat < 2 ^ (k + 1)) (hf : nb < f2) :
    match decTree pm (litPlainDec (aLit + lo) nb sym.toNat) tbl d with
    | none => ∃ v c' g', decTail f2 lo hi (Sum.inr (c, g, state, mt, ls, sb, err, kk, sym, m))
        = Go.Res.ok (v, Go.Err.named "io.EOF", c', g')
    | some (v, tbl', d') => ∃ c' g', decTail f2 lo hi (Sum.inr (c, g, state, mt, ls, sb, err, kk, sym, m))
        = Go.Res.ok (BitVec.ofNat 8 v, Go.Err.nil, c', g')
        ∧ DecRel g' d' ∧ DecInv d' ∧ tbl'.ok ∧ v < 256 ∧ LitRel c' tbl' n := by
  have h := plainDec_loop3 state mt ls sb err kk lo hi n hhi hn nb f2 c g d tbl sym k rel inv htbl lr hk hs1 hs2 hf
  unfold decTail
  simp only [dec_loop2_eq_loop3]
  cases hp : decTree pm (litPlainDec (aLit + lo) nb sym.toNat) tbl d with
  | none =>
    rw [hp] at h
    obtain ⟨c', g', hg⟩ := h
    simp only [hg, Go.Res.bind_ok]
    exact ⟨_, _, _, rfl⟩
  | some x =>
    obtain ⟨v, tbl', d'⟩ := x
    rw [hp] at h
    obtain ⟨c', g', s', hg, h1, h2, h3, h4, h5, h6⟩ := h
    simp only [hg, Go.Res.bind_ok, sym_byte s' v h1 h2]
    exact ⟨_, _, rfl, h3, h4, h5, h2, h6⟩


theorem matchedDec_loop (state : BitVec 32) (mt : BitVec 8) (ls : BitVec 32) (sb : BitVec 8) (err : Go.Err)
    (kk : BitVec 32) (mv : Nat) (hmv : mv < 256) (lo hi n : Nat) (hhi : hi = lo + 768) (hn : lo + 768 ≤ n)
    (nb : Nat) :
    ∀ (f1 f2 : Nat) (c : T_literalCodec) (g : T_rangeDecoder) (d : Rc.Dec) (tbl : Tbl) (sym m : BitVec 32) (k : Nat),
      DecRel g d → DecInv d → tbl.ok → LitRel c tbl n →
      k + (nb + 1) = 8 → 2 ^ k ≤ sym.toNat → sym.toNat < 2 ^ (k + 1) → m.toNat = mv * 2 ^ k →
      nb + 1 < f1 → nb + 1 < f2 →
      match decTree pm (litMatchedDec (aLit + lo) (nb + 1) sym.toNat mv) tbl d with
      | none => ∃ v c' g', Go.Res.bind (literalCodec_Decode_loop1 f1 c g state mt ls sb err kk sym m lo hi)
          (decTail f2 lo hi) = Go.Res.ok (v, Go.Err.named "io.EOF", c', g')
      | some (v, tbl', d') => ∃ c' g', Go.Res.bind (literalCodec_Decode_loop1 f1 c g state mt ls sb err kk sym m lo hi)
          (decTail f2 lo hi) = Go.Res.ok (BitVec.ofNat 8 v, Go.Err.nil, c', g')
          ∧ DecRel g' d' ∧ DecInv d' ∧ tbl'.ok ∧ v < 256 ∧ LitRel c' tbl' n := by
  induction nb using Nat.strongRecOn with
  | ind nb ih =>
    intro f1 f2 c g d tbl sym m k rel inv htbl lr hk hs1 hs2 hm hf1 hf2
    obtain ⟨f, rfl⟩ : ∃ f, f1 = f + 1 := ⟨f1 - 1, by omega⟩
    have hk7 : k ≤ 7 := by omega
    have hpk : (2:Nat) ^ (k + 1) ≤ 2 ^ 8 := Nat.pow_le_pow_right (by decide) (by omega)
    have hsym : sym.toNat < 256 := by omega
    obtain ⟨-, hmn⟩ := bit_facts m 7
    have hnb : 7 - k = nb := by omega
    rw [hm, shifted_bit mv k hk7, hnb] at hmn
    have hmb1 : mv / 2 ^ nb % 2 ≤ 1 := by omega
    have hidxv := match_index ((BitVec.ushiftRight m 7) &&& 1#32) sym (by omega) hsym
    rw [hmn] at hidxv
    have key := lit_dstep c g d tbl n (lo + ((1 + mv / 2 ^ nb % 2) * 256 + sym.toNat)) rel inv htbl lr (by omega)
    have hA : aLit + (lo + ((1 + mv / 2 ^ nb % 2) * 256 + sym.toNat))
        = aLit + lo + (1 + mv / 2 ^ nb % 2) * 256 + sym.toNat := by omega
    rw [hA] at key
    have hidx : ¬ hi - lo ≤ (1 + mv / 2 ^ nb % 2) * 256 + sym.toNat := by omega
    simp only [litMatchedDec, decTree]
    rw [literalCodec_Decode_loop1]
    cases hs : d.step (some (tbl.get (aLit + lo + (1 + mv / 2 ^ nb % 2) * 256 + sym.toNat))) with
    | none =>
      rw [hs] at key
      obtain ⟨b, g', p', hg⟩ := key
      simp only [hidxv, hidx, if_false, hg, eof_bne, if_true, Go.Res.bind_ok, decTail]
      exact ⟨_, _, g', rfl⟩
    | some bd =>
      obtain ⟨bit, d1⟩ := bd
      rw [hs] at key
      obtain ⟨g', p', hg, rel', inv', htbl', lr'⟩ := key
      have hb : bitOf bit < 2 := by unfold bitOf; split <;> decide
      have hvn := shl1_or_toNat sym bit (by omega)
      have hp2 : (2:Nat) ^ (k + 1 + 1) = 2 * 2 ^ (k + 1) := by rw [Nat.pow_succ]; omega
      have hp1 : (2:Nat) ^ (k + 1) = 2 * 2 ^ k := by rw [Nat.pow_succ]; omega
      have hm' := shl1_toNat m mv k hmv hk7 hm
      have hne : (((BitVec.ushiftRight m 7) &&& 1#32) != BitVec.ofNat 32 (bitOf bit))
          = !decide (bitOf bit = mv / 2 ^ nb % 2) :=
        bne_toNat _ _ _ _ hmn (by simp only [BitVec.toNat_ofNat]; omega)
      have hule : BitVec.ule (256#32) ((BitVec.shiftLeft sym 1) ||| BitVec.ofNat 32 (bitOf bit))
          = decide (nb = 0) := by
        simp only [BitVec.ule, hvn, BitVec.toNat_ofNat]
        by_cases h0 : nb = 0
        · have : k = 7 := by omega
          subst this
          simp only [h0, decide_true, decide_eq_true_eq]; omega
        · have : (2:Nat) ^ (k + 1 + 1) ≤ 2 ^ 8 := Nat.pow_le_pow_right (by decide) (by omega)
          simp only [h0, decide_false, decide_eq_false_iff_not]; omega
      simp only [hidxv, hidx, if_false, hg, bne_self_eq_false, Bool.false_eq_true, hne, hule]
      by_cases hmm : bitOf bit = mv / 2 ^ nb % 2
      · have hdec : decide (bitOf bit = mv / 2 ^ nb % 2) = true := decide_eq_true hmm
        rw [if_pos hmm]
        simp only [hdec, Bool.not_true, Bool.false_eq_true, if_false]
        cases nb with
        | zero =>
          simp only [decide_true, if_true, Go.Res.bind_ok]
          have hT := decTail_plain state mt ls sb err kk lo hi n hhi hn 0 f2
            { c with probs := c.probs.setIfInBounds (lo + ((1 + mv / 2 ^ 0 % 2) * 256 + sym.toNat)) p' } g' d1 _
            ((BitVec.shiftLeft sym 1) ||| BitVec.ofNat 32 (bitOf bit)) (BitVec.shiftLeft m 1) (k + 1)
            rel' inv' htbl' lr' (by omega) (by omega) (by omega) (by omega)
          rw [hvn] at hT
          simp only [litMatchedDec, litPlainDec] at hT ⊢
          exact hT
        | succ nb' =>
          simp only [Nat.succ_ne_zero, decide_false, Bool.false_eq_true, if_false]
          have IH := ih nb' (by omega) f f2
            { c with probs := c.probs.setIfInBounds (lo + ((1 + mv / 2 ^ (nb' + 1) % 2) * 256 + sym.toNat)) p' } g' d1 _
            ((BitVec.shiftLeft sym 1) ||| BitVec.ofNat 32 (bitOf bit)) (BitVec.shiftLeft m 1) (k + 1)
            rel' inv' htbl' lr' (by omega) (by omega) (by omega) hm' (by omega) (by omega)
          rw [hvn] at IH
          exact IH
      · have hdec : decide (bitOf bit = mv / 2 ^ nb % 2) = false := decide_eq_false hmm
        rw [if_neg hmm]
        simp only [hdec, Bool.not_false, if_true, Go.Res.bind_ok]
        have hT := decTail_plain state mt ls sb err kk lo hi n hhi hn nb f2
          { c with probs := c.probs.setIfInBounds (lo + ((1 + mv / 2 ^ nb % 2) * 256 + sym.toNat)) p' } g' d1 _
          ((BitVec.shiftLeft sym 1) ||| BitVec.ofNat 32 (bitOf bit)) (BitVec.shiftLeft m 1) (k + 1)
          rel' inv' htbl' lr' (by omega) (by omega) (by omega) (by omega)
        rw [hvn] at hT
        exact hT

theorem literalCodec_Decode_refines (fuel : Nat) (c : T_literalCodec) (g : T_rangeDecoder) (d : Rc.Dec)
    (state : BitVec 32) (mtch : BitVec 8) (litState : BitVec 32) (tbl : Tbl) (n : Nat)
    (rel : DecRel g d) (inv : DecInv d) (htbl : tbl.ok) (lr : LitRel c tbl n)
    (hls : 0x300 * (litState.toNat + 1) ≤ n) (hn : n ≤ 0x300 * 2 ^ 12) (hfuel : 40 ≤ fuel) :
    match decTree pm (litTree state.toNat litState.toNat mtch.toNat) tbl d with
    | none => ∃ v c' g', literalCodec_Decode fuel c g state mtch litState = Go.Res.ok (v, Go.Err.named "io.EOF", c', g')
    | some (v, tbl', d') =>
      ∃ c' g', literalCodec_Decode fuel c g state mtch litState = Go.Res.ok (BitVec.ofNat 8 v, Go.Err.nil, c', g')
        ∧ DecRel g' d' ∧ DecInv d' ∧ tbl'.ok ∧ v < 256 ∧ LitRel c' tbl' n := by
  have hlo : (litState * 768#32).toNat = 0x300 * litState.toNat := by
    simp only [BitVec.toNat_mul, BitVec.toNat_ofNat]; omega
  have hhi : (litState * 768#32 + 768#32).toNat = 0x300 * litState.toNat + 768 := by
    simp only [BitVec.toNat_add, hlo, BitVec.toNat_ofNat]; omega
  have hdef : literalCodec_Decode fuel c g state mtch litState =
      if (litState * 768#32 + 768#32).toNat < (litState * 768#32).toNat
          ∨ c.probs.size < (litState * 768#32 + 768#32).toNat then Go.Res.panic "slice bounds out of range" else
      if (BitVec.ule (7#32) state) then
        Go.Res.bind (literalCodec_Decode_loop1 fuel c g state mtch litState (0#8) Go.Err.nil (litState * 768#32) (1#32)
          (BitVec.setWidth 32 mtch) (litState * 768#32).toNat (litState * 768#32 + 768#32).toNat)
          (decTail fuel (litState * 768#32).toNat (litState * 768#32 + 768#32).toNat)
      else
        Go.Res.bind (literalCodec_Decode_loop3 fuel c g state mtch litState (0#8) Go.Err.nil (litState * 768#32) (1#32)
          (litState * 768#32).toNat (litState * 768#32 + 768#32).toNat) (fun lr_20 =>
            match lr_20 with
            | Sum.inl lr_20 => Go.Res.ok lr_20
            | Sum.inr (c, d, _, _, _, _, _, _, symbol) =>
              Go.Res.ok (BitVec.setWidth 8 (symbol - (256#32)), Go.Err.nil, c, d)) := rfl
  rw [hdef, hhi, hlo, if_neg (by rw [lr.size]; omega)]
  have hm : mtch.toNat < 256 := mtch.isLt
  have hmr : (BitVec.setWidth 32 mtch).toNat = mtch.toNat * 2 ^ 0 := by
    simp only [BitVec.toNat_setWidth]; omega
  have h1 : (1#32).toNat = 1 := rfl
  unfold litTree
  by_cases hst : state.toNat ≥ 7
  · have hule : BitVec.ule (7#32) state = true := by
      simp only [BitVec.ule, BitVec.toNat_ofNat, decide_eq_true_eq]; omega
    rw [if_pos hst, if_pos hule]
    have h := matchedDec_loop state mtch litState (0#8) Go.Err.nil (litState * 768#32) mtch.toNat hm
      (0x300 * litState.toNat) (0x300 * litState.toNat + 768) n rfl (by omega) 7 fuel fuel c g d tbl
      (1#32) (BitVec.setWidth 32 mtch) 0 rel inv htbl lr (by omega) (by decide) (by decide) hmr
      (by omega) (by omega)
    rw [h1] at h
    exact h
  · have hule : BitVec.ule (7#32) state = false := by
      simp only [BitVec.ule, BitVec.toNat_ofNat, decide_eq_false_iff_not]; omega
    rw [if_neg hst, hule, if_neg (by decide)]
    have h := plainDec_loop3 state mtch litState (0#8) Go.Err.nil (litState * 768#32)
      (0x300 * litState.toNat) (0x300 * litState.toNat + 768) n rfl (by omega) 8 fuel c g d tbl
      (1#32) 0 rel inv htbl lr (by omega) (by decide) (by decide) (by omega)
    rw [h1] at h
    cases hp : decTree pm (litPlainDec (aLit + 0x300 * litState.toNat) 8 1) tbl d with
    | none =>
      rw [hp] at h
      obtain ⟨c', g', hg⟩ := h
      simp only [hg, Go.Res.bind_ok]
      exact ⟨_, _, _, rfl⟩
    | some x =>
      obtain ⟨v, tbl', d'⟩ := x
      rw [hp] at h
      obtain ⟨c', g', s', hg, h2, h3, h4, h5, h6, h7⟩ := h
      simp only [hg, Go.Res.bind_ok, sym_byte s' v h2 h3]
      exact ⟨_, _, rfl, h4, h5, h6, h3, h7⟩

/-- a literal state outside the slice is Go's slice-bounds panic (never reached: `litState < 2^(lc+lp)`) -/
theorem literalCodec_Encode_bounds (fuel : Nat) (c : T_literalCodec) (g : T_rangeEncoder)
    (s : BitVec 8) (state : BitVec 32) (mtch : BitVec 8) (litState : BitVec 32)
    (h : c.probs.size < 0x300 * (litState.toNat + 1)) (hlt : litState.toNat < 2 ^ 20) :
    literalCodec_Encode fuel c g s state mtch litState = Go.Res.panic "slice bounds out of range" := by
  have hlo : (litState * 768#32).toNat = 0x300 * litState.toNat := by
    simp only [BitVec.toNat_mul, BitVec.toNat_ofNat]; omega
  have hhi : (litState * 768#32 + 768#32).toNat = 0x300 * litState.toNat + 768 := by
    simp only [BitVec.toNat_add, hlo, BitVec.toNat_ofNat]; omega
  unfold literalCodec_Encode
  simp only [hhi, hlo]
  rw [if_pos (Or.inr (by omega))]

end GoSrcP

