import XzVerif.Proofs.RunOps

/-!
  One operation of the LZMA2 writer with the HashTable4 match finder inside a run of one byte value: the local
  cost invariant `Loc` of the open chunk is preserved (`opstep`).
-/

set_option linter.unusedSimpArgs false
set_option linter.unusedVariables false
set_option maxRecDepth 8000

namespace RunCost
open Lzma Rc W2

variable {σ : Type}

/-- the dictionary holds a run of `b` around the read position -/
structure RunB (b : UInt8) (w : WSt σ) : Prop where
  hlast : 1 ≤ w.hist.size → w.hist.get! (w.hist.size - 1) = b
  hall : ∀ i, i < w.look.size → w.look.get! i = b

/-- cost invariant of the open chunk: `X` expected decisions of steady-state operations, `Y` irregular
    operations, allowance `A` for the short operation that ends a chunk -/
structure Loc (c : Cfg) (w : WSt σ) (X Y A : Nat) : Prop where
  li : Enc.init.range * S w.tbl * LE ^ X * 256 ^ w.digits ≤ w.e.range * S w.snapTbl * KE ^ X * G ^ Y * 256
  x : X * 273 ≤ 14 * (w.hist.size - w.start)
  y : Y + dbt w.s w.hist.size ≤ 3 * (w.hist.size / Lc c - w.start / Lc c) + dbt w.snapS w.start + A
  yf : Y ≤ 3 * (w.hist.size / Lc c - w.start / Lc c) + dbt w.snapS w.start + 1
  tsz : 1856 ≤ w.tbl.size

theorem comb (a b r s s' k P P' r' : Nat) (hpos : 0 < r * s * P) (h1 : a * s * P ≤ r * b)
    (h2 : r * s' * P' ≤ r' * s * k * P) : a * s' * P' ≤ r' * b * k := by
  apply Nat.le_of_mul_le_mul_right _ hpos
  calc a * s' * P' * (r * s * P) = (a * s * P) * (r * s' * P') := by ring
    _ ≤ (r * b) * (r' * s * k * P) := Nat.mul_le_mul h1 h2
    _ = r' * b * k * (r * s * P) := by ring

/-- potential part of `Loc` after an arbitrary operation -/
theorem li_any (c : Cfg) (w w' : WSt σ) (g : GoOp) (hi : Inv c w) (hwf : (classify w.s g).wf)
    (h : encodeOp c w g = .ok w') (hsn : w'.snapTbl = w.snapTbl) {X Y : Nat}
    (hli : Enc.init.range * S w.tbl * LE ^ X * 256 ^ w.digits ≤ w.e.range * S w.snapTbl * KE ^ X * G ^ Y * 256) :
    Enc.init.range * S w'.tbl * LE ^ X * 256 ^ w'.digits ≤
      w'.e.range * S w'.snapTbl * KE ^ X * G ^ (Y + 1) * 256 := by
  obtain ⟨_, ht, hr, hd⟩ := encodeOp_ok c w w' g h
  have hcnt := opEnc_count_le (w.ctx c) (classify w.s g) hwf
  generalize opEnc (w.ctx c) (classify w.s g) = π at *
  have hpp := path_pot_any π w.tbl w.e hi.tblok hi.erest
  have hg := g_bound (nA π) (nD π) hcnt.1 hcnt.2
  have hdig := digits_eq w hi.eout
  rw [ht, hr, hd, hsn]
  rw [hdig] at hli
  generalize (w.e.encodeAll (toDecns pm w.tbl π)) = E at *
  have hpos : 0 < w.e.range * S w.tbl * 256 ^ (w.body.size + w.e.digits) :=
    Nat.mul_pos (Nat.mul_pos (Nat.lt_of_lt_of_le (by decide) hi.erest.rlo) (S_pos _ hi.tblok))
      (Nat.pow_pos (by omega))
  have h2 : w.e.range * S (tblAfter w.tbl π) * 256 ^ (w.body.size + E.digits) ≤
      E.range * S w.tbl * G * 256 ^ (w.body.size + w.e.digits) := by
    rw [Nat.pow_add, Nat.pow_add]
    calc w.e.range * S (tblAfter w.tbl π) * (256 ^ w.body.size * 256 ^ E.digits)
        = (w.e.range * S (tblAfter w.tbl π) * 1 * 256 ^ E.digits) * 256 ^ w.body.size := by ring
      _ ≤ (E.range * S w.tbl * (128 ^ nA π * 3 ^ nD π) * 256 ^ w.e.digits) * 256 ^ w.body.size :=
          Nat.mul_le_mul_right _ hpp
      _ ≤ (E.range * S w.tbl * G * 256 ^ w.e.digits) * 256 ^ w.body.size :=
          Nat.mul_le_mul_right _ (Nat.mul_le_mul_right _ (Nat.mul_le_mul_left _ hg))
      _ = _ := by ring
  have h1 : (Enc.init.range * LE ^ X) * S w.tbl * 256 ^ (w.body.size + w.e.digits) ≤
      w.e.range * (S w.snapTbl * KE ^ X * G ^ Y * 256) := by
    calc _ = Enc.init.range * S w.tbl * LE ^ X * 256 ^ (w.body.size + w.e.digits) := by ring
      _ ≤ _ := hli
      _ = _ := by ring
  have := comb _ _ _ _ _ _ _ _ _ hpos h1 h2
  calc _ = Enc.init.range * LE ^ X * S (tblAfter w.tbl π) * 256 ^ (w.body.size + E.digits) := by ring
    _ ≤ _ := this
    _ = _ := by rw [Nat.pow_succ]; ring

/-- potential part of `Loc` after the steady-state operation -/
theorem li_reg (c : Cfg) (w w' : WSt σ) (g : GoOp) (hi : Inv c w) (hcl : classify w.s g = .rep 0 273)
    (hst : w.s.st = 11) (hps : (w.ctx c).ps < 16) (htsz : 1856 ≤ w.tbl.size)
    (h : encodeOp c w g = .ok w') (hsn : w'.snapTbl = w.snapTbl) {X Y : Nat}
    (hli : Enc.init.range * S w.tbl * LE ^ X * 256 ^ w.digits ≤ w.e.range * S w.snapTbl * KE ^ X * G ^ Y * 256) :
    Enc.init.range * S w'.tbl * LE ^ (X + 14) * 256 ^ w'.digits ≤
      w'.e.range * S w'.snapTbl * KE ^ (X + 14) * G ^ Y * 256 := by
  obtain ⟨_, ht, hr, hd⟩ := encodeOp_ok c w w' g h
  rw [hcl] at ht hr hd
  obtain ⟨hexp, hlen⟩ := reg_path (w.ctx c) hst hps
  generalize opEnc (w.ctx c) (.rep 0 273) = π at *
  have hpp := path_pot_exp π w.tbl w.e hi.tblok hi.erest (expPath_mono hexp htsz)
  rw [hlen] at hpp
  have hdig := digits_eq w hi.eout
  rw [ht, hr, hd, hsn]
  rw [hdig] at hli
  generalize (w.e.encodeAll (toDecns pm w.tbl π)) = E at *
  have hpos : 0 < w.e.range * S w.tbl * 256 ^ (w.body.size + w.e.digits) :=
    Nat.mul_pos (Nat.mul_pos (Nat.lt_of_lt_of_le (by decide) hi.erest.rlo) (S_pos _ hi.tblok))
      (Nat.pow_pos (by omega))
  have h2 : w.e.range * (S (tblAfter w.tbl π) * LE ^ 14) * 256 ^ (w.body.size + E.digits) ≤
      E.range * S w.tbl * KE ^ 14 * 256 ^ (w.body.size + w.e.digits) := by
    rw [Nat.pow_add, Nat.pow_add]
    calc w.e.range * (S (tblAfter w.tbl π) * LE ^ 14) * (256 ^ w.body.size * 256 ^ E.digits)
        = (w.e.range * S (tblAfter w.tbl π) * LE ^ 14 * 256 ^ E.digits) * 256 ^ w.body.size := by ring
      _ ≤ (E.range * S w.tbl * KE ^ 14 * 256 ^ w.e.digits) * 256 ^ w.body.size :=
          Nat.mul_le_mul_right _ hpp
      _ = _ := by ring
  have h1 : (Enc.init.range * LE ^ X) * S w.tbl * 256 ^ (w.body.size + w.e.digits) ≤
      w.e.range * (S w.snapTbl * KE ^ X * G ^ Y * 256) := by
    calc _ = Enc.init.range * S w.tbl * LE ^ X * 256 ^ (w.body.size + w.e.digits) := by ring
      _ ≤ _ := hli
      _ = _ := by ring
  have := comb _ _ _ _ _ _ _ _ _ hpos h1 h2
  calc _ = Enc.init.range * LE ^ X * (S (tblAfter w.tbl π) * LE ^ 14) * 256 ^ (w.body.size + E.digits) := by
        rw [Nat.pow_add]; ring
    _ ≤ _ := this
    _ = _ := by rw [Nat.pow_add]; ring

theorem div_step (L h n : Nat) (hL : 0 < L) (hn : L + 1 ≤ h % L + n) : h / L + 1 ≤ (h + n) / L := by
  rw [Nat.le_div_iff_mul_le hL]
  have := Nat.div_add_mod h L
  have h2 : (h / L + 1) * L = L * (h / L) + L := by ring
  rw [h2]
  omega

theorem hmargin : 25 ≤ Gen.lzma_opLenMargin := by decide

theorem x_step (X h s : Nat) (hx : X * 273 ≤ 14 * (h - s)) (hs : s ≤ h) :
    (X + 14) * 273 ≤ 14 * (h + 273 - s) := by omega

theorem yf_step (Y a a' s0 d : Nat) (hy : Y ≤ 3 * (a - s0) + d + 1) (ha : a ≤ a') :
    Y ≤ 3 * (a' - s0) + d + 1 := by omega

theorem y_step (Y a a' s0 d : Nat) (hy : Y + 0 ≤ 3 * (a - s0) + d + 0) (ha : a ≤ a') :
    Y + 0 ≤ 3 * (a' - s0) + d + 0 := by omega

theorem dbt_zero (s : Lzma.St) (hs : Nat) (h1 : 1 ≤ hs) (hr : s.r0 = 0) (hst : s.st = 11) : dbt s hs = 0 := by
  unfold dbt
  rw [if_neg (by omega), if_neg (by omega), if_pos hst]

theorem dbt_r0 (s : Lzma.St) (hs : Nat) (h1 : 1 ≤ hs) (hr : s.r0 ≠ 0) : dbt s hs = 2 := by
  unfold dbt
  rw [if_neg (by omega), if_pos hr]

theorem dbt_lit (s : Lzma.St) (hs : Nat) (h1 : 1 ≤ hs) (hr : s.r0 = 0) (hst : s.st < 7) : dbt s hs = 2 := by
  unfold dbt
  rw [if_neg (by omega), if_neg (by omega), if_neg (by omega), if_neg (by omega)]

theorem dbt_mid (s : Lzma.St) (hs : Nat) (h1 : 1 ≤ hs) (hr : s.r0 = 0) (h7 : 7 ≤ s.st) (hst : s.st ≠ 11) :
    dbt s hs = 1 := by
  unfold dbt
  rw [if_neg (by omega), if_neg (by omega), if_neg hst, if_pos h7]

theorem dbt_ge7 (s : Lzma.St) (hs : Nat) (h1 : 1 ≤ hs) (hr : s.r0 = 0) (h7 : 7 ≤ s.st) : dbt s hs ≤ 1 := by
  unfold dbt
  rw [if_neg (by omega), if_neg (by omega)]
  split_ifs <;> omega

/-- **one operation** of the writer inside a run -/
theorem opstep (c : Cfg) (hc : CfgOk c) (b : UInt8) (w w' : WSt HT.St) (hi : InvI c (HT.Synced c) w)
    (hb : RunB b w) (hl : 1 ≤ w.look.size)
    (hadm : w.digits + 4 + Gen.lzma_opLenMargin ≤ Gen.lzma_maxCompressed) {X Y : Nat} (hloc : Loc c w X Y 0)
    (hres : encodeOp c { w with m := (HT.HT4.next w.m w.hist w.look w.s).2 }
      (HT.HT4.next w.m w.hist w.look w.s).1 = .ok w') :
    RunB b w' ∧ ∃ X' Y', Loc c w' X' Y' 0 ∨ (w.look.size < 273 ∧ w'.look.size = 0 ∧ Loc c w' X' Y' 3) := by
  have hMI := matcherInv' (HT.ht4_matcherInv c)
  have hc' := cfgOk' hc
  have hg := hMI.ok w.m w.hist w.look w.s hi.sync hl hi.space
  have hi1 := hi.toInv.setM (HT.HT4.next w.m w.hist w.look w.s).2
  generalize hgg : (HT.HT4.next w.m w.hist w.look w.s).1 = g at *
  have hop := encodeOp_spec c hc' _ g hi1 hg hadm
  rw [hres] at hop
  obtain ⟨hi', hf, hlk, _, hh', hl'⟩ := hop
  have hh'' : w'.hist = w.hist ++ w.look.extract 0 g.len := hh'
  have hl'' : w'.look = w.look.extract g.len w.look.size := hl'
  obtain ⟨_, hlen1, hlen2⟩ := goOp_encodable c hc' w.hist w.look w.s g hg
  have hwf := (classify_opOk c hc' w.hist w.look w.s g hg).1
  have hhs : w'.hist.size = w.hist.size + g.len := by
    rw [hh'', ByteArray.size_append, ByteArray.size_extract]; omega
  have hls : w'.look.size = w.look.size - g.len := by
    rw [hl'', ByteArray.size_extract]; omega
  have hLpos : 0 < Lc c := by unfold Lc; omega
  have hsn : w'.snapTbl = w.snapTbl := hf.snapTbl
  have hss : w'.snapS = w.snapS := hf.snapS
  have hstart : w'.start = w.start := hf.start
  have hs0 := hi.start
  have hmono : w.hist.size / Lc c ≤ w'.hist.size / Lc c := Nat.div_le_div_right (by omega)
  have hmono0 : w.start / Lc c ≤ w.hist.size / Lc c := Nat.div_le_div_right hs0
  obtain ⟨hsapp, htbl, _, _⟩ := encodeOp_ok c _ w' g hres
  have hsapp' : w'.s = w.s.apply (classify w.s g) := hsapp
  have htsz' : 1856 ≤ w'.tbl.size := by rw [htbl, tblAfter_size]; exact hloc.tsz
  -- the bytes
  have hb' : RunB b w' := by
    constructor
    · intro _
      rw [hhs, hh'', show w.hist.size + g.len - 1 = w.hist.size + (g.len - 1) by omega,
        Lzma2.get!_append_right, get!_extract0 _ _ _ (by omega)]
      exact hb.hall _ (by omega)
    · intro i hi2
      rw [hls] at hi2
      rw [hl'', Ring.get!_extract w.look g.len w.look.size i (Nat.le_refl _) (by omega)]
      exact hb.hall _ (by omega)
  refine ⟨hb', ?_⟩
  have hany := li_any c _ w' g hi1 hwf hres hsn hloc.li
  have hdb2 : dbt w'.s w'.hist.size ≤ 2 := dbt_le2 _ _ (by omega)
  -- the irregular cases share this conclusion
  have irr : (dbt w'.s w'.hist.size + 1 ≤ dbt w.s w.hist.size + 3 * (w'.hist.size / Lc c - w.hist.size / Lc c) ∨
      (w.look.size < 273 ∧ w'.look.size = 0)) →
      ∃ X' Y', Loc c w' X' Y' 0 ∨ (w.look.size < 273 ∧ w'.look.size = 0 ∧ Loc c w' X' Y' 3) := by
    intro hcase
    have hy := hloc.y
    have hx := hloc.x
    refine ⟨X, Y + 1, ?_⟩
    rcases hcase with hcase | ⟨h1, h2⟩
    · left
      refine ⟨hany, by rw [hstart]; omega, ?_, ?_, htsz'⟩
      · rw [hstart, hss]; omega
      · rw [hstart, hss]; omega
    · right
      refine ⟨h1, h2, hany, by rw [hstart]; omega, ?_, ?_, htsz'⟩
      · rw [hstart, hss]; omega
      · rw [hstart, hss]; omega
  by_cases hh0 : w.hist.size = 0
  · -- the very first operation
    apply irr
    left
    have : dbt w.s w.hist.size = 3 := by unfold dbt; rw [if_pos hh0]
    omega
  have hh1 : 1 ≤ w.hist.size := by omega
  by_cases hwrap : 1 ≤ w.hist.size % Lc c ∧ Lc c + 1 < w.hist.size % Lc c + min 273 w.look.size
  · -- the match source hits the physical end of the ring
    obtain ⟨dist, n, hgn, hn⟩ := ht4_wrap c hc b w.m w.hist w.look w.s hi.sync hh1 hl hi.space (hb.hlast hh1)
      hb.hall (by unfold Lc at hwrap; exact ⟨hwrap.1, by omega⟩)
    rw [hgg] at hgn
    subst hgn
    have hlen : (GoOp.mtch dist n).len = n := rfl
    rw [hlen] at hhs
    have hmod : w.hist.size % Lc c < Lc c := Nat.mod_lt _ hLpos
    have hds := div_step (Lc c) w.hist.size n hLpos (by unfold Lc at *; omega)
    apply irr
    left
    rw [hhs]
    have : dbt w'.s (w.hist.size + n) ≤ 2 := by rw [← hhs]; exact hdb2
    omega
  · have hphys : w.hist.size % (c.dictCap + c.bufSize + 1) = 0 ∨
        w.hist.size % (c.dictCap + c.bufSize + 1) + min 273 w.look.size ≤ c.dictCap + c.bufSize + 2 := by
      unfold Lc at hwrap
      omega
    by_cases hn : 2 ≤ min 273 w.look.size ∨ w.s.r0 = 0
    · have hgn := ht4_run c hc b w.m w.hist w.look w.s hi.sync hh1 hl hi.space (hb.hlast hh1) hb.hall hphys hn
      rw [hgg] at hgn
      subst hgn
      have hlen : (GoOp.mtch 1 (min 273 w.look.size)).len = min 273 w.look.size := rfl
      rw [hlen] at hhs hls
      by_cases hbig : 273 ≤ w.look.size
      · have hN : min 273 w.look.size = 273 := by omega
        rw [hN] at hhs hls hsapp' hres hwf hg
        by_cases hr0 : w.s.r0 = 0
        · have hcl := classify_rep0 w.s 273 (by omega) hr0
          rw [hcl] at hsapp'
          have hst' : w'.s.st = updRep w.s.st := by rw [hsapp']; rfl
          have hr0' : w'.s.r0 = 0 := by rw [hsapp']; exact hr0
          by_cases hst : w.s.st = 11
          · -- the steady-state operation
            have hps : (({ w with m := (HT.HT4.next w.m w.hist w.look w.s).2 } : WSt HT.St).ctx c).ps < 16 := by
              show w.hist.size % 2 ^ c.props.pb < 16
              have hpb : c.props.pb ≤ 4 := hc.1.2.2
              have h16 : 2 ^ c.props.pb ≤ 2 ^ 4 := Nat.pow_le_pow_right (by omega) hpb
              have := Nat.mod_lt w.hist.size (Nat.pow_pos (by omega) : 0 < 2 ^ c.props.pb)
              omega
            have hreg := li_reg c _ w' _ hi1 hcl hst hps hloc.tsz hres hsn hloc.li
            have hst2 : w'.s.st = 11 := by rw [hst', hst]; rfl
            have hd0 : dbt w.s w.hist.size = 0 := dbt_zero _ _ hh1 hr0 hst
            have hd1 : dbt w'.s w'.hist.size = 0 := dbt_zero _ _ (by omega) hr0' hst2
            have hy := hloc.y
            have hx := hloc.x
            have hyf := hloc.yf
            refine ⟨X + 14, Y, Or.inl ⟨hreg, ?_, ?_, ?_, htsz'⟩⟩
            · rw [hstart, hhs]; exact x_step _ _ _ hx hs0
            · rw [hstart, hss, hd1]
              rw [hd0] at hy
              exact y_step _ _ _ _ _ hy hmono
            · rw [hstart, hss]
              exact yf_step _ _ _ _ _ hyf hmono
          · apply irr
            left
            by_cases h7 : w.s.st < 7
            · have hd0 : dbt w.s w.hist.size = 2 := dbt_lit _ _ hh1 hr0 h7
              have hst2 : w'.s.st = 8 := by rw [hst']; unfold updRep; rw [if_pos h7]
              have hd1 : dbt w'.s w'.hist.size ≤ 1 := dbt_ge7 _ _ (by omega) hr0' (by omega)
              omega
            · have hd0 : dbt w.s w.hist.size = 1 := dbt_mid _ _ hh1 hr0 (by omega) hst
              have hst2 : w'.s.st = 11 := by rw [hst']; unfold updRep; rw [if_neg h7]
              have hd1 : dbt w'.s w'.hist.size = 0 := dbt_zero _ _ (by omega) hr0' hst2
              omega
        · obtain ⟨f1, f2⟩ := classify_fix w.s 273 hr0
          rw [← hsapp'] at f1 f2
          apply irr
          left
          have hd0 : dbt w.s w.hist.size = 2 := dbt_r0 _ _ hh1 hr0
          have hd1 : dbt w'.s w'.hist.size ≤ 1 := dbt_ge7 _ _ (by omega) f1 f2
          omega
      · apply irr
        right
        exact ⟨by omega, by omega⟩
    · -- one byte left and rep0 ≠ 0: whatever is proposed consumes it
      apply irr
      right
      exact ⟨by omega, by omega⟩

end RunCost
